(* C14 — Functional slice and map helpers equal their reference definitions.
   Statements only; every proof is [exact] of a lemma from
   Slices/FuncProofs.v or Maps/MapHelpersProofs.v.

   Quantifiers: every element / state / key / result type, every list (no
   bound on the length), every Gallina callback; for a [comparable] Go type
   every boolean equality [eqb] that decides Leibniz equality; for the map
   helpers every gmap and every order [visit] in which [range] may visit it.
   The models are in Slices/Func.v and Maps/MapHelpers.v; slices are lists
   (value model), so "the input is not modified" and "the result is a fresh
   slice / map" are outside these statements: the harness checks them on
   every case. *)
From Typ Require Import Maps.MapHelpers Maps.MapHelpersProofs.
From Typ Require Import Lib.Base Slices.Func Slices.FuncProofs.
From Coq Require Import Permutation.

(* ---- Fold, FoldReverse ---- *)

(* acc(...acc(acc(seed, s[0]), s[1])..., s[n-1]) *)
Theorem C14_fold : forall (A State : Type) (l : list A) (seed : State) (acc : State -> A -> State),
  fold l seed acc = fold_left acc l seed.
Proof. exact @fold_correct. Qed.
Print Assumptions C14_fold.

(* acc applied from the last element down to the first; never panics *)
Theorem C14_fold_reverse : forall (A State : Type) (l : list A) (seed : State) (acc : State -> A -> State),
  foldreverse l seed acc = Ok (fold_left acc (rev l) seed).
Proof. exact @foldreverse_correct. Qed.
Print Assumptions C14_fold_reverse.

Theorem C14_fold_empty : forall (A State : Type) (seed : State) (acc : State -> A -> State),
  fold [] seed acc = seed /\ foldreverse [] seed acc = Ok seed.
Proof. exact @fold_empty. Qed.
Print Assumptions C14_fold_empty.

(* ---- Map, MapErr, Filter, Any, All ---- *)

Theorem C14_map : forall (A B : Type) (zero : B) (l : list A) (conv : A -> B),
  map_ zero l conv = Ok (map conv l).
Proof. exact @map_correct. Qed.
Print Assumptions C14_map.

(* no conversion fails: all results, no error, conv called once per element in order *)
Theorem C14_map_err_no_error : forall (A B E : Type) (zero : B) (l : list A) (conv : A -> B * option E),
  (forall x, In x l -> snd (conv x) = None) ->
  maperr zero l conv = Ok (map (fun x => fst (conv x)) l, None, l).
Proof. exact @maperr_no_error. Qed.
Print Assumptions C14_map_err_no_error.

(* x is the first element whose conversion fails: no result (nil), exactly x's error, and the
   call log ends with x, i.e. conv is not called on the elements after x *)
Theorem C14_map_err_first_error :
  forall (A B E : Type) (zero : B) (pre : list A) (x : A) (post : list A) (conv : A -> B * option E) (e : E),
  (forall y, In y pre -> snd (conv y) = None) -> snd (conv x) = Some e ->
  maperr zero (pre ++ x :: post) conv = Ok ([], Some e, pre ++ [x]).
Proof. exact @maperr_first_error. Qed.
Print Assumptions C14_map_err_first_error.

Theorem C14_filter : forall (A : Type) (l : list A) (p : A -> bool), filter_ l p = filter p l.
Proof. exact @filter_correct. Qed.
Print Assumptions C14_filter.

Theorem C14_any : forall (A : Type) (l : list A) (cond : A -> bool), any l cond = existsb cond l.
Proof. exact @any_correct. Qed.
Print Assumptions C14_any.

Theorem C14_all : forall (A : Type) (l : list A) (cond : A -> bool), all l cond = forallb cond l.
Proof. exact @all_correct. Qed.
Print Assumptions C14_all.

(* ---- Index, IndexFunc, Contains, ContainsFunc ---- *)

Theorem C14_index_func_none : forall (A : Type) (l : list A) (f : A -> bool),
  (forall x, In x l -> f x = false) -> indexfunc l f = (-1)%Z.
Proof. exact @indexfunc_none. Qed.
Print Assumptions C14_index_func_none.

Theorem C14_index_func_first : forall (A : Type) (pre : list A) (x : A) (post : list A) (f : A -> bool),
  (forall y, In y pre -> f y = false) -> f x = true ->
  indexfunc (pre ++ x :: post) f = Z.of_nat (length pre).
Proof. exact @indexfunc_first. Qed.
Print Assumptions C14_index_func_first.

Theorem C14_index_none : forall (A : Type) (eqb : A -> A -> bool), (forall x y, eqb x y = true <-> x = y) ->
  forall (l : list A) (v : A), ~ In v l -> index eqb l v = (-1)%Z.
Proof. exact @index_none. Qed.
Print Assumptions C14_index_none.

Theorem C14_index_first : forall (A : Type) (eqb : A -> A -> bool), (forall x y, eqb x y = true <-> x = y) ->
  forall (pre : list A) (v : A) (post : list A), ~ In v pre -> index eqb (pre ++ v :: post) v = Z.of_nat (length pre).
Proof. exact @index_first. Qed.
Print Assumptions C14_index_first.

Theorem C14_contains : forall (A : Type) (eqb : A -> A -> bool), (forall x y, eqb x y = true <-> x = y) ->
  forall (l : list A) (v : A), contains eqb l v = true <-> In v l.
Proof. exact @contains_In. Qed.
Print Assumptions C14_contains.

(* equals is called as equals(element, value) *)
Theorem C14_contains_func : forall (A : Type) (l : list A) (v : A) (equals : A -> A -> bool),
  containsfunc l v equals = existsb (fun u => equals u v) l.
Proof. exact @containsfunc_existsb. Qed.
Print Assumptions C14_contains_func.

(* ---- Distinct, DistinctFunc ---- *)

Theorem C14_distinct : forall (A : Type) (eqb : A -> A -> bool), (forall x y, eqb x y = true <-> x = y) ->
  forall l : list A, distinct eqb l = first_occs eqb l.
Proof. exact @distinct_correct. Qed.
Print Assumptions C14_distinct.

(* first_occs: no repetition, exactly the elements of l, in the order of l *)
Theorem C14_first_occurrences : forall (A : Type) (eqb : A -> A -> bool), (forall x y, eqb x y = true <-> x = y) ->
  forall l : list A,
  NoDup (first_occs eqb l) /\ (forall x, In x (first_occs eqb l) <-> In x l) /\ subseq (first_occs eqb l) l.
Proof. exact @first_occs_spec. Qed.
Print Assumptions C14_first_occurrences.

(* the same, by recursion from the right, for any equals: the last element is kept iff no
   element before it is equal to it *)
Theorem C14_first_occurrences_snoc : forall (A : Type) (eqf : A -> A -> bool) (l : list A) (x : A),
  first_occs eqf [] = [] /\
  first_occs eqf (l ++ [x]) = first_occs eqf l ++ (if existsb (fun u => eqf u x) l then [] else [x]).
Proof. exact @first_occs_snoc. Qed.
Print Assumptions C14_first_occurrences_snoc.

(* for a transitive equals (every equivalence): kept iff no element before it in the input is equal to it *)
Theorem C14_distinct_func : forall (A : Type) (l : list A) (equals : A -> A -> bool),
  (forall x y z, equals x y = true -> equals y z = true -> equals x z = true) ->
  distinctfunc l equals = first_occs equals l.
Proof. exact @distinctfunc_correct. Qed.
Print Assumptions C14_distinct_func.

(* for any equals at all: kept iff not equal to an element kept before *)
Theorem C14_distinct_func_any_equals : forall (A : Type) (l : list A) (x : A) (equals : A -> A -> bool),
  distinctfunc [] equals = [] /\
  distinctfunc (l ++ [x]) equals =
    if existsb (fun u => equals u x) (distinctfunc l equals) then distinctfunc l equals
    else distinctfunc l equals ++ [x].
Proof. exact @distinctfunc_snoc. Qed.
Print Assumptions C14_distinct_func_any_equals.

(* ---- Except, ExceptSet ---- *)

Theorem C14_except : forall (A : Type) (eqb : A -> A -> bool), (forall x y, eqb x y = true <-> x = y) ->
  forall l exclude : list A, except eqb l exclude = filter (fun v => negb (existsb (eqb v) exclude)) l.
Proof. exact @except_correct. Qed.
Print Assumptions C14_except.

Theorem C14_except_set : forall (A : Type) (l : list A) (exclude_has : A -> bool),
  exceptset l exclude_has = filter (fun v => negb (exclude_has v)) l.
Proof. exact @exceptset_correct. Qed.
Print Assumptions C14_except_set.

(* ---- GroupBy, CountBy ---- *)

Theorem C14_group_by : forall (A K : Type) (keqb : K -> K -> bool), (forall x y, keqb x y = true <-> x = y) ->
  forall (zk : K) (l : list A) (keyer : A -> K), groupby keqb zk l keyer = Ok (group_ref keqb keyer l).
Proof. exact @groupby_correct. Qed.
Print Assumptions C14_group_by.

Theorem C14_count_by : forall (A K : Type) (keqb : K -> K -> bool), (forall x y, keqb x y = true <-> x = y) ->
  forall (zk : K) (l : list A) (keyer : A -> K), countby keqb zk l keyer = Ok (count_ref keqb keyer l).
Proof. exact @countby_correct. Qed.
Print Assumptions C14_count_by.

(* keys in order of first appearance; each group holds exactly the elements with its key, in
   original order, and is not empty; the groups together are a rearrangement of l; sizes sum to n *)
Theorem C14_groups : forall (A K : Type) (keqb : K -> K -> bool), (forall x y, keqb x y = true <-> x = y) ->
  forall (keyer : A -> K) (l : list A),
  let g := group_ref keqb keyer l in
  map fst g = first_occs keqb (map keyer l) /\
  (forall k vs, In (k, vs) g -> vs = filter (fun v => keqb (keyer v) k) l /\ vs <> []) /\
  Permutation (concat (map snd g)) l /\
  list_sum (map (fun kv => length (snd kv)) g) = length l.
Proof. exact @group_ref_spec. Qed.
Print Assumptions C14_groups.

(* the counts are the group sizes, and sum to n *)
Theorem C14_counts : forall (A K : Type) (keqb : K -> K -> bool), (forall x y, keqb x y = true <-> x = y) ->
  forall (keyer : A -> K) (l : list A),
  count_ref keqb keyer l = map (fun kv => (fst kv, Z.of_nat (length (snd kv)))) (group_ref keqb keyer l) /\
  fold_right Z.add 0%Z (map snd (count_ref keqb keyer l)) = Z.of_nat (length l).
Proof. exact @count_ref_spec. Qed.
Print Assumptions C14_counts.

(* ---- Trim family (an element is unwanted when the callback returns TRUE, resp. when it is in
   the unwanted slice) ---- *)

Theorem C14_trim_left_func : forall (A : Type) (l : list A) (unwanted : A -> bool),
  trimleftfunc l unwanted = drop_while unwanted l.
Proof. exact @trimleftfunc_correct. Qed.
Print Assumptions C14_trim_left_func.

Theorem C14_trim_right_func : forall (A : Type) (l : list A) (unwanted : A -> bool),
  trimrightfunc l unwanted = Ok (drop_while_end unwanted l).
Proof. exact @trimrightfunc_correct. Qed.
Print Assumptions C14_trim_right_func.

Theorem C14_trim_func : forall (A : Type) (l : list A) (unwanted : A -> bool),
  trimfunc l unwanted = Ok (trim_ref unwanted l).
Proof. exact @trimfunc_correct. Qed.
Print Assumptions C14_trim_func.

Theorem C14_trim_left : forall (A : Type) (eqb : A -> A -> bool) (l unwanted : list A),
  trimleft eqb l unwanted = drop_while (fun v => contains eqb unwanted v) l.
Proof. exact @trimleft_correct. Qed.
Print Assumptions C14_trim_left.

Theorem C14_trim_right : forall (A : Type) (eqb : A -> A -> bool) (l unwanted : list A),
  trimright eqb l unwanted = Ok (drop_while_end (fun v => contains eqb unwanted v) l).
Proof. exact @trimright_correct. Qed.
Print Assumptions C14_trim_right.

Theorem C14_trim : forall (A : Type) (eqb : A -> A -> bool) (l unwanted : list A),
  trim eqb l unwanted = Ok (trim_ref (fun v => contains eqb unwanted v) l).
Proof. exact @trim_correct. Qed.
Print Assumptions C14_trim.

(* the references are contiguous segments of l: l minus a prefix / suffix of unwanted elements
   that cannot be extended *)
Theorem C14_trim_left_segment : forall (A : Type) (p : A -> bool) (l : list A),
  exists pre, l = pre ++ drop_while p l /\ forallb p pre = true /\
              (forall x r, drop_while p l = x :: r -> p x = false).
Proof. exact @drop_while_spec. Qed.
Print Assumptions C14_trim_left_segment.

Theorem C14_trim_right_segment : forall (A : Type) (p : A -> bool) (l : list A),
  exists suf, l = drop_while_end p l ++ suf /\ forallb p suf = true /\
              (forall r x, drop_while_end p l = r ++ [x] -> p x = false).
Proof. exact @drop_while_end_spec. Qed.
Print Assumptions C14_trim_right_segment.

Theorem C14_trim_segment : forall (A : Type) (p : A -> bool) (l : list A),
  exists pre suf, l = pre ++ trim_ref p l ++ suf /\ forallb p pre = true /\ forallb p suf = true /\
    (forall x r, trim_ref p l = x :: r -> p x = false) /\
    (forall r x, trim_ref p l = r ++ [x] -> p x = false).
Proof. exact @trim_ref_spec. Qed.
Print Assumptions C14_trim_segment.

(* ... and that description determines the result *)
Theorem C14_trim_segment_unique : forall (A : Type) (p : A -> bool) (l pre r suf : list A),
  l = pre ++ r ++ suf -> forallb p pre = true -> forallb p suf = true ->
  (forall x r', r = x :: r' -> p x = false) -> (forall r' x, r = r' ++ [x] -> p x = false) ->
  r = trim_ref p l.
Proof. exact @trim_segment_unique. Qed.
Print Assumptions C14_trim_segment_unique.

(* ---- TryGet, SafeGet, SafeGetOr, Last ---- *)

Theorem C14_get_in_bounds : forall (A : Type) (zero fallback : A) (l : list A) (i : Z),
  (0 <= i < Z.of_nat (length l))%Z ->
  exists v, nth_error l (Z.to_nat i) = Some v /\
    tryget zero l i = Ok (v, true) /\ safeget zero l i = Ok v /\ safegetor l i fallback = Ok v.
Proof. exact @get_family_in. Qed.
Print Assumptions C14_get_in_bounds.

Theorem C14_get_out_of_bounds : forall (A : Type) (zero fallback : A) (l : list A) (i : Z),
  (i < 0 \/ Z.of_nat (length l) <= i)%Z ->
  tryget zero l i = Ok (zero, false) /\ safeget zero l i = Ok zero /\ safegetor l i fallback = Ok fallback.
Proof. exact @get_family_out. Qed.
Print Assumptions C14_get_out_of_bounds.

Theorem C14_last : forall (A : Type) (l : list A),
  last_ (@nil A) = Panic IndexOutOfRange /\ forall x, last_ (l ++ [x]) = Ok x.
Proof. exact @last_correct. Qed.
Print Assumptions C14_last.

(* ---- Call logs: which calls of the callback are made, in which order ----
   [f_calls] is the loop of f with one more local holding the arguments of every call of the
   callback (Slices/Func.v, "Call logs"); its first component is f's result.
   The property text fixes the calls for MapErr (C14_map_err_* above: the third component),
   Fold and FoldReverse. For the other functions it fixes only the result; the theorems
   below describe the code as it is (and the harness does not fail an implementation whose
   calls differ, see bin/props/C14.json). *)

(* Fold: acc(state so far, element) once per element, first to last *)
Theorem C14_fold_calls : forall (A State : Type) (l : list A) (seed : State) (acc : State -> A -> State),
  fold_calls l seed acc = (fold_left acc l seed, fold_trace acc seed l).
Proof. exact @fold_calls_correct. Qed.
Print Assumptions C14_fold_calls.

(* FoldReverse: the same over the reversed slice, i.e. last element down to the first *)
Theorem C14_fold_reverse_calls : forall (A State : Type) (l : list A) (seed : State) (acc : State -> A -> State),
  foldreverse_calls l seed acc = (Ok (fold_left acc (rev l) seed), fold_trace acc seed (rev l)).
Proof. exact @foldreverse_calls_correct. Qed.
Print Assumptions C14_fold_reverse_calls.

(* the logged loops return what the plain loops return *)
Theorem C14_calls_same_results : forall (A : Type) (l : list A) (f : A -> bool) (v : A) (equals : A -> A -> bool),
  fst (indexfunc_calls l f) = indexfunc l f /\ fst (any_calls l f) = any l f /\ fst (all_calls l f) = all l f /\
  fst (containsfunc_calls l v equals) = containsfunc l v equals /\
  fst (distinctfunc_calls l equals) = distinctfunc l equals.
Proof.
  exact (fun A l f v equals => conj (indexfunc_calls_fst l f) (conj (any_calls_fst l f) (conj (all_calls_fst l f)
           (conj (containsfunc_calls_fst l v equals) (distinctfunc_calls_fst l equals))))).
Qed.
Print Assumptions C14_calls_same_results.

(* IndexFunc, Any, All, ContainsFunc stop at the first decisive element: the callback sees the
   input up to and including it, in order, and nothing after it; all of the input when there is none *)
Theorem C14_index_func_calls_none : forall (A : Type) (l : list A) (f : A -> bool),
  (forall x, In x l -> f x = false) -> indexfunc_calls l f = ((-1)%Z, l).
Proof. exact @indexfunc_calls_none. Qed.
Print Assumptions C14_index_func_calls_none.

Theorem C14_index_func_calls_first : forall (A : Type) (pre : list A) (x : A) (post : list A) (f : A -> bool),
  (forall y, In y pre -> f y = false) -> f x = true ->
  indexfunc_calls (pre ++ x :: post) f = (Z.of_nat (length pre), pre ++ [x]).
Proof. exact @indexfunc_calls_first. Qed.
Print Assumptions C14_index_func_calls_first.

Theorem C14_any_calls_none : forall (A : Type) (l : list A) (cond : A -> bool),
  (forall x, In x l -> cond x = false) -> any_calls l cond = (false, l).
Proof. exact @any_calls_none. Qed.
Print Assumptions C14_any_calls_none.

Theorem C14_any_calls_first : forall (A : Type) (pre : list A) (x : A) (post : list A) (cond : A -> bool),
  (forall y, In y pre -> cond y = false) -> cond x = true ->
  any_calls (pre ++ x :: post) cond = (true, pre ++ [x]).
Proof. exact @any_calls_first. Qed.
Print Assumptions C14_any_calls_first.

Theorem C14_all_calls_all : forall (A : Type) (l : list A) (cond : A -> bool),
  (forall x, In x l -> cond x = true) -> all_calls l cond = (true, l).
Proof. exact @all_calls_all. Qed.
Print Assumptions C14_all_calls_all.

Theorem C14_all_calls_first : forall (A : Type) (pre : list A) (x : A) (post : list A) (cond : A -> bool),
  (forall y, In y pre -> cond y = true) -> cond x = false ->
  all_calls (pre ++ x :: post) cond = (false, pre ++ [x]).
Proof. exact @all_calls_first. Qed.
Print Assumptions C14_all_calls_first.

(* equals is called as equals(element, value) *)
Theorem C14_contains_func_calls_none : forall (A : Type) (l : list A) (value : A) (equals : A -> A -> bool),
  (forall x, In x l -> equals x value = false) ->
  containsfunc_calls l value equals = (false, map (fun v => (v, value)) l).
Proof. exact @containsfunc_calls_none. Qed.
Print Assumptions C14_contains_func_calls_none.

Theorem C14_contains_func_calls_first :
  forall (A : Type) (pre : list A) (x : A) (post : list A) (value : A) (equals : A -> A -> bool),
  (forall y, In y pre -> equals y value = false) -> equals x value = true ->
  containsfunc_calls (pre ++ x :: post) value equals = (true, map (fun v => (v, value)) (pre ++ [x])).
Proof. exact @containsfunc_calls_first. Qed.
Print Assumptions C14_contains_func_calls_first.

(* Map and Filter call their callback once per element, first to last *)
Theorem C14_map_calls : forall (A B : Type) (zero : B) (l : list A) (conv : A -> B),
  map_calls zero l conv = (Ok (map conv l), l).
Proof. exact @map_calls_correct. Qed.
Print Assumptions C14_map_calls.

Theorem C14_filter_calls : forall (A : Type) (l : list A) (p : A -> bool), filter_calls l p = (filter p l, l).
Proof. exact @filter_calls_correct. Qed.
Print Assumptions C14_filter_calls.

(* DistinctFunc (any equals): for the next element x one ContainsFunc over the elements kept so
   far, i.e. equals(kept, x) for the kept elements in order up to the first one equal to x *)
Theorem C14_distinct_func_calls : forall (A : Type) (l : list A) (x : A) (equals : A -> A -> bool),
  distinctfunc_calls [] equals = ([], []) /\
  distinctfunc_calls (l ++ [x]) equals =
    (distinctfunc (l ++ [x]) equals,
     snd (distinctfunc_calls l equals) ++ snd (containsfunc_calls (distinctfunc l equals) x equals)).
Proof. exact @distinctfunc_calls_snoc. Qed.
Print Assumptions C14_distinct_func_calls.

(* TrimLeftFunc asks about the removed prefix and the first element it keeps; TrimRightFunc the
   same from the end; TrimFunc trims the right end first, then the left end of what is left *)
Theorem C14_trim_left_func_calls : forall (A : Type) (l : list A) (unwanted : A -> bool),
  trimleftfunc_calls l unwanted = (drop_while unwanted l, take_while unwanted l ++ firstn 1 (drop_while unwanted l)).
Proof. exact @trimleftfunc_calls_correct. Qed.
Print Assumptions C14_trim_left_func_calls.

Theorem C14_trim_right_func_calls : forall (A : Type) (l : list A) (unwanted : A -> bool),
  trimrightfunc_calls l unwanted =
  (Ok (drop_while_end unwanted l), take_while unwanted (rev l) ++ firstn 1 (drop_while unwanted (rev l))).
Proof. exact @trimrightfunc_calls_correct. Qed.
Print Assumptions C14_trim_right_func_calls.

Theorem C14_trim_func_calls : forall (A : Type) (l : list A) (unwanted : A -> bool),
  trimfunc_calls l unwanted =
  (Ok (trim_ref unwanted l),
   (take_while unwanted (rev l) ++ firstn 1 (drop_while unwanted (rev l))) ++
   (take_while unwanted (drop_while_end unwanted l) ++ firstn 1 (trim_ref unwanted l))).
Proof. exact @trimfunc_calls_correct. Qed.
Print Assumptions C14_trim_func_calls.

(* take_while: the longest prefix of unwanted elements (what drop_while drops) *)
Theorem C14_take_while : forall (A : Type) (p : A -> bool) (l : list A),
  take_while p l ++ drop_while p l = l /\ forallb p (take_while p l) = true.
Proof. exact @take_drop_while. Qed.
Print Assumptions C14_take_while.

Example C14_calls_example :
  (let even (v : Z) := (v mod 2 =? 0)%Z in
   (* hypotheses of the none / first theorems, and what the logs are *)
   (forall y, In y [1; 3]%Z -> even y = false) /\ even 4%Z = true /\
   any_calls [1; 3; 4; 5; 6]%Z even = (true, [1; 3; 4]%Z) /\
   indexfunc_calls [1; 3; 4; 5; 6]%Z even = (2%Z, [1; 3; 4]%Z) /\
   all_calls [4; 6; 1; 8]%Z even = (false, [4; 6; 1]%Z) /\
   any_calls [1; 3]%Z even = (false, [1; 3]%Z) /\
   trimfunc_calls [2; 1; 2; 3; 4; 6]%Z even = (Ok [1; 2; 3]%Z, [6; 4; 3; 2; 1]%Z)) /\
  containsfunc_calls [5; 7; 9]%Z 7%Z Z.eqb = (true, [(5, 7); (7, 7)]%Z) /\
  fold_calls [1; 2; 3]%Z 5%Z (fun s v => (s * 2 + v)%Z) = (51%Z, [(5, 1); (11, 2); (24, 3)]%Z) /\
  foldreverse_calls [1; 2; 3]%Z 5%Z (fun s v => (s * 2 + v)%Z) = (Ok 57%Z, [(5, 3); (13, 2); (28, 1)]%Z) /\
  distinctfunc_calls [1; 2; 1; 3]%Z Z.eqb = ([1; 2; 3]%Z, [(1, 2); (1, 1); (1, 3); (2, 3)]%Z).
Proof.
  split; [|vm_compute; repeat split; reflexivity].
  split; [|vm_compute; repeat split; reflexivity].
  intros y [<-|[<-|[]]]; reflexivity.
Qed.

(* ---- map helpers: for every order in which range may visit the map ---- *)

Theorem C14_map_contains_value : forall (K : Type) (EqK : EqDecision K) (CK : Countable K) (V : Type)
    (veqb : V -> V -> bool), (forall x y, veqb x y = true <-> x = y) ->
  forall (m : gmap K V) (visit : list (K * V)) (value : V), Permutation visit (map_to_list m) ->
  containsvalue veqb m visit value = true <-> exists k, m !! k = Some value.
Proof. exact @containsvalue_correct. Qed.
Print Assumptions C14_map_contains_value.

(* found: some key holding the value (which one depends on the order); not found: the zero key,
   and no key holds the value *)
Theorem C14_map_key_of : forall (K : Type) (EqK : EqDecision K) (CK : Countable K) (V : Type)
    (veqb : V -> V -> bool), (forall x y, veqb x y = true <-> x = y) ->
  forall (zero : K) (m : gmap K V) (visit : list (K * V)) (value : V), Permutation visit (map_to_list m) ->
  match keyof veqb zero m visit value with
  | (k, true) => m !! k = Some value
  | (k, false) => k = zero /\ forall k', m !! k' <> Some value
  end.
Proof. exact @keyof_correct. Qed.
Print Assumptions C14_map_key_of.

Theorem C14_map_clone : forall (K : Type) (EqK : EqDecision K) (CK : Countable K) (V : Type)
    (m : gmap K V) (visit : list (K * V)), Permutation visit (map_to_list m) -> clone m visit = m.
Proof. exact @clone_correct. Qed.
Print Assumptions C14_map_clone.

Theorem C14_map_clear : forall (K : Type) (EqK : EqDecision K) (CK : Countable K) (V : Type)
    (m : gmap K V) (visit : list (K * V)), Permutation visit (map_to_list m) -> clear m visit = ∅.
Proof. exact @clear_correct. Qed.
Print Assumptions C14_map_clear.

Theorem C14_map_has_key : forall (K : Type) (EqK : EqDecision K) (CK : Countable K) (V : Type)
    (m : gmap K V) (k : K), haskey m k = true <-> is_Some (m !! k).
Proof. exact @haskey_correct. Qed.
Print Assumptions C14_map_has_key.

Theorem C14_map_keys : forall (K : Type) (EqK : EqDecision K) (CK : Countable K) (V : Type)
    (m : gmap K V) (visit : list (K * V)), Permutation visit (map_to_list m) ->
  Permutation (keys m visit) (map fst (map_to_list m)) /\ NoDup (keys m visit) /\
  forall k, k ∈ keys m visit <-> is_Some (m !! k).
Proof. exact @keys_correct. Qed.
Print Assumptions C14_map_keys.

Theorem C14_map_values : forall (K : Type) (EqK : EqDecision K) (CK : Countable K) (V : Type)
    (m : gmap K V) (visit : list (K * V)), Permutation visit (map_to_list m) ->
  Permutation (values m visit) (map snd (map_to_list m)) /\ length (values m visit) = size m /\
  forall v, v ∈ values m visit <-> exists k, m !! k = Some v.
Proof. exact @values_correct. Qed.
Print Assumptions C14_map_values.

(* ---- Non-vacuity: the hypotheses above are satisfiable (Z.eqb decides equality, a transitive
   equals, a visit order), and the models compute the expected values on concrete inputs. ---- *)
Example C14_example :
  (forall x y : Z, Z.eqb x y = true <-> x = y) /\
  (let eqmod3 (a b : Z) := ((a - b) mod 3 =? 0)%Z in
   (forall x y z, eqmod3 x y = true -> eqmod3 y z = true -> eqmod3 x z = true) /\
   distinctfunc [1; 4; 2; 7; 5; 3]%Z eqmod3 = [1; 2; 3]%Z) /\
  fold [1; 2; 3]%Z 5%Z (fun s v => (s * 2 + v)%Z) = 51%Z /\
  foldreverse [1; 2; 3]%Z 5%Z (fun s v => (s * 2 + v)%Z) = Ok 57%Z /\
  maperr 0%Z [1; 2; 3; 4]%Z (fun v => ((v * 10)%Z, if (v =? 3)%Z then Some v else None))
    = Ok ([], Some 3%Z, [1; 2; 3]%Z) /\
  distinct Z.eqb [3; 1; 3; 2; 1]%Z = [3; 1; 2]%Z /\
  groupby Z.eqb 0%Z [1; 2; 3; 4; 5]%Z (fun v => (v mod 3)%Z) = Ok [(1, [1; 4]); (2, [2; 5]); (0, [3])]%Z /\
  countby Z.eqb 0%Z [1; 2; 3; 4; 5]%Z (fun v => (v mod 3)%Z) = Ok [(1, 2); (2, 2); (0, 1)]%Z /\
  trim Z.eqb [0; 1; 0; 2; 1; 0]%Z [0; 1]%Z = Ok [2]%Z /\
  last_ (@nil Z) = Panic IndexOutOfRange /\
  (let m : gmap Z Z := list_to_map [(3, 4); (1, 2); (5, 4)]%Z in
   Permutation (map_to_list m) (map_to_list m) /\
   keys m (map_to_list m) = [1; 3; 5]%Z /\ keyof Z.eqb 0%Z m (map_to_list m) 4%Z = (3%Z, true) /\
   keyof Z.eqb 0%Z m (rev (map_to_list m)) 4%Z = (5%Z, true)).
Proof.
  split; [exact Z.eqb_eq|]. split.
  - split; [|vm_compute; reflexivity].
    intros x y z Hxy Hyz. apply Z.eqb_eq in Hxy, Hyz. apply Z.eqb_eq.
    replace (x - z)%Z with ((x - y) + (y - z))%Z by lia.
    rewrite Z.add_mod, Hxy, Hyz by lia. reflexivity.
  - vm_compute. repeat split; reflexivity || apply Permutation_refl.
Qed.
