(* C14 — Functional slice and map helpers equal their reference definitions.
   Statements only; every proof is [exact] of a lemma from
   Slices/FuncProofs.v or Maps/MapHelpersProofs.v. *)
From Typ Require Import Lib.Base Slices.Func Slices.FuncProofs.

Theorem C14_fold : forall (A State : Type) (l : list A) (seed : State) (acc : State -> A -> State),
  fold l seed acc = fold_left acc l seed.
Proof. exact @fold_correct. Qed.
Print Assumptions C14_fold.
