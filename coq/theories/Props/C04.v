(* C04 — sync2.Map is linearizable to an ordinary map, sequentially and
   concurrently.
   THIS FILE: the sequential part (DESIGN 6/C04 item 1): every single-goroutine
   call sequence, of any length, on the model of the real data structure
   (SyncMap/Seq.v: read map, dirty map, entry states nil/expunged/value,
   promotion, dirty re-creation with expunge, unexpunge) behaves as an ordinary
   map. Statements only; every proof is [exact] of a lemma from
   SyncMap/SeqProofs.v or SyncMap/SeqHist.v.
   (The concurrent theorems are added below the sequential ones.) *)
From Typ Require Import SyncMap.Seq SyncMap.SeqProofs SyncMap.SeqHist.
Local Open Scope Z_scope.

(* ================= sequential refinement ================= *)

(* Every history from the zero Map: the model never panics, every call returns
   what the same call returns on map[K]V (spec_run), the final abstract
   contents are the map's, and the structural invariant holds at the end. No
   bound on the length; Range orders and stop points are arbitrary. *)
Theorem C04_sequential_refinement : forall ops : list sop,
  exists s outs, run_seq ops empty_mstate = Ok (s, outs) /\ WF s /\
    outs = (spec_run ops ∅).2 /\ abs_map s = (spec_run ops ∅).1.
Proof. exact seq_refinement. Qed.
Print Assumptions C04_sequential_refinement.

(* The same from any quiescent Map satisfying the invariant. *)
Theorem C04_sequential_refinement_from : forall (ops : list sop) (s : mstate), WF s ->
  exists s' outs, run_seq ops s = Ok (s', outs) /\ WF s' /\
    outs = (spec_run ops (abs_map s)).2 /\ abs_map s' = (spec_run ops (abs_map s)).1.
Proof. exact seq_refinement_from. Qed.
Print Assumptions C04_sequential_refinement_from.

(* ---- per method: invariant preserved, result and effect on the abstraction ---- *)
Theorem C04_seq_zero_map : WF empty_mstate.
Proof. exact WF_empty. Qed.
Print Assumptions C04_seq_zero_map.

(* Load returns the abstract value and changes nothing abstractly (it may promote the dirty map) *)
Theorem C04_seq_Load : forall s k, WF s ->
  WF (Load s k).1 /\ (Load s k).2 = abs_lookup s k /\
  forall k', abs_lookup (Load s k).1 k' = abs_lookup s k'.
Proof. exact Load_spec. Qed.
Print Assumptions C04_seq_Load.

(* Store never panics (no write to a nil dirty map), sets k and leaves every other key alone *)
Theorem C04_seq_Store : forall s k v, WF s -> exists s', Store s k v = Ok s' /\ WF s' /\
  forall k', abs_lookup s' k' = if decide (k' = k) then Some v else abs_lookup s k'.
Proof. exact Store_spec. Qed.
Print Assumptions C04_seq_Store.

Theorem C04_seq_LoadOrStore : forall s k v, WF s ->
  exists s' a l, LoadOrStore s k v = Ok (s', a, l) /\ WF s' /\
  match abs_lookup s k with
  | Some x => a = x /\ l = true /\ forall k', abs_lookup s' k' = abs_lookup s k'
  | None => a = v /\ l = false /\
            forall k', abs_lookup s' k' = if decide (k' = k) then Some v else abs_lookup s k'
  end.
Proof. exact LoadOrStore_spec. Qed.
Print Assumptions C04_seq_LoadOrStore.

Theorem C04_seq_LoadAndDelete : forall s k, WF s ->
  WF (LoadAndDelete s k).1 /\ (LoadAndDelete s k).2 = abs_lookup s k /\
  forall k', abs_lookup (LoadAndDelete s k).1 k' = if decide (k' = k) then None else abs_lookup s k'.
Proof. exact LoadAndDelete_spec. Qed.
Print Assumptions C04_seq_LoadAndDelete.

Theorem C04_seq_Delete : forall s k, WF s ->
  WF (Delete s k) /\
  forall k', abs_lookup (Delete s k) k' = if decide (k' = k) then None else abs_lookup s k'.
Proof. exact Delete_spec. Qed.
Print Assumptions C04_seq_Delete.

(* Range with visiting order [order] (any list) and stop point [stop]: contents unchanged, after its
   promotion every present key is in read.m, and f receives exactly the present keys of [order], in
   that order, with their current values, up to the stop point. *)
Theorem C04_seq_Range : forall s order stop, WF s -> let s' := (Range s order stop).1 in
  WF s' /\ (forall k', abs_lookup s' k' = abs_lookup s k') /\
  (forall k v, abs_lookup s k = Some v -> is_Some (read_m s' !! k)) /\
  (Range s order stop).2 =
    match stop with None => live_pairs s order | Some n => firstn n (live_pairs s order) end.
Proof. exact Range_spec. Qed.
Print Assumptions C04_seq_Range.

(* Go's range statement visits each key of read.m once: for such an order f is called at most once
   per key and only with the value the key holds ... *)
Theorem C04_seq_Range_once_per_key : forall s order stop, WF s -> base.NoDup order ->
  base.NoDup (map fst (Range s order stop).2) /\
  forall k v, (k, v) ∈ (Range s order stop).2 -> k ∈ order /\ abs_lookup s k = Some v.
Proof. exact Range_sound. Qed.
Print Assumptions C04_seq_Range_once_per_key.

(* ... and a Range that is never stopped, whose order covers the keys of the promoted read.m,
   visits every present key. *)
Theorem C04_seq_Range_visits_all : forall s order, WF s ->
  (forall k, is_Some (read_m (Range s order None).1 !! k) -> k ∈ order) ->
  forall k v, abs_lookup s k = Some v -> (k, v) ∈ (Range s order None).2.
Proof. exact Range_complete. Qed.
Print Assumptions C04_seq_Range_visits_all.

(* abs_map (the contents compared with the real Map by the correspondence check) is abs_lookup *)
Theorem C04_seq_abs_map : forall s k, WF s -> abs_map s !! k = abs_lookup s k.
Proof. exact abs_map_lookup. Qed.
Print Assumptions C04_seq_abs_map.

(* Non-vacuity: a history through promotion (two misses on a 2-key dirty map), deletion in the
   promoted read map, re-creation of dirty with the deleted entry expunged (key 1: PExpunged, absent
   from dirty), then a Store to the expunged entry (unexpunge: back in dirty with the same entry id 0),
   LoadOrStore hit/miss, LoadAndDelete, a full and a stopped Range. Observed: results; state of the
   read.m entries of keys 1,2,3; their ids in dirty; amended; contents. *)
Example C04_example :
  let ops1 := [SStore 1 10; SStore 2 20; SLoad 1; SLoad 1; SDelete 1; SStore 3 30] in
  let ops2 := [SStore 1 11; SLoad 1; SLoadOrStore 2 99; SLoadOrStore 4 40; SLoadAndDelete 2; SLoad 2;
               SRange [4; 3; 2; 1] None; SRange [4; 3; 2; 1] (Some 2%nat)] in
  history_obs [SStore 1 10; SStore 2 20; SLoad 1; SLoad 1] [1; 2; 3] =
    Some ([SRUnit; SRUnit; SROpt (Some 10); SROpt (Some 10)],
          [Some (PVal 10); Some (PVal 20); None], [None; None; None], false, [(1, 10); (2, 20)]) /\
  history_obs ops1 [1; 2; 3] =
    Some ([SRUnit; SRUnit; SROpt (Some 10); SROpt (Some 10); SRUnit; SRUnit],
          [Some PExpunged; Some (PVal 20); None], [None; Some 1%nat; Some 2%nat], true, [(2, 20); (3, 30)]) /\
  history_obs (ops1 ++ [SStore 1 11]) [1; 2; 3] =
    Some ([SRUnit; SRUnit; SROpt (Some 10); SROpt (Some 10); SRUnit; SRUnit; SRUnit],
          [Some (PVal 11); Some (PVal 20); None], [Some 0%nat; Some 1%nat; Some 2%nat], true,
          [(1, 11); (2, 20); (3, 30)]) /\
  history_obs (ops1 ++ ops2) [1; 2; 3] =
    Some ([SRUnit; SRUnit; SROpt (Some 10); SROpt (Some 10); SRUnit; SRUnit;
           SRUnit; SROpt (Some 11); SRLos 20 true; SRLos 40 false; SROpt (Some 20); SROpt None;
           SRPairs [(4, 40); (3, 30); (1, 11)]; SRPairs [(4, 40); (3, 30)]],
          [Some (PVal 11); Some PNil; Some (PVal 30)], [None; None; None], false,
          [(1, 11); (4, 40); (3, 30)]) /\
  (spec_run (ops1 ++ ops2) ∅).2 =
    [SRUnit; SRUnit; SROpt (Some 10); SROpt (Some 10); SRUnit; SRUnit;
     SRUnit; SROpt (Some 11); SRLos 20 true; SRLos 40 false; SROpt (Some 20); SROpt None;
     SRPairs [(4, 40); (3, 30); (1, 11)]; SRPairs [(4, 40); (3, 30)]].
Proof. vm_compute. repeat split. Qed.
