(* C04 — the concurrent Range clause (DESIGN 6/C04 item 5). Statements only;
   proofs are [exact] of theorems of SyncMap/RangeConc.v.
   Covered: every list of programs (any number of goroutines, any length) of
   Load / Store / LoadOrStore / LoadAndDelete / Delete and Range calls on one
   Map, Range with a callback that counts its calls and may stop after n of them
   ([rfrag]; CbStop n), every schedule at the granularity of individual atomic /
   mutex operations. For every COMPLETED Range call - the i-th call of thread t,
   with result RRange out cnt (out = the pairs passed to the callback, in order).
   The run is given as the list of its configurations ([run_trace]) resp. of
   (configuration, thread scheduled in it) pairs ([steps_from]); thread t is
   inside its i-th call in exactly the configurations in which it has i results,
   has been invoked and has not returned ([in_call]); [in_call_at] adds the
   configuration in which the call takes its first step (closed interval). *)
From Typ Require Import SyncMap.Model SyncMap.Inv SyncMap.SetAtomic Lib.Lin SyncMap.Linearizable SyncMap.RangeConc SyncMap.SetCounts.

(* (1) Range calls its function at most once per key. *)
Theorem C04_range_once : forall z progs sched t th i out cnt,
  Forall (Forall rfrag) progs ->
  let c := run_schedule (init_config_z [z] progs) sched in
  nth_error (c_threads c) t = Some th -> nth_error (t_results th) i = Some (RRange out cnt) ->
  List.NoDup (map fst out).
Proof. exact range_once. Qed.
Print Assumptions C04_range_once.

(* (2) ... only with a value that key held at some configuration strictly
   inside the Range call. *)
Theorem C04_range_values : forall z progs sched t th i out cnt,
  Forall (Forall rfrag) progs ->
  let c := run_schedule (init_config_z [z] progs) sched in
  nth_error (c_threads c) t = Some th -> nth_error (t_results th) i = Some (RRange out cnt) ->
  forall k v, In (k, v) out ->
  exists cj, In cj (run_trace (init_config_z [z] progs) sched) /\ in_call cj t i /\ abs_lookup (st0 cj) k = Some v.
Proof. exact range_values. Qed.
Print Assumptions C04_range_values.

(* (3) ... and visits every key that was present with one value, untouched,
   for the whole call - unless THIS call's own callback stopped the iteration:
   the call in question (the i-th call of thread t's program p) is a Range
   whose callback stops after n entries, and it did report at least one entry
   and at least n entries (out <> []: a callback that was never called cannot
   have stopped anything, also for n = 0). Other
   Range calls of the program, stopping or not, do not weaken the claim. *)
Theorem C04_range_complete : forall z progs sched t th i out cnt,
  Forall (Forall rfrag) progs ->
  let c := run_schedule (init_config_z [z] progs) sched in
  nth_error (c_threads c) t = Some th -> nth_error (t_results th) i = Some (RRange out cnt) ->
  forall k v,
    (forall x, In x (steps_from (init_config_z [z] progs) sched) -> in_call_at x t i -> abs_lookup (st0 x.1) k = Some v) ->
    In (k, v) out \/
    exists p n, nth_error progs t = Some p /\ nth_error p i = Some (CRange 0 (CbStop (Some n))) /\
                out <> [] /\ (Z.of_nat n <= cnt)%Z.
Proof. exact range_complete. Qed.
Print Assumptions C04_range_complete.

(* the same with the count: cnt is the number of pairs passed to the callback,
   and the escape requires that the callback was called at least once and at
   least n times (CbStop (Some 0) behaves like CbStop (Some 1): the callback
   can only stop the iteration by being called) *)
Theorem C04_range_complete_count : forall z progs sched t th i out cnt,
  Forall (Forall rfrag) progs ->
  let c := run_schedule (init_config_z [z] progs) sched in
  nth_error (c_threads c) t = Some th -> nth_error (t_results th) i = Some (RRange out cnt) ->
  cnt = Z.of_nat (length out) /\
  forall k v,
    (forall x, In x (steps_from (init_config_z [z] progs) sched) -> in_call_at x t i -> abs_lookup (st0 x.1) k = Some v) ->
    In (k, v) out \/
    exists p n, nth_error progs t = Some p /\ nth_error p i = Some (CRange 0 (CbStop (Some n))) /\
                (0 < cnt)%Z /\ (Z.of_nat n <= cnt)%Z.
Proof. exact range_complete_cnt. Qed.
Print Assumptions C04_range_complete_count.

(* hence for a Range whose own callback never stops the clause has no escape *)
Theorem C04_range_complete_nonstop : forall z progs sched t th i out cnt p,
  Forall (Forall rfrag) progs ->
  nth_error progs t = Some p -> nth_error p i = Some (CRange 0 (CbStop None)) ->
  let c := run_schedule (init_config_z [z] progs) sched in
  nth_error (c_threads c) t = Some th -> nth_error (t_results th) i = Some (RRange out cnt) ->
  forall k v,
    (forall x, In x (steps_from (init_config_z [z] progs) sched) -> in_call_at x t i -> abs_lookup (st0 x.1) k = Some v) ->
    In (k, v) out.
Proof. exact range_complete_nonstop. Qed.
Print Assumptions C04_range_complete_nonstop.

(* Non-vacuity: G0 ranges while G1 stores. Key 1 is in the map for the whole
   Range and is reported; key 2 is stored during the Range (after Range took
   its snapshot of the read map) and is not - both allowed. *)
Definition rng_progs : list (list call) :=
  [[CRange 0 (CbStop None)]; [CStore 0 1 10; CLoad 0 7; CStore 0 2 20]]%Z.
Definition rng_sched : list (nat * Z) :=
  repeat (1, 0%Z) 11 ++ [(0, 0%Z)] ++ repeat (1, 1%Z) 9 ++ [(0, 1%Z); (0, 1%Z)].

Example C04range_example :
  let c := run_schedule (init_config 1 rng_progs) rng_sched in
  map t_results (c_threads c) = [[RRange [(1, 10)] 1]; [RUnit; ROpt None; RUnit]]%Z /\
  abs_lookup (st0 c) 2%Z = Some 20%Z /\ finished c = true /\ Forall (Forall rfrag) rng_progs.
Proof. vm_compute. repeat split; repeat constructor. Qed.

(* Non-vacuity of (3) for programs that mix stopping and non-stopping Ranges:
   G0 stores keys 1 and 2, then ranges with a callback that stops after one
   entry (reports key 2 only, 1 <= cnt: the escape of THIS call), then ranges
   with a callback that never stops: both keys are reported, although the
   program (G0's third call, G1's call) contains stopping Ranges. *)
Definition rng2_progs : list (list call) :=
  [[CStore 0 1%Z 10%Z; CStore 0 2%Z 20%Z; CRange 0 (CbStop (Some 1)); CRange 0 (CbStop None)]; [CRange 0 (CbStop (Some 0))]].
Definition rng2_sched : list (nat * Z) := concat (repeat [(0, 1%Z); (0, 2%Z)] 40) ++ repeat (1, 1%Z) 10.

Example C04range_example_mixed :
  let c := run_schedule (init_config 1 rng2_progs) rng2_sched in
  map t_results (c_threads c) =
    [[RUnit; RUnit; RRange [(2, 20)] 1; RRange [(1, 10); (2, 20)] 2]; [RRange [(1, 10)] 1]]%Z /\
  finished c = true /\ Forall (Forall rfrag) rng2_progs /\
  (exists p, nth_error rng2_progs 0 = Some p /\ nth_error p 3 = Some (CRange 0 (CbStop None))).
Proof. vm_compute. repeat split; repeat constructor. eexists; split; reflexivity. Qed.

(* Non-vacuity of the stability hypothesis of C04_range_complete* : in the run
   of C04range_example key 1 holds 10 in every configuration of the closed
   interval of G0's Range (checked by computation, [stable_check]); key 2 does
   not hold one value throughout (stored during the Range). In the mixed run,
   keys 1 and 2 are stable during both of G0's Ranges (its calls 2 and 3). *)
Example C04range_stability_example :
  (forall x, In x (steps_from (init_config 1 rng_progs) rng_sched) -> in_call_at x 0 0 -> abs_lookup (st0 x.1) 1%Z = Some 10%Z) /\
  ~ (forall x, In x (steps_from (init_config 1 rng_progs) rng_sched) -> in_call_at x 0 0 -> abs_lookup (st0 x.1) 2%Z = Some 20%Z) /\
  (forall x, In x (steps_from (init_config 1 rng2_progs) rng2_sched) -> in_call_at x 0 2 -> abs_lookup (st0 x.1) 1%Z = Some 10%Z) /\
  (forall x, In x (steps_from (init_config 1 rng2_progs) rng2_sched) -> in_call_at x 0 3 -> abs_lookup (st0 x.1) 1%Z = Some 10%Z).
Proof.
  split; [apply stable_check; vm_compute; reflexivity|].
  split; [|split; apply stable_check; vm_compute; reflexivity].
  intros H. specialize (H (nth 11 (steps_from (init_config 1 rng_progs) rng_sched) (init_config 1 rng_progs, 0))).
  assert (X : abs_lookup (st0 (nth 11 (steps_from (init_config 1 rng_progs) rng_sched) (init_config 1 rng_progs, 0)).1) 2%Z = None) by (vm_compute; reflexivity).
  rewrite X in H. discriminate H.
  - apply nth_In. vm_compute. lia.
  - right. split; [vm_compute; reflexivity|]. eexists. split; [vm_compute; reflexivity|]. vm_compute. repeat split; discriminate.
Qed.
