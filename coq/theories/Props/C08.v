(* C08 — Array2D is a grid of independent cells for every width and height.
   Statements only; every proof is [exact] of a lemma from Arrays/Array2DProofs.v.
   Quantifiers: every element type, every array that satisfies the shape
   invariant [wf] (width, height >= 0, backing list of width*height elements —
   established by every constructor, kept by every method, see below), every
   coordinate / corner / span / jagged input.  No bound on width or height and
   no relation between them (rectangular exactly as square).

   Methods that write return (array after the call, panic of the call if any).

   Panic kinds: the property only says "panics".  The model has one kind, [IndexOutOfRange],
   for the explicit bounds guards of array2d.go and for Go's own index / slice-bounds panics
   alike; read [Panic IndexOutOfRange] / [Some IndexOutOfRange] below as "panics".  The
   correspondence check does not compare kinds either (Arrays/Array2DCheck.v, [res_eqb]). *)
From Typ Require Import Lib.Base Arrays.Array2D Arrays.Array2DProofs Arrays.Array2DCheck.
From Typ Require Slices.Splice.
Local Open Scope Z_scope.

(* The index x + y*width used by all six sites stays inside the backing slice
   and distinct cells have distinct indices. *)
Theorem C08_index : forall w h x y x' y',
  0 <= x < w -> 0 <= y < h -> 0 <= x' < w -> 0 <= y' < h ->
  0 <= x + y * w < w * h /\ (x + y * w = x' + y' * w -> x = x' /\ y = y').
Proof. exact idx_index. Qed.
Print Assumptions C08_index.

(* Get: total inside the bounds, panics outside. *)
Theorem C08_get_in : forall (A : Type) (a : array2d A) x y, wf a -> in_bounds a x y ->
  exists v, get a x y = Ok v /\ nth_error (cells a) (Z.to_nat (x + y * width a)) = Some v.
Proof. exact @get_in. Qed.
Print Assumptions C08_get_in.

Theorem C08_get_out : forall (A : Type) (a : array2d A) x y, ~ in_bounds a x y ->
  get a x y = Panic IndexOutOfRange.
Proof. exact @get_out. Qed.
Print Assumptions C08_get_out.

(* Set(x,y,v) in bounds: no panic, same shape, Get(x,y) is v afterwards and
   Get of every other coordinate (inside or outside the bounds) is what it was. *)
Theorem C08_set_in : forall (A : Type) (a : array2d A) x y (v : A), wf a -> in_bounds a x y ->
  exists a', set a x y v = (a', None) /\ wf a' /\ width a' = width a /\ height a' = height a /\
    get a' x y = Ok v /\
    forall x' y', (x', y') <> (x, y) -> get a' x' y' = get a x' y'.
Proof. exact @set_in. Qed.
Print Assumptions C08_set_in.

(* Set outside the bounds panics and the array is unaltered. *)
Theorem C08_set_out : forall (A : Type) (a : array2d A) x y (v : A), ~ in_bounds a x y ->
  set a x y v = (a, Some IndexOutOfRange).
Proof. exact @set_out. Qed.
Print Assumptions C08_set_out.

(* Get returns the last value stored: for EVERY sequence of in-bounds Set calls,
   afterwards Get(x,y) is the value of the last Set to (x,y) in the sequence,
   or what it was before if there was none. *)
Theorem C08_get_last_stored : forall (A : Type) (ops : list (Z * Z * A)) (a : array2d A), wf a ->
  Forall (fun o => in_bounds a (fst (fst o)) (snd (fst o))) ops ->
  exists a', set_all a ops = (a', None) /\ wf a' /\ width a' = width a /\ height a' = height a /\
    forall x y, get a' x y = match last_stored ops x y with Some v => Ok v | None => get a x y end.
Proof. exact @set_all_spec. Qed.
Print Assumptions C08_get_last_stored.

(* Row(y): a window of exactly [width] positions; on the array as it is at any
   later time ([a'], same shape), position i of the window reads what
   Get(i,y) reads and writing it is Set(i,y,.) — the window is live and covers
   exactly the cells of row y. *)
Theorem C08_row : forall (A : Type) (a : array2d A) y, wf a -> 0 <= y < height a ->
  exists win, row a y = Ok win /\ Z.of_nat (snd win) = width a /\
    forall a' : array2d A, wf a' -> width a' = width a -> height a' = height a ->
    forall i (v : A), 0 <= i < width a ->
      win_get (cells a') win i = get a' i y /\
      with_cells a' (win_store (cells a') win i v) = set a' i y v.
Proof. exact @row_window. Qed.
Print Assumptions C08_row.

Theorem C08_row_out : forall (A : Type) (a : array2d A) y, ~ 0 <= y < height a ->
  row a y = Panic IndexOutOfRange.
Proof. exact @row_out. Qed.
Print Assumptions C08_row_out.

(* RowSpan(x1,x2,y) with x1 <= x2: exactly x2-x1+1 positions, position i is cell (x1+i, y), live. *)
Theorem C08_row_span : forall (A : Type) (a : array2d A) x1 x2 y,
  wf a -> 0 <= x1 -> x1 <= x2 -> x2 < width a -> 0 <= y < height a ->
  exists win, row_span a x1 x2 y = Ok win /\ Z.of_nat (snd win) = x2 - x1 + 1 /\
    forall a' : array2d A, wf a' -> width a' = width a -> height a' = height a ->
    forall i (v : A), 0 <= i <= x2 - x1 ->
      win_get (cells a') win i = get a' (x1 + i) y /\
      with_cells a' (win_store (cells a') win i v) = set a' (x1 + i) y v.
Proof. exact @row_span_window. Qed.
Print Assumptions C08_row_span.

Theorem C08_row_span_out : forall (A : Type) (a : array2d A) x1 x2 y,
  ~ (0 <= x1 < width a /\ 0 <= x2 < width a /\ 0 <= y < height a) ->
  row_span a x1 x2 y = Panic IndexOutOfRange.
Proof. exact @row_span_out. Qed.
Print Assumptions C08_row_span_out.

(* A window gives access to nothing but its positions. *)
Theorem C08_window_outside : forall (A : Type) (c : list A) (win : window) i (v : A),
  ~ 0 <= i < Z.of_nat (snd win) ->
  win_get c win i = Panic IndexOutOfRange /\ win_store c win i v = (c, Some IndexOutOfRange).
Proof. exact @window_outside. Qed.
Print Assumptions C08_window_outside.

(* Fill with both corners in bounds, in whichever order: no panic, same shape,
   every cell of the inclusive rectangle is v and every other cell is unchanged. *)
Theorem C08_fill_in : forall (A : Type) (a : array2d A) x1 y1 x2 y2 (v : A),
  wf a -> in_bounds a x1 y1 -> in_bounds a x2 y2 ->
  exists a', fill a x1 y1 x2 y2 v = (a', None) /\
    wf a' /\ width a' = width a /\ height a' = height a /\
    forall x y, in_bounds a x y ->
      get a' x y = if in_rect x1 y1 x2 y2 x y then Ok v else get a x y.
Proof. exact @fill_in. Qed.
Print Assumptions C08_fill_in.

(* Fill with a corner outside the bounds panics and the array is unaltered. *)
Theorem C08_fill_out : forall (A : Type) (a : array2d A) x1 y1 x2 y2 (v : A),
  ~ (in_bounds a x1 y1 /\ in_bounds a x2 y2) ->
  fill a x1 y1 x2 y2 v = (a, Some IndexOutOfRange).
Proof. exact @fill_out. Qed.
Print Assumptions C08_fill_out.

(* The property as one statement: for EVERY program of mutating calls (Set, Fill, writes
   through Row and RowSpan windows; in or out of bounds, any corners, any spans, a
   recovered panic does not stop the program) on a well-formed array that holds the
   cells of [g], the array at the end is well-formed, has the same shape, holds exactly
   the cells the cell model [ref_calls] computes on the function [g] (independent cells:
   [upd] changes one coordinate, Fill the inclusive rectangle, a panicking call nothing),
   and the same calls panicked. *)
Theorem C08_cell_model : forall (A : Type) (ks : list (call A)) (a : array2d A) (g : grid A),
  wf a -> agrees a g ->
  wf (fst (run_calls a ks)) /\
  width (fst (run_calls a ks)) = width a /\ height (fst (run_calls a ks)) = height a /\
  agrees (fst (run_calls a ks)) (fst (ref_calls (width a) (height a) g ks)) /\
  snd (run_calls a ks) = snd (ref_calls (width a) (height a) g ks).
Proof. exact @run_calls_refine. Qed.
Print Assumptions C08_cell_model.

(* slices.Fill is transcribed twice in this development: here on a window (off, n) of the
   backing list, and in Slices/Splice.v (property C12) on a slice = (backing array from its
   first element, length).  The window (off, n) of [c] is the C12 slice [GS (skipn off c) n];
   both transcriptions compute the same array, and nothing before the window changes.  So
   C08_fill_in / C08_new2d_filled and C12's Fill theorem speak about the same function. *)
Theorem C08_slices_fill_is_splice_fill : forall (A : Type) (v : A) (c : list A) (off n : nat),
  (off + n <= length c)%nat ->
  exists c', slices_fill c (off, n) v = (c', None) /\
    Splice.fill (Splice.GS (skipn off c) n) v = Ok (Splice.GS (skipn off c') n) /\
    firstn off c' = firstn off c /\ length c' = length c.
Proof. exact @slices_fill_is_splice_fill. Qed.
Print Assumptions C08_slices_fill_is_splice_fill.

Example C08_slices_fill_example :
  slices_fill [1;2;3;4;5;6;7] (1%nat, 5%nat) 9 = ([1;9;9;9;9;9;7], None) /\
  Splice.fill (Splice.GS [2;3;4;5;6;7] 5) 9 = Ok (Splice.GS [9;9;9;9;9;7] 5).
Proof. vm_compute. split; reflexivity. Qed.

(* Constructors: well-formed, of the requested shape, cells as the cell model says. *)
Theorem C08_new2d : forall (A : Type) (zero : A) w h, 0 <= w -> 0 <= h ->
  exists a, new2d zero w h = Ok a /\ wf a /\ width a = w /\ height a = h /\
    forall x y, in_bounds a x y -> get a x y = Ok zero.
Proof. exact @new2d_spec. Qed.
Print Assumptions C08_new2d.

Theorem C08_new2d_filled : forall (A : Type) (zero : A) w h (v : A), 0 <= w -> 0 <= h ->
  exists a, new2d_filled zero w h v = Ok a /\ wf a /\ width a = w /\ height a = h /\
    forall x y, in_bounds a x y -> get a x y = Ok v.
Proof. exact @new2d_filled_spec. Qed.
Print Assumptions C08_new2d_filled.

(* New2DFromJagged never panics, whatever the jagged input (fewer, more, shorter,
   longer rows): cell (x,y) is jagged[y][x] if that exists, else the zero value;
   jagged values outside the bounds are ignored. *)
Theorem C08_new2d_from_jagged : forall (A : Type) (zero : A) w h (jagged : list (list A)), 0 <= w -> 0 <= h ->
  exists a, new2d_from_jagged zero w h jagged = Ok a /\ wf a /\ width a = w /\ height a = h /\
    forall x y, in_bounds a x y ->
      get a x y = Ok (match nth_error jagged (Z.to_nat y) with
                      | Some r => match nth_error r (Z.to_nat x) with Some v => v | None => zero end
                      | None => zero
                      end).
Proof. exact @new2d_from_jagged_spec. Qed.
Print Assumptions C08_new2d_from_jagged.

(* Clone: EQUAL CONTENTS only (same shape, same cells).  In this functional model a clone is a
   value, so "independent of the original" cannot even be stated here: that the real Clone
   shares no memory with the original is checked by the harness only (it writes the clone and
   re-reads the original, and vice versa, on every Clone it makes). *)
Theorem C08_clone_equal_contents : forall (A : Type) (zero : A) (a : array2d A), clone zero a = a.
Proof. exact @clone_spec. Qed.
Print Assumptions C08_clone_equal_contents.

(* String prints height rows of width values, the value at (x,y) being Get(x,y). *)
Theorem C08_string : forall (A : Type) (a : array2d A), wf a ->
  exists rows, string_rows a = Ok rows /\ length rows = Z.to_nat (height a) /\
    forall x y, in_bounds a x y ->
      exists r v, nth_error rows (Z.to_nat y) = Some r /\ length r = Z.to_nat (width a) /\
                  nth_error r (Z.to_nat x) = Some v /\ get a x y = Ok v.
Proof. exact @string_rows_spec. Qed.
Print Assumptions C08_string.

(* Non-vacuity: a 3x2 array (rectangular, width <> height).  Set(2,1) changes only
   that cell; Fill with swapped corners assigns the rectangle (1..2, 0..1);
   row 1 is the window (3,3); out-of-bounds calls panic and leave the array as it was;
   a jagged input with a short row, a long row and an extra row. *)
Example C08_example :
  let a := Arr 3 2 [1;2;3;4;5;6] in
  wf a /\ in_bounds a 2 1 /\
  set a 2 1 9 = (Arr 3 2 [1;2;3;4;5;9], None) /\
  set a 3 1 9 = (a, Some IndexOutOfRange) /\
  fill a 2 1 1 0 7 = (Arr 3 2 [1;7;7;4;7;7], None) /\
  fill a 0 0 0 2 7 = (a, Some IndexOutOfRange) /\
  row a 1 = Ok (3%nat, 3%nat) /\ row_span a 1 2 1 = Ok (4%nat, 2%nat) /\
  get a 0 1 = Ok 4 /\ get a 0 2 = Panic IndexOutOfRange /\
  new2d_from_jagged 0 3 2 [[1]; [4;5;6;7]; [8]] = Ok (Arr 3 2 [1;0;0;4;5;6]) /\
  new2d_filled 0 3 2 5 = Ok (Arr 3 2 [5;5;5;5;5;5]) /\
  string_rows a = Ok [[1;2;3];[4;5;6]].
Proof. vm_compute. repeat split; try discriminate; reflexivity. Qed.

Example C08_agrees_example : wf (Arr 3 2 [1;2;3;4;5;6]) /\ agrees (Arr 3 2 [1;2;3;4;5;6]) (fun x y => 1 + x + y * 3).
Proof. exact wf_agrees_example. Qed.

Example C08_cell_model_example :
  run_calls (Arr 3 2 [1;2;3;4;5;6])
    [KSet 3 0 9; KFill 2 1 1 0 7; KRowWrite 1 0 8; KSpanWrite 1 2 0 1 5; KSpanWrite 2 1 0 0 5; KRowWrite 2 0 8]
  = (Arr 3 2 [1;7;5;8;7;7], [true; false; false; false; true; true]).
Proof. vm_compute. reflexivity. Qed.

(* The correspondence check itself (Arrays/Array2DCheck.v, evaluated by bin/check on the
   harness's observations of the real code) accepts a correct observation and rejects
   one in which Set(2,1) on a 3x2 array had landed in cell (1,1). *)
Example C08_check_example :
  check_case (Case 3 2 CNew (Ok [0;0;0;0;0;0])
    [(OSet 2 1 9, BMut None [(5,9)]); (OGet 2 1, BGet (Ok 9)); (ORow 1 [WWrite 0 4], BWin (Ok [0;0;9]) [4;0;9] [(3,4)])]) = true /\
  check_case (Case 3 2 CNew (Ok [0;0;0;0;0;0]) [(OSet 2 1 9, BMut None [(4,9)])]) = false.
Proof. vm_compute. split; reflexivity. Qed.
