(* C08 — Array2D is a grid of independent cells for every width and height. *)
From Typ Require Import Lib.Base Arrays.Array2D Arrays.Array2DProofs.
Local Open Scope Z_scope.

Theorem C08_index_range : forall w h x y, 0 <= x < w -> 0 <= y < h -> 0 <= x + y * w < w * h.
Proof. exact idx_range. Qed.
Print Assumptions C08_index_range.
