(* C01 — AVL tree is a sorted multiset under every operation history.
   Statements only; every proof is [exact] of a lemma from Avl/Bst.v (per
   function) or Avl/Hist.v (histories). Quantifiers: every element type [A],
   every [eqb]/[cmp] with [TotalOrderEq eqb cmp] (eqb decides =, cmp a b = 0
   <-> a = b, cmp a b < 0 <-> cmp b a > 0, < transitive), every tree / every
   finite op list over any number of handles (no size bound).
   Model: Avl/Model.v (transcription of avl/avl.go). Specification: Avl/Hist.v
   ([spec_step]: one [list A] per handle; Add = cons, Remove = delete one
   occurrence / false, Contains = membership, Len = length, In = sorted
   listing, Clear, Clone = copy). *)
From Coq Require Import Permutation Sorted.
From Typ Require Import Lib.Base Avl.Model Avl.Bst Avl.Hist.
Local Open Scope Z_scope.

(* ---- the search-tree invariant is "the in-order walk is sorted" ---- *)
Theorem C01_bst_iff_inorder_sorted : forall (A : Type) (eqb : A -> A -> bool) (cmp : A -> A -> Z),
  TotalOrderEq eqb cmp -> forall t : tree, bst cmp t <-> StronglySorted (le cmp) (inorder t).
Proof. exact @bst_sorted. Qed.
Print Assumptions C01_bst_iff_inorder_sorted.

Theorem C01_inorder_sorted : forall (A : Type) (eqb : A -> A -> bool) (cmp : A -> A -> Z),
  TotalOrderEq eqb cmp -> forall t : tree, bst cmp t -> Sorted (le cmp) (inorder t).
Proof. exact @bst_Sorted. Qed.
Print Assumptions C01_inorder_sorted.

(* ---- rotations and rebalance never change the in-order sequence (no hypothesis at all) ---- *)
Theorem C01_rotations_keep_inorder : forall (A : Type) (n n' : tree (A:=A)),
  (rotateLeft n = Ok n' -> inorder n' = inorder n) /\
  (rotateRight n = Ok n' -> inorder n' = inorder n) /\
  (rotateLeftRight n = Ok n' -> inorder n' = inorder n) /\
  (rotateRightLeft n = Ok n' -> inorder n' = inorder n) /\
  (rebalance n = Ok n' -> inorder n' = inorder n).
Proof.
  exact (fun A n n' => conj (rotateLeft_inorder n n') (conj (rotateRight_inorder n n')
    (conj (rotateLeftRight_inorder n n') (conj (rotateRightLeft_inorder n n') (rebalance_inorder n n'))))).
Qed.
Print Assumptions C01_rotations_keep_inorder.

(* ---- node.add: v is inserted after every element <= v and before every element > v;
        nothing else moves; the result is a search tree ---- *)
Theorem C01_add : forall (A : Type) (eqb : A -> A -> bool) (cmp : A -> A -> Z),
  TotalOrderEq eqb cmp -> forall (v : A) (t t' : tree), bst cmp t -> add cmp v t = Ok t' ->
  bst cmp t' /\
  exists l1 l2, inorder t = l1 ++ l2 /\ inorder t' = l1 ++ v :: l2 /\
                Forall (fun x => le cmp x v) l1 /\ Forall (fun x => cmp v x < 0) l2.
Proof. exact (fun A eqb cmp TO v t t' B H => conj (add_bst eqb cmp TO v t t' B H) (add_spec eqb cmp TO v t t' B H)). Qed.
Print Assumptions C01_add.

(* for ANY comparator, add only inserts *)
Theorem C01_add_multiset : forall (A : Type) (cmp : A -> A -> Z) (v : A) (t t' : tree),
  add cmp v t = Ok t' -> Permutation (inorder t') (v :: inorder t).
Proof. exact @add_perm. Qed.
Print Assumptions C01_add_multiset.

(* ---- node.popLeftMost: removes the first element of the in-order sequence and returns it ---- *)
Theorem C01_popLeftMost : forall (A : Type) (t t' : tree) (m : A),
  popLeftMost t = Ok (t', m) -> inorder t = m :: inorder t'.
Proof. exact @popLeftMost_inorder. Qed.
Print Assumptions C01_popLeftMost.

(* ---- node.remove ---- *)
(* found: exactly one occurrence of v leaves the sequence, nothing else moves, still a search tree *)
Theorem C01_remove_found : forall (A : Type) (eqb : A -> A -> bool) (cmp : A -> A -> Z),
  TotalOrderEq eqb cmp -> forall (v : A) (t t' : tree), remove eqb cmp v t = Ok (t', true) ->
  (exists l1 l2, inorder t = l1 ++ v :: l2 /\ inorder t' = l1 ++ l2) /\ (bst cmp t -> bst cmp t').
Proof.
  exact (fun A eqb cmp TO v t t' H => conj (remove_true_split eqb cmp TO v t t' H) (fun B => remove_true_bst eqb cmp TO v t t' B H)).
Qed.
Print Assumptions C01_remove_found.

(* not found: the identical tree is returned (cached heights included), and v really is absent *)
Theorem C01_remove_not_found : forall (A : Type) (eqb : A -> A -> bool) (cmp : A -> A -> Z),
  TotalOrderEq eqb cmp -> forall (v : A) (t t' : tree), remove eqb cmp v t = Ok (t', false) ->
  t' = t /\ (bst cmp t -> ~ In v (inorder t)).
Proof.
  exact (fun A eqb cmp TO v t t' H => conj (remove_false_same eqb cmp v t t' H) (fun B => remove_false_absent eqb cmp TO v t t' B H)).
Qed.
Print Assumptions C01_remove_not_found.

(* the boolean result is membership *)
Theorem C01_remove_result : forall (A : Type) (eqb : A -> A -> bool) (cmp : A -> A -> Z),
  TotalOrderEq eqb cmp -> forall (v : A) (t t' : tree) (b : bool), bst cmp t ->
  remove eqb cmp v t = Ok (t', b) -> (b = true <-> In v (inorder t)).
Proof. exact @remove_result_iff. Qed.
Print Assumptions C01_remove_result.

(* ---- node.find / contains ---- *)
Theorem C01_contains : forall (A : Type) (eqb : A -> A -> bool) (cmp : A -> A -> Z),
  TotalOrderEq eqb cmp -> forall (v : A) (t : tree), bst cmp t ->
  (contains eqb cmp v t = true <-> In v (inorder t)).
Proof. exact @contains_spec. Qed.
Print Assumptions C01_contains.

(* ---- the three walks list the same multiset ----
   NOTE on "three traversals of one and the same binary tree": in this value model that clause is
   DEFINITIONAL - preorder / inorder / postorder are three functions applied to one tree value, so there is
   nothing to prove beyond the permutation below. On the real code (three separate recursive methods over a
   pointer structure) the clause is carried by the Go oracle [oneTree] of harness/c01, which searches for a
   binary tree having the three observed walks (duplicates included). *)
Theorem C01_three_walks : forall (A : Type) (t : tree (A:=A)),
  Permutation (preorder t) (inorder t) /\ Permutation (postorder t) (inorder t).
Proof. exact (fun A t => conj (preorder_perm t) (postorder_perm t)). Qed.
Print Assumptions C01_three_walks.

(* with distinct values the pre-order and in-order walks determine the tree (up to cached heights), hence
   the post-order walk: this is the reconstruction the harness uses to check that the three Slice*/Walk*
   outputs of the real code are traversals of ONE tree *)
Theorem C01_walks_determine_tree : forall (A : Type) (t t' : tree (A:=A)), NoDup (inorder t) ->
  preorder t = preorder t' -> inorder t = inorder t' -> skel t = skel t' /\ postorder t = postorder t'.
Proof. exact @walks_determine_tree. Qed.
Print Assumptions C01_walks_determine_tree.

(* ---- no nil dereference: add / popLeftMost / remove are total on trees whose cached heights are >= 0,
        and keep that ---- *)
Theorem C01_total : forall (A : Type) (eqb : A -> A -> bool) (cmp : A -> A -> Z) (v : A) (t : tree),
  t <> E -> hnn t ->
  (exists t', add cmp v t = Ok t' /\ hnn t' /\ t' <> E) /\
  (exists t' m, popLeftMost t = Ok (t', m) /\ hnn t') /\
  (exists t' b, remove eqb cmp v t = Ok (t', b) /\ hnn t').
Proof.
  exact (fun A eqb cmp v t Hne H => conj (add_hnn_total cmp v t Hne H)
          (conj (popLeftMost_hnn_total t Hne H) (remove_hnn_total eqb cmp v t Hne H))).
Qed.
Print Assumptions C01_total.

(* ---- meaning of the specification's In-order output: THE sorted listing of the multiset ---- *)
Theorem C01_spec_sort : forall (A : Type) (eqb : A -> A -> bool) (cmp : A -> A -> Z),
  TotalOrderEq eqb cmp -> forall l : list A,
  StronglySorted (le cmp) (sort cmp l) /\ Permutation (sort cmp l) l /\
  forall l', StronglySorted (le cmp) l' -> Permutation l' l -> l' = sort cmp l.
Proof.
  exact (fun A eqb cmp TO l => conj (sort_sorted eqb cmp TO l) (conj (sort_perm cmp l) (fun l' => sort_unique eqb cmp TO l' l))).
Qed.
Print Assumptions C01_spec_sort.

(* ---- MAIN: every history, started from one empty tree, on any number of handles ----
   (1) every output equals the multiset specification's output (Pre/Post: a permutation of
       the sorted contents; everything else, In-order / Len / Contains / Remove result
       included, exactly);
   (2) at the end every handle holds a search tree whose in-order walk is the sorted listing
       of the multiset the specification holds for it, and whose count is its size;
   (3) no output is a panic. *)
Theorem C01_refines_multiset : forall (A : Type) (eqb : A -> A -> bool) (cmp : A -> A -> Z),
  TotalOrderEq eqb cmp -> forall ops : list op,
  outs_agree ops (snd (run_history eqb cmp ops)) (snd (spec_history eqb cmp ops)) /\
  Forall2 (fun T l => bst cmp (root T) /\ inorder (root T) = sort cmp l /\
                      Sorted (le cmp) (inorder (root T)) /\ count T = Z.of_nat (length l))
          (fst (run_history eqb cmp ops)) (fst (spec_history eqb cmp ops)) /\
  Forall (fun x => ~ is_panic x) (snd (run_history eqb cmp ops)).
Proof. exact @history_refines_closed. Qed.
Print Assumptions C01_refines_multiset.

(* ---- Remove after any history: result = membership; "false" changes nothing in the whole
        state; "true" deletes exactly one occurrence and decrements Len ---- *)
Theorem C01_remove_after_history : forall (A : Type) (eqb : A -> A -> bool) (cmp : A -> A -> Z),
  TotalOrderEq eqb cmp -> forall (ops : list op) (h : nat) (v : A) (T : Tree),
  let ts := fst (run_history eqb cmp ops) in
  nth_error ts h = Some T ->
  exists T' b, step eqb cmp ts (OpRemove h v) = (set_handle ts h T', OBool b) /\
    (b = true <-> In v (inorder (root T))) /\
    (if b then Permutation (inorder (root T)) (v :: inorder (root T')) /\ count T' = count T - 1
     else T' = T /\ set_handle ts h T' = ts).
Proof. exact @remove_after_history. Qed.
Print Assumptions C01_remove_after_history.

(* for ANY state and comparator: a Remove that answers false returns the state unchanged *)
Theorem C01_remove_false_changes_nothing : forall (A : Type) (eqb : A -> A -> bool) (cmp : A -> A -> Z)
  (ts : list Tree) (h : nat) (v : A) (ts' : list Tree),
  step eqb cmp ts (OpRemove h v) = (ts', OBool false) -> ts' = ts.
Proof. exact @step_remove_false_same. Qed.
Print Assumptions C01_remove_false_changes_nothing.

(* ---- Clone of ANY tree value (any size, any count field) succeeds and has the same contents ---- *)
Theorem C01_clone_any_size : forall (A : Type) (eqb : A -> A -> bool) (cmp : A -> A -> Z),
  TotalOrderEq eqb cmp -> forall T : Tree,
  exists T', Tree_Clone cmp T = Ok T' /\
    (hnn (root T') /\ bst cmp (root T') /\ count T' = Z.of_nat (length (inorder (root T')))) /\
    Permutation (inorder (root T')) (inorder (root T)).
Proof. exact @Tree_Clone_closed. Qed.
Print Assumptions C01_clone_any_size.

(* ---- Clone after any history, and independence of original and clone under every continuation:
   the clone lists the same values in order and has the same Len; for every later op list ops2,
   the outputs of the ops addressed to the original (h) are those of running only these ops on the
   state WITHOUT the clone, and the outputs on the clone (handle [length ts]) are those of running
   only the clone's ops; likewise for the trees they end with. *)
Theorem C01_clone_independent : forall (A : Type) (eqb : A -> A -> bool) (cmp : A -> A -> Z),
  TotalOrderEq eqb cmp -> forall (ops : list op) (h : nat) (T : Tree) (ops2 : list op),
  let ts := fst (run_history eqb cmp ops) in
  nth_error ts h = Some T ->
  exists T', step eqb cmp ts (OpClone h) = (ts ++ [T'], OUnit) /\
    inorder (root T') = inorder (root T) /\ count T' = count T /\
    nth_error (ts ++ [T']) (length ts) = Some T' /\
    select h ops2 (snd (run eqb cmp (ts ++ [T']) ops2)) = snd (run eqb cmp ts (on_handle h ops2)) /\
    nth_error (fst (run eqb cmp (ts ++ [T']) ops2)) h = nth_error (fst (run eqb cmp ts (on_handle h ops2))) h /\
    select (length ts) ops2 (snd (run eqb cmp (ts ++ [T']) ops2)) = snd (run eqb cmp (ts ++ [T']) (on_handle (length ts) ops2)) /\
    nth_error (fst (run eqb cmp (ts ++ [T']) ops2)) (length ts) =
      nth_error (fst (run eqb cmp (ts ++ [T']) (on_handle (length ts) ops2))) (length ts).
Proof. exact @clone_independent. Qed.
Print Assumptions C01_clone_independent.

(* ---- handles never influence each other (any state, any comparator): what handle h shows during
        a history and the tree it ends with are determined by the ops addressed to h alone ----
   NOTE on "shares no state": C01_handles_independent, C01_frame and the projection half of
   C01_clone_independent are facts of the VALUE MODEL (a handle is a position in a list of immutable tree
   values; they hold for any comparator and any state). Physical sharing of *node pointers between a clone
   and its original cannot be expressed in this model, so these theorems say nothing about it: on the real
   code that clause is carried by the harness only (reflection probe [disjointTrees]: the node sets of all
   handles are pairwise disjoint and each is a tree; plus re-reading every other handle after every
   mutating op). What the theorems do give: the transcribed functions, as functions of one tree value, have
   no hidden dependence on other handles. *)
Theorem C01_handles_independent : forall (A : Type) (eqb : A -> A -> bool) (cmp : A -> A -> Z)
  (ts1 ts2 : list Tree) (ops : list op) (h : nat),
  (h < length ts1)%nat -> nth_error ts1 h = nth_error ts2 h ->
  select h ops (snd (run eqb cmp ts1 ops)) = snd (run eqb cmp ts2 (on_handle h ops)) /\
  nth_error (fst (run eqb cmp ts1 ops)) h = nth_error (fst (run eqb cmp ts2 (on_handle h ops))) h.
Proof. exact @run_project. Qed.
Print Assumptions C01_handles_independent.

Theorem C01_frame : forall (A : Type) (eqb : A -> A -> bool) (cmp : A -> A -> Z)
  (ts : list Tree) (ops : list op) (h : nat),
  (h < length ts)%nat -> Forall (fun o => op_handle o <> h) ops ->
  nth_error (fst (run eqb cmp ts ops)) h = nth_error ts h.
Proof. exact @run_frame. Qed.
Print Assumptions C01_frame.

(* ---- non-vacuity ---- *)
(* the hypotheses are satisfiable: typ.Compare on int with == *)
Theorem C01_int_comparator_ok : TotalOrderEq Z.eqb zcompare.
Proof. exact zcompare_TotalOrderEq. Qed.
Print Assumptions C01_int_comparator_ok.

(* ... and a lexicographic comparator on a two-field struct with the derived == (harness type Pair) *)
Theorem C01_pair_comparator_ok : TotalOrderEq paireqb paircompare.
Proof. exact paircompare_TotalOrderEq. Qed.
Print Assumptions C01_pair_comparator_ok.

(* per-function statements on a concrete search tree with a duplicate key in the LEFT subtree:
   [3,3,5,8] as 5(3(3,-),8). add 3 goes right of both 3s; remove 5 (one child each side -> popLeftMost);
   remove 4 is refused and returns the same tree *)
Example C01_example_functions :
  let t := N (N (N E 3 0 E) 3 1 E) 5 2 (N E 8 0 E) in
  bst zcompare t /\ hnn t /\ inorder t = [3; 3; 5; 8] /\
  (exists t', add zcompare 3 t = Ok t' /\ inorder t' = [3; 3; 3; 5; 8]) /\
  (exists t', remove Z.eqb zcompare 5 t = Ok (t', true) /\ inorder t' = [3; 3; 8]) /\
  remove Z.eqb zcompare 4 t = Ok (t, false) /\
  contains Z.eqb zcompare 3 t = true /\ contains Z.eqb zcompare 4 t = false /\
  popLeftMost t = Ok (N (N E 3 0 E) 5 1 (N E 8 0 E), 3).
Proof.
  cbv zeta. split; [cbn; repeat split; repeat constructor; unfold le, zcompare; cbn; lia|].
  split; [cbn; lia|]. split; [reflexivity|].
  split; [eexists; split; vm_compute; reflexivity|]. split; [eexists; split; vm_compute; reflexivity|].
  vm_compute. repeat split.
Qed.

(* 24 mixed ops on two handles: duplicate Add, Clone of 7 elements, Remove of the root (two
   children, goes through popLeftMost), Remove of an absent value, ops on the clone that the
   original does not see, Clear, a bad handle *)
Example C01_example :
  let ops := [OpAdd 0 5; OpAdd 0 3; OpAdd 0 8; OpAdd 0 3; OpAdd 0 1; OpAdd 0 9; OpAdd 0 7; OpClone 0;
              OpPre 0; OpRemove 0 5; OpRemove 0 4; OpAdd 1 4; OpIn 0; OpIn 1; OpLen 0; OpLen 1;
              OpContains 0 5; OpContains 1 5; OpPre 0; OpPost 0; OpClear 1; OpLen 1; OpIn 0; OpRemove 7 1] in
  snd (run_history Z.eqb zcompare ops) =
    [OUnit; OUnit; OUnit; OUnit; OUnit; OUnit; OUnit; OUnit;
     OList [5; 3; 1; 3; 8; 7; 9]; OBool true; OBool false; OUnit;
     OList [1; 3; 3; 7; 8; 9]; OList [1; 3; 3; 4; 5; 7; 8; 9]; OInt 6; OInt 8;
     OBool false; OBool true; OList [7; 3; 1; 3; 8; 9]; OList [1; 3; 3; 9; 8; 7]; OUnit; OInt 0;
     OList [1; 3; 3; 7; 8; 9]; OBadHandle] /\
  fst (spec_history Z.eqb zcompare ops) = [[7; 9; 1; 3; 8; 3]; []] /\
  snd (spec_history Z.eqb zcompare ops) =
    [OUnit; OUnit; OUnit; OUnit; OUnit; OUnit; OUnit; OUnit;
     OList [1; 3; 3; 5; 7; 8; 9]; OBool true; OBool false; OUnit;
     OList [1; 3; 3; 7; 8; 9]; OList [1; 3; 3; 4; 5; 7; 8; 9]; OInt 6; OInt 8;
     OBool false; OBool true; OList [1; 3; 3; 7; 8; 9]; OList [1; 3; 3; 7; 8; 9]; OUnit; OInt 0;
     OList [1; 3; 3; 7; 8; 9]; OBadHandle].
Proof. vm_compute. repeat split. Qed.
