(* C20 — Numeric and utility helpers are correct over the whole value range.
   Statements only; every proof is [exact] of a lemma from Num/MathUtilProofs.v.
   Quantifiers: every integer type t = (signed?, 8/16/32/64 bits), every value
   in the range of t (no enumeration), every argument list; Min/Max/Clamp/
   Compare/Less additionally for every carrier with a strict weak order [ltb]
   (asymmetric, negatively transitive: integers, strings, floats without NaN). *)
From Typ Require Import Lib.Base Num.MathUtil Num.MathUtilProofs.
Local Open Scope Z_scope.

(* Min: panics on no arguments; otherwise returns an argument that no argument
   is smaller than — precisely the first such one (everything before it is
   strictly greater).  Any strict weak order. *)
Theorem C20_min : forall (A : Type) (ltb : A -> A -> bool),
  (forall x y, ltb x y = true -> ltb y x = false) ->
  (forall x y z, ltb x z = true -> ltb x y = true \/ ltb y z = true) ->
  gmin ltb [] = Panic Explicit /\
  forall v, v <> [] ->
    exists r, gmin ltb v = Ok r /\ first_min ltb v r /\ In r v /\ forall x, In x v -> ltb x r = false.
Proof. exact (fun A ltb asym nt => conj (gmin_empty ltb) (gmin_correct ltb asym nt)). Qed.
Print Assumptions C20_min.

Theorem C20_max : forall (A : Type) (ltb : A -> A -> bool),
  (forall x y, ltb x y = true -> ltb y x = false) ->
  (forall x y z, ltb x z = true -> ltb x y = true \/ ltb y z = true) ->
  gmax ltb [] = Panic Explicit /\
  forall v, v <> [] ->
    exists r, gmax ltb v = Ok r /\ first_max ltb v r /\ In r v /\ forall x, In x v -> ltb r x = false.
Proof. exact (fun A ltb asym nt => conj (gmax_empty ltb) (gmax_correct ltb asym nt)). Qed.
Print Assumptions C20_max.

(* ... for every integer type t and arguments of type t: a value of type t, one of the arguments, <= (>=) all of
   them.  (Values are their own mathematical value, so the order of every type is the order of Z; the type only
   fixes the range.) *)
Theorem C20_min_int : forall t v, v <> [] -> Forall (in_range t) v ->
  exists r, imin t v = Ok r /\ In r v /\ in_range t r /\ forall x, In x v -> r <= x.
Proof. exact imin_typed. Qed.
Print Assumptions C20_min_int.

Theorem C20_max_int : forall t v, v <> [] -> Forall (in_range t) v ->
  exists r, imax t v = Ok r /\ In r v /\ in_range t r /\ forall x, In x v -> x <= r.
Proof. exact imax_typed. Qed.
Print Assumptions C20_max_int.

(* Clamp with lo <= hi (not hi < lo), any strict weak order *)
Theorem C20_clamp : forall (A : Type) (ltb : A -> A -> bool),
  (forall x y, ltb x y = true -> ltb y x = false) ->
  (forall x y z, ltb x z = true -> ltb x y = true \/ ltb y z = true) ->
  forall v lo hi, ltb hi lo = false ->
    (ltb v lo = true -> clamp ltb v lo hi = lo) /\
    (ltb hi v = true -> clamp ltb v lo hi = hi) /\
    (ltb v lo = false -> ltb hi v = false -> clamp ltb v lo hi = v).
Proof. exact @clamp_correct. Qed.
Print Assumptions C20_clamp.

Theorem C20_clamp_int : forall t v lo hi, in_range t v -> in_range t lo -> in_range t hi -> lo <= hi ->
  iclamp t v lo hi = (if v <? lo then lo else if hi <? v then hi else v) /\
  iclamp t v lo hi = Z.max lo (Z.min v hi) /\
  (lo <= v <= hi -> iclamp t v lo hi = v) /\
  (v < lo -> iclamp t v lo hi = lo) /\
  (hi < v -> iclamp t v lo hi = hi) /\
  lo <= iclamp t v lo hi <= hi /\
  in_range t (iclamp t v lo hi).
Proof. exact iclamp_typed. Qed.
Print Assumptions C20_clamp_int.

(* Clamp01 is Clamp to [0,1] *)
Theorem C20_clamp01 : forall (A : Type) (ltb : A -> A -> bool) (zero one v : A),
  clamp01 ltb zero one v = clamp ltb v zero one.
Proof. exact @clamp01_is_clamp. Qed.
Print Assumptions C20_clamp01.

Theorem C20_clamp01_int : forall t v, in_range t v ->
  iclamp01 t v = iclamp t v 0 1 /\
  iclamp01 t v = (if v <? 0 then 0 else if 1 <? v then 1 else v) /\
  in_range t (iclamp01 t v).
Proof. exact iclamp01_typed. Qed.
Print Assumptions C20_clamp01_int.

(* Sum / Product: the wrapped mathematical sum / product; 0 / 1 for no
   arguments; left to right, one wrapping operation per argument; in range. *)
Theorem C20_sum : forall t v,
  sum t v = wrap t (zsum v) /\ sum t [] = 0 /\
  (forall x, sum t (v ++ [x]) = wrap t (sum t v + x)) /\ in_range t (sum t v).
Proof. exact sum_correct. Qed.
Print Assumptions C20_sum.

Theorem C20_product : forall t v,
  product t v = wrap t (zprod v) /\ product t [] = 1 /\
  (forall x, product t (v ++ [x]) = wrap t (product t v * x)) /\ in_range t (product t v).
Proof. exact product_correct. Qed.
Print Assumptions C20_product.

(* what "wrapping" means: wrap t x is the value of type t congruent to x modulo 2^bits *)
Theorem C20_wrap : forall t x,
  in_range t (wrap t x) /\ wrap t x mod modulus t = x mod modulus t /\ (in_range t x -> wrap t x = x).
Proof. exact (fun t x => conj (wrap_in_range t x) (conj (wrap_mod t x) (wrap_id t x))). Qed.
Print Assumptions C20_wrap.

(* Abs is the magnitude wherever it is representable (everything but the
   minimum of a signed type, which is returned unchanged) *)
Theorem C20_abs : forall t v, in_range t v ->
  (v <> min_of t \/ signed t = false -> iabs t v = Z.abs v) /\
  (signed t = true -> v = min_of t -> iabs t v = v).
Proof. exact iabs_correct. Qed.
Print Assumptions C20_abs.

(* Abs over any ordered carrier with a negation that makes negative values non-negative (floats without NaN):
   the negation of a negative value, the value itself otherwise, never negative.  Nothing is said about the sign
   of a zero (Abs(-0.0) is -0.0 in the code: -0.0 < 0 is false). *)
Theorem C20_abs_ordered : forall (A : Type) (ltb : A -> A -> bool) (neg : A -> A) (zero : A),
  (forall v, ltb v zero = true -> ltb (neg v) zero = false) ->
  forall v,
    (ltb v zero = true -> gabs ltb neg zero v = neg v) /\
    (ltb v zero = false -> gabs ltb neg zero v = v) /\
    ltb (gabs ltb neg zero v) zero = false.
Proof. exact @gabs_correct. Qed.
Print Assumptions C20_abs_ordered.

(* ... and on the order preserving, negation-commuting code of the non-NaN floats in Z (the one the harness
   uses; both zeros have code 0) it is the magnitude; Z.opp satisfies the hypothesis above. *)
Theorem C20_abs_code : forall v,
  gabs Z.ltb Z.opp 0 v = Z.abs v /\ (forall v', (v' <? 0) = true -> (- v' <? 0) = false).
Proof. exact gabs_code. Qed.
Print Assumptions C20_abs_code.

(* Compare and Less agree with the built-in order.  The integer type t is irrelevant here: values are their own
   mathematical value and Compare/Less depend on the order only, which is the order of Z for every type (the
   result is an int / a bool, not a value of t), so there is no in_range hypothesis. *)
Theorem C20_compare_less : forall t a b,
  icompare t a b = match a ?= b with Lt => -1 | Eq => 0 | Gt => 1 end /\
  (iless t a b = true <-> a < b) /\
  (icompare t a b = 0 <-> a = b) /\ (icompare t a b = -1 <-> a < b) /\ (icompare t a b = 1 <-> b < a).
Proof. exact icompare_typed. Qed.
Print Assumptions C20_compare_less.

Theorem C20_compare_less_ordered : forall (A : Type) (ltb : A -> A -> bool) (a b : A),
  (forall x y, ltb x y = true -> ltb y x = false) ->
  (ltb a b = true -> compare ltb a b = -1) /\
  (ltb b a = true -> compare ltb a b = 1) /\
  (ltb a b = false -> ltb b a = false -> compare ltb a b = 0) /\
  less ltb a b = ltb a b.
Proof. exact @gcompare_correct. Qed.
Print Assumptions C20_compare_less_ordered.

(* ndigits n is the number of decimal digits of n >= 0 ... *)
Theorem C20_ndigits : forall n, 0 <= n ->
  1 <= ndigits n /\ (n = 0 -> ndigits n = 1) /\ (0 < n -> 10 ^ (ndigits n - 1) <= n < 10 ^ ndigits n).
Proof. exact ndigits_spec. Qed.
Print Assumptions C20_ndigits.

(* ... and the only such number *)
Theorem C20_ndigits_unique : forall n d, 0 < n -> 1 <= d -> 10 ^ (d - 1) <= n < 10 ^ d -> ndigits n = d.
Proof. exact ndigits_unique. Qed.
Print Assumptions C20_ndigits_unique.

(* Digits10 / DigitsSign10 for every value of every integer type, the minimum
   of each signed type included *)
Theorem C20_digits : forall t v, in_range t v ->
  digits10 t v = ndigits (Z.abs v) /\
  digitssign10 t v = ndigits (Z.abs v) + (if v <? 0 then 1 else 0).
Proof. exact digits_correct. Qed.
Print Assumptions C20_digits.

(* Coal returns the first non-zero argument (everything before it is zero), or zero if there is none *)
Theorem C20_coal : forall (A : Type) (eqb : A -> A -> bool) (zero : A) (values : list A),
  (exists pre post, values = pre ++ coal eqb zero values :: post /\
     (forall x, In x pre -> eqb x zero = true) /\ eqb (coal eqb zero values) zero = false) \/
  ((forall x, In x values -> eqb x zero = true) /\ coal eqb zero values = zero).
Proof. exact @coal_correct. Qed.
Print Assumptions C20_coal.

(* Zero, ZeroOf, IsZero (honouring an IsZero method), Tern, Ref, DerefZero *)
Theorem C20_misc : forall (A : Type) (eqb : A -> A -> bool) (zero : A),
  zero_ zero = zero /\
  (forall v, zero_of zero v = zero) /\
  (forall meth v, eqb v zero = true -> is_zero eqb zero meth v = true) /\
  (forall m v, eqb v zero = false -> is_zero eqb zero (Some m) v = m v) /\
  (forall v, eqb v zero = false -> is_zero eqb zero None v = false) /\
  (forall a b : A, tern true a b = a /\ tern false a b = b) /\
  (forall v : A, deref_zero zero (ref v) = v) /\
  deref_zero zero None = zero.
Proof. exact @misc_correct. Qed.
Print Assumptions C20_misc.

(* IsNil is true exactly for the nil interface; TernCast casts or panics *)
Theorem C20_iface : forall (P : Type),
  is_nil (OfIface (None : iface P)) = true /\
  (forall dyn (p : P), is_nil (OfIface (Some (dyn, p))) = false) /\
  (forall dyn (p : P), is_nil (OfConcrete dyn p) = false) /\
  (forall tT value (ifFalse : P), tern_cast tT false value ifFalse = Ok ifFalse) /\
  (forall tT (p ifFalse : P), tern_cast tT true (Some (tT, p)) ifFalse = Ok p) /\
  (forall tT dyn (p ifFalse : P), dyn <> tT -> tern_cast tT true (Some (dyn, p)) ifFalse = Panic OtherPanic) /\
  (forall tT (ifFalse : P), tern_cast tT true None ifFalse = Panic OtherPanic).
Proof. exact @iface_correct. Qed.
Print Assumptions C20_iface.

(* TernCast[T] for an interface type T (any, error): every non-nil value whose dynamic type implements T is
   returned unchanged, anything else (the nil interface included) panics, and ifFalse is returned when cond is false *)
Theorem C20_terncast_iface : forall (P : Type) (impl : Z -> bool),
  (forall value (ifFalse : iface P), tern_cast_iface impl false value ifFalse = Ok ifFalse) /\
  (forall dyn (p : P) ifFalse, impl dyn = true -> tern_cast_iface impl true (Some (dyn, p)) ifFalse = Ok (Some (dyn, p))) /\
  (forall dyn (p : P) ifFalse, impl dyn = false -> tern_cast_iface impl true (Some (dyn, p)) ifFalse = Panic OtherPanic) /\
  (forall ifFalse : iface P, tern_cast_iface impl true None ifFalse = Panic OtherPanic).
Proof. exact @tern_cast_iface_correct. Qed.
Print Assumptions C20_terncast_iface.

(* Non-vacuity: the minimum of int8 and of int64, wrap-around, first minimum. *)
Example C20_example :
  in_range (ITy true W8) (-128) /\
  digits10 (ITy true W8) (-128) = 3 /\ digitssign10 (ITy true W8) (-128) = 4 /\
  in_range (ITy true W64) (-9223372036854775808) /\
  digits10 (ITy true W64) (-9223372036854775808) = 19 /\
  digitssign10 (ITy true W64) (-9223372036854775808) = 20 /\
  digits10 (ITy false W64) 18446744073709551615 = 20 /\
  ndigits 128 = 3 /\ ndigits 0 = 1 /\ ndigits 1000 = 4 /\ ndigits 999 = 3 /\
  sum (ITy true W8) [100; 100; -50] = -106 /\ product (ITy false W8) [16; 17] = 16 /\
  iabs (ITy true W16) (-32768) = -32768 /\ iabs (ITy true W16) (-32767) = 32767 /\
  imin (ITy true W8) [3; -5; 7; -5] = Ok (-5) /\ imax (ITy false W8) [] = Panic Explicit /\
  iclamp (ITy true W8) 9 (-3) 5 = 5 /\ coal Z.eqb 0 [0; 0; 4; 5] = 4 /\
  Forall (in_range (ITy true W8)) [3; -5; 7; -5] /\ in_range (ITy true W8) 9 /\
  gabs Z.ltb Z.opp 0 (-4607182418800017408) = 4607182418800017408 /\
  tern_cast_iface (fun d => d =? 7) true (Some (7, 3)) None = Ok (Some (7, 3)) /\
  tern_cast_iface (fun d => d =? 7) true (Some (1, 3)) None = Panic OtherPanic /\
  tern_cast_iface (fun _ => true) true (None : iface Z) None = Panic OtherPanic /\
  (* IsZero[any](any(0)) is false: an interface holding 0 is not the nil interface, and int has no method *)
  is_zero (option_eqb (prod_eqb Z.eqb Z.eqb)) None None (Some (1, 0)) = false.
Proof.
  repeat match goal with |- _ /\ _ => split end;
    try (vm_compute; reflexivity);
    try (apply in_rangeb_spec; vm_compute; reflexivity);
    try (repeat constructor; apply in_rangeb_spec; vm_compute; reflexivity).
Qed.
