(* C18 — AtomicValue is an atomic register; Pool never hands one item to two users. *)
From Typ Require Import Lib.Base Sync.AtomicPool Sync.AtomicPoolProofs.

Theorem C18_spec_is_register : forall (V : Type) (zero : V) (eqb : V -> V -> bool),
  (forall x y, eqb x y = true <-> x = y) -> forall s : option V,
    spec_step zero eqb s OLoad = (s, RVal (or_zero zero s)) /\
    (forall v, spec_step zero eqb s (OStore v) = (Some v, RUnit)) /\
    (forall v, spec_step zero eqb s (OSwap v) = (Some v, RVal (or_zero zero s))) /\
    (forall c old new, s = Some c ->
       (c = old -> spec_step zero eqb s (OCas old new) = (Some new, RBool true)) /\
       (c <> old -> spec_step zero eqb s (OCas old new) = (s, RBool false))).
Proof. exact spec_register. Qed.
Print Assumptions C18_spec_is_register.
