(* C18 — AtomicValue is an atomic register; Pool never hands one item to two users.
   Statements only; every proof is [exact] of a lemma of Sync/AtomicPoolProofs.v.

   Quantifiers. AtomicValue: every value type V whose Go equality [eqb] decides
   equality, every zero value, every number of goroutines (one entry of
   [progs] each), every program (list of Load / Store / Swap / CompareAndSwap
   calls) per goroutine, every schedule [s] : list (thread, coincide flag) of
   the atomic steps of Sync/AtomicPool.v, of any length (entries naming a
   disabled thread are skipped). Pool: with and without New, every number of
   goroutines, every program (Get / Put of a held item / Put of a new item /
   Put of the zero value), every schedule of thread steps with every choice
   the runtime pool can make (hand out any bagged item, miss, drop any item).
   atomic.Value and sync.Pool are the trusted abstract machines of
   Sync/AtomicPool.v; in particular atomic.Value.CompareAndSwap is modelled as
   the stdlib implements it (two steps, may fail spuriously), and the theorem
   is about the wrapper's retry loop on top of it. Traces are newest first. *)
From Typ Require Import Lib.Base Sync.AtomicPool Sync.AtomicPoolProofs.

(* ---------------- AtomicValue ---------------- *)

(* The specification the histories are compared with is the register of the
   property text: Load returns the zero value before the first Store and
   otherwise the value stored last (Swap and a successful CompareAndSwap store
   too); Swap returns the value it replaced; once a value has been stored,
   CompareAndSwap succeeds exactly when the current value equals old, and then
   stores new, otherwise changes nothing. *)
Theorem C18_spec_is_register : forall (V : Type) (zero : V) (eqb : V -> V -> bool),
  (forall x y, eqb x y = true <-> x = y) -> forall s : option V,
    spec_step zero eqb s OLoad = (s, RVal (or_zero zero s)) /\
    (forall v, spec_step zero eqb s (OStore v) = (Some v, RUnit)) /\
    (forall v, spec_step zero eqb s (OSwap v) = (Some v, RVal (or_zero zero s))) /\
    (forall c old new, s = Some c ->
       (c = old -> spec_step zero eqb s (OCas old new) = (Some new, RBool true)) /\
       (c <> old -> spec_step zero eqb s (OCas old new) = (s, RBool false))).
Proof. exact spec_register. Qed.
Print Assumptions C18_spec_is_register.

(* Every history (invocations and responses of the wrapper calls, in real-time
   order) of every program under every schedule is linearizable to that
   register: linearization marks can be placed, one inside each completed call
   (and inside some pending ones), such that the marks in order are a legal
   sequential run of the register and every response is the register's answer
   at the call's mark ([lin_check], Sync/AtomicPool.v). *)
Theorem C18_register_linearizable : forall (V : Type) (zero : V) (eqb : V -> V -> bool),
  (forall x y, eqb x y = true <-> x = y) ->
  forall (progs : list (list (op V))) (s : list (tid * bool)),
    Linearizable zero eqb (ahistory (arun zero eqb (ainit progs) s)).
Proof. exact register_linearizable. Qed.
Print Assumptions C18_register_linearizable.

(* The marks are the steps of the model that touch atomic.Value, and the
   register they describe is what atomic.Value holds. *)
Theorem C18_register_state : forall (V : Type) (zero : V) (eqb : V -> V -> bool),
  (forall x y, eqb x y = true <-> x = y) ->
  forall (progs : list (list (op V))) (s : list (tid * bool)),
    exists st, lin_check zero eqb (rev (a_trace (arun zero eqb (ainit progs) s))) = Some st /\
               l_spec st = prim_load (a_reg (arun zero eqb (ainit progs) s)).
Proof. exact register_state. Qed.
Print Assumptions C18_register_state.

(* The results handed to a goroutine (what the correspondence check compares
   with the real code) are exactly its responses in that history, in order. *)
Theorem C18_rets_are_history : forall (V : Type) (zero : V) (eqb : V -> V -> bool)
    (progs : list (list (op V))) (s : list (tid * bool)) t th,
  nth_error (a_threads (arun zero eqb (ainit progs) s)) t = Some th ->
  a_rets th = rev (tres V t (a_trace (arun zero eqb (ainit progs) s))).
Proof. exact rets_are_history. Qed.
Print Assumptions C18_rets_are_history.

(* CompareAndSwap is a retry loop (lock-free, not wait-free: an adversarial
   schedule can make it retry for ever, which is why the theorems above speak
   about completed calls). It is obstruction-free: from ANY configuration
   (reachable or not), a call in progress returns within 6 steps of its thread
   when no other thread moves meanwhile. *)
Theorem C18_call_returns_when_alone : forall (V : Type) (zero : V) (eqb : V -> V -> bool)
    (c : aconfig V) (t : tid) (p : apc V),
  tpc V c t = Some p -> p <> AIdle ->
  exists n, n <= 6 /\ tpc V (solo V zero eqb c t n) t = Some AIdle.
Proof. exact call_returns_when_alone. Qed.
Print Assumptions C18_call_returns_when_alone.

(* ---------------- Pool ---------------- *)

(* Ownership: in every reachable configuration every token occurs at most
   once over all places (the bag, every goroutine's hands, every call in
   flight); a token some goroutine holds is not in the bag, and not held by any
   other goroutine. *)
Theorem C18_pool_ownership : forall (new : bool) (progs : list (list pop)) (s : list sitem) (v : val),
  let c := prun (pinit new progs) s in
  is_tok v ->
  count_occ val_eq_dec (all_vals c) v <= 1 /\
  (forall t th, nth_error (p_threads c) t = Some th -> In v (thread_vals th) -> ~ In v (p_bag c)) /\
  (forall t1 t2 th1 th2, t1 <> t2 -> nth_error (p_threads c) t1 = Some th1 -> nth_error (p_threads c) t2 = Some th2 ->
     In v (thread_vals th1) -> ~ In v (thread_vals th2)).
Proof. exact pool_ownership. Qed.
Print Assumptions C18_pool_ownership.

(* What Get returns: the zero value when New is nil; or a result of New made
   during this call that appears nowhere in the earlier trace; or an item the
   pool handed out at a moment when it had been Put more often than handed
   out or dropped, i.e. previously Put and not handed out since. *)
Theorem C18_pool_get_returns : forall (new : bool) (progs : list (list pop)) (s : list sitem) later t v src before,
  p_trace (prun (pinit new progs) s) = later ++ PERetGet t v src :: before ->
  match src with
  | SrcZeroNoNew => new = false /\ v = Zero
  | SrcNew => new = true /\ (exists k, v = Tok t k) /\
              exists mid older, before = mid ++ PENew t v :: older /\ forall e, In e older -> ev_val e <> Some v
  | SrcBag => new = true /\
              exists mid older, before = mid ++ PETake t v :: older /\
                pcount (is_take v) older + pcount (is_drop v) older < pcount (is_put v) older
  end.
Proof. exact pool_get_returns. Qed.
Print Assumptions C18_pool_get_returns.

(* The values handed to a goroutine by Get are exactly its PERetGet events, in order. *)
Theorem C18_pool_got_are_returns : forall (new : bool) (progs : list (list pop)) (s : list sitem) t th,
  nth_error (p_threads (prun (pinit new progs) s)) t = Some th ->
  p_got th = rev (tgot t (p_trace (prun (pinit new progs) s))).
Proof. exact pool_got_are_returns. Qed.
Print Assumptions C18_pool_got_are_returns.

(* Data-race freedom of Get and Put, in the model. The shared state of a Pool
   is the plain field New ([p_new]), the inner sync.Pool's own plain field
   New ([p_poolnew]: nil in the zero value of Pool; the code before the
   repair assigned it on every Get) and the inner pool's items ([p_bag]).
   The step function itself ([pstep_thread_acc]; [pstep_thread], used
   everywhere above, is its first component) reports the accesses a step
   makes to them: plain reads / writes of the two fields, and calls into
   sync.Pool (synchronised inside the runtime: trusted).
   The report is faithful, for all three locations and for the goroutine-local
   state: a step that reports no write of a field leaves it unchanged; a step
   that reports no call into sync.Pool leaves the bag unchanged; no step
   changes another goroutine's locals, nor depends on them (it does the same
   whatever state [th] another goroutine t' is in); a step that reports no
   access to a field behaves the same for every value of the field, and a
   step that reports no call into sync.Pool behaves the same for every content
   of the bag. *)
Theorem C18_pool_step_accesses : forall (c : pconfig) (t : tid) (ch : pchoice) (c' : pconfig) (accs : list paccess),
  pstep_thread_acc c t ch = Some (c', accs) ->
  pstep_thread c t ch = Some c' /\
  (~ In (PlainWrite FNew) accs -> p_new c' = p_new c) /\
  (~ In (PlainWrite FPoolNew) accs -> p_poolnew c' = p_poolnew c) /\
  (~ In PoolInternal accs -> p_bag c' = p_bag c) /\
  (forall t', t' <> t -> nth_error (p_threads c') t' = nth_error (p_threads c) t') /\
  (forall t' th, t' <> t -> pstep_thread_acc (with_thread t' th c) t ch = Some (with_thread t' th c', accs)) /\
  (~ In (PlainRead FNew) accs -> ~ In (PlainWrite FNew) accs ->
     forall b, pstep_thread_acc (with_new b c) t ch = Some (with_new b c', accs)) /\
  (~ In (PlainRead FPoolNew) accs -> ~ In (PlainWrite FPoolNew) accs ->
     forall b, pstep_thread_acc (with_poolnew b c) t ch = Some (with_poolnew b c', accs)) /\
  (~ In PoolInternal accs -> forall bag, pstep_thread_acc (with_bag bag c) t ch = Some (with_bag bag c', accs)).
Proof. exact pool_step_accesses_faithful. Qed.
Print Assumptions C18_pool_step_accesses.

(* In every run, every access any goroutine makes ([pool_accesses]: the
   reports of all steps of the run) is a plain READ of New, a plain READ of
   the inner pool's New, or a call into sync.Pool: no step writes a shared
   plain field (both New fields keep their initial values for ever), so no
   two accesses of a run conflict (same plain field, one of them a write).
   What is NOT proved here: that sync.Pool synchronises its own calls
   (trusted), and that the Go code performs no access the transcription
   omits (race detector run of the harness). *)
Theorem C18_pool_no_plain_write : forall (new : bool) (progs : list (list pop)) (s : list sitem),
  p_new (prun (pinit new progs) s) = new /\
  p_poolnew (prun (pinit new progs) s) = false /\
  (forall t a, In (t, a) (pool_accesses (pinit new progs) s) ->
     a = PlainRead FNew \/ a = PlainRead FPoolNew \/ a = PoolInternal) /\
  (forall t1 a1 t2 a2, In (t1, a1) (pool_accesses (pinit new progs) s) ->
     In (t2, a2) (pool_accesses (pinit new progs) s) -> ~ conflicting a1 a2).
Proof. exact pool_no_plain_write. Qed.
Print Assumptions C18_pool_no_plain_write.

(* Non-vacuity of the two theorems above: the accesses of a run in which
   goroutine 0 misses in the pool and calls New while goroutine 1 puts an item;
   the read of New at "if p.New == nil" is reported and the step does depend
   on the field (different next pc for New set / nil); the read of the inner
   pool's New on a miss is reported and the step does depend on it (nil: go on
   to p.New(); set: the inner hook made the item); a step does not depend on
   another goroutine's locals; a conflicting pair exists as soon as a write is
   among the accesses. *)
Example C18_pool_accesses_example :
  pool_accesses (pinit true [[PGet]; [PPutFresh]])
    [SThr 0 Miss; SThr 0 Miss; SThr 1 Miss; SThr 0 Miss; SThr 1 Miss; SThr 0 Miss; SThr 0 Miss]
  = [(0, PlainRead FNew); (0, PoolInternal); (0, PlainRead FPoolNew); (1, PoolInternal); (0, PlainRead FNew)] /\
  (let c := prun (pinit true [[PGet]]) [SThr 0 Miss] in
   option_map (fun x => map p_pc (p_threads (fst x))) (pstep_thread_acc c 0 Miss) = Some [GPool] /\
   option_map (fun x => map p_pc (p_threads (fst x))) (pstep_thread_acc (with_new false c) 0 Miss) = Some [GRet Zero SrcZeroNoNew]) /\
  (let c := prun (pinit true [[PGet]; [PGet]]) [SThr 0 Miss; SThr 0 Miss] in
   option_map (fun x => map p_pc (p_threads (fst x))) (pstep_thread_acc c 0 Miss) = Some [GNew; GIdle] /\
   option_map (fun x => map p_pc (p_threads (fst x))) (pstep_thread_acc (with_poolnew true c) 0 Miss) = Some [GRet (Tok 0 0) SrcNew; GIdle] /\
   option_map (fun x => map p_pc (p_threads (fst x))) (pstep_thread_acc (with_thread 1 (PThread [] GPool [] 0 []) c) 0 Miss) = Some [GNew; GPool]) /\
  conflicting (PlainWrite FPoolNew) (PlainRead FPoolNew).
Proof. vm_compute. repeat split. exists FPoolNew. left. split; [reflexivity|left; reflexivity]. Qed.

(* Non-vacuity. AtomicValue: goroutine 1 calls CompareAndSwap(5,7) while
   goroutine 0 stores 5 twice; the second Store lands between the two steps of
   atomic.Value.CompareAndSwap, whose pointer comparison therefore fails
   although the value is 5 throughout; the wrapper's loop retries and succeeds.
   The marked trace is accepted; a trace in which Load answers 4 right after
   Store(5) is rejected by [lin_check]. Pool: goroutine 0 gets a new item and
   puts it back, goroutine 1 then gets that very item and goroutine 0 a new one. *)
Example C18_example :
  let c := arun 0%Z Z.eqb (ainit [[OStore 5; OStore 5]; [OCas 5 7; OLoad]]%Z)
             [(0,false);(0,false);(0,false);(1,false);(1,false);(0,false);(0,false);(1,false);
              (1,false);(1,false);(1,false);(1,false);(1,false);(1,false);(1,false);(0,false)] in
  map (@a_rets Z) (a_threads c) = [[RUnit; RUnit]; [RBool true; RVal 7%Z]] /\
  prim_load (a_reg c) = Some 7%Z /\
  lin_check 0%Z Z.eqb (rev (a_trace c)) <> None /\
  lin_check 0%Z Z.eqb [EvInv 0 (OStore 5%Z); EvLin 0; EvRes 0 RUnit; EvInv 1 OLoad; EvLin 1; EvRes 1 (RVal 4%Z)] = None /\
  let p := prun (pinit true [[PGet; PPutHeld 0; PGet]; [PGet]])
             [SThr 0 Miss; SThr 0 Miss; SThr 0 Miss; SThr 0 Miss; SThr 0 Miss; SThr 0 Miss; SThr 0 Miss;
              SThr 1 Miss; SThr 1 Miss; SThr 1 (Take 0); SThr 1 Miss;
              SThr 0 Miss; SThr 0 Miss; SThr 0 Miss; SThr 0 Miss; SThr 0 Miss] in
  map p_got (p_threads p) = [[Tok 0 0; Tok 0 1]; [Tok 0 0]] /\ p_bag p = [].
Proof. vm_compute. repeat split; discriminate. Qed.

(* The same register theorem with the SHARED definition of linearizability
   (Lib/Lin.v, possibilities form of Herlihy & Wing, used for C04/C05; its
   sanity theorem [seq_linearizable_iff] shows that on sequential histories it
   means exactly "responses = specification run in order"): the history of
   invocation and response events ([events_of] maps them to HInv/HRes and
   drops nothing else) of every program under every schedule is linearizable
   w.r.t. the ideal register [register_spec] = [spec_step] started empty.
   Proved by showing that the marker form above implies the shared definition
   (Sync/AtomicLin.v, [marker_form_classical]). *)
From Typ Require Import Lib.Lin Sync.AtomicLin.

Theorem C18_marker_form_classical : forall (V : Type) (zero : V) (eqb : V -> V -> bool),
  (forall x y, eqb x y = true <-> x = y) ->
  forall h : list (aevent V),
    Linearizable zero eqb h -> Lin.linearizable (register_spec V zero eqb) (zero_state V) (events_of V h).
Proof. exact marker_form_classical. Qed.
Print Assumptions C18_marker_form_classical.

Theorem C18_register_linearizable_hw : forall (V : Type) (zero : V) (eqb : V -> V -> bool),
  (forall x y, eqb x y = true <-> x = y) ->
  forall (progs : list (list (op V))) (s : list (tid * bool)),
    Lin.linearizable (register_spec V zero eqb) (zero_state V)
      (events_of V (ahistory (arun zero eqb (ainit progs) s))).
Proof. exact register_linearizable_hw. Qed.
Print Assumptions C18_register_linearizable_hw.
