(* C04 (concurrent part, second layer) — which entries a goroutine may still
   hold, over ALL interleavings, all programs. Statements only; proofs are
   [exact] of theorems of SyncMap/SetAtomic.v (part A and the bridge).
   Companion of Props/C04conc.v (one of the files of property C04, see
   props_files in bin/props/C04.json). *)
From Typ Require Import SyncMap.Model SyncMap.Inv SyncMap.SetAtomic.
From Typ Require SyncMap.SeqProofs.

(* Whenever m.mu is free, the state of a Map satisfies the invariant WF of the
   sequential development (SyncMap/SeqProofs.v) — so every lemma of the
   sequential refinement (Load_spec, Store_spec, ...) applies to the state at
   every lock-free moment of every concurrent execution. *)
Theorem C04_sequential_WF_whenever_unlocked : forall zs progs sched j i,
  let c := run_schedule (init_config_z zs progs) sched in
  nth_error (c_insts c) j = Some i -> i_mu i = None -> SeqProofs.WF (i_st i).
Proof. exact seq_WF_when_unlocked. Qed.
Print Assumptions C04_sequential_WF_whenever_unlocked.

(* Entries that were never in a read map (recorded in dirty under a key that
   read.m does not have) hold a value, at every moment. *)
Theorem C04_dirty_only_entries_hold_values : forall zs progs sched j i,
  let c := run_schedule (init_config_z zs progs) sched in
  nth_error (c_insts c) j = Some i ->
  forall k e, dirty_lookup (i_st i) k = Some e -> read_m (i_st i) !! k = None -> exists v, get_ent (i_st i) e = PVal v.
Proof. exact dirty_only_entries_hold_values. Qed.
Print Assumptions C04_dirty_only_entries_hold_values.

(* Entry uniqueness / publication: the entry a goroutine is about to CAS on a
   lock-free path (tryStore, tryLoadOrStore, entry.delete on an entry taken from
   a read map) is still THE entry of the current read map for its key, or it is
   expunged and reachable from neither map — never a second live entry. *)
Theorem C04_stale_entry_is_dead : forall zs progs sched t f i e,
  let c := run_schedule (init_config_z zs progs) sched in
  top_frame c t = Some f -> nth_error (c_insts c) (call_inst (f_call f)) = Some i -> f_e f = Some e ->
  (f_pc f = TryStore_load \/ f_pc f = TryStore_cas \/
   ((f_pc f = Tlos_load1 \/ f_pc f = Tlos_cas \/ f_pc f = Tlos_load2) /\ f_mode f = MFast) \/
   ((f_pc f = Delete_load \/ f_pc f = Delete_cas) /\ f_rd_m f !! key_of (f_call f) <> None)) ->
  pub_or_dead (i_st i) (key_of (f_call f)) e.
  (* = read_m (i_st i) !! key = Some e \/ (is_exp (i_st i) e = true /\ unreachable (i_st i) e) *)
Proof. exact stale_entry_is_dead. Qed.
Print Assumptions C04_stale_entry_is_dead.

(* The whole second-layer invariant (program counters agree with calls; the
   reference discipline of every current frame incl. the privacy of an entry
   LoadAndDelete removed from the dirty map; no two goroutines hold the same
   removed entry). *)
Theorem C04_reference_discipline : forall zs progs sched, Inv2 (run_schedule (init_config_z zs progs) sched).
Proof. exact Inv2_reachable. Qed.
Print Assumptions C04_reference_discipline.

(* Non-vacuity: a run that drives one entry through nil -> expunged ->
   unexpunged. G0: Store(1,10); Load(7) (promotes); Delete(1) (entry 0 becomes
   nil); Store(2,20) (dirtyLocked expunges entry 0 and leaves key 1 out of
   dirty). G1: Store(1,30): tryStore sees expunged, takes the lock, unexpunges
   entry 0 and re-enters it in dirty, then stores. *)
Definition refs_progs : list (list call) :=
  [[CStore 0 1 10; CLoad 0 7; CDelete 0 1; CStore 0 2 20]; [CStore 0 1 30]]%Z.
Definition refs_view (c : config) :=
  (map (fun i => (get_ent (i_st i) 0, read_m (i_st i) !! 1%Z, dirty_lookup (i_st i) 1%Z, dirty_lookup (i_st i) 2%Z,
                  abs_lookup (i_st i) 1%Z)) (c_insts c),
   map thread_label (c_threads c)).

Example C04refs_expunged_then_unexpunged :
  let c1 := run_schedule (init_config 1 refs_progs) (repeat (0, 1%Z) 23) in   (* G0 runs to completion; the choice 1 is the key dirtyLocked visits *)
  let c2 := run_schedule c1 (repeat (1, 0%Z) 5) in                            (* G1 up to and including unexpunge.cas *)
  let c3 := run_schedule c2 (repeat (1, 0%Z) 2) in
  refs_view c1 = ([(PExpunged, Some 0, None, Some 1, None)], [None; Some Store_read1]) /\
  refs_view c2 = ([(PNil, Some 0, Some 0, Some 1, None)], [None; Some StoreLocked]) /\
  refs_view c3 = ([(PVal 30, Some 0, Some 0, Some 1, Some 30%Z)], [None; None]) /\
  c_panicked c3 = false.
Proof. vm_compute. repeat split. Qed.
