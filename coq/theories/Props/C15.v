(* C15 — sorting and searching helpers (placeholder while the proofs are built) *)
From Typ Require Import Lib.Base Slices.SortSearch Slices.SortSearchProofs Slices.Sort.

Theorem C15_sort_contract_satisfiable : sort_spec insertion_sort /\ stable_spec insertion_sort.
Proof. exact (conj insertion_sort_sort_spec insertion_sort_stable_spec). Qed.
Print Assumptions C15_sort_contract_satisfiable.
