(* C15 — Sorting and searching helpers order correctly, stably where promised.
   Statements only; every proof is [exact] of a lemma from
   Slices/SortSearchProofs.v or Slices/SortProofs.v.

   Quantifiers: every element type, every slice (all lengths, all duplicate
   patterns), every less function with the stated order property, every
   target, every generator state. Trusted standard library, as hypotheses
   with contracts that are proved satisfiable (C15_contracts_satisfiable):
   [sort_Sort] = sort.Sort ([sort_spec]), [sort_Stable] = sort.Stable
   ([stable_spec]), [shuffle_swaps] = the index pairs rand.Shuffle asks its
   swap callback for ([shuffle_spec]: all within [0,n)). The adapters
   sortOrdered / sortLess (Len, Less, Swap), sort.Reverse's flipped Less, and
   the sort.Search loop are transcribed code, not trusted.
   [le_of less a b] = less b a = false (ascending); [ge_of less a b] = less a b
   = false (descending); [eqv less a b] = neither is less than the other. *)
From Typ Require Import Lib.Base Slices.SortSearch Slices.SortSearchProofs Slices.Sort Slices.SortProofs.

(* The contracts assumed of sort.Sort, sort.Stable and rand.Shuffle are
   satisfiable: by the insertion sort over sort.Interface (which the
   correspondence check runs the model with) and by a Fisher-Yates shuffle
   driven by a stream of numbers. *)
Theorem C15_contracts_satisfiable :
  sort_spec insertion_sort /\ stable_spec insertion_sort /\ shuffle_spec fisher_yates_swaps.
Proof. exact (conj insertion_sort_sort_spec (conj insertion_sort_stable_spec fisher_yates_swaps_spec)). Qed.
Print Assumptions C15_contracts_satisfiable.

(* The adapters present their slice to the sorter: Len is its length, Less(i,j)
   compares elements i and j with < resp. the given less, Swap exchanges them;
   sort.Reverse presents the same sequence under the flipped order. *)
Theorem C15_adapters : forall (T : Type) (lt less : T -> T -> bool),
  represents (sortOrdered lt) (fun l => l) lt /\
  represents (sortLess less) (fun l => l) less /\
  represents (sort_Reverse (sortOrdered lt)) (fun l => l) (flip_less lt) /\
  represents (sort_Reverse (sortLess less)) (fun l => l) (flip_less less).
Proof.
  exact (fun T lt less => conj (sortOrdered_represents lt) (conj (sortLess_represents less)
    (conj (sort_Reverse_represents _ _ _ (sortOrdered_represents lt))
          (sort_Reverse_represents _ _ _ (sortLess_represents less))))).
Qed.
Print Assumptions C15_adapters.

(* Sort: a permutation of the former contents, ascending under <. *)
Theorem C15_sort : forall (T : Type) (sort_Sort : forall St, Interface St -> St -> result St),
  sort_spec sort_Sort -> forall lt : T -> T -> bool, StrictWeakOrder lt -> forall l,
  exists l', Sort lt sort_Sort l = Ok l' /\ Permutation l l' /\ Sorted (le_of lt) l'.
Proof. exact @Sort_spec. Qed.
Print Assumptions C15_sort.

(* SortFunc: a permutation, ascending under the given less. *)
Theorem C15_sort_func : forall (T : Type) (sort_Sort : forall St, Interface St -> St -> result St),
  sort_spec sort_Sort -> forall less : T -> T -> bool, StrictWeakOrder less -> forall l,
  exists l', SortFunc sort_Sort l less = Ok l' /\ Permutation l l' /\ Sorted (le_of less) l'.
Proof. exact @SortFunc_spec. Qed.
Print Assumptions C15_sort_func.

(* SortDesc: a permutation, descending under <. *)
Theorem C15_sort_desc : forall (T : Type) (sort_Sort : forall St, Interface St -> St -> result St),
  sort_spec sort_Sort -> forall lt : T -> T -> bool, StrictWeakOrder lt -> forall l,
  exists l', SortDesc lt sort_Sort l = Ok l' /\ Permutation l l' /\ Sorted (ge_of lt) l'.
Proof. exact @SortDesc_spec. Qed.
Print Assumptions C15_sort_desc.

(* SortDescFunc: a permutation, descending under the given less. *)
Theorem C15_sort_desc_func : forall (T : Type) (sort_Sort : forall St, Interface St -> St -> result St),
  sort_spec sort_Sort -> forall less : T -> T -> bool, StrictWeakOrder less -> forall l,
  exists l', SortDescFunc sort_Sort l less = Ok l' /\ Permutation l l' /\ Sorted (ge_of less) l'.
Proof. exact @SortDescFunc_spec. Qed.
Print Assumptions C15_sort_desc_func.

(* SortStableFunc returns THE stable sort of the slice ... *)
Theorem C15_sort_stable_func : forall (T : Type) (sort_Stable : forall St, Interface St -> St -> result St),
  stable_spec sort_Stable -> forall less : T -> T -> bool, StrictWeakOrder less -> forall l,
  SortStableFunc sort_Stable l less = Ok (isort less l).
Proof. exact @SortStableFunc_spec. Qed.
Print Assumptions C15_sort_stable_func.

(* ... which is a permutation, ascending, with every class of elements the
   order cannot distinguish in its original relative order ... *)
Theorem C15_stable_sort_is_stable : forall (T : Type) (less : T -> T -> bool), StrictWeakOrder less -> forall l,
  Permutation l (isort less l) /\ Sorted (le_of less) (isort less l) /\
  (forall a, filter (eqv less a) (isort less l) = filter (eqv less a) l).
Proof. exact @isort_is_stable_sort. Qed.
Print Assumptions C15_stable_sort_is_stable.

(* ... and the only list with these three properties. *)
Theorem C15_stable_sort_unique : forall (A : Type) (less : A -> A -> bool), StrictWeakOrder less ->
  forall l1 l2, Sorted (le_of less) l1 -> Sorted (le_of less) l2 -> Permutation l1 l2 ->
  (forall a, filter (eqv less a) l1 = filter (eqv less a) l2) -> l1 = l2.
Proof. exact @stable_sort_unique. Qed.
Print Assumptions C15_stable_sort_unique.

(* SortStableDescFunc returns the stable sort under the flipped order: a
   permutation, descending, indistinguishable elements in original order. *)
Theorem C15_sort_stable_desc_func : forall (T : Type) (sort_Stable : forall St, Interface St -> St -> result St),
  stable_spec sort_Stable -> forall less : T -> T -> bool, StrictWeakOrder less -> forall l,
  SortStableDescFunc sort_Stable l less = Ok (isort (flip_less less) l).
Proof. exact @SortStableDescFunc_spec. Qed.
Print Assumptions C15_sort_stable_desc_func.

Theorem C15_stable_desc_sort_is_stable : forall (T : Type) (less : T -> T -> bool), StrictWeakOrder less -> forall l,
  Permutation l (isort (flip_less less) l) /\ Sorted (ge_of less) (isort (flip_less less) l) /\
  (forall a, filter (eqv less a) (isort (flip_less less) l) = filter (eqv less a) l).
Proof. exact @isort_flip_is_stable_desc_sort. Qed.
Print Assumptions C15_stable_desc_sort_is_stable.

(* sort.Search (transcribed loop): least index from which a monotone predicate holds. *)
Theorem C15_sort_search_lower_bound : forall (f : Z -> result bool) (g : Z -> bool) (n : Z),
  (forall h, (0 <= h < n)%Z -> f h = Ok (g h)) ->
  (forall a b, (0 <= a <= b)%Z -> (b < n)%Z -> g a = true -> g b = true) ->
  (0 <= n)%Z ->
  exists r, sort_search n f = Ok r /\ (0 <= r <= n)%Z /\
    (forall k, (0 <= k < r)%Z -> g k = false) /\ (forall k, (r <= k < n)%Z -> g k = true).
Proof. exact sort_search_lower_bound. Qed.
Print Assumptions C15_sort_search_lower_bound.

(* BinarySearch on an ascending slice of an ordered type (< a strict total
   order, >= its negation): returns r, the smallest index whose element is not
   less than the target (every element before r is less, none from r on is;
   r = len when there is none); the first match if the target is present,
   else the insertion point (which does not hold the target). *)
Theorem C15_binary_search : forall (T : Type) (lt ge : T -> T -> bool),
  StrictTotalOrder lt -> (forall a b, ge a b = negb (lt a b)) ->
  forall (l : list T) (v : T), Sorted (le_of lt) l ->
  exists r : nat, BinarySearch ge l v = Ok (Z.of_nat r) /\ r <= length l /\
    (forall k x, k < r -> nth_error l k = Some x -> lt x v = true) /\
    (forall k x, r <= k -> nth_error l k = Some x -> lt x v = false) /\
    (In v l -> first_occurrence l v r) /\
    (~ In v l -> nth_error l r <> Some v).
Proof. exact @BinarySearch_spec. Qed.
Print Assumptions C15_binary_search.

(* BinarySearchFunc: when less holds on a prefix of the slice and nowhere
   after it, the result is the length of that prefix (the smallest index whose
   element is not less) ... *)
Theorem C15_binary_search_func : forall (T : Type) (less1 : T -> bool) (l : list T), partitioned less1 l ->
  exists r : nat, BinarySearchFunc l less1 = Ok (Z.of_nat r) /\ partition_point (fun x => negb (less1 x)) l r.
Proof. exact @BinarySearchFunc_spec. Qed.
Print Assumptions C15_binary_search_func.

(* ... which is the case for "a is less than the target" on an ascending slice. *)
Theorem C15_ascending_is_partitioned : forall (T : Type) (less : T -> T -> bool), StrictWeakOrder less ->
  forall (l : list T) (target : T), Sorted (le_of less) l -> partitioned (fun a => less a target) l.
Proof. exact @sorted_partitioned. Qed.
Print Assumptions C15_ascending_is_partitioned.

(* Composed: BinarySearchFunc on an ascending slice, with "a is less than the
   target" as its less, returns the smallest index whose element is not less
   than the target (len when there is none). *)
Theorem C15_binary_search_func_ascending : forall (T : Type) (less : T -> T -> bool), StrictWeakOrder less ->
  forall (l : list T) (target : T), Sorted (le_of less) l ->
  exists r : nat, BinarySearchFunc l (fun a => less a target) = Ok (Z.of_nat r) /\ r <= length l /\
    (forall k x, k < r -> nth_error l k = Some x -> less x target = true) /\
    (forall k x, r <= k -> nth_error l k = Some x -> less x target = false).
Proof. exact @BinarySearchFunc_ascending. Qed.
Print Assumptions C15_binary_search_func_ascending.

(* Shuffle and ShuffleRand return normally and leave a permutation. *)
Theorem C15_shuffle_rand_perm : forall (T G : Type) (shuffle_swaps : G -> Z -> list (Z * Z)),
  shuffle_spec shuffle_swaps -> forall (l : list T) (g : G),
  exists l', ShuffleRand shuffle_swaps l g = Ok l' /\ Permutation l l'.
Proof. exact @ShuffleRand_perm. Qed.
Print Assumptions C15_shuffle_rand_perm.

Theorem C15_shuffle_perm : forall (T G : Type) (shuffle_swaps : G -> Z -> list (Z * Z)),
  shuffle_spec shuffle_swaps -> forall (l : list T) (g : G),
  exists l', Shuffle shuffle_swaps g l = Ok l' /\ Permutation l l'.
Proof. exact @Shuffle_perm. Qed.
Print Assumptions C15_shuffle_perm.

(* The correspondence check feeds the model recorded swap sequences (a plain
   list, nothing filtered): when the recorded pairs are in range the model
   returns a permutation; an out-of-range pair makes it panic as Go's swap
   closure would (C15_example, last line). *)
Theorem C15_recorded_swaps_perm : forall (T : Type) (l : list T) (g : list (Z * Z)),
  (forall i j, In (i, j) g -> (0 <= i < lenZ l)%Z /\ (0 <= j < lenZ l)%Z) ->
  exists l', ShuffleRand list_shuffle_swaps l g = Ok l' /\ Permutation l l'.
Proof. exact @recorded_swaps_perm. Qed.
Print Assumptions C15_recorded_swaps_perm.

(* "ShuffleRand is a deterministic function of the supplied generator": TRUE
   BY CONSTRUCTION OF THE MODEL, not a deep fact. In the model ShuffleRand is a
   Gallina function of (slice, generator state) that reads no other state (in
   particular not the global generator), and the statement below is the
   congruence any such function satisfies. What carries the clause for the real
   code is the harness: ShuffleRand is called on two generators built from the
   same seed (rand.New(rand.NewSource(s)) twice) and on equal inputs, and the
   results must be equal. *)
Theorem C15_shuffle_rand_deterministic : forall (T G : Type) (shuffle_swaps : G -> Z -> list (Z * Z))
  (l : list T) (g1 g2 : G), shuffle_swaps g1 (lenZ l) = shuffle_swaps g2 (lenZ l) ->
  ShuffleRand shuffle_swaps l g1 = ShuffleRand shuffle_swaps l g2.
Proof. exact @ShuffleRand_deterministic. Qed.
Print Assumptions C15_shuffle_rand_deterministic.

(* Non-vacuity: the order hypotheses hold for the harness's orders; concrete runs with ties. *)
Theorem C15_hypotheses_satisfiable :
  StrictTotalOrder Z.ltb /\ StrictWeakOrder (fun a b : Z * Z => (fst a <? fst b)%Z) /\
  (forall a b : Z, (a >=? b)%Z = negb (a <? b)%Z).
Proof. exact (conj Z_ltb_sto (conj Z_pair_key_swo Z_geb_ltb)). Qed.
Print Assumptions C15_hypotheses_satisfiable.

Example C15_example :
  let key := fun a b : Z * Z => (fst a <? fst b)%Z in
  SortStableFunc insertion_sort [(2,0);(1,1);(2,2);(1,3);(3,4)]%Z key = Ok [(1,1);(1,3);(2,0);(2,2);(3,4)]%Z /\
  SortStableDescFunc insertion_sort [(2,0);(1,1);(2,2);(1,3);(3,4)]%Z key = Ok [(3,4);(2,0);(2,2);(1,1);(1,3)]%Z /\
  SortDesc Z.ltb insertion_sort [2;1;2;3]%Z = Ok [3;2;2;1]%Z /\
  BinarySearch (fun a b => (a >=? b)%Z) [1;3;3;3;7]%Z 3%Z = Ok 1%Z /\
  BinarySearch (fun a b => (a >=? b)%Z) [1;3;3;3;7]%Z 4%Z = Ok 4%Z /\
  BinarySearch (fun a b => (a >=? b)%Z) [1;3;3;3;7]%Z 9%Z = Ok 5%Z /\
  BinarySearchFunc [(1,7);(3,8);(3,9);(7,0)]%Z (fun a => key a (3,0)%Z) = Ok 1%Z /\
  fisher_yates_swaps [5;7;2]%Z 4%Z = [(3,1);(2,1);(1,0)]%Z /\
  ShuffleRand list_shuffle_swaps [10;20;30;40]%Z [(3,1);(2,0);(1,1)]%Z = Ok [30;40;10;20]%Z /\
  ShuffleRand list_shuffle_swaps [10;20;30]%Z [(7,1);(2,0)]%Z = Panic IndexOutOfRange.
Proof. vm_compute. repeat split. Qed.
