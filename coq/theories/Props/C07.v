(* C07 — slices.Sorted is always sorted and is an exact multiset.
   Statements only; every proof is [exact] of a lemma from
   Slices/SortSearchProofs.v or Slices/SortedProofs.v.

   Quantifiers: every element type T with a decidable equality [eqb] (Go's ==),
   every less function with the stated order property, every initial slice and
   every list of operations (no bound). [sort_Stable] is Go's sort.Stable
   (behind sort.SliceStable), trusted to meet [stable_spec]; the contract is
   satisfiable (C07_stable_contract_satisfiable). sort.Search is not trusted:
   it is the transcribed loop [sort_search].
   [reachable zero eqb sort_Stable less s]: s was built by NewSorted from some
   slice and then went through some list of Add/Remove/RemoveAt/Index/
   Contains/Get/Len/String calls. [String s] is the contents of s. *)
From Typ Require Import Lib.Base Slices.SortSearch Slices.SortSearchProofs Slices.Sorted Slices.SortedProofs.

Local Open Scope Z_scope.

(* sort.Search (transcribed loop): for a predicate that does not panic on
   [0,n) and is monotone there, it returns the least index from which the
   predicate holds, n if there is none; the fuel n is never exhausted. *)
Theorem C07_sort_search_lower_bound : forall (f : Z -> result bool) (g : Z -> bool) (n : Z),
  (forall h, 0 <= h < n -> f h = Ok (g h)) ->
  (forall a b, 0 <= a <= b -> b < n -> g a = true -> g b = true) ->
  0 <= n ->
  exists r, sort_search n f = Ok r /\ 0 <= r <= n /\
    (forall k, 0 <= k < r -> g k = false) /\ (forall k, r <= k < n -> g k = true).
Proof. exact sort_search_lower_bound. Qed.
Print Assumptions C07_sort_search_lower_bound.

(* The contract assumed of sort.Stable is met by the insertion sort that the
   correspondence check runs the model with. *)
Theorem C07_stable_contract_satisfiable : stable_spec insertion_sort.
Proof. exact insertion_sort_stable_spec. Qed.
Print Assumptions C07_stable_contract_satisfiable.

(* The contract determines the result: a sorted permutation that keeps every
   class of order-equivalent elements in input order is unique, and [isort] is one. *)
Theorem C07_stable_sort_unique : forall (A : Type) (less : A -> A -> bool), StrictWeakOrder less ->
  forall l1 l2, Sorted (le_of less) l1 -> Sorted (le_of less) l2 -> Permutation l1 l2 ->
  (forall a, filter (eqv less a) l1 = filter (eqv less a) l2) -> l1 = l2.
Proof. exact @stable_sort_unique. Qed.
Print Assumptions C07_stable_sort_unique.

(* NewSorted copies the input and stable-sorts the copy: the contents are the
   stable sort of the input (a sorted permutation of it, by the contract). *)
Theorem C07_new_sorted : forall (T : Type) (zero : T)
  (sort_Stable : forall St, Interface St -> St -> result St), stable_spec sort_Stable ->
  forall less : T -> T -> bool, StrictWeakOrder less ->
  forall values, NewSorted zero sort_Stable values less = Ok (MkSorted (isort less values) (Some less)).
Proof. exact @NewSorted_spec. Qed.
Print Assumptions C07_new_sorted.

(* NewSortedOrdered is NewSorted with the type's own < (typ.Less). *)
Theorem C07_new_sorted_ordered : forall (T : Type) (zero : T)
  (sort_Stable : forall St, Interface St -> St -> result St), stable_spec sort_Stable ->
  forall lt : T -> T -> bool, StrictWeakOrder lt ->
  forall values, NewSortedOrdered zero sort_Stable lt values = NewSorted zero sort_Stable values lt /\
    NewSortedOrdered zero sort_Stable lt values = Ok (MkSorted (isort lt values) (Some lt)).
Proof. exact @NewSortedOrdered_spec. Qed.
Print Assumptions C07_new_sorted_ordered.

(* Main invariant. From NewSorted over any input and after any sequence of
   operations, the contents are in non-decreasing order under less (no
   element is less than an earlier one) and are exactly the multiset of values
   put in and not taken out ([spec_run]: Add v puts v in; Remove v takes one v
   out iff it reports a position; RemoveAt i takes out the value Get i shows;
   nothing else changes it; it is [Some]: nothing absent is ever taken out). *)
Theorem C07_sorted_multiset : forall (T : Type) (zero : T) (eqb : T -> T -> bool)
  (sort_Stable : forall St, Interface St -> St -> result St),
  (forall x y, eqb x y = true <-> x = y) -> stable_spec sort_Stable ->
  forall less : T -> T -> bool, StrictWeakOrder less ->
  forall (init : list T) (ops : list (op T)),
  exists s0, NewSorted zero sort_Stable init less = Ok s0 /\
  exists bag, spec_run eqb s0 init ops = Some bag /\
    Sorted (le_of less) (String (fst (run eqb s0 ops))) /\
    Permutation (String (fst (run eqb s0 ops))) bag.
Proof. exact @sorted_multiset. Qed.
Print Assumptions C07_sorted_multiset.

(* [Sorted] above is sortedness of adjacent elements. Under a strict weak
   order it is equivalent to "no element is less than ANY earlier one"
   (adjacent => all pairs needs the order; the converse is the standard
   library's StronglySorted_Sorted). *)
Theorem C07_sorted_is_strongly_sorted : forall (T : Type) (less : T -> T -> bool), StrictWeakOrder less ->
  forall l, Sorted (le_of less) l <-> StronglySorted (le_of less) l.
Proof. exact @sorted_iff_strongly. Qed.
Print Assumptions C07_sorted_is_strongly_sorted.

(* A strict total order consistent with == is in particular a strict weak order. *)
Theorem C07_total_is_weak : forall (T : Type) (less : T -> T -> bool),
  StrictTotalOrder less -> StrictWeakOrder less.
Proof. exact @sto_swo. Qed.
Print Assumptions C07_total_is_weak.

(* Add returns the position r at which the new value now sits: the contents
   become the old ones with v inserted at r, every element before r is less
   than v and no element from r on is (so r is where v belongs). *)
Theorem C07_add_position : forall (T : Type) (zero : T) (eqb : T -> T -> bool)
  (sort_Stable : forall St, Interface St -> St -> result St),
  (forall x y, eqb x y = true <-> x = y) -> stable_spec sort_Stable ->
  forall less : T -> T -> bool, StrictTotalOrder less ->
  forall (s : sorted T) (v : T), reachable zero eqb sort_Stable less s ->
  exists (r : nat) (s' : sorted T), Add s v = Ok (s', Z.of_nat r) /\ (r <= length (String s))%nat /\
    String s' = firstn r (String s) ++ v :: skipn r (String s) /\
    nth_error (String s') r = Some v /\
    (forall k x, (k < r)%nat -> nth_error (String s) k = Some x -> less x v = true) /\
    (forall k x, (r <= k)%nat -> nth_error (String s) k = Some x -> less x v = false) /\
    reachable zero eqb sort_Stable less s'.
Proof. exact @Add_position. Qed.
Print Assumptions C07_add_position.

(* Index returns the first position holding the value, or -1 (when it is absent). *)
Theorem C07_index_first : forall (T : Type) (zero : T) (eqb : T -> T -> bool)
  (sort_Stable : forall St, Interface St -> St -> result St),
  (forall x y, eqb x y = true <-> x = y) -> stable_spec sort_Stable ->
  forall less : T -> T -> bool, StrictTotalOrder less ->
  forall (s : sorted T) (v : T), reachable zero eqb sort_Stable less s ->
  (~ In v (String s) /\ Index eqb s v = Ok (-1)) \/
  (exists r : nat, first_position (String s) v r /\ Index eqb s v = Ok (Z.of_nat r)).
Proof. exact @Index_first. Qed.
Print Assumptions C07_index_first.

(* Contains agrees with Index (true iff Index is not -1) and with membership. *)
Theorem C07_contains_agrees : forall (T : Type) (zero : T) (eqb : T -> T -> bool)
  (sort_Stable : forall St, Interface St -> St -> result St),
  (forall x y, eqb x y = true <-> x = y) -> stable_spec sort_Stable ->
  forall less : T -> T -> bool, StrictTotalOrder less ->
  forall (s : sorted T) (v : T), reachable zero eqb sort_Stable less s ->
  exists (i : Z) (b : bool), Index eqb s v = Ok i /\ Contains eqb s v = Ok b /\
    (b = true <-> i <> -1) /\ (b = true <-> In v (String s)).
Proof. exact @Contains_agrees. Qed.
Print Assumptions C07_contains_agrees.

(* Remove deletes one occurrence (the first) and returns its former position,
   or returns -1 and changes nothing (the same object) when the value is absent. *)
Theorem C07_remove_first : forall (T : Type) (zero : T) (eqb : T -> T -> bool)
  (sort_Stable : forall St, Interface St -> St -> result St),
  (forall x y, eqb x y = true <-> x = y) -> stable_spec sort_Stable ->
  forall less : T -> T -> bool, StrictTotalOrder less ->
  forall (s : sorted T) (v : T), reachable zero eqb sort_Stable less s ->
  (~ In v (String s) /\ Remove eqb s v = Ok (s, -1)) \/
  (exists (r : nat) (s' : sorted T), first_position (String s) v r /\ Remove eqb s v = Ok (s', Z.of_nat r) /\
     String s' = firstn r (String s) ++ skipn (S r) (String s) /\ s_less s' = s_less s).
Proof. exact @Remove_first. Qed.
Print Assumptions C07_remove_first.

(* Get acts on exactly the given position and panics exactly outside [0,Len)
   (any object, reachable or not; Get changes nothing: it returns no new object). *)
Theorem C07_get_exact : forall (T : Type) (s : sorted T) (i : Z),
  (0 <= i < Len s -> exists x, nth_error (String s) (Z.to_nat i) = Some x /\ Get s i = Ok x) /\
  (~ 0 <= i < Len s -> Get s i = Panic IndexOutOfRange).
Proof. exact @Get_exact. Qed.
Print Assumptions C07_get_exact.

(* Len is the number of elements. DEFINITIONAL: in the value model Len is
   [length] of the contents by definition (the proof is eq_refl); it is listed
   only so that every method of the property appears; it carries no proof content. *)
Theorem C07_len : forall (T : Type) (s : sorted T), Len s = Z.of_nat (length (String s)).
Proof. exact (fun T s => eq_refl). Qed.
Print Assumptions C07_len.

(* RemoveAt deletes exactly the given position and panics exactly outside [0,Len). *)
Theorem C07_removeat_exact : forall (T : Type) (zero : T) (eqb : T -> T -> bool)
  (sort_Stable : forall St, Interface St -> St -> result St),
  (forall x y, eqb x y = true <-> x = y) -> stable_spec sort_Stable ->
  forall less : T -> T -> bool, StrictWeakOrder less ->
  forall (s : sorted T) (i : Z), reachable zero eqb sort_Stable less s ->
  (0 <= i < Len s -> exists s', RemoveAt s i = Ok s' /\ s_less s' = s_less s /\
     String s' = firstn (Z.to_nat i) (String s) ++ skipn (S (Z.to_nat i)) (String s)) /\
  (~ 0 <= i < Len s -> RemoveAt s i = Panic IndexOutOfRange).
Proof. exact @RemoveAt_exact. Qed.
Print Assumptions C07_removeat_exact.

(* Note on [Panic IndexOutOfRange]: the kind is a label of the model (Go
   panics with a formatted string there). The property only says "panics";
   the correspondence check compares panicked / returned, not the kind. *)
(* The only calls that panic are Get and RemoveAt with a position outside
   [0,Len); they panic at their first statement (so leave the object alone,
   which is what [step_total] models); every other call returns normally — in
   particular sort.Search never indexes outside the slice, Insert/Remove never
   slice out of bounds, and Remove of an absent value does not panic. *)
Theorem C07_panics_exactly_out_of_range : forall (T : Type) (zero : T) (eqb : T -> T -> bool)
  (sort_Stable : forall St, Interface St -> St -> result St),
  (forall x y, eqb x y = true <-> x = y) -> stable_spec sort_Stable ->
  forall less : T -> T -> bool, StrictWeakOrder less ->
  forall (s : sorted T) (o : op T), reachable zero eqb sort_Stable less s ->
  (op_in_range s o -> exists p, step eqb s o = Ok p) /\
  (~ op_in_range s o -> step eqb s o = Panic IndexOutOfRange).
Proof. exact @panics_exactly_out_of_range. Qed.
Print Assumptions C07_panics_exactly_out_of_range.

(* Non-vacuity: the hypotheses are satisfiable (Z with ==, <; a key-only order
   with ties; the insertion-sort instance of the sort.Stable contract), and a
   run with duplicates, ties, an absent Remove and out-of-range positions. *)
Theorem C07_hypotheses_satisfiable :
  (forall x y : Z, Z.eqb x y = true <-> x = y) /\ StrictTotalOrder Z.ltb /\
  StrictWeakOrder (fun a b => Z.ltb (a / 4) (b / 4)) /\ stable_spec insertion_sort.
Proof. exact (conj Z.eqb_eq (conj Z_ltb_sto (conj Z_key_swo insertion_sort_stable_spec))). Qed.
Print Assumptions C07_hypotheses_satisfiable.

Example C07_strongly_sorted_example :
  StronglySorted (le_of (fun a b => Z.ltb (a / 4) (b / 4))) [2;1;5;6].
Proof. apply (sorted_iff_strongly _ Z_key_swo). repeat constructor. Qed.

Example C07_example :
  (do s <- NewSorted 0 insertion_sort [5;3;9;3;1] Z.ltb;
   let r := run Z.eqb s [OAdd 3; OAdd 0; OIndex 3; ORemove 3; ORemove 7; OGet 9; ORemoveAt 0; OContains 9; OString] in
   Ok (String s, snd r, String (fst r)))
  = Ok ([1;3;3;5;9],
        [RInt 1; RInt 0; RInt 2; RInt 2; RInt (-1); RPanic IndexOutOfRange; RUnit; RBool true; RList [1;3;3;5;9]],
        [1;3;3;5;9])
  /\ (do s <- NewSorted 0 insertion_sort [5;2;1;6] (fun a b => Z.ltb (a / 4) (b / 4));
      Ok (String s, snd (run Z.eqb s [OIndex 1; ORemove 1; OAdd 0; OString])))
     = Ok ([2;1;5;6], [RInt (-1); RInt (-1); RInt 0; RList [0;2;1;5;6]]).
Proof. vm_compute. split; reflexivity. Qed.
