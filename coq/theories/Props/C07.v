(* C07 — slices.Sorted is always sorted and is an exact multiset.
   Statements only; every proof is [exact] of a lemma from
   Slices/SortSearchProofs.v or Slices/SortedProofs.v. *)
From Typ Require Import Lib.Base Slices.SortSearch Slices.SortSearchProofs Slices.Sorted.

Local Open Scope Z_scope.

(* sort.Search (transcribed loop, not trusted): for a predicate that does not
   panic on [0,n) and is monotone there, it returns the least index from which
   the predicate holds, n if there is none; the fuel n is never exhausted. *)
Theorem C07_sort_search_lower_bound : forall (f : Z -> result bool) (g : Z -> bool) (n : Z),
  (forall h, 0 <= h < n -> f h = Ok (g h)) ->
  (forall a b, 0 <= a <= b -> b < n -> g a = true -> g b = true) ->
  0 <= n ->
  exists r, sort_search n f = Ok r /\ 0 <= r <= n /\
    (forall k, 0 <= k < r -> g k = false) /\ (forall k, r <= k < n -> g k = true).
Proof. exact sort_search_lower_bound. Qed.
Print Assumptions C07_sort_search_lower_bound.
