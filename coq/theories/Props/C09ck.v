(* C09, last sentence — "ClearKey is covered only when no goroutine holds or
   awaits the key": the keyed mutexes WITH ClearKey.
   Programs ([ck_progs]): calls CLoadOrStore 0 k v p (the eight LoadOrStore-based
   keyed-mutex methods), CLoad 0 k and CDelete 0 k (= ClearKey k) on one Map, any
   number of goroutines, keys and calls. Schedules ([disc2_from], a condition on
   the thread the schedule picks, at every step, see [disciplined2]):
   - a thread only unlocks what it holds (as in Props/C09.v);
   - a thread is inside ClearKey(k) only while nobody holds k and nobody else is
     inside a Lock/TryLock/Unlock/RLock/... call on k (awaits k);
   - a thread is inside such a call on k only while nobody is inside ClearKey(k).
   Proved for all such programs and schedules: per-KEY mutual exclusion, and the
   key's current mutex is locked while the key is held exclusively. After a
   ClearKey the next LockKey creates a new mutex for the key (Example), so the
   "one mutex per key" theorem of Props/C09.v deliberately excludes ClearKey.
   Statements only; proofs are [exact] of theorems of SyncMap/ClearKey.v (which
   builds on SyncMap/Inv.v, SyncMap/SetAtomic.v and SyncMap/InsertOnly.v). *)
From Typ Require Import SyncMap.Model SyncMap.Inv SyncMap.KeyedMutex SyncMap.InsertOnly SyncMap.ClearKey.

Theorem C09_mutual_exclusion_with_clearkey : forall progs sched,
  ck_progs progs -> disc2_from (init_config 1 progs) sched ->
  let c := run_schedule (init_config 1 progs) sched in
  forall k t1 t2, holds_excl c t1 k -> (holds_excl c t2 k -> t1 = t2) /\ ~ holds_shared c t2 k.
Proof. exact keyed_mutual_exclusion_clearkey. Qed.
Print Assumptions C09_mutual_exclusion_with_clearkey.

(* [kmut s k] = the value of the entry the Map records for k = the mutex LockKey(k) would obtain now *)
Theorem C09_holder_locks_mutex_with_clearkey : forall progs sched,
  ck_progs progs -> disc2_from (init_config 1 progs) sched ->
  let c := run_schedule (init_config 1 progs) sched in
  forall k t, holds_excl c t k ->
  exists i m, c_insts c = [i] /\ kmut (i_st i) k = Some m /\ c_um c !! m = Some ULocked.
Proof. exact keyed_holder_locks_mutex_clearkey. Qed.
Print Assumptions C09_holder_locks_mutex_with_clearkey.

(* Non-vacuity: thread 1 holds key 8 throughout; thread 0 runs LockKey(7); UnlockKey(7); ClearKey(7)
   (the run is disciplined: nobody else touches key 7 meanwhile); then thread 1's LockKey(7) finds the
   key without a mutex, creates the new mutex 2001 and holds it; the old mutex 1001 stays free. *)
Example C09_example_clearkey :
  disc2_fromb (init_config 1 ck_ex_progs) (ck_ex_sched 30) = true /\
  ck_ex_obs (run_schedule (init_config 1 ck_ex_progs) (repeat (1%nat, 0%Z) 7 ++ repeat (0%nat, 0%Z) 8)) =
    ([Some Tlos_load1; Some LOS_read1], [(1%nat, 8%Z, true); (0%nat, 7%Z, true)],
     [(1001%Z, ULocked); (3001%Z, ULocked)], (Some 1001%Z, Some 3001%Z)) /\
  ck_ex_obs (run_schedule (init_config 1 ck_ex_progs) (ck_ex_sched 0)) =
    ([None; Some LOS_read1], [(1%nat, 8%Z, true)], [(1001%Z, UFree); (3001%Z, ULocked)], (None, Some 3001%Z)) /\
  ck_ex_obs (run_schedule (init_config 1 ck_ex_progs) (ck_ex_sched 5)) =
    ([None; Some LOS_read1], [(1%nat, 8%Z, true); (1%nat, 7%Z, true)],
     [(2001%Z, ULocked); (1001%Z, UFree); (3001%Z, ULocked)], (Some 2001%Z, Some 3001%Z)) /\
  ck_ex_obs (run_schedule (init_config 1 ck_ex_progs) (ck_ex_sched 30)) =
    ([None; None], [(1%nat, 8%Z, true)], [(2001%Z, UFree); (1001%Z, UFree); (3001%Z, ULocked)], (Some 2001%Z, Some 3001%Z)).
Proof. vm_compute. repeat split. Qed.
