(* C09, last sentence — "ClearKey is covered only when no goroutine holds or
   awaits the key": the keyed mutexes WITH ClearKey.
   Programs ([ck_progs]): calls CLoadOrStore 0 k v p (the eight LoadOrStore-based
   keyed-mutex methods), CLoad 0 k and CDelete 0 k (= ClearKey k) on one Map, any
   number of goroutines, keys and calls. Schedules ([disc2_from], a condition on
   the thread the schedule picks, at every step, see [disciplined2]):
   - a thread only unlocks what it holds (as in Props/C09.v);
   - a thread is inside ClearKey(k) only while nobody holds k and nobody else is
     inside a Lock/TryLock/Unlock/RLock/... call on k (awaits k);
   - a thread is inside such a call on k only while nobody is inside ClearKey(k).
   Proved for all such programs and schedules: per-KEY mutual exclusion; the
   key's current mutex is locked while the key is held exclusively; no panic;
   and the key-level Try*/Lock/RLock theorems of Props/C09.v (fail or wait while
   the key is held incompatibly; succeed when it is free AND UNCONTENDED: the
   explicit hypothesis [quiet c t k], nobody else at a mutex-operation step of a
   call on k, needed for the real sync.Mutex / sync.RWMutex). After a
   ClearKey the next LockKey creates a new mutex for the key (Example), so the
   "one mutex per key" theorem of Props/C09.v deliberately excludes ClearKey.
   Statements only; proofs are [exact] of theorems of SyncMap/ClearKey.v (which
   builds on SyncMap/Inv.v, SyncMap/SetAtomic.v and SyncMap/InsertOnly.v). *)
From Typ Require Import SyncMap.Model SyncMap.Inv SyncMap.KeyedMutex SyncMap.InsertOnly SyncMap.ClearKey SyncMap.Uncontended.

Theorem C09_mutual_exclusion_with_clearkey : forall progs sched,
  ck_progs progs -> disc2_from (init_config 1 progs) sched ->
  let c := run_schedule (init_config 1 progs) sched in
  forall k t1 t2, holds_excl c t1 k -> (holds_excl c t2 k -> t1 = t2) /\ ~ holds_shared c t2 k.
Proof. exact keyed_mutual_exclusion_clearkey. Qed.
Print Assumptions C09_mutual_exclusion_with_clearkey.

(* [kmut s k] = the value of the entry the Map records for k = the mutex LockKey(k) would obtain now *)
Theorem C09_holder_locks_mutex_with_clearkey : forall progs sched,
  ck_progs progs -> disc2_from (init_config 1 progs) sched ->
  let c := run_schedule (init_config 1 progs) sched in
  forall k t, holds_excl c t k ->
  exists i m, c_insts c = [i] /\ kmut (i_st i) k = Some m /\ c_um c !! m = Some ULocked.
Proof. exact keyed_holder_locks_mutex_clearkey. Qed.
Print Assumptions C09_holder_locks_mutex_with_clearkey.

(* Runs that respect the contract never panic (no unlock of an unlocked mutex). *)
Theorem C09_clearkey_no_panic : forall progs sched, ck_progs progs -> disc2_from (init_config 1 progs) sched ->
  c_panicked (run_schedule (init_config 1 progs) sched) = false.
Proof. exact ck_disciplined_no_panic. Qed.
Print Assumptions C09_clearkey_no_panic.

(* ---- Try* / Lock / RLock at the level of keys, in runs with ClearKey (the statements of Props/C09.v) ---- *)
Theorem C09_trylock_fails_while_held_with_clearkey : forall progs sched,
  ck_progs progs -> disc2_from (init_config 1 progs) sched ->
  let c := run_schedule (init_config 1 progs) sched in
  forall t ch c' f t2 b2,
  top_frame c t = Some f -> (f_pc f = KM_TryLock \/ f_pc f = KRW_TryLock) ->
  (t2, key_of (f_call f), b2) ∈ holders c -> step c t ch = Some c' ->
  completed (c_hist c') = completed (c_hist c) ++ [(t, f_call f, RBool false)] /\ c_um c' = c_um c /\ holders c' = holders c.
Proof. exact ck_trylock_fails_while_held. Qed.
Print Assumptions C09_trylock_fails_while_held_with_clearkey.

Theorem C09_tryrlock_fails_while_write_held_with_clearkey : forall progs sched,
  ck_progs progs -> disc2_from (init_config 1 progs) sched ->
  let c := run_schedule (init_config 1 progs) sched in
  forall t ch c' f t2,
  top_frame c t = Some f -> f_pc f = KRW_TryRLock ->
  holds_excl c t2 (key_of (f_call f)) -> step c t ch = Some c' ->
  completed (c_hist c') = completed (c_hist c) ++ [(t, f_call f, RBool false)] /\ c_um c' = c_um c /\ holders c' = holders c.
Proof. exact ck_tryrlock_fails_while_write_held. Qed.
Print Assumptions C09_tryrlock_fails_while_write_held_with_clearkey.

Theorem C09_lock_waits_while_held_with_clearkey : forall progs sched,
  ck_progs progs -> disc2_from (init_config 1 progs) sched ->
  let c := run_schedule (init_config 1 progs) sched in
  forall t ch f t2 b2,
  top_frame c t = Some f -> (f_pc f = KM_Lock \/ f_pc f = KRW_Lock) ->
  (t2, key_of (f_call f), b2) ∈ holders c -> step c t ch = None.
Proof. exact ck_lock_waits_while_held. Qed.
Print Assumptions C09_lock_waits_while_held_with_clearkey.

Theorem C09_rlock_waits_while_write_held_with_clearkey : forall progs sched,
  ck_progs progs -> disc2_from (init_config 1 progs) sched ->
  let c := run_schedule (init_config 1 progs) sched in
  forall t ch f t2,
  top_frame c t = Some f -> f_pc f = KRW_RLock ->
  holds_excl c t2 (key_of (f_call f)) -> step c t ch = None.
Proof. exact ck_rlock_waits_while_write_held. Qed.
Print Assumptions C09_rlock_waits_while_write_held_with_clearkey.

(* the Try* step can always be taken and completes the call with a boolean *)
Theorem C09_try_step_enabled_with_clearkey : forall progs sched,
  ck_progs progs -> disc2_from (init_config 1 progs) sched ->
  let c := run_schedule (init_config 1 progs) sched in
  forall t ch f, top_frame c t = Some f -> is_try (f_pc f) = true ->
  exists c' b, step c t ch = Some c' /\ completed (c_hist c') = completed (c_hist c) ++ [(t, f_call f, RBool b)].
Proof. exact ck_try_step_enabled. Qed.
Print Assumptions C09_try_step_enabled_with_clearkey.

(* the "succeeds when free AND UNCONTENDED" halves, for fresh mutexes ([fresh_values]) and with
   [quiet c t k] (nobody else stands at a mutex-operation step of a call on k: needed for the real
   sync.Mutex / sync.RWMutex, see Props/C09.v); note that the key may have had NO mutex when the call began
   (it was cleared): then its LoadOrStore has just created one *)
Theorem C09_trylock_succeeds_when_key_free_with_clearkey : forall progs sched,
  ck_progs progs -> disc2_from (init_config 1 progs) sched -> fresh_values progs ->
  let c := run_schedule (init_config 1 progs) sched in
  forall t ch c' f,
  top_frame c t = Some f -> (f_pc f = KM_TryLock \/ f_pc f = KRW_TryLock) ->
  (forall t2 b, (t2, key_of (f_call f), b) ∉ holders c) -> quiet c t (key_of (f_call f)) ->
  step c t ch = Some c' ->
  completed (c_hist c') = completed (c_hist c) ++ [(t, f_call f, RBool true)] /\ holds_excl c' t (key_of (f_call f)).
Proof. exact ck_trylock_succeeds_when_key_free. Qed.
Print Assumptions C09_trylock_succeeds_when_key_free_with_clearkey.

Theorem C09_tryrlock_succeeds_when_key_not_write_held_with_clearkey : forall progs sched,
  ck_progs progs -> disc2_from (init_config 1 progs) sched -> fresh_values progs ->
  let c := run_schedule (init_config 1 progs) sched in
  forall t ch c' f,
  top_frame c t = Some f -> f_pc f = KRW_TryRLock ->
  (forall t2, ~ holds_excl c t2 (key_of (f_call f))) -> quiet c t (key_of (f_call f)) ->
  step c t ch = Some c' ->
  completed (c_hist c') = completed (c_hist c) ++ [(t, f_call f, RBool true)] /\ holds_shared c' t (key_of (f_call f)).
Proof. exact ck_tryrlock_succeeds_when_key_not_write_held. Qed.
Print Assumptions C09_tryrlock_succeeds_when_key_not_write_held_with_clearkey.

Theorem C09_lock_succeeds_when_key_free_with_clearkey : forall progs sched,
  ck_progs progs -> disc2_from (init_config 1 progs) sched -> fresh_values progs ->
  let c := run_schedule (init_config 1 progs) sched in
  forall t ch f,
  top_frame c t = Some f -> (f_pc f = KM_Lock \/ f_pc f = KRW_Lock) ->
  (forall t2 b, (t2, key_of (f_call f), b) ∉ holders c) -> quiet c t (key_of (f_call f)) ->
  exists c', step c t ch = Some c' /\ completed (c_hist c') = completed (c_hist c) ++ [(t, f_call f, RUnit)] /\
             holds_excl c' t (key_of (f_call f)).
Proof. exact ck_lock_succeeds_when_key_free. Qed.
Print Assumptions C09_lock_succeeds_when_key_free_with_clearkey.

Theorem C09_rlock_succeeds_when_key_not_write_held_with_clearkey : forall progs sched,
  ck_progs progs -> disc2_from (init_config 1 progs) sched -> fresh_values progs ->
  let c := run_schedule (init_config 1 progs) sched in
  forall t ch f,
  top_frame c t = Some f -> f_pc f = KRW_RLock ->
  (forall t2, ~ holds_excl c t2 (key_of (f_call f))) -> quiet c t (key_of (f_call f)) ->
  exists c', step c t ch = Some c' /\ completed (c_hist c') = completed (c_hist c) ++ [(t, f_call f, RUnit)] /\
             holds_shared c' t (key_of (f_call f)).
Proof. exact ck_rlock_succeeds_when_key_not_write_held. Qed.
Print Assumptions C09_rlock_succeeds_when_key_not_write_held_with_clearkey.

(* Non-vacuity: thread 1 holds key 8 throughout; thread 0 runs LockKey(7); UnlockKey(7); ClearKey(7)
   (the run is disciplined: nobody else touches key 7 meanwhile); then thread 1's LockKey(7) finds the
   key without a mutex, creates the new mutex 2001 and holds it; the old mutex 1001 stays free. *)
Example C09_example_clearkey :
  disc2_fromb (init_config 1 ck_ex_progs) (ck_ex_sched 30) = true /\
  ck_ex_obs (run_schedule (init_config 1 ck_ex_progs) (repeat (1%nat, 0%Z) 7 ++ repeat (0%nat, 0%Z) 8)) =
    ([Some Tlos_load1; Some LOS_read1], [(1%nat, 8%Z, true); (0%nat, 7%Z, true)],
     [(1001%Z, ULocked); (3001%Z, ULocked)], (Some 1001%Z, Some 3001%Z)) /\
  ck_ex_obs (run_schedule (init_config 1 ck_ex_progs) (ck_ex_sched 0)) =
    ([None; Some LOS_read1], [(1%nat, 8%Z, true)], [(1001%Z, UFree); (3001%Z, ULocked)], (None, Some 3001%Z)) /\
  ck_ex_obs (run_schedule (init_config 1 ck_ex_progs) (ck_ex_sched 5)) =
    ([None; Some LOS_read1], [(1%nat, 8%Z, true); (1%nat, 7%Z, true)],
     [(2001%Z, ULocked); (1001%Z, UFree); (3001%Z, ULocked)], (Some 2001%Z, Some 3001%Z)) /\
  ck_ex_obs (run_schedule (init_config 1 ck_ex_progs) (ck_ex_sched 30)) =
    ([None; None], [(1%nat, 8%Z, true)], [(2001%Z, UFree); (1001%Z, UFree); (3001%Z, ULocked)], (Some 2001%Z, Some 3001%Z)).
Proof. vm_compute. repeat split. Qed.

(* Non-vacuity of the key-level theorems with [quiet]: in the run above, after the ClearKey(7), thread 1
   stands at the Lock step of its LockKey(7); key 7 is free (its new mutex 2001 was just created) and quiet;
   the step is enabled and thread 1 then holds key 7. The schedule, including that step, respects the
   contract ([disc2_fromb]), and the programs' mutexes are fresh ([ck_ex_progs_fresh]). *)
Example C09_example_clearkey_uncontended :
  disc2_fromb (init_config 1 ck_ex_progs) (ck_ex_sched 4 ++ [(1%nat, 0%Z); (1%nat, 0%Z)]) = true /\
  fresh_values ck_ex_progs /\
  let c := run_schedule (init_config 1 ck_ex_progs) (ck_ex_sched 4 ++ [(1%nat, 0%Z)]) in
  map thread_label (c_threads c) = [None; Some KM_Lock] /\ holders c = [(1%nat, 8%Z, true)] /\
  quietb c 1 7 = true /\
  option_map holders (step c 1 0) = Some [(1%nat, 8%Z, true); (1%nat, 7%Z, true)].
Proof. split; [vm_compute; reflexivity|]. split; [exact ck_ex_progs_fresh|]. vm_compute. repeat split. Qed.

(* Non-vacuity of the fails / waits theorems with ClearKey ([ckw_ex_progs]: thread 0 runs LockKey(7);
   UnlockKey(7); ClearKey(7), the others one call each on key 7). Thread 0 holds key 7 exclusively; thread 1
   stands at its TryRLock step, thread 2 at RLock, thread 3 at TryLock, thread 4 at Lock: both Try* steps
   complete with false, both blocking steps are disabled. The schedule respects the contract (nobody is
   inside ClearKey yet). *)
Example C09_example_clearkey_fails_waits :
  disc2_fromb (init_config 1 ckw_ex_progs) (ckw_ex_sched ++ [(1%nat, 0%Z); (3%nat, 0%Z)]) = true /\
  let c := run_schedule (init_config 1 ckw_ex_progs) ckw_ex_sched in
  map thread_label (c_threads c) = [Some LOS_read1; Some KRW_TryRLock; Some KRW_RLock; Some KRW_TryLock; Some KRW_Lock] /\
  holders c = [(0%nat, 7%Z, true)] /\
  option_map (fun c' => (list.last (completed (c_hist c')), holders c')) (step c 1 0) =
    Some (Some (1%nat, CLoadOrStore 0 7 2001 PTryRLock, RBool false), [(0%nat, 7%Z, true)]) /\
  step c 2 0 = None /\
  option_map (fun c' => (list.last (completed (c_hist c')), holders c')) (step c 3 0) =
    Some (Some (3%nat, CLoadOrStore 0 7 4001 PWTryLock, RBool false), [(0%nat, 7%Z, true)]) /\
  step c 4 0 = None.
Proof. vm_compute. repeat split. Qed.
