(* C16 — Queue is FIFO and Stack is LIFO. Statements only; proofs are in
   Lists/QueueStackProofs.v. The models are in Lists/QueueStack.v: Queue on top
   of the pointer model of lists.List (Enqueue = PushFront, Dequeue/Peek = Back,
   zero List lazily initialised), Stack on a backing-array slice (append in
   place or into a fresh array of a capacity chosen by the runtime). Quantifier:
   all operation lists, no bound. *)
From Typ Require Import Lib.Base Lists.Heap Lists.ListModel Lists.ListSpec Lists.QueueStack Lists.QueueStackProofs.

(* Every interleaving of Enqueue / Dequeue / Peek / Len on the zero Queue returns
   exactly what the FIFO specification on [list Z] returns ([qspec_step]: Enqueue
   appends at the end, Dequeue returns and drops the head, Peek returns the head
   without dropping it, Len is the length, Dequeue/Peek on empty return (0,false)
   and leave it empty; the history simply continues, so it stays usable); in
   particular no call panics; and the heap remains a well-formed list. *)
Theorem C16_queue : forall ops,
  fst (qrun ops) = fst (qspec_from [] ops) /\ exists a, Rep (snd (qrun ops)) a.
Proof. exact queue_fifo. Qed.
Print Assumptions C16_queue.

(* Every interleaving of Push / Pop / Peek / len on the zero Stack returns
   exactly what the LIFO specification returns ([sspec_step]: Push conses, Pop
   returns and drops the head, ...), for every capacity growth policy of append. *)
Theorem C16_stack : forall (newcap : nat -> nat) ops,
  fst (srun newcap ops) = fst (sspec_from [] ops).
Proof. exact stack_lifo. Qed.
Print Assumptions C16_stack.

(* FIFO under EVERY interleaving, stated without reference to the specification: the values
   returned by the successful Dequeues of a history ([deq_vals]) are, in order, a prefix of
   the values given to Enqueue ([enq_vals]); so the k-th successful Dequeue returns the k-th
   enqueued value. *)
Theorem C16_queue_order : forall ops,
  exists rest, enq_vals ops = deq_vals ops (fst (qrun ops)) ++ rest.
Proof. exact queue_order. Qed.
Print Assumptions C16_queue_order.

Theorem C16_queue_kth : forall ops k v,
  nth_error (deq_vals ops (fst (qrun ops))) k = Some v -> nth_error (enq_vals ops) k = Some v.
Proof. exact queue_kth. Qed.
Print Assumptions C16_queue_kth.

(* Peek returns exactly what the next Dequeue / Pop returns (also (0,false) on empty), after any history. *)
Theorem C16_queue_peek_agrees : forall ops,
  exists o, fst (qrun (ops ++ [QPeek; QDequeue])) = fst (qrun ops) ++ [o; o].
Proof. exact queue_peek_dequeue. Qed.
Print Assumptions C16_queue_peek_agrees.

Theorem C16_stack_peek_agrees : forall (newcap : nat -> nat) ops,
  exists o, fst (srun newcap (ops ++ [SPeek; SPop])) = fst (srun newcap ops) ++ [o; o].
Proof. exact stack_peek_pop. Qed.
Print Assumptions C16_stack_peek_agrees.

(* The specifications are FIFO / LIFO: what a run of n insertions followed by n
   removals returns. *)
Theorem C16_spec_orders : forall vs,
  fst (qspec_from [] (map QEnqueue vs ++ map (fun _ => QDequeue) vs)) =
    map (fun _ => QUnit) vs ++ map (fun v => QVal v true) vs /\
  fst (sspec_from [] (map SPush vs ++ map (fun _ => SPop) vs)) =
    map (fun _ => QUnit) vs ++ map (fun v => QVal v true) (rev vs).
Proof. exact spec_orders. Qed.
Print Assumptions C16_spec_orders.

(* Non-vacuity: drain to empty, removal from empty, refill. *)
Example C16_example :
  fst (qrun [QEnqueue 1; QEnqueue 2; QPeek; QDequeue; QDequeue; QDequeue; QLen; QEnqueue 3; QDequeue])%Z =
    [QUnit; QUnit; QVal 1 true; QVal 1 true; QVal 2 true; QVal 0 false; QInt 0; QUnit; QVal 3 true]%Z /\
  fst (srun (fun n => n) [SPush 1; SPush 2; SPeek; SPop; SPop; SPop; SLen; SPush 3; SPop])%Z =
    [QUnit; QUnit; QVal 2 true; QVal 2 true; QVal 1 true; QVal 0 false; QInt 0; QUnit; QVal 3 true]%Z /\
  (let ops := [QEnqueue 5; QDequeue; QDequeue; QEnqueue 6; QEnqueue 7; QPeek; QDequeue]%Z in
   enq_vals ops = [5; 6; 7]%Z /\ deq_vals ops (fst (qrun ops)) = [5; 6]%Z) /\
  (* not a theorem, a model evaluation: the nil *Stack guards of Peek and Pop (a nil receiver is outside
     the property; the harness compares these calls with the real code) *)
  stack_Peek None = Ok (0%Z, false) /\ stack_Pop None = Ok (0%Z, false, None).
Proof. vm_compute. repeat split. Qed.
