(* C06 — lists.List and lists.Ring behave exactly like container/list and
   container/ring. Statements only; proofs are in Lists/ListProofs.v and
   Lists/RingProofs.v. *)
From Typ Require Import Lib.Base Lists.Heap Lists.ListModel Lists.ListProofs.

(* Remove with an element that does not belong to l (removed, foreign, never inserted)
   returns its value and leaves the whole heap unchanged. *)
Theorem C06_remove_not_owner : forall l e s li,
  rd e_list s e = Ok li -> li <> Some l ->
  exists v, rd e_val s e = Ok v /\ list_Remove l e s = Ok (v, s).
Proof. exact Remove_not_owner. Qed.
Print Assumptions C06_remove_not_owner.
