(* C06 — lists.List and lists.Ring behave exactly like container/list and
   container/ring.

   A theorem cannot mention the standard library; what is proved here is that
   the pointer-level model of the fork (Lists/ListModel.v, transcribed from
   /repo/lists/list.go) refines the sequence semantics container/list documents
   (Lists/ListSpec.v), for every operation history and every choice of element
   handles (live, removed, foreign, never inserted, nil). Equality with the
   standard library itself is the lock-step comparison of the harness.

   Statements only; proofs are in Lists/ListProofs.v.

   "Covered" histories ([spec_run ops = (_, _, _, true)]): every list index
   names a list created earlier in the history, and Init is only applied to an
   empty list. (Init of a non-empty list leaves its former elements with
   e.list == l, in container/list exactly as in the fork; the sequence
   semantics does not describe that, the lock-step comparison covers it.) *)
From Typ Require Import Lib.Base Lists.Heap Lists.ListModel Lists.ListSpec Lists.ListProofs
  Lists.RingModel Lists.RingSpec Lists.RingProofs.

(* Refinement: on every covered history the model returns exactly the values
   of the sequence semantics (element handles, removed values, lengths, nil
   dereference panics), builds the same handle table, and ends in a heap that
   represents ([Rep], Lists/ListSpec.v) the final abstract state. *)
Theorem C06_list_refines_spec : forall ops os a h,
  spec_run ops = (os, a, h, true) ->
  exists s, run ops = (os, RState s h) /\ Rep s a.
Proof. exact list_refines_spec. Qed.
Print Assumptions C06_list_refines_spec.

(* Well-formedness after every covered history, spelled out: every initialised
   list is a sentinel -> xs -> sentinel chain linked both ways with xs free of
   repetitions, len = |xs|, Element.list = l exactly for the members of xs (so
   different lists are disjoint); a zero-value list has nil sentinel links and
   owns nothing; removed and never-inserted elements have nil links. *)
Theorem C06_list_wf : forall ops os a h,
  spec_run ops = (os, a, h, true) ->
  let s := st (snd (run ops)) in
  (forall l r xs, nth_error (a_lists a) l = Some (r, Some xs) ->
     nth_error (lsts s) l = Some (LRec r (Z.of_nat (length xs))) /\
     chain (nx s) (pv s) r xs r /\ NoDup xs /\ ~ In r xs /\ (forall e, ow s e = Some l <-> In e xs)) /\
  (forall l r, nth_error (a_lists a) l = Some (r, None) ->
     nth_error (lsts s) l = Some (LRec r 0) /\ nx s r = None /\ pv s r = None /\ forall e, ow s e <> Some l) /\
  (forall e, ow s e = None -> ~ is_root a e -> nx s e = None /\ pv s e = None).
Proof. exact (fun ops os a h E => Rep_wf _ _ (proj1 (list_wf ops os a h E))). Qed.
Print Assumptions C06_list_wf.

(* Len, the forward traversal by Front/Next and the backward traversal by
   Back/Prev of every list are the abstract sequence, its length and its reverse. *)
Theorem C06_list_traversals : forall ops os a h l,
  spec_run ops = (os, a, h, true) -> l < length (a_lists a) ->
  let s := st (snd (run ops)) in
  list_Len s l = Ok (Z.of_nat (length (a_seq a l))) /\
  walk_fwd s l = Ok (a_seq a l) /\ walk_bwd s l = Ok (rev (a_seq a l)).
Proof. exact list_traversals. Qed.
Print Assumptions C06_list_traversals.

(* Neighbours of every handle (live, removed, foreign, never inserted). *)
Theorem C06_list_neighbours : forall ops os a h e,
  spec_run ops = (os, a, h, true) -> In e h ->
  let s := st (snd (run ops)) in
  elem_Next s (Some e) = Ok (spec_next a e) /\ elem_Prev s (Some e) = Ok (spec_prev a e).
Proof. exact list_neighbours. Qed.
Print Assumptions C06_list_neighbours.

(* An element that does not belong to l (Element.list != l: removed, never
   inserted, or an element of another list) handed to Remove, InsertBefore,
   InsertAfter, MoveToFront, MoveToBack, MoveBefore, MoveAfter (as e or as
   mark): the call writes nothing at all, for every heap. *)
Theorem C06_foreign_handle_noop : forall s l e,
  e < size s -> ow s e <> Some l ->
  list_Remove l (Some e) s = Ok (vl s e, s) /\
  (forall v, list_InsertBefore l v (Some e) s = Ok (None, s)) /\
  (forall v, list_InsertAfter l v (Some e) s = Ok (None, s)) /\
  list_MoveToFront l (Some e) s = Ok s /\
  list_MoveToBack l (Some e) s = Ok s /\
  (forall m, list_MoveBefore l (Some e) m s = Ok s) /\
  (forall m, list_MoveAfter l (Some e) m s = Ok s) /\
  (forall x, x < size s -> list_MoveBefore l (Some x) (Some e) s = Ok s) /\
  (forall x, x < size s -> list_MoveAfter l (Some x) (Some e) s = Ok s).
Proof. exact foreign_handle_noop. Qed.
Print Assumptions C06_foreign_handle_noop.

(* ... and on a represented heap "Element.list != l" is exactly "not in l's sequence". *)
Theorem C06_not_member : forall s a l r o e,
  Rep s a -> nth_error (a_lists a) l = Some (r, o) -> ~ In e (a_seq a l) -> ow s e <> Some l.
Proof. exact not_member_ow. Qed.
Print Assumptions C06_not_member.

(* PushBackList (also of a list onto itself, o = l): the new contents are the
   old contents followed by fresh cells carrying the old values of o, in
   order; no other list changes. *)
Theorem C06_pushbacklist : forall s a l o,
  Rep s a -> l < length (a_lists a) -> o < length (a_lists a) ->
  exists s' a', list_PushBackList l o s = Ok s' /\ Rep s' a' /\
    a_seq a' l = a_seq a l ++ seq (fresh a) (length (a_seq a o)) /\
    map (a_val a') (a_seq a' l) = map (a_val a) (a_seq a l) ++ map (a_val a) (a_seq a o) /\
    (forall l', l' <> l -> a_seq a' l' = a_seq a l').
Proof. exact pushbacklist_values. Qed.
Print Assumptions C06_pushbacklist.

(* PushFrontList (also of a list onto itself): fresh cells carrying the old values of o, in o's
   order, are placed in front of the old contents (the copy of o's last element is made first and
   has the smallest id); no other list changes. *)
Theorem C06_pushfrontlist : forall s a l o,
  Rep s a -> l < length (a_lists a) -> o < length (a_lists a) ->
  exists s' a', list_PushFrontList l o s = Ok s' /\ Rep s' a' /\
    a_seq a' l = rev (seq (fresh a) (length (a_seq a o))) ++ a_seq a l /\
    map (a_val a') (a_seq a' l) = map (a_val a) (a_seq a o) ++ map (a_val a) (a_seq a l) /\
    (forall l', l' <> l -> a_seq a' l' = a_seq a l').
Proof. exact pushfrontlist_values. Qed.
Print Assumptions C06_pushfrontlist.

(* A panic in a covered history, located: if the i-th call panics then, in the very state the
   first i calls have produced (abstract state a1, handle table h1, heap s1 representing a1),
   that call has a nil element argument, the panic is a nil dereference, and the abstract state
   and the handle table are unchanged. The last conjunct (the model's heap is unchanged too)
   holds by construction of the model's [step]: for a panicking call other than the two
   copying loops, [panic_state] IS the pre-state. That a recovered panic of the real code has
   written nothing is therefore not a consequence of this theorem but of the harness, which
   compares the whole observable state after every recovered panic with the model and with
   container/list. *)
Theorem C06_list_panics : forall ops os a h i op k,
  spec_run ops = (os, a, h, true) ->
  nth_error ops i = Some op -> nth_error (fst (run ops)) i = Some (OPanic k) ->
  exists os1 a1 h1 s1,
    spec_run (firstn i ops) = (os1, a1, h1, true) /\ run (firstn i ops) = (os1, RState s1 h1) /\ Rep s1 a1 /\
    k = NilDeref /\ nil_arg op h1 = true /\
    spec_exec op a1 h1 = (OPanic NilDeref, a1, h1) /\
    step op (RState s1 h1) = (OPanic NilDeref, RState s1 h1).
Proof. exact list_panics_located. Qed.
Print Assumptions C06_list_panics.

(* The sequence operations of the specification mean what their names say. *)
Theorem C06_spec_surgery : forall m e pre post,
  ~ In m pre ->
  ins_after m e (pre ++ m :: post) = pre ++ m :: e :: post /\
  ins_before m e (pre ++ m :: post) = pre ++ e :: m :: post /\
  (~ In m post -> rem m (pre ++ m :: post) = pre ++ post) /\
  succ_in m (pre ++ m :: post) = head post.
Proof.
  exact (fun m e pre post N => conj (ins_after_split m e pre post N)
          (conj (ins_before_split m e pre post N)
                (conj (fun N2 => rem_split m pre post N N2) (succ_in_split m pre post N)))).
Qed.
Print Assumptions C06_spec_surgery.

(* ---------------------------------------------------------------- Ring ----

   The pointer model of lists.Ring (Lists/RingModel.v) refines the cycle
   semantics of container/ring (Lists/RingSpec.v: the initialised nodes are
   partitioned into cyclic sequences; a zero Ring becomes a one-element ring
   when first used; Next/Prev/Move walk the cycle; Link splices or cuts as
   documented; Unlink n = Link(Move(n+1)); Len/Do = length / values of the
   cycle from r) on EVERY history over every pair of handles (same ring, other
   ring, zero Ring, nil) and every count: same return values (node handles,
   Len, Do sequences, nil-dereference panics exactly for a nil receiver), same
   handle table, and the final heap represents ([RRep]) the final partition. *)
Theorem C06_ring_refines_spec : forall ops,
  exists h, rrun ops = (fst (fst (rspec_run ops)), RRState h (snd (rspec_run ops))) /\
            RRep h (snd (fst (rspec_run ops))).
Proof. exact ring_refines_spec. Qed.
Print Assumptions C06_ring_refines_spec.

(* Well-formedness after every history: next and prev are mutually inverse on
   the initialised nodes and stay inside the heap; a node is either fully
   initialised or a zero Ring. *)
Theorem C06_ring_wf : forall ops,
  let h := rh (snd (rrun ops)) in
  (forall i n, rnx h i = Some n -> n < length h /\ rpv h n = Some i) /\
  (forall i p, rpv h i = Some p -> p < length h /\ rnx h p = Some i) /\
  (forall i, rnx h i = None <-> rpv h i = None).
Proof. exact ring_wf. Qed.
Print Assumptions C06_ring_wf.

(* What Link does to the partition, case by case (r's ring written r :: A):
   Link(r,r) leaves r alone and A as a ring; s in the same ring cuts out the
   nodes strictly between r and s; s in another ring s :: B gives r :: s :: B ++ A.
   (The value returned is always the old r.Next(), see [rspec_exec].) *)
Theorem C06_ring_link : forall cs r A rest,
  ext cs r = (r :: A, rest) ->
  a_link cs r r = [r] :: cons_ne A rest /\
  (forall s A1 B, s <> r -> A = A1 ++ s :: B -> ~ In s A1 ->
     a_link cs r s = (r :: s :: B) :: cons_ne A1 rest) /\
  (forall s B rest2, s <> r -> ~ In s A -> ext rest s = (s :: B, rest2) ->
     a_link cs r s = (r :: s :: B ++ A) :: rest2).
Proof. exact a_link_cases. Qed.
Print Assumptions C06_ring_link.

(* Move(n) on an initialised node lands n mod Len nodes further along its ring
   (Z.modulo: for negative n that is |n| steps backwards) and writes nothing. *)
Theorem C06_ring_move : forall h a r n c,
  RRep h a -> In r (concat (ra_cycles a)) -> fst (ext (ra_cycles a) r) = c ->
  ring_Move (Some r) n h = Ok (Some (nth (Z.to_nat (n mod Z.of_nat (length c))) c r), h).
Proof. exact ring_move_mod. Qed.
Print Assumptions C06_ring_move.

(* Unlink(n), n > 0, on the ring r :: A removes the n mod Len nodes that follow r;
   they form a ring of their own; the result is the old r.Next(). *)
Theorem C06_ring_unlink : forall h a r n A rest,
  RRep h a -> In r (concat (ra_cycles a)) -> ext (ra_cycles a) r = (r :: A, rest) -> (0 < n)%Z ->
  let k := Z.to_nat (n mod Z.of_nat (S (length A))) in
  exists h', ring_Unlink (Some r) n h = Ok (Some (hd r A), h') /\
             RRep h' (RA ((r :: skipn k A) :: cons_ne (firstn k A) rest) (ra_vals a)) /\ length h' = length h.
Proof. exact ring_unlink_mod. Qed.
Print Assumptions C06_ring_unlink.

(* Len and Do of a non-nil node (a zero Ring counts as a one-element ring): the length
   and the values of its cycle, starting at the node; neither runs out of fuel. *)
Theorem C06_ring_len_do : forall h a r,
  RRep h a -> r < length h ->
  exists h', ring_Len (Some r) h = Ok (Z.of_nat (length (fst (ext (ra_cycles a) r))), h') /\
             ring_Do (Some r) h = Ok (map (ra_val a) (fst (ext (ra_cycles a) r)), h') /\
             RRep h' (RA (a_touch (ra_cycles a) r) (ra_vals a)) /\ length h' = length h.
Proof. exact LenDo_sim. Qed.
Print Assumptions C06_ring_len_do.

(* Non-vacuity: a covered history with a zero-value list, a foreign handle, a
   removed handle, a never-inserted Element, a nil handle and a self
   PushBackList; model and specification agree on it (evaluated). *)
Example C06_example :
  let ops := [LNew; LNewInit; LPushBack 0 10; LPushBack 0 11; LPushFront 1 12; LElem 13;
              LRemove 0 0; LRemove 0 0; LInsertAfter 0 14 2; LMoveBefore 0 1 3; LMoveToBack 1 9;
              LPushBackList 0 0; LInsertBefore 0 15 1; LMoveToFront 0 4; LPushFrontList 1 0; LNext 1]%Z in
  (let '(_, _, _, ok) := spec_run ops in ok) = true /\
  fst (run ops) = (let '(os, _, _, _) := spec_run ops in os) /\
  walk_fwd (st (snd (run ops))) 0 = Ok [7; 3; 6] /\
  nth 10 (fst (run ops)) OUnit = OPanic NilDeref /\
  (* the panicking call is op 10, MoveToBack with handle 9, which the table of 5 handles does not have *)
  nil_arg (LMoveToBack 1 9) (hs (snd (run (firstn 10 ops)))) = true /\
  snd (run (firstn 11 ops)) = snd (run (firstn 10 ops)).
Proof. vm_compute. repeat split. Qed.

(* Non-vacuity for rings: NewRing, a zero Ring, Link of different rings, Link
   inside one ring, Unlink, negative Move, nil handles (evaluated). *)
Example C06_ring_example :
  let ops := [RNew 3 10; RZero 20; RNew 2 30; RLink 0 1; RDo 0; RLink 0 2; RDo 0; RMove 0 (-2); RLink 0 3;
              RDo 0; RDo 3; RUnlink 0 1; RLen 0; RNext 9; RLen 9]%Z in
  fst (rrun ops) = fst (fst (rspec_run ops)) /\
  nth 6 (fst (rrun ops)) (ROInt 0) = ROSeq [10; 30; 31; 20; 11; 12]%Z /\
  nth 13 (fst (rrun ops)) (ROInt 0) = ROPanic NilDeref.
Proof. vm_compute. repeat split. Qed.
