(* C05 — sync2.Set is an atomic set under concurrent use.
   Model: SyncMap/Model.v (Add = LoadOrStore(v, unit) reporting !loaded,
   Remove = LoadAndDelete, Has = Load, AddSet/RemoveSet = Range over the argument
   with a nested Add/Remove per element, Len = counting Range).

   PARTIAL. Proved here: the law that turns linearizability into the statement
   of the property — in every legal sequential history of a set, for each value
   the successful Adds and Removes alternate starting with an Add, their balance
   is the final membership (0 or 1), and a Has that reports true is preceded by a
   successful Add. A linearization is by definition consistent with real time,
   so this is exactly "alternate ... in an order consistent with real time".
   NOT yet proved: that every history of the small-step machine is linearizable
   to the set specification (C04's linearizability theorem; the concurrent
   invariants are under way in SyncMap/Inv.v). Until then the concurrent part is
   carried by controlled-schedule trace validation against the model plus the
   brute-force per-set linearizability oracle and the conservation check of
   harness/c05. *)
From Typ Require Import SyncMap.SetSpec.
From stdpp Require Import gmap.

Theorem C05_seq_alternation : forall (v : Z) (h : list sop), legal ∅ h ->
  alternates true (succ_events v h) /\
  (count_true (succ_events v h) - count_false (succ_events v h) = (if bool_decide (v ∈ final ∅ h) then 1 else 0))%Z.
Proof. exact seq_alternation. Qed.
Print Assumptions C05_seq_alternation.

Theorem C05_has_sound : forall (v : Z) (s : gset Z) (pre : list sop),
  legal s (pre ++ [SHas v true]) -> v ∉ s -> In true (succ_events v pre).
Proof. exact has_true_after_add. Qed.
Print Assumptions C05_has_sound.

(* Non-vacuity: a legal history with two successful Adds and one Remove of 5. *)
Example C05_example :
  legal ∅ [SAdd 5 true; SAdd 5 false; SHas 5 true; SRemove 5 true; SRemove 5 false; SAdd 5 true]%Z /\
  succ_events 5 [SAdd 5 true; SAdd 5 false; SHas 5 true; SRemove 5 true; SRemove 5 false; SAdd 5 true]%Z = [true; false; true].
Proof. split; [|reflexivity]. simpl. repeat split; symmetry; try (apply bool_decide_eq_true; set_solver); try (apply bool_decide_eq_false; set_solver). Qed.
