(* C05 — sync2.Set is an atomic set under concurrent use.
   Model: SyncMap/Model.v (Add = LoadOrStore(v, unit) reporting !loaded,
   Remove = LoadAndDelete, Has = Load, AddSet/RemoveSet = Range over the argument
   with a nested Add/Remove per element, Len = counting Range).

   Contents (all on the small-step model SyncMap/Model.v, every number of
   goroutines, every program length, every schedule at the granularity of the
   individual atomic / mutex operations; the model is tied to the real code by
   trace replay, harness/c05):
   1. the sequential law that turns linearizability into the statement of the
      property: in every legal sequential history of a set, for each value the
      successful Adds and Removes alternate starting with an Add, their balance
      is the final membership (0 or 1), and a Has that reports true is preceded
      by a successful Add (SetSpec.v);
   2. per-value conservation in every reachable configuration, any number of
      sets (SetAtomic.v);
   3. every history of Add / Remove / Has on one Set is linearizable to the
      sequential set, and the linearization order is a legal set history: the
      alternation law holds in an order consistent with real time
      (C05_set_linearizable, C05_atomic_set; SetLin.v, from C04_linearizable);
   4. real-time consequences stated on the positions of the events of the
      history: Has never misses a stably present value, two Adds of one value
      one after the other cannot both succeed without a Remove around
      (C05_after_add, C05_has_after_add, C05_add_after_add) and their duals
      after a Remove (C05_after_remove, C05_has_after_remove, ...); OVERLAPPING
      calls: in a window without Remove(v) activity at most one Add(v) invoked
      and answered in it reports "added", and dually (C05_adds_window,
      C05_two_adds_overlapping, C05_removes_window, ...); the separating call
      is a successful one (C05_classic_separated); SetRT.v, Lib/LinHW.v;
   5. the counts of AddSet / RemoveSet / Len add up (SetCounts.v).
   AddSet / RemoveSet are not atomic (a Range plus one atomic Add / Remove per
   element) and are covered by 2 and 5 only; see bin/props/C05.json for what
   is left to the harness. *)
From Typ Require Import SyncMap.SetSpec.
From stdpp Require Import gmap.

Theorem C05_seq_alternation : forall (v : Z) (h : list sop), legal ∅ h ->
  alternates true (succ_events v h) /\
  (count_true (succ_events v h) - count_false (succ_events v h) = (if bool_decide (v ∈ final ∅ h) then 1 else 0))%Z.
Proof. exact seq_alternation. Qed.
Print Assumptions C05_seq_alternation.

Theorem C05_has_sound : forall (v : Z) (s : gset Z) (pre : list sop),
  legal s (pre ++ [SHas v true]) -> v ∉ s -> In true (succ_events v pre).
Proof. exact has_true_after_add. Qed.
Print Assumptions C05_has_sound.

(* Non-vacuity: a legal history with two successful Adds and one Remove of 5. *)
Example C05_example :
  legal ∅ [SAdd 5 true; SAdd 5 false; SHas 5 true; SRemove 5 true; SRemove 5 false; SAdd 5 true]%Z /\
  succ_events 5 [SAdd 5 true; SAdd 5 false; SHas 5 true; SRemove 5 true; SRemove 5 false; SAdd 5 true]%Z = [true; false; true].
Proof. split; [|reflexivity]. simpl. repeat split; symmetry; try (apply bool_decide_eq_true; set_solver); try (apply bool_decide_eq_false; set_solver). Qed.

(* ------------------------------------------------------------------ *)
(* Concurrent part: per-value conservation over ALL interleavings.     *)
(* ------------------------------------------------------------------ *)
(* Proved on the small-step model SyncMap/Model.v (validated against the real
   code by trace replay) for every number of sets, every list of programs made
   of Has = Load, Add = LoadOrStore, Remove = LoadAndDelete ([frag]; any
   length, any number of goroutines) and every schedule, i.e. in EVERY
   reachable configuration, for every set j and value k:

     (number of Adds of k that reported "added")         [stored]
   - (number of Removes of k that reported "removed")    [deleted]
   + (effects of calls in flight, decided but not yet reported: +1 for an Add
      past its deciding step, -1 for a Remove that took k's entry out of the
      dirty map)                                          [pending]
   = 1 if k is in the set, else 0.

   So successful Adds and Removes of a value can never get ahead of one another
   by more than the calls in flight, whatever the interleaving; and when all
   goroutines are done the balance IS the membership (second theorem). Uses the
   concurrent invariants of SyncMap/Inv.v and the entry-reference discipline of
   SyncMap/SetAtomic.v (part A). [frag] excludes AddSet / RemoveSet / Len (Range
   with a nested call): their counts are the last section of this file; the
   real-time order of the alternation is the next section (C05_atomic_set). *)
From Typ Require Import SyncMap.Model SyncMap.Inv SyncMap.SetAtomic.

Theorem C05_conservation : forall zs progs sched j k i,
  Forall (Forall frag) progs ->
  let c := run_schedule (init_config_z zs progs) sched in
  nth_error (c_insts c) j = Some i ->
  (stored j k (c_hist c) - deleted j k (c_hist c) + pending j k c = Aof (i_st i) k)%Z.
Proof. exact conservation. Qed.
Print Assumptions C05_conservation.

Theorem C05_conservation_quiescent : forall zs progs sched j k i,
  Forall (Forall frag) progs ->
  let c := run_schedule (init_config_z zs progs) sched in
  nth_error (c_insts c) j = Some i -> finished c = true ->
  (stored j k (c_hist c) - deleted j k (c_hist c) = Aof (i_st i) k)%Z.
Proof. exact conservation_quiescent. Qed.
Print Assumptions C05_conservation_quiescent.

(* Non-vacuity: G0 = Add 5; Remove 5 and G1 = Add 5; Has 5 on one set. The
   Remove takes 5's entry out of the dirty map (pending = -1, 5 is absent),
   G1's Add then re-adds 5 and reports "added" BEFORE the Remove has reported
   (stored = 2, deleted = 0, pending = -1, 5 present), then the Remove reports. *)
Definition c05_progs : list (list call) :=
  [[CLoadOrStore 0 5 0 PNone; CLoadAndDelete 0 5]; [CLoadOrStore 0 5 0 PNone; CLoad 0 5]]%Z.
Definition c05_sch (l : list nat) : list (nat * Z) := map (fun t => (t, 0%Z)) l.
Definition c05_view (c : config) :=
  (stored 0 5 (c_hist c), deleted 0 5 (c_hist c), pending 0 5 c, map (fun i => Aof (i_st i) 5) (c_insts c),
   map thread_label (c_threads c)).

Example C05_conservation_example :
  let c1 := run_schedule (init_config_z [true] c05_progs) (c05_sch [0;0;0;0;0]) in    (* G0's Add has inserted, not yet unlocked *)
  let c2 := run_schedule c1 (c05_sch [0; 0;0;0;0;0]) in                        (* Add returns; Remove: read1 lock read2 promote unlock *)
  let c3 := run_schedule c2 (c05_sch [1;1;1;1;1;1]) in                         (* G1's Add, complete *)
  let c4 := run_schedule c3 (c05_sch [0;0; 1;1;1;1;1;1]) in                    (* Remove's delete.load, delete.cas; G1's Has *)
  c05_view c1 = (0, 0, 1, [1], [Some LOS_unlock; Some LOS_read1])%Z /\
  c05_view c2 = (1, 0, -1, [0], [Some Delete_load; Some LOS_read1])%Z /\
  c05_view c3 = (2, 0, -1, [1], [Some Delete_load; Some Load_read1])%Z /\
  c05_view c4 = (2, 1, 0, [1], [None; None])%Z /\
  finished c4 = true /\ map t_results (c_threads c4) = [[RLos 0 false; ROpt (Some 0)]; [RLos 0 false; ROpt (Some 0)]]%Z /\
  Forall (Forall frag) c05_progs.
Proof. vm_compute. repeat split; repeat constructor. Qed.

(* ------------------------------------------------------------------ *)
(* sync2.Set is an atomic set: linearizability to the SET specification *)
(* ------------------------------------------------------------------ *)
(* For every list of programs of Add (LoadOrStore(v, struct{}{}), the unit value
   modelled by 0), Remove (LoadAndDelete) and Has (Load) on one Set ([set_frag];
   any number of goroutines, any length) and every schedule of the small-step
   model: the history of invocations and responses is linearizable (Lib/Lin.v)
   to the sequential set [set_spec] (Add reports loaded = "was present", Remove
   and Has report membership). Derived from C04_linearizable by a simulation
   (SyncMap/SetLin.v). *)
From Typ Require Import Lib.Lin SyncMap.Linearizable SyncMap.SetLin.

Theorem C05_set_linearizable : forall z progs sched,
  Forall (Forall set_frag) progs ->
  linearizable set_spec ∅ (map_hist (run_schedule (init_config_z [z] progs) sched)).
Proof. exact set_linearizable. Qed.
Print Assumptions C05_set_linearizable.

(* The statement of the property: there is a linearization order [o] of the
   calls (one marker per call, placed between its invocation and its response:
   [poss_ord], so [o] is consistent with real-time order) such that
   - every response in the history is the result its call has in [o], and [o]
     only contains calls the history invoked;
   - read as a sequential history, [o] is a legal history of a set that starts
     empty ([legal ∅], SetSpec.v) and ends in the present contents [s] of the
     Set (v ∈ s iff the underlying Map holds v); once all goroutines are done
     every call has its marker;
   - hence, for every value, the successful Adds and Removes alternate in that
     order, starting with an Add, and #successful Adds - #successful Removes is
     the value's membership (0 or 1): two Adds (or two Removes) of one value
     that both succeed are always separated by a successful Remove (Add). *)
Theorem C05_atomic_set : forall z progs sched,
  Forall (Forall set_frag) progs ->
  let c := run_schedule (init_config_z [z] progs) sched in
  exists (s : gset Z) (P : nat -> option (call * option res)) (o : list (nat * call * res)),
    poss_ord set_spec ∅ (rev (map_hist c)) s P o /\
    (forall v, v ∈ s <-> abs_lookup (st0 c) v <> None) /\
    (finished c = true -> forall t, P t = None) /\
    (forall t r, In (HRes t r) (map_hist c) -> exists c0, In (t, c0, r) o) /\
    (forall t c0 r, In (t, c0, r) o -> In (HInv t c0) (map_hist c)) /\
    legal ∅ (sops o) /\ final ∅ (sops o) = s /\
    forall v, alternates true (succ_events v (sops o)) /\
              (count_true (succ_events v (sops o)) - count_false (succ_events v (sops o)) =
               if bool_decide (v ∈ s) then 1 else 0)%Z.
Proof. exact set_atomic. Qed.
Print Assumptions C05_atomic_set.

(* Non-vacuity: the programs of C05_conservation_example are Set programs, and
   in that run G1's Add overlaps G0's Remove (its response comes while the
   Remove is still in flight). *)
Example C05_atomic_set_example :
  Forall (Forall set_frag) c05_progs /\
  map_hist (run_schedule (init_config_z [true] c05_progs)
              (c05_sch ([0;0;0;0;0] ++ [0; 0;0;0;0;0] ++ [1;1;1;1;1;1] ++ [0;0; 1;1;1;1;1;1]))) =
    [HInv 0 (CLoadOrStore 0 5 0 PNone); HRes 0 (RLos 0 false);
     HInv 0 (CLoadAndDelete 0 5);
     HInv 1 (CLoadOrStore 0 5 0 PNone); HRes 1 (RLos 0 false);
     HRes 0 (ROpt (Some 0));
     HInv 1 (CLoad 0 5); HRes 1 (ROpt (Some 0))]%Z.
Proof. split; [repeat constructor|vm_compute; reflexivity]. Qed.

(* ------------------------------------------------------------------ *)
(* Real time, on the positions of the events of the history            *)
(* ------------------------------------------------------------------ *)
(* Consequences of linearizability (markers lie inside the calls' intervals)
   spelled out on the history itself (SyncMap/SetRT.v). The history, oldest
   event first, is cut as
     h0 ++ [HInv t1 Add(v)] ++ hA ++ [HRes t1 r1] ++ h2 ++ [HInv t2 c2] ++ hB ++ [HRes t2 r2] ++ h4
   where hA has no event of t1 and hB none of t2 ([no_ev]), so r1 / r2 are the
   responses to these two invocations: the Add(v) has RETURNED (with either
   result) before c2 is INVOKED. "No Remove(v) around": no Remove(v) is pending
   when the Add is invoked ([pend_call h0 t]: the call of t invoked and not yet
   answered in h0) and none is invoked before c2 returns. Then c2 gets the
   result it has on a set containing v. A Remove(v) that is pending at the
   Add's invocation or invoked later may take effect anywhere in its interval,
   so nothing can be said in its presence (C05_atomic_set_example: the second
   Add succeeds while a Remove is in flight). *)
From Typ Require Import Lib.LinHW SyncMap.SetRT.

(* for any linearizable history *)
Theorem C05_after_add : forall v (h0 hA h2 hB h4 : list hev) t1 c1 r1 t2 c2 r2,
  linearizable set_spec ∅ (h0 ++ [HInv t1 c1] ++ hA ++ [HRes t1 r1] ++ h2 ++ [HInv t2 c2] ++ hB ++ [HRes t2 r2] ++ h4) ->
  is_add v c1 -> no_ev t1 hA -> no_ev t2 hB -> ~ is_remove v c2 ->
  (forall t c, pend_call h0 t = Some c -> ~ is_remove v c) ->
  (forall t c, In (HInv t c) (hA ++ h2 ++ hB) -> ~ is_remove v c) ->
  exists sm, v ∈ sm /\ r2 = snd (set_spec sm c2).
Proof. exact set_after_add. Qed.
Print Assumptions C05_after_add.

(* Has never misses a value that is stably present *)
Theorem C05_has_after_add : forall z progs sched v (h0 hA h2 hB h4 : list hev) t1 j1 x1 p1 r1 t2 j2 r2,
  Forall (Forall set_frag) progs ->
  map_hist (run_schedule (init_config_z [z] progs) sched) =
    h0 ++ [HInv t1 (CLoadOrStore j1 v x1 p1)] ++ hA ++ [HRes t1 r1] ++ h2 ++ [HInv t2 (CLoad j2 v)] ++ hB ++ [HRes t2 r2] ++ h4 ->
  no_ev t1 hA -> no_ev t2 hB ->
  (forall t c, pend_call h0 t = Some c -> ~ is_remove v c) ->
  (forall t c, In (HInv t c) (hA ++ h2 ++ hB) -> ~ is_remove v c) ->
  r2 = ROpt (Some 0%Z).
Proof. exact has_after_add. Qed.
Print Assumptions C05_has_after_add.

(* an Add(v) invoked after an Add(v) has returned reports "already present":
   two Adds of v, the second invoked after the first returned, never both
   succeed unless a Remove(v) is pending or invoked in between *)
Theorem C05_add_after_add : forall z progs sched v (h0 hA h2 hB h4 : list hev) t1 j1 x1 p1 r1 t2 j2 x2 p2 r2,
  Forall (Forall set_frag) progs ->
  map_hist (run_schedule (init_config_z [z] progs) sched) =
    h0 ++ [HInv t1 (CLoadOrStore j1 v x1 p1)] ++ hA ++ [HRes t1 r1] ++ h2 ++ [HInv t2 (CLoadOrStore j2 v x2 p2)] ++ hB ++ [HRes t2 r2] ++ h4 ->
  no_ev t1 hA -> no_ev t2 hB ->
  (forall t c, pend_call h0 t = Some c -> ~ is_remove v c) ->
  (forall t c, In (HInv t c) (hA ++ h2 ++ hB) -> ~ is_remove v c) ->
  r2 = RLos 0 true.
Proof. exact add_after_add. Qed.
Print Assumptions C05_add_after_add.

(* The classic formulation of Herlihy & Wing (Lib/LinHW.v, C04_markers_imply_
   classic): a sequential history S of (thread, call, result) that is a legal
   run of the set specification, consists thread by thread, in program order,
   of exactly the operations of the history (all completed ones with the
   reported results, plus at most the pending one: [invs] / [ress] / [sel]),
   and respects real time: for every cut h = h1 ++ h2, S = S1 ++ S2 with S1
   containing every operation completed in h1 and only operations invoked in
   h1. (This is the bijection between completed calls and entries of the order
   that the link clauses of C05_atomic_set leave implicit.) *)
Theorem C05_set_linearizable_classic : forall z progs sched,
  Forall (Forall set_frag) progs ->
  let h := map_hist (run_schedule (init_config_z [z] progs) sched) in
  exists (s : gset Z) (S : list (nat * call * res)),
    spec_run set_spec ∅ (calls S) = (s, results S) /\
    (forall t, exists l1 l2, invs t h = calls (sel t S) ++ l1 /\ results (sel t S) = ress t h ++ l2 /\
                             length l1 + length l2 <= 1) /\
    (forall h1 h2, h = h1 ++ h2 -> exists S1 S2, S = S1 ++ S2 /\
       forall t, length (ress t h1) <= length (sel t S1) <= length (invs t h1)).
Proof. exact set_linearizable_classic. Qed.
Print Assumptions C05_set_linearizable_classic.

(* Non-vacuity: G0 = Add 5, G1 = Has 5; Add 5, G2 = Add 7; Remove 7. G2's Add 7
   is pending when G0's Add 5 is invoked, G1's Has 5 is invoked after G0's Add
   returned and overlaps G2's calls; it reports true, and G1's Add 5 reports
   "already present". Both cuts of the history satisfy the hypotheses. *)
Definition rt_progs : list (list call) :=
  [[CLoadOrStore 0 5 0 PNone]; [CLoad 0 5; CLoadOrStore 0 5 0 PNone]; [CLoadOrStore 0 7 0 PNone; CLoadAndDelete 0 7]]%Z.
Definition rt_sched : list (nat * Z) :=
  c05_sch ([2] ++ repeat 0 8 ++ [1] ++ repeat 2 9 ++ repeat 1 9 ++ repeat 2 3 ++ repeat 1 10 ++ repeat 2 10).
Definition rt_add5 := CLoadOrStore 0 5 0 PNone.
Definition rt_add7 := CLoadOrStore 0 7 0 PNone.

Example C05_after_add_example :
  (let h := map_hist (run_schedule (init_config_z [true] rt_progs) rt_sched) in
  Forall (Forall set_frag) rt_progs /\
  (* Has 5 after Add 5 *)
  h = [HInv 2 rt_add7] ++ [HInv 0 rt_add5] ++ [] ++ [HRes 0 (RLos 0 false)] ++ [] ++
      [HInv 1 (CLoad 0 5)] ++ [HRes 2 (RLos 0 false); HInv 2 (CLoadAndDelete 0 7)] ++ [HRes 1 (ROpt (Some 0))] ++
      [HInv 1 rt_add5; HRes 1 (RLos 0 true); HRes 2 (ROpt (Some 0))] /\
  no_ev 0 ([] : list hev) /\ no_ev 1 [HRes 2 (RLos 0 false); HInv 2 (CLoadAndDelete 0 7)] /\
  (forall t c, pend_call ([HInv 2 rt_add7] : list hev) t = Some c -> ~ is_remove 5 c) /\
  (forall t c, In (HInv t c) ([] ++ [] ++ [HRes 2 (RLos 0 false); HInv 2 (CLoadAndDelete 0 7)]) -> ~ is_remove 5 c) /\
  (* Add 5 after Add 5 *)
  h = [HInv 2 rt_add7] ++ [HInv 0 rt_add5] ++ [] ++ [HRes 0 (RLos 0 false)] ++
      [HInv 1 (CLoad 0 5); HRes 2 (RLos 0 false); HInv 2 (CLoadAndDelete 0 7); HRes 1 (ROpt (Some 0))] ++
      [HInv 1 rt_add5] ++ [] ++ [HRes 1 (RLos 0 true)] ++ [HRes 2 (ROpt (Some 0))] /\
  (forall t c, In (HInv t c) ([] ++ [HInv 1 (CLoad 0 5); HRes 2 (RLos 0 false); HInv 2 (CLoadAndDelete 0 7); HRes 1 (ROpt (Some 0))] ++ []) ->
               ~ is_remove 5 c))%Z.
Proof.
  split; [repeat constructor|]. split; [vm_compute; reflexivity|].
  split; [intros e []|]. split; [intros e [<-|[<-|[]]]; cbn; discriminate|].
  split; [intros t c; unfold pend_call; cbn [rev app last_ev ev_thread]; destruct (Nat.eq_dec 2 t); [intros [= <-]; cbn; auto|discriminate]|].
  split; [intros t c [E|[E|[]]]; [discriminate|injection E as <- <-; cbn; discriminate]|].
  split; [vm_compute; reflexivity|].
  intros t c [E|[E|[E|[E|[]]]]]; try discriminate; injection E as <- <-; cbn; auto; discriminate.
Qed.

(* ---- the duals: after a Remove(v) has returned ---- *)
Theorem C05_after_remove : forall v (h0 hA h2 hB h4 : list hev) t1 c1 r1 t2 c2 r2,
  linearizable set_spec ∅ (h0 ++ [HInv t1 c1] ++ hA ++ [HRes t1 r1] ++ h2 ++ [HInv t2 c2] ++ hB ++ [HRes t2 r2] ++ h4) ->
  is_remove v c1 -> no_ev t1 hA -> no_ev t2 hB -> ~ is_add v c2 ->
  (forall t c, pend_call h0 t = Some c -> ~ is_add v c) ->
  (forall t c, In (HInv t c) (hA ++ h2 ++ hB) -> ~ is_add v c) ->
  exists sm, ~ v ∈ sm /\ r2 = snd (set_spec sm c2).
Proof. exact set_after_remove. Qed.
Print Assumptions C05_after_remove.

(* Has never reports a value that has been removed and not added again *)
Theorem C05_has_after_remove : forall z progs sched v (h0 hA h2 hB h4 : list hev) t1 j1 r1 t2 j2 r2,
  Forall (Forall set_frag) progs ->
  map_hist (run_schedule (init_config_z [z] progs) sched) =
    h0 ++ [HInv t1 (CLoadAndDelete j1 v)] ++ hA ++ [HRes t1 r1] ++ h2 ++ [HInv t2 (CLoad j2 v)] ++ hB ++ [HRes t2 r2] ++ h4 ->
  no_ev t1 hA -> no_ev t2 hB ->
  (forall t c, pend_call h0 t = Some c -> ~ is_add v c) ->
  (forall t c, In (HInv t c) (hA ++ h2 ++ hB) -> ~ is_add v c) ->
  r2 = ROpt None.
Proof. exact has_after_remove. Qed.
Print Assumptions C05_has_after_remove.

Theorem C05_remove_after_remove : forall z progs sched v (h0 hA h2 hB h4 : list hev) t1 j1 r1 t2 j2 r2,
  Forall (Forall set_frag) progs ->
  map_hist (run_schedule (init_config_z [z] progs) sched) =
    h0 ++ [HInv t1 (CLoadAndDelete j1 v)] ++ hA ++ [HRes t1 r1] ++ h2 ++ [HInv t2 (CLoadAndDelete j2 v)] ++ hB ++ [HRes t2 r2] ++ h4 ->
  no_ev t1 hA -> no_ev t2 hB ->
  (forall t c, pend_call h0 t = Some c -> ~ is_add v c) ->
  (forall t c, In (HInv t c) (hA ++ h2 ++ hB) -> ~ is_add v c) ->
  r2 = ROpt None.
Proof. exact remove_after_remove. Qed.
Print Assumptions C05_remove_after_remove.

(* ---- OVERLAPPING Adds / Removes: at most one succeeds per window ---- *)
(* The history is cut as h0 ++ W ++ h4. [cnt_added v (rev W)] = the number of
   responses in the window W that report "added" and answer an Add(v) invoked
   within W ([succ_set]: Add reports loaded = false, Remove reports a value).
   If no Remove(v) is pending at the start of W and none is invoked in W, at
   most one of them reports "added" - however the Adds overlap. Read the other
   way: if two Add(v) calls both report "added", take W = from the earlier
   invocation to the later response: some Remove(v) is pending at the start of W
   or invoked in W, i.e. its interval is neither entirely before the first
   Add's invocation nor entirely after the second Add's response. In particular
   in a history without any Remove(v) (h0 = [], W = the whole history) at most
   one Add(v) ever reports "added". Dually for Removes. (That the separating
   Remove is a SUCCESSFUL one is C05_classic_separated below.) *)
Theorem C05_adds_window : forall z progs sched v (h0 W h4 : list hev),
  Forall (Forall set_frag) progs ->
  map_hist (run_schedule (init_config_z [z] progs) sched) = h0 ++ W ++ h4 ->
  (forall t c, pend_call h0 t = Some c -> ~ is_remove v c) ->
  (forall t c, In (HInv t c) W -> ~ is_remove v c) ->
  cnt_added v (rev W) <= 1.
Proof. exact run_adds_window. Qed.
Print Assumptions C05_adds_window.

Theorem C05_removes_window : forall z progs sched v (h0 W h4 : list hev),
  Forall (Forall set_frag) progs ->
  map_hist (run_schedule (init_config_z [z] progs) sched) = h0 ++ W ++ h4 ->
  (forall t c, pend_call h0 t = Some c -> ~ is_add v c) ->
  (forall t c, In (HInv t c) W -> ~ is_add v c) ->
  cnt_removed v (rev W) <= 1.
Proof. exact run_removes_window. Qed.
Print Assumptions C05_removes_window.

(* spelled out for two calls A and B of the window, A answered first:
     W = z0 ++ [HRes tA rA] ++ y ++ [HRes tB rB] ++ x,
   tA's pending call after z0 is cA, tB's pending call after z0 ++ [HRes tA rA] ++ y
   is cB: both are invoked within W, B before, during or after A (nested,
   overlapping or consecutive). Two Add(v) never both report "added" ... *)
Theorem C05_two_adds_overlapping : forall z progs sched v (h0 z0 y x h4 : list hev) tA cA rA tB cB rB,
  Forall (Forall set_frag) progs ->
  map_hist (run_schedule (init_config_z [z] progs) sched) = h0 ++ (z0 ++ [HRes tA rA] ++ y ++ [HRes tB rB] ++ x) ++ h4 ->
  pend_call z0 tA = Some cA -> is_add v cA -> succ_set rA = true ->
  pend_call (z0 ++ [HRes tA rA] ++ y) tB = Some cB -> is_add v cB -> succ_set rB = true ->
  (forall t c, pend_call h0 t = Some c -> ~ is_remove v c) ->
  (forall t c, In (HInv t c) (z0 ++ [HRes tA rA] ++ y ++ [HRes tB rB] ++ x) -> ~ is_remove v c) ->
  False.
Proof. exact run_two_adds. Qed.
Print Assumptions C05_two_adds_overlapping.

(* ... and two Remove(v) never both report "removed", unless an Add(v) is around *)
Theorem C05_two_removes_overlapping : forall z progs sched v (h0 z0 y x h4 : list hev) tA cA rA tB cB rB,
  Forall (Forall set_frag) progs ->
  map_hist (run_schedule (init_config_z [z] progs) sched) = h0 ++ (z0 ++ [HRes tA rA] ++ y ++ [HRes tB rB] ++ x) ++ h4 ->
  pend_call z0 tA = Some cA -> is_remove v cA -> succ_set rA = true ->
  pend_call (z0 ++ [HRes tA rA] ++ y) tB = Some cB -> is_remove v cB -> succ_set rB = true ->
  (forall t c, pend_call h0 t = Some c -> ~ is_add v c) ->
  (forall t c, In (HInv t c) (z0 ++ [HRes tA rA] ++ y ++ [HRes tB rB] ++ x) -> ~ is_add v c) ->
  False.
Proof. exact run_two_removes. Qed.
Print Assumptions C05_two_removes_overlapping.

(* The classic sequential history S of C05_set_linearizable_classic with the
   separation property: between two entries Add(v) of S of which the later one
   reports "added" there is an entry Remove(v) of S that reports "removed"
   (and dually). S consists of exactly the calls of the history with their
   reported results (clause (b)), and clause (c) places that Remove in real
   time: every cut of the history is matched by a cut of S, so the Remove can
   neither have returned before the earlier Add was invoked nor be invoked
   after the later Add returned (C04_classic_real_time spells out positions). *)
Theorem C05_classic_separated : forall z progs sched,
  Forall (Forall set_frag) progs ->
  let h := map_hist (run_schedule (init_config_z [z] progs) sched) in
  exists (s : gset Z) (S : list (nat * call * res)),
    spec_run set_spec ∅ (calls S) = (s, results S) /\
    (forall t, exists l1 l2, invs t h = calls (sel t S) ++ l1 /\ results (sel t S) = ress t h ++ l2 /\
                             length l1 + length l2 <= 1) /\
    (forall h1 h2, h = h1 ++ h2 -> exists S1 S2, S = S1 ++ S2 /\
       forall t, length (ress t h1) <= length (sel t S1) <= length (invs t h1)) /\
    (forall v Sa x Sm y Sb, S = Sa ++ x :: Sm ++ y :: Sb ->
       is_add v (snd (fst x)) -> is_add v (snd (fst y)) -> succ_set (snd y) = true ->
       exists z, In z Sm /\ is_remove v (snd (fst z)) /\ succ_set (snd z) = true) /\
    (forall v Sa x Sm y Sb, S = Sa ++ x :: Sm ++ y :: Sb ->
       is_remove v (snd (fst x)) -> is_remove v (snd (fst y)) -> succ_set (snd y) = true ->
       exists z, In z Sm /\ is_add v (snd (fst z)) /\ succ_set (snd z) = true).
Proof. exact set_classic_separated. Qed.
Print Assumptions C05_classic_separated.

(* Non-vacuity. (1) Two OVERLAPPING Adds of 5 (G1's Add is invoked while G0's
   is in flight and answered after it): exactly one reports "added"; the window
   is the part of the history up to G1's response, no Remove anywhere. (2) G0 =
   Add 5; Remove 5, G1 = Remove 5; Has 5 with the two Removes overlapping:
   exactly one reports "removed" (window = everything after G0's Add returned:
   no Add pending, none invoked), and G1's Has, invoked after G1's Remove
   returned, reports false. *)
Definition ov_progs1 : list (list call) := [[CLoadOrStore 0 5 0 PNone]; [CLoadOrStore 0 5 0 PNone; CLoad 0 5]]%Z.
Definition ov_sched1 := c05_sch ([0;0;1;1;0;0;0;0;0] ++ repeat 1 20 ++ repeat 0 5).
Definition ov_progs2 : list (list call) := [[CLoadOrStore 0 5 0 PNone; CLoadAndDelete 0 5]; [CLoadAndDelete 0 5; CLoad 0 5]]%Z.
Definition ov_sched2 := c05_sch (repeat 0 7 ++ [1;1;0;0;1;1;0;0] ++ repeat 1 20 ++ repeat 0 20 ++ repeat 1 10).

Example C05_overlapping_example :
  (let W1 := [HInv 0 rt_add5; HInv 1 rt_add5; HRes 0 (RLos 0 false); HRes 1 (RLos 0 true)] in
   let W2 := [HInv 0 (CLoadAndDelete 0 5); HInv 1 (CLoadAndDelete 0 5); HRes 1 (ROpt (Some 0));
              HInv 1 (CLoad 0 5); HRes 1 (ROpt None); HRes 0 (ROpt None)] in
   Forall (Forall set_frag) ov_progs1 /\ Forall (Forall set_frag) ov_progs2 /\
   map_hist (run_schedule (init_config_z [true] ov_progs1) ov_sched1) =
     [] ++ W1 ++ [HInv 1 (CLoad 0 5); HRes 1 (ROpt (Some 0))] /\
   (forall t c, pend_call ([] : list hev) t = Some c -> ~ is_remove 5 c) /\
   (forall t c, In (HInv t c) W1 -> ~ is_remove 5 c) /\
   cnt_added 5 (rev W1) = 1%nat /\
   map_hist (run_schedule (init_config_z [true] ov_progs2) ov_sched2) =
     [HInv 0 rt_add5; HRes 0 (RLos 0 false)] ++ W2 ++ [] /\
   (forall t c, pend_call [HInv 0 rt_add5; HRes 0 (RLos 0 false)] t = Some c -> ~ is_add 5 c) /\
   (forall t c, In (HInv t c) W2 -> ~ is_add 5 c) /\
   cnt_removed 5 (rev W2) = 1%nat /\
   (* the cut for C05_has_after_remove: G1's Remove, then G1's Has *)
   [HInv 0 rt_add5; HRes 0 (RLos 0 false)] ++ W2 ++ [] =
     [HInv 0 rt_add5; HRes 0 (RLos 0 false); HInv 0 (CLoadAndDelete 0 5)] ++ [HInv 1 (CLoadAndDelete 0 5)] ++ [] ++
     [HRes 1 (ROpt (Some 0))] ++ [] ++ [HInv 1 (CLoad 0 5)] ++ [] ++ [HRes 1 (ROpt None)] ++ [HRes 0 (ROpt None)] /\
   (forall t c, pend_call [HInv 0 rt_add5; HRes 0 (RLos 0 false); HInv 0 (CLoadAndDelete 0 5)] t = Some c -> ~ is_add 5 c))%Z.
Proof.
  cbv zeta.
  split; [repeat constructor|]. split; [repeat constructor|]. split; [vm_compute; reflexivity|].
  split; [intros t c; unfold pend_call; cbn; discriminate|].
  split; [intros t c [E|[E|[E|[E|[]]]]]; try discriminate; injection E as <- <-; cbn; auto|].
  split; [vm_compute; reflexivity|]. split; [vm_compute; reflexivity|].
  split.
  { intros t c. unfold pend_call. cbn [rev app last_ev ev_thread]. destruct (Nat.eq_dec 0 t); discriminate. }
  split; [intros t c [E|[E|[E|[E|[E|[E|[]]]]]]]; try discriminate; injection E as <- <-; cbn; auto|].
  split; [vm_compute; reflexivity|]. split; [reflexivity|].
  intros t c. unfold pend_call. cbn [rev app last_ev ev_thread]. destruct (Nat.eq_dec 0 t); [intros [= <-]; cbn; auto|discriminate].
Qed.

(* ------------------------------------------------------------------ *)
(* The counts of AddSet / RemoveSet / Len add up                       *)
(* ------------------------------------------------------------------ *)
(* Programs may now contain, next to Has / Add / Remove, Range with ANY callback:
   Len = CRange s (CbStop None), s.AddSet(a) = CRange a (CbAdd s), s.RemoveSet(a)
   = CRange a (CbRemove s) ([sfrag]); any number of sets and goroutines, every
   schedule. AddSet / RemoveSet are NOT atomic: the model (like the code) runs
   them as a Range over the argument with one ordinary nested Add / Remove of
   the receiver per element, in a child frame of the Range frame. *)
From Typ Require Import SyncMap.RangeConc SyncMap.SetCounts.

(* (a) thread-local accounting, a statement about ONE STEP (the run-level
   reading "the count returned = the number of nested calls that reported
   success" follows because a new Range frame starts with count 0 and no other
   step changes it; it is not stated as a separate theorem): when the nested call of an AddSet / RemoveSet
   returns r, the Range's running count (0 when the call starts) grows by
   [inc_of cb r] = 1 if r reports success (Add: loaded = false, Remove: loaded =
   true) and 0 otherwise; nothing else changes it; if the Range completes in that
   step it returns exactly that count. *)
Theorem C05_nested_return_counted : forall c t ch c' th child p rest r i i',
  step c t ch = Some c' -> c_panicked c = false ->
  nth_error (c_threads c) t = Some th -> t_stack th = child :: p :: rest ->
  is_post_label (f_pc child) = false -> (forall j k, f_call child <> CDelete j k) ->
  nth_error (c_insts c) (call_inst (f_call child)) = Some i -> step_frame t i child ch = Some (Ok (i', Return r)) ->
  exists th', nth_error (c_threads c') t = Some th' /\
    let p' := set_out p (f_out p) (f_acc p + inc_of (cb_of (f_call p)) r)%Z in
    (t_stack th' = set_pc p' Range_iter :: rest /\ t_results th' = t_results th) \/
    (t_results th' = t_results th ++ [RRange (f_out p) (f_acc p + inc_of (cb_of (f_call p)) r)%Z]).
Proof. exact nested_return_counted. Qed.
Print Assumptions C05_nested_return_counted.

(* (b) the conservation law with AddSet / RemoveSet. [total j h] = over the
   completed top-level calls of history h: +1 per Add into j that reported
   "added", -1 per Remove from j that reported "removed", +cnt per completed
   AddSet into j, -cnt per completed RemoveSet from j ([contrib]); [pendingT j c]
   = over the calls in flight: the running count of every AddSet (+) / RemoveSet
   (-) of j and the decided but unreported effect of every Add / Remove of j,
   nested or not. Their sum is the number of members of j, in EVERY reachable
   configuration. *)
Theorem C05_set_counts : forall zs progs sched j i,
  Forall (Forall sfrag) progs ->
  let c := run_schedule (init_config_z zs progs) sched in
  nth_error (c_insts c) j = Some i ->
  exists D : gset Z, (forall k, k ∈ D <-> abs_lookup (i_st i) k <> None) /\
                     (total j (c_hist c) + pendingT j c = Z.of_nat (size D))%Z.
Proof. exact set_counts. Qed.
Print Assumptions C05_set_counts.

(* ... and with no call in progress: successful Adds + AddSet counts - successful
   Removes - RemoveSet counts = number of members. *)
Theorem C05_set_counts_quiescent : forall zs progs sched j i,
  Forall (Forall sfrag) progs ->
  let c := run_schedule (init_config_z zs progs) sched in
  nth_error (c_insts c) j = Some i -> finished c = true ->
  exists D : gset Z, (forall k, k ∈ D <-> abs_lookup (i_st i) k <> None) /\ total j (c_hist c) = Z.of_nat (size D).
Proof. exact set_counts_quiescent. Qed.
Print Assumptions C05_set_counts_quiescent.

(* (c) Len (programs of Has / Add / Remove / Len / stopping Ranges on one set,
   [rfrag]; the call in question, the i-th call of thread t, is Len, i.e. a
   Range whose callback only counts and never stops): if the set's contents are one map m throughout the Len
   call's interval - in particular at quiescence - Len returns its size. (Under
   concurrent updates Len counts each key at most once, only keys present at
   some moment of the call, and every key present throughout: C04_range_*.) *)
Theorem C05_len_constant : forall z progs sched t th i out cnt (m : gmap Z Z),
  Forall (Forall rfrag) progs ->
  (exists p, nth_error progs t = Some p /\ nth_error p i = Some (CRange 0 (CbStop None))) ->
  let c := run_schedule (init_config_z [z] progs) sched in
  nth_error (c_threads c) t = Some th -> nth_error (t_results th) i = Some (RRange out cnt) ->
  (forall x, In x (steps_from (init_config_z [z] progs) sched) -> in_call_at x t i -> forall k, abs_lookup (st0 x.1) k = m !! k) ->
  cnt = Z.of_nat (size m).
Proof. exact len_constant. Qed.
Print Assumptions C05_len_constant.

(* Non-vacuity: sets 0 (receiver) and 1 (argument). G0: Add 5 to set 1, then
   set0.AddSet(set1); G1: set0.AddSet(set1). The two AddSets overlap on value 5:
   G0's nested Add inserts 5 (while G1's nested Add waits for the lock) and G0's
   AddSet returns 1; G1's nested Add then finds 5 and G1's AddSet returns 0:
   exactly one of them counts it. In between (first view) G0's nested Add has
   stored but not yet reported: total 0, in flight 1, one member. *)
Definition cnt_progs : list (list call) :=
  [[CLoadOrStore 1 5 0 PNone; CRange 1 (CbAdd 0)]; [CRange 1 (CbAdd 0)]]%Z.
Definition cnt_sch (l : list nat) : list (nat * Z) := map (fun t => (t, 5%Z)) l.
Definition cnt_view (c : config) :=
  (map t_results (c_threads c), total 0 (c_hist c), pendingT 0 c, map thread_label (c_threads c)).

Example C05_counts_example :
  let c1 := run_schedule (init_config_z [true; true] cnt_progs) (cnt_sch (repeat 0 6 ++ repeat 0 5 ++ [0;0] ++ [1;1;1] ++ repeat 0 5 ++ [1])) in
  let c2 := run_schedule c1 (cnt_sch ([0] ++ repeat 1 5)) in
  cnt_view c1 = ([[RLos 0 false]; []], 0, 1, [Some LOS_unlock; Some LOS_lock])%Z /\
  cnt_view c2 = ([[RLos 0 false; RRange [(5, 0)] 1]; [RRange [(5, 0)] 0]], 1, 0, [None; None])%Z /\
  map (fun i => abs_lookup (i_st i) 5%Z) (c_insts c2) = [Some 0%Z; Some 0%Z] /\
  finished c2 = true /\ Forall (Forall sfrag) cnt_progs.
Proof. vm_compute. repeat split; repeat constructor. Qed.

(* Non-vacuity of C05_len_constant: one goroutine runs Add 5; Add 7; Len. Its
   third call (i = 2) is Len, the contents are {5, 7} in every configuration of
   the Len call ([stable_map_check]: by computation), and Len returns 2. *)
Definition len_progs : list (list call) := [[CLoadOrStore 0 5 0 PNone; CLoadOrStore 0 7 0 PNone; CRange 0 (CbStop None)]]%Z.
Definition len_sched : list (nat * Z) := concat (repeat [(0, 5%Z); (0, 7%Z)] 30).
Example C05_len_example :
  let c := run_schedule (init_config_z [true] len_progs) len_sched in
  Forall (Forall rfrag) len_progs /\
  (exists p, nth_error len_progs 0 = Some p /\ nth_error p 2 = Some (CRange 0 (CbStop None))) /\
  map t_results (c_threads c) = [[RLos 0 false; RLos 0 false; RRange [(7, 0); (5, 0)] 2]]%Z /\
  (forall x, In x (steps_from (init_config_z [true] len_progs) len_sched) -> in_call_at x 0 2 ->
     forall k, abs_lookup (st0 x.1) k = ({[5 := 0; 7 := 0]} : gmap Z Z) !! k)%Z /\
  size ({[5 := 0; 7 := 0]} : gmap Z Z)%Z = 2.
Proof.
  cbv zeta. split; [repeat constructor|]. split; [eexists; split; reflexivity|]. split; [vm_compute; reflexivity|].
  split; [apply stable_map_check; vm_compute; reflexivity|vm_compute; reflexivity].
Qed.

(* Non-vacuity of C05_nested_return_counted: the configuration c1 of
   C05_counts_example - G0 is inside set0.AddSet(set1), its nested Add 5 (child
   frame, on top of the Range frame p) has stored and is about to return
   "added": all hypotheses hold, the step returns RLos 0 false, inc_of = 1. *)
Example C05_nested_example :
  let c1 := run_schedule (init_config_z [true; true] cnt_progs) (cnt_sch (repeat 0 6 ++ repeat 0 5 ++ [0;0] ++ [1;1;1] ++ repeat 0 5 ++ [1])) in
  exists c' th child p rest r i i',
    step c1 0 5%Z = Some c' /\ c_panicked c1 = false /\
    nth_error (c_threads c1) 0 = Some th /\ t_stack th = child :: p :: rest /\
    is_post_label (f_pc child) = false /\ f_call child = CLoadOrStore 0 5 0 PNone /\ f_call p = CRange 1 (CbAdd 0) /\
    nth_error (c_insts c1) (call_inst (f_call child)) = Some i /\ step_frame 0 i child 5%Z = Some (Ok (i', Return r)) /\
    r = RLos 0 false /\ inc_of (cb_of (f_call p)) r = 1%Z.
Proof.
  cbv zeta.
  match eval vm_compute in (run_schedule (init_config_z [true; true] cnt_progs) (cnt_sch (repeat 0 6 ++ repeat 0 5 ++ [0;0] ++ [1;1;1] ++ repeat 0 5 ++ [1]))) with
  | ?c1 =>
    match eval vm_compute in (step c1 0 5%Z, nth_error (c_threads c1) 0) with
    | (Some ?c', Some ?th) =>
      match eval vm_compute in (t_stack th) with
      | ?child :: ?p :: ?rest =>
        match eval vm_compute in (nth_error (c_insts c1) (call_inst (f_call child))) with
        | Some ?i =>
          match eval vm_compute in (step_frame 0 i child 5%Z) with
          | Some (Ok (?i', Return ?r)) => exists c', th, child, p, rest, r, i, i'
          end
        end
      end
    end
  end.
  repeat split; vm_compute; reflexivity.
Qed.
