(* C05 — sync2.Set is an atomic set under concurrent use.
   Model: SyncMap/Model.v (Add = LoadOrStore(v, unit) reporting !loaded,
   Remove = LoadAndDelete, Has = Load, AddSet/RemoveSet = Range over the argument
   with a nested Add/Remove per element, Len = counting Range).

   PARTIAL. Proved here: the law that turns linearizability into the statement
   of the property — in every legal sequential history of a set, for each value
   the successful Adds and Removes alternate starting with an Add, their balance
   is the final membership (0 or 1), and a Has that reports true is preceded by a
   successful Add. A linearization is by definition consistent with real time,
   so this is exactly "alternate ... in an order consistent with real time".
   NOT yet proved: that every history of the small-step machine is linearizable
   to the set specification (C04's linearizability theorem; the concurrent
   invariants are under way in SyncMap/Inv.v). Until then the concurrent part is
   carried by controlled-schedule trace validation against the model plus the
   brute-force per-set linearizability oracle and the conservation check of
   harness/c05. *)
From Typ Require Import SyncMap.SetSpec.
From stdpp Require Import gmap.

Theorem C05_seq_alternation : forall (v : Z) (h : list sop), legal ∅ h ->
  alternates true (succ_events v h) /\
  (count_true (succ_events v h) - count_false (succ_events v h) = (if bool_decide (v ∈ final ∅ h) then 1 else 0))%Z.
Proof. exact seq_alternation. Qed.
Print Assumptions C05_seq_alternation.

Theorem C05_has_sound : forall (v : Z) (s : gset Z) (pre : list sop),
  legal s (pre ++ [SHas v true]) -> v ∉ s -> In true (succ_events v pre).
Proof. exact has_true_after_add. Qed.
Print Assumptions C05_has_sound.

(* Non-vacuity: a legal history with two successful Adds and one Remove of 5. *)
Example C05_example :
  legal ∅ [SAdd 5 true; SAdd 5 false; SHas 5 true; SRemove 5 true; SRemove 5 false; SAdd 5 true]%Z /\
  succ_events 5 [SAdd 5 true; SAdd 5 false; SHas 5 true; SRemove 5 true; SRemove 5 false; SAdd 5 true]%Z = [true; false; true].
Proof. split; [|reflexivity]. simpl. repeat split; symmetry; try (apply bool_decide_eq_true; set_solver); try (apply bool_decide_eq_false; set_solver). Qed.

(* ------------------------------------------------------------------ *)
(* Concurrent part: per-value conservation over ALL interleavings.     *)
(* ------------------------------------------------------------------ *)
(* Proved on the small-step model SyncMap/Model.v (validated against the real
   code by trace replay) for every number of sets, every list of programs made
   of Has = Load, Add = LoadOrStore, Remove = LoadAndDelete ([frag]; any
   length, any number of goroutines) and every schedule, i.e. in EVERY
   reachable configuration, for every set j and value k:

     (number of Adds of k that reported "added")         [stored]
   - (number of Removes of k that reported "removed")    [deleted]
   + (effects of calls in flight, decided but not yet reported: +1 for an Add
      past its deciding step, -1 for a Remove that took k's entry out of the
      dirty map)                                          [pending]
   = 1 if k is in the set, else 0.

   So successful Adds and Removes of a value can never get ahead of one another
   by more than the calls in flight, whatever the interleaving; and when all
   goroutines are done the balance IS the membership (second theorem). Uses the
   concurrent invariants of SyncMap/Inv.v and the entry-reference discipline of
   SyncMap/SetAtomic.v (part A). Not covered here: AddSet / RemoveSet / Len
   (Range with a nested call) and the real-time order of the alternation
   (needs the linearizability theorem of C04). *)
From Typ Require Import SyncMap.Model SyncMap.Inv SyncMap.SetAtomic.

Theorem C05_conservation : forall n progs sched j k i,
  Forall (Forall frag) progs ->
  let c := run_schedule (init_config n progs) sched in
  nth_error (c_insts c) j = Some i ->
  (stored j k (c_hist c) - deleted j k (c_hist c) + pending j k c = Aof (i_st i) k)%Z.
Proof. exact conservation. Qed.
Print Assumptions C05_conservation.

Theorem C05_conservation_quiescent : forall n progs sched j k i,
  Forall (Forall frag) progs ->
  let c := run_schedule (init_config n progs) sched in
  nth_error (c_insts c) j = Some i -> finished c = true ->
  (stored j k (c_hist c) - deleted j k (c_hist c) = Aof (i_st i) k)%Z.
Proof. exact conservation_quiescent. Qed.
Print Assumptions C05_conservation_quiescent.

(* Non-vacuity: G0 = Add 5; Remove 5 and G1 = Add 5; Has 5 on one set. The
   Remove takes 5's entry out of the dirty map (pending = -1, 5 is absent),
   G1's Add then re-adds 5 and reports "added" BEFORE the Remove has reported
   (stored = 2, deleted = 0, pending = -1, 5 present), then the Remove reports. *)
Definition c05_progs : list (list call) :=
  [[CLoadOrStore 0 5 0 PNone; CLoadAndDelete 0 5]; [CLoadOrStore 0 5 0 PNone; CLoad 0 5]]%Z.
Definition c05_sch (l : list nat) : list (nat * Z) := map (fun t => (t, 0%Z)) l.
Definition c05_view (c : config) :=
  (stored 0 5 (c_hist c), deleted 0 5 (c_hist c), pending 0 5 c, map (fun i => Aof (i_st i) 5) (c_insts c),
   map thread_label (c_threads c)).

Example C05_conservation_example :
  let c1 := run_schedule (init_config 1 c05_progs) (c05_sch [0;0;0;0;0]) in    (* G0's Add has inserted, not yet unlocked *)
  let c2 := run_schedule c1 (c05_sch [0; 0;0;0;0;0]) in                        (* Add returns; Remove: read1 lock read2 promote unlock *)
  let c3 := run_schedule c2 (c05_sch [1;1;1;1;1;1]) in                         (* G1's Add, complete *)
  let c4 := run_schedule c3 (c05_sch [0;0; 1;1;1;1;1;1]) in                    (* Remove's delete.load, delete.cas; G1's Has *)
  c05_view c1 = (0, 0, 1, [1], [Some LOS_unlock; Some LOS_read1])%Z /\
  c05_view c2 = (1, 0, -1, [0], [Some Delete_load; Some LOS_read1])%Z /\
  c05_view c3 = (2, 0, -1, [1], [Some Delete_load; Some Load_read1])%Z /\
  c05_view c4 = (2, 1, 0, [1], [None; None])%Z /\
  finished c4 = true /\ map t_results (c_threads c4) = [[RLos 0 false; ROpt (Some 0)]; [RLos 0 false; ROpt (Some 0)]]%Z /\
  Forall (Forall frag) c05_progs.
Proof. vm_compute. repeat split; repeat constructor. Qed.

(* ------------------------------------------------------------------ *)
(* sync2.Set is an atomic set: linearizability to the SET specification *)
(* ------------------------------------------------------------------ *)
(* For every list of programs of Add (LoadOrStore(v, struct{}{}), the unit value
   modelled by 0), Remove (LoadAndDelete) and Has (Load) on one Set ([set_frag];
   any number of goroutines, any length) and every schedule of the small-step
   model: the history of invocations and responses is linearizable (Lib/Lin.v)
   to the sequential set [set_spec] (Add reports loaded = "was present", Remove
   and Has report membership). Derived from C04_linearizable by a simulation
   (SyncMap/SetLin.v). *)
From Typ Require Import Lib.Lin SyncMap.Linearizable SyncMap.SetLin.

Theorem C05_set_linearizable : forall progs sched,
  Forall (Forall set_frag) progs ->
  linearizable set_spec ∅ (map_hist (run_schedule (init_config 1 progs) sched)).
Proof. exact set_linearizable. Qed.
Print Assumptions C05_set_linearizable.

(* The statement of the property: there is a linearization order [o] of the
   calls (one marker per call, placed between its invocation and its response:
   [poss_ord], so [o] is consistent with real-time order) such that
   - every response in the history is the result its call has in [o], and [o]
     only contains calls the history invoked;
   - read as a sequential history, [o] is a legal history of a set that starts
     empty ([legal ∅], SetSpec.v) and ends in the present contents [s] of the
     Set (v ∈ s iff the underlying Map holds v); once all goroutines are done
     every call has its marker;
   - hence, for every value, the successful Adds and Removes alternate in that
     order, starting with an Add, and #successful Adds - #successful Removes is
     the value's membership (0 or 1): two Adds (or two Removes) of one value
     that both succeed are always separated by a successful Remove (Add). *)
Theorem C05_atomic_set : forall progs sched,
  Forall (Forall set_frag) progs ->
  let c := run_schedule (init_config 1 progs) sched in
  exists (s : gset Z) (P : nat -> option (call * option res)) (o : list (nat * call * res)),
    poss_ord set_spec ∅ (rev (map_hist c)) s P o /\
    (forall v, v ∈ s <-> abs_lookup (st0 c) v <> None) /\
    (finished c = true -> forall t, P t = None) /\
    (forall t r, In (HRes t r) (map_hist c) -> exists c0, In (t, c0, r) o) /\
    (forall t c0 r, In (t, c0, r) o -> In (HInv t c0) (map_hist c)) /\
    legal ∅ (sops o) /\ final ∅ (sops o) = s /\
    forall v, alternates true (succ_events v (sops o)) /\
              (count_true (succ_events v (sops o)) - count_false (succ_events v (sops o)) =
               if bool_decide (v ∈ s) then 1 else 0)%Z.
Proof. exact set_atomic. Qed.
Print Assumptions C05_atomic_set.

(* Non-vacuity: the programs of C05_conservation_example are Set programs, and
   in that run G1's Add overlaps G0's Remove (its response comes while the
   Remove is still in flight). *)
Example C05_atomic_set_example :
  Forall (Forall set_frag) c05_progs /\
  map_hist (run_schedule (init_config 1 c05_progs)
              (c05_sch ([0;0;0;0;0] ++ [0; 0;0;0;0;0] ++ [1;1;1;1;1;1] ++ [0;0; 1;1;1;1;1;1]))) =
    [HInv 0 (CLoadOrStore 0 5 0 PNone); HRes 0 (RLos 0 false);
     HInv 0 (CLoadAndDelete 0 5);
     HInv 1 (CLoadOrStore 0 5 0 PNone); HRes 1 (RLos 0 false);
     HRes 0 (ROpt (Some 0));
     HInv 1 (CLoad 0 5); HRes 1 (ROpt (Some 0))]%Z.
Proof. split; [repeat constructor|vm_compute; reflexivity]. Qed.
