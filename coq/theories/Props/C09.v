(* C09 — Keyed mutexes: per-key mutual exclusion, cross-key independence.
   Model: SyncMap/Model.v (LockKey k = the steps of LoadOrStore(k, fresh mutex)
   followed by one step on the returned mutex; sync.Mutex / sync.RWMutex are the
   trusted abstract machine [umutex]).

   PARTIAL. Proved here: everything the property says about the step on the
   key's mutex (Try* never block and report exactly whether the mutex was free;
   Lock is enabled exactly when the mutex is free; a mutex step reads and writes
   only the mutex of its own key, so holding or waiting for another key's mutex
   can neither delay nor fail it).
   NOT yet proved: [C09_one_mutex_per_key] — in runs without ClearKey all
   LoadOrStore calls for one key return the same mutex (needs the concurrent
   invariants of sync2.Map, under way in SyncMap/Inv.v); hence
   [C09_mutual_exclusion] per KEY is currently carried by the controlled-schedule
   trace validation plus the per-key occupancy oracle of harness/c09 only.
     C09_one_mutex_per_key (to prove):
       forall n progs sched (all calls CLoadOrStore 0 k v p), in
       run_schedule (init_config 1 progs) sched, any two completed calls for the
       same key k have f_los.1 equal. *)
From Typ Require Import SyncMap.Model SyncMap.KeyedMutex.

Theorem C09_try_never_blocks : forall um f, is_try (f_pc f) = true -> step_post um f <> None.
Proof. exact try_never_blocks. Qed.
Print Assumptions C09_try_never_blocks.

Theorem C09_try_lock_result : forall um f, (f_pc f = KM_TryLock \/ f_pc f = KRW_TryLock) ->
  exists um', step_post um f = Some (Ok (um', Return (RBool (free_for_writer (mstate_of um f))))) /\
    (free_for_writer (mstate_of um f) = true -> um' = <[mutex_of f := ULocked]> um) /\
    (free_for_writer (mstate_of um f) = false -> um' = um).
Proof. exact try_lock_result. Qed.
Print Assumptions C09_try_lock_result.

Theorem C09_try_rlock_result : forall um f, f_pc f = KRW_TryRLock ->
  exists um', step_post um f = Some (Ok (um', Return (RBool (free_for_reader (mstate_of um f))))) /\
    (free_for_reader (mstate_of um f) = false -> um' = um) /\
    (free_for_reader (mstate_of um f) = true ->
       um' !! mutex_of f <> Some ULocked /\ um' !! mutex_of f <> Some UFree /\ um' !! mutex_of f <> None).
Proof. exact try_rlock_result. Qed.
Print Assumptions C09_try_rlock_result.

Theorem C09_lock_enabled_iff_free : forall um f, is_excl_lock (f_pc f) = true ->
  (step_post um f <> None <-> free_for_writer (mstate_of um f) = true) /\
  (forall r, step_post um f = Some r -> r = Ok (<[mutex_of f := ULocked]> um, Return RUnit)).
Proof. exact lock_enabled_iff_free. Qed.
Print Assumptions C09_lock_enabled_iff_free.

Theorem C09_rlock_enabled_iff_no_writer : forall um f, f_pc f = KRW_RLock ->
  (step_post um f <> None <-> free_for_reader (mstate_of um f) = true).
Proof. exact rlock_enabled_iff_no_writer. Qed.
Print Assumptions C09_rlock_enabled_iff_no_writer.

(* cross-key independence at the mutex level *)
Theorem C09_mutex_step_frame : forall um f um' o m,
  step_post um f = Some (Ok (um', o)) -> m <> mutex_of f -> um' !! m = um !! m.
Proof. exact step_post_frame. Qed.
Print Assumptions C09_mutex_step_frame.

Theorem C09_enabledness_depends_on_own_mutex : forall um1 um2 f,
  um1 !! mutex_of f = um2 !! mutex_of f -> (step_post um1 f = None <-> step_post um2 f = None).
Proof. exact step_post_depends_on_own_mutex. Qed.
Print Assumptions C09_enabledness_depends_on_own_mutex.

(* Non-vacuity: two threads race LockKey on a never-seen key; a schedule in which
   thread 1 is blocked at KM_Lock while thread 0 holds the mutex. *)
Example C09_example :
  let progs := [[CLoadOrStore 0 7 1001 PLock]; [CLoadOrStore 0 7 2001 PLock]] in
  let c := run_schedule (init_config 1 progs)
             (repeat (0%nat, 0%Z) 12 ++ repeat (1%nat, 0%Z) 12) in
  map t_results (c_threads c) = [[RUnit]; []] /\
  map thread_label (c_threads c) = [None; Some KM_Lock] /\
  step c 1 0 = None.
Proof. vm_compute. repeat split. Qed.
