(* C09 — Keyed mutexes: per-key mutual exclusion, cross-key independence.
   Model: SyncMap/Model.v (LockKey k = the steps of LoadOrStore(k, fresh mutex)
   followed by one step on the returned mutex; sync.Mutex / sync.RWMutex are the
   trusted abstract machine [umutex]).

   Proved here, for ALL programs and ALL schedules (any number of goroutines,
   keys and calls; the granularity is the atomic steps of the underlying map):
   (a) facts of the abstract mutex machine (one atomic step per mutex operation,
       no queue of waiters): the Try* STEP is always enabled and reports whether
       the machine's mutex was free; Lock's step is enabled exactly when the
       machine's mutex is free; a mutex step reads and writes only the mutex of
       its own key, so holding or waiting for another key's mutex can neither
       delay nor fail it. What these mean for the real sync.Mutex / sync.RWMutex
       is said by (c)-(e): "fails / waits while held" unconditionally, "succeeds"
       only for a free AND UNCONTENDED key;
   (b) [C09_one_mutex_per_key]: in runs without ClearKey (programs of
       LoadOrStore-based keyed-mutex calls and Loads on one Map) every
       LoadOrStore of a key returns the same mutex, under every interleaving,
       including the first simultaneous use of a never-seen key - from the
       insert-only invariants of SyncMap/InsertOnly.v (no entry is ever nil or
       expunged, entries never change, the key -> entry association is
       functional and survives promotion and dirtyLocked's copy), which build on
       the structural invariant of SyncMap/Inv.v;
   (c) [C09_mutual_exclusion] per KEY: with "t holds k" defined from the history
       (completed LockKey / successful TryLockKey not yet followed by a completed
       UnlockKey of t on k; likewise shared), at most one thread holds k
       exclusively and nobody holds it shared meanwhile, and the key's mutex is
       then locked - for runs in which a thread only unlocks what it holds
       ([disc_from]: whenever the schedule picks a thread that stands at the
       Unlock/RUnlock step of a call on key k, that thread holds k; the harness
       generates only such programs, TryLock results included);
   (d) the same at the level of KEYS: TryLockKey/TryRLockKey fail while the key
       is held incompatibly, and succeed (and then hold it) when the key is free
       AND UNCONTENDED; LockKey's/RLockKey's mutex step is disabled while the key
       is held incompatibly and enabled as soon as the key is free and
       uncontended, whatever OTHER keys are held or awaited; the Try* step can
       always be taken; disciplined runs never panic. "Uncontended" is the
       explicit hypothesis [quiet c t k] (SyncMap/Uncontended.v): no other thread
       stands at ANY mutex-operation step of a call on k. It is needed for Go:
       sync.RWMutex refuses readers while a writer waits, sync.Mutex.TryLock may
       fail with queued waiters, and RWMutex.TryLock/Unlock are not atomic. The
       "succeeds" halves also assume fresh mutexes ([fresh_values]: calls on
       different keys carry different values, as in the code, where every call
       allocates a new mutex).
   ClearKey (Delete on the map): Props/C09ck.v proves per-key mutual exclusion for
   runs WITH ClearKey, under the property's own proviso (ClearKey(k) only while
   nobody holds or awaits k). The theorems of THIS file are about programs
   without ClearKey: after a ClearKey the key gets a new mutex, so (b) cannot
   hold across it.
   (e) cross-key PROGRESS as a bound (SyncMap/Progress.v): a thread that cannot
       take a step is waiting for the Map's internal mutex m.mu held by ANOTHER
       thread, or stands at the blocking Lock/RLock step of key k while k itself
       is held incompatibly or contended; the holder of m.mu can always take a step and
       releases m.mu within 3 * (keys of the read map) + 6 of its own steps,
       whatever the others do. Holding or awaiting other keys appears nowhere. *)
From Typ Require Import SyncMap.Model SyncMap.Inv SyncMap.KeyedMutex SyncMap.InsertOnly SyncMap.Progress SyncMap.Uncontended.

(* ---- facts of the queue-less, one-step-per-operation mutex machine [step_post] of the model (for what
   they mean for the real sync mutexes see the key-level theorems below) ---- *)
Theorem C09_try_never_blocks : forall um f, is_try (f_pc f) = true -> step_post um f <> None.
Proof. exact try_never_blocks. Qed.
Print Assumptions C09_try_never_blocks.

Theorem C09_try_lock_result : forall um f, (f_pc f = KM_TryLock \/ f_pc f = KRW_TryLock) ->
  exists um', step_post um f = Some (Ok (um', Return (RBool (free_for_writer (mstate_of um f))))) /\
    (free_for_writer (mstate_of um f) = true -> um' = <[mutex_of f := ULocked]> um) /\
    (free_for_writer (mstate_of um f) = false -> um' = um).
Proof. exact try_lock_result. Qed.
Print Assumptions C09_try_lock_result.

Theorem C09_try_rlock_result : forall um f, f_pc f = KRW_TryRLock ->
  exists um', step_post um f = Some (Ok (um', Return (RBool (free_for_reader (mstate_of um f))))) /\
    (free_for_reader (mstate_of um f) = false -> um' = um) /\
    (free_for_reader (mstate_of um f) = true ->
       um' !! mutex_of f <> Some ULocked /\ um' !! mutex_of f <> Some UFree /\ um' !! mutex_of f <> None).
Proof. exact try_rlock_result. Qed.
Print Assumptions C09_try_rlock_result.

Theorem C09_lock_enabled_iff_free : forall um f, is_excl_lock (f_pc f) = true ->
  (step_post um f <> None <-> free_for_writer (mstate_of um f) = true) /\
  (forall r, step_post um f = Some r -> r = Ok (<[mutex_of f := ULocked]> um, Return RUnit)).
Proof. exact lock_enabled_iff_free. Qed.
Print Assumptions C09_lock_enabled_iff_free.

Theorem C09_rlock_enabled_iff_no_writer : forall um f, f_pc f = KRW_RLock ->
  (step_post um f <> None <-> free_for_reader (mstate_of um f) = true).
Proof. exact rlock_enabled_iff_no_writer. Qed.
Print Assumptions C09_rlock_enabled_iff_no_writer.

(* cross-key independence at the mutex level *)
Theorem C09_mutex_step_frame : forall um f um' o m,
  step_post um f = Some (Ok (um', o)) -> m <> mutex_of f -> um' !! m = um !! m.
Proof. exact step_post_frame. Qed.
Print Assumptions C09_mutex_step_frame.

Theorem C09_enabledness_depends_on_own_mutex : forall um1 um2 f,
  um1 !! mutex_of f = um2 !! mutex_of f -> (step_post um1 f = None <-> step_post um2 f = None).
Proof. exact step_post_depends_on_own_mutex. Qed.
Print Assumptions C09_enabledness_depends_on_own_mutex.

(* Non-vacuity: two threads race LockKey on a never-seen key; a schedule in which
   thread 1 is blocked at KM_Lock while thread 0 holds the mutex. *)
Example C09_example :
  let progs := [[CLoadOrStore 0 7 1001 PLock]; [CLoadOrStore 0 7 2001 PLock]] in
  let c := run_schedule (init_config 1 progs)
             (repeat (0%nat, 0%Z) 12 ++ repeat (1%nat, 0%Z) 12) in
  map t_results (c_threads c) = [[RUnit]; []] /\
  map thread_label (c_threads c) = [None; Some KM_Lock] /\
  step c 1 0 = None.
Proof. vm_compute. repeat split. Qed.

(* ================= one mutex per key, per-key mutual exclusion ================= *)
(* Programs: one Map (instance 0), calls CLoad 0 k and CLoadOrStore 0 k v p with any post action p,
   i.e. all eight keyed-mutex methods except ClearKey ([io_progs]). *)

(* no entry is ever nil or expunged ... *)
Theorem C09_entries_are_values : forall progs sched i e p, io_progs progs ->
  c_insts (run_schedule (init_config 1 progs) sched) = [i] ->
  ents (i_st i) !! e = Some p -> e < next_e (i_st i) /\ exists v, p = PVal v.
Proof. exact io_entries_are_values. Qed.
Print Assumptions C09_entries_are_values.

(* ... and an entry's value never changes once created *)
Theorem C09_entries_never_change : forall progs s1 s2 i1 i2 e p, io_progs progs ->
  c_insts (run_schedule (init_config 1 progs) s1) = [i1] ->
  c_insts (run_schedule (init_config 1 progs) (s1 ++ s2)) = [i2] ->
  ents (i_st i1) !! e = Some p -> ents (i_st i2) !! e = Some p.
Proof. exact io_entries_never_change. Qed.
Print Assumptions C09_entries_never_change.

(* the key -> entry association (through read.m or through dirty) is functional ... *)
Theorem C09_assoc_functional : forall progs sched i k e1 e2, io_progs progs ->
  c_insts (run_schedule (init_config 1 progs) sched) = [i] ->
  reach_any (i_st i) k e1 -> reach_any (i_st i) k e2 -> e1 = e2.
Proof. exact io_assoc_functional. Qed.
Print Assumptions C09_assoc_functional.

(* ... and stable: once e is the entry of k it stays the entry of k forever *)
Theorem C09_assoc_stable : forall progs s1 s2 i1 i2 k e, io_progs progs ->
  c_insts (run_schedule (init_config 1 progs) s1) = [i1] ->
  c_insts (run_schedule (init_config 1 progs) (s1 ++ s2)) = [i2] ->
  reach_any (i_st i1) k e -> reach_any (i_st i2) k e.
Proof. exact io_assoc_stable. Qed.
Print Assumptions C09_assoc_stable.

(* the entry a frame holds locally for its key (wherever it will dereference it) is that entry *)
Theorem C09_frame_entry : forall progs sched i t f e, io_progs progs ->
  let c := run_schedule (init_config 1 progs) sched in
  c_insts c = [i] -> top_frame c t = Some f -> e_is_key (f_pc f) = true -> f_e f = Some e ->
  reach_any (i_st i) (key_of (f_call f)) e.
Proof. exact io_frame_entry. Qed.
Print Assumptions C09_frame_entry.

(* [observed c k m]: m is the value a LoadOrStore k obtained - visible in the frame of a keyed-mutex
   call that is about to act on the mutex, or as the result of a completed plain LoadOrStore - or the
   value a completed Load k returned. Any two observations for one key, made at any two moments of a
   run by any threads, agree. *)
Theorem C09_one_mutex_per_key : forall progs s1 s2 k m1 m2, io_progs progs ->
  observed (run_schedule (init_config 1 progs) s1) k m1 ->
  observed (run_schedule (init_config 1 progs) (s1 ++ s2)) k m2 -> m1 = m2.
Proof. exact one_value_per_key. Qed.
Print Assumptions C09_one_mutex_per_key.

(* ... and it is a value some LoadOrStore call of the programs supplied for that key (in the code: a mutex
   some call allocated) - never a default such as the 0 of tryLoadOrStore's unreachable expunged branch *)
Theorem C09_mutex_is_a_supplied_value : forall progs sched k m, io_progs progs ->
  observed (run_schedule (init_config 1 progs) sched) k m ->
  exists j p, In (CLoadOrStore j k m p) (concat progs).
Proof. exact observed_value_is_supplied. Qed.
Print Assumptions C09_mutex_is_a_supplied_value.

(* instance: in the race of C09_example_per_key below, thread 1 - whose own call supplied the mutex 2001 -
   stands at its Lock step with the mutex 1001 that thread 0's call supplied for key 7 *)
Example C09_example_supplied_value :
  let c := run_schedule (init_config 1 ex_progs) (ex_alt 10) in
  observed c 7 1001 /\ In (CLoadOrStore 0 7 1001 PLock) (concat ex_progs).
Proof.
  split; [|cbn; auto]. left. exists 1%nat.
  destruct (top_frame (run_schedule (init_config 1 ex_progs) (ex_alt 10)) 1) as [f|] eqn:E; [|vm_compute in E; discriminate].
  exists f. split; [reflexivity|]. vm_compute in E. injection E as <-. repeat split.
Qed.

(* [holds_excl c t k] / [holds_shared c t k]: computed from the history c_hist (see [holders]).
   [disc_from c0 sched]: whenever the schedule picks a thread that stands at the Unlock (RUnlock) step
   of a call on key k, that thread holds k exclusively (shared). *)
Theorem C09_mutual_exclusion : forall progs sched, io_progs progs -> disc_from (init_config 1 progs) sched ->
  let c := run_schedule (init_config 1 progs) sched in
  forall k t1 t2, holds_excl c t1 k -> (holds_excl c t2 k -> t1 = t2) /\ ~ holds_shared c t2 k.
Proof. exact keyed_mutual_exclusion. Qed.
Print Assumptions C09_mutual_exclusion.

(* while k is held exclusively its mutex - the value every LoadOrStore k returns - is locked, so every
   TryLockKey / TryRLockKey of k fails and every LockKey / RLockKey of k waits (by the theorems above) *)
Theorem C09_holder_locks_mutex : forall progs sched, io_progs progs -> disc_from (init_config 1 progs) sched ->
  let c := run_schedule (init_config 1 progs) sched in
  forall k t m, holds_excl c t k -> key_value c k m -> c_um c !! m = Some ULocked.
Proof. exact keyed_holder_locks_mutex. Qed.
Print Assumptions C09_holder_locks_mutex.

(* A condition on the PROGRAMS that implies the discipline under every schedule: in each thread's
   program every UnlockKey(k) / RUnlockKey(k) is preceded by a blocking LockKey(k) / RLockKey(k) of the
   same thread that no earlier Unlock/RUnlock has consumed ([balanced]; keys obtained through Try* are
   not counted, so such programs never unlock them - for programs that do, use [disc_from]). *)
Theorem C09_balanced_programs_are_disciplined : forall progs sched,
  io_progs progs -> balanced progs -> disc_from (init_config 1 progs) sched.
Proof. exact balanced_disciplined. Qed.
Print Assumptions C09_balanced_programs_are_disciplined.

Theorem C09_mutual_exclusion_balanced : forall progs sched, io_progs progs -> balanced progs ->
  let c := run_schedule (init_config 1 progs) sched in
  forall k t1 t2, holds_excl c t1 k -> (holds_excl c t2 k -> t1 = t2) /\ ~ holds_shared c t2 k.
Proof. exact keyed_mutual_exclusion_balanced. Qed.
Print Assumptions C09_mutual_exclusion_balanced.

(* ================= Try*/Lock at the level of keys ================= *)
(* A disciplined run never panics (no unlock of an unlocked mutex). *)
Theorem C09_disciplined_no_panic : forall progs sched, io_progs progs -> disc_from (init_config 1 progs) sched ->
  c_panicked (run_schedule (init_config 1 progs) sched) = false.
Proof. exact disciplined_no_panic. Qed.
Print Assumptions C09_disciplined_no_panic.

(* TryLockKey(k): thread t stands at the TryLock step of a call on k. While k is held - in any mode, by
   anybody - the step completes the call with false, acquires nothing and leaves every mutex alone. *)
Theorem C09_trylock_fails_while_held : forall progs sched t ch c' f t2 b2,
  io_progs progs -> disc_from (init_config 1 progs) sched ->
  let c := run_schedule (init_config 1 progs) sched in
  top_frame c t = Some f -> (f_pc f = KM_TryLock \/ f_pc f = KRW_TryLock) ->
  (t2, key_of (f_call f), b2) ∈ holders c ->
  step c t ch = Some c' ->
  completed (c_hist c') = completed (c_hist c) ++ [(t, f_call f, RBool false)] /\ c_um c' = c_um c /\ holders c' = holders c.
Proof. exact trylock_fails_while_held. Qed.
Print Assumptions C09_trylock_fails_while_held.

Theorem C09_tryrlock_fails_while_write_held : forall progs sched t ch c' f t2,
  io_progs progs -> disc_from (init_config 1 progs) sched ->
  let c := run_schedule (init_config 1 progs) sched in
  top_frame c t = Some f -> f_pc f = KRW_TryRLock ->
  holds_excl c t2 (key_of (f_call f)) ->
  step c t ch = Some c' ->
  completed (c_hist c') = completed (c_hist c) ++ [(t, f_call f, RBool false)] /\ c_um c' = c_um c /\ holders c' = holders c.
Proof. exact tryrlock_fails_while_write_held. Qed.
Print Assumptions C09_tryrlock_fails_while_write_held.

(* "Succeed when the key is FREE AND UNCONTENDED".
   [fresh_values progs]: calls on different keys carry different mutexes (in the code every call allocates a
   new one), so distinct keys have distinct mutexes.
   [quiet c t k]: no thread other than t stands at ANY mutex-operation step (Lock, TryLock, Unlock, RLock,
   TryRLock, RUnlock) of a call on k, i.e. nobody else is operating on, or queued at, k's mutex. This
   hypothesis is needed for Go: sync.RWMutex refuses new readers (TryRLock false, RLock blocks) while a
   writer WAITS, sync.Mutex.TryLock may fail on a free mutex with queued waiters (starvation mode), and
   sync.RWMutex.TryLock / Unlock are several atomic operations, so a TryLock overlapping another goroutine's
   failing TryLock or the tail of its Unlock may fail on a free mutex. The trusted mutex machine of the model
   takes each operation as one step and has no queue, so in the MODEL these theorems hold without the
   hypothesis (the [_machine] lemmas of SyncMap/InsertOnly.v, not property theorems). *)
Theorem C09_trylock_succeeds_when_key_free : forall progs sched,
  io_progs progs -> disc_from (init_config 1 progs) sched -> fresh_values progs ->
  let c := run_schedule (init_config 1 progs) sched in
  forall t ch c' f,
  top_frame c t = Some f -> (f_pc f = KM_TryLock \/ f_pc f = KRW_TryLock) ->
  (forall t2 b, (t2, key_of (f_call f), b) ∉ holders c) -> quiet c t (key_of (f_call f)) ->
  step c t ch = Some c' ->
  completed (c_hist c') = completed (c_hist c) ++ [(t, f_call f, RBool true)] /\ holds_excl c' t (key_of (f_call f)).
Proof. exact trylock_succeeds_when_key_free. Qed.
Print Assumptions C09_trylock_succeeds_when_key_free.

Theorem C09_tryrlock_succeeds_when_key_not_write_held : forall progs sched,
  io_progs progs -> disc_from (init_config 1 progs) sched -> fresh_values progs ->
  let c := run_schedule (init_config 1 progs) sched in
  forall t ch c' f,
  top_frame c t = Some f -> f_pc f = KRW_TryRLock ->
  (forall t2, ~ holds_excl c t2 (key_of (f_call f))) -> quiet c t (key_of (f_call f)) ->
  step c t ch = Some c' ->
  completed (c_hist c') = completed (c_hist c) ++ [(t, f_call f, RBool true)] /\ holds_shared c' t (key_of (f_call f)).
Proof. exact tryrlock_succeeds_when_key_not_write_held. Qed.
Print Assumptions C09_tryrlock_succeeds_when_key_not_write_held.

(* ... and the Try* step itself can always be taken: it never blocks and completes the call with a boolean
   (TryLockKey as a whole may still have to wait for the Map's internal mutex inside its LoadOrStore: a
   bounded wait, see C09_mu_released_within_bound) *)
Theorem C09_try_step_enabled : forall progs sched,
  io_progs progs -> disc_from (init_config 1 progs) sched ->
  let c := run_schedule (init_config 1 progs) sched in
  forall t ch f, top_frame c t = Some f -> is_try (f_pc f) = true ->
  exists c' b, step c t ch = Some c' /\ completed (c_hist c') = completed (c_hist c) ++ [(t, f_call f, RBool b)].
Proof. exact try_step_enabled. Qed.
Print Assumptions C09_try_step_enabled.

(* LockKey(k) waits exactly while k is held: its mutex step is disabled while anybody holds k ... *)
Theorem C09_lock_waits_while_held : forall progs sched t ch f t2 b2,
  io_progs progs -> disc_from (init_config 1 progs) sched ->
  let c := run_schedule (init_config 1 progs) sched in
  top_frame c t = Some f -> (f_pc f = KM_Lock \/ f_pc f = KRW_Lock) ->
  (t2, key_of (f_call f), b2) ∈ holders c -> step c t ch = None.
Proof. exact lock_waits_while_held. Qed.
Print Assumptions C09_lock_waits_while_held.

(* ... and enabled - it then completes and holds k - as soon as nobody holds k and nobody else is queued
   for k, whatever OTHER keys are held or awaited by whomever (cross-key independence at the level of keys). *)
Theorem C09_lock_succeeds_when_key_free : forall progs sched,
  io_progs progs -> disc_from (init_config 1 progs) sched -> fresh_values progs ->
  let c := run_schedule (init_config 1 progs) sched in
  forall t ch f,
  top_frame c t = Some f -> (f_pc f = KM_Lock \/ f_pc f = KRW_Lock) ->
  (forall t2 b, (t2, key_of (f_call f), b) ∉ holders c) -> quiet c t (key_of (f_call f)) ->
  exists c', step c t ch = Some c' /\ completed (c_hist c') = completed (c_hist c) ++ [(t, f_call f, RUnit)] /\
             holds_excl c' t (key_of (f_call f)).
Proof. exact lock_succeeds_when_key_free. Qed.
Print Assumptions C09_lock_succeeds_when_key_free.

(* RLockKey(k): disabled while k is held exclusively; enabled - readers do not exclude each other - as
   soon as nobody holds k exclusively and no writer is queued for k, and then holds k shared. *)
Theorem C09_rlock_waits_while_write_held : forall progs sched t ch f t2,
  io_progs progs -> disc_from (init_config 1 progs) sched ->
  let c := run_schedule (init_config 1 progs) sched in
  top_frame c t = Some f -> f_pc f = KRW_RLock ->
  holds_excl c t2 (key_of (f_call f)) -> step c t ch = None.
Proof. exact rlock_waits_while_write_held. Qed.
Print Assumptions C09_rlock_waits_while_write_held.

Theorem C09_rlock_succeeds_when_key_not_write_held : forall progs sched,
  io_progs progs -> disc_from (init_config 1 progs) sched -> fresh_values progs ->
  let c := run_schedule (init_config 1 progs) sched in
  forall t ch f,
  top_frame c t = Some f -> f_pc f = KRW_RLock ->
  (forall t2, ~ holds_excl c t2 (key_of (f_call f))) -> quiet c t (key_of (f_call f)) ->
  exists c', step c t ch = Some c' /\ completed (c_hist c') = completed (c_hist c) ++ [(t, f_call f, RUnit)] /\
             holds_shared c' t (key_of (f_call f)).
Proof. exact rlock_succeeds_when_key_not_write_held. Qed.
Print Assumptions C09_rlock_succeeds_when_key_not_write_held.

(* Non-vacuity of [quiet]: TryLockKey(7) against LockKey(7); UnlockKey(7). In A thread 1 is through
   and thread 0 stands at its TryLock step with key 7 free and uncontended: the step returns true and
   thread 0 holds 7. In B both stand at their mutex step: key 7 is free but not quiet for thread 0 (thread 1
   stands at KM_Lock), the theorem does not apply - here Go's TryLock is allowed to fail. *)
Example C09_example_uncontended :
  disc_fromb (init_config 1 un_ex_progs) (un_ex_schedA ++ [(0%nat, 0%Z)]) = true /\
  (let c := run_schedule (init_config 1 un_ex_progs) un_ex_schedA in
   un_ex_obs c = ([Some KM_TryLock; None], [], true) /\
   option_map (fun c' => (holders c', list.last (completed (c_hist c')))) (step c 0 0) =
     Some ([(0%nat, 7%Z, true)], Some (0%nat, CLoadOrStore 0 7 1001 PTryLock, RBool true))) /\
  un_ex_obs (run_schedule (init_config 1 un_ex_progs) un_ex_schedB) = ([Some KM_TryLock; Some KM_Lock], [], false).
Proof. vm_compute. repeat split. Qed.

(* C09_try_step_enabled, instances: in A and in B thread 0's TryLock step can be taken (in B although thread 1
   stands at the Lock step of the same key). *)
Example C09_example_try_step_enabled :
  is_Some (step (run_schedule (init_config 1 un_ex_progs) un_ex_schedA) 0 0) /\
  is_Some (step (run_schedule (init_config 1 un_ex_progs) un_ex_schedB) 0 0).
Proof. split; vm_compute; eauto. Qed.

(* RW instances ([rw_ex_progs]: thread 0 RLockKey(7), thread 1 TryRLockKey(7), thread 2 LockKey(7), thread 3
   RLockKey(7)); thread 0 holds key 7 shared throughout.
   Q1: thread 1 stands at its TryRLock step, nobody else at a mutex step of key 7 (quiet), no writer holds 7:
       the step returns true and thread 1 holds 7 shared (C09_tryrlock_succeeds_when_key_not_write_held).
   Q3: the same for thread 3's blocking RLock step (C09_rlock_succeeds_when_key_not_write_held).
   W:  the writer (thread 2) stands at KRW_Lock - it has to wait for the reader - and thread 1 at its TryRLock
       step: key 7 is NOT quiet for thread 1. The queue-less machine still answers true; Go's RWMutex would
       answer false once the writer is queued. This is why the hypothesis is there. *)
Example C09_example_rw_quiet :
  disc_fromb (init_config 1 rw_ex_progs) (concat (map (fun tn : nat * nat => repeat (tn.1, 0%Z) tn.2) [(0, 7); (1, 6); (2, 2); (1, 1)]%nat)) = true /\
  (let c := rw_ex_run [(0, 7); (1, 6)]%nat in
   rw_ex_obs c = ([None; Some KRW_TryRLock; Some LOS_read1; Some LOS_read1], [(0%nat, 7%Z, false)], [(1001%Z, UReaders 1)]) /\
   quietb c 1 7 = true /\
   option_map (fun c' => (holders c', list.last (completed (c_hist c')))) (step c 1 0) =
     Some ([(0%nat, 7%Z, false); (1%nat, 7%Z, false)], Some (1%nat, CLoadOrStore 0 7 2001 PTryRLock, RBool true))) /\
  (let c := rw_ex_run [(0, 7); (3, 6)]%nat in
   rw_ex_obs c = ([None; Some LOS_read1; Some LOS_read1; Some KRW_RLock], [(0%nat, 7%Z, false)], [(1001%Z, UReaders 1)]) /\
   quietb c 3 7 = true /\
   option_map holders (step c 3 0) = Some [(0%nat, 7%Z, false); (3%nat, 7%Z, false)]) /\
  (let c := rw_ex_run [(0, 7); (1, 6); (2, 2)]%nat in
   rw_ex_obs c = ([None; Some KRW_TryRLock; Some KRW_Lock; Some LOS_read1], [(0%nat, 7%Z, false)], [(1001%Z, UReaders 1)]) /\
   quietb c 1 7 = false /\ step c 2 0 = None /\
   option_map (fun c' => list.last (completed (c_hist c'))) (step c 1 0) =
     Some (Some (1%nat, CLoadOrStore 0 7 2001 PTryRLock, RBool true))).
Proof. vm_compute. repeat split. Qed.

(* ================= cross-key progress ================= *)
(* [cs_measure s f]: what is left of the critical section of m.mu for the frame f of its holder;
   at most 3 * (number of keys of the read map) + 6 ... *)
Theorem C09_critical_section_bound : forall s f, in_cs f = true -> WFL s f ->
  cs_measure s f <= 3 * size (read_m s) + 6.
Proof. exact cs_measure_bound. Qed.
Print Assumptions C09_critical_section_bound.

(* ... the holder of m.mu is enabled (for a suitable iteration choice: none of its steps blocks), and its
   step either releases m.mu or strictly decreases the measure ... *)
Theorem C09_mu_holder_step : forall c t f i,
  IOInv c -> IterOK c -> c_panicked c = false -> c_insts c = [i] -> top_frame c t = Some f -> in_cs f = true ->
  exists ch c' i', step c t ch = Some c' /\ IOInv c' /\ IterOK c' /\ c_panicked c' = false /\ c_insts c' = [i'] /\
    (i_mu i' = None \/ exists f', top_frame c' t = Some f' /\ in_cs f' = true /\ cs_measure (i_st i') f' < cs_measure (i_st i) f).
Proof. exact holder_step. Qed.
Print Assumptions C09_mu_holder_step.

(* ... which the steps of the other threads cannot increase: they leave the holder's frame and the state
   of the Map alone ... *)
Theorem C09_other_steps_keep_critical_section : forall c t f i t2 ch c',
  IOInv c -> c_insts c = [i] -> top_frame c t = Some f -> in_cs f = true -> t2 <> t -> step c t2 ch = Some c' ->
  top_frame c' t = Some f /\ exists i', c_insts c' = [i'] /\ i_st i' = i_st i.
Proof. exact other_step_keeps_cs. Qed.
Print Assumptions C09_other_steps_keep_critical_section.

(* ... hence: in every reachable configuration (all insert-only programs, all schedules) in which thread t
   holds m.mu, t alone can run to the release of m.mu in at most 3 * |read map| + 6 steps. *)
Theorem C09_mu_released_within_bound : forall progs sched t i, io_progs progs ->
  let c := run_schedule (init_config 1 progs) sched in
  c_panicked c = false -> c_insts c = [i] -> i_mu i = Some t ->
  exists solo, Forall (fun x : nat * Z => x.1 = t) solo /\ length solo <= 3 * size (read_m (i_st i)) + 6 /\
    exists i', c_insts (run_schedule c solo) = [i'] /\ i_mu i' = None.
Proof. exact mu_released_within_bound. Qed.
Print Assumptions C09_mu_released_within_bound.

(* What a thread can wait for: m.mu in the hands of another thread (see above), or - at the blocking
   Lock / RLock step of a call on k - key k itself: k held incompatibly, or k contended (another thread
   queued at k's mutex: in Go a queued writer also stops new readers; in the queue-less machine of the
   model this is never the only reason). No other key occurs. *)
Theorem C09_blocked_only_by_mu_or_own_key : forall progs sched,
  io_progs progs -> disc_from (init_config 1 progs) sched -> fresh_values progs ->
  let c := run_schedule (init_config 1 progs) sched in
  forall t f i,
  c_insts c = [i] -> top_frame c t = Some f -> (forall ch, step c t ch = None) ->
  (is_lock_label (f_pc f) = true /\ exists t', t' <> t /\ i_mu i = Some t') \/
  ((f_pc f = KM_Lock \/ f_pc f = KRW_Lock) /\
     ((exists t2 b, (t2, key_of (f_call f), b) ∈ holders c) \/ ~ quiet c t (key_of (f_call f)))) \/
  (f_pc f = KRW_RLock /\ ((exists t2, holds_excl c t2 (key_of (f_call f))) \/ ~ quiet c t (key_of (f_call f)))).
Proof. exact blocked_only_by_mu_or_own_key. Qed.
Print Assumptions C09_blocked_only_by_mu_or_own_key.

(* Non-vacuity: thread 0 (LockKey 3, after two keys were promoted to the read map) is inside dirtyLocked's
   loop, 9 <= 3*2+6 steps from the unlock; thread 1 (LockKey 9 - another key) waits for m.mu; six steps of
   thread 0 later m.mu is free and thread 1 takes it. *)
Example C09_example_progress :
  let c := run_schedule (init_config 1 pr_ex_progs) pr_ex_sched in
  pr_ex_obs c = ([Some Dirty_iter; Some LOS_lock], (Some 0%nat, 2, 9)) /\ step c 1 0 = None /\
  pr_ex_obs (run_schedule c pr_ex_solo) = ([Some KM_Lock; Some LOS_lock], (None, 2, 1)) /\
  pr_ex_obs (run_schedule c (pr_ex_solo ++ [(1%nat, 0%Z)])) = ([Some KM_Lock; Some LOS_read2], (Some 1%nat, 2, 1)).
Proof. vm_compute. repeat split. Qed.

(* Non-vacuity: two threads race LockKey(7); UnlockKey(7) on a never-seen key (alternating steps, so
   both are inside LoadOrStore at the same time). The run is disciplined; after 10 rounds thread 0
   holds key 7, thread 1's LoadOrStore returned thread 0's mutex 1001 and it is blocked on it; at the
   end both have locked and unlocked, nobody holds anything, the mutex is free. *)
Example C09_example_per_key :
  disc_fromb (init_config 1 ex_progs) (ex_alt 30) = true /\
  (let c := run_schedule (init_config 1 ex_progs) (ex_alt 10) in
   holders c = [(0%nat, 7%Z, true)] /\ map thread_label (c_threads c) = [Some LOS_lock; Some KM_Lock] /\
   option_map (fun f => (f_los f).1) (top_frame c 1) = Some 1001%Z /\ map_to_list (c_um c) = [(1001%Z, ULocked)] /\
   step c 1 0 = None) /\
  (let c := run_schedule (init_config 1 ex_progs) (ex_alt 30) in
   holders c = [] /\ map thread_label (c_threads c) = [None; None] /\ map_to_list (c_um c) = [(1001%Z, UFree)] /\
   length (completed (c_hist c)) = 4 /\ c_panicked c = false).
Proof. vm_compute. repeat split. Qed.
