(* C04 — linearizability of concurrent histories (DESIGN 6/C04 item 4).
   Statements only; proofs are [exact] of theorems of SyncMap/Linearizable.v.
   Definition of linearizability: Lib/Lin.v (possibilities / markers of Herlihy
   & Wing; sanity theorem [seq_linearizable_iff] there). Specification: an
   ordinary map [map_spec : gmap Z Z -> call -> gmap Z Z * res].
   Covered: every list of programs (one per goroutine, any number, any length)
   of Load / Store / LoadOrStore / LoadAndDelete / Delete calls on one Map
   ([lin_frag]: instance 0, no Range, no keyed-mutex wrapper), every schedule
   at the granularity of individual atomic / mutex operations. No bound.
   Not covered: Range (clause 5 of the design) and nested calls. *)
From Typ Require Import SyncMap.Model SyncMap.Inv SyncMap.SetAtomic Lib.Lin SyncMap.Linearizable.

Theorem C04_linearizable : forall progs sched,
  Forall (Forall lin_frag) progs ->
  linearizable map_spec ∅ (map_hist (run_schedule (init_config 1 progs) sched)).
Proof. exact map_linearizable. Qed.
Print Assumptions C04_linearizable.

(* The same with the end of the linearization made explicit: the abstract map
   it ends in is the contents of the Map ([abs_lookup] of the final state: no
   stored value is lost or resurrected), and once all goroutines have finished
   every call of the history has been linearized (P t = None for all t). *)
Theorem C04_linearizable_contents : forall progs sched,
  Forall (Forall lin_frag) progs ->
  let c := run_schedule (init_config 1 progs) sched in
  exists (a : gmap Z Z) (P : nat -> option (call * option res)),
    poss map_spec ∅ (rev (map_hist c)) a P /\
    (forall k, a !! k = abs_lookup (st0 c) k) /\
    (finished c = true -> forall t, P t = None).
Proof. exact map_linearizable_contents. Qed.
Print Assumptions C04_linearizable_contents.

(* Non-vacuity, and why Load has no fixed linearization point: G0's Load(1)
   reads the read map while key 1 holds 10 and keeps the entry; G1 then deletes
   key 1, stores key 2 (dirtyLocked expunges the entry), promotes (the entry is
   dropped) and stores (1,30) into a NEW entry; only now G0 loads its stale
   entry and returns "absent" although the map holds (1,30). The history is
   linearizable with the Load placed between Delete(1) and Store(1,30). *)
Definition lin_progs : list (list call) :=
  [[CLoad 0 1]; [CStore 0 1 10; CLoad 0 7; CDelete 0 1; CStore 0 2 20; CLoad 0 7; CStore 0 1 30]]%Z.
Definition lin_sched : list (nat * Z) :=
  repeat (1, 0%Z) 11 ++ [(0, 0%Z)] ++ repeat (1, 1%Z) 12 ++ repeat (1, 0%Z) 5 ++ repeat (1, 2%Z) 8 ++ [(0, 0%Z)].

Example C04lin_stale_load :
  let c := run_schedule (init_config 1 lin_progs) lin_sched in
  map_hist c =
    [HInv 1 (CStore 0 1 10); HRes 1 RUnit; HInv 1 (CLoad 0 7); HRes 1 (ROpt None);
     HInv 0 (CLoad 0 1);
     HInv 1 (CDelete 0 1); HRes 1 RUnit; HInv 1 (CStore 0 2 20); HRes 1 RUnit;
     HInv 1 (CLoad 0 7); HRes 1 (ROpt None); HInv 1 (CStore 0 1 30); HRes 1 RUnit;
     HRes 0 (ROpt None)]%Z /\
  abs_lookup (st0 c) 1%Z = Some 30%Z /\ finished c = true /\ Forall (Forall lin_frag) lin_progs.
Proof. vm_compute. repeat split; repeat constructor. Qed.
