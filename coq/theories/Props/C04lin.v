(* C04 — linearizability of concurrent histories (DESIGN 6/C04 item 4).
   Statements only; proofs are [exact] of theorems of SyncMap/Linearizable.v.
   Definition of linearizability: Lib/Lin.v (possibilities / markers of Herlihy
   & Wing; sanity theorem [seq_linearizable_iff] there). Specification: an
   ordinary map [map_spec : gmap Z Z -> call -> gmap Z Z * res].
   Covered: every list of programs (one per goroutine, any number, any length)
   of Load / Store / LoadOrStore / LoadAndDelete / Delete calls on one Map
   ([lin_frag]: instance 0, no Range, no keyed-mutex wrapper), every schedule
   at the granularity of individual atomic / mutex operations. No bound.
   Second half (SyncMap/LinRange.v): the same for programs in which any
   goroutine may also call Range (counting / stopping callback, [rfrag]) at
   any time: the history of the five point operations - the invocation and
   response events of the Range calls removed, [pt_hist] - is linearizable,
   whatever the Ranges do meanwhile (a Range promotes the dirty map, i.e.
   rewrites read / dirty under the mutex, while the other calls run). Range
   itself is not an atomic snapshot and is specified by Props/C04range.v.
   Not covered: callbacks that call back into the Map (nested calls). *)
From Typ Require Import SyncMap.Model SyncMap.Inv SyncMap.SetAtomic Lib.Lin Lib.LinHW SyncMap.Linearizable SyncMap.RangeConc SyncMap.LinRange SyncMap.SeqHist SyncMap.Solo.
From Typ Require SyncMap.SeqProofs.

Theorem C04_linearizable : forall z progs sched,
  Forall (Forall lin_frag) progs ->
  linearizable map_spec ∅ (map_hist (run_schedule (init_config_z [z] progs) sched)).
Proof. exact map_linearizable. Qed.
Print Assumptions C04_linearizable.

(* The same with the end of the linearization made explicit: the abstract map
   it ends in is the contents of the Map ([abs_lookup] of the final state: no
   stored value is lost or resurrected), and once all goroutines have finished
   every call of the history has been linearized (P t = None for all t). *)
Theorem C04_linearizable_contents : forall z progs sched,
  Forall (Forall lin_frag) progs ->
  let c := run_schedule (init_config_z [z] progs) sched in
  exists (a : gmap Z Z) (P : nat -> option (call * option res)),
    poss map_spec ∅ (rev (map_hist c)) a P /\
    (forall k, a !! k = abs_lookup (st0 c) k) /\
    (finished c = true -> forall t, P t = None).
Proof. exact map_linearizable_contents. Qed.
Print Assumptions C04_linearizable_contents.

(* Non-vacuity, and why Load has no fixed linearization point: G0's Load(1)
   reads the read map while key 1 holds 10 and keeps the entry; G1 then deletes
   key 1, stores key 2 (dirtyLocked expunges the entry), promotes (the entry is
   dropped) and stores (1,30) into a NEW entry; only now G0 loads its stale
   entry and returns "absent" although the map holds (1,30). The history is
   linearizable with the Load placed between Delete(1) and Store(1,30). *)
Definition lin_progs : list (list call) :=
  [[CLoad 0 1]; [CStore 0 1 10; CLoad 0 7; CDelete 0 1; CStore 0 2 20; CLoad 0 7; CStore 0 1 30]]%Z.
Definition lin_sched : list (nat * Z) :=
  repeat (1, 0%Z) 11 ++ [(0, 0%Z)] ++ repeat (1, 1%Z) 12 ++ repeat (1, 0%Z) 5 ++ repeat (1, 2%Z) 8 ++ [(0, 0%Z)].

Example C04lin_stale_load :
  let c := run_schedule (init_config 1 lin_progs) lin_sched in
  map_hist c =
    [HInv 1 (CStore 0 1 10); HRes 1 RUnit; HInv 1 (CLoad 0 7); HRes 1 (ROpt None);
     HInv 0 (CLoad 0 1);
     HInv 1 (CDelete 0 1); HRes 1 RUnit; HInv 1 (CStore 0 2 20); HRes 1 RUnit;
     HInv 1 (CLoad 0 7); HRes 1 (ROpt None); HInv 1 (CStore 0 1 30); HRes 1 RUnit;
     HRes 0 (ROpt None)]%Z /\
  abs_lookup (st0 c) 1%Z = Some 30%Z /\ finished c = true /\ Forall (Forall lin_frag) lin_progs.
Proof. vm_compute. repeat split; repeat constructor. Qed.

(* ------------------------------------------------------------------ *)
(* with Range calls running concurrently                               *)
(* ------------------------------------------------------------------ *)
(* [pt_hist c] = [map_hist c] without the events HInv _ (CRange _ _) and
   HRes _ (RRange _ _) (only Range returns RRange). *)
Theorem C04_linearizable_with_range : forall z progs sched,
  Forall (Forall rfrag) progs ->
  linearizable map_spec ∅ (pt_hist (run_schedule (init_config_z [z] progs) sched)).
Proof. exact map_linearizable_range. Qed.
Print Assumptions C04_linearizable_with_range.

Theorem C04_linearizable_with_range_contents : forall z progs sched,
  Forall (Forall rfrag) progs ->
  let c := run_schedule (init_config_z [z] progs) sched in
  exists (a : gmap Z Z) (P : nat -> option (call * option res)),
    poss map_spec ∅ (rev (pt_hist c)) a P /\
    (forall k, a !! k = abs_lookup (st0 c) k) /\
    (finished c = true -> forall t, P t = None).
Proof. exact map_linearizable_range_contents. Qed.
Print Assumptions C04_linearizable_with_range_contents.

(* Non-vacuity: G0 ranges (its Range_lock / promote / unlock steps and its
   iteration interleave with G1's calls) while G1 stores and loads. *)
Definition linr_progs : list (list call) :=
  [[CRange 0 (CbStop None)]; [CStore 0 1 10; CLoad 0 7; CStore 0 2 20]]%Z.
Definition linr_sched : list (nat * Z) :=
  repeat (1, 0%Z) 11 ++ [(0, 0%Z)] ++ repeat (1, 1%Z) 9 ++ [(0, 1%Z); (0, 1%Z)].

Example C04lin_with_range :
  let c := run_schedule (init_config 1 linr_progs) linr_sched in
  map_hist c =
    [HInv 1 (CStore 0 1 10); HRes 1 RUnit; HInv 1 (CLoad 0 7); HRes 1 (ROpt None);
     HInv 0 (CRange 0 (CbStop None));
     HInv 1 (CStore 0 2 20); HRes 1 RUnit;
     HRes 0 (RRange [(1, 10)] 1)]%Z /\
  pt_hist c =
    [HInv 1 (CStore 0 1 10); HRes 1 RUnit; HInv 1 (CLoad 0 7); HRes 1 (ROpt None);
     HInv 1 (CStore 0 2 20); HRes 1 RUnit]%Z /\
  finished c = true /\ Forall (Forall rfrag) linr_progs.
Proof. vm_compute. repeat split; repeat constructor. Qed.

(* ------------------------------------------------------------------ *)
(* the classic definition of Herlihy & Wing                            *)
(* ------------------------------------------------------------------ *)
(* [linearizable] (Lib/Lin.v, markers) implies the classic formulation, for any
   specification (Lib/LinHW.v): there is a sequential history S of operations
   (thread, call, result) that (a) is legal for the specification, (b) consists,
   thread by thread in program order, of the operations of h - all completed
   ones with the reported results ([invs t h] / [ress t h]: the calls t invokes
   / the results it receives in h, [sel t S]: t's operations in S), plus at most
   the pending one - and (c) respects real-time order: for every cut
   h = h1 ++ h2, S = S1 ++ S2 where S1 contains every operation completed in h1
   and only operations invoked in h1. So "each call takes effect at one instant
   between its invocation and its return" is a theorem, not a reading of the
   definition. *)
Theorem C04_markers_imply_classic : forall (Call Res St : Type) (spec : St -> Call -> St * Res) a0 (h : list (@hevent Call Res)),
  linearizable spec a0 h ->
  exists (a : St) (S : list (nat * Call * Res)),
    Lin.spec_run spec a0 (calls S) = (a, results S) /\
    (forall t, exists l1 l2, invs t h = calls (sel t S) ++ l1 /\ results (sel t S) = ress t h ++ l2 /\
                             length l1 + length l2 <= 1) /\
    (forall h1 h2, h = h1 ++ h2 -> exists S1 S2, S = S1 ++ S2 /\
       forall t, length (ress t h1) <= length (sel t S1) <= length (invs t h1)).
Proof. exact @linearizable_classic. Qed.
Print Assumptions C04_markers_imply_classic.

(* (c) spelled out on positions: if x is an operation of S that has completed in
   h1 and y one that is invoked after h1, x comes before y in S *)
Theorem C04_classic_real_time : forall (Call Res : Type) (S : list (nat * Call * Res)) (h1 : list (@hevent Call Res)),
  (exists S1 S2, S = S1 ++ S2 /\ forall t, length (ress t h1) <= length (sel t S1) <= length (invs t h1)) ->
  forall Sa x Sb Sa' y Sb',
    S = Sa ++ x :: Sb -> S = Sa' ++ y :: Sb' ->
    length (sel (fst (fst x)) Sa) < length (ress (fst (fst x)) h1) ->
    length (invs (fst (fst y)) h1) <= length (sel (fst (fst y)) Sa') ->
    length Sa < length Sa'.
Proof. exact @classic_rt_order. Qed.
Print Assumptions C04_classic_real_time.

(* for the runs of the machine *)
Theorem C04_linearizable_classic : forall z progs sched,
  Forall (Forall rfrag) progs ->
  let h := pt_hist (run_schedule (init_config_z [z] progs) sched) in
  exists (a : gmap Z Z) (S : list (nat * call * res)),
    Lin.spec_run map_spec ∅ (calls S) = (a, results S) /\
    (forall t, exists l1 l2, invs t h = calls (sel t S) ++ l1 /\ results (sel t S) = ress t h ++ l2 /\
                             length l1 + length l2 <= 1) /\
    (forall h1 h2, h = h1 ++ h2 -> exists S1 S2, S = S1 ++ S2 /\
       forall t, length (ress t h1) <= length (sel t S1) <= length (invs t h1)).
Proof. exact map_linearizable_range_classic. Qed.
Print Assumptions C04_linearizable_classic.

(* Non-vacuity: the history of C04lin_stale_load and the sequential history
   that places G0's Load(1) between G1's Delete(1) and Store(1,30): legal,
   thread by thread the operations of the history, and e.g. for the cut after
   Delete(1)'s response: S1 = the three operations completed by then (Load(1),
   invoked but not completed, may go either side). *)
Example C04lin_classic_example :
  let h := [HInv 1 (CStore 0 1 10); HRes 1 RUnit; HInv 1 (CLoad 0 7); HRes 1 (ROpt None);
            HInv 0 (CLoad 0 1);
            HInv 1 (CDelete 0 1); HRes 1 RUnit; HInv 1 (CStore 0 2 20); HRes 1 RUnit;
            HInv 1 (CLoad 0 7); HRes 1 (ROpt None); HInv 1 (CStore 0 1 30); HRes 1 RUnit;
            HRes 0 (ROpt None)]%Z in
  let S1 : list (nat * call * res) := [(1, CStore 0 1 10, RUnit); (1, CLoad 0 7, ROpt None); (1, CDelete 0 1, RUnit)] in
  let S2 : list (nat * call * res) := [(0, CLoad 0 1, ROpt None); (1, CStore 0 2 20, RUnit); (1, CLoad 0 7, ROpt None); (1, CStore 0 1 30, RUnit)] in
  let S := S1 ++ S2 in
  snd (Lin.spec_run map_spec ∅ (calls S)) = results S /\
  (invs 0 h = calls (sel 0 S) /\ results (sel 0 S) = ress 0 h) /\
  (invs 1 h = calls (sel 1 S) /\ results (sel 1 S) = ress 1 h) /\
  (forall t, length (ress t (firstn 7 h)) <= length (sel t S1) <= length (invs t (firstn 7 h))).
Proof.
  cbv zeta. split; [vm_compute; reflexivity|]. split; [vm_compute; auto|]. split; [vm_compute; auto|].
  intros t. cbn [firstn invs ress sel fst]. destruct (Nat.eq_dec 1 t), (Nat.eq_dec 0 t); cbn; lia.
Qed.

(* ------------------------------------------------------------------ *)
(* the big-step and the small-step model agree on single-goroutine runs *)
(* ------------------------------------------------------------------ *)
(* The sequential theorems (Props/C04.v) are about the big-step model Seq.v
   (one Coq function per method), the concurrent ones about the small-step
   machine Model.v. Both are tied to the real code by the harness; this ties
   them to each other in Coq (SyncMap/Solo.v): the small-step machine run with
   ONE goroutine p (Load / Store / LoadOrStore / LoadAndDelete / Delete), under
   any schedule (any iteration choices in the dirtyLocked loop), returns once
   finished the results the big-step functions return call by call from the
   zero Map ([run_seq], [sop_of] / [sres_of] translate calls / results), and
   ends with the same abstract contents. (Results and contents, not the
   internal layout read / dirty / misses.) *)
Theorem C04_solo_is_bigstep : forall z p sched,
  Forall lin_frag p ->
  let c := run_schedule (init_config_z [z] [p]) sched in
  finished c = true ->
  exists th s outs, nth_error (c_threads c) 0 = Some th /\
    run_seq (map sop_of p) empty_mstate = Ok (s, outs) /\ SeqProofs.WF s /\
    map sres_of (t_results th) = outs /\
    forall k, abs_lookup (st0 c) k = abs_lookup s k.
Proof. exact solo_is_bigstep. Qed.
Print Assumptions C04_solo_is_bigstep.

(* ... both return what an ordinary map returns *)
Theorem C04_solo_spec : forall z p sched,
  Forall lin_frag p ->
  let c := run_schedule (init_config_z [z] [p]) sched in
  finished c = true ->
  exists th (a : gmap Z Z), nth_error (c_threads c) 0 = Some th /\
    Lin.spec_run map_spec ∅ p = (a, t_results th) /\ forall k, a !! k = abs_lookup (st0 c) k.
Proof. exact solo_spec. Qed.
Print Assumptions C04_solo_spec.

Definition solo_prog : list call :=
  [CStore 0 1 10; CLoad 0 1; CStore 0 2 20; CDelete 0 1; CLoadOrStore 0 2 5 PNone; CLoadOrStore 0 3 7 PNone; CLoadAndDelete 0 1]%Z.
Example C04_solo_example :
  let c := run_schedule (init_config 1 [solo_prog]) (repeat (0, 1%Z) 80) in
  finished c = true /\ Forall lin_frag solo_prog /\
  map t_results (c_threads c) = [[RUnit; ROpt (Some 10); RUnit; RUnit; RLos 20 true; RLos 7 false; ROpt None]]%Z.
Proof. vm_compute. repeat split; repeat constructor. Qed.
