(* Correspondence check for C14: the harness writes the calls it made on the
   real slices / maps packages together with what they returned; [check_case]
   re-runs the model (Slices/Func.v, Maps/MapHelpers.v) on the same input and
   compares. Callbacks come from the small DSL below, which has a twin
   interpreter in harness/c14/c14.go. Definitions only. *)
From Typ Require Export Maps.MapHelpers.
From Typ Require Export Lib.Base Slices.Func.
Local Open Scope Z_scope.

(* ---- callback DSL (all moduli >= 1) -------------------------------------- *)
(* acc(s, v) = (s*a + v*b + c) mod m     (order sensitive when a <> 1) *)
Inductive accp := Acc (a b c m : Z).
Definition run_acc (p : accp) (s v : Z) : Z := let 'Acc a b c m := p in (s * a + v * b + c) mod m.
(* pred(v) = (v mod m) in R *)
Inductive predp := Pred (m : Z) (R : list Z).
Definition run_pred (p : predp) (v : Z) : bool := let 'Pred m R := p in existsb (Z.eqb (v mod m)) R.
(* keyer(v) = v mod m *)
Inductive keyp := Key (m : Z).
Definition run_key (p : keyp) (v : Z) : Z := let 'Key m := p in v mod m.
(* conv(v) = (v*a + b, error carrying v when v mod m = r) *)
Inductive convp := Conv (a b m r : Z).
Definition run_conv (p : convp) (v : Z) : Z * option Z :=
  let 'Conv a b m r := p in (v * a + b, if v mod m =? r then Some v else None).
(* equals(x, y): (x - y) mod m = 0 (an equivalence), or |x - y| <= d (symmetric, not transitive),
   or x - y <= d (not symmetric: shows the order of the arguments; transitive for d = 0) *)
Inductive eqp := EqMod (m : Z) | EqNear (d : Z) | EqLe (d : Z).
Definition run_eq (p : eqp) (x y : Z) : bool :=
  match p with
  | EqMod m => (x - y) mod m =? 0
  | EqNear d => Z.abs (x - y) <=? d
  | EqLe d => x - y <=? d
  end.

Inductive trimfn := TBoth | TLeft | TRight.

(* ---- cases ----------------------------------------------------------------- *)
(* One constructor per function: inputs, then the observed output. Maps are
   given as their list of entries (distinct keys); map-order dependent outputs
   are recorded sorted.
   [calls]: the observed call log of the callback (arguments of every call, in
   order). For Fold, FoldReverse and MapErr the property text fixes the calls and
   the log is always compared. For the other functions the property fixes only
   the result: the harness passes [Some log] when the implementation calls its
   callback as the present code does (then the call-log model must reproduce the
   log) and [None] when an implementation's call pattern differs (not compared). *)
Inductive case :=
| CIndex (l : list Z) (v : Z) (obs : Z)
| CIndexFunc (l : list Z) (p : predp) (obs : Z) (calls : option (list Z))
| CContains (l : list Z) (v : Z) (obs : bool)
| CContainsFunc (l : list Z) (v : Z) (e : eqp) (obs : bool) (calls : option (list (Z * Z)))
| CTrim (f : trimfn) (l unwanted : list Z) (obs : result (list Z))
| CTrimFunc (f : trimfn) (l : list Z) (p : predp) (obs : result (list Z)) (calls : option (list Z))
| CDistinct (l : list Z) (obs : list Z)
| CDistinctFunc (l : list Z) (e : eqp) (obs : list Z) (calls : option (list (Z * Z)))
| CTryGet (l : list Z) (i : Z) (obs : result (Z * bool))
| CSafeGet (l : list Z) (i : Z) (obs : result Z)
| CSafeGetOr (l : list Z) (i fallback : Z) (obs : result Z)
| CLast (l : list Z) (obs : result Z)
| CAny (l : list Z) (p : predp) (obs : bool) (calls : option (list Z))
| CAll (l : list Z) (p : predp) (obs : bool) (calls : option (list Z))
| CMap (l : list Z) (c : convp) (obs : result (list Z)) (calls : option (list Z))
| CMapErr (l : list Z) (c : convp) (obs : result (list Z * option Z * list Z))
| CFilter (l : list Z) (p : predp) (obs : list Z) (calls : option (list Z))
| CFold (l : list Z) (seed : Z) (a : accp) (obs : Z) (calls : list (Z * Z))
| CFoldReverse (l : list Z) (seed : Z) (a : accp) (obs : result Z) (calls : list (Z * Z))
| CGroupBy (l : list Z) (k : keyp) (obs : result (list (Z * list Z)))
| CCountBy (l : list Z) (k : keyp) (obs : result (list (Z * Z)))
| CExcept (l exclude : list Z) (obs : list Z)
| CExceptSet (l exclude : list Z) (obs : list Z)     (* the set holds exactly the values of [exclude] *)
| CContainsValue (m : list (Z * Z)) (v : Z) (obs : bool)
| CKeyOf (m : list (Z * Z)) (v : Z) (obs : Z * bool)
| CClone (m : list (Z * Z)) (obs : list (Z * Z))     (* entries of the clone, sorted by key *)
| CClear (m : list (Z * Z)) (obs : list (Z * Z))     (* entries left in the map *)
| CHasKey (m : list (Z * Z)) (k : Z) (obs : bool)
| CKeys (m : list (Z * Z)) (obs : list Z)            (* sorted *)
| CValues (m : list (Z * Z)) (obs : list Z).         (* sorted *)

(* ---- comparison helpers ---------------------------------------------------- *)
Fixpoint insert_by {T} (leb : T -> T -> bool) (x : T) (l : list T) : list T :=
  match l with [] => [x] | y :: t => if leb x y then x :: l else y :: insert_by leb x t end.
Definition sort_by {T} (leb : T -> T -> bool) (l : list T) : list T := fold_right (insert_by leb) [] l.
Definition zsort : list Z -> list Z := sort_by Z.leb.
Definition pair_leb (x y : Z * Z) : bool := (fst x <? fst y) || ((fst x =? fst y) && (snd x <=? snd y)).
Definition psort : list (Z * Z) -> list (Z * Z) := sort_by pair_leb.

Definition zlist_eqb : list Z -> list Z -> bool := list_eqb Z.eqb.
Definition zpair_eqb : Z * Z -> Z * Z -> bool := prod_eqb Z.eqb Z.eqb.
Definition to_gmap (m : list (Z * Z)) : gmap Z Z := list_to_map m.
Definition entries (g : gmap Z Z) : list (Z * Z) := map_to_list g.

(* an observed call log, when given, must be the one the call-log model predicts *)
Definition calls_ok {T} (eqb : T -> T -> bool) (model : list T) (obs : option (list T)) : bool :=
  match obs with None => true | Some log => list_eqb eqb model log end.

Definition check_case (c : case) : bool :=
  match c with
  | CIndex l v obs => index Z.eqb l v =? obs
  | CIndexFunc l p obs calls =>
      let '(r, log) := indexfunc_calls l (run_pred p) in
      (indexfunc l (run_pred p) =? obs) && (r =? obs) && calls_ok Z.eqb log calls
  | CContains l v obs => Bool.eqb (contains Z.eqb l v) obs
  | CContainsFunc l v e obs calls =>
      let '(r, log) := containsfunc_calls l v (run_eq e) in
      Bool.eqb (containsfunc l v (run_eq e)) obs && Bool.eqb r obs && calls_ok zpair_eqb log calls
  | CTrim f l u obs =>
      result_eqb zlist_eqb
        (match f with TBoth => trim Z.eqb l u | TLeft => Ok (trimleft Z.eqb l u) | TRight => trimright Z.eqb l u end) obs
  | CTrimFunc f l p obs calls =>
      let '(r, log) := match f with
                       | TBoth => trimfunc_calls l (run_pred p)
                       | TLeft => let '(r, log) := trimleftfunc_calls l (run_pred p) in (Ok r, log)
                       | TRight => trimrightfunc_calls l (run_pred p)
                       end in
      result_eqb zlist_eqb
        (match f with
         | TBoth => trimfunc l (run_pred p)
         | TLeft => Ok (trimleftfunc l (run_pred p))
         | TRight => trimrightfunc l (run_pred p)
         end) obs && result_eqb zlist_eqb r obs && calls_ok Z.eqb log calls
  | CDistinct l obs => zlist_eqb (distinct Z.eqb l) obs
  | CDistinctFunc l e obs calls =>
      let '(r, log) := distinctfunc_calls l (run_eq e) in
      zlist_eqb (distinctfunc l (run_eq e)) obs && zlist_eqb r obs && calls_ok zpair_eqb log calls
  | CTryGet l i obs => result_eqb (prod_eqb Z.eqb Bool.eqb) (tryget 0 l i) obs
  | CSafeGet l i obs => result_eqb Z.eqb (safeget 0 l i) obs
  | CSafeGetOr l i fb obs => result_eqb Z.eqb (safegetor l i fb) obs
  | CLast l obs => result_eqb Z.eqb (last_ l) obs
  | CAny l p obs calls =>
      let '(r, log) := any_calls l (run_pred p) in
      Bool.eqb (any l (run_pred p)) obs && Bool.eqb r obs && calls_ok Z.eqb log calls
  | CAll l p obs calls =>
      let '(r, log) := all_calls l (run_pred p) in
      Bool.eqb (all l (run_pred p)) obs && Bool.eqb r obs && calls_ok Z.eqb log calls
  | CMap l c obs calls =>
      let '(r, log) := map_calls 0 l (fun v => fst (run_conv c v)) in
      result_eqb zlist_eqb (map_ 0 l (fun v => fst (run_conv c v))) obs && result_eqb zlist_eqb r obs &&
      calls_ok Z.eqb log calls
  | CMapErr l c obs =>
      result_eqb (prod_eqb (prod_eqb zlist_eqb (option_eqb Z.eqb)) zlist_eqb) (maperr 0 l (run_conv c)) obs
  | CFilter l p obs calls =>
      let '(r, log) := filter_calls l (run_pred p) in
      zlist_eqb (filter_ l (run_pred p)) obs && zlist_eqb r obs && calls_ok Z.eqb log calls
  | CFold l seed a obs calls =>
      let '(r, log) := fold_calls l seed (run_acc a) in
      (fold l seed (run_acc a) =? obs) && (r =? obs) && list_eqb zpair_eqb log calls
  | CFoldReverse l seed a obs calls =>
      let '(r, log) := foldreverse_calls l seed (run_acc a) in
      result_eqb Z.eqb (foldreverse l seed (run_acc a)) obs && result_eqb Z.eqb r obs && list_eqb zpair_eqb log calls
  | CGroupBy l k obs =>
      result_eqb (list_eqb (prod_eqb Z.eqb zlist_eqb)) (groupby Z.eqb 0 l (run_key k)) obs
  | CCountBy l k obs => result_eqb (list_eqb zpair_eqb) (countby Z.eqb 0 l (run_key k)) obs
  | CExcept l ex obs => zlist_eqb (except Z.eqb l ex) obs
  | CExceptSet l ex obs => zlist_eqb (exceptset l (fun v => existsb (Z.eqb v) ex)) obs
  | CContainsValue m v obs => let g := to_gmap m in Bool.eqb (containsvalue Z.eqb g (entries g) v) obs
  | CKeyOf m v (k, ok) =>
      let g := to_gmap m in
      let '(_, mok) := keyof Z.eqb 0 g (entries g) v in
      (* which key is returned depends on the visit order: any key holding v is right *)
      Bool.eqb ok mok && (if ok then option_eqb Z.eqb (g !! k) (Some v) else k =? 0)
  | CClone m obs => let g := to_gmap m in list_eqb zpair_eqb (psort (entries (clone g (entries g)))) obs
  | CClear m obs => let g := to_gmap m in list_eqb zpair_eqb (psort (entries (clear g (entries g)))) obs
  | CHasKey m k obs => Bool.eqb (haskey (to_gmap m) k) obs
  | CKeys m obs => let g := to_gmap m in zlist_eqb (zsort (keys g (entries g))) obs
  | CValues m obs => let g := to_gmap m in zlist_eqb (zsort (values g (entries g))) obs
  end.
