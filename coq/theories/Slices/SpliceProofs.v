(* Proofs about the model of Slices/Splice.v (C12). *)
From Typ Require Import Lib.Base Slices.Splice.

Section Proofs.
Context {A : Type}.
Implicit Types (a b p q pre mid post g xs : list A) (s : gslice A).

(* ---- list algebra ---- *)

Lemma firstn_app_exact a b n : n = length a -> firstn n (a ++ b) = a.
Proof.
  intros ->. rewrite firstn_app, Nat.sub_diag, firstn_all. cbn [firstn]. apply app_nil_r.
Qed.

Lemma skipn_app_exact a b n : n = length a -> skipn n (a ++ b) = b.
Proof.
  intros ->. rewrite skipn_app, Nat.sub_diag, skipn_all. reflexivity.
Qed.

Lemma firstn_app_plus a b n m : n = length a + m -> firstn n (a ++ b) = a ++ firstn m b.
Proof.
  intros ->. rewrite firstn_app. f_equal.
  - apply firstn_all2. lia.
  - f_equal. lia.
Qed.

Lemma skipn_app_plus a b n m : n = length a + m -> skipn n (a ++ b) = skipn m b.
Proof.
  intros ->. rewrite skipn_app. rewrite skipn_all2 by lia. cbn [app]. f_equal. lia.
Qed.

Lemma skipn_skipn' a n m : skipn n (skipn m a) = skipn (m + n) a.
Proof.
  revert a; induction m as [|m IH]; intros a.
  - reflexivity.
  - destruct a as [|x a]; cbn [skipn plus].
    + apply skipn_nil.
    + apply IH.
Qed.

(* every array with i + k <= n <= length splits at i, i+k, n *)
Lemma split4 a i k n : i + k <= n -> n <= length a ->
  exists pre mid post g, a = pre ++ mid ++ post ++ g /\
    length pre = i /\ length mid = k /\ length post = n - (i + k).
Proof.
  intros H1 H2.
  exists (firstn i a), (firstn k (skipn i a)), (firstn (n - (i + k)) (skipn (i + k) a)), (skipn n a).
  split; [|rewrite !firstn_length, !skipn_length; lia].
  rewrite <- (firstn_skipn i a) at 1. f_equal.
  rewrite <- (firstn_skipn k (skipn i a)) at 1. f_equal.
  rewrite skipn_skipn'.
  rewrite <- (firstn_skipn (n - (i + k)) (skipn (i + k) a)) at 1. f_equal.
  rewrite skipn_skipn'. f_equal. lia.
Qed.

Lemma write_at_app p old new q n :
  n = length p -> length old = length new -> write_at (p ++ old ++ q) n new = p ++ new ++ q.
Proof.
  intros -> E. unfold write_at. rewrite firstn_app_exact by reflexivity. f_equal. f_equal.
  rewrite (skipn_app_plus p _ _ (length new)) by reflexivity.
  apply skipn_app_exact. symmetry. exact E.
Qed.

Lemma write_at_nil a n : write_at a n [] = a.
Proof. unfold write_at. cbn [length app]. rewrite Nat.add_0_r. apply firstn_skipn. Qed.

(* ---- primitives ---- *)

Lemma slice_from_ok s (i : nat) : i <= len s ->
  slice_from s (Z.of_nat i) = Ok (Win i (len s - i)).
Proof.
  intros H. unfold slice_from.
  replace ((0 <=? Z.of_nat i)%Z && (Z.of_nat i <=? Z.of_nat (len s))%Z) with true
    by (symmetry; apply andb_true_iff; split; apply Z.leb_le; lia).
  rewrite Nat2Z.id. reflexivity.
Qed.

Lemma slice_from_panic s (i : Z) : (i < 0 \/ Z.of_nat (len s) < i)%Z ->
  slice_from s i = Panic IndexOutOfRange.
Proof.
  intros H. unfold slice_from.
  replace ((0 <=? i)%Z && (i <=? Z.of_nat (len s))%Z) with false; [reflexivity|].
  symmetry. apply andb_false_iff. destruct H; [left; apply Z.leb_gt|right; apply Z.leb_gt]; lia.
Qed.

Lemma slice_to_ok s (i : nat) : i <= cap s -> slice_to s (Z.of_nat i) = Ok (Win 0 i).
Proof.
  intros H. unfold slice_to.
  replace ((0 <=? Z.of_nat i)%Z && (Z.of_nat i <=? Z.of_nat (cap s))%Z) with true
    by (symmetry; apply andb_true_iff; split; apply Z.leb_le; lia).
  rewrite Nat2Z.id. reflexivity.
Qed.

Lemma set_index_ok s (i : nat) v : i < len s ->
  set_index s (Z.of_nat i) v = Ok (with_arr s (write_at (arr s) i [v])).
Proof.
  intros H. unfold set_index.
  replace ((0 <=? Z.of_nat i)%Z && (Z.of_nat i <? Z.of_nat (len s))%Z) with true
    by (symmetry; apply andb_true_iff; split; [apply Z.leb_le|apply Z.ltb_lt]; lia).
  rewrite Nat2Z.id. reflexivity.
Qed.

Lemma get_index_ok s (i : nat) p x q : i < len s -> arr s = p ++ x :: q -> i = length p ->
  get_index s (Z.of_nat i) = Ok x.
Proof.
  intros H E ->. unfold get_index.
  replace ((0 <=? Z.of_nat (length p))%Z && (Z.of_nat (length p) <? Z.of_nat (len s))%Z) with true
    by (symmetry; apply andb_true_iff; split; [apply Z.leb_le|apply Z.ltb_lt]; lia).
  rewrite Nat2Z.id. unfold get_nth. rewrite E, nth_error_app2, Nat.sub_diag by lia. reflexivity.
Qed.

(* ---- append ---- *)

Lemma visible_spare s : arr s = visible s ++ spare s.
Proof. unfold visible, spare. symmetry. apply firstn_skipn. Qed.

Lemma visible_length s : wf s -> length (visible s) = len s.
Proof. unfold wf, cap, visible. intros H. apply firstn_length_le. exact H. Qed.

Lemma append_spec growth zero s xs : wf s ->
  append growth zero s xs =
  GS (visible s ++ xs ++ append_tail growth zero s (length xs)) (len s + length xs).
Proof.
  intros W. unfold append, append_tail.
  destruct (len s + length xs <=? cap s) eqn:E; [|reflexivity].
  reflexivity.
Qed.

End Proofs.
