(* Proofs about the model of Slices/Splice.v (C12). *)
From Typ Require Import Lib.Base Slices.Splice.

Section Proofs.
Context {A : Type}.
Implicit Types (a b p q pre mid post g xs : list A) (s : gslice A).

(* ---- list algebra ---- *)

Lemma firstn_app_exact a b n : n = length a -> firstn n (a ++ b) = a.
Proof.
  intros ->. rewrite firstn_app, Nat.sub_diag, firstn_all. cbn [firstn]. apply app_nil_r.
Qed.

Lemma skipn_app_exact a b n : n = length a -> skipn n (a ++ b) = b.
Proof.
  intros ->. rewrite skipn_app, Nat.sub_diag, skipn_all. reflexivity.
Qed.

Lemma firstn_app_plus a b n m : n = length a + m -> firstn n (a ++ b) = a ++ firstn m b.
Proof.
  intros ->. rewrite firstn_app. f_equal.
  - apply firstn_all2. lia.
  - f_equal. lia.
Qed.

Lemma skipn_app_plus a b n m : n = length a + m -> skipn n (a ++ b) = skipn m b.
Proof.
  intros ->. rewrite skipn_app. rewrite skipn_all2 by lia. cbn [app]. f_equal. lia.
Qed.

Lemma skipn_skipn' a n m : skipn n (skipn m a) = skipn (m + n) a.
Proof.
  revert a; induction m as [|m IH]; intros a.
  - reflexivity.
  - destruct a as [|x a]; cbn [skipn plus].
    + apply skipn_nil.
    + apply IH.
Qed.

(* every array with i + k <= n <= length splits at i, i+k, n *)
Lemma split4 a i k n : i + k <= n -> n <= length a ->
  exists pre mid post g, a = pre ++ mid ++ post ++ g /\
    length pre = i /\ length mid = k /\ length post = n - (i + k).
Proof.
  intros H1 H2.
  exists (firstn i a), (firstn k (skipn i a)), (firstn (n - (i + k)) (skipn (i + k) a)), (skipn n a).
  split; [|rewrite !firstn_length, !skipn_length; lia].
  rewrite <- (firstn_skipn i a) at 1. f_equal.
  rewrite <- (firstn_skipn k (skipn i a)) at 1. f_equal.
  rewrite skipn_skipn'.
  rewrite <- (firstn_skipn (n - (i + k)) (skipn (i + k) a)) at 1. f_equal.
  rewrite skipn_skipn'. f_equal. lia.
Qed.

Lemma write_at_app p old new q n :
  n = length p -> length old = length new -> write_at (p ++ old ++ q) n new = p ++ new ++ q.
Proof.
  intros -> E. unfold write_at. rewrite firstn_app_exact by reflexivity. f_equal. f_equal.
  rewrite (skipn_app_plus p _ _ (length new)) by reflexivity.
  apply skipn_app_exact. symmetry. exact E.
Qed.

Lemma write_at_nil a n : write_at a n [] = a.
Proof. unfold write_at. cbn [length app]. rewrite Nat.add_0_r. apply firstn_skipn. Qed.

(* ---- primitives ---- *)

Lemma slice_from_ok s (i : nat) : i <= len s ->
  slice_from s (Z.of_nat i) = Ok (Win i (len s - i)).
Proof.
  intros H. unfold slice_from.
  replace ((0 <=? Z.of_nat i)%Z && (Z.of_nat i <=? Z.of_nat (len s))%Z) with true
    by (symmetry; apply andb_true_iff; split; apply Z.leb_le; lia).
  rewrite Nat2Z.id. reflexivity.
Qed.

Lemma slice_from_panic s (i : Z) : (i < 0 \/ Z.of_nat (len s) < i)%Z ->
  slice_from s i = Panic IndexOutOfRange.
Proof.
  intros H. unfold slice_from.
  replace ((0 <=? i)%Z && (i <=? Z.of_nat (len s))%Z) with false; [reflexivity|].
  symmetry. apply andb_false_iff. destruct H; [left; apply Z.leb_gt|right; apply Z.leb_gt]; lia.
Qed.

Lemma slice_to_ok s (i : nat) : i <= cap s -> slice_to s (Z.of_nat i) = Ok (Win 0 i).
Proof.
  intros H. unfold slice_to.
  replace ((0 <=? Z.of_nat i)%Z && (Z.of_nat i <=? Z.of_nat (cap s))%Z) with true
    by (symmetry; apply andb_true_iff; split; apply Z.leb_le; lia).
  rewrite Nat2Z.id. reflexivity.
Qed.

Lemma set_index_ok s (i : nat) v : i < len s ->
  set_index s (Z.of_nat i) v = Ok (with_arr s (write_at (arr s) i [v])).
Proof.
  intros H. unfold set_index.
  replace ((0 <=? Z.of_nat i)%Z && (Z.of_nat i <? Z.of_nat (len s))%Z) with true
    by (symmetry; apply andb_true_iff; split; [apply Z.leb_le|apply Z.ltb_lt]; lia).
  rewrite Nat2Z.id. reflexivity.
Qed.

Lemma get_index_ok s (i : nat) p x q : i < len s -> arr s = p ++ x :: q -> i = length p ->
  get_index s (Z.of_nat i) = Ok x.
Proof.
  intros H E ->. unfold get_index.
  replace ((0 <=? Z.of_nat (length p))%Z && (Z.of_nat (length p) <? Z.of_nat (len s))%Z) with true
    by (symmetry; apply andb_true_iff; split; [apply Z.leb_le|apply Z.ltb_lt]; lia).
  rewrite Nat2Z.id. unfold get_nth. rewrite E, nth_error_app2, Nat.sub_diag by lia. reflexivity.
Qed.

(* ---- append ---- *)

Lemma visible_spare s : arr s = visible s ++ spare s.
Proof. unfold visible, spare. symmetry. apply firstn_skipn. Qed.

Lemma visible_length s : wf s -> length (visible s) = len s.
Proof. unfold wf, cap, visible. intros H. apply firstn_length_le. exact H. Qed.

Lemma append_spec growth zero s xs : wf s ->
  append growth zero s xs =
  GS (visible s ++ xs ++ append_tail growth zero s (length xs)) (len s + length xs).
Proof.
  intros W. unfold append, append_tail.
  destruct (len s + length xs <=? cap s) eqn:E; [|reflexivity].
  reflexivity.
Qed.


(* ---- Insert / InsertSlice ---- *)

(* the two copies of InsertSlice on an array already extended by append *)
Lemma insert_slice_core pre post vs tail i k :
  i = length pre -> k = length vs ->
  copy_from (copy_within (pre ++ post ++ vs ++ tail) (Win (i + k) (length post)) (Win i (length post + k)))
            (Win i (length post + k)) vs
  = pre ++ vs ++ post ++ tail.
Proof.
  intros -> ->. unfold copy_within, copy_from. cbn [w_len w_off].
  rewrite Nat.min_l by lia. rewrite Nat.min_r by lia. rewrite firstn_all.
  rewrite (skipn_app_exact pre) by reflexivity.
  rewrite (firstn_app_exact post) by reflexivity.
  set (h := firstn (length vs) (post ++ vs)).
  set (old := skipn (length vs) (post ++ vs)).
  assert (Eh : length h = length vs) by (unfold h; rewrite firstn_length, app_length; lia).
  assert (Eo : length old = length post) by (unfold old; rewrite skipn_length, app_length; lia).
  assert (E : pre ++ post ++ vs ++ tail = (pre ++ h) ++ old ++ tail).
  { rewrite <- app_assoc. f_equal. rewrite (app_assoc post vs tail).
    rewrite <- (firstn_skipn (length vs) (post ++ vs)). fold h old. rewrite <- app_assoc. reflexivity. }
  rewrite E. rewrite write_at_app by (rewrite ?app_length; lia).
  rewrite <- app_assoc. apply write_at_app; [reflexivity|exact Eh].
Qed.

Lemma split_at (l : list A) i : i <= length l ->
  exists pre post, l = pre ++ post /\ length pre = i /\ length post = length l - i /\
                   firstn i l = pre /\ skipn i l = post.
Proof.
  intros H. exists (firstn i l), (skipn i l).
  rewrite firstn_skipn, firstn_length, skipn_length. repeat split; lia.
Qed.

Lemma Zofnat_add1 (i : nat) : (Z.of_nat i + 1)%Z = Z.of_nat (i + 1).
Proof. lia. Qed.

Theorem insert_slice_correct growth zero s (i : nat) vs : wf s -> i <= len s ->
  insert_slice growth zero s (Z.of_nat i) vs =
  (GS (splice_in (visible s) i vs ++ append_tail growth zero s (length vs)) (len s + length vs), Ok tt).
Proof.
  intros W Hi. unfold insert_slice, splice_in. rewrite append_spec by exact W.
  set (tail := append_tail growth zero s (length vs)).
  destruct (split_at (visible s) i) as (pre & post & E & Lpre & Lpost & -> & ->);
    [rewrite visible_length by exact W; exact Hi|].
  rewrite visible_length in Lpost by exact W.
  rewrite E. unfold with_arr; cbn [stp len arr].
  rewrite <- Nat2Z.inj_add.
  rewrite slice_from_ok by (cbn [len]; lia). unfold with_arr; cbn [stp len arr].
  rewrite slice_from_ok by (cbn [len]; lia). unfold with_arr; cbn [stp len arr].
  rewrite slice_from_ok by (cbn [len]; lia). unfold with_arr; cbn [stp len arr].
  replace (len s + length vs - (i + length vs)) with (length post) by lia.
  replace (len s + length vs - i) with (length post + length vs) by lia.
  rewrite <- !app_assoc.
  rewrite insert_slice_core by (symmetry; assumption || reflexivity).
  reflexivity.
Qed.

Theorem insert_correct growth zero s (i : nat) v : wf s -> i <= len s ->
  insert growth zero s (Z.of_nat i) v =
  (GS (splice_in (visible s) i [v] ++ append_tail growth zero s 1) (len s + 1), Ok tt).
Proof.
  intros W Hi. unfold insert, splice_in. rewrite append_spec by exact W. cbn [length].
  set (tail := append_tail growth zero s 1).
  destruct (split_at (visible s) i) as (pre & post & E & Lpre & Lpost & -> & ->);
    [rewrite visible_length by exact W; exact Hi|].
  rewrite visible_length in Lpost by exact W.
  rewrite E. unfold with_arr; cbn [stp len arr].
  rewrite Zofnat_add1.
  rewrite slice_from_ok by (cbn [len]; lia). unfold with_arr; cbn [stp len arr].
  rewrite slice_from_ok by (cbn [len]; lia). unfold with_arr; cbn [stp len arr].
  rewrite set_index_ok by (cbn [len]; lia). unfold with_arr; cbn [stp len arr].
  replace (len s + 1 - (i + 1)) with (length post) by lia.
  replace (len s + 1 - i) with (length post + 1) by lia.
  rewrite <- !app_assoc.
  pose proof (insert_slice_core pre post [v] tail i 1 (eq_sym Lpre) eq_refl) as C.
  unfold copy_from in C. cbn [w_len w_off length] in C.
  rewrite Nat.min_r in C by lia. cbn [firstn] in C.
  rewrite C. reflexivity.
Qed.

(* invalid positions: the panic comes after the append, so the slice has grown *)
Theorem insert_slice_panics growth zero s (index : Z) vs :
  (index < 0 \/ Z.of_nat (len s) < index)%Z ->
  insert_slice growth zero s index vs = (append growth zero s vs, Panic IndexOutOfRange).
Proof.
  intros H. unfold insert_slice.
  set (s1 := append growth zero s vs).
  assert (L : len s1 = len s + length vs).
  { unfold s1, append. destruct (_ <=? _); reflexivity. }
  destruct (slice_from s1 (index + Z.of_nat (length vs))) as [d|k] eqn:E1.
  - cbn [stp]. rewrite slice_from_panic; [reflexivity|]. rewrite L.
    destruct H as [H|H]; [left; exact H|].
    exfalso. unfold slice_from in E1. rewrite L in E1.
    destruct ((0 <=? index + Z.of_nat (length vs))%Z && (index + Z.of_nat (length vs) <=? Z.of_nat (len s + length vs))%Z) eqn:B;
      [|discriminate].
    apply andb_true_iff in B as [_ B]. apply Z.leb_le in B. lia.
  - cbn [stp]. unfold slice_from in E1. destruct (_ && _); [discriminate|]. injection E1 as <-. reflexivity.
Qed.

Theorem insert_panics growth zero s (index : Z) v :
  (index < 0 \/ Z.of_nat (len s) < index)%Z ->
  insert growth zero s index v = (append growth zero s [v], Panic IndexOutOfRange).
Proof.
  intros H. unfold insert.
  set (s1 := append growth zero s [v]).
  assert (L : len s1 = len s + 1).
  { unfold s1, append. destruct (_ <=? _); reflexivity. }
  destruct (slice_from s1 (index + 1)) as [d|k] eqn:E1.
  - cbn [stp]. rewrite slice_from_panic; [reflexivity|]. rewrite L.
    destruct H as [H|H]; [left; exact H|].
    exfalso. unfold slice_from in E1. rewrite L in E1.
    destruct ((0 <=? index + 1)%Z && (index + 1 <=? Z.of_nat (len s + 1))%Z) eqn:B; [|discriminate].
    apply andb_true_iff in B as [_ B]. apply Z.leb_le in B. lia.
  - cbn [stp]. unfold slice_from in E1. destruct (_ && _); [discriminate|]. injection E1 as <-. reflexivity.
Qed.


(* ---- Remove / RemoveSlice ---- *)

Lemma copy_shift_left pre mid post g i k :
  i = length pre -> k = length mid ->
  copy_within (pre ++ mid ++ post ++ g) (Win i (k + length post)) (Win (i + k) (length post))
  = pre ++ post ++ skipn (length post) (mid ++ post ++ g).
Proof.
  intros -> ->. unfold copy_within. cbn [w_len w_off].
  rewrite Nat.min_r by lia.
  rewrite (skipn_app_plus pre _ _ (length mid)) by reflexivity.
  rewrite (skipn_app_exact mid) by reflexivity.
  rewrite (firstn_app_exact post) by reflexivity.
  set (R := mid ++ post ++ g).
  rewrite <- (firstn_skipn (length post) R) at 1.
  apply write_at_app; [reflexivity|].
  rewrite firstn_length. unfold R. rewrite !app_length. lia.
Qed.

Lemma slice_from_inv s (i : Z) w : slice_from s i = Ok w -> (0 <= i <= Z.of_nat (len s))%Z.
Proof.
  unfold slice_from. destruct (_ && _) eqn:B; [|discriminate]. intros _.
  apply andb_true_iff in B as [B1 B2]. apply Z.leb_le in B1, B2. lia.
Qed.

Lemma slice_from_panic_kind s (i : Z) k : slice_from s i = Panic k -> k = IndexOutOfRange.
Proof. unfold slice_from. destruct (_ && _); [discriminate|]. intros E. injection E as <-. reflexivity. Qed.

Theorem remove_slice_correct s (i k : nat) : wf s -> i + k <= len s ->
  remove_slice s (Z.of_nat i) (Z.of_nat k) =
  (GS (splice_out (visible s) i k ++ skipn (len s - k) (arr s)) (len s - k), Ok tt).
Proof.
  destruct s as [a n]. unfold wf, cap, visible, splice_out. cbn [arr len]. intros W H.
  destruct (split4 a i k n H W) as (pre & mid & post & g & -> & Lpre & Lmid & Lpost).
  unfold remove_slice.
  rewrite slice_from_ok by (cbn [len]; lia). unfold with_arr; cbn [stp len arr].
  rewrite <- Nat2Z.inj_add.
  rewrite slice_from_ok by (cbn [len]; lia). unfold with_arr; cbn [stp len arr].
  replace (n - i) with (k + length post) by lia.
  replace (n - (i + k)) with (length post) by lia.
  rewrite copy_shift_left by (symmetry; assumption).
  replace (Z.of_nat n - Z.of_nat k)%Z with (Z.of_nat (n - k)) by lia.
  unfold reslice_to. rewrite slice_to_ok.
  2:{ unfold cap. cbn [arr]. rewrite !app_length, skipn_length, !app_length. lia. }
  cbn [bind stp w_len]. f_equal. f_equal.
  assert (V : firstn n (pre ++ mid ++ post ++ g) = pre ++ mid ++ post).
  { rewrite (app_assoc mid), (app_assoc pre). apply firstn_app_exact. rewrite !app_length. lia. }
  rewrite V.
  rewrite (firstn_app_exact pre (mid ++ post) i) by (symmetry; exact Lpre).
  rewrite (skipn_app_plus pre (mid ++ post) (i + k) k) by lia.
  rewrite (skipn_app_exact mid post k) by (symmetry; exact Lmid).
  cbn [arr]. rewrite <- app_assoc. f_equal. f_equal. symmetry.
  apply skipn_app_plus. lia.
Qed.

Theorem remove_correct s (i : nat) : wf s -> i < len s ->
  remove s (Z.of_nat i) =
  (GS (splice_out (visible s) i 1 ++ skipn (len s - 1) (arr s)) (len s - 1), Ok tt).
Proof.
  intros W H. rewrite <- (remove_slice_correct s i 1 W) by lia.
  unfold remove, remove_slice. repeat f_equal.
Qed.

(* invalid positions: the panic comes before anything is written *)
Theorem remove_slice_panics s (index length : Z) :
  (0 <= length)%Z -> (index < 0 \/ Z.of_nat (len s) < index + length)%Z ->
  remove_slice s index length = (s, Panic IndexOutOfRange).
Proof.
  intros Hl H. unfold remove_slice.
  destruct (slice_from s index) as [d|k] eqn:E1; cbn [stp].
  - apply slice_from_inv in E1. rewrite slice_from_panic; [reflexivity|]. lia.
  - apply slice_from_panic_kind in E1. subst k. reflexivity.
Qed.

Theorem remove_panics s (index : Z) :
  (index < 0 \/ Z.of_nat (len s) <= index)%Z ->
  remove s index = (s, Panic IndexOutOfRange).
Proof.
  intros H. rewrite <- (remove_slice_panics s index 1) by lia.
  unfold remove, remove_slice.
  destruct (slice_from s index); cbn [stp]; [|reflexivity].
  destruct (slice_from s (index + 1)); reflexivity.
Qed.


(* ---- Fill / Repeat ---- *)

Lemma firstn_repeat (v : A) n m : n <= m -> firstn n (repeat v m) = repeat v n.
Proof.
  revert m; induction n as [|n IH]; intros [|m] H; cbn [firstn repeat]; try reflexivity; try lia.
  f_equal. apply IH. lia.
Qed.

(* invariant of the exponential copy loop: the first min(i,n) elements are v, the rest is untouched *)
Lemma fill_loop_spec (v : A) n : forall fuel i rest,
  1 <= i -> n <= i + fuel -> n <= Nat.min i n + length rest ->
  fill_loop fuel (GS (repeat v (Nat.min i n) ++ rest) n) i =
  Ok (GS (repeat v n ++ skipn (n - Nat.min i n) rest) n).
Proof.
  induction fuel as [|fuel IH]; intros i rest Hi Hf Hr.
  - assert (E : i <? n = false) by (apply Nat.ltb_ge; lia).
    cbn [fill_loop len]. rewrite E.
    rewrite Nat.min_r by lia. rewrite Nat.sub_diag. reflexivity.
  - cbn [fill_loop len]. destruct (i <? n) eqn:E.
    + apply Nat.ltb_lt in E. rewrite Nat.min_l in * by lia.
      rewrite slice_from_ok by (cbn [len]; lia). cbn [bind].
      rewrite slice_to_ok by (unfold cap; cbn [arr]; rewrite app_length, repeat_length; lia).
      cbn [bind]. unfold with_arr. cbn [len arr].
      set (cnt := Nat.min (n - i) i).
      assert (C : copy_within (repeat v i ++ rest) (Win i (n - i)) (Win 0 i)
                  = repeat v (Nat.min (i + i) n) ++ skipn cnt rest).
      { unfold copy_within. cbn [w_len w_off skipn]. fold cnt.
        rewrite firstn_app, firstn_repeat by (unfold cnt; lia).
        rewrite repeat_length.
        replace (cnt - i) with 0 by (unfold cnt; lia). cbn [firstn]. rewrite app_nil_r.
        rewrite <- (firstn_skipn cnt rest) at 1.
        rewrite write_at_app; [| rewrite repeat_length; reflexivity
                               | rewrite firstn_length, repeat_length; unfold cnt; lia].
        rewrite app_assoc, <- repeat_app. f_equal. f_equal. unfold cnt. lia. }
      rewrite C. rewrite IH; [| lia | lia | rewrite skipn_length; unfold cnt; lia].
      f_equal. f_equal. f_equal. rewrite skipn_skipn'. f_equal. unfold cnt. lia.
    + apply Nat.ltb_ge in E. rewrite Nat.min_r by lia. rewrite Nat.sub_diag. reflexivity.
Qed.

Theorem fill_correct s (v : A) : wf s ->
  fill s v = Ok (GS (repeat v (len s) ++ skipn (len s) (arr s)) (len s)).
Proof.
  destruct s as [a n]. unfold wf, cap, fill. cbn [arr len]. intros W.
  destruct (n =? 0) eqn:E.
  - apply Nat.eqb_eq in E. subst n. reflexivity.
  - apply Nat.eqb_neq in E.
    destruct a as [|x a]; [cbn [length] in W; lia|].
    change 0%Z with (Z.of_nat 0). rewrite set_index_ok by (cbn [len]; lia).
    unfold with_arr, write_at. cbn [bind len arr firstn skipn length app plus].
    pose proof (fill_loop_spec v n n 1 a) as L.
    rewrite Nat.min_l in L by lia. cbn [repeat app] in L.
    rewrite L; [| lia | lia | cbn [length] in W; lia].
    f_equal. f_equal. f_equal.
    destruct n as [|n]; [lia|]. cbn [skipn]. f_equal. lia.
Qed.

Theorem repeat_correct (zero v : A) (count : nat) :
  repeat_ zero v (Z.of_nat count) = Ok (GS (repeat v count) count).
Proof.
  unfold repeat_, make_slice.
  replace (Z.of_nat count <? 0)%Z with false by (symmetry; apply Z.ltb_ge; lia).
  rewrite Nat2Z.id. cbn [bind].
  rewrite fill_correct by (unfold wf, cap; cbn [arr len]; rewrite repeat_length; lia).
  cbn [arr len]. rewrite skipn_all2 by (rewrite repeat_length; lia).
  rewrite app_nil_r. reflexivity.
Qed.

Theorem repeat_panics (zero v : A) (count : Z) : (count < 0)%Z ->
  repeat_ zero v count = Panic OtherPanic.
Proof.
  intros H. unfold repeat_, make_slice.
  replace (count <? 0)%Z with true by (symmetry; apply Z.ltb_lt; lia). reflexivity.
Qed.


(* ---- Reverse ---- *)

Lemma reverse_cond (p m n : nat) : n = p + m + p ->
  (Z.of_nat p <? Z.of_nat n / 2)%Z = (2 <=? m).
Proof.
  intros ->. destruct (2 <=? m) eqn:E.
  - apply Nat.leb_le in E. apply Z.ltb_lt.
    apply Z.lt_le_trans with (Z.of_nat p + 1)%Z; [lia|].
    apply Z.div_le_lower_bound; lia.
  - apply Nat.leb_gt in E. apply Z.ltb_ge.
    apply Z.lt_succ_r. apply Z.div_lt_upper_bound; lia.
Qed.

Ltac norm_app := repeat (progress (repeat rewrite <- app_assoc; cbn [app])).

(* invariant of the two-index walk: the outer parts are already exchanged, the middle is still to do *)
Lemma reverse_loop_spec g n : forall fuel mid pre post (i j : Z),
  length mid <= 2 * fuel -> length post = length pre -> n = length pre + length mid + length post ->
  i = Z.of_nat (length pre) -> j = (Z.of_nat (length pre + length mid) - 1)%Z ->
  reverse_loop fuel (GS (pre ++ mid ++ post ++ g) n) i j = Ok (GS (pre ++ rev mid ++ post ++ g) n).
Proof.
  induction fuel as [|fuel IH]; intros mid pre post i j Hf Hp Hn -> ->.
  - destruct mid as [|a mid]; [|cbn [length] in Hf; lia].
    cbn [reverse_loop len]. rewrite (reverse_cond (length pre) 0 n) by (cbn [length] in Hn; lia).
    reflexivity.
  - cbn [reverse_loop len].
    rewrite (reverse_cond (length pre) (length mid) n) by lia.
    destruct mid as [|a [|a2 mid2]]; [reflexivity|reflexivity|].
    destruct (@exists_last _ (a2 :: mid2)) as (mid' & b & E); [discriminate|].
    rewrite E in *. clear E a2 mid2.
    cbn [length] in *. rewrite app_length in *. cbn [length] in *.
    replace (2 <=? S (length mid' + 1)) with true by (symmetry; apply Nat.leb_le; lia).
    replace (Z.of_nat (length pre + S (length mid' + 1)) - 1)%Z
      with (Z.of_nat (length (pre ++ a :: mid'))) by (rewrite app_length; cbn [length]; lia).
    rewrite (get_index_ok _ _ (pre ++ a :: mid') b (post ++ g));
      [| cbn [len]; rewrite app_length; cbn [length]; lia | cbn [arr]; norm_app; reflexivity | reflexivity].
    cbn [bind].
    rewrite (get_index_ok _ _ pre a (mid' ++ b :: post ++ g));
      [| cbn [len]; lia | cbn [arr]; norm_app; reflexivity | reflexivity].
    cbn [bind].
    rewrite set_index_ok by (cbn [len]; lia). cbn [bind]. unfold with_arr at 1. cbn [len arr].
    replace (pre ++ (a :: mid' ++ [b]) ++ post ++ g) with (pre ++ [a] ++ (mid' ++ b :: post ++ g))
      by (norm_app; reflexivity).
    rewrite write_at_app by reflexivity.
    rewrite set_index_ok by (cbn [len]; rewrite app_length; cbn [length]; lia).
    cbn [bind]. unfold with_arr. cbn [len arr].
    replace (pre ++ [b] ++ mid' ++ b :: post ++ g) with ((pre ++ b :: mid') ++ [b] ++ (post ++ g))
      by (norm_app; reflexivity).
    rewrite write_at_app by (rewrite ?app_length; reflexivity).
    replace ((pre ++ b :: mid') ++ [a] ++ post ++ g) with ((pre ++ [b]) ++ mid' ++ (a :: post) ++ g)
      by (norm_app; reflexivity).
    rewrite (IH mid' (pre ++ [b]) (a :: post));
      try (rewrite ?app_length; cbn [length]; lia).
    f_equal. f_equal. cbn [rev]. rewrite rev_app_distr. cbn [rev app]. norm_app. reflexivity.
Qed.

Theorem reverse_correct s : wf s ->
  reverse s = Ok (GS (rev (visible s) ++ skipn (len s) (arr s)) (len s)).
Proof.
  intros W. unfold reverse.
  pose proof (reverse_loop_spec (skipn (len s) (arr s)) (len s) (len s) (visible s) [] []
               0%Z (Z.of_nat (len s) - 1)%Z) as L.
  rewrite visible_length in L by exact W. cbn [app length] in L.
  unfold visible in L at 1. rewrite firstn_skipn in L.
  destruct s as [a n]. cbn [arr len] in *. apply L; lia.
Qed.

(* ---- Concat / Clone / Grow ---- *)

Lemma make_slice_ok (zero : A) (n : nat) : make_slice zero (Z.of_nat n) = Ok (GS (repeat zero n) n).
Proof.
  unfold make_slice.
  replace (Z.of_nat n <? 0)%Z with false by (symmetry; apply Z.ltb_ge; lia).
  rewrite Nat2Z.id. reflexivity.
Qed.

Theorem concat_correct (zero : A) (a b : gslice A) : wf a -> wf b ->
  concat_ zero a b = Ok (GS (visible a ++ visible b) (len a + len b)).
Proof.
  intros Wa Wb. unfold concat_.
  rewrite <- Nat2Z.inj_add, make_slice_ok. cbn [bind].
  rewrite slice_to_ok by (unfold cap; cbn [arr]; rewrite repeat_length; lia).
  cbn [bind]. unfold with_arr. cbn [len arr].
  rewrite slice_from_ok by (cbn [len]; lia). cbn [bind len arr].
  unfold copy_from. cbn [w_len w_off].
  rewrite !visible_length by assumption.
  rewrite (firstn_all2 (visible a)) by (rewrite visible_length by assumption; lia).
  rewrite (firstn_all2 (visible b)) by (rewrite visible_length by assumption; lia).
  rewrite repeat_app.
  pose proof (write_at_app [] (repeat zero (len a)) (visible a) (repeat zero (len b)) 0 eq_refl) as E1.
  cbn [app] in E1. rewrite E1 by (rewrite repeat_length, visible_length by assumption; reflexivity).
  pose proof (write_at_app (visible a) (repeat zero (len b)) (visible b) [] (len a)) as E2.
  rewrite !app_nil_r in E2. rewrite E2; [reflexivity| symmetry; apply visible_length; assumption |].
  rewrite repeat_length, visible_length by assumption. reflexivity.
Qed.

Theorem clone_correct (zero : A) s : wf s -> clone zero s = Ok (GS (visible s) (len s)).
Proof.
  intros W. unfold clone. rewrite make_slice_ok. cbn [bind]. unfold with_arr, whole, copy_from.
  cbn [len arr w_len w_off]. rewrite visible_length by exact W.
  rewrite (firstn_all2 (visible s)) by (rewrite visible_length by assumption; lia).
  pose proof (write_at_app [] (repeat zero (len s)) (visible s) [] 0 eq_refl) as E.
  cbn [app] in E. rewrite !app_nil_r in E. rewrite E; [reflexivity|].
  rewrite repeat_length, visible_length by exact W. reflexivity.
Qed.

Theorem grow_correct growth (zero : A) s (n : nat) : wf s ->
  grow growth zero s (Z.of_nat n) =
  Ok (GS (visible s ++ repeat zero n ++ append_tail growth zero s n) (len s + n)).
Proof.
  intros W. unfold grow. rewrite make_slice_ok. cbn [bind].
  unfold visible at 1. cbn [len arr]. rewrite <- (repeat_length zero n) at 1. rewrite firstn_all.
  rewrite append_spec by exact W. rewrite repeat_length. reflexivity.
Qed.

Theorem grow_panics growth (zero : A) s (n : Z) : (n < 0)%Z -> grow growth zero s n = Panic OtherPanic.
Proof.
  intros H. unfold grow, make_slice.
  replace (n <? 0)%Z with true by (symmetry; apply Z.ltb_lt; lia). reflexivity.
Qed.

(* ---- what the closed forms mean ---- *)

(* the visible part of every result, and that the results are well formed *)
Lemma visible_GS_app (l tail : list A) n : n = length l -> visible (GS (l ++ tail) n) = l.
Proof. intros ->. unfold visible. cbn [arr len]. apply firstn_app_exact. reflexivity. Qed.

Lemma splice_in_length (l : list A) i xs : length (splice_in l i xs) = length l + length xs.
Proof.
  unfold splice_in. rewrite !app_length.
  rewrite <- (firstn_skipn i l) at 3. rewrite app_length. lia.
Qed.

Lemma splice_out_length (l : list A) i k : i + k <= length l -> length (splice_out l i k) = length l - k.
Proof.
  intros H. unfold splice_out. rewrite app_length, firstn_length, skipn_length. lia.
Qed.


Lemma nth_error_firstn' (l : list A) i j : j < i -> i <= length l -> nth_error (firstn i l) j = nth_error l j.
Proof.
  intros H1 H2. rewrite <- (firstn_skipn i l) at 2.
  rewrite nth_error_app1; [reflexivity|]. rewrite firstn_length. lia.
Qed.

Lemma nth_error_skipn' (l : list A) i j : i <= length l -> nth_error (skipn i l) j = nth_error l (i + j).
Proof.
  intros H. rewrite <- (firstn_skipn i l) at 2.
  rewrite nth_error_app2; rewrite firstn_length; [|lia]. f_equal. lia.
Qed.

(* splicing in: everything before position i stays, then xs, then the rest in order *)
Theorem splice_in_nth (l : list A) i xs j : i <= length l ->
  nth_error (splice_in l i xs) j =
  if j <? i then nth_error l j
  else if j <? i + length xs then nth_error xs (j - i)
  else nth_error l (j - length xs).
Proof.
  intros H. unfold splice_in.
  destruct (j <? i) eqn:E1.
  - apply Nat.ltb_lt in E1. rewrite nth_error_app1 by (rewrite firstn_length; lia).
    apply nth_error_firstn'; lia.
  - apply Nat.ltb_ge in E1. rewrite nth_error_app2 by (rewrite firstn_length; lia).
    rewrite firstn_length. replace (Nat.min i (length l)) with i by lia.
    destruct (j <? i + length xs) eqn:E2.
    + apply Nat.ltb_lt in E2. rewrite nth_error_app1 by lia. reflexivity.
    + apply Nat.ltb_ge in E2. rewrite nth_error_app2 by lia.
      rewrite nth_error_skipn' by lia. f_equal. lia.
Qed.

(* splicing out: everything before position i stays, the elements from i+k on follow in order *)
Theorem splice_out_nth (l : list A) i k j : i + k <= length l ->
  nth_error (splice_out l i k) j = if j <? i then nth_error l j else nth_error l (j + k).
Proof.
  intros H. unfold splice_out.
  destruct (j <? i) eqn:E1.
  - apply Nat.ltb_lt in E1. rewrite nth_error_app1 by (rewrite firstn_length; lia).
    apply nth_error_firstn'; lia.
  - apply Nat.ltb_ge in E1. rewrite nth_error_app2 by (rewrite firstn_length; lia).
    rewrite firstn_length. replace (Nat.min i (length l)) with i by lia.
    rewrite nth_error_skipn' by lia. f_equal. lia.
Qed.

Lemma append_tail_length growth (zero : A) s k : wf s ->
  length (append_tail growth zero s k) =
  (if len s + k <=? cap s then cap s else new_cap growth (cap s) (len s + k)) - (len s + k).
Proof.
  intros W. unfold append_tail. destruct (len s + k <=? cap s).
  - rewrite skipn_length. reflexivity.
  - apply repeat_length.
Qed.

(* the results in terms of visible part / spare capacity; all results are well formed slices *)
Theorem insert_slice_visible growth zero s (i : nat) vs : wf s -> i <= len s ->
  let r := fst (insert_slice growth zero s (Z.of_nat i) vs) in
  snd (insert_slice growth zero s (Z.of_nat i) vs) = Ok tt /\ wf r /\ len r = len s + length vs /\
  visible r = splice_in (visible s) i vs /\ spare r = append_tail growth zero s (length vs).
Proof.
  intros W H. rewrite insert_slice_correct by assumption. cbn [fst snd].
  assert (L : len s + length vs = length (splice_in (visible s) i vs))
    by (rewrite splice_in_length, visible_length by exact W; reflexivity).
  unfold wf, cap, spare. cbn [arr len]. repeat split.
  - rewrite app_length. lia.
  - apply visible_GS_app. exact L.
  - apply skipn_app_exact. exact L.
Qed.

Theorem insert_visible growth zero s (i : nat) v : wf s -> i <= len s ->
  let r := fst (insert growth zero s (Z.of_nat i) v) in
  snd (insert growth zero s (Z.of_nat i) v) = Ok tt /\ wf r /\ len r = len s + 1 /\
  visible r = splice_in (visible s) i [v] /\ spare r = append_tail growth zero s 1.
Proof.
  intros W H. rewrite insert_correct by assumption. cbn [fst snd].
  assert (L : len s + 1 = length (splice_in (visible s) i [v]))
    by (rewrite splice_in_length, visible_length by exact W; reflexivity).
  unfold wf, cap, spare. cbn [arr len]. repeat split.
  - rewrite app_length. lia.
  - apply visible_GS_app. exact L.
  - apply skipn_app_exact. exact L.
Qed.

Theorem remove_slice_visible s (i k : nat) : wf s -> i + k <= len s ->
  let r := fst (remove_slice s (Z.of_nat i) (Z.of_nat k)) in
  snd (remove_slice s (Z.of_nat i) (Z.of_nat k)) = Ok tt /\ wf r /\ len r = len s - k /\ cap r = cap s /\
  visible r = splice_out (visible s) i k /\ spare r = skipn (len s - k) (arr s).
Proof.
  intros W H. rewrite remove_slice_correct by assumption. cbn [fst snd].
  assert (L : len s - k = length (splice_out (visible s) i k))
    by (rewrite splice_out_length; rewrite visible_length by exact W; [reflexivity|lia]).
  assert (C : length (splice_out (visible s) i k ++ skipn (len s - k) (arr s)) = cap s).
  { rewrite app_length, <- L, skipn_length. unfold wf, cap in *. lia. }
  unfold wf, cap, spare in *. cbn [arr len]. repeat split.
  - rewrite C. lia.
  - exact C.
  - apply visible_GS_app. exact L.
  - apply skipn_app_exact. exact L.
Qed.

Theorem remove_visible s (i : nat) : wf s -> i < len s ->
  let r := fst (remove s (Z.of_nat i)) in
  snd (remove s (Z.of_nat i)) = Ok tt /\ wf r /\ len r = len s - 1 /\ cap r = cap s /\
  visible r = splice_out (visible s) i 1 /\ spare r = skipn (len s - 1) (arr s).
Proof.
  intros W H. pose proof (remove_slice_visible s i 1 W) as R.
  rewrite remove_correct by assumption.
  rewrite remove_slice_correct in R by (assumption || lia). apply R. lia.
Qed.


(* what lies behind the appended elements: the old spare capacity, untouched, when there was room;
   otherwise the zeroed rest of a new array at least as long as needed *)
Theorem append_tail_cases growth (zero : A) s k :
  (len s + k <= cap s -> append_tail growth zero s k = skipn (len s + k) (arr s)) /\
  (cap s < len s + k ->
     append_tail growth zero s k = repeat zero (new_cap growth (cap s) (len s + k) - (len s + k)) /\
     len s + k <= new_cap growth (cap s) (len s + k)).
Proof.
  unfold append_tail, new_cap. split; intros H.
  - replace (len s + k <=? cap s) with true by (symmetry; apply Nat.leb_le; lia). reflexivity.
  - replace (len s + k <=? cap s) with false by (symmetry; apply Nat.leb_gt; lia). split; [reflexivity|lia].
Qed.

End Proofs.
