(* Correspondence check for C07: the harness builds a slices.Sorted[int] with
   NewSorted / NewSortedOrdered, applies a list of operations and records every
   return value (or panic), the contents right after construction and the
   final contents; [check_case] re-runs the model (sort.Stable instantiated by
   the verified [insertion_sort]) and compares. Definitions only. *)
From Typ Require Export Lib.Base Slices.SortSearch Slices.Sorted.

(* how the object is built: NewSortedOrdered, or NewSorted with one of the
   harness's less functions (a<b, b<a, a>>2 < b>>2 : key-only, with ties).
   The zero value [var s Sorted[int]] (less == nil, the model's [None] branch)
   is outside the property: the harness runs it and only counts whether the
   code does what the transcription says; it is not judged here. *)
Inductive order := OOrdered | ONat | ORev | OKey.

Definition less_of (o : order) : Z -> Z -> bool :=
  match o with
  | OOrdered | ONat => Z.ltb
  | ORev => fun a b => Z.ltb b a
  | OKey => fun a b => Z.ltb (a / 4) (b / 4)
  end.

Record case := Case {
  c_order : order;
  c_init : list Z;             (* the caller's slice *)
  c_ops : list (op Z);
  c_start : list Z;            (* observed contents after construction *)
  c_rets : list (ret Z);       (* observed result of every operation *)
  c_final : list Z             (* observed contents at the end *)
}.

Definition new_case (c : case) : result (sorted Z) :=
  match c_order c with
  | OOrdered => NewSortedOrdered 0%Z insertion_sort Z.ltb (c_init c)
  | o => NewSorted 0%Z insertion_sort (c_init c) (less_of o)
  end.

Definition ret_eqb (a b : ret Z) : bool :=
  match a, b with
  | RInt x, RInt y => Z.eqb x y
  | RBool x, RBool y => Bool.eqb x y
  | RVal x, RVal y => Z.eqb x y
  | RUnit, RUnit => true
  | RList x, RList y => list_eqb Z.eqb x y
  (* the property says "panics", not with what: the value a call panics with
     (kind, message) is not compared, only that both sides panic *)
  | RPanic _, RPanic _ => true
  | _, _ => false
  end.

Definition run_case (c : case) : result (list Z * list (ret Z) * list Z) :=
  do s <- new_case c;
  let (s', rs) := run Z.eqb s (c_ops c) in
  Ok (String s, rs, String s').

Definition check_case (c : case) : bool :=
  match run_case c with
  | Ok (start, rs, final) =>
      list_eqb Z.eqb start (c_start c) && list_eqb ret_eqb rs (c_rets c) && list_eqb Z.eqb final (c_final c)
  | Panic _ => false
  end.
