(* Proofs about the model of the functional slice helpers (Slices/Func.v). *)
From Typ Require Import Lib.Base Slices.Func.
From Coq Require Import Permutation.

(* ---- the range statement -------------------------------------------------- *)

(* a loop whose body never leaves the function is a left fold *)
Lemma range_from_next {A S R} (body : nat -> A -> S -> ctl S R) (g : S -> A -> S) :
  (forall i v s, body i v s = Next (g s v)) ->
  forall l i s, range_from body i l s = Next (fold_left g l s).
Proof.
  intros Hb l; induction l as [|v l IH]; intros i s; cbn [range_from fold_left]; [reflexivity|].
  rewrite Hb. apply IH.
Qed.

Lemma range_from_app {A St R} (body : nat -> A -> St -> ctl St R) (l1 l2 : list A) : forall i s,
  range_from body i (l1 ++ l2) s =
  match range_from body i l1 s with
  | Next s' => range_from body (i + length l1) l2 s'
  | Ret r => Ret r
  end.
Proof.
  induction l1 as [|v l1 IH]; intros i s; cbn [range_from app length].
  - rewrite Nat.add_0_r. reflexivity.
  - destruct (body i v s); [|reflexivity]. rewrite IH.
    replace (i + 1 + length l1) with (i + S (length l1)) by lia. reflexivity.
Qed.

(* a search loop: leaves at the first element satisfying p *)
Lemma range_from_search_none {A R} (p : A -> bool) (ret : nat -> A -> R) (l : list A) : forall i,
  (forall x, In x l -> p x = false) ->
  range_from (fun i v (_ : unit) => if p v then Ret (ret i v) else Next tt) i l tt = Next tt.
Proof.
  induction l as [|v l IH]; intros i Hall; cbn [range_from]; [reflexivity|].
  rewrite (Hall v (or_introl eq_refl)). apply IH. intros x Hx. apply Hall. right. exact Hx.
Qed.

Lemma range_from_search_first {A R} (p : A -> bool) (ret : nat -> A -> R) (pre : list A) x post : forall i,
  (forall y, In y pre -> p y = false) -> p x = true ->
  range_from (fun i v (_ : unit) => if p v then Ret (ret i v) else Next tt) i (pre ++ x :: post) tt
  = Ret (ret (i + length pre) x).
Proof.
  induction pre as [|v pre IH]; intros i Hpre Hx; cbn [range_from app length].
  - rewrite Hx. f_equal. f_equal. lia.
  - rewrite (Hpre v (or_introl eq_refl)). rewrite IH; [|intros y Hy; apply Hpre; right; exact Hy|exact Hx].
    f_equal. f_equal. lia.
Qed.

Lemma range_from_search_existsb {A} (p : A -> bool) (b : bool) (l : list A) : forall i,
  match range_from (fun _ v (_ : unit) => if p v then Ret b else Next tt) i l tt with
  | Ret r => r
  | Next _ => negb b
  end = if existsb p l then b else negb b.
Proof.
  induction l as [|v l IH]; intros i; cbn [range_from existsb]; [reflexivity|].
  destruct (p v); cbn [orb]; [reflexivity|apply IH].
Qed.

(* ---- Fold, FoldReverse ------------------------------------------------------ *)

Lemma fold_correct {A State} (l : list A) (seed : State) (acc : State -> A -> State) :
  fold l seed acc = fold_left acc l seed.
Proof.
  unfold fold, for_range. rewrite (range_from_next _ acc); reflexivity.
Qed.

Lemma get_z_nth {A} (l : list A) (k : nat) x :
  nth_error l k = Some x -> get_z l (Z.of_nat k) = Ok x.
Proof.
  intros E. unfold get_z. destruct (Z.ltb_spec (Z.of_nat k) 0); [lia|].
  rewrite Nat2Z.id. unfold get_nth. rewrite E. reflexivity.
Qed.

Lemma firstn_S_nth {A} (l : list A) k x :
  nth_error l k = Some x -> firstn (S k) l = firstn k l ++ [x].
Proof.
  revert k; induction l as [|h t IH]; intros [|k] E; cbn in *; try discriminate.
  - injection E as ->. reflexivity.
  - f_equal. apply IH. exact E.
Qed.

Lemma foldreverse_loop_correct {A State} (l : list A) (acc : State -> A -> State) :
  forall k fuel state, k <= length l -> k <= fuel ->
  foldreverse_loop fuel l acc (Z.of_nat k - 1) state = Ok (fold_left acc (rev (firstn k l)) state).
Proof.
  induction k as [|k IH]; intros fuel state Hk Hf.
  - destruct fuel; reflexivity.
  - destruct fuel as [|f]; [lia|]. cbn [foldreverse_loop].
    destruct (Z.geb_spec (Z.of_nat (S k) - 1) 0) as [_|?]; [|lia].
    replace (Z.of_nat (S k) - 1)%Z with (Z.of_nat k) by lia.
    destruct (nth_error l k) as [x|] eqn:E; [|apply nth_error_None in E; lia].
    rewrite (get_z_nth _ _ _ E). cbn [bind].
    rewrite IH by lia. rewrite (firstn_S_nth _ _ _ E), rev_app_distr. reflexivity.
Qed.

Lemma foldreverse_correct {A State} (l : list A) (seed : State) (acc : State -> A -> State) :
  foldreverse l seed acc = Ok (fold_left acc (rev l) seed).
Proof.
  unfold foldreverse. rewrite foldreverse_loop_correct by lia. rewrite firstn_all. reflexivity.
Qed.

(* ---- Index, IndexFunc, Contains, ContainsFunc, Any, All --------------------- *)

Lemma indexfunc_none {A} (l : list A) f :
  (forall x, In x l -> f x = false) -> indexfunc l f = (-1)%Z.
Proof.
  intros H. unfold indexfunc, for_range.
  rewrite (range_from_search_none f (fun i _ => Z.of_nat i)); [reflexivity|exact H].
Qed.

Lemma indexfunc_first {A} (pre : list A) x post f :
  (forall y, In y pre -> f y = false) -> f x = true ->
  indexfunc (pre ++ x :: post) f = Z.of_nat (length pre).
Proof.
  intros Hp Hx. unfold indexfunc, for_range.
  rewrite (range_from_search_first f (fun i _ => Z.of_nat i)); [reflexivity|exact Hp|exact Hx].
Qed.

Lemma index_eq_indexfunc {A} (eqb : A -> A -> bool) l v : index eqb l v = indexfunc l (fun x => eqb x v).
Proof. reflexivity. Qed.

Section Eqb.
Context {A : Type} (eqb : A -> A -> bool) (eqb_spec : forall x y, eqb x y = true <-> x = y).

Lemma eqb_false x y : eqb x y = false <-> x <> y.
Proof.
  destruct (eqb x y) eqn:E.
  - apply eqb_spec in E. split; [discriminate|congruence].
  - split; [|reflexivity]. intros _ H. apply eqb_spec in H. congruence.
Qed.

Lemma index_none (l : list A) v : ~ In v l -> index eqb l v = (-1)%Z.
Proof.
  intros H. rewrite index_eq_indexfunc. apply indexfunc_none.
  intros x Hx. apply eqb_false. intros ->. exact (H Hx).
Qed.

Lemma index_first (pre : list A) v post : ~ In v pre -> index eqb (pre ++ v :: post) v = Z.of_nat (length pre).
Proof.
  intros H. rewrite index_eq_indexfunc. apply indexfunc_first.
  - intros y Hy. apply eqb_false. intros ->. exact (H Hy).
  - apply eqb_spec. reflexivity.
Qed.
End Eqb.

Lemma containsfunc_existsb {A} (l : list A) v equals :
  containsfunc l v equals = existsb (fun u => equals u v) l.
Proof.
  unfold containsfunc, for_range.
  rewrite (range_from_search_existsb (fun u => equals u v) true). destruct (existsb _ l); reflexivity.
Qed.

Lemma contains_existsb {A} (eqb : A -> A -> bool) (l : list A) v :
  contains eqb l v = existsb (fun u => eqb u v) l.
Proof. exact (containsfunc_existsb l v eqb). Qed.

Lemma contains_In {A} (eqb : A -> A -> bool) (eqb_spec : forall x y, eqb x y = true <-> x = y) (l : list A) v :
  contains eqb l v = true <-> In v l.
Proof.
  rewrite contains_existsb, existsb_exists. split.
  - intros [u [Hu E]]. apply eqb_spec in E. subst. exact Hu.
  - intros H. exists v. split; [exact H|]. apply eqb_spec. reflexivity.
Qed.

Lemma any_correct {A} (l : list A) cond : any l cond = existsb cond l.
Proof.
  unfold any, for_range. rewrite (range_from_search_existsb cond true). destruct (existsb _ l); reflexivity.
Qed.

Lemma forallb_negb_existsb {A} (p : A -> bool) l : forallb p l = negb (existsb (fun v => negb (p v)) l).
Proof.
  induction l as [|v l IH]; cbn; [reflexivity|]. rewrite IH. destruct (p v); reflexivity.
Qed.

Lemma all_correct {A} (l : list A) cond : all l cond = forallb cond l.
Proof.
  unfold all, for_range. rewrite (range_from_search_existsb (fun v => negb (cond v)) false).
  rewrite forallb_negb_existsb. destruct (existsb _ l); reflexivity.
Qed.

(* ---- Map, MapErr, Filter ------------------------------------------------------ *)

Lemma set_nth_app {A} (d : list A) x y t : set_nth (length d) x (d ++ y :: t) = Ok (d ++ x :: t).
Proof.
  induction d as [|h d IH]; cbn [length app set_nth]; [reflexivity|]. rewrite IH. reflexivity.
Qed.

Lemma map_loop_correct {A B} (zero : B) (conv : A -> B) (rest : list A) : forall (done : list B),
  range_from (R := panic_kind) (fun i v result =>
       match set_nth i (conv v) result with Ok result' => Next result' | Panic k => Ret k end)
    (length done) rest (done ++ repeat zero (length rest))
  = Next (done ++ map conv rest).
Proof.
  induction rest as [|v rest IH]; intros done; cbn [range_from length repeat map].
  - reflexivity.
  - rewrite set_nth_app.
    replace (done ++ conv v :: repeat zero (length rest)) with ((done ++ [conv v]) ++ repeat zero (length rest))
      by (rewrite <- app_assoc; reflexivity).
    replace (length done + 1) with (length (done ++ [conv v])) by (rewrite app_length; reflexivity).
    rewrite IH. rewrite <- app_assoc. reflexivity.
Qed.

Lemma map_correct {A B} (zero : B) (l : list A) (conv : A -> B) : map_ zero l conv = Ok (map conv l).
Proof.
  unfold map_, for_range. pose proof (map_loop_correct zero conv l []) as E. cbn [length app] in E.
  rewrite E. reflexivity.
Qed.

Definition maperr_body {A B E} (conv : A -> B * option E)
  : nat -> A -> list B * list A -> ctl (list B * list A) (result (list B * option E * list A)) :=
  fun (i : nat) (v : A) '(result, calls) =>
    let '(r, err) := conv v in
    let calls := calls ++ [v] in
    match set_nth i r result with
    | Panic k => Ret (Panic k)
    | Ok result' =>
        match err with
        | Some e => Ret (Ok ([], Some e, calls))
        | None => Next (result', calls)
        end
    end.

Lemma maperr_loop_ok {A B E} (zero : B) (conv : A -> B * option E) (rest : list A) :
  forall (done : list B) (calls : list A) (tail : list B),
  (forall x, In x rest -> snd (conv x) = None) ->
  range_from (maperr_body conv) (length done) rest (done ++ repeat zero (length rest) ++ tail, calls)
  = Next (done ++ map (fun x => fst (conv x)) rest ++ tail, calls ++ rest).
Proof.
  induction rest as [|v rest IH]; intros done calls tail Hok; cbn [range_from length repeat map app].
  - rewrite app_nil_r. reflexivity.
  - unfold maperr_body at 1. pose proof (Hok v (or_introl eq_refl)) as Hv.
    destruct (conv v) as [r err] eqn:Ec. cbn [snd] in Hv. subst err.
    rewrite set_nth_app.
    replace (done ++ r :: repeat zero (length rest) ++ tail) with ((done ++ [r]) ++ repeat zero (length rest) ++ tail)
      by (rewrite <- app_assoc; reflexivity).
    replace (length done + 1) with (length (done ++ [r])) by (rewrite app_length; reflexivity).
    rewrite IH by (intros x Hx; apply Hok; right; exact Hx).
    cbn [fst]. rewrite <- !app_assoc. reflexivity.
Qed.

(* no conversion fails: every element converted, conv called once per element in order *)
Lemma maperr_no_error {A B E} (zero : B) (l : list A) (conv : A -> B * option E) :
  (forall x, In x l -> snd (conv x) = None) ->
  maperr zero l conv = Ok (map (fun x => fst (conv x)) l, None, l).
Proof.
  intros Hok. unfold maperr, for_range. fold (maperr_body conv).
  pose proof (maperr_loop_ok zero conv l [] [] [] Hok) as El. cbn [app length] in El.
  rewrite !app_nil_r in El. rewrite El. reflexivity.
Qed.

(* x is the first element whose conversion fails: its error, no result, conv not called after x *)
Lemma maperr_first_error {A B E} (zero : B) (pre : list A) x post (conv : A -> B * option E) e :
  (forall y, In y pre -> snd (conv y) = None) -> snd (conv x) = Some e ->
  maperr zero (pre ++ x :: post) conv = Ok ([], Some e, pre ++ [x]).
Proof.
  intros Hpre Hx. unfold maperr, for_range. fold (maperr_body conv).
  rewrite range_from_app. rewrite app_length, repeat_app.
  pose proof (maperr_loop_ok zero conv pre [] [] (repeat zero (length (x :: post))) Hpre) as El.
  cbn [app] in El. change (length (@nil B)) with 0 in El. rewrite El. cbn [range_from length repeat plus].
  unfold maperr_body at 1. destruct (conv x) as [r err]. cbn [snd] in Hx. subst err.
  replace (length pre) with (length (map (fun x0 : A => fst (conv x0)) pre)) at 1 by (rewrite map_length; reflexivity).
  rewrite set_nth_app. reflexivity.
Qed.

Lemma fold_left_filter_acc {A} (p : A -> bool) (l : list A) : forall acc,
  fold_left (fun r v => if p v then r ++ [v] else r) l acc = acc ++ filter p l.
Proof.
  induction l as [|v l IH]; intros acc; cbn [fold_left filter]; [rewrite app_nil_r; reflexivity|].
  rewrite IH. destruct (p v); [rewrite <- app_assoc|]; reflexivity.
Qed.

Lemma filter_correct {A} (l : list A) (p : A -> bool) : filter_ l p = filter p l.
Proof.
  unfold filter_, for_range.
  rewrite (range_from_next _ (fun r v => if p v then r ++ [v] else r)) by (intros; destruct (p v); reflexivity).
  exact (fold_left_filter_acc p l []).
Qed.

Lemma exceptset_correct {A} (l : list A) (has : A -> bool) : exceptset l has = filter (fun v => negb (has v)) l.
Proof.
  unfold exceptset, for_range.
  rewrite (range_from_next _ (fun r v => if negb (has v) then r ++ [v] else r)) by (intros; destruct (has v); reflexivity).
  exact (fold_left_filter_acc (fun v => negb (has v)) l []).
Qed.

(* ---- Distinct, DistinctFunc ---------------------------------------------------- *)

Definition distinct_step {A} (eqf : A -> A -> bool) (r : list A) (v : A) : list A :=
  if negb (existsb (fun u => eqf u v) r) then r ++ [v] else r.

(* what the loop computes, for an arbitrary equals: v is kept iff not equal to an element kept before *)
Lemma distinctfunc_greedy {A} (l : list A) equals :
  distinctfunc l equals = fold_left (distinct_step equals) l [].
Proof.
  unfold distinctfunc, for_range.
  rewrite (range_from_next _ (distinct_step equals)); [reflexivity|].
  intros i v s. unfold distinct_step. rewrite containsfunc_existsb. destruct (negb _); reflexivity.
Qed.

Lemma distinct_eq_distinctfunc {A} (eqb : A -> A -> bool) (l : list A) : distinct eqb l = distinctfunc l eqb.
Proof. reflexivity. Qed.

(* for a transitive equals, "equal to an element kept before" is "equal to an element before" *)
Lemma distinct_loop_first_occs {A} (eqf : A -> A -> bool)
      (trans : forall x y z, eqf x y = true -> eqf y z = true -> eqf x z = true) (l : list A) :
  forall r before,
  (forall v, existsb (fun u => eqf u v) r = existsb (fun u => eqf u v) before) ->
  fold_left (distinct_step eqf) l r = r ++ first_occs_from eqf before l.
Proof.
  induction l as [|x l IH]; intros r before Hinv; cbn [fold_left first_occs_from].
  - rewrite app_nil_r. reflexivity.
  - unfold distinct_step at 2. rewrite (Hinv x).
    destruct (existsb (fun u => eqf u x) before) eqn:Eseen; cbn [negb app].
    + apply IH. intros v. rewrite existsb_app. cbn [existsb]. rewrite orb_false_r.
      rewrite Hinv. destruct (eqf x v) eqn:Exv; [|rewrite orb_false_r; reflexivity].
      rewrite orb_true_r. apply existsb_exists in Eseen as [u [Hu Eux]].
      apply existsb_exists. exists u. split; [exact Hu|]. eapply trans; eassumption.
    + rewrite (IH (r ++ [x]) (before ++ [x])).
      * rewrite <- app_assoc. reflexivity.
      * intros v. rewrite !existsb_app. rewrite Hinv. reflexivity.
Qed.

Lemma distinctfunc_correct {A} (l : list A) (equals : A -> A -> bool) :
  (forall x y z, equals x y = true -> equals y z = true -> equals x z = true) ->
  distinctfunc l equals = first_occs equals l.
Proof.
  intros trans. rewrite distinctfunc_greedy.
  exact (distinct_loop_first_occs equals trans l [] [] (fun _ => eq_refl)).
Qed.

Section FirstOccs.
Context {A : Type} (eqb : A -> A -> bool) (eqb_spec : forall x y, eqb x y = true <-> x = y).

Lemma eqb_trans x y z : eqb x y = true -> eqb y z = true -> eqb x z = true.
Proof. intros H1 H2. apply eqb_spec in H1, H2. apply eqb_spec. congruence. Qed.

Lemma existsb_eqb_In (l : list A) v : existsb (fun u => eqb u v) l = true <-> In v l.
Proof.
  rewrite existsb_exists. split.
  - intros [u [Hu E]]. apply eqb_spec in E. subst. exact Hu.
  - intros H. exists v. split; [exact H|]. apply eqb_spec. reflexivity.
Qed.

Lemma existsb_eqb_In' (l : list A) v : existsb (eqb v) l = true <-> In v l.
Proof.
  rewrite existsb_exists. split.
  - intros [u [Hu E]]. apply eqb_spec in E. subst. exact Hu.
  - intros H. exists v. split; [exact H|]. apply eqb_spec. reflexivity.
Qed.

Lemma distinct_correct (l : list A) : distinct eqb l = first_occs eqb l.
Proof. rewrite distinct_eq_distinctfunc. apply distinctfunc_correct. exact eqb_trans. Qed.

Lemma first_occs_from_In (l : list A) : forall before x,
  In x (first_occs_from eqb before l) <-> In x l /\ ~ In x before.
Proof.
  induction l as [|y l IH]; intros before x; cbn [first_occs_from In].
  - tauto.
  - rewrite in_app_iff, IH, in_app_iff. cbn [In].
    destruct (existsb (fun u => eqb u y) before) eqn:E.
    + apply existsb_eqb_In in E. cbn [In]. split.
      * intros [[]|[H1 H2]]. split; [right; exact H1|]. intros H; apply H2; left; exact H.
      * intros [[<-|H1] H2]; [contradiction|]. right. split; [exact H1|].
        intros [H|[<-|[]]]; [contradiction|]. contradiction.
    + assert (Hn : ~ In y before) by (intros H; apply existsb_eqb_In in H; congruence).
      cbn [In]. split.
      * intros [[<-|[]]|[H1 H2]]; [split; [left; reflexivity|exact Hn]|].
        split; [right; exact H1|]. intros H; apply H2; left; exact H.
      * intros [[<-|H1] H2]; [left; left; reflexivity|].
        destruct (eqb y x) eqn:Eyx.
        -- apply eqb_spec in Eyx. left; left; exact Eyx.
        -- right. split; [exact H1|]. intros [H|[<-|[]]]; [contradiction|].
           assert (eqb y y = true) by (apply eqb_spec; reflexivity). congruence.
Qed.

Lemma first_occs_from_NoDup (l : list A) : forall before, NoDup (first_occs_from eqb before l).
Proof.
  induction l as [|y l IH]; intros before; cbn [first_occs_from]; [constructor|].
  destruct (existsb (fun u => eqb u y) before); cbn [app]; [apply IH|].
  constructor; [|apply IH]. rewrite first_occs_from_In. intros [_ H]. apply H, in_or_app. right. left. reflexivity.
Qed.

Lemma first_occs_from_subseq (l : list A) : forall before, subseq (first_occs_from eqb before l) l.
Proof.
  induction l as [|y l IH]; intros before; cbn [first_occs_from]; [constructor|].
  destruct (existsb (fun u => eqb u y) before); cbn [app]; constructor; apply IH.
Qed.

(* the first occurrences: no repetition, the same elements, in the order of the input *)
Lemma first_occs_spec (l : list A) :
  NoDup (first_occs eqb l) /\ (forall x, In x (first_occs eqb l) <-> In x l) /\ subseq (first_occs eqb l) l.
Proof.
  split; [apply first_occs_from_NoDup|]. split; [|apply first_occs_from_subseq].
  intros x. unfold first_occs. rewrite first_occs_from_In. cbn [In]. tauto.
Qed.

(* ---- Except ---------------------------------------------------------------- *)

Lemma amap_get_set {V} (m : list (A * V)) k v k' :
  amap_get eqb (amap_set eqb m k v) k' = if eqb k k' then Some v else amap_get eqb m k'.
Proof.
  induction m as [|[k0 v0] m IH]; cbn [amap_set amap_get].
  - reflexivity.
  - destruct (eqb k0 k) eqn:E0; cbn [amap_get].
    + apply eqb_spec in E0. subst k0. destruct (eqb k k'); reflexivity.
    + destruct (eqb k0 k') eqn:E1.
      * apply eqb_spec in E1. subst k'. apply eqb_false in E0; [|exact eqb_spec].
        destruct (eqb k k0) eqn:E2; [apply eqb_spec in E2; congruence|reflexivity].
      * exact IH.
Qed.

Lemma newsetfromslice_has (ex : list A) v :
  set_has eqb (newsetfromslice eqb ex) v = existsb (eqb v) ex.
Proof.
  unfold newsetfromslice, for_range.
  rewrite (range_from_next _ (fun set x => fst (set_add eqb set x))) by reflexivity.
  assert (G : forall s, set_has eqb (fold_left (fun set x => fst (set_add eqb set x)) ex s) v
                        = set_has eqb s v || existsb (eqb v) ex).
  { induction ex as [|x ex IH]; intros s; cbn [fold_left existsb]; [rewrite orb_false_r; reflexivity|].
    rewrite IH. rewrite orb_assoc. f_equal.
    unfold set_add. destruct (set_has eqb s x) eqn:Ehas; cbn [fst].
    - destruct (eqb v x) eqn:Evx; [|rewrite orb_false_r; reflexivity].
      apply eqb_spec in Evx. subst x. rewrite Ehas. reflexivity.
    - unfold set_has at 1. rewrite amap_get_set. destruct (eqb x v) eqn:Exv.
      + apply eqb_spec in Exv. subst x. replace (eqb v v) with true by (symmetry; apply eqb_spec; reflexivity).
        rewrite orb_true_r. reflexivity.
      + destruct (eqb v x) eqn:Evx; [apply eqb_spec in Evx; subst x; apply eqb_false in Exv; [congruence|exact eqb_spec]|].
        rewrite orb_false_r. reflexivity. }
  rewrite G. reflexivity.
Qed.

Lemma except_correct (l ex : list A) :
  except eqb l ex = filter (fun v => negb (existsb (eqb v) ex)) l.
Proof.
  unfold except. rewrite exceptset_correct. apply filter_ext. intros v. rewrite newsetfromslice_has. reflexivity.
Qed.

End FirstOccs.

(* ---- GroupBy, CountBy --------------------------------------------------------- *)

Section Grouping.
Context {A K V : Type} (keqb : K -> K -> bool) (keqb_spec : forall x y, keqb x y = true <-> x = y).
Context (keyer : A -> K) (zero : V) (upd : V -> A -> V).

(* the common shape of the first loop of GroupBy and CountBy *)
Definition agg_step (s : list (K * V) * list K) (v : A) : list (K * V) * list K :=
  let '(m, orderedKeys) := s in
  let key := keyer v in
  let '(val, ok) := match amap_get keqb m key with Some c => (c, true) | None => (zero, false) end in
  let m := amap_set keqb m key (upd val v) in
  let orderedKeys := if negb ok then orderedKeys ++ [key] else orderedKeys in
  (m, orderedKeys).

Definition summary (p : list A) (k : K) : V := fold_left upd (members keqb keyer p k) zero.
Definition seen (p : list A) (k : K) : bool := existsb (fun u => keqb u k) (map keyer p).
Definition agg_inv (p : list A) (m : list (K * V)) : Prop :=
  forall k, amap_get keqb m k = if seen p k then Some (summary p k) else None.

Lemma members_app p q k : members keqb keyer (p ++ q) k = members keqb keyer p k ++ members keqb keyer q k.
Proof. apply filter_app. Qed.

Lemma unseen_members p k : seen p k = false -> members keqb keyer p k = [].
Proof.
  unfold seen, members. induction p as [|x p IH]; cbn [map existsb filter]; [reflexivity|].
  intros H. apply orb_false_iff in H as [H1 H2]. rewrite H1. apply IH. exact H2.
Qed.

Lemma seen_snoc p x k : seen (p ++ [x]) k = seen p k || keqb (keyer x) k.
Proof. unfold seen. rewrite map_app, existsb_app. cbn [map existsb]. rewrite orb_false_r. reflexivity. Qed.

Lemma summary_snoc p x k :
  summary (p ++ [x]) k = if keqb (keyer x) k then upd (summary p k) x else summary p k.
Proof.
  unfold summary. rewrite members_app, fold_left_app. unfold members at 1. cbn [filter].
  destruct (keqb (keyer x) k); reflexivity.
Qed.

Lemma agg_loop (l : list A) : forall p m ks,
  agg_inv p m ->
  exists m', fold_left agg_step l (m, ks) = (m', ks ++ first_occs_from keqb (map keyer p) (map keyer l))
             /\ agg_inv (p ++ l) m'.
Proof.
  induction l as [|x l IH]; intros p m ks Hinv; cbn [fold_left map first_occs_from].
  - exists m. rewrite !app_nil_r. split; [reflexivity|exact Hinv].
  - set (m1 := amap_set keqb m (keyer x) (upd (if seen p (keyer x) then summary p (keyer x) else zero) x)).
    assert (Hstep : agg_step (m, ks) x = (m1, if seen p (keyer x) then ks else ks ++ [keyer x])).
    { unfold agg_step, m1. rewrite (Hinv (keyer x)). destruct (seen p (keyer x)); reflexivity. }
    assert (Hinv1 : agg_inv (p ++ [x]) m1).
    { intros k. unfold m1. rewrite (amap_get_set keqb keqb_spec). rewrite seen_snoc, summary_snoc.
      destruct (keqb (keyer x) k) eqn:Ek.
      - apply keqb_spec in Ek. subst k. rewrite orb_true_r. f_equal.
        destruct (seen p (keyer x)) eqn:Es; [reflexivity|].
        unfold summary. rewrite (unseen_members _ _ Es). reflexivity.
      - rewrite orb_false_r. apply Hinv. }
    rewrite Hstep. clearbody m1. fold (seen p (keyer x)).
    destruct (seen p (keyer x)) eqn:Es; cbn [app].
    + destruct (IH (p ++ [x]) m1 ks Hinv1) as [m' [E Hm']]. exists m'. split.
      * rewrite E. rewrite map_app. reflexivity.
      * rewrite <- app_assoc in Hm'. exact Hm'.
    + destruct (IH (p ++ [x]) m1 (ks ++ [keyer x]) Hinv1) as [m' [E Hm']]. exists m'. split.
      * rewrite E. rewrite map_app, <- app_assoc. reflexivity.
      * rewrite <- app_assoc in Hm'. exact Hm'.
Qed.

Lemma agg_final (l : list A) :
  exists m', fold_left agg_step l ([], []) = (m', first_occs keqb (map keyer l)) /\
             forall k, In k (first_occs keqb (map keyer l)) -> amap_get keqb m' k = Some (summary l k).
Proof.
  destruct (agg_loop l [] [] []) as [m' [E Hm']]; [intros k; reflexivity|].
  exists m'. split; [exact E|]. intros k Hk. rewrite (Hm' k). cbn [app].
  destruct (first_occs_spec keqb keqb_spec (map keyer l)) as [_ [Hin _]]. apply Hin in Hk.
  replace (seen l k) with true; [reflexivity|]. symmetry. apply (existsb_eqb_In keqb keqb_spec). exact Hk.
Qed.
End Grouping.

Lemma fold_left_snoc_id {A} (l : list A) : forall acc, fold_left (fun vs x => vs ++ [x]) l acc = acc ++ l.
Proof.
  induction l as [|x l IH]; intros acc; cbn [fold_left]; [rewrite app_nil_r; reflexivity|].
  rewrite IH, <- app_assoc. reflexivity.
Qed.

Lemma fold_left_count {A} (l : list A) : forall c, fold_left (fun (c : Z) (_ : A) => (c + 1)%Z) l c = (c + Z.of_nat (length l))%Z.
Proof.
  induction l as [|x l IH]; intros c; cbn [fold_left length]; [lia|]. rewrite IH. lia.
Qed.

Lemma groupby_correct {A K} (keqb : K -> K -> bool) (keqb_spec : forall x y, keqb x y = true <-> x = y)
      (zk : K) (l : list A) (keyer : A -> K) :
  groupby keqb zk l keyer = Ok (group_ref keqb keyer l).
Proof.
  unfold groupby, for_range.
  rewrite (range_from_next _ (agg_step keqb keyer [] (fun vs x => vs ++ [x]))) by (intros i v [m ks]; unfold agg_step; destruct (amap_get keqb m (keyer v)); reflexivity).
  destruct (agg_final keqb keqb_spec keyer [] (fun vs x => vs ++ [x]) l) as [m' [E Hm']]. rewrite E.
  pose proof (map_loop_correct (zk, []) (fun key => (key, match amap_get keqb m' key with Some vs => vs | None => [] end))
                (first_occs keqb (map keyer l)) []) as El.
  cbn [app length] in El. rewrite El. f_equal. unfold group_ref. apply map_ext_in. intros k Hk.
  rewrite (Hm' k Hk). unfold summary. rewrite fold_left_snoc_id. reflexivity.
Qed.

Lemma countby_correct {A K} (keqb : K -> K -> bool) (keqb_spec : forall x y, keqb x y = true <-> x = y)
      (zk : K) (l : list A) (keyer : A -> K) :
  countby keqb zk l keyer = Ok (count_ref keqb keyer l).
Proof.
  unfold countby, for_range.
  rewrite (range_from_next _ (agg_step keqb keyer 0%Z (fun c _ => (c + 1)%Z))) by (intros i v [m ks]; unfold agg_step; destruct (amap_get keqb m (keyer v)); reflexivity).
  destruct (agg_final keqb keqb_spec keyer 0%Z (fun c _ => (c + 1)%Z) l) as [m' [E Hm']]. rewrite E.
  pose proof (map_loop_correct (zk, 0%Z) (fun key => (key, match amap_get keqb m' key with Some c => c | None => 0%Z end))
                (first_occs keqb (map keyer l)) []) as El.
  cbn [app length] in El. rewrite El. f_equal. unfold count_ref. apply map_ext_in. intros k Hk.
  rewrite (Hm' k Hk). unfold summary. rewrite fold_left_count. reflexivity.
Qed.

Lemma filter_none {A} (p : A -> bool) l : (forall x, In x l -> p x = false) -> filter p l = [].
Proof.
  induction l as [|x l IH]; intros H; cbn [filter]; [reflexivity|].
  rewrite (H x (or_introl eq_refl)). apply IH. intros y Hy. apply H. right. exact Hy.
Qed.

Lemma filter_everything {A} (p : A -> bool) l : (forall x, In x l -> p x = true) -> filter p l = l.
Proof.
  induction l as [|x l IH]; intros H; cbn [filter]; [reflexivity|].
  rewrite (H x (or_introl eq_refl)). f_equal. apply IH. intros y Hy. apply H. right. exact Hy.
Qed.

Lemma length_concat_sum {A} (ls : list (list A)) : length (concat ls) = list_sum (map (@length A) ls).
Proof.
  induction ls as [|l ls IH]; cbn [concat map list_sum]; [reflexivity|]. rewrite app_length, IH. reflexivity.
Qed.

Section GroupSpec.
Context {A K : Type} (keqb : K -> K -> bool) (keqb_spec : forall x y, keqb x y = true <-> x = y).
Context (keyer : A -> K).

Lemma members_split_perm (k : K) (ks : list K) (l : list A) : ~ In k ks ->
  Permutation (members keqb keyer l k ++ filter (fun v => existsb (keqb (keyer v)) ks) l)
              (filter (fun v => existsb (keqb (keyer v)) (k :: ks)) l).
Proof.
  intros Hk. unfold members. induction l as [|v l IH]; cbn [filter existsb app]; [constructor|].
  destruct (keqb (keyer v) k) eqn:E; cbn [orb app].
  - apply keqb_spec in E.
    replace (existsb (keqb (keyer v)) ks) with false.
    + constructor. exact IH.
    + symmetry. destruct (existsb (keqb (keyer v)) ks) eqn:E2; [|reflexivity].
      apply (existsb_eqb_In' keqb keqb_spec) in E2. congruence.
  - destruct (existsb (keqb (keyer v)) ks).
    + etransitivity; [symmetry; apply Permutation_middle|]. constructor. exact IH.
    + exact IH.
Qed.

Lemma concat_members_perm (ks : list K) (l : list A) : NoDup ks ->
  Permutation (concat (map (members keqb keyer l) ks)) (filter (fun v => existsb (keqb (keyer v)) ks) l).
Proof.
  induction 1 as [|k ks Hk Hnd IH]; cbn [map concat].
  - rewrite filter_none by reflexivity. constructor.
  - etransitivity; [apply Permutation_app_head; exact IH|]. apply members_split_perm. exact Hk.
Qed.

Lemma group_ref_keys (l : list A) : map fst (group_ref keqb keyer l) = first_occs keqb (map keyer l).
Proof. unfold group_ref. rewrite map_map. cbn [fst]. apply map_id. Qed.

Lemma group_ref_groups (l : list A) : map snd (group_ref keqb keyer l) = map (members keqb keyer l) (first_occs keqb (map keyer l)).
Proof. unfold group_ref. rewrite map_map. reflexivity. Qed.

Lemma group_ref_perm (l : list A) : Permutation (concat (map snd (group_ref keqb keyer l))) l.
Proof.
  rewrite group_ref_groups.
  destruct (first_occs_spec keqb keqb_spec (map keyer l)) as [Hnd [Hin _]].
  etransitivity; [apply concat_members_perm; exact Hnd|].
  rewrite filter_everything; [reflexivity|].
  intros v Hv. apply (existsb_eqb_In' keqb keqb_spec). apply Hin. apply in_map. exact Hv.
Qed.

Lemma group_ref_spec (l : list A) :
  let g := group_ref keqb keyer l in
  map fst g = first_occs keqb (map keyer l) /\
  (forall k vs, In (k, vs) g -> vs = filter (fun v => keqb (keyer v) k) l /\ vs <> []) /\
  Permutation (concat (map snd g)) l /\
  list_sum (map (fun kv => length (snd kv)) g) = length l.
Proof.
  cbv zeta. split; [apply group_ref_keys|]. split; [|split; [apply group_ref_perm|]].
  - intros k vs Hin. unfold group_ref in Hin. apply in_map_iff in Hin as [k' [E Hk']].
    injection E as -> <-. split; [reflexivity|].
    destruct (first_occs_spec keqb keqb_spec (map keyer l)) as [_ [Hin _]]. apply Hin in Hk'.
    apply in_map_iff in Hk' as [v [Ev Hv]]. intros Hnil.
    assert (Hm : In v (members keqb keyer l k)).
    { apply filter_In. split; [exact Hv|]. apply keqb_spec. exact Ev. }
    rewrite Hnil in Hm. exact Hm.
  - rewrite <- (Permutation_length (group_ref_perm l)), length_concat_sum, map_map. reflexivity.
Qed.

Lemma count_ref_spec (l : list A) :
  count_ref keqb keyer l = map (fun kv => (fst kv, Z.of_nat (length (snd kv)))) (group_ref keqb keyer l) /\
  fold_right Z.add 0%Z (map snd (count_ref keqb keyer l)) = Z.of_nat (length l).
Proof.
  assert (E : count_ref keqb keyer l = map (fun kv => (fst kv, Z.of_nat (length (snd kv)))) (group_ref keqb keyer l)).
  { unfold count_ref, group_ref. rewrite map_map. reflexivity. }
  split; [exact E|]. rewrite E, map_map. cbn [snd].
  destruct (group_ref_spec l) as [_ [_ [_ Hsum]]]. rewrite <- Hsum. clear.
  induction (group_ref keqb keyer l) as [|g gs IH]; cbn [map fold_right list_sum]; [reflexivity|].
  rewrite IH. unfold list_sum. lia.
Qed.
End GroupSpec.

(* ---- Trim family --------------------------------------------------------------- *)

Lemma trimleftfunc_correct {A} (l : list A) p : trimleftfunc l p = drop_while p l.
Proof. induction l as [|x l IH]; cbn [trimleftfunc drop_while]; [reflexivity|]. rewrite IH. reflexivity. Qed.

Lemma trimleft_correct {A} (eqb : A -> A -> bool) (l u : list A) :
  trimleft eqb l u = drop_while (fun v => contains eqb u v) l.
Proof. induction l as [|x l IH]; cbn [trimleft drop_while]; [reflexivity|]. rewrite IH. reflexivity. Qed.

Lemma drop_while_end_snoc {A} (p : A -> bool) l x :
  drop_while_end p (l ++ [x]) = if p x then drop_while_end p l else l ++ [x].
Proof.
  unfold drop_while_end. rewrite rev_app_distr. cbn [rev app drop_while].
  destruct (p x); [reflexivity|]. cbn [rev]. rewrite rev_involutive. reflexivity.
Qed.

Lemma trimright_loop_correct {A} (p : A -> bool) (l : list A) : forall fuel, length l <= fuel ->
  trimright_loop fuel p l = Ok (drop_while_end p l).
Proof.
  induction l as [|x l IH] using rev_ind; intros fuel Hf.
  - destruct fuel; reflexivity.
  - rewrite drop_while_end_snoc.
    assert (Hlen : length (l ++ [x]) = S (length l)) by (rewrite app_length; cbn; lia).
    assert (Hget : get_nth (length (l ++ [x]) - 1) (l ++ [x]) = Ok x).
    { unfold get_nth. rewrite Hlen. replace (S (length l) - 1) with (length l) by lia.
      rewrite nth_error_app2 by lia. rewrite Nat.sub_diag. reflexivity. }
    assert (Hrange : slice_range (l ++ [x]) 0 (length (l ++ [x]) - 1) = Ok l).
    { unfold slice_range. rewrite Hlen. replace (S (length l) - 1) with (length l) by lia.
      replace ((0 <=? length l) && (length l <=? S (length l))) with true
        by (symmetry; apply andb_true_iff; split; apply Nat.leb_le; lia).
      cbn [skipn]. rewrite Nat.sub_0_r. rewrite firstn_app, Nat.sub_diag, firstn_all. cbn [firstn].
      rewrite app_nil_r. reflexivity. }
    destruct fuel as [|f]; [rewrite Hlen in Hf; lia|].
    cbn [trimright_loop]. replace (0 <? length (l ++ [x])) with true by (symmetry; apply Nat.ltb_lt; lia).
    rewrite Hget. cbn [bind]. destruct (p x); [|reflexivity].
    rewrite Hrange. cbn [bind]. apply IH. rewrite Hlen in Hf. lia.
Qed.

Lemma trimrightfunc_correct {A} (l : list A) p : trimrightfunc l p = Ok (drop_while_end p l).
Proof. apply trimright_loop_correct. lia. Qed.

Lemma trimright_correct {A} (eqb : A -> A -> bool) (l u : list A) :
  trimright eqb l u = Ok (drop_while_end (fun v => contains eqb u v) l).
Proof. apply trimright_loop_correct. lia. Qed.

Lemma trimfunc_correct {A} (l : list A) p : trimfunc l p = Ok (trim_ref p l).
Proof. unfold trimfunc. rewrite trimrightfunc_correct. cbn [bind]. rewrite trimleftfunc_correct. reflexivity. Qed.

Lemma trim_correct {A} (eqb : A -> A -> bool) (l u : list A) :
  trim eqb l u = Ok (trim_ref (fun v => contains eqb u v) l).
Proof. unfold trim. rewrite trimright_correct. cbn [bind]. rewrite trimleft_correct. reflexivity. Qed.

(* what the reference definitions mean *)
Lemma drop_while_spec {A} (p : A -> bool) (l : list A) :
  exists pre, l = pre ++ drop_while p l /\ forallb p pre = true /\
              (forall x r, drop_while p l = x :: r -> p x = false).
Proof.
  induction l as [|y l [pre [E [Hp Hh]]]]; cbn [drop_while].
  - exists []. repeat split. intros x r H; discriminate.
  - destruct (p y) eqn:Ey.
    + exists (y :: pre). cbn [app forallb]. rewrite Ey, Hp. repeat split; [f_equal; exact E|exact Hh].
    + exists []. repeat split. intros x r H. injection H as <- _. exact Ey.
Qed.

Lemma forallb_rev {A} (p : A -> bool) l : forallb p (rev l) = forallb p l.
Proof.
  destruct (forallb p l) eqn:E.
  - rewrite forallb_forall in *. intros x Hx. apply E. apply in_rev. exact Hx.
  - destruct (forallb p (rev l)) eqn:E2; [|reflexivity].
    rewrite forallb_forall in E2. rewrite <- E. symmetry. apply forallb_forall. intros x Hx. apply E2.
    apply in_rev. rewrite rev_involutive. exact Hx.
Qed.

Lemma drop_while_end_spec {A} (p : A -> bool) (l : list A) :
  exists suf, l = drop_while_end p l ++ suf /\ forallb p suf = true /\
              (forall r x, drop_while_end p l = r ++ [x] -> p x = false).
Proof.
  unfold drop_while_end. destruct (drop_while_spec p (rev l)) as [pre [E [Hp Hh]]].
  exists (rev pre). split; [|split].
  - rewrite <- rev_app_distr, <- E, rev_involutive. reflexivity.
  - rewrite forallb_rev. exact Hp.
  - intros r x H. apply (f_equal (@rev A)) in H. rewrite rev_involutive, rev_app_distr in H. cbn [rev app] in H.
    eapply Hh. exact H.
Qed.

Lemma trim_ref_spec {A} (p : A -> bool) (l : list A) :
  exists pre suf, l = pre ++ trim_ref p l ++ suf /\ forallb p pre = true /\ forallb p suf = true /\
    (forall x r, trim_ref p l = x :: r -> p x = false) /\
    (forall r x, trim_ref p l = r ++ [x] -> p x = false).
Proof.
  unfold trim_ref. destruct (drop_while_end_spec p l) as [suf [E1 [Hs Hlast]]].
  destruct (drop_while_spec p (drop_while_end p l)) as [pre [E2 [Hp Hhead]]].
  exists pre, suf. split; [|split; [exact Hp|split; [exact Hs|split; [exact Hhead|]]]].
  - rewrite app_assoc, <- E2. exact E1.
  - intros r x H. apply (Hlast (pre ++ r)). rewrite E2 at 1. rewrite H, app_assoc. reflexivity.
Qed.

(* ---- TryGet, SafeGet, SafeGetOr, Last ------------------------------------------- *)

Lemma get_z_in {A} (l : list A) (i : Z) : (0 <= i < Z.of_nat (length l))%Z ->
  exists v, nth_error l (Z.to_nat i) = Some v /\ get_z l i = Ok v.
Proof.
  intros Hi. destruct (nth_error l (Z.to_nat i)) as [v|] eqn:E; [|apply nth_error_None in E; lia].
  exists v. split; [reflexivity|]. rewrite <- (Z2Nat.id i) by lia. apply get_z_nth. exact E.
Qed.

Lemma bounds_test_in {A} (l : list A) i : (0 <= i < Z.of_nat (length l))%Z ->
  ((i <? 0) || (i >=? Z.of_nat (length l)))%Z = false.
Proof. intros H. apply orb_false_iff. split; [apply Z.ltb_ge; lia|rewrite Z.geb_leb; apply Z.leb_gt; lia]. Qed.

Lemma bounds_test_out {A} (l : list A) i : (i < 0 \/ Z.of_nat (length l) <= i)%Z ->
  ((i <? 0) || (i >=? Z.of_nat (length l)))%Z = true.
Proof.
  intros H. apply orb_true_iff. destruct (Z.ltb_spec i 0); [left; reflexivity|right].
  rewrite Z.geb_leb. apply Z.leb_le. lia.
Qed.

Lemma get_family_in {A} (zero fallback : A) (l : list A) (i : Z) : (0 <= i < Z.of_nat (length l))%Z ->
  exists v, nth_error l (Z.to_nat i) = Some v /\
    tryget zero l i = Ok (v, true) /\ safeget zero l i = Ok v /\ safegetor l i fallback = Ok v.
Proof.
  intros Hi. destruct (get_z_in l i Hi) as [v [E G]]. exists v. split; [exact E|].
  unfold tryget, safeget, safegetor. rewrite (bounds_test_in l i Hi), G. repeat split.
Qed.

Lemma get_family_out {A} (zero fallback : A) (l : list A) (i : Z) : (i < 0 \/ Z.of_nat (length l) <= i)%Z ->
  tryget zero l i = Ok (zero, false) /\ safeget zero l i = Ok zero /\ safegetor l i fallback = Ok fallback.
Proof.
  intros Hi. unfold tryget, safeget, safegetor. rewrite (bounds_test_out l i Hi). repeat split.
Qed.

Lemma last_correct {A} (l : list A) :
  last_ (@nil A) = Panic IndexOutOfRange /\ forall x, last_ (l ++ [x]) = Ok x.
Proof.
  split; [reflexivity|]. intros x. unfold last_. rewrite app_length. cbn [length].
  replace (Z.of_nat (length l + 1) - 1)%Z with (Z.of_nat (length l)) by lia.
  apply get_z_nth. rewrite nth_error_app2 by lia. rewrite Nat.sub_diag. reflexivity.
Qed.

(* ---- small corollaries used by Props/C14.v --------------------------------------- *)

Lemma fold_empty {A State} (seed : State) (acc : State -> A -> State) :
  fold [] seed acc = seed /\ foldreverse [] seed acc = Ok seed.
Proof. split; reflexivity. Qed.

(* DistinctFunc for an arbitrary equals, by its recursion on the input: the last element is
   kept iff it is not equal to one of the elements kept from the part before it *)
Lemma distinctfunc_snoc {A} (l : list A) (x : A) equals :
  distinctfunc [] equals = [] /\
  distinctfunc (l ++ [x]) equals =
    if existsb (fun u => equals u x) (distinctfunc l equals) then distinctfunc l equals
    else distinctfunc l equals ++ [x].
Proof.
  split; [reflexivity|]. rewrite !distinctfunc_greedy, fold_left_app. cbn [fold_left].
  unfold distinct_step at 1. destruct (existsb _ _); reflexivity.
Qed.

(* the last element is kept iff no element before it is equal to it (any equals) *)
Lemma first_occs_from_snoc {A} (eqf : A -> A -> bool) (l : list A) (x : A) : forall before,
  first_occs_from eqf before (l ++ [x]) =
  first_occs_from eqf before l ++ (if existsb (fun u => eqf u x) (before ++ l) then [] else [x]).
Proof.
  induction l as [|y l IH]; intros before; cbn [app first_occs_from].
  - rewrite !app_nil_r. reflexivity.
  - rewrite IH, <- !app_assoc. reflexivity.
Qed.

Lemma first_occs_snoc {A} (eqf : A -> A -> bool) (l : list A) (x : A) :
  first_occs eqf [] = [] /\
  first_occs eqf (l ++ [x]) = first_occs eqf l ++ (if existsb (fun u => eqf u x) l then [] else [x]).
Proof. split; [reflexivity|]. exact (first_occs_from_snoc eqf l x []). Qed.

(* the segment characterisation determines the result of Trim *)
Lemma drop_while_all {A} (p : A -> bool) (pre rest : list A) :
  forallb p pre = true -> drop_while p (pre ++ rest) = drop_while p rest.
Proof.
  induction pre as [|y pre IH]; cbn [forallb app drop_while]; [reflexivity|].
  intros H. apply andb_true_iff in H as [Hy Hp]. rewrite Hy. apply IH. exact Hp.
Qed.

Lemma trim_segment_unique {A} (p : A -> bool) (l pre r suf : list A) :
  l = pre ++ r ++ suf -> forallb p pre = true -> forallb p suf = true ->
  (forall x r', r = x :: r' -> p x = false) -> (forall r' x, r = r' ++ [x] -> p x = false) ->
  r = trim_ref p l.
Proof.
  intros -> Hpre Hsuf Hhead Hlast. unfold trim_ref, drop_while_end.
  rewrite !rev_app_distr, <- app_assoc. rewrite drop_while_all by (rewrite forallb_rev; exact Hsuf).
  destruct r as [|x0 r0] using rev_ind.
  - cbn [rev app]. replace (drop_while p (rev pre)) with (@nil A).
    + reflexivity.
    + symmetry. rewrite <- (app_nil_r (rev pre)). rewrite drop_while_all by (rewrite forallb_rev; exact Hpre). reflexivity.
  - clear IHr0. rewrite rev_app_distr. cbn [rev app drop_while].
    rewrite (Hlast r0 x0 eq_refl). cbn [rev]. rewrite rev_app_distr, rev_involutive, rev_involutive. cbn [rev app].
    rewrite <- app_assoc. rewrite drop_while_all by exact Hpre.
    destruct r0 as [|y r0]; cbn [app drop_while].
    + rewrite (Hlast [] x0 eq_refl). reflexivity.
    + rewrite (Hhead y (r0 ++ [x0]) eq_refl). reflexivity.
Qed.

(* ---- Call logs ---------------------------------------------------------------------- *)

(* the arguments handed to the callback by the iterations the loop executes *)
Fixpoint trace {A S R L} (arg : A -> S -> L) (body : nat -> A -> S -> ctl S R) (i : nat) (l : list A) (s : S)
  : list L :=
  match l with
  | [] => []
  | v :: rest => arg v s :: match body i v s with Next s' => trace arg body (i + 1) rest s' | Ret _ => [] end
  end.

Lemma logging_range {A S R L} (arg : A -> S -> L) (body : nat -> A -> S -> ctl S R) (l : list A) :
  forall i s calls,
  range_from (logging arg body) i l (s, calls) =
  match range_from body i l s with
  | Next s' => Next (s', calls ++ trace arg body i l s)
  | Ret r => Ret (r, calls ++ trace arg body i l s)
  end.
Proof.
  induction l as [|v l IH]; intros i s calls; cbn [range_from trace].
  - rewrite app_nil_r. reflexivity.
  - unfold logging at 1. destruct (body i v s) as [s'|r].
    + rewrite IH, <- !app_assoc. reflexivity.
    + reflexivity.
Qed.

Lemma trace_search_none {A R L} (arg : A -> unit -> L) (p : A -> bool) (ret : nat -> A -> R) (l : list A) : forall i,
  (forall x, In x l -> p x = false) ->
  trace arg (fun i v (_ : unit) => if p v then Ret (ret i v) else Next tt) i l tt = map (fun v => arg v tt) l.
Proof.
  induction l as [|v l IH]; intros i Hall; cbn [trace map]; [reflexivity|].
  rewrite (Hall v (or_introl eq_refl)). f_equal. apply IH. intros x Hx. apply Hall. right. exact Hx.
Qed.

Lemma trace_search_first {A R L} (arg : A -> unit -> L) (p : A -> bool) (ret : nat -> A -> R) (pre : list A) x post :
  forall i, (forall y, In y pre -> p y = false) -> p x = true ->
  trace arg (fun i v (_ : unit) => if p v then Ret (ret i v) else Next tt) i (pre ++ x :: post) tt
  = map (fun v => arg v tt) (pre ++ [x]).
Proof.
  induction pre as [|v pre IH]; intros i Hpre Hx; cbn [trace map app].
  - rewrite Hx. reflexivity.
  - rewrite (Hpre v (or_introl eq_refl)). f_equal. apply IH; [|exact Hx]. intros y Hy. apply Hpre. right. exact Hy.
Qed.

Lemma trace_next {A S R L} (arg : A -> S -> L) (body : nat -> A -> S -> ctl S R) (g : S -> A -> S) :
  (forall i v s, body i v s = Next (g s v)) ->
  forall l i s, trace arg body i l s = map (fun '(s, v) => arg v s) (fold_trace g s l).
Proof.
  intros Hb l; induction l as [|v l IH]; intros i s; cbn [trace fold_trace map]; [reflexivity|].
  rewrite Hb. f_equal. apply IH.
Qed.

Lemma fold_trace_values {A State} (g : State -> A -> State) (l : list A) : forall s, map snd (fold_trace g s l) = l.
Proof. induction l as [|v l IH]; intros s; cbn [fold_trace map snd]; [reflexivity|]. f_equal. apply IH. Qed.

Lemma map_pair_id {A B} (l : list (A * B)) : map (fun '(s, v) => (s, v)) l = l.
Proof. induction l as [|[a b] l IH]; cbn [map]; [reflexivity|]. f_equal. exact IH. Qed.

(* search loops: what the callback sees is the input up to and including the first decisive element *)
Section SearchCalls.
Context {A : Type}.

Lemma indexfunc_calls_fst (l : list A) f : fst (indexfunc_calls l f) = indexfunc l f.
Proof.
  unfold indexfunc_calls, indexfunc, for_range. rewrite logging_range.
  destruct (range_from _ 0 l tt) as [[]|r]; reflexivity.
Qed.

Lemma indexfunc_calls_none (l : list A) f :
  (forall x, In x l -> f x = false) -> indexfunc_calls l f = ((-1)%Z, l).
Proof.
  intros H. unfold indexfunc_calls, for_range. rewrite logging_range.
  rewrite (range_from_search_none f (fun i _ => Z.of_nat i)) by exact H.
  rewrite (trace_search_none (fun v _ => v) f (fun i _ => Z.of_nat i)) by exact H. rewrite map_id. reflexivity.
Qed.

Lemma indexfunc_calls_first (pre : list A) x post f :
  (forall y, In y pre -> f y = false) -> f x = true ->
  indexfunc_calls (pre ++ x :: post) f = (Z.of_nat (length pre), pre ++ [x]).
Proof.
  intros Hp Hx. unfold indexfunc_calls, for_range. rewrite logging_range.
  rewrite (range_from_search_first f (fun i _ => Z.of_nat i)) by assumption.
  rewrite (trace_search_first (fun v _ => v) f (fun i _ => Z.of_nat i)) by assumption. rewrite map_id. reflexivity.
Qed.

Lemma any_calls_fst (l : list A) cond : fst (any_calls l cond) = any l cond.
Proof.
  unfold any_calls, any, for_range. rewrite logging_range.
  destruct (range_from _ 0 l tt) as [[]|r]; reflexivity.
Qed.

Lemma any_calls_none (l : list A) cond :
  (forall x, In x l -> cond x = false) -> any_calls l cond = (false, l).
Proof.
  intros H. unfold any_calls, for_range. rewrite logging_range.
  rewrite (range_from_search_none cond (fun _ _ => true)) by exact H.
  rewrite (trace_search_none (fun v _ => v) cond (fun _ _ => true)) by exact H. rewrite map_id. reflexivity.
Qed.

Lemma any_calls_first (pre : list A) x post cond :
  (forall y, In y pre -> cond y = false) -> cond x = true ->
  any_calls (pre ++ x :: post) cond = (true, pre ++ [x]).
Proof.
  intros Hp Hx. unfold any_calls, for_range. rewrite logging_range.
  rewrite (range_from_search_first cond (fun _ _ => true)) by assumption.
  rewrite (trace_search_first (fun v _ => v) cond (fun _ _ => true)) by assumption. rewrite map_id. reflexivity.
Qed.

Lemma all_calls_fst (l : list A) cond : fst (all_calls l cond) = all l cond.
Proof.
  unfold all_calls, all, for_range. rewrite logging_range.
  destruct (range_from _ 0 l tt) as [[]|r]; reflexivity.
Qed.

Lemma all_calls_all (l : list A) cond :
  (forall x, In x l -> cond x = true) -> all_calls l cond = (true, l).
Proof.
  intros H. unfold all_calls, for_range. rewrite logging_range.
  assert (H' : forall x, In x l -> negb (cond x) = false) by (intros x Hx; rewrite (H x Hx); reflexivity).
  rewrite (range_from_search_none (fun v => negb (cond v)) (fun _ _ => false)) by exact H'.
  rewrite (trace_search_none (fun v _ => v) (fun v => negb (cond v)) (fun _ _ => false)) by exact H'.
  rewrite map_id. reflexivity.
Qed.

Lemma all_calls_first (pre : list A) x post cond :
  (forall y, In y pre -> cond y = true) -> cond x = false ->
  all_calls (pre ++ x :: post) cond = (false, pre ++ [x]).
Proof.
  intros Hp Hx. unfold all_calls, for_range. rewrite logging_range.
  assert (Hp' : forall y, In y pre -> negb (cond y) = false) by (intros y Hy; rewrite (Hp y Hy); reflexivity).
  assert (Hx' : negb (cond x) = true) by (rewrite Hx; reflexivity).
  rewrite (range_from_search_first (fun v => negb (cond v)) (fun _ _ => false)) by assumption.
  rewrite (trace_search_first (fun v _ => v) (fun v => negb (cond v)) (fun _ _ => false)) by assumption.
  rewrite map_id. reflexivity.
Qed.

Lemma containsfunc_calls_fst (l : list A) v equals : fst (containsfunc_calls l v equals) = containsfunc l v equals.
Proof.
  unfold containsfunc_calls, containsfunc, for_range. rewrite logging_range.
  destruct (range_from _ 0 l tt) as [[]|r]; reflexivity.
Qed.

Lemma containsfunc_calls_none (l : list A) value equals :
  (forall x, In x l -> equals x value = false) ->
  containsfunc_calls l value equals = (false, map (fun v => (v, value)) l).
Proof.
  intros H. unfold containsfunc_calls, for_range. rewrite logging_range.
  rewrite (range_from_search_none (fun v => equals v value) (fun _ _ => true)) by exact H.
  rewrite (trace_search_none (fun v _ => (v, value)) (fun v => equals v value) (fun _ _ => true)) by exact H.
  reflexivity.
Qed.

Lemma containsfunc_calls_first (pre : list A) x post value equals :
  (forall y, In y pre -> equals y value = false) -> equals x value = true ->
  containsfunc_calls (pre ++ x :: post) value equals = (true, map (fun v => (v, value)) (pre ++ [x])).
Proof.
  intros Hp Hx. unfold containsfunc_calls, for_range. rewrite logging_range.
  rewrite (range_from_search_first (fun v => equals v value) (fun _ _ => true)) by assumption.
  rewrite (trace_search_first (fun v _ => (v, value)) (fun v => equals v value) (fun _ _ => true)) by assumption.
  reflexivity.
Qed.
End SearchCalls.

(* loops that visit everything: the callback sees every element once, in order *)
Lemma map_calls_correct {A B} (zero : B) (l : list A) (conv : A -> B) :
  map_calls zero l conv = (Ok (map conv l), l).
Proof.
  unfold map_calls, for_range. rewrite logging_range.
  pose proof (map_loop_correct zero conv l []) as El. cbn [length app] in El. rewrite El.
  (* the trace: by induction with the same invariant *)
  assert (T : forall rest (done : list B),
            trace (fun (v : A) (_ : list B) => v)
              (fun i v result => match set_nth i (conv v) result with Ok result' => Next result' | Panic k => Ret k end)
              (length done) rest (done ++ repeat zero (length rest)) = rest).
  { induction rest as [|v rest IH]; intros done; cbn [trace length repeat]; [reflexivity|].
    rewrite set_nth_app. f_equal.
    replace (done ++ conv v :: repeat zero (length rest)) with ((done ++ [conv v]) ++ repeat zero (length rest))
      by (rewrite <- app_assoc; reflexivity).
    replace (length done + 1) with (length (done ++ [conv v])) by (rewrite app_length; reflexivity).
    apply IH. }
  pose proof (T l []) as Tl. cbn [length app] in Tl. rewrite Tl. reflexivity.
Qed.

Lemma filter_calls_correct {A} (l : list A) (p : A -> bool) : filter_calls l p = (filter p l, l).
Proof.
  unfold filter_calls, for_range. rewrite logging_range.
  rewrite (range_from_next _ (fun r v => if p v then r ++ [v] else r)) by (intros; destruct (p v); reflexivity).
  rewrite (trace_next _ _ (fun r v => if p v then r ++ [v] else r)) by (intros; destruct (p v); reflexivity).
  rewrite (fold_left_filter_acc p l []). cbn [app]. f_equal.
  erewrite map_ext; [apply fold_trace_values|]. intros [s v]. reflexivity.
Qed.

Lemma fold_calls_correct {A State} (l : list A) (seed : State) (acc : State -> A -> State) :
  fold_calls l seed acc = (fold_left acc l seed, fold_trace acc seed l).
Proof.
  unfold fold_calls, for_range. rewrite logging_range.
  rewrite (range_from_next _ acc) by reflexivity. rewrite (trace_next _ _ acc) by reflexivity.
  cbn [app]. f_equal. apply map_pair_id.
Qed.

Lemma fold_trace_snoc {A State} (acc : State -> A -> State) (l : list A) x : forall s,
  fold_trace acc s (l ++ [x]) = fold_trace acc s l ++ [(fold_left acc l s, x)].
Proof.
  induction l as [|v l IH]; intros s; cbn [app fold_trace fold_left]; [reflexivity|]. rewrite IH. reflexivity.
Qed.

Lemma foldreverse_calls_loop_correct {A State} (l : list A) (acc : State -> A -> State) :
  forall k fuel state calls, k <= length l -> k <= fuel ->
  foldreverse_calls_loop fuel l acc (Z.of_nat k - 1) state calls =
  (Ok (fold_left acc (rev (firstn k l)) state), calls ++ fold_trace acc state (rev (firstn k l))).
Proof.
  induction k as [|k IH]; intros fuel state calls Hk Hf.
  - destruct fuel; cbn; rewrite app_nil_r; reflexivity.
  - destruct fuel as [|f]; [lia|]. cbn [foldreverse_calls_loop].
    destruct (Z.geb_spec (Z.of_nat (S k) - 1) 0) as [_|?]; [|lia].
    replace (Z.of_nat (S k) - 1)%Z with (Z.of_nat k) by lia.
    destruct (nth_error l k) as [x|] eqn:E; [|apply nth_error_None in E; lia].
    rewrite (get_z_nth _ _ _ E). rewrite IH by lia.
    rewrite (firstn_S_nth _ _ _ E), rev_app_distr. cbn [rev app fold_left fold_trace].
    rewrite <- app_assoc. reflexivity.
Qed.

Lemma foldreverse_calls_correct {A State} (l : list A) (seed : State) (acc : State -> A -> State) :
  foldreverse_calls l seed acc = (Ok (fold_left acc (rev l) seed), fold_trace acc seed (rev l)).
Proof.
  unfold foldreverse_calls. rewrite foldreverse_calls_loop_correct by lia. rewrite firstn_all. reflexivity.
Qed.

(* DistinctFunc: one ContainsFunc(result, v, equals) per element *)
Definition distinct_calls_step {A} (equals : A -> A -> bool) (s : list A * list (A * A)) (v : A) :=
  let '(result, calls) := s in
  let '(found, c) := containsfunc_calls result v equals in
  (if negb found then result ++ [v] else result, calls ++ c).

Lemma distinctfunc_calls_fold {A} (l : list A) equals :
  distinctfunc_calls l equals = fold_left (distinct_calls_step equals) l ([], []).
Proof.
  unfold distinctfunc_calls, for_range.
  rewrite (range_from_next _ (distinct_calls_step equals)).
  - destruct (fold_left _ l _); reflexivity.
  - intros i v [result calls]. unfold distinct_calls_step.
    destruct (containsfunc_calls result v equals) as [found c]. destruct found; reflexivity.
Qed.

Lemma distinct_calls_step_fst {A} (equals : A -> A -> bool) (l : list A) : forall s,
  fst (fold_left (distinct_calls_step equals) l s) = fold_left (distinct_step equals) l (fst s).
Proof.
  induction l as [|v l IH]; intros [result calls]; cbn [fold_left fst]; [reflexivity|].
  rewrite IH. f_equal. unfold distinct_calls_step, distinct_step.
  pose proof (containsfunc_calls_fst result v equals) as E. rewrite containsfunc_existsb in E.
  destruct (containsfunc_calls result v equals) as [found c]. cbn [fst] in *. subst found.
  destruct (existsb _ result); reflexivity.
Qed.

Lemma distinctfunc_calls_fst {A} (l : list A) equals : fst (distinctfunc_calls l equals) = distinctfunc l equals.
Proof. rewrite distinctfunc_calls_fold, distinct_calls_step_fst, distinctfunc_greedy. reflexivity. Qed.

Lemma distinctfunc_calls_snoc {A} (l : list A) (x : A) equals :
  distinctfunc_calls [] equals = ([], []) /\
  distinctfunc_calls (l ++ [x]) equals =
    (distinctfunc (l ++ [x]) equals,
     snd (distinctfunc_calls l equals) ++ snd (containsfunc_calls (distinctfunc l equals) x equals)).
Proof.
  split; [reflexivity|].
  rewrite <- (distinctfunc_calls_fst (l ++ [x])). rewrite <- (distinctfunc_calls_fst l).
  rewrite !distinctfunc_calls_fold, fold_left_app. cbn [fold_left].
  destruct (fold_left (distinct_calls_step equals) l ([], [])) as [result calls]. cbn [fst snd].
  unfold distinct_calls_step. destruct (containsfunc_calls result x equals) as [found c]. reflexivity.
Qed.

(* TrimFunc family *)
Lemma trimleftfunc_calls_correct {A} (l : list A) p :
  trimleftfunc_calls l p = (drop_while p l, take_while p l ++ firstn 1 (drop_while p l)).
Proof.
  induction l as [|x l IH]; cbn [trimleftfunc_calls drop_while take_while]; [reflexivity|].
  destruct (p x); [rewrite IH; reflexivity|reflexivity].
Qed.

Lemma rev_snoc_calls {A} (p : A -> bool) (l : list A) x :
  take_while p (rev (l ++ [x])) ++ firstn 1 (drop_while p (rev (l ++ [x]))) =
  x :: (if p x then take_while p (rev l) ++ firstn 1 (drop_while p (rev l)) else []).
Proof.
  rewrite rev_app_distr. cbn [rev app take_while drop_while]. destruct (p x); reflexivity.
Qed.

Lemma trimright_calls_loop_correct {A} (p : A -> bool) (l : list A) : forall fuel calls, length l <= fuel ->
  trimright_calls_loop fuel p l calls =
  (Ok (drop_while_end p l), calls ++ take_while p (rev l) ++ firstn 1 (drop_while p (rev l))).
Proof.
  induction l as [|x l IH] using rev_ind; intros fuel calls Hf.
  - destruct fuel; cbn; rewrite app_nil_r; reflexivity.
  - rewrite drop_while_end_snoc, rev_snoc_calls.
    assert (Hlen : length (l ++ [x]) = S (length l)) by (rewrite app_length; cbn; lia).
    assert (Hget : get_nth (length (l ++ [x]) - 1) (l ++ [x]) = Ok x).
    { unfold get_nth. rewrite Hlen. replace (S (length l) - 1) with (length l) by lia.
      rewrite nth_error_app2 by lia. rewrite Nat.sub_diag. reflexivity. }
    assert (Hrange : slice_range (l ++ [x]) 0 (length (l ++ [x]) - 1) = Ok l).
    { unfold slice_range. rewrite Hlen. replace (S (length l) - 1) with (length l) by lia.
      replace ((0 <=? length l) && (length l <=? S (length l))) with true
        by (symmetry; apply andb_true_iff; split; apply Nat.leb_le; lia).
      cbn [skipn]. rewrite Nat.sub_0_r. rewrite firstn_app, Nat.sub_diag, firstn_all. cbn [firstn].
      rewrite app_nil_r. reflexivity. }
    destruct fuel as [|f]; [rewrite Hlen in Hf; lia|].
    cbn [trimright_calls_loop]. replace (0 <? length (l ++ [x])) with true by (symmetry; apply Nat.ltb_lt; lia).
    rewrite Hget. destruct (p x); [|reflexivity].
    rewrite Hrange. rewrite IH by (rewrite Hlen in Hf; lia). rewrite <- app_assoc. reflexivity.
Qed.

Lemma trimrightfunc_calls_correct {A} (l : list A) p :
  trimrightfunc_calls l p = (Ok (drop_while_end p l), take_while p (rev l) ++ firstn 1 (drop_while p (rev l))).
Proof. unfold trimrightfunc_calls. rewrite trimright_calls_loop_correct by lia. reflexivity. Qed.

Lemma trimfunc_calls_correct {A} (l : list A) p :
  trimfunc_calls l p =
  (Ok (trim_ref p l),
   (take_while p (rev l) ++ firstn 1 (drop_while p (rev l))) ++
   (take_while p (drop_while_end p l) ++ firstn 1 (trim_ref p l))).
Proof.
  unfold trimfunc_calls. rewrite trimrightfunc_calls_correct, trimleftfunc_calls_correct. reflexivity.
Qed.

Lemma take_drop_while {A} (p : A -> bool) (l : list A) :
  take_while p l ++ drop_while p l = l /\ forallb p (take_while p l) = true.
Proof.
  induction l as [|x l [IH1 IH2]]; cbn [take_while drop_while]; [split; reflexivity|].
  destruct (p x) eqn:E; cbn [app forallb]; [|split; reflexivity].
  rewrite E, IH1, IH2. split; reflexivity.
Qed.
