(* Proofs about the model in Partition.v: each transcribed loop computes the
   reference definition, for every list and every size >= 1. *)
From Typ Require Import Lib.Base Slices.Partition.

Section Proofs.
Context {A : Type}.
Implicit Types (l slice : list A).

Lemma slice_range_ok l lo hi : lo <= hi -> hi <= length l ->
  slice_range l lo hi = Ok (firstn (hi - lo) (skipn lo l)).
Proof.
  intros H1 H2. unfold slice_range.
  destruct (Nat.leb_spec lo hi); [|lia]. destruct (Nat.leb_spec hi (length l)); [|lia]. reflexivity.
Qed.

Lemma set_nth_app {B} (pre : list B) x y rest :
  set_nth (length pre) x (pre ++ y :: rest) = Ok (pre ++ x :: rest).
Proof.
  induction pre as [|p pre IH]; [reflexivity|].
  cbn [app length set_nth]. rewrite IH. reflexivity.
Qed.

Lemma chunk_loop_spec m : forall fuel slice size i pre extra,
  1 <= size -> (i + m) * size <= length slice -> m <= fuel -> length pre = i ->
  chunk_loop fuel slice size ((i + m) * size) i (i * size) (pre ++ repeat [] (m + extra))
  = Ok (pre ++ map (piece slice size) (seq i m) ++ repeat [] extra).
Proof.
  induction m as [|m IH]; intros fuel slice size i pre extra Hs Hlen Hf Hpre.
  - rewrite Nat.add_0_r. destruct fuel; simpl; rewrite Nat.ltb_irrefl; reflexivity.
  - destruct fuel as [|fuel]; [lia|]. simpl chunk_loop.
    destruct (Nat.ltb_spec (i * size) ((i + S m) * size)) as [_|Hc]; [|nia].
    rewrite slice_range_ok by nia. simpl bind.
    cbn [Nat.add repeat]. subst i. rewrite set_nth_app. simpl bind.
    set (i := length pre) in *.
    replace (i * size + size - i * size) with size by lia.
    replace (i + S m) with ((i + 1) + m) by lia.
    replace (i * size + size) with ((i + 1) * size) by lia.
    replace (pre ++ firstn size (skipn (i * size) slice) :: repeat [] (m + extra))
      with ((pre ++ [piece slice size i]) ++ repeat [] (m + extra)) by (rewrite <- app_assoc; reflexivity).
    rewrite IH; try lia.
    + rewrite <- app_assoc. simpl. replace (i + 1) with (S i) by lia. reflexivity.
    + rewrite app_length. simpl. lia.
Qed.

Lemma chunkfunc_loop_spec m : forall fuel slice size i calls,
  1 <= size -> (i + m) * size <= length slice -> m <= fuel ->
  chunkfunc_loop fuel slice size ((i + m) * size) (i * size) calls
  = Ok (calls ++ map (piece slice size) (seq i m)).
Proof.
  induction m as [|m IH]; intros fuel slice size i calls Hs Hlen Hf.
  - rewrite Nat.add_0_r. destruct fuel; simpl; rewrite Nat.ltb_irrefl, app_nil_r; reflexivity.
  - destruct fuel as [|fuel]; [lia|]. simpl chunkfunc_loop.
    destruct (Nat.ltb_spec (i * size) ((i + S m) * size)) as [_|Hc]; [|nia].
    rewrite slice_range_ok by nia. simpl bind.
    replace (i * size + size - i * size) with size by lia.
    replace (i + S m) with ((i + 1) + m) by lia.
    replace (i * size + size) with ((i + 1) * size) by lia.
    rewrite IH; try lia. rewrite <- app_assoc. simpl. replace (i + 1) with (S i) by lia. reflexivity.
Qed.

Lemma div_facts n size : 1 <= size ->
  let d := n / size in d * size <= n /\ n < (d + 1) * size.
Proof.
  intros Hs d. subst d. pose proof (Nat.div_mod n size ltac:(lia)).
  pose proof (Nat.mod_upper_bound n size ltac:(lia)). nia.
Qed.

Lemma cdiv_exact n size : 1 <= size -> (n / size) * size = n -> cdiv n size = n / size.
Proof.
  intros Hs He. unfold cdiv. set (d := n / size) in *. clearbody d.
  symmetry. apply Nat.div_unique with (r := size - 1); nia.
Qed.

Lemma cdiv_inexact n size : 1 <= size -> (n / size) * size <> n -> cdiv n size = n / size + 1.
Proof.
  intros Hs He. unfold cdiv. pose proof (div_facts n size Hs) as [H1 H2]. set (d := n / size) in *. clearbody d.
  symmetry. apply Nat.div_unique with (r := n - d * size - 1); nia.
Qed.

Lemma piece_last l size : 1 <= size -> (length l / size) * size <> length l ->
  firstn (length l - (length l / size) * size) (skipn ((length l / size) * size) l)
  = piece l size (length l / size).
Proof.
  intros Hs He. unfold piece. pose proof (div_facts (length l) size Hs) as [H1 H2].
  set (d := length l / size) in *.
  rewrite !firstn_all2; [reflexivity| |]; rewrite skipn_length; lia.
Qed.

Theorem chunk_correct l size : 1 <= size -> chunk l size = Ok (chunk_ref l size).
Proof.
  intros Hs. unfold chunk, chunk_ref.
  destruct (Nat.eqb_spec (length l) 0) as [H0|H0].
  { unfold cdiv. rewrite H0. simpl. rewrite Nat.div_small by lia. reflexivity. }
  destruct (Nat.eqb_spec size 0); [lia|].
  pose proof (div_facts (length l) size Hs) as [H1 H2].
  pose proof (cdiv_exact (length l) size Hs) as CE. pose proof (cdiv_inexact (length l) size Hs) as CI.
  pose proof (piece_last l size Hs) as PL.
  remember (length l / size) as d eqn:Hd. clear Hd.
  destruct (Nat.eqb_spec (d * size) (length l)) as [He|He]; simpl negb; cbv iota.
  - pose proof (chunk_loop_spec d (length l) l size 0 [] 0 Hs) as L.
    cbn [Nat.add Nat.mul app] in L. rewrite Nat.add_0_r in L. rewrite L by (simpl; nia). simpl bind.
    rewrite Nat.eqb_refl. simpl. rewrite app_nil_r. rewrite CE by assumption. reflexivity.
  - pose proof (chunk_loop_spec d (length l) l size 0 [] 1 Hs) as L.
    cbn [Nat.add Nat.mul app] in L. rewrite L by (simpl; nia). simpl bind.
    destruct (Nat.eqb_spec d (d + 1)); [lia|]. simpl negb. cbv iota.
    rewrite slice_range_ok by lia. simpl bind.
    replace (d + 1 - 1) with (length (map (piece l size) (seq 0 d))) by (rewrite map_length, seq_length; lia).
    simpl repeat. rewrite set_nth_app.
    rewrite CI by assumption.
    rewrite seq_app, map_app. simpl. rewrite PL by assumption. reflexivity.
Qed.

Theorem chunkfunc_correct l size : 1 <= size -> chunkfunc l size = Ok (chunk_ref l size).
Proof.
  intros Hs. unfold chunkfunc, chunk_ref.
  destruct (Nat.eqb_spec (length l) 0) as [H0|H0].
  { unfold cdiv. rewrite H0. simpl. rewrite Nat.div_small by lia. reflexivity. }
  destruct (Nat.eqb_spec size 0); [lia|].
  pose proof (div_facts (length l) size Hs) as [H1 H2].
  pose proof (cdiv_exact (length l) size Hs) as CE. pose proof (cdiv_inexact (length l) size Hs) as CI.
  pose proof (piece_last l size Hs) as PL.
  remember (length l / size) as d eqn:Hd. clear Hd.
  pose proof (chunkfunc_loop_spec d (length l) l size 0 [] Hs) as L. cbn [Nat.add Nat.mul app] in L.
  rewrite L by (simpl; nia). simpl bind.
  destruct (Nat.eqb_spec (d * size) (length l)) as [He|He]; simpl negb; cbv iota.
  - rewrite CE by assumption. reflexivity.
  - rewrite slice_range_ok by lia. simpl bind.
    rewrite CI by assumption.
    rewrite seq_app, map_app. simpl. rewrite PL by assumption. reflexivity.
Qed.

(* ---- what the reference definition means (the statement of the property) ---- *)

Lemma concat_pieces l size : 1 <= size -> forall m, m * size <= length l + size - 1 ->
  concat (map (piece l size) (seq 0 m)) = firstn (m * size) l.
Proof.
  intros Hs m. induction m as [|m IH]; intros Hm; [reflexivity|].
  rewrite seq_S, map_app, concat_app. simpl. rewrite IH by lia. rewrite app_nil_r.
  unfold piece. rewrite <- (firstn_skipn (m * size) (firstn (size + m * size) l)) at 1.
  rewrite firstn_firstn. replace (Init.Nat.min (m * size) (size + m * size)) with (m * size) by lia.
  f_equal. rewrite skipn_firstn_comm. f_equal. lia.
Qed.

Theorem chunk_ref_concat l size : 1 <= size -> concat (chunk_ref l size) = l.
Proof.
  intros Hs. unfold chunk_ref. pose proof (div_facts (length l) size Hs) as [H1 H2].
  destruct (Nat.eq_dec ((length l / size) * size) (length l)) as [He|He].
  - rewrite cdiv_exact by assumption. rewrite concat_pieces by lia. rewrite He. apply firstn_all.
  - rewrite cdiv_inexact by assumption. rewrite concat_pieces by lia. apply firstn_all2. lia.
Qed.

Theorem chunk_ref_count l size : length (chunk_ref l size) = cdiv (length l) size.
Proof. unfold chunk_ref. rewrite map_length, seq_length. reflexivity. Qed.

Lemma cdiv_bounds n size : 1 <= size -> (cdiv n size) * size < n + size /\ n <= cdiv n size * size.
Proof.
  intros Hs. pose proof (div_facts n size Hs) as [H1 H2].
  destruct (Nat.eq_dec ((n / size) * size) n) as [He|He].
  - rewrite cdiv_exact by assumption. lia.
  - rewrite cdiv_inexact by assumption. lia.
Qed.

(* piece k has length [size] for every k but the last, and the last holds the
   remaining 1..size elements; in particular no piece is empty. *)
Theorem chunk_ref_piece_length l size k : 1 <= size -> k < cdiv (length l) size ->
  nth_error (chunk_ref l size) k = Some (piece l size k) /\
  length (piece l size k) = (if S k =? cdiv (length l) size then length l - k * size else size) /\
  1 <= length (piece l size k) <= size.
Proof.
  intros Hs Hk. pose proof (cdiv_bounds (length l) size Hs) as [B1 B2]. split; [|split].
  - unfold chunk_ref. rewrite nth_error_map, nth_error_nth' with (d := 0) by (rewrite seq_length; lia).
    rewrite seq_nth by lia. reflexivity.
  - unfold piece. rewrite firstn_length, skipn_length.
    destruct (Nat.eqb_spec (S k) (cdiv (length l) size)) as [E|E]; nia.
  - unfold piece. rewrite firstn_length, skipn_length. nia.
Qed.

Lemma for_upto_windows slice size : forall m i pre extra,
  i + m + size <= length slice + 1 -> length pre = i -> (m = 0 \/ size <= length slice) ->
  for_upto m i (fun i windows => do w <- slice_range slice i (i + size); set_nth i w windows)
    (pre ++ repeat [] (m + extra))
  = Ok (pre ++ map (fun i => firstn size (skipn i slice)) (seq i m) ++ repeat [] extra).
Proof.
  induction m as [|m IH]; intros i pre extra Hb Hpre Hsz; [reflexivity|].
  simpl for_upto. rewrite slice_range_ok by lia. simpl bind.
  cbn [Nat.add repeat]. subst i. rewrite set_nth_app. simpl bind. set (i := length pre) in *.
  replace (i + size - i) with size by lia.
  replace (pre ++ firstn size (skipn i slice) :: repeat [] (m + extra))
    with ((pre ++ [firstn size (skipn i slice)]) ++ repeat [] (m + extra)) by (rewrite <- app_assoc; reflexivity).
  rewrite IH; try lia.
  - rewrite <- app_assoc. simpl. replace (i + 1) with (S i) by lia. reflexivity.
  - rewrite app_length. simpl. lia.
Qed.

Theorem windowed_correct l size : windowed l size = Ok (windowed_ref l size).
Proof.
  unfold windowed, windowed_ref. destruct (Nat.ltb_spec (length l) size) as [H|H]; [reflexivity|].
  pose proof (for_upto_windows l size (length l - size + 1) 0 [] 0) as L. simpl app in L.
  rewrite Nat.add_0_r in L. rewrite L; try (simpl; lia). rewrite app_nil_r. reflexivity.
Qed.

Lemma for_upto_windowsfunc slice size : forall m i calls,
  i + m + size <= length slice + 1 -> (m = 0 \/ size <= length slice) ->
  for_upto m i (fun i calls => do w <- slice_range slice i (i + size); Ok (calls ++ [w])) calls
  = Ok (calls ++ map (fun i => firstn size (skipn i slice)) (seq i m)).
Proof.
  induction m as [|m IH]; intros i calls Hb Hsz; [simpl; rewrite app_nil_r; reflexivity|].
  simpl for_upto. rewrite slice_range_ok by lia. simpl bind.
  replace (i + size - i) with size by lia. rewrite IH by lia.
  rewrite <- app_assoc. simpl. replace (i + 1) with (S i) by lia. reflexivity.
Qed.

Theorem windowedfunc_correct l size : windowedfunc l size = Ok (windowed_ref l size).
Proof.
  unfold windowedfunc, windowed_ref. destruct (Nat.ltb_spec (length l) size) as [H|H]; [reflexivity|].
  rewrite for_upto_windowsfunc by lia. reflexivity.
Qed.

(* every window is a contiguous run of exactly [size] elements, in order *)
Theorem windowed_ref_spec l size : size <= length l ->
  length (windowed_ref l size) = length l - size + 1 /\
  forall i, i < length l - size + 1 ->
    nth_error (windowed_ref l size) i = Some (firstn size (skipn i l)) /\
    length (firstn size (skipn i l)) = size.
Proof.
  intros H. unfold windowed_ref. destruct (Nat.ltb_spec (length l) size); [lia|]. split.
  - rewrite map_length, seq_length. reflexivity.
  - intros i Hi. split.
    + rewrite nth_error_map, nth_error_nth' with (d := 0) by (rewrite seq_length; lia).
      rewrite seq_nth by lia. reflexivity.
    + rewrite firstn_length, skipn_length. lia.
Qed.

Lemma combine_tl_seq l (d : A) : combine l (tl l) = map (fun i => (nth i l d, nth (S i) l d)) (seq 0 (length l - 1)).
Proof.
  induction l as [|a l IH]; [reflexivity|]. destruct l as [|b l]; [reflexivity|].
  change (combine (a :: b :: l) (tl (a :: b :: l))) with ((a, b) :: combine (b :: l) (tl (b :: l))).
  rewrite IH. simpl length. replace (S (S (length l)) - 1) with (S (S (length l) - 1)) by lia.
  rewrite <- cons_seq, <- seq_shift. simpl. rewrite map_map. reflexivity.
Qed.

Lemma get_nth_ok l i (d : A) : i < length l -> get_nth i l = Ok (nth i l d).
Proof. intros H. unfold get_nth. rewrite nth_error_nth' with (d := d) by lia. reflexivity. Qed.

Lemma for_upto_pairs slice (z : A) : forall m i pre extra,
  i + m + 1 <= length slice -> length pre = i ->
  for_upto m i (fun i ps => do a <- get_nth i slice; do b <- get_nth (i + 1) slice; set_nth i (a, b) ps)
    (pre ++ repeat (z, z) (m + extra))
  = Ok (pre ++ map (fun i => (nth i slice z, nth (S i) slice z)) (seq i m) ++ repeat (z, z) extra).
Proof.
  induction m as [|m IH]; intros i pre extra Hb Hpre; [reflexivity|].
  simpl for_upto. rewrite (get_nth_ok _ _ z), (get_nth_ok _ _ z) by lia. simpl bind.
  cbn [Nat.add repeat]. subst i. rewrite set_nth_app. simpl bind. set (i := length pre) in *.
  match goal with |- for_upto _ _ _ (pre ++ ?x :: ?r) = _ => replace (pre ++ x :: r) with ((pre ++ [x]) ++ r) by (rewrite <- app_assoc; reflexivity) end.
  rewrite IH; try lia.
  - rewrite <- app_assoc. simpl. replace (i + 1) with (S i) by lia. reflexivity.
  - rewrite app_length. simpl. lia.
Qed.

Theorem pairs_correct l z : pairs l z = Ok (pairs_ref l).
Proof.
  unfold pairs, pairs_ref. destruct (Nat.ltb_spec (length l) 2) as [H|H].
  - destruct l as [|a [|b l]]; simpl in *; try reflexivity; lia.
  - pose proof (for_upto_pairs l z (length l - 1) 0 [] 0) as L. simpl app in L.
    rewrite Nat.add_0_r in L. rewrite L by (simpl; lia). rewrite app_nil_r.
    rewrite (combine_tl_seq l z). reflexivity.
Qed.

Lemma for_upto_pairsfunc slice (z : A) : forall m i calls,
  i + m + 1 <= length slice ->
  for_upto m i (fun i calls => do a <- get_nth i slice; do b <- get_nth (i + 1) slice; Ok (calls ++ [(a, b)])) calls
  = Ok (calls ++ map (fun i => (nth i slice z, nth (S i) slice z)) (seq i m)).
Proof.
  induction m as [|m IH]; intros i calls Hb; [simpl; rewrite app_nil_r; reflexivity|].
  simpl for_upto. rewrite (get_nth_ok _ _ z), (get_nth_ok _ _ z) by lia. simpl bind.
  rewrite IH by lia. rewrite <- app_assoc. simpl. replace (i + 1) with (S i) by lia. reflexivity.
Qed.

Theorem pairsfunc_correct l : pairsfunc l = Ok (pairs_ref l).
Proof.
  unfold pairsfunc, pairs_ref. destruct (Nat.ltb_spec (length l) 2) as [H|H].
  - destruct l as [|a [|b l]]; simpl in *; try reflexivity; lia.
  - destruct l as [|z l']; [simpl in H; lia|]. set (l := z :: l') in *.
    rewrite (for_upto_pairsfunc l z) by lia. simpl app. rewrite (combine_tl_seq l z). reflexivity.
Qed.

Theorem pairs_ref_spec l : length (pairs_ref l) = length l - 1 /\
  forall i a b, nth_error l i = Some a -> nth_error l (S i) = Some b -> nth_error (pairs_ref l) i = Some (a, b).
Proof.
  unfold pairs_ref. split.
  - rewrite combine_length. destruct l as [|x l]; [reflexivity|]. cbn [tl length]. lia.
  - induction l as [|x l IH]; intros i a b Ha Hb; [destruct i; discriminate|].
    destruct l as [|y l]; [destruct i; simpl in Hb; try discriminate; destruct i; discriminate|].
    destruct i as [|i].
    + simpl in *. congruence.
    + change (combine (x :: y :: l) (tl (x :: y :: l))) with ((x, y) :: combine (y :: l) (tl (y :: l))).
      simpl nth_error. apply IH; assumption.
Qed.

(* ---- sizes above the length: one chunk holding everything, no window ---- *)

Theorem windowed_none l size : length l < size -> windowed l size = Ok [] /\ windowedfunc l size = Ok [].
Proof.
  intros H. unfold windowed, windowedfunc.
  destruct (Nat.ltb_spec (length l) size); [split; reflexivity | lia].
Qed.

Lemma chunk_ref_size_above l size : length l < size ->
  chunk_ref l size = match l with [] => [] | _ :: _ => [l] end.
Proof.
  intros H. unfold chunk_ref. destruct l as [|a l'].
  - unfold cdiv. simpl length. rewrite Nat.div_small by lia. reflexivity.
  - set (l := a :: l') in *. assert (Hn : 1 <= length l) by (simpl; lia).
    assert (Hc : cdiv (length l) size = 1).
    { unfold cdiv. symmetry. apply Nat.div_unique with (r := length l - 1); lia. }
    rewrite Hc. simpl. unfold piece. simpl skipn. rewrite firstn_all2 by lia. reflexivity.
Qed.

Theorem chunk_size_above l size : length l < size ->
  chunk l size = Ok (match l with [] => [] | _ :: _ => [l] end) /\
  chunkfunc l size = Ok (match l with [] => [] | _ :: _ => [l] end).
Proof.
  intros H. rewrite chunk_correct, chunkfunc_correct by lia.
  rewrite chunk_ref_size_above by assumption. split; reflexivity.
Qed.

(* The correspondence check replaces a size above n by n + 1 (a size such as 2^63-1 cannot be
   written as a unary [nat]); the model gives the same result for both. *)
Theorem clamp_size_sound l (z : Z) :
  let size := Z.to_nat z in
  let size' := clamp_size l z in
  chunk l size = chunk l size' /\ chunkfunc l size = chunkfunc l size' /\
  windowed l size = windowed l size' /\ windowedfunc l size = windowedfunc l size'.
Proof.
  intros size size'. subst size size'. unfold clamp_size.
  destruct (Z.le_gt_cases z (Z.of_nat (length l) + 1)) as [Hle|Hgt].
  - rewrite Z.min_l by lia. repeat split; reflexivity.
  - rewrite Z.min_r by lia.
    replace (Z.to_nat (Z.of_nat (length l) + 1)) with (S (length l)) by lia.
    assert (H1 : length l < Z.to_nat z) by lia. assert (H2 : length l < S (length l)) by lia.
    destruct (chunk_size_above l _ H1) as [-> ->]. destruct (chunk_size_above l _ H2) as [-> ->].
    destruct (windowed_none l _ H1) as [-> ->]. destruct (windowed_none l _ H2) as [-> ->].
    repeat split; reflexivity.
Qed.

End Proofs.
