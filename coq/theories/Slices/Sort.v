(* Model of /repo/slices/sort.go: the sort.Interface adapters sortOrdered and
   sortLess (Len/Swap/Less), the Sort* functions that hand them to sort.Sort /
   sort.Stable (through sort.Reverse for the descending ones), Shuffle /
   ShuffleRand over rand.Shuffle, and BinarySearch / BinarySearchFunc over
   sort.Search. Value model of slices; Go ints are Z.
   Trusted standard library, as section variables with contracts
   (SortSearch.v: sort_spec, stable_spec; here: shuffle_spec): sort.Sort,
   sort.Stable, rand.Shuffle. NOT trusted: sort.Search (the transcribed loop
   sort_search) and everything in sort.go itself.
   Definitions only. *)
From Typ Require Export Lib.Base Slices.SortSearch.

Section Sort.
Context {T : Type}.
Context (lt ge : T -> T -> bool).     (* the builtin < and >= of an ordered type *)
Context (sort_Sort sort_Stable : forall St, Interface St -> St -> result St).
Context {G : Type}.                   (* state of a random generator ( *rand.Rand, or the global one) *)
Context (shuffle_swaps : G -> Z -> list (Z * Z)).

(* type sortOrdered[T typ.Ordered] []T
   func (s sortOrdered[T]) Len() int           { return len(s) }
   func (s sortOrdered[T]) Swap(i, j int)      { s[i], s[j] = s[j], s[i] }
   func (s sortOrdered[T]) Less(i, j int) bool { return s[i] < s[j] } *)
Definition sortOrdered : Interface (list T) :=
  {| i_len := fun s => lenZ s;
     i_swap := fun s i j => swapZ s i j;
     i_less := fun s i j => do a <- getZ s i; do b <- getZ s j; Ok (lt a b) |}.

(* type sortLess[T any] struct { slice []T; less func(a, b T) bool }
   func (s sortLess[T]) Len() int           { return len(s.slice) }
   func (s sortLess[T]) Swap(i, j int)      { s.slice[i], s.slice[j] = s.slice[j], s.slice[i] }
   func (s sortLess[T]) Less(i, j int) bool { return s.less(s.slice[i], s.slice[j]) }
   The less field never changes, so the state is the slice. *)
Definition sortLess (less : T -> T -> bool) : Interface (list T) :=
  {| i_len := fun slice => lenZ slice;
     i_swap := fun slice i j => swapZ slice i j;
     i_less := fun slice i j => do a <- getZ slice i; do b <- getZ slice j; Ok (less a b) |}.

(* func Sort(slice S) { sort.Sort(sortOrdered[E](slice)) } *)
Definition Sort (slice : list T) : result (list T) := sort_Sort _ sortOrdered slice.

(* func SortFunc(slice S, less func(a, b E) bool) { sort.Sort(sortLess[E]{slice, less}) } *)
Definition SortFunc (slice : list T) (less : T -> T -> bool) : result (list T) :=
  sort_Sort _ (sortLess less) slice.

(* func SortDesc(slice S) { sort.Sort(sort.Reverse(sortOrdered[E](slice))) } *)
Definition SortDesc (slice : list T) : result (list T) := sort_Sort _ (sort_Reverse sortOrdered) slice.

(* func SortDescFunc(slice S, less) { sort.Sort(sort.Reverse(sortLess[E]{slice, less})) } *)
Definition SortDescFunc (slice : list T) (less : T -> T -> bool) : result (list T) :=
  sort_Sort _ (sort_Reverse (sortLess less)) slice.

(* func SortStableFunc(slice S, less) { sort.Stable(sortLess[E]{slice, less}) } *)
Definition SortStableFunc (slice : list T) (less : T -> T -> bool) : result (list T) :=
  sort_Stable _ (sortLess less) slice.

(* func SortStableDescFunc(slice S, less) { sort.Stable(sort.Reverse(sortLess[E]{slice, less})) } *)
Definition SortStableDescFunc (slice : list T) (less : T -> T -> bool) : result (list T) :=
  sort_Stable _ (sort_Reverse (sortLess less)) slice.

(* rand.Shuffle(n, swap) (trusted): calls swap(i, j) for a sequence of index
   pairs that depends only on the generator state and n *)
Definition rand_Shuffle {St} (g : G) (n : Z) (swap : St -> Z -> Z -> result St) (s : St) : result St :=
  fold_left (fun acc ij => do s' <- acc; swap s' (fst ij) (snd ij)) (shuffle_swaps g n) (Ok s).

(* func Shuffle(slice S) { rand.Shuffle(len(slice), func(i, j int) { slice[i], slice[j] = slice[j], slice[i] }) }
   [global] is the state of math/rand's global generator *)
Definition Shuffle (global : G) (slice : list T) : result (list T) :=
  rand_Shuffle global (lenZ slice) (fun s i j => swapZ s i j) slice.

(* func ShuffleRand(slice S, rand *rand.Rand) { rand.Shuffle(len(slice), func(i, j int) { ...swap... }) } *)
Definition ShuffleRand (slice : list T) (rand : G) : result (list T) :=
  rand_Shuffle rand (lenZ slice) (fun s i j => swapZ s i j) slice.

(* func BinarySearch(slice S, value E) int {
     return sort.Search(len(slice), func(i int) bool { return slice[i] >= value }) } *)
Definition BinarySearch (slice : list T) (value : T) : result Z :=
  sort_search (lenZ slice) (fun i => do x <- getZ slice i; Ok (ge x value)).

(* func BinarySearchFunc(slice S, less func(a E) bool) int {
     return sort.Search(len(slice), func(i int) bool { return !less(slice[i]) }) } *)
Definition BinarySearchFunc (slice : list T) (less : T -> bool) : result Z :=
  sort_search (lenZ slice) (fun i => do x <- getZ slice i; Ok (negb (less x))).

End Sort.

(* Contract of rand.Shuffle (trusted): only indices in [0,n) are swapped. *)
Definition shuffle_spec {G} (shuffle_swaps : G -> Z -> list (Z * Z)) : Prop :=
  forall g n i j, In (i, j) (shuffle_swaps g n) -> (0 <= i < n)%Z /\ (0 <= j < n)%Z.

(* The generator of the correspondence check: the list of pairs it will ask
   for, as recorded from a real rand.Shuffle. Nothing is filtered: a pair
   outside the slice makes the swap panic (index out of range), as in Go. This
   instance does not meet [shuffle_spec] for arbitrary lists; the permutation
   theorem for it assumes the recorded pairs are in range
   (SortProofs.recorded_swaps_perm). *)
Definition list_shuffle_swaps (g : list (Z * Z)) (n : Z) : list (Z * Z) := g.

(* An instance that does meet [shuffle_spec], showing the contract
   satisfiable: Fisher-Yates driven by a stream of numbers,
   for i := n-1; i > 0; i-- { j := next() mod (i+1); swap(i, j) } *)
Fixpoint fisher_yates_from (i : nat) (g : list Z) : list (Z * Z) :=
  match i with
  | O => []
  | S i' => (Z.of_nat i, (hd 0%Z g) mod (Z.of_nat i + 1))%Z :: fisher_yates_from i' (tl g)
  end.
Definition fisher_yates_swaps (g : list Z) (n : Z) : list (Z * Z) :=
  fisher_yates_from (Z.to_nat n - 1) g.

(* first position of v in l (statement of BinarySearch on a present value) *)
Definition first_occurrence {T} (l : list T) (v : T) (r : nat) : Prop :=
  nth_error l r = Some v /\ forall k, k < r -> nth_error l k <> Some v.

(* l is partitioned by p: once p fails it keeps failing (what BinarySearchFunc needs of its less) *)
Definition partitioned {T} (p : T -> bool) (l : list T) : Prop :=
  forall i j x y, i <= j -> nth_error l i = Some x -> nth_error l j = Some y -> p y = true -> p x = true.
