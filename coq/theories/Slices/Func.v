(* Model of the functional slice helpers of /repo/slices/slices.go:
   Index, IndexFunc, Trim, TrimFunc, TrimLeft, TrimLeftFunc, TrimRight,
   TrimRightFunc, Distinct, DistinctFunc, Contains, ContainsFunc, TryGet,
   SafeGet, SafeGetOr, Any, All, Map, MapErr, Filter, Fold, FoldReverse,
   GroupBy, CountBy, Except (with maps.NewSetFromSlice of /repo/maps/set.go),
   ExceptSet, Last -- transcribed statement by statement.

   Value model of slices: a Go slice is the list of its visible elements.
   Go [int] is [Z]; positions inside a loop are [nat]. A [comparable] element
   type comes with its [==] as a boolean function argument [eqb]. Callbacks are
   arbitrary Gallina functions. A call that can index a slice returns a
   [result]. Definitions only; the reference definitions the property compares
   with are at the end. *)
From Typ Require Export Lib.Base.

(* ---- the range statement ------------------------------------------------ *)

(* What one execution of a loop body does: fall through to the next iteration
   with new values of the loop's mutable locals, or leave the function. *)
Inductive ctl (S R : Type) := Next (s : S) | Ret (r : R).
Arguments Next {S R} s.
Arguments Ret {S R} r.

(* for i, v := range slice { body }   (i counts from the given start) *)
Fixpoint range_from {A S R : Type} (body : nat -> A -> S -> ctl S R) (i : nat) (slice : list A) (s : S)
  : ctl S R :=
  match slice with
  | [] => Next s
  | v :: rest =>
      match body i v s with
      | Next s' => range_from body (i + 1) rest s'
      | Ret r => Ret r
      end
  end.
Definition for_range {A S R : Type} (body : nat -> A -> S -> ctl S R) (slice : list A) (s : S) : ctl S R :=
  range_from body 0 slice s.

(* slice[i] for a Go int i *)
Definition get_z {A} (slice : list A) (i : Z) : result A :=
  if (i <? 0)%Z then Panic IndexOutOfRange else get_nth (Z.to_nat i) slice.

(* ---- Go map[K]V with comparable K, as used locally by GroupBy / CountBy and
   by maps.Set: only lookup and store are used. ------------------------------- *)
Section AMap.
Context {K V : Type} (keqb : K -> K -> bool).

(* v, ok := m[key] *)
Fixpoint amap_get (m : list (K * V)) (key : K) : option V :=
  match m with
  | [] => None
  | (k, v) :: m' => if keqb k key then Some v else amap_get m' key
  end.

(* m[key] = v *)
Fixpoint amap_set (m : list (K * V)) (key : K) (v : V) : list (K * V) :=
  match m with
  | [] => [(key, v)]
  | (k, v0) :: m' => if keqb k key then (k, v) :: m' else (k, v0) :: amap_set m' key v
  end.
End AMap.

Section Func.
Context {A : Type}.

(* func Index(slice, value) int *)
Definition index (eqb : A -> A -> bool) (slice : list A) (value : A) : Z :=
  match for_range (fun i v (_ : unit) => if eqb v value then Ret (Z.of_nat i) else Next tt) slice tt with
  | Ret r => r
  | Next _ => (-1)%Z
  end.

(* func IndexFunc(slice, f) int *)
Definition indexfunc (slice : list A) (f : A -> bool) : Z :=
  match for_range (fun i v (_ : unit) => if f v then Ret (Z.of_nat i) else Next tt) slice tt with
  | Ret r => r
  | Next _ => (-1)%Z
  end.

(* func Contains(slice, value) bool *)
Definition contains (eqb : A -> A -> bool) (slice : list A) (value : A) : bool :=
  match for_range (fun _ v (_ : unit) => if eqb v value then Ret true else Next tt) slice tt with
  | Ret r => r
  | Next _ => false
  end.

(* func ContainsFunc(slice, value, equals) bool   -- calls equals(v, value) *)
Definition containsfunc (slice : list A) (value : A) (equals : A -> A -> bool) : bool :=
  match for_range (fun _ v (_ : unit) => if equals v value then Ret true else Next tt) slice tt with
  | Ret r => r
  | Next _ => false
  end.

(* func TrimLeft(slice, unwanted):
   for len(slice) > 0 && Contains(unwanted, slice[0]) { slice = slice[1:] }; return slice *)
Fixpoint trimleft (eqb : A -> A -> bool) (slice : list A) (unwanted : list A) : list A :=
  match slice with
  | [] => slice
  | s0 :: tail => if contains eqb unwanted s0 then trimleft eqb tail unwanted else slice
  end.

(* func TrimLeftFunc(slice, unwanted func) *)
Fixpoint trimleftfunc (slice : list A) (unwanted : A -> bool) : list A :=
  match slice with
  | [] => slice
  | s0 :: tail => if unwanted s0 then trimleftfunc tail unwanted else slice
  end.

(* for len(slice) > 0 && unwanted(slice[len(slice)-1]) { slice = slice[:len(slice)-1] }; return slice *)
Fixpoint trimright_loop (fuel : nat) (unwanted : A -> bool) (slice : list A) : result (list A) :=
  if 0 <? length slice then
    do last <- get_nth (length slice - 1) slice;
    if unwanted last then
      match fuel with
      | O => Panic OtherPanic (* out of fuel; excluded by the theorems *)
      | S f => do slice' <- slice_range slice 0 (length slice - 1); trimright_loop f unwanted slice'
      end
    else Ok slice
  else Ok slice.

(* func TrimRight(slice, unwanted) *)
Definition trimright (eqb : A -> A -> bool) (slice : list A) (unwanted : list A) : result (list A) :=
  trimright_loop (length slice) (fun v => contains eqb unwanted v) slice.

(* func TrimRightFunc(slice, unwanted func) *)
Definition trimrightfunc (slice : list A) (unwanted : A -> bool) : result (list A) :=
  trimright_loop (length slice) unwanted slice.

(* func Trim(slice, unwanted) = TrimLeft(TrimRight(slice, unwanted), unwanted) *)
Definition trim (eqb : A -> A -> bool) (slice : list A) (unwanted : list A) : result (list A) :=
  do r <- trimright eqb slice unwanted; Ok (trimleft eqb r unwanted).

(* func TrimFunc(slice, unwanted func) = TrimLeftFunc(TrimRightFunc(slice, unwanted), unwanted) *)
Definition trimfunc (slice : list A) (unwanted : A -> bool) : result (list A) :=
  do r <- trimrightfunc slice unwanted; Ok (trimleftfunc r unwanted).

(* func Distinct(slice):
   result := make(S, 0, len(slice)); for _, v := range slice { if !Contains(result, v) { result = append(result, v) } } *)
Definition distinct (eqb : A -> A -> bool) (slice : list A) : list A :=
  match for_range (R := Empty_set)
          (fun _ v result => if negb (contains eqb result v) then Next (result ++ [v]) else Next result) slice [] with
  | Next result => result
  | Ret e => match e with end
  end.

(* func DistinctFunc(slice, equals) *)
Definition distinctfunc (slice : list A) (equals : A -> A -> bool) : list A :=
  match for_range (R := Empty_set)
          (fun _ v result => if negb (containsfunc result v equals) then Next (result ++ [v]) else Next result)
          slice [] with
  | Next result => result
  | Ret e => match e with end
  end.

(* func TryGet(slice, index) (E, bool)   -- [zero] is typ.Zero[E]() *)
Definition tryget (zero : A) (slice : list A) (idx : Z) : result (A * bool) :=
  if ((idx <? 0) || (idx >=? Z.of_nat (length slice)))%Z then Ok (zero, false)
  else do v <- get_z slice idx; Ok (v, true).

(* func SafeGet(slice, index) E *)
Definition safeget (zero : A) (slice : list A) (idx : Z) : result A :=
  if ((idx <? 0) || (idx >=? Z.of_nat (length slice)))%Z then Ok zero
  else get_z slice idx.

(* func SafeGetOr(slice, index, fallback) E *)
Definition safegetor (slice : list A) (idx : Z) (fallback : A) : result A :=
  if ((idx <? 0) || (idx >=? Z.of_nat (length slice)))%Z then Ok fallback
  else get_z slice idx.

(* func Last(slice) E = slice[len(slice)-1] *)
Definition last_ (slice : list A) : result A :=
  get_z slice (Z.of_nat (length slice) - 1)%Z.

(* func Any(slice, cond) bool *)
Definition any (slice : list A) (cond : A -> bool) : bool :=
  match for_range (fun _ v (_ : unit) => if cond v then Ret true else Next tt) slice tt with
  | Ret r => r
  | Next _ => false
  end.

(* func All(slice, cond) bool *)
Definition all (slice : list A) (cond : A -> bool) : bool :=
  match for_range (fun _ v (_ : unit) => if negb (cond v) then Ret false else Next tt) slice tt with
  | Ret r => r
  | Next _ => true
  end.

(* func Map(slice, conv) []Result:
   result := make([]Result, len(slice)); for i, v := range slice { result[i] = conv(v) }
   [zero] is the zero value of Result that make fills in. *)
Definition map_ {B : Type} (zero : B) (slice : list A) (conv : A -> B) : result (list B) :=
  let result := repeat zero (length slice) in
  match for_range (fun i v result =>
                     match set_nth i (conv v) result with
                     | Ok result' => Next result'
                     | Panic k => Ret k
                     end) slice result with
  | Next result => Ok result
  | Ret k => Panic k
  end.

(* func MapErr(slice, conv) ([]Result, error):
     result := make([]Result, len(slice)); var err error
     for i, v := range slice { result[i], err = conv(v); if err != nil { return nil, err } }
     return result, nil
   conv returns (Result, error); error nil is None. The model also returns the
   list of arguments conv was called with (its call log), to be able to say
   that conv is not called after the first error. nil is []. *)
Definition maperr {B E : Type} (zero : B) (slice : list A) (conv : A -> B * option E)
  : result (list B * option E * list A) :=
  let result := repeat zero (length slice) in
  match for_range (fun i v '(result, calls) =>
                     let '(r, err) := conv v in
                     let calls := calls ++ [v] in
                     match set_nth i r result with
                     | Panic k => Ret (Panic k)
                     | Ok result' =>
                         match err with
                         | Some e => Ret (Ok ([], Some e, calls))
                         | None => Next (result', calls)
                         end
                     end) slice (result, []) with
  | Next (result, calls) => Ok (result, None, calls)
  | Ret r => r
  end.

(* func Filter(slice, match) S *)
Definition filter_ (slice : list A) (match_ : A -> bool) : list A :=
  match for_range (R := Empty_set)
          (fun _ v result => if match_ v then Next (result ++ [v]) else Next result) slice [] with
  | Next result => result
  | Ret e => match e with end
  end.

(* func Fold(slice, seed, acc) State:
   state := seed; for _, v := range slice { state = acc(state, v) }; return state *)
Definition fold {State : Type} (slice : list A) (seed : State) (acc : State -> A -> State) : State :=
  let state := seed in
  match for_range (R := Empty_set) (fun _ v state => Next (acc state v)) slice state with
  | Next state => state
  | Ret e => match e with end
  end.

(* for i := len(slice) - 1; i >= 0; i-- { state = acc(state, slice[i]) } *)
Fixpoint foldreverse_loop {State : Type} (fuel : nat) (slice : list A) (acc : State -> A -> State)
         (i : Z) (state : State) : result State :=
  if (i >=? 0)%Z then
    match fuel with
    | O => Panic OtherPanic (* out of fuel; excluded by the theorems *)
    | S f => do v <- get_z slice i; foldreverse_loop f slice acc (i - 1)%Z (acc state v)
    end
  else Ok state.

(* func FoldReverse(slice, seed, acc) State *)
Definition foldreverse {State : Type} (slice : list A) (seed : State) (acc : State -> A -> State)
  : result State :=
  let state := seed in
  foldreverse_loop (length slice) slice acc (Z.of_nat (length slice) - 1)%Z state.

(* func GroupBy(slice, keyer) []Grouping[K, V]:
     m := map[K][]V{}; var orderedKeys []K
     for _, v := range slice {
       key := keyer(v); values, ok := m[key]; m[key] = append(values, v)
       if !ok { orderedKeys = append(orderedKeys, key) } }
     groups := make([]Grouping, len(orderedKeys))
     for i, key := range orderedKeys { groups[i] = Grouping{Key: key, Values: m[key]} }
   A Grouping is the pair (Key, Values); [zk] is the zero key make fills in. *)
Definition groupby {K : Type} (keqb : K -> K -> bool) (zk : K) (slice : list A) (keyer : A -> K)
  : result (list (K * list A)) :=
  match for_range (R := Empty_set)
          (fun _ v '(m, orderedKeys) =>
             let key := keyer v in
             let '(values, ok) := match amap_get keqb m key with Some vs => (vs, true) | None => ([], false) end in
             let m := amap_set keqb m key (values ++ [v]) in
             let orderedKeys := if negb ok then orderedKeys ++ [key] else orderedKeys in
             Next (m, orderedKeys)) slice ([], []) with
  | Ret e => match e with end
  | Next (m, orderedKeys) =>
      let groups := repeat (zk, []) (length orderedKeys) in
      match for_range (fun i key groups =>
                         let values := match amap_get keqb m key with Some vs => vs | None => [] end in
                         match set_nth i (key, values) groups with
                         | Ok groups' => Next groups'
                         | Panic k => Ret k
                         end) orderedKeys groups with
      | Next groups => Ok groups
      | Ret k => Panic k
      end
  end.

(* func CountBy(slice, keyer) []Counting[K]   -- a Counting is the pair (Key, Count) *)
Definition countby {K : Type} (keqb : K -> K -> bool) (zk : K) (slice : list A) (keyer : A -> K)
  : result (list (K * Z)) :=
  match for_range (R := Empty_set)
          (fun _ v '(m, orderedKeys) =>
             let key := keyer v in
             let '(count, ok) := match amap_get keqb m key with Some c => (c, true) | None => (0%Z, false) end in
             let m := amap_set keqb m key (count + 1)%Z in
             let orderedKeys := if negb ok then orderedKeys ++ [key] else orderedKeys in
             Next (m, orderedKeys)) slice ([], []) with
  | Ret e => match e with end
  | Next (m, orderedKeys) =>
      let groups := repeat (zk, 0%Z) (length orderedKeys) in
      match for_range (fun i key groups =>
                         let count := match amap_get keqb m key with Some c => c | None => 0%Z end in
                         match set_nth i (key, count) groups with
                         | Ok groups' => Next groups'
                         | Panic k => Ret k
                         end) orderedKeys groups with
      | Next groups => Ok groups
      | Ret k => Panic k
      end
  end.

(* maps.Set[E] = map[E]struct{} (/repo/maps/set.go): Has, Add, NewSetFromSlice *)
Definition set_has (eqb : A -> A -> bool) (s : list (A * unit)) (value : A) : bool :=
  match amap_get eqb s value with Some _ => true | None => false end.
Definition set_add (eqb : A -> A -> bool) (s : list (A * unit)) (value : A) : list (A * unit) * bool :=
  if set_has eqb s value then (s, false) else (amap_set eqb s value tt, true).
Definition newsetfromslice (eqb : A -> A -> bool) (slice : list A) : list (A * unit) :=
  match for_range (R := Empty_set) (fun _ v set => Next (fst (set_add eqb set v))) slice [] with
  | Next set => set
  | Ret e => match e with end
  end.

(* func ExceptSet(slice, exclude sets.Set[E]) S   -- only exclude.Has is used *)
Definition exceptset (slice : list A) (exclude_has : A -> bool) : list A :=
  match for_range (R := Empty_set)
          (fun _ v result => if negb (exclude_has v) then Next (result ++ [v]) else Next result) slice [] with
  | Next result => result
  | Ret e => match e with end
  end.

(* func Except(slice, exclude) S *)
Definition except (eqb : A -> A -> bool) (slice : list A) (exclude : list A) : list A :=
  let set := newsetfromslice eqb exclude in
  exceptset slice (set_has eqb set).

End Func.

(* ---- Call logs -----------------------------------------------------------
   The same loops with one more local, [calls]: the arguments of every call of
   the callback, in the order of the calls. (MapErr above already has it.)
   Each loop body below calls its callback exactly once, at the start of every
   iteration it executes, so the log grows by one entry per executed iteration. *)

(* [arg v s]: what the body passes to its callback in an iteration that starts with locals s *)
Definition logging {A S R L : Type} (arg : A -> S -> L) (body : nat -> A -> S -> ctl S R)
  : nat -> A -> S * list L -> ctl (S * list L) (R * list L) :=
  fun i v '(s, calls) =>
    let calls := calls ++ [arg v s] in
    match body i v s with
    | Next s' => Next (s', calls)
    | Ret r => Ret (r, calls)
    end.

Section Calls.
Context {A : Type}.

Definition indexfunc_calls (slice : list A) (f : A -> bool) : Z * list A :=
  match for_range (logging (fun v _ => v) (fun i v (_ : unit) => if f v then Ret (Z.of_nat i) else Next tt))
          slice (tt, []) with
  | Ret (r, calls) => (r, calls)
  | Next (_, calls) => ((-1)%Z, calls)
  end.

(* the log holds the pairs (v, value) equals was called with *)
Definition containsfunc_calls (slice : list A) (value : A) (equals : A -> A -> bool) : bool * list (A * A) :=
  match for_range (logging (fun v _ => (v, value)) (fun _ v (_ : unit) => if equals v value then Ret true else Next tt))
          slice (tt, []) with
  | Ret (r, calls) => (r, calls)
  | Next (_, calls) => (false, calls)
  end.

Definition any_calls (slice : list A) (cond : A -> bool) : bool * list A :=
  match for_range (logging (fun v _ => v) (fun _ v (_ : unit) => if cond v then Ret true else Next tt))
          slice (tt, []) with
  | Ret (r, calls) => (r, calls)
  | Next (_, calls) => (false, calls)
  end.

Definition all_calls (slice : list A) (cond : A -> bool) : bool * list A :=
  match for_range (logging (fun v _ => v) (fun _ v (_ : unit) => if negb (cond v) then Ret false else Next tt))
          slice (tt, []) with
  | Ret (r, calls) => (r, calls)
  | Next (_, calls) => (true, calls)
  end.

Definition map_calls {B : Type} (zero : B) (slice : list A) (conv : A -> B) : result (list B) * list A :=
  let result := repeat zero (length slice) in
  match for_range (logging (fun v _ => v)
                     (fun i v result =>
                        match set_nth i (conv v) result with
                        | Ok result' => Next result'
                        | Panic k => Ret k
                        end)) slice (result, []) with
  | Next (result, calls) => (Ok result, calls)
  | Ret (k, calls) => (Panic k, calls)
  end.

Definition filter_calls (slice : list A) (match_ : A -> bool) : list A * list A :=
  match for_range
          (logging (R := Empty_set) (fun v _ => v) (fun _ v result => if match_ v then Next (result ++ [v]) else Next result))
          slice ([], []) with
  | Next (result, calls) => (result, calls)
  | Ret (e, _) => match e with end
  end.

(* the log holds the pairs (state, v) acc was called with *)
Definition fold_calls {State : Type} (slice : list A) (seed : State) (acc : State -> A -> State)
  : State * list (State * A) :=
  let state := seed in
  match for_range (logging (R := Empty_set) (fun v state => (state, v)) (fun _ v state => Next (acc state v)))
          slice (state, []) with
  | Next (state, calls) => (state, calls)
  | Ret (e, _) => match e with end
  end.

Fixpoint foldreverse_calls_loop {State : Type} (fuel : nat) (slice : list A) (acc : State -> A -> State)
         (i : Z) (state : State) (calls : list (State * A)) : result State * list (State * A) :=
  if (i >=? 0)%Z then
    match fuel with
    | O => (Panic OtherPanic, calls)
    | S f =>
        match get_z slice i with
        | Panic k => (Panic k, calls)
        | Ok v => foldreverse_calls_loop f slice acc (i - 1)%Z (acc state v) (calls ++ [(state, v)])
        end
    end
  else (Ok state, calls).

Definition foldreverse_calls {State : Type} (slice : list A) (seed : State) (acc : State -> A -> State)
  : result State * list (State * A) :=
  let state := seed in
  foldreverse_calls_loop (length slice) slice acc (Z.of_nat (length slice) - 1)%Z state [].

(* DistinctFunc: every iteration runs ContainsFunc(result, v, equals); the log holds the pairs
   (kept element, v) equals was called with *)
Definition distinctfunc_calls (slice : list A) (equals : A -> A -> bool) : list A * list (A * A) :=
  match for_range (R := Empty_set)
          (fun _ v '(result, calls) =>
             let '(found, c) := containsfunc_calls result v equals in
             let calls := calls ++ c in
             if negb found then Next (result ++ [v], calls) else Next (result, calls))
          slice ([], []) with
  | Next (result, calls) => (result, calls)
  | Ret e => match e with end
  end.

Fixpoint trimleftfunc_calls (slice : list A) (unwanted : A -> bool) : list A * list A :=
  match slice with
  | [] => (slice, [])
  | s0 :: tail =>
      if unwanted s0 then let '(r, calls) := trimleftfunc_calls tail unwanted in (r, s0 :: calls)
      else (slice, [s0])
  end.

Fixpoint trimright_calls_loop (fuel : nat) (unwanted : A -> bool) (slice : list A) (calls : list A)
  : result (list A) * list A :=
  if 0 <? length slice then
    match get_nth (length slice - 1) slice with
    | Panic k => (Panic k, calls)
    | Ok last =>
        let calls := calls ++ [last] in
        if unwanted last then
          match fuel with
          | O => (Panic OtherPanic, calls)
          | S f =>
              match slice_range slice 0 (length slice - 1) with
              | Panic k => (Panic k, calls)
              | Ok slice' => trimright_calls_loop f unwanted slice' calls
              end
          end
        else (Ok slice, calls)
    end
  else (Ok slice, calls).

Definition trimrightfunc_calls (slice : list A) (unwanted : A -> bool) : result (list A) * list A :=
  trimright_calls_loop (length slice) unwanted slice [].

(* TrimFunc = TrimLeftFunc(TrimRightFunc(slice, unwanted), unwanted): the right trim's calls, then the left trim's *)
Definition trimfunc_calls (slice : list A) (unwanted : A -> bool) : result (list A) * list A :=
  match trimrightfunc_calls slice unwanted with
  | (Panic k, calls) => (Panic k, calls)
  | (Ok r, calls) => let '(r', calls') := trimleftfunc_calls r unwanted in (Ok r', calls ++ calls')
  end.

End Calls.

(* the calls of a left fold: (state before, element) for every element in order *)
Fixpoint fold_trace {A State : Type} (acc : State -> A -> State) (state : State) (l : list A) : list (State * A) :=
  match l with
  | [] => []
  | v :: rest => (state, v) :: fold_trace acc (acc state v) rest
  end.

(* ---- Reference definitions (the statement of C14) ----------------------- *)

(* Elements of l that are not [eqf]-equal to an element before them (in
   [before ++ the part of l already passed]): the first occurrences, in the
   original order. *)
Fixpoint first_occs_from {A} (eqf : A -> A -> bool) (before l : list A) : list A :=
  match l with
  | [] => []
  | x :: t => (if existsb (fun u => eqf u x) before then [] else [x]) ++ first_occs_from eqf (before ++ [x]) t
  end.
Definition first_occs {A} (eqf : A -> A -> bool) (l : list A) : list A := first_occs_from eqf [] l.

(* r is l with some elements left out (order kept) *)
Inductive subseq {A} : list A -> list A -> Prop :=
| subseq_nil : subseq [] []
| subseq_skip x r l : subseq r l -> subseq r (x :: l)
| subseq_keep x r l : subseq r l -> subseq (x :: r) (x :: l).

(* longest prefix / suffix of unwanted elements removed *)
Fixpoint drop_while {A} (p : A -> bool) (l : list A) : list A :=
  match l with [] => [] | x :: t => if p x then drop_while p t else l end.
Fixpoint take_while {A} (p : A -> bool) (l : list A) : list A :=
  match l with [] => [] | x :: t => if p x then x :: take_while p t else [] end.
Definition drop_while_end {A} (p : A -> bool) (l : list A) : list A := rev (drop_while p (rev l)).
Definition trim_ref {A} (p : A -> bool) (l : list A) : list A := drop_while p (drop_while_end p l).

(* groups: one per distinct key in order of first appearance; members in original order *)
Definition members {A K} (keqb : K -> K -> bool) (keyer : A -> K) (l : list A) (k : K) : list A :=
  filter (fun v => keqb (keyer v) k) l.
Definition group_ref {A K} (keqb : K -> K -> bool) (keyer : A -> K) (l : list A) : list (K * list A) :=
  map (fun k => (k, members keqb keyer l k)) (first_occs keqb (map keyer l)).
Definition count_ref {A K} (keqb : K -> K -> bool) (keyer : A -> K) (l : list A) : list (K * Z) :=
  map (fun k => (k, Z.of_nat (length (members keqb keyer l k)))) (first_occs keqb (map keyer l)).
