(* Model of slices.Sorted (/repo/slices/sorted.go) and of slices.Insert /
   slices.Remove as it uses them (/repo/slices/slices.go), transcribed
   statement by statement. Value model of slices (a Go slice is the list of
   its visible elements); Go ints are Z. sort.Search is the transcribed loop
   [sort_search] (SortSearch.v); sort.SliceStable is the trusted section
   variable [sort_Stable] behind [sort_SliceStable].
   Not modelled: a nil *Sorted receiver (Len's and Add's [s == nil] branches).
   Definitions only. *)
From Typ Require Export Lib.Base Slices.SortSearch.

Section Sorted.
Context {T : Type}.
Context (zero : T).                       (* the zero value make() fills with *)
Context (eqb : T -> T -> bool).           (* Go's == on the comparable type T *)
Context (sort_Stable : forall St, Interface St -> St -> result St).   (* sort.Stable, trusted *)

(* ---- builtins on the value model ---- *)

(* make([]E, n) *)
Definition make (n : nat) : list T := repeat zero n.

(* copy(dst, src) for distinct arrays: the first min(len) elements of dst are overwritten *)
Definition copy (dst src : list T) : list T :=
  let n := Nat.min (length dst) (length src) in firstn n src ++ skipn n dst.

(* the bounds check of s[lo:] : 0 <= lo <= len(s); gives the offset *)
Definition offset_from (l : list T) (lo : Z) : result nat :=
  if (lo <? 0)%Z || (lo >? lenZ l)%Z then Panic IndexOutOfRange else Ok (Z.to_nat lo).

(* copy(s[d:], s[o:]) inside one array (memmove: the source is read first) *)
Definition copy_within (l : list T) (d o : nat) : list T :=
  let n := Nat.min (length l - d) (length l - o) in
  firstn d l ++ firstn n (skipn o l) ++ skipn (d + n) l.

(* s[:hi] with len(s) = cap(s) *)
Definition slice_to (l : list T) (hi : Z) : result (list T) :=
  if (hi <? 0)%Z || (hi >? lenZ l)%Z then Panic IndexOutOfRange else Ok (firstn (Z.to_nat hi) l).

(* ---- slices.Insert / slices.Remove (slices.go) ---- *)

(* func Insert(slice *S, index int, value E) {
     *slice = append( *slice, value)
     copy(( *slice)[index+1:], ( *slice)[index:])
     ( *slice)[index] = value } *)
Definition slices_Insert (slice : list T) (index : Z) (value : T) : result (list T) :=
  let slice := slice ++ [value] in
  do d <- offset_from slice (index + 1);
  do o <- offset_from slice index;
  let slice := copy_within slice d o in
  setZ slice index value.

(* func Remove(slice *S, index int) {
     copy(( *slice)[index:], ( *slice)[index+1:])
     *slice = ( *slice)[:len( *slice)-1] } *)
Definition slices_Remove (slice : list T) (index : Z) : result (list T) :=
  do d <- offset_from slice index;
  do o <- offset_from slice (index + 1);
  let slice := copy_within slice d o in
  slice_to slice (lenZ slice - 1).

(* ---- type Sorted[T] struct { slice []T; less func(a, b T) bool } ---- *)

Record sorted := MkSorted { s_slice : list T; s_less : option (T -> T -> bool) }.

(* func NewSorted(values S, less func(a, b E) bool) Sorted[E] {
     slice := make([]E, len(values)); copy(slice, values)
     sort.SliceStable(slice, func(i, j int) bool { return less(slice[i], slice[j]) })
     return Sorted[E]{slice, less} } *)
Definition NewSorted (values : list T) (less : T -> T -> bool) : result sorted :=
  let slice := make (length values) in
  let slice := copy slice values in
  do slice <- sort_SliceStable sort_Stable slice
                (fun cur i j => do a <- getZ cur i; do b <- getZ cur j; Ok (less a b));
  Ok (MkSorted slice (Some less)).

(* func NewSortedOrdered(values ...T) Sorted[T] { return NewSorted(values, typ.Less[T]) }
   typ.Less(a, b) = a < b ; [lt] is the builtin < of the ordered type *)
Definition typ_Less (lt : T -> T -> bool) (a b : T) : bool := lt a b.
Definition NewSortedOrdered (lt : T -> T -> bool) (values : list T) : result sorted :=
  NewSorted values (typ_Less lt).

(* func (s *Sorted[T]) Len() int { ...; return len(s.slice) } *)
Definition Len (s : sorted) : Z := lenZ (s_slice s).

(* func (s *Sorted[T]) search(value T) int {
     if s.less == nil { panic("sortedslice: not initialized") }
     return sort.Search(len(s.slice), func(i int) bool { return !s.less(s.slice[i], value) }) } *)
Definition search (s : sorted) (value : T) : result Z :=
  match s_less s with
  | None => Panic Explicit
  | Some less =>
      sort_search (lenZ (s_slice s)) (fun i => do x <- getZ (s_slice s) i; Ok (negb (less x value)))
  end.

(* func (s *Sorted[T]) Get(index int) T {
     if index < 0 || index >= s.Len() { panic(fmt.Sprintf("sortedslice: index out of range ...")) }
     return s.slice[index] } *)
Definition Get (s : sorted) (index : Z) : result T :=
  if (index <? 0)%Z || (index >=? Len s)%Z then Panic IndexOutOfRange
  else getZ (s_slice s) index.

(* func (s *Sorted[T]) Add(value T) int {
     index := s.search(value); Insert(&s.slice, index, value); return index } *)
Definition Add (s : sorted) (value : T) : result (sorted * Z) :=
  do index <- search s value;
  do slice <- slices_Insert (s_slice s) index value;
  Ok (MkSorted slice (s_less s), index).

(* func (s *Sorted[T]) RemoveAt(index int) {
     if index < 0 || index >= s.Len() { panic(...) }
     Remove(&s.slice, index) } *)
Definition RemoveAt (s : sorted) (index : Z) : result sorted :=
  if (index <? 0)%Z || (index >=? Len s)%Z then Panic IndexOutOfRange
  else do slice <- slices_Remove (s_slice s) index; Ok (MkSorted slice (s_less s)).

(* func (s *Sorted[T]) Index(value T) int {
     index := s.search(value)
     if index < 0 || index >= s.Len() || s.slice[index] != value { return -1 }
     return index } *)
Definition Index (s : sorted) (value : T) : result Z :=
  do index <- search s value;
  if (index <? 0)%Z || (index >=? Len s)%Z then Ok (-1)%Z
  else do x <- getZ (s_slice s) index;
       if negb (eqb x value) then Ok (-1)%Z else Ok index.

(* func (s *Sorted[T]) Remove(value T) int {
     index := s.Index(value)
     if index == -1 { return -1 }
     Remove(&s.slice, index); return index } *)
Definition Remove (s : sorted) (value : T) : result (sorted * Z) :=
  do index <- Index s value;
  if (index =? -1)%Z then Ok (s, (-1)%Z)
  else do slice <- slices_Remove (s_slice s) index;
       Ok (MkSorted slice (s_less s), index).

(* func (s *Sorted[T]) Contains(value T) bool { return s.Index(value) != -1 } *)
Definition Contains (s : sorted) (value : T) : result bool :=
  do index <- Index s value; Ok (negb (index =? -1)%Z).

(* func (s Sorted[T]) String() string { return fmt.Sprint(s.slice) } : the contents *)
Definition String (s : sorted) : list T := s_slice s.

(* ---- operation sequences ---- *)

Inductive op :=
| OAdd (v : T) | ORemove (v : T) | ORemoveAt (i : Z) | OIndex (v : T) | OContains (v : T)
| OGet (i : Z) | OLen | OString.

Inductive ret :=
| RInt (z : Z) | RBool (b : bool) | RVal (v : T) | RUnit | RList (l : list T) | RPanic (k : panic_kind).

Definition step (s : sorted) (o : op) : result (sorted * ret) :=
  match o with
  | OAdd v => do r <- Add s v; Ok (fst r, RInt (snd r))
  | ORemove v => do r <- Remove s v; Ok (fst r, RInt (snd r))
  | ORemoveAt i => do s' <- RemoveAt s i; Ok (s', RUnit)
  | OIndex v => do i <- Index s v; Ok (s, RInt i)
  | OContains v => do b <- Contains s v; Ok (s, RBool b)
  | OGet i => do x <- Get s i; Ok (s, RVal x)
  | OLen => Ok (s, RInt (Len s))
  | OString => Ok (s, RList (String s))
  end.

(* A call that panics is recovered by the caller, who goes on with the same
   object. The model keeps the state of before the call: faithful because the
   only panics that occur from a NewSorted state are the bounds checks at the
   top of Get and RemoveAt (theorem C07_panics_exactly_out_of_range). *)
Definition step_total (s : sorted) (o : op) : sorted * ret :=
  match step s o with Ok p => p | Panic k => (s, RPanic k) end.

Fixpoint run (s : sorted) (ops : list op) : sorted * list ret :=
  match ops with
  | [] => (s, [])
  | o :: ops' =>
      let (s1, r) := step_total s o in
      let (s2, rs) := run s1 ops' in (s2, r :: rs)
  end.

End Sorted.

Arguments sorted : clear implicits.
Arguments op : clear implicits.
Arguments ret : clear implicits.

(* ---- specification side ---- *)

(* remove one occurrence of x from a bag given as a list; None when absent *)
Fixpoint remove_one {T} (eqb : T -> T -> bool) (x : T) (bag : list T) : option (list T) :=
  match bag with
  | [] => None
  | y :: bag' => if eqb y x then Some bag'
                 else match remove_one eqb x bag' with Some b => Some (y :: b) | None => None end
  end.

(* The multiset "values put in and not taken out": Add v puts v in; Remove v
   takes one v out when it reports a position and nothing when it reports -1;
   RemoveAt i takes out the value that Get i showed at that position; a
   panicking call takes out nothing. [None] = a value was taken out that was
   not there. [s] is the object the operation is applied to. *)
Definition spec_step {T} eqb (s : sorted T) (bag : list T) (o : op T) : option (list T) :=
  match o with
  | OAdd v => Some (v :: bag)
  | ORemove v => match Index eqb s v with
                 | Ok i => if (i =? -1)%Z then Some bag else remove_one eqb v bag
                 | Panic _ => Some bag
                 end
  | ORemoveAt i => match Get s i with
                   | Ok x => remove_one eqb x bag
                   | Panic _ => Some bag
                   end
  | _ => Some bag
  end.

Fixpoint spec_run {T} eqb (s : sorted T) (bag : list T) (ops : list (op T)) : option (list T) :=
  match ops with
  | [] => Some bag
  | o :: ops' =>
      match spec_step eqb s bag o with
      | None => None
      | Some bag' => spec_run eqb (fst (step_total eqb s o)) bag' ops'
      end
  end.

(* the objects the property speaks about: built by NewSorted from any slice,
   then subjected to any sequence of operations *)
Definition reachable {T} zero eqb sort_Stable (less : T -> T -> bool) (s : sorted T) : Prop :=
  exists init ops s0, NewSorted zero sort_Stable init less = Ok s0 /\ s = fst (run eqb s0 ops).

(* r is the first position of v in l *)
Definition first_position {T} (l : list T) (v : T) (r : nat) : Prop :=
  nth_error l r = Some v /\ forall k, k < r -> nth_error l k <> Some v.

(* the index argument of Get / RemoveAt is a position of the object *)
Definition op_in_range {T} (s : sorted T) (o : op T) : Prop :=
  match o with OGet i | ORemoveAt i => (0 <= i < Len s)%Z | _ => True end.
