(* Model of slices.Chunk, ChunkFunc, Windowed, WindowedFunc, Pairs, PairsFunc
   (/repo/slices/slices.go), transcribed statement by statement.
   Value model of slices: a Go slice is the list of its visible elements.
   The ...Func variants return the list of arguments their callback received.
   Definitions only. *)
From Typ Require Export Lib.Base.

Section Partition.
Context {A : Type}.

(* for i, j := 0, 0; j < rounded; i, j = i+1, j+size { chunks[i] = slice[j : j+size] } *)
Fixpoint chunk_loop (fuel : nat) (slice : list A) (size rounded i j : nat)
         (chunks : list (list A)) : result (list (list A)) :=
  if j <? rounded then
    match fuel with
    | O => Panic OtherPanic (* out of fuel; excluded by the theorems *)
    | S f =>
        do piece <- slice_range slice j (j + size);
        do chunks' <- set_nth i piece chunks;
        chunk_loop f slice size rounded (i + 1) (j + size) chunks'
    end
  else Ok chunks.

Definition chunk (slice : list A) (size : nat) : result (list (list A)) :=
  if length slice =? 0 then Ok [] else
  if size =? 0 then Panic DivByZero else
  let div := length slice / size in
  let rounded := div * size in
  let lim := if negb (rounded =? length slice) then div + 1 else div in
  let chunks := repeat [] lim in
  do chunks <- chunk_loop (length slice) slice size rounded 0 0 chunks;
  if negb (div =? lim) then
    do rest <- slice_range slice rounded (length slice);
    set_nth (lim - 1) rest chunks
  else Ok chunks.

(* for i, j := 0, 0; j < rounded; i, j = i+1, j+size { callback(slice[j : j+size]) } *)
Fixpoint chunkfunc_loop (fuel : nat) (slice : list A) (size rounded j : nat)
         (calls : list (list A)) : result (list (list A)) :=
  if j <? rounded then
    match fuel with
    | O => Panic OtherPanic
    | S f =>
        do piece <- slice_range slice j (j + size);
        chunkfunc_loop f slice size rounded (j + size) (calls ++ [piece])
    end
  else Ok calls.

Definition chunkfunc (slice : list A) (size : nat) : result (list (list A)) :=
  if length slice =? 0 then Ok [] else
  if size =? 0 then Panic DivByZero else
  let div := length slice / size in
  let rounded := div * size in
  do calls <- chunkfunc_loop (length slice) slice size rounded 0 [];
  if negb (rounded =? length slice) then
    do rest <- slice_range slice rounded (length slice);
    Ok (calls ++ [rest])
  else Ok calls.

(* for i := 0; i < lim; i++ { body i } *)
Fixpoint for_upto {S : Type} (n i : nat) (body : nat -> S -> result S) (s : S) : result S :=
  match n with
  | O => Ok s
  | S n' => do s' <- body i s; for_upto n' (i + 1) body s'
  end.

Definition windowed (slice : list A) (size : nat) : result (list (list A)) :=
  if length slice <? size then Ok [] else
  let lim := length slice - size + 1 in
  let windows := repeat [] lim in
  for_upto lim 0 (fun i windows =>
    do w <- slice_range slice i (i + size); set_nth i w windows) windows.

Definition windowedfunc (slice : list A) (size : nat) : result (list (list A)) :=
  if length slice <? size then Ok [] else
  let lim := length slice - size + 1 in
  for_upto lim 0 (fun i calls =>
    do w <- slice_range slice i (i + size); Ok (calls ++ [w])) [].

Definition pairs (slice : list A) (zero : A) : result (list (A * A)) :=
  if length slice <? 2 then Ok [] else
  let lim := length slice - 1 in
  let ps := repeat (zero, zero) lim in
  for_upto lim 0 (fun i ps =>
    do a <- get_nth i slice; do b <- get_nth (i + 1) slice; set_nth i (a, b) ps) ps.

Definition pairsfunc (slice : list A) : result (list (A * A)) :=
  if length slice <? 2 then Ok [] else
  let lim := length slice - 1 in
  for_upto lim 0 (fun i calls =>
    do a <- get_nth i slice; do b <- get_nth (i + 1) slice; Ok (calls ++ [(a, b)])) [].

End Partition.

(* Reference definitions (the statement of C13). *)
Definition cdiv (n size : nat) : nat := (n + size - 1) / size.
(* piece k of l cut into runs of [size]: l[k*size : min((k+1)*size, len l)] *)
Definition piece {A} (l : list A) (size k : nat) : list A := firstn size (skipn (k * size) l).
Definition chunk_ref {A} (l : list A) (size : nat) : list (list A) :=
  map (piece l size) (seq 0 (cdiv (length l) size)).
Definition windowed_ref {A} (l : list A) (size : nat) : list (list A) :=
  if length l <? size then [] else map (fun i => firstn size (skipn i l)) (seq 0 (length l - size + 1)).
Definition pairs_ref {A} (l : list A) : list (A * A) := combine l (tl l).

(* Used by the correspondence check only (PartitionCheck.v), and in the statement C13_clamp_size that
   justifies it: a size above n is replaced by n + 1, so that a size such as 2^63-1 is never built as a
   unary [nat]. *)
Definition clamp_size {A} (l : list A) (z : Z) : nat :=
  Z.to_nat (Z.min z (Z.of_nat (length l) + 1)).
