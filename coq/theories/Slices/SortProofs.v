(* Proofs about the model of slices/sort.go (Sort.v). *)
From Typ Require Import Lib.Base Slices.SortSearch Slices.SortSearchProofs Slices.Sort.

(* ---- the adapters present their slice ---- *)
Section Adapters.
Context {T : Type}.

Lemma sortOrdered_represents (lt : T -> T -> bool) : represents (sortOrdered lt) (fun l => l) lt.
Proof.
  split.
  - reflexivity.
  - intros s i j a b Hi Hj. cbn. rewrite (getZ_ok _ _ _ Hi), (getZ_ok _ _ _ Hj). reflexivity.
  - intros s i j a b Hi Hj. cbn. eexists. split; [apply swapZ_ok; eassumption|reflexivity].
Qed.

Lemma sortLess_represents (less : T -> T -> bool) : represents (sortLess less) (fun l => l) less.
Proof.
  split.
  - reflexivity.
  - intros s i j a b Hi Hj. cbn. rewrite (getZ_ok _ _ _ Hi), (getZ_ok _ _ _ Hj). reflexivity.
  - intros s i j a b Hi Hj. cbn. eexists. split; [apply swapZ_ok; eassumption|reflexivity].
Qed.

(* sort.Reverse presents the same sequence under the flipped order *)
Lemma sort_Reverse_represents {St E} (I : Interface St) (view : St -> list E) lessE :
  represents I view lessE -> represents (sort_Reverse I) view (flip_less lessE).
Proof.
  intros [Hl Hle Hs]. split; cbn.
  - exact Hl.
  - intros s i j a b Hi Hj. unfold flip_less. apply Hle; assumption.
  - exact Hs.
Qed.
End Adapters.

(* ---- Sort*, given the contracts of sort.Sort and sort.Stable ---- *)
Section Sorting.
Context {T : Type}.
Context (sort_Sort sort_Stable : forall St, Interface St -> St -> result St).
Hypothesis sort_ok : sort_spec sort_Sort.
Hypothesis stable_ok : stable_spec sort_Stable.

Lemma Sort_spec (lt : T -> T -> bool) : StrictWeakOrder lt -> forall l,
  exists l', Sort lt sort_Sort l = Ok l' /\ Permutation l l' /\ Sorted (le_of lt) l'.
Proof. intros W l. exact (sort_ok _ _ _ _ lt (sortOrdered_represents lt) W l). Qed.

Lemma SortFunc_spec (less : T -> T -> bool) : StrictWeakOrder less -> forall l,
  exists l', SortFunc sort_Sort l less = Ok l' /\ Permutation l l' /\ Sorted (le_of less) l'.
Proof. intros W l. exact (sort_ok _ _ _ _ less (sortLess_represents less) W l). Qed.

Lemma SortDesc_spec (lt : T -> T -> bool) : StrictWeakOrder lt -> forall l,
  exists l', SortDesc lt sort_Sort l = Ok l' /\ Permutation l l' /\ Sorted (ge_of lt) l'.
Proof.
  intros W l.
  exact (sort_ok _ _ _ _ (flip_less lt) (sort_Reverse_represents _ _ _ (sortOrdered_represents lt)) (swo_flip lt W) l).
Qed.

Lemma SortDescFunc_spec (less : T -> T -> bool) : StrictWeakOrder less -> forall l,
  exists l', SortDescFunc sort_Sort l less = Ok l' /\ Permutation l l' /\ Sorted (ge_of less) l'.
Proof.
  intros W l.
  exact (sort_ok _ _ _ _ (flip_less less) (sort_Reverse_represents _ _ _ (sortLess_represents less)) (swo_flip less W) l).
Qed.

Lemma SortStableFunc_spec (less : T -> T -> bool) : StrictWeakOrder less -> forall l,
  SortStableFunc sort_Stable l less = Ok (isort less l).
Proof.
  intros W l. destruct (stable_spec_isort sort_Stable stable_ok _ _ _ _ less (sortLess_represents less) W l)
    as (l' & E & ->). exact E.
Qed.

Lemma SortStableDescFunc_spec (less : T -> T -> bool) : StrictWeakOrder less -> forall l,
  SortStableDescFunc sort_Stable l less = Ok (isort (flip_less less) l).
Proof.
  intros W l.
  destruct (stable_spec_isort sort_Stable stable_ok _ _ _ _ (flip_less less)
              (sort_Reverse_represents _ _ _ (sortLess_represents less)) (swo_flip less W) l) as (l' & E & ->).
  exact E.
Qed.

(* what [isort less] is: the stable sort *)
Lemma isort_is_stable_sort (less : T -> T -> bool) : StrictWeakOrder less -> forall l,
  Permutation l (isort less l) /\ Sorted (le_of less) (isort less l) /\
  (forall a, filter (eqv less a) (isort less l) = filter (eqv less a) l).
Proof. intros W l. repeat split; [apply isort_perm|apply isort_sorted; exact W|intros a; apply isort_stable; exact W]. Qed.

(* descending stable sort: ordered descending, equivalent elements in input order *)
Lemma isort_flip_is_stable_desc_sort (less : T -> T -> bool) : StrictWeakOrder less -> forall l,
  Permutation l (isort (flip_less less) l) /\ Sorted (ge_of less) (isort (flip_less less) l) /\
  (forall a, filter (eqv less a) (isort (flip_less less) l) = filter (eqv less a) l).
Proof.
  intros W l. destruct (isort_is_stable_sort (flip_less less) (swo_flip less W) l) as (P & S & F).
  repeat split; [exact P|exact S|]. intros a.
  assert (E : forall x, eqv less a x = eqv (flip_less less) a x)
    by (intros x; unfold eqv, flip_less; apply andb_comm).
  rewrite (filter_ext _ _ E), (filter_ext _ _ E). apply F.
Qed.
End Sorting.

(* ---- BinarySearch / BinarySearchFunc ---- *)
Section Searching.
Context {T : Type}.

(* BinarySearchFunc: for a less that holds on a prefix of the slice and on
   nothing after it, the result is the length of that prefix *)
Lemma BinarySearchFunc_spec (less1 : T -> bool) l : partitioned less1 l ->
  exists r, BinarySearchFunc l less1 = Ok (Z.of_nat r) /\ partition_point (fun x => negb (less1 x)) l r.
Proof.
  intros Hp. unfold BinarySearchFunc. apply (search_list_spec (fun x => negb (less1 x)) l).
  intros i j x y Hij Hi Hj Hx. apply negb_true_iff in Hx. apply negb_true_iff.
  destruct (less1 y) eqn:Ey; [|reflexivity]. rewrite (Hp i j x y Hij Hi Hj Ey) in Hx. discriminate.
Qed.

(* an ascending slice is partitioned by "is less than the target" *)
Lemma sorted_partitioned (less : T -> T -> bool) : StrictWeakOrder less -> forall l target,
  Sorted (le_of less) l -> partitioned (fun a => less a target) l.
Proof.
  intros W l target Hs i j x y Hij Hi Hj Hy.
  destruct (less x target) eqn:Ex; [reflexivity|].
  assert (H : not_less_than less target y = true).
  { apply (not_less_than_mono less W l Hs target i j x y Hij Hi Hj). unfold not_less_than. rewrite Ex. reflexivity. }
  unfold not_less_than in H. rewrite Hy in H. discriminate.
Qed.

(* BinarySearchFunc on an ascending slice with "a is less than the target": the lower bound *)
Lemma BinarySearchFunc_ascending (less : T -> T -> bool) : StrictWeakOrder less -> forall l target,
  Sorted (le_of less) l ->
  exists r, BinarySearchFunc l (fun a => less a target) = Ok (Z.of_nat r) /\ r <= length l /\
    (forall k x, k < r -> nth_error l k = Some x -> less x target = true) /\
    (forall k x, r <= k -> nth_error l k = Some x -> less x target = false).
Proof.
  intros W l target Hs.
  destruct (BinarySearchFunc_spec (fun a => less a target) l (sorted_partitioned less W l target Hs))
    as (r & E & Hr & Hlo & Hhi).
  exists r. split; [exact E|]. split; [exact Hr|]. split.
  - intros k x Hk Hx. apply negb_false_iff. exact (Hlo k x Hk Hx).
  - intros k x Hk Hx. apply negb_true_iff. exact (Hhi k x Hk Hx).
Qed.

Context (lt ge : T -> T -> bool).
Hypothesis TO : StrictTotalOrder lt.
Hypothesis ge_lt : forall a b, ge a b = negb (lt a b).

(* BinarySearch on an ascending slice: the smallest index whose element is
   not less than the target (len when there is none); the first match if the
   target is present; an index that does not hold it if it is absent *)
Lemma BinarySearch_spec l v : Sorted (le_of lt) l ->
  exists r, BinarySearch ge l v = Ok (Z.of_nat r) /\
    r <= length l /\
    (forall k x, k < r -> nth_error l k = Some x -> lt x v = true) /\
    (forall k x, r <= k -> nth_error l k = Some x -> lt x v = false) /\
    (In v l -> first_occurrence l v r) /\
    (~ In v l -> nth_error l r <> Some v).
Proof.
  intros Hs. pose proof (sto_swo lt TO) as W.
  destruct (search_list_spec (not_less_than lt v) l) as (r & Er & Hp).
  { intros i j x y. apply (not_less_than_mono lt W l Hs v). }
  exists r. split.
  { unfold BinarySearch. rewrite <- Er. apply sort_search_ext. intros i.
    destruct (getZ l i) as [x|k]; cbn [bind]; [|reflexivity]. rewrite ge_lt. reflexivity. }
  destruct (lower_bound_first lt TO l v r Hs Hp) as (Hfirst & Hpres & Habs).
  destruct Hp as (Hr & Hlo & Hhi). split; [exact Hr|]. split; [|split; [|split]].
  - intros k x Hk Hx. specialize (Hlo k x Hk Hx). unfold not_less_than in Hlo. apply negb_false_iff. exact Hlo.
  - intros k x Hk Hx. specialize (Hhi k x Hk Hx). unfold not_less_than in Hhi. apply negb_true_iff. exact Hhi.
  - intros Hin. split; [exact (Hpres Hin)|exact Hfirst].
  - intros Hn Hv. apply Hn. eapply nth_error_In; exact Hv.
Qed.
End Searching.

(* ---- Shuffle / ShuffleRand ---- *)
Section Shuffling.
Context {T : Type}.
Implicit Types l p m q : list T.

Lemma split_two l i j a b : i < j -> nth_error l i = Some a -> nth_error l j = Some b ->
  exists p m q, l = p ++ a :: m ++ b :: q /\ length p = i /\ length (p ++ a :: m) = j.
Proof.
  intros Hij Hi Hj. destruct (nth_error_split l i Hi) as (p & rest & -> & Hp).
  rewrite nth_error_app2 in Hj by lia. destruct (j - length p) as [|k] eqn:Ek; [lia|]. cbn in Hj.
  destruct (nth_error_split rest k Hj) as (m & q & -> & Hm).
  exists p, m, q. repeat split; [exact Hp|]. rewrite app_length. cbn [length]. lia.
Qed.

Lemma upd_swap_far p a m b q :
  upd (upd (p ++ a :: m ++ b :: q) (length p) b) (length (p ++ a :: m)) a = p ++ b :: m ++ a :: q.
Proof.
  rewrite upd_app.
  replace (length (p ++ a :: m)) with (length (p ++ b :: m)) by (rewrite !app_length; reflexivity).
  replace (p ++ b :: m ++ b :: q) with ((p ++ b :: m) ++ b :: q) by (rewrite <- app_assoc; reflexivity).
  rewrite upd_app, <- app_assoc. reflexivity.
Qed.

Lemma upd_swap_far' p a m b q :
  upd (upd (p ++ a :: m ++ b :: q) (length (p ++ a :: m)) a) (length p) b = p ++ b :: m ++ a :: q.
Proof.
  replace (p ++ a :: m ++ b :: q) with ((p ++ a :: m) ++ b :: q) by (rewrite <- app_assoc; reflexivity).
  rewrite upd_app, <- app_assoc. cbn [app]. rewrite upd_app. reflexivity.
Qed.

Lemma swap_two_perm p a m b q : Permutation (p ++ a :: m ++ b :: q) (p ++ b :: m ++ a :: q).
Proof.
  apply Permutation_app_head.
  rewrite <- (Permutation_middle m q b), <- (Permutation_middle m q a). apply perm_swap.
Qed.

Lemma swap_perm l i j a b : nth_error l i = Some a -> nth_error l j = Some b ->
  Permutation l (upd (upd l i b) j a).
Proof.
  intros Hi Hj. destruct (Nat.lt_trichotomy i j) as [Hlt|[->|Hgt]].
  - destruct (split_two l i j a b Hlt Hi Hj) as (p & m & q & -> & <- & <-).
    rewrite upd_swap_far. apply swap_two_perm.
  - assert (a = b) by congruence. subst b.
    destruct (nth_error_split l j Hi) as (p & q & -> & <-). rewrite !upd_app. reflexivity.
  - destruct (split_two l j i b a Hgt Hj Hi) as (p & m & q & -> & <- & <-).
    rewrite upd_swap_far'. symmetry. apply swap_two_perm.
Qed.

Lemma swapZ_perm l i j : (0 <= i < lenZ l)%Z -> (0 <= j < lenZ l)%Z ->
  exists l', swapZ l i j = Ok l' /\ Permutation l l'.
Proof.
  unfold lenZ. intros Hi Hj.
  destruct (nth_error l (Z.to_nat i)) as [a|] eqn:Ea; [|apply nth_error_None in Ea; lia].
  destruct (nth_error l (Z.to_nat j)) as [b|] eqn:Eb; [|apply nth_error_None in Eb; lia].
  exists (upd (upd l (Z.to_nat i) b) (Z.to_nat j) a). split.
  - replace i with (Z.of_nat (Z.to_nat i)) at 1 by lia. replace j with (Z.of_nat (Z.to_nat j)) at 1 by lia.
    apply swapZ_ok; assumption.
  - apply swap_perm; assumption.
Qed.

Context {G : Type} (shuffle_swaps : G -> Z -> list (Z * Z)).
Hypothesis shuffle_ok : shuffle_spec shuffle_swaps.

Lemma swaps_perm (swaps : list (Z * Z)) : forall l,
  (forall i j, In (i, j) swaps -> (0 <= i < lenZ l)%Z /\ (0 <= j < lenZ l)%Z) ->
  exists l', fold_left (fun acc ij => do s' <- acc; swapZ s' (fst ij) (snd ij)) swaps (Ok l) = Ok l' /\
             Permutation l l'.
Proof.
  induction swaps as [|[i j] swaps IH]; intros l Hr.
  - exists l. split; reflexivity.
  - cbn [fold_left bind fst snd]. destruct (Hr i j (or_introl eq_refl)) as [Hi Hj].
    destruct (swapZ_perm l i j Hi Hj) as (l1 & -> & P1).
    destruct (IH l1) as (l' & E & P').
    + intros i' j' Hin. unfold lenZ. rewrite <- (Permutation_length P1). apply Hr. right. exact Hin.
    + exists l'. split; [exact E|]. rewrite P1. exact P'.
Qed.

Lemma ShuffleRand_perm l (g : G) : exists l', ShuffleRand shuffle_swaps l g = Ok l' /\ Permutation l l'.
Proof. unfold ShuffleRand, rand_Shuffle. apply swaps_perm. intros i j. apply shuffle_ok. Qed.

Lemma Shuffle_perm l (g : G) : exists l', Shuffle shuffle_swaps g l = Ok l' /\ Permutation l l'.
Proof. unfold Shuffle, rand_Shuffle. apply swaps_perm. intros i j. apply shuffle_ok. Qed.

(* ShuffleRand is a function of the generator: generators that make rand.Shuffle ask for the same
   swaps give the same result *)
Lemma ShuffleRand_deterministic l (g1 g2 : G) :
  shuffle_swaps g1 (lenZ l) = shuffle_swaps g2 (lenZ l) ->
  ShuffleRand shuffle_swaps l g1 = ShuffleRand shuffle_swaps l g2.
Proof. unfold ShuffleRand, rand_Shuffle. intros ->. reflexivity. Qed.
End Shuffling.

Lemma fisher_yates_swaps_spec : shuffle_spec fisher_yates_swaps.
Proof.
  intros g n i j. unfold fisher_yates_swaps.
  assert (H : forall k g, k < Z.to_nat n -> In (i, j) (fisher_yates_from k g) -> (0 <= i < n)%Z /\ (0 <= j < n)%Z).
  { induction k as [|k IH]; intros g' Hk Hin; [contradiction|]. cbn [fisher_yates_from In] in Hin.
    destruct Hin as [E|Hin]; [|apply (IH (tl g')); [lia|exact Hin]].
    injection E as <- <-.
    pose proof (Z.mod_pos_bound (hd 0%Z g') (Z.of_nat (S k) + 1) ltac:(lia)). lia. }
  destruct (Z.to_nat n) as [|m] eqn:E; [cbn; contradiction|].
  apply H. lia.
Qed.

(* the recorded-swaps generator: if the recorded pairs are in range, a permutation; the
   first out-of-range pair makes the model panic like Go would *)
Lemma recorded_swaps_perm {T} (l : list T) (g : list (Z * Z)) :
  (forall i j, In (i, j) g -> (0 <= i < lenZ l)%Z /\ (0 <= j < lenZ l)%Z) ->
  exists l', ShuffleRand list_shuffle_swaps l g = Ok l' /\ Permutation l l'.
Proof. intros H. unfold ShuffleRand, rand_Shuffle, list_shuffle_swaps. apply swaps_perm. exact H. Qed.

(* the orders of the correspondence harness *)
Lemma Z_pair_key_swo : StrictWeakOrder (fun a b : Z * Z => (fst a <? fst b)%Z).
Proof.
  split.
  - intros a. apply Z.ltb_irrefl.
  - intros a b c H1 H2. apply Z.ltb_lt in H1, H2. apply Z.ltb_lt. lia.
  - intros a b c H. apply Z.ltb_lt in H. rewrite !Z.ltb_lt. lia.
Qed.

Lemma Z_geb_ltb : forall a b : Z, (a >=? b)%Z = negb (a <? b)%Z.
Proof. intros a b. destruct (Z.geb_spec a b), (Z.ltb_spec a b); try reflexivity; lia. Qed.
