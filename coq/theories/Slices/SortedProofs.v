(* Proofs about the model of slices.Sorted (Sorted.v). *)
From Typ Require Import Lib.Base Slices.SortSearch Slices.SortSearchProofs Slices.Sorted.

(* ---- generic list facts ---- *)
Section Lists.
Context {A : Type}.
Implicit Types l a b : list A.

Definition ins_at (r : nat) (v : A) l : list A := firstn r l ++ v :: skipn r l.
Definition del_at (r : nat) l : list A := firstn r l ++ skipn (S r) l.

Lemma firstn_app_exact a b : firstn (length a) (a ++ b) = a.
Proof. induction a; cbn; congruence. Qed.

Lemma skipn_app_exact a b : skipn (length a) (a ++ b) = b.
Proof. induction a; cbn; congruence. Qed.

Lemma ins_at_app a b v : ins_at (length a) v (a ++ b) = a ++ v :: b.
Proof. unfold ins_at. rewrite firstn_app_exact, skipn_app_exact. reflexivity. Qed.

Lemma del_at_app a x b : del_at (length a) (a ++ x :: b) = a ++ b.
Proof.
  unfold del_at. rewrite firstn_app_exact.
  replace (S (length a)) with (length (a ++ [x])) by (rewrite app_length; cbn; lia).
  replace (a ++ x :: b) with ((a ++ [x]) ++ b) by (rewrite <- app_assoc; reflexivity).
  rewrite skipn_app_exact. reflexivity.
Qed.

Lemma split_at r l : r <= length l -> exists a b, l = a ++ b /\ length a = r.
Proof.
  intros H. exists (firstn r l), (skipn r l). split; [symmetry; apply firstn_skipn|].
  rewrite firstn_length. lia.
Qed.

Lemma split_nth r l x : nth_error l r = Some x -> exists a b, l = a ++ x :: b /\ length a = r.
Proof.
  intros H. destruct (nth_error_split l r H) as (a & b & -> & Hl). exists a, b. auto.
Qed.

Lemma ins_at_perm r v l : Permutation (ins_at r v l) (v :: l).
Proof.
  unfold ins_at. rewrite <- Permutation_middle. constructor. rewrite firstn_skipn. reflexivity.
Qed.

Lemma del_at_perm r x l : nth_error l r = Some x -> Permutation l (x :: del_at r l).
Proof.
  intros H. destruct (split_nth r l x H) as (a & b & -> & <-). rewrite del_at_app.
  symmetry. apply Permutation_middle.
Qed.

Lemma ins_at_nth r v l : r <= length l -> nth_error (ins_at r v l) r = Some v.
Proof.
  intros H. destruct (split_at r l H) as (a & b & -> & <-). rewrite ins_at_app. apply nth_error_app_mid.
Qed.

Lemma StronglySorted_app_inv (R : A -> A -> Prop) a b : StronglySorted R (a ++ b) ->
  StronglySorted R a /\ StronglySorted R b /\ forall x y, In x a -> In y b -> R x y.
Proof.
  induction a as [|x a IH]; cbn; intros H.
  - repeat split; [constructor|exact H|contradiction].
  - inversion H as [|? ? Hs Hall]; subst. destruct (IH Hs) as (Sa & Sb & Hab).
    rewrite Forall_app in Hall. destruct Hall as [Ha Hb]. repeat split; auto.
    + constructor; assumption.
    + intros x' y [<-|Hx] Hy; [|auto]. rewrite Forall_forall in Hb. auto.
Qed.

Lemma StronglySorted_app (R : A -> A -> Prop) a b : StronglySorted R a -> StronglySorted R b ->
  (forall x y, In x a -> In y b -> R x y) -> StronglySorted R (a ++ b).
Proof.
  induction 1 as [|x a Hs IH Hall]; cbn; intros Sb Hab; [exact Sb|].
  constructor; [apply IH; auto|]. rewrite Forall_app. split; [exact Hall|].
  rewrite Forall_forall. intros y Hy. apply Hab; auto.
Qed.

Lemma in_app_nth a x b y : In y a -> exists k, k < length a /\ nth_error (a ++ x :: b) k = Some y.
Proof.
  intros H. destruct (In_nth_error _ _ H) as [k Hk]. exists k.
  assert (k < length a) by (apply nth_error_Some; congruence). split; [assumption|].
  rewrite nth_error_app1; assumption.
Qed.
End Lists.

(* ---- builtins and slices.Insert / slices.Remove ---- *)
Section Builtins.
Context {T : Type} (zero : T).
Implicit Types l a b : list T.

Lemma copy_make values : copy (make zero (length values)) values = values.
Proof.
  unfold copy, make. rewrite repeat_length, Nat.min_id, firstn_all, skipn_all2, app_nil_r;
    [reflexivity|rewrite repeat_length; lia].
Qed.

Lemma offset_from_ok l k : k <= length l -> offset_from l (Z.of_nat k) = Ok k.
Proof.
  intros H. unfold offset_from, lenZ.
  destruct (Z.ltb_spec (Z.of_nat k) 0); [lia|]. destruct (Z.gtb_spec (Z.of_nat k) (Z.of_nat (length l))); [lia|].
  cbn. rewrite Nat2Z.id. reflexivity.
Qed.

Lemma copy_within_cons x l d o : copy_within (x :: l) (S d) (S o) = x :: copy_within l d o.
Proof. reflexivity. Qed.

Lemma copy_within_app a l d o : copy_within (a ++ l) (length a + d) (length a + o) = a ++ copy_within l d o.
Proof. induction a as [|x a IH]; [reflexivity|]. cbn [app length Nat.add]. rewrite copy_within_cons, IH. reflexivity. Qed.

(* copy(s[1:], s[0:]) on b ++ [v]: everything moves one to the right *)
Lemma copy_within_right b v : exists c, copy_within (b ++ [v]) 1 0 = c :: b.
Proof.
  unfold copy_within. rewrite app_length. cbn [length].
  replace (Nat.min (length b + 1 - 1) (length b + 1 - 0)) with (length b) by lia.
  cbn [skipn]. rewrite firstn_app_exact.
  rewrite skipn_all2 by (rewrite app_length; cbn; lia). rewrite app_nil_r.
  destruct b as [|c b]; [exists v|exists c]; reflexivity.
Qed.

(* copy(s[0:], s[1:]) on x :: b: everything moves one to the left, the last element stays *)
Lemma copy_within_left x b : exists c, copy_within (x :: b) 0 1 = b ++ [c].
Proof.
  unfold copy_within. cbn [length firstn app skipn Nat.add].
  replace (Nat.min (S (length b) - 0) (S (length b) - 1)) with (length b) by lia.
  rewrite firstn_all.
  assert (H : length (skipn (length b) (x :: b)) = 1) by (rewrite skipn_length; cbn [length]; lia).
  destruct (skipn (length b) (x :: b)) as [|c [|? ?]]; try discriminate. exists c. reflexivity.
Qed.

Lemma slices_Insert_app a b v : slices_Insert (a ++ b) (Z.of_nat (length a)) v = Ok (a ++ v :: b).
Proof.
  unfold slices_Insert.
  replace (Z.of_nat (length a) + 1)%Z with (Z.of_nat (S (length a))) by lia.
  rewrite !offset_from_ok by (rewrite !app_length; cbn; lia). cbn [bind].
  rewrite <- app_assoc. replace (S (length a)) with (length a + 1) by lia.
  replace (length a) with (length a + 0) at 2 by lia. rewrite copy_within_app.
  destruct (copy_within_right b v) as [c ->].
  rewrite setZ_ok by (rewrite app_length; cbn; lia). rewrite upd_app. reflexivity.
Qed.

Lemma slices_Insert_ok l r v : r <= length l -> slices_Insert l (Z.of_nat r) v = Ok (ins_at r v l).
Proof.
  intros H. destruct (split_at r l H) as (a & b & -> & <-). rewrite ins_at_app. apply slices_Insert_app.
Qed.

Lemma slices_Remove_app a x b : slices_Remove (a ++ x :: b) (Z.of_nat (length a)) = Ok (a ++ b).
Proof.
  assert (Hc : exists c, copy_within (a ++ x :: b) (length a) (S (length a)) = (a ++ b) ++ [c]).
  { pose proof (copy_within_app a (x :: b) 0 1) as E. rewrite Nat.add_0_r, Nat.add_1_r in E.
    destruct (copy_within_left x b) as [c Ec]. rewrite Ec in E. exists c. rewrite E, app_assoc. reflexivity. }
  destruct Hc as [c Hc].
  unfold slices_Remove.
  replace (Z.of_nat (length a) + 1)%Z with (Z.of_nat (S (length a))) by lia.
  rewrite !offset_from_ok by (rewrite !app_length; cbn; lia). cbn [bind]. rewrite Hc.
  unfold slice_to, lenZ. rewrite (app_length (a ++ b)). cbn [length].
  destruct (Z.ltb_spec (Z.of_nat (length (a ++ b) + 1) - 1) 0); [lia|].
  destruct (Z.gtb_spec (Z.of_nat (length (a ++ b) + 1) - 1) (Z.of_nat (length (a ++ b) + 1))); [lia|].
  cbn [orb]. f_equal.
  replace (Z.to_nat (Z.of_nat (length (a ++ b) + 1) - 1)) with (length (a ++ b)) by lia.
  apply firstn_app_exact.
Qed.

Lemma slices_Remove_ok l r x : nth_error l r = Some x -> slices_Remove l (Z.of_nat r) = Ok (del_at r l).
Proof.
  intros H. destruct (split_nth r l x H) as (a & b & -> & <-). rewrite del_at_app. apply slices_Remove_app.
Qed.
End Builtins.

(* ---- the Sorted object ---- *)
Section Model.
Context {T : Type} (zero : T) (eqb : T -> T -> bool)
        (sort_Stable : forall St, Interface St -> St -> result St).
Hypothesis eqb_spec : forall x y, eqb x y = true <-> x = y.
Hypothesis stable_ok : stable_spec sort_Stable.
Context (less : T -> T -> bool).
Hypothesis W : StrictWeakOrder less.
Implicit Types (s : sorted T) (l : list T).

(* what every reachable object satisfies *)
Definition inv s : Prop := s_less s = Some less /\ Sorted (le_of less) (s_slice s).

Lemma NewSorted_spec values :
  NewSorted zero sort_Stable values less = Ok (MkSorted (isort less values) (Some less)).
Proof.
  unfold NewSorted. rewrite copy_make. unfold sort_SliceStable.
  destruct (stable_spec_isort sort_Stable stable_ok (list T) T _ (fun l => l) less
              (slice_interface_represents less) W values) as (s' & -> & ->).
  reflexivity.
Qed.

Lemma NewSortedOrdered_spec values :
  NewSortedOrdered zero sort_Stable less values = NewSorted zero sort_Stable values less /\
  NewSortedOrdered zero sort_Stable less values = Ok (MkSorted (isort less values) (Some less)).
Proof. split; [reflexivity|]. exact (NewSorted_spec values). Qed.

Lemma NewSorted_inv values s : NewSorted zero sort_Stable values less = Ok s -> inv s.
Proof.
  rewrite NewSorted_spec. intros [= <-]. split; [reflexivity|]. apply isort_sorted. exact W.
Qed.

Lemma search_spec s v : inv s ->
  exists r, search s v = Ok (Z.of_nat r) /\ partition_point (not_less_than less v) (s_slice s) r.
Proof.
  intros [Hl Hs]. unfold search. rewrite Hl.
  apply (search_list_spec (not_less_than less v) (s_slice s)).
  intros i j x y. apply (not_less_than_mono less W _ Hs v).
Qed.

(* inserting at the partition point keeps the order *)
Lemma ins_at_sorted l r v : Sorted (le_of less) l -> partition_point (not_less_than less v) l r ->
  Sorted (le_of less) (ins_at r v l).
Proof.
  intros Hs (Hr & Hlo & Hhi). apply StronglySorted_Sorted.
  apply (sorted_strongly less W) in Hs.
  destruct (split_at r l Hr) as (a & b & -> & <-). rewrite ins_at_app.
  destruct (StronglySorted_app_inv _ a b Hs) as (Sa & Sb & Hab).
  apply StronglySorted_app; auto.
  - constructor; [exact Sb|]. rewrite Forall_forall. intros y Hy.
    destruct (In_nth_error _ _ Hy) as [k Hk].
    specialize (Hhi (length a + k) y). rewrite nth_error_app2 in Hhi by lia. replace (length a + k - length a) with k in Hhi by lia.
    specialize (Hhi ltac:(lia) Hk). unfold not_less_than in Hhi. apply negb_true_iff in Hhi. exact Hhi.
  - intros x y Hx [<-|Hy]; [|auto].
    destruct (In_nth_error _ _ Hx) as [k Hk].
    assert (k < length a) by (apply nth_error_Some; congruence).
    specialize (Hlo k x). rewrite nth_error_app1 in Hlo by assumption. specialize (Hlo ltac:(lia) Hk).
    unfold not_less_than in Hlo. apply negb_false_iff in Hlo. exact (swo_asym less W x v Hlo).
Qed.

Lemma del_at_sorted l r : Sorted (le_of less) l -> Sorted (le_of less) (del_at r l).
Proof.
  intros Hs. destruct (nth_error l r) as [x|] eqn:Ex.
  - apply StronglySorted_Sorted. apply (sorted_strongly less W) in Hs.
    destruct (split_nth r l x Ex) as (a & b & -> & <-). rewrite del_at_app.
    destruct (StronglySorted_app_inv _ a (x :: b) Hs) as (Sa & Sb & Hab).
    apply StronglySorted_app; auto.
    + inversion Sb; assumption.
    + intros x' y Hx Hy. apply Hab; [assumption|right; assumption].
  - apply nth_error_None in Ex. unfold del_at. rewrite firstn_all2, skipn_all2, app_nil_r by lia. exact Hs.
Qed.

Lemma Add_spec s v : inv s ->
  exists r, Add s v = Ok (MkSorted (ins_at r v (s_slice s)) (Some less), Z.of_nat r) /\
            partition_point (not_less_than less v) (s_slice s) r.
Proof.
  intros Hinv. destruct (search_spec s v Hinv) as (r & Er & Hp). exists r. split; [|exact Hp].
  unfold Add. rewrite Er. cbn [bind]. destruct Hp as (Hr & _).
  rewrite slices_Insert_ok by exact Hr. cbn [bind]. destruct Hinv as [-> _]. reflexivity.
Qed.

(* the value Index computes from the partition point *)
Definition index_at (r : nat) l (v : T) : Z :=
  match nth_error l r with
  | Some x => if eqb x v then Z.of_nat r else (-1)%Z
  | None => (-1)%Z
  end.

Lemma Index_spec s v : inv s ->
  exists r, Index eqb s v = Ok (index_at r (s_slice s) v) /\ partition_point (not_less_than less v) (s_slice s) r.
Proof.
  intros Hinv. destruct (search_spec s v Hinv) as (r & Er & Hp). exists r. split; [|exact Hp].
  unfold Index, index_at, Len, lenZ. rewrite Er. cbn [bind].
  destruct (Z.ltb_spec (Z.of_nat r) 0); [lia|]. cbn [orb].
  destruct (nth_error (s_slice s) r) as [x|] eqn:Ex.
  - assert (r < length (s_slice s)) by (apply nth_error_Some; congruence).
    destruct (Z.geb_spec (Z.of_nat r) (Z.of_nat (length (s_slice s)))); [lia|].
    rewrite (getZ_ok _ _ _ Ex). cbn [bind]. destruct (eqb x v); reflexivity.
  - apply nth_error_None in Ex.
    destruct (Z.geb_spec (Z.of_nat r) (Z.of_nat (length (s_slice s)))); [reflexivity|lia].
Qed.

Lemma index_at_cases r l v :
  (index_at r l v = (-1)%Z /\ nth_error l r <> Some v) \/
  (index_at r l v = Z.of_nat r /\ nth_error l r = Some v).
Proof.
  unfold index_at. destruct (nth_error l r) as [x|]; [|left; split; [reflexivity|discriminate]].
  destruct (eqb x v) eqn:E.
  - right. apply eqb_spec in E. subst. auto.
  - left. split; [reflexivity|]. intros [= ->]. rewrite (proj2 (eqb_spec v v) eq_refl) in E. discriminate.
Qed.

Lemma Remove_spec s v : inv s ->
  exists r, partition_point (not_less_than less v) (s_slice s) r /\
   ((nth_error (s_slice s) r <> Some v /\ Index eqb s v = Ok (-1)%Z /\ Remove eqb s v = Ok (s, (-1)%Z)) \/
    (nth_error (s_slice s) r = Some v /\ Index eqb s v = Ok (Z.of_nat r) /\
     Remove eqb s v = Ok (MkSorted (del_at r (s_slice s)) (Some less), Z.of_nat r))).
Proof.
  intros Hinv. destruct (Index_spec s v Hinv) as (r & Ei & Hp). exists r. split; [exact Hp|].
  unfold Remove. rewrite Ei. cbn [bind].
  destruct (index_at_cases r (s_slice s) v) as [[-> Hn]|[-> Hn]].
  - left. split; [exact Hn|split; reflexivity].
  - right. split; [exact Hn|]. split; [reflexivity|]. destruct (Z.eqb_spec (Z.of_nat r) (-1)); [lia|].
    rewrite (slices_Remove_ok _ _ _ Hn). cbn [bind]. destruct Hinv as [-> _]. reflexivity.
Qed.

Lemma Contains_spec s v : Contains eqb s v = do i <- Index eqb s v; Ok (negb (i =? -1)%Z).
Proof. reflexivity. Qed.

Lemma Get_spec s i :
  ((i < 0 \/ Len s <= i)%Z /\ Get s i = Panic IndexOutOfRange) \/
  ((0 <= i < Len s)%Z /\ exists x, nth_error (s_slice s) (Z.to_nat i) = Some x /\ Get s i = Ok x).
Proof.
  unfold Get, Len, lenZ.
  destruct (Z.ltb_spec i 0); [left; split; [lia|reflexivity]|].
  destruct (Z.geb_spec i (Z.of_nat (length (s_slice s)))); [left; split; [lia|reflexivity]|].
  right. split; [lia|]. cbn [orb].
  destruct (nth_error (s_slice s) (Z.to_nat i)) as [x|] eqn:Ex; [|apply nth_error_None in Ex; lia].
  exists x. split; [reflexivity|]. replace i with (Z.of_nat (Z.to_nat i)) at 1 by lia. apply getZ_ok. exact Ex.
Qed.

Lemma RemoveAt_spec s i : inv s ->
  ((i < 0 \/ Len s <= i)%Z /\ RemoveAt s i = Panic IndexOutOfRange) \/
  ((0 <= i < Len s)%Z /\ RemoveAt s i = Ok (MkSorted (del_at (Z.to_nat i) (s_slice s)) (Some less))).
Proof.
  intros [Hl _]. unfold RemoveAt, Len, lenZ.
  destruct (Z.ltb_spec i 0); [left; split; [lia|reflexivity]|].
  destruct (Z.geb_spec i (Z.of_nat (length (s_slice s)))); [left; split; [lia|reflexivity]|].
  right. split; [lia|]. cbn [orb].
  destruct (nth_error (s_slice s) (Z.to_nat i)) as [x|] eqn:Ex; [|apply nth_error_None in Ex; lia].
  replace i with (Z.of_nat (Z.to_nat i)) at 1 by lia. rewrite (slices_Remove_ok _ _ _ Ex). cbn [bind].
  rewrite Hl. reflexivity.
Qed.

Lemma remove_one_in v bag : In v bag ->
  exists b, remove_one eqb v bag = Some b /\ Permutation bag (v :: b).
Proof.
  induction bag as [|y bag IH]; [contradiction|]. intros Hin. cbn [remove_one].
  destruct (eqb y v) eqn:E.
  - apply eqb_spec in E. subst y. exists bag. split; reflexivity.
  - destruct Hin as [->|Hin]; [rewrite (proj2 (eqb_spec v v) eq_refl) in E; discriminate|].
    destruct (IH Hin) as (b & -> & P). exists (y :: b). split; [reflexivity|].
    rewrite P. apply perm_swap.
Qed.

Lemma step_total_fst_query s o :
  match o with OAdd _ | ORemove _ | ORemoveAt _ => True | _ => fst (step_total eqb s o) = s end.
Proof.
  destruct o; try exact I; unfold step_total, step.
  - destruct (Index eqb s v); reflexivity.
  - destruct (Contains eqb s v); reflexivity.
  - destruct (Get s i); reflexivity.
  - reflexivity.
  - reflexivity.
Qed.

(* one operation: the object stays sorted and its contents follow the multiset specification *)
Lemma step_inv s o bag : inv s -> Permutation (s_slice s) bag ->
  exists bag', spec_step eqb s bag o = Some bag' /\
    inv (fst (step_total eqb s o)) /\ Permutation (s_slice (fst (step_total eqb s o))) bag'.
Proof.
  intros Hinv P. pose proof (step_total_fst_query s o) as Hq.
  destruct o as [v|v|i|v|v|i| |]; try (exists bag; rewrite Hq; repeat split; solve [reflexivity | apply Hinv | exact P]).
  - (* Add *)
    destruct (Add_spec s v Hinv) as (r & Ea & Hp).
    unfold step_total, step. rewrite Ea. cbn [bind fst snd]. exists (v :: bag). split; [reflexivity|].
    split; [split; [reflexivity|]; apply ins_at_sorted; [apply Hinv|exact Hp]|].
    cbn [s_slice]. rewrite ins_at_perm. constructor. exact P.
  - (* Remove *)
    destruct (Remove_spec s v Hinv) as (r & Hp & [(Hn & Ei & Er)|(Hn & Ei & Er)]);
      unfold step_total, step, spec_step; rewrite Er, Ei; cbn [bind fst snd].
    + exists bag. repeat split; [apply Hinv|apply Hinv|exact P].
    + destruct (Z.eqb_spec (Z.of_nat r) (-1)); [lia|].
      destruct (remove_one_in v bag) as (b & -> & Pb).
      { apply (Permutation_in v P). eapply nth_error_In; eassumption. }
      exists b. split; [reflexivity|]. split; [split; [reflexivity|apply del_at_sorted, Hinv]|].
      cbn [s_slice]. apply (Permutation_cons_inv (a := v)).
      rewrite <- (del_at_perm r v _ Hn), <- Pb. exact P.
  - (* RemoveAt *)
    unfold step_total, step, spec_step.
    destruct (RemoveAt_spec s i Hinv) as [(Hi & ->)|(Hi & ->)];
      destruct (Get_spec s i) as [(Hi' & ->)|(Hi' & x & Hx & ->)]; try lia; cbn [bind fst snd].
    + exists bag. repeat split; [apply Hinv|apply Hinv|exact P].
    + destruct (remove_one_in x bag) as (b & -> & Pb).
      { apply (Permutation_in x P). eapply nth_error_In; eassumption. }
      exists b. split; [reflexivity|]. split; [split; [reflexivity|apply del_at_sorted, Hinv]|].
      cbn [s_slice]. apply (Permutation_cons_inv (a := x)).
      rewrite <- (del_at_perm _ x _ Hx), <- Pb. exact P.
Qed.

Lemma run_cons_fst s o ops : fst (run eqb s (o :: ops)) = fst (run eqb (fst (step_total eqb s o)) ops).
Proof.
  cbn [run]. destruct (step_total eqb s o) as [s1 r]. cbn [fst].
  destruct (run eqb s1 ops) as [s2 rs]. reflexivity.
Qed.

Lemma run_snoc_fst ops : forall s o,
  fst (run eqb s (ops ++ [o])) = fst (step_total eqb (fst (run eqb s ops)) o).
Proof.
  induction ops as [|o' ops IH]; intros s o.
  - cbn [app run fst]. destruct (step_total eqb s o); reflexivity.
  - rewrite <- app_comm_cons, !run_cons_fst. apply IH.
Qed.

Lemma run_inv ops : forall s bag, inv s -> Permutation (s_slice s) bag ->
  exists bag', spec_run eqb s bag ops = Some bag' /\
    inv (fst (run eqb s ops)) /\ Permutation (s_slice (fst (run eqb s ops))) bag'.
Proof.
  induction ops as [|o ops IH]; intros s bag Hinv P.
  - exists bag. repeat split; [apply Hinv|apply Hinv|exact P].
  - destruct (step_inv s o bag Hinv P) as (bag1 & E1 & Hinv1 & P1).
    destruct (IH _ bag1 Hinv1 P1) as (bag' & E' & Hinv' & P').
    exists bag'. rewrite run_cons_fst. cbn [spec_run]. rewrite E1. auto.
Qed.

(* C07, first part: from NewSorted over any input and after any operations the
   contents are sorted and are exactly the specified multiset *)
Theorem sorted_multiset init ops :
  exists s0, NewSorted zero sort_Stable init less = Ok s0 /\
  exists bag, spec_run eqb s0 init ops = Some bag /\
    Sorted (le_of less) (String (fst (run eqb s0 ops))) /\
    Permutation (String (fst (run eqb s0 ops))) bag.
Proof.
  eexists. split; [apply NewSorted_spec|].
  destruct (run_inv ops (MkSorted (isort less init) (Some less)) init) as (bag & E & Hinv & P).
  - split; [reflexivity|]. apply isort_sorted. exact W.
  - cbn [s_slice]. symmetry. apply isort_perm.
  - exists bag. split; [exact E|]. split; [apply Hinv|exact P].
Qed.

Lemma reachable_inv s : reachable zero eqb sort_Stable less s -> inv s.
Proof.
  intros (init & ops & s0 & E0 & ->).
  destruct (run_inv ops s0 (s_slice s0) (NewSorted_inv init s0 E0) (Permutation_refl _)) as (_ & _ & H & _).
  exact H.
Qed.
End Model.

(* ---- positions, for a strict total order consistent with == ---- *)
Section Total.
Context {T : Type} (zero : T) (eqb : T -> T -> bool)
        (sort_Stable : forall St, Interface St -> St -> result St).
Hypothesis eqb_spec : forall x y, eqb x y = true <-> x = y.
Hypothesis stable_ok : stable_spec sort_Stable.
Context (less : T -> T -> bool).
Hypothesis TO : StrictTotalOrder less.
Implicit Types (s : sorted T) (l : list T).

Let W : StrictWeakOrder less := sto_swo less TO.

(* Add returns the position at which the new value now sits: the contents
   are the old ones with v inserted at that position, which is the lower bound of v *)
Theorem Add_position s v : reachable zero eqb sort_Stable less s ->
  exists (r : nat) s', Add s v = Ok (s', Z.of_nat r) /\ r <= length (String s) /\
    String s' = firstn r (String s) ++ v :: skipn r (String s) /\
    nth_error (String s') r = Some v /\
    (forall k x, k < r -> nth_error (String s) k = Some x -> less x v = true) /\
    (forall k x, r <= k -> nth_error (String s) k = Some x -> less x v = false) /\
    reachable zero eqb sort_Stable less s'.
Proof.
  intros Hr. pose proof (reachable_inv zero eqb sort_Stable eqb_spec stable_ok less W s Hr) as Hinv.
  destruct (Add_spec less W s v Hinv) as (r & Ea & Hp). exists r. eexists. split; [exact Ea|].
  destruct Hp as (Hle & Hlo & Hhi). split; [exact Hle|]. split; [reflexivity|].
  split; [apply ins_at_nth; exact Hle|]. split; [|split].
  - intros k x Hk Hx. specialize (Hlo k x Hk Hx). unfold not_less_than in Hlo. apply negb_false_iff. exact Hlo.
  - intros k x Hk Hx. specialize (Hhi k x Hk Hx). unfold not_less_than in Hhi. apply negb_true_iff. exact Hhi.
  - destruct Hr as (init & ops & s0 & E0 & ->). exists init, (ops ++ [OAdd v]), s0. split; [exact E0|].
    rewrite run_snoc_fst. unfold step_total, step. rewrite Ea. reflexivity.
Qed.

(* Index returns the first position holding the value, or -1 when it is absent *)
Theorem Index_first s v : reachable zero eqb sort_Stable less s ->
  (~ In v (String s) /\ Index eqb s v = Ok (-1)%Z) \/
  (exists r, first_position (String s) v r /\ Index eqb s v = Ok (Z.of_nat r)).
Proof.
  intros Hr. pose proof (reachable_inv zero eqb sort_Stable eqb_spec stable_ok less W s Hr) as Hinv.
  destruct (Remove_spec eqb eqb_spec less W s v Hinv) as (r & Hp & [(Hn & Ei & _)|(Hn & Ei & _)]);
    destruct (lower_bound_first less TO _ v r (proj2 Hinv) Hp) as (Hfirst & _ & Habs).
  - left. split; [apply Habs; exact Hn|exact Ei].
  - right. exists r. split; [split; assumption|exact Ei].
Qed.

(* Contains agrees with Index, and tells whether the value is present *)
Theorem Contains_agrees s v : reachable zero eqb sort_Stable less s ->
  exists i b, Index eqb s v = Ok i /\ Contains eqb s v = Ok b /\
    (b = true <-> i <> (-1)%Z) /\ (b = true <-> In v (String s)).
Proof.
  intros Hr. unfold Contains.
  destruct (Index_first s v Hr) as [(Hn & ->)|(r & (Hv & _) & ->)]; cbn [bind].
  - exists (-1)%Z, false. split; [reflexivity|]. split; [reflexivity|]. split; split; intros H; try discriminate.
    + exfalso. apply H. reflexivity.
    + contradiction.
  - exists (Z.of_nat r), true. destruct (Z.eqb_spec (Z.of_nat r) (-1)); [lia|].
    split; [reflexivity|]. split; [reflexivity|]. split; split; intros H; try reflexivity; try lia.
    eapply nth_error_In; exact Hv.
Qed.

(* Remove deletes the first occurrence and returns its former position, or
   returns -1 and changes nothing when the value is absent *)
Theorem Remove_first s v : reachable zero eqb sort_Stable less s ->
  (~ In v (String s) /\ Remove eqb s v = Ok (s, (-1)%Z)) \/
  (exists r s', first_position (String s) v r /\ Remove eqb s v = Ok (s', Z.of_nat r) /\
     String s' = firstn r (String s) ++ skipn (S r) (String s) /\ s_less s' = s_less s).
Proof.
  intros Hr. pose proof (reachable_inv zero eqb sort_Stable eqb_spec stable_ok less W s Hr) as Hinv.
  destruct (Remove_spec eqb eqb_spec less W s v Hinv) as (r & Hp & [(Hn & _ & Er)|(Hn & _ & Er)]);
    destruct (lower_bound_first less TO _ v r (proj2 Hinv) Hp) as (Hfirst & _ & Habs).
  - left. split; [apply Habs; exact Hn|exact Er].
  - right. exists r. eexists. split; [split; assumption|]. split; [exact Er|]. split; [reflexivity|].
    cbn. symmetry. apply Hinv.
Qed.
End Total.

(* ---- Get / RemoveAt and panics, any strict weak order ---- *)
Section Bounds.
Context {T : Type} (zero : T) (eqb : T -> T -> bool)
        (sort_Stable : forall St, Interface St -> St -> result St).
Hypothesis eqb_spec : forall x y, eqb x y = true <-> x = y.
Hypothesis stable_ok : stable_spec sort_Stable.
Context (less : T -> T -> bool).
Hypothesis W : StrictWeakOrder less.
Implicit Types (s : sorted T).

Theorem Get_exact s i :
  ((0 <= i < Len s)%Z -> exists x, nth_error (String s) (Z.to_nat i) = Some x /\ Get s i = Ok x) /\
  (~ (0 <= i < Len s)%Z -> Get s i = Panic IndexOutOfRange).
Proof.
  destruct (Get_spec s i) as [(Hi & E)|(Hi & x & Hx & E)]; split; intros H; try lia; eauto.
Qed.

Theorem RemoveAt_exact s i : reachable zero eqb sort_Stable less s ->
  ((0 <= i < Len s)%Z -> exists s', RemoveAt s i = Ok s' /\ s_less s' = s_less s /\
     String s' = firstn (Z.to_nat i) (String s) ++ skipn (S (Z.to_nat i)) (String s)) /\
  (~ (0 <= i < Len s)%Z -> RemoveAt s i = Panic IndexOutOfRange).
Proof.
  intros Hr. pose proof (reachable_inv zero eqb sort_Stable eqb_spec stable_ok less W s Hr) as Hinv.
  destruct (RemoveAt_spec less s i Hinv) as [(Hi & E)|(Hi & E)]; split; intros H; try lia; auto.
  eexists. split; [exact E|]. split; [cbn; symmetry; apply Hinv|reflexivity].
Qed.

(* which calls panic: exactly Get and RemoveAt outside [0, Len) *)
Theorem panics_exactly_out_of_range s o : reachable zero eqb sort_Stable less s ->
  (op_in_range s o -> exists p, step eqb s o = Ok p) /\
  (~ op_in_range s o -> step eqb s o = Panic IndexOutOfRange).
Proof.
  intros Hr. pose proof (reachable_inv zero eqb sort_Stable eqb_spec stable_ok less W s Hr) as Hinv.
  destruct o as [v|v|i|v|v|i| |]; cbn [op_in_range step]; split; intros H; try (exfalso; apply H; exact I).
  - destruct (Add_spec less W s v Hinv) as (r & -> & _). eexists; reflexivity.
  - destruct (Remove_spec eqb eqb_spec less W s v Hinv) as (r & _ & [(_ & _ & ->)|(_ & _ & ->)]); eexists; reflexivity.
  - destruct (RemoveAt_spec less s i Hinv) as [(Hi & E)|(Hi & ->)]; [lia|]. eexists; reflexivity.
  - destruct (RemoveAt_spec less s i Hinv) as [(Hi & ->)|(Hi & E)]; [reflexivity|lia].
  - destruct (Index_spec eqb less W s v Hinv) as (r & -> & _). eexists; reflexivity.
  - unfold Contains. destruct (Index_spec eqb less W s v Hinv) as (r & -> & _). eexists; reflexivity.
  - destruct (Get_spec s i) as [(Hi & E)|(Hi & x & _ & ->)]; [lia|]. eexists; reflexivity.
  - destruct (Get_spec s i) as [(Hi & ->)|(Hi & E)]; [reflexivity|lia].
  - eexists; reflexivity.
  - eexists; reflexivity.
Qed.
End Bounds.

(* ---- the orders of the correspondence harness satisfy the hypotheses ---- *)
Lemma Z_key_swo : StrictWeakOrder (fun a b => Z.ltb (a / 4) (b / 4)).
Proof.
  split.
  - intros a. apply Z.ltb_irrefl.
  - intros a b c H1 H2. apply Z.ltb_lt in H1, H2. apply Z.ltb_lt. lia.
  - intros a b c H. apply Z.ltb_lt in H. rewrite !Z.ltb_lt. lia.
Qed.
