(* Model of slices.Fill, Insert, InsertSlice, Remove, RemoveSlice, Repeat,
   Concat, Clone, Grow (/repo/slices/slices.go) and slices.Reverse
   (/repo/slices/sort.go), transcribed statement by statement.

   Backing-array model of slices: a Go slice is its backing array from the
   slice's first element to the end of its capacity ([arr], so cap = length
   arr) together with its length [len]; the visible elements are [firstn len
   arr], the spare capacity [skipn len arr] holds arbitrary garbage.
   Sub-slice expressions of one slice are [window]s (offset, length) into the
   same array, so overlapping [copy] is expressible. [append] writes in place
   iff the capacity suffices, else allocates; the capacity of the new array is
   chosen by a growth-policy parameter. Indices are Go ints ([Z]), every bounds
   check of Go is explicit.  Functions that assign to [*slice] before they can
   panic return the final [*slice] together with the outcome.
   Definitions only. *)
From Typ Require Export Lib.Base.

Record gslice (A : Type) := GS { arr : list A; len : nat }.
Arguments GS {A} arr len.
Arguments arr {A} g.
Arguments len {A} g.

(* s[lo:hi] of the slice under consideration: elements w_off .. w_off+w_len-1 of its array *)
Record window := Win { w_off : nat; w_len : nat }.

Section Splice.
Context {A : Type}.
Notation gslice := (gslice A).

Definition cap (s : gslice) : nat := length (arr s).
Definition visible (s : gslice) : list A := firstn (len s) (arr s).
Definition spare (s : gslice) : list A := skipn (len s) (arr s).
Definition wf (s : gslice) : Prop := len s <= cap s.

(* ---- Go primitives ---- *)

(* s[lo:]  (0 <= lo <= len(s)) *)
Definition slice_from (s : gslice) (lo : Z) : result window :=
  if ((0 <=? lo) && (lo <=? Z.of_nat (len s)))%Z
  then Ok (Win (Z.to_nat lo) (len s - Z.to_nat lo)) else Panic IndexOutOfRange.

(* s[:hi]  (0 <= hi <= cap(s): the upper bound is checked against the capacity) *)
Definition slice_to (s : gslice) (hi : Z) : result window :=
  if ((0 <=? hi) && (hi <=? Z.of_nat (cap s)))%Z
  then Ok (Win 0 (Z.to_nat hi)) else Panic IndexOutOfRange.

(* s itself as a copy operand *)
Definition whole (s : gslice) : window := Win 0 (len s).

(* s = s[:hi] *)
Definition reslice_to (s : gslice) (hi : Z) : result gslice :=
  do w <- slice_to s hi; Ok (GS (arr s) (w_len w)).

(* the array with xs written at offset off *)
Definition write_at (a : list A) (off : nat) (xs : list A) : list A :=
  firstn off a ++ xs ++ skipn (off + length xs) a.

(* copy(dst, src), both windows of the same array: memmove, i.e. the source
   elements are read before anything is written *)
Definition copy_within (a : list A) (dst src : window) : list A :=
  let n := Nat.min (w_len dst) (w_len src) in
  write_at a (w_off dst) (firstn n (skipn (w_off src) a)).

(* copy(dst, xs) where xs is (the visible part of) a different slice *)
Definition copy_from (a : list A) (dst : window) (xs : list A) : list A :=
  let n := Nat.min (w_len dst) (length xs) in
  write_at a (w_off dst) (firstn n xs).

Definition with_arr (s : gslice) (a : list A) : gslice := GS a (len s).

(* s[i] *)
Definition get_index (s : gslice) (i : Z) : result A :=
  if ((0 <=? i) && (i <? Z.of_nat (len s)))%Z then get_nth (Z.to_nat i) (arr s) else Panic IndexOutOfRange.

(* s[i] = v *)
Definition set_index (s : gslice) (i : Z) (v : A) : result gslice :=
  if ((0 <=? i) && (i <? Z.of_nat (len s)))%Z
  then Ok (with_arr s (write_at (arr s) (Z.to_nat i) [v])) else Panic IndexOutOfRange.

(* capacity of the array append allocates when it has to grow: whatever the
   growth policy says, but at least what is needed *)
Definition new_cap (growth : nat -> nat -> nat) (oldcap need : nat) : nat :=
  Nat.max need (growth oldcap need).

(* append(s, xs...): in place iff len+k <= cap, else a fresh zeroed array *)
Definition append (growth : nat -> nat -> nat) (zero : A) (s : gslice) (xs : list A) : gslice :=
  let need := len s + length xs in
  if need <=? cap s then GS (write_at (arr s) (len s) xs) need
  else GS (visible s ++ xs ++ repeat zero (new_cap growth (cap s) need - need)) need.

(* make([]E, n) *)
Definition make_slice (zero : A) (n : Z) : result gslice :=
  if (n <? 0)%Z then Panic OtherPanic (* makeslice: len out of range *)
  else Ok (GS (repeat zero (Z.to_nat n)) (Z.to_nat n)).

(* sequencing for functions that have already assigned to *slice: on a panic
   the current value of *slice is what the caller is left with *)
Definition stp {X} (s : gslice) (r : result X) (f : X -> gslice * result unit) : gslice * result unit :=
  match r with Ok x => f x | Panic k => (s, Panic k) end.

(* ---- slices.go ---- *)

(* for i := 1; i < len(slice); i += i { copy(slice[i:], slice[:i]) } *)
Fixpoint fill_loop (fuel : nat) (slice : gslice) (i : nat) : result gslice :=
  if i <? len slice then
    match fuel with
    | O => Panic OtherPanic (* out of fuel; excluded by the theorems *)
    | S f =>
        do dst <- slice_from slice (Z.of_nat i);
        do src <- slice_to slice (Z.of_nat i);
        fill_loop f (with_arr slice (copy_within (arr slice) dst src)) (i + i)
    end
  else Ok slice.

(* Fill works on the caller's array; the result is the caller's slice afterwards *)
Definition fill (slice : gslice) (value : A) : result gslice :=
  if len slice =? 0 then Ok slice else
  do slice <- set_index slice 0 value;
  fill_loop (len slice) slice 1.

Definition insert (growth : nat -> nat -> nat) (zero : A) (slice : gslice) (index : Z) (value : A)
  : gslice * result unit :=
  let slice := append growth zero slice [value] in                     (* *slice = append( *slice, value) *)
  stp slice (slice_from slice (index + 1)) (fun dst =>
  stp slice (slice_from slice index) (fun src =>
  let slice := with_arr slice (copy_within (arr slice) dst src) in     (* copy(( *slice)[index+1:], ( *slice)[index:]) *)
  stp slice (set_index slice index value) (fun slice =>                (* ( *slice)[index] = value *)
  (slice, Ok tt)))).

Definition insert_slice (growth : nat -> nat -> nat) (zero : A) (slice : gslice) (index : Z) (values : list A)
  : gslice * result unit :=
  let slice := append growth zero slice values in                      (* *slice = append( *slice, values...) *)
  stp slice (slice_from slice (index + Z.of_nat (length values))) (fun dst =>
  stp slice (slice_from slice index) (fun src =>
  let slice := with_arr slice (copy_within (arr slice) dst src) in     (* copy(( *slice)[index+len(values):], ( *slice)[index:]) *)
  stp slice (slice_from slice index) (fun dst =>
  let slice := with_arr slice (copy_from (arr slice) dst values) in    (* copy(( *slice)[index:], values) *)
  (slice, Ok tt)))).

Definition remove (slice : gslice) (index : Z) : gslice * result unit :=
  stp slice (slice_from slice index) (fun dst =>
  stp slice (slice_from slice (index + 1)) (fun src =>
  let slice := with_arr slice (copy_within (arr slice) dst src) in     (* copy(( *slice)[index:], ( *slice)[index+1:]) *)
  stp slice (reslice_to slice (Z.of_nat (len slice) - 1)) (fun slice => (* *slice = ( *slice)[:len( *slice)-1] *)
  (slice, Ok tt)))).

Definition remove_slice (slice : gslice) (index length : Z) : gslice * result unit :=
  stp slice (slice_from slice index) (fun dst =>
  stp slice (slice_from slice (index + length)) (fun src =>
  let slice := with_arr slice (copy_within (arr slice) dst src) in     (* copy(( *slice)[index:], ( *slice)[index+length:]) *)
  stp slice (reslice_to slice (Z.of_nat (len slice) - length)) (fun slice => (* *slice = ( *slice)[:len( *slice)-length] *)
  (slice, Ok tt)))).

Definition repeat_ (zero value : A) (count : Z) : result gslice :=
  do result <- make_slice zero count;
  fill result value.

(* a and b are read only; the result is a new array *)
Definition concat_ (zero : A) (a b : gslice) : result gslice :=
  do result <- make_slice zero (Z.of_nat (len a) + Z.of_nat (len b));
  do dst <- slice_to result (Z.of_nat (len a));
  let result := with_arr result (copy_from (arr result) dst (visible a)) in
  do dst <- slice_from result (Z.of_nat (len a));
  let result := with_arr result (copy_from (arr result) dst (visible b)) in
  Ok result.

Definition clone (zero : A) (slice : gslice) : result gslice :=
  do newSlice <- make_slice zero (Z.of_nat (len slice));
  Ok (with_arr newSlice (copy_from (arr newSlice) (whole newSlice) (visible slice))).

Definition grow (growth : nat -> nat -> nat) (zero : A) (slice : gslice) (n : Z) : result gslice :=
  do zeros <- make_slice zero n;
  Ok (append growth zero slice (visible zeros)).

(* ---- sort.go ---- *)

(* for i, j := 0, len(slice)-1; i < len(slice)/2; i, j = i+1, j-1 { slice[i], slice[j] = slice[j], slice[i] } *)
Fixpoint reverse_loop (fuel : nat) (slice : gslice) (i j : Z) : result gslice :=
  if (i <? Z.of_nat (len slice) / 2)%Z then
    match fuel with
    | O => Panic OtherPanic (* out of fuel; excluded by the theorems *)
    | S f =>
        do vj <- get_index slice j;
        do vi <- get_index slice i;
        do slice <- set_index slice i vj;
        do slice <- set_index slice j vi;
        reverse_loop f slice (i + 1) (j - 1)
    end
  else Ok slice.

Definition reverse (slice : gslice) : result gslice :=
  reverse_loop (len slice) slice 0 (Z.of_nat (len slice) - 1).

(* ---- reference definitions (the statement of C12) ---- *)

(* what lies behind the k appended elements after append: the untouched rest
   of the old spare capacity, or the zeroed rest of the new array *)
Definition append_tail (growth : nat -> nat -> nat) (zero : A) (s : gslice) (k : nat) : list A :=
  if len s + k <=? cap s then skipn (len s + k) (arr s)
  else repeat zero (new_cap growth (cap s) (len s + k) - (len s + k)).

(* l with xs spliced in at position i / with k elements spliced out at position i *)
Definition splice_in (l : list A) (i : nat) (xs : list A) : list A := firstn i l ++ xs ++ skipn i l.
Definition splice_out (l : list A) (i k : nat) : list A := firstn i l ++ skipn (i + k) l.

End Splice.
