(* Correspondence check for C15: the harness calls the functions of
   slices/sort.go and records what they did; [check_case] re-runs the model
   (sort.Sort and sort.Stable instantiated by the verified [insertion_sort],
   rand.Shuffle by a swap sequence recorded from a real rand.Shuffle) and compares. Elements are ints, or (key, tag) pairs.
   Definitions only. *)
From Typ Require Export Lib.Base Slices.SortSearch Slices.Sort.

Inductive sortfn := FSort | FSortDesc | FSortFunc | FSortDescFunc | FSortStableFunc | FSortStableDescFunc.

(* the harness's less functions on pairs: key only (ties), or lexicographic (a strict total order) *)
Inductive lessfn := LKey | LLex.

Definition less_of (l : lessfn) : Z * Z -> Z * Z -> bool :=
  match l with
  | LKey => fun a b => (fst a <? fst b)%Z
  | LLex => fun a b => (fst a <? fst b)%Z || ((fst a =? fst b)%Z && (snd a <? snd b)%Z)
  end.

Inductive case :=
(* Sort / SortDesc on []int (written as pairs (v, 0); [l] unused), the others on []struct{k, t int} with less [l] *)
| CSort (f : sortfn) (l : lessfn) (input obs : list (Z * Z))
(* BinarySearch(input, target) or, if [func], BinarySearchFunc(input, a < target) *)
| CSearch (func : bool) (input : list Z) (target obs : Z)
(* BinarySearchFunc on pairs with less(a) = a.k < target *)
| CSearchKey (input : list (Z * Z)) (target obs : Z)
(* Shuffle (global generator) or ShuffleRand. The property fixes only that the
   result is a permutation (and, for ShuffleRand, a function of the generator:
   checked by the harness on the implementation), not WHICH permutation, so
   [obs] is only required to be a permutation of [input]. [swaps] is a swap
   sequence recorded from a real rand.Shuffle of that length; the model is run
   on it (must return normally with a permutation) to exercise it, but its
   result is not compared with [obs]. *)
| CShuffle (global : bool) (input : list Z) (swaps : list (Z * Z)) (obs : list Z).

Definition pair_eqb : Z * Z -> Z * Z -> bool := prod_eqb Z.eqb Z.eqb.
Definition Zge (a b : Z) : bool := (a >=? b)%Z.

Definition run_sort (f : sortfn) (l : lessfn) (input : list (Z * Z)) : result (list (Z * Z)) :=
  let tag r := Ok (map (fun v => (v, 0%Z)) r) in
  match f with
  | FSort => do r <- Sort Z.ltb insertion_sort (map fst input); tag r
  | FSortDesc => do r <- SortDesc Z.ltb insertion_sort (map fst input); tag r
  | FSortFunc => SortFunc insertion_sort input (less_of l)
  | FSortDescFunc => SortDescFunc insertion_sort input (less_of l)
  | FSortStableFunc => SortStableFunc insertion_sort input (less_of l)
  | FSortStableDescFunc => SortStableDescFunc insertion_sort input (less_of l)
  end.

(* is the result fully determined (so that it is compared exactly)? Not for
   the unstable sorts under the key-only order: there the key sequence is
   compared and the observed result must be a permutation of the input. *)
Definition determined (f : sortfn) (l : lessfn) : bool :=
  match f, l with
  | (FSortFunc | FSortDescFunc), LKey => false
  | _, _ => true
  end.

Definition same_multiset (a b : list (Z * Z)) : bool :=
  list_eqb pair_eqb (isort (less_of LLex) a) (isort (less_of LLex) b).

Definition same_ints (a b : list Z) : bool := list_eqb Z.eqb (isort Z.ltb a) (isort Z.ltb b).

Definition check_case (c : case) : bool :=
  match c with
  | CSort f l input obs =>
      match run_sort f l input with
      | Ok r => if determined f l then list_eqb pair_eqb r obs
                else list_eqb Z.eqb (map fst r) (map fst obs) && same_multiset obs input
      | Panic _ => false
      end
  | CSearch func input target obs =>
      result_eqb Z.eqb
        (if func then BinarySearchFunc input (fun a => (a <? target)%Z) else BinarySearch Zge input target)
        (Ok obs)
  | CSearchKey input target obs =>
      result_eqb Z.eqb (BinarySearchFunc input (fun a => (fst a <? target)%Z)) (Ok obs)
  | CShuffle global input swaps obs =>
      same_ints obs input &&
      match (if global then Shuffle list_shuffle_swaps swaps input else ShuffleRand list_shuffle_swaps input swaps) with
      | Ok r => same_ints r input
      | Panic _ => false
      end
  end.
