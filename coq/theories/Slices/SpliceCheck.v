(* Correspondence check for C12: the harness writes the calls it made on the
   real slices package (backing array up to the capacity, length, arguments)
   together with what it observed afterwards (backing array up to the
   capacity and length of the resulting slice, panic or not); [check_case]
   re-runs the model on the same input and compares what the property fixes
   (see the comment above [check_case]). The growth policy of append is
   instantiated with the capacity the harness observed; since capacities and
   what lies behind the length are not compared, it has no effect on the verdict.
   Inputs outside the property (negative removal length, negative Repeat /
   Grow count) are evaluated but not judged.
   Definitions only. *)
From Typ Require Export Lib.Base Slices.Splice.

Inductive fn := FInsert | FInsertSlice | FRemove | FRemoveSlice | FFill | FRepeat | FReverse
              | FConcat | FClone | FGrow.

Record case := Case {
  c_fn : fn;
  c_arr : list Z;        (* s[:cap(s)] before the call *)
  c_len : Z;             (* len(s) *)
  c_index : Z;           (* Insert, InsertSlice, Remove, RemoveSlice *)
  c_k : Z;               (* RemoveSlice length, Grow n, Repeat count *)
  c_vals : list Z;       (* Insert/Fill/Repeat: [value]; InsertSlice: values; Concat: b[:cap(b)] *)
  c_len2 : Z;            (* Concat: len(b) *)
  c_obs_arr : list Z;    (* r[:cap(r)] of the resulting slice ([] after a panic of a function that returns its result) *)
  c_obs_len : Z;         (* len(r) *)
  c_obs : result unit    (* returned or panicked *)
}.

Definition of_result (r : result (gslice Z)) : gslice Z * result unit :=
  match r with Ok s => (s, Ok tt) | Panic k => (GS [] 0, Panic k) end.

Definition run_case (c : case) : gslice Z * result unit :=
  let s := GS (c_arr c) (Z.to_nat (c_len c)) in
  let growth := fun (_ _ : nat) => length (c_obs_arr c) in
  let v := hd 0%Z (c_vals c) in
  match c_fn c with
  | FInsert => insert growth 0%Z s (c_index c) v
  | FInsertSlice => insert_slice growth 0%Z s (c_index c) (c_vals c)
  | FRemove => remove s (c_index c)
  | FRemoveSlice => remove_slice s (c_index c) (c_k c)
  | FFill => of_result (fill s v)
  | FRepeat => of_result (repeat_ 0%Z v (c_k c))
  | FReverse => of_result (reverse s)
  | FConcat => of_result (concat_ 0%Z s (GS (c_vals c) (Z.to_nat (c_len2 c))))
  | FClone => of_result (clone 0%Z s)
  | FGrow => of_result (grow growth 0%Z s (c_k c))
  end.

(* What is compared (audit round): only what the property fixes.
   - outcome: returned / panicked (not the panic kind, which the harness derives from message text);
   - Fill, Reverse (in place on the caller's array): the whole array up to the capacity and the length;
   - Remove, RemoveSlice: length and visible part, also after a panic (unchanged slice); the stale cells
     behind the new length are not compared;
   - Insert, InsertSlice, Grow, Repeat, Concat, Clone: length and visible part of the result (not its
     capacity, not whether append worked in place, not what lies behind the length); after a panic of
     Insert / InsertSlice nothing but the panic (the property does not fix the slice's state then). *)
Definition is_panic {X} (r : result X) : bool := match r with Panic _ => true | Ok _ => false end.

Definition whole_array (f : fn) : bool := match f with FFill | FReverse => true | _ => false end.
Definition state_after_panic (f : fn) : bool := match f with FRemove | FRemoveSlice => true | _ => false end.

(* outside the property: RemoveSlice with a negative length, Repeat / Grow with a negative count *)
Definition outside_property (c : case) : bool :=
  match c_fn c with FRemoveSlice | FRepeat | FGrow => (c_k c <? 0)%Z | _ => false end.

Definition check_case_strict (c : case) : bool :=
  let '(s, r) := run_case c in
  Bool.eqb (is_panic r) (is_panic (c_obs c)) &&
  (if is_panic r && negb (state_after_panic (c_fn c)) then true
   else if whole_array (c_fn c)
   then list_eqb Z.eqb (arr s) (c_obs_arr c) && (Z.of_nat (len s) =? c_obs_len c)%Z
   else (Z.of_nat (len s) =? c_obs_len c)%Z &&
        list_eqb Z.eqb (visible s) (firstn (Z.to_nat (c_obs_len c)) (c_obs_arr c))).

(* cases outside the property are evaluated on the model (they stay in the stream) but never fail
   the check; the harness records as a stat whether the code still behaves as transcribed there *)
Definition check_case (c : case) : bool :=
  let verdict := check_case_strict c in
  if outside_property c then true else verdict.
