(* Correspondence check for C12: the harness writes the calls it made on the
   real slices package (backing array up to the capacity, length, arguments)
   together with what it observed afterwards (backing array up to the
   capacity and length of the resulting slice, panic or not); [check_case]
   re-runs the model on the same input and compares. The growth policy of
   append is instantiated with the capacity the harness observed.
   Definitions only. *)
From Typ Require Export Lib.Base Slices.Splice.

Inductive fn := FInsert | FInsertSlice | FRemove | FRemoveSlice | FFill | FRepeat | FReverse
              | FConcat | FClone | FGrow.

Record case := Case {
  c_fn : fn;
  c_arr : list Z;        (* s[:cap(s)] before the call *)
  c_len : Z;             (* len(s) *)
  c_index : Z;           (* Insert, InsertSlice, Remove, RemoveSlice *)
  c_k : Z;               (* RemoveSlice length, Grow n, Repeat count *)
  c_vals : list Z;       (* Insert/Fill/Repeat: [value]; InsertSlice: values; Concat: b[:cap(b)] *)
  c_len2 : Z;            (* Concat: len(b) *)
  c_obs_arr : list Z;    (* r[:cap(r)] of the resulting slice ([] after a panic of a function that returns its result) *)
  c_obs_len : Z;         (* len(r) *)
  c_obs : result unit    (* returned or panicked *)
}.

Definition of_result (r : result (gslice Z)) : gslice Z * result unit :=
  match r with Ok s => (s, Ok tt) | Panic k => (GS [] 0, Panic k) end.

Definition run_case (c : case) : gslice Z * result unit :=
  let s := GS (c_arr c) (Z.to_nat (c_len c)) in
  let growth := fun (_ _ : nat) => length (c_obs_arr c) in
  let v := hd 0%Z (c_vals c) in
  match c_fn c with
  | FInsert => insert growth 0%Z s (c_index c) v
  | FInsertSlice => insert_slice growth 0%Z s (c_index c) (c_vals c)
  | FRemove => remove s (c_index c)
  | FRemoveSlice => remove_slice s (c_index c) (c_k c)
  | FFill => of_result (fill s v)
  | FRepeat => of_result (repeat_ 0%Z v (c_k c))
  | FReverse => of_result (reverse s)
  | FConcat => of_result (concat_ 0%Z s (GS (c_vals c) (Z.to_nat (c_len2 c))))
  | FClone => of_result (clone 0%Z s)
  | FGrow => of_result (grow growth 0%Z s (c_k c))
  end.

Definition unit_eqb (_ _ : unit) : bool := true.

Definition check_case (c : case) : bool :=
  let '(s, r) := run_case c in
  list_eqb Z.eqb (arr s) (c_obs_arr c) && (Z.of_nat (len s) =? c_obs_len c)%Z &&
  result_eqb unit_eqb r (c_obs c).
