(* Correspondence check for C13: the harness writes the calls it made on the
   real slices package together with what they returned; [check_case] re-runs
   the model on the same input and compares. Definitions only. *)
From Typ Require Export Lib.Base Slices.Partition.

Inductive fn := FChunk | FChunkFunc | FWindowed | FWindowedFunc | FPairs | FPairsFunc.

Record case := Case {
  c_fn : fn;
  c_input : list Z;
  c_size : Z;                          (* >= 1 (else the check fails); ignored for Pairs/PairsFunc *)
  c_obs : result (list (list Z))       (* pairs are written as two-element lists *)
}.

Definition unpair (r : result (list (Z * Z))) : result (list (list Z)) :=
  do ps <- r; Ok (map (fun p => [fst p; snd p]) ps).

(* The size is clamped to n + 1 ([clamp_size], Partition.v): the model gives the same result for every
   size > n (C13_clamp_size), and a size such as 2^63-1 must not be turned into a unary [nat]. *)
(* Only meaningful for c_size >= 1; [check_case] rejects other cases before looking at this result. *)
Definition run_case (c : case) : result (list (list Z)) :=
  let size := clamp_size (c_input c) (c_size c) in
  match c_fn c with
  | FChunk => chunk (c_input c) size
  | FChunkFunc => chunkfunc (c_input c) size
  | FWindowed => windowed (c_input c) size
  | FWindowedFunc => windowedfunc (c_input c) size
  | FPairs => unpair (pairs (c_input c) 0%Z)
  | FPairsFunc => unpair (pairsfunc (c_input c))
  end.

(* Sizes below 1 are outside the property (every theorem carries 1 <= size): such a case is never
   compared with the model. The harness sends them to its Go oracle only; should one ever be emitted,
   the check fails closed (for c_size < 0, [Z.to_nat] would also turn the size into 0). The size-0
   branches of the model are a transcription that no theorem and no comparison uses. *)
Definition check_case (c : case) : bool :=
  let sized := match c_fn c with FPairs | FPairsFunc => false | _ => true end in
  if sized && (c_size c <? 1)%Z then false   (* Pairs/PairsFunc take no size: c_size is irrelevant for them *)
  else result_eqb (list_eqb (list_eqb Z.eqb)) (run_case c) (c_obs c).
