(* Correspondence check for C13: the harness writes the calls it made on the
   real slices package together with what they returned; [check_case] re-runs
   the model on the same input and compares. Definitions only. *)
From Typ Require Export Lib.Base Slices.Partition.

Inductive fn := FChunk | FChunkFunc | FWindowed | FWindowedFunc | FPairs | FPairsFunc.

Record case := Case {
  c_fn : fn;
  c_input : list Z;
  c_size : Z;                          (* >= 0; ignored by Pairs *)
  c_obs : result (list (list Z))       (* pairs are written as two-element lists *)
}.

Definition unpair (r : result (list (Z * Z))) : result (list (list Z)) :=
  do ps <- r; Ok (map (fun p => [fst p; snd p]) ps).

Definition run_case (c : case) : result (list (list Z)) :=
  let size := Z.to_nat (c_size c) in
  match c_fn c with
  | FChunk => chunk (c_input c) size
  | FChunkFunc => chunkfunc (c_input c) size
  | FWindowed => windowed (c_input c) size
  | FWindowedFunc => windowedfunc (c_input c) size
  | FPairs => unpair (pairs (c_input c) 0%Z)
  | FPairsFunc => unpair (pairsfunc (c_input c))
  end.

Definition check_case (c : case) : bool :=
  result_eqb (list_eqb (list_eqb Z.eqb)) (run_case c) (c_obs c).
