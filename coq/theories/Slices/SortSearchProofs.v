(* Proofs about SortSearch.v: the sort.Search loop computes the lower bound of
   a monotone predicate within its fuel; the Interface insertion sort meets
   the contracts assumed of sort.Sort and sort.Stable; [isort] is a stable
   sorted permutation and the only one. *)
From Typ Require Import Lib.Base Slices.SortSearch.

Local Open Scope Z_scope.

(* ---- sort.Search ---- *)
Section Search.
Variable f : Z -> result bool.
Variable g : Z -> bool.
Variable n : Z.
Hypothesis f_total : forall h, 0 <= h < n -> f h = Ok (g h).
Hypothesis g_mono : forall a b, 0 <= a <= b -> b < n -> g a = true -> g b = true.

Lemma sort_search_loop_spec : forall fuel i j,
  0 <= i <= j -> j <= n -> (Z.to_nat (j - i) <= fuel)%nat ->
  (forall k, 0 <= k < i -> g k = false) -> (forall k, j <= k < n -> g k = true) ->
  exists r, sort_search_loop fuel f i j = Ok r /\ i <= r <= j /\
    (forall k, 0 <= k < r -> g k = false) /\ (forall k, r <= k < n -> g k = true).
Proof.
  induction fuel as [|fuel IH]; intros i j Hij Hjn Hfuel Hlo Hhi.
  - assert (i = j) by lia. subst j. cbn [sort_search_loop]. rewrite Z.ltb_irrefl.
    exists i. repeat split; auto; lia.
  - cbn [sort_search_loop]. destruct (Z.ltb_spec i j) as [Hlt|Hge].
    + set (h := (i + j) / 2).
      assert (Hh : i <= h < j) by (unfold h; split; [apply Z.div_le_lower_bound | apply Z.div_lt_upper_bound]; lia).
      rewrite f_total by lia. cbn [bind]. destruct (g h) eqn:Egh; cbn [negb].
      * destruct (IH i h) as (r & Er & Hr & H1 & H2); try lia; auto.
        { intros k Hk. apply (g_mono h k); try lia. exact Egh. }
        exists r. repeat split; auto; lia.
      * destruct (IH (h + 1) j) as (r & Er & Hr & H1 & H2); try lia; auto.
        { intros k Hk. destruct (g k) eqn:Egk; [|reflexivity].
          destruct (Z.eq_dec k h) as [->|Hne]; [congruence|].
          destruct (Z_lt_le_dec k i) as [Hki|Hki]; [rewrite Hlo in Egk by lia; discriminate|].
          assert (g h = true) by (apply (g_mono k h); [lia|lia|exact Egk]). congruence. }
        exists r. repeat split; auto; lia.
    + assert (i = j) by lia. subst j. exists i. repeat split; auto; lia.
Qed.

(* sort.Search(n, f) returns normally, with the least index in [0,n] from
   which the predicate holds (n if it holds nowhere) *)
Lemma sort_search_lower_bound : 0 <= n ->
  exists r, sort_search n f = Ok r /\ 0 <= r <= n /\
    (forall k, 0 <= k < r -> g k = false) /\ (forall k, r <= k < n -> g k = true).
Proof.
  intros Hn. unfold sort_search.
  destruct (sort_search_loop_spec (Z.to_nat n) 0 n) as (r & Er & Hr & H1 & H2); try lia.
  exists r. auto.
Qed.
End Search.

(* sort.Search only applies its argument: pointwise equal closures give equal results *)
Lemma sort_search_ext (f f' : Z -> result bool) n : (forall i, f i = f' i) -> sort_search n f = sort_search n f'.
Proof.
  intros E. unfold sort_search. generalize (Z.to_nat n). intros fuel. generalize 0 n.
  induction fuel as [|fuel IH]; intros i j; cbn [sort_search_loop]; [reflexivity|].
  destruct (i <? j); [|reflexivity]. rewrite E. destruct (f' ((i + j) / 2)) as [b|k]; cbn [bind]; [|reflexivity].
  destruct (negb b); apply IH.
Qed.

Local Close Scope Z_scope.

(* ---- orders ---- *)
Section Orders.
Context {A : Type} (less : A -> A -> bool).

Lemma swo_asym : StrictWeakOrder less -> forall a b, less a b = true -> less b a = false.
Proof.
  intros W a b Hab. destruct (less b a) eqn:Hba; [|reflexivity].
  rewrite <- (swo_irrefl less W a). symmetry. exact (swo_trans less W a b a Hab Hba).
Qed.

Lemma sto_swo : StrictTotalOrder less -> StrictWeakOrder less.
Proof.
  intros [Hi Ht Htot]. split; auto.
  intros a b c Hac. destruct (less a b) eqn:Hab; [left; reflexivity|right].
  destruct (less b a) eqn:Hba.
  - exact (Ht b a c Hba Hac).
  - rewrite <- (Htot a b Hab Hba). exact Hac.
Qed.

Lemma swo_flip : StrictWeakOrder less -> StrictWeakOrder (flip_less less).
Proof.
  intros [Hi Ht Hn]. unfold flip_less. split; auto.
  - intros a b c Hab Hbc. exact (Ht c b a Hbc Hab).
  - intros a b c Hac. destruct (Hn c b a Hac); auto.
Qed.

Lemma sto_flip : StrictTotalOrder less -> StrictTotalOrder (flip_less less).
Proof.
  intros [Hi Ht Htot]. unfold flip_less. split; auto.
  intros a b c Hab Hbc. exact (Ht c b a Hbc Hab).
Qed.

Lemma le_of_trans : StrictWeakOrder less -> forall a b c, le_of less a b -> le_of less b c -> le_of less a c.
Proof.
  unfold le_of. intros W a b c Hab Hbc. destruct (less c a) eqn:Hca; [|reflexivity].
  destruct (swo_negtrans less W c b a Hca); congruence.
Qed.

Lemma le_of_refl : StrictWeakOrder less -> forall a, le_of less a a.
Proof. intros W a. exact (swo_irrefl less W a). Qed.

Lemma eqv_refl : StrictWeakOrder less -> forall a, eqv less a a = true.
Proof. intros W a. unfold eqv. rewrite (swo_irrefl less W). reflexivity. Qed.

(* two elements equivalent to a third are not strictly ordered *)
Lemma eqv_not_less : StrictWeakOrder less -> forall a x y,
  eqv less a x = true -> eqv less a y = true -> less y x = false.
Proof.
  unfold eqv. intros W a x y Hx Hy.
  apply andb_true_iff in Hx as [Hx1 Hx2]. apply andb_true_iff in Hy as [Hy1 Hy2].
  apply negb_true_iff in Hx1, Hx2, Hy1, Hy2.
  destruct (less y x) eqn:Hyx; [|reflexivity].
  destruct (swo_negtrans less W y a x Hyx); congruence.
Qed.

(* the usual formulation: a strict partial order whose incomparability is transitive *)
Lemma swo_iff_incomparability_transitive :
  StrictWeakOrder less <->
  ((forall a, less a a = false) /\
   (forall a b c, less a b = true -> less b c = true -> less a c = true) /\
   (forall a b c, eqv less a b = true -> eqv less b c = true -> eqv less a c = true)).
Proof.
  split.
  - intros W. destruct W as [Hi Ht Hn]. repeat split; auto.
    unfold eqv. intros a b c Hab Hbc.
    apply andb_true_iff in Hab as [H1 H2]. apply andb_true_iff in Hbc as [H3 H4].
    apply negb_true_iff in H1, H2, H3, H4. apply andb_true_iff. split; apply negb_true_iff.
    + destruct (less a c) eqn:E; [|reflexivity]. destruct (Hn a b c E); congruence.
    + destruct (less c a) eqn:E; [|reflexivity]. destruct (Hn c b a E); congruence.
  - intros (Hi & Ht & He). split; auto. intros a b c Hac.
    destruct (less a b) eqn:Hab; [left; reflexivity|]. destruct (less b c) eqn:Hbc; [right; reflexivity|].
    exfalso.
    destruct (less b a) eqn:Hba; [rewrite (Ht b a c Hba Hac) in Hbc; discriminate|].
    destruct (less c b) eqn:Hcb; [rewrite (Ht a c b Hac Hcb) in Hab; discriminate|].
    assert (E : eqv less a c = true) by (apply (He a b c); unfold eqv; rewrite ?Hab, ?Hba, ?Hbc, ?Hcb; reflexivity).
    unfold eqv in E. rewrite Hac in E. discriminate.
Qed.
End Orders.

(* ---- slice primitives ---- *)
Section Prims.
Context {A : Type}.
Implicit Types l p : list A.

Lemma getZ_ok l i a : nth_error l i = Some a -> getZ l (Z.of_nat i) = Ok a.
Proof.
  intros H. unfold getZ. destruct (Z.ltb_spec (Z.of_nat i) 0); [lia|].
  rewrite Nat2Z.id. unfold get_nth. rewrite H. reflexivity.
Qed.

Lemma getZ_inv l i a : getZ l i = Ok a -> (0 <= i)%Z /\ nth_error l (Z.to_nat i) = Some a.
Proof.
  unfold getZ. destruct (Z.ltb_spec i 0); [discriminate|]. unfold get_nth.
  destruct (nth_error l (Z.to_nat i)) eqn:E; [|discriminate]. intros [= ->]. split; [lia|reflexivity].
Qed.

Lemma getZ_panic l i : (i < 0 \/ Z.of_nat (length l) <= i)%Z -> getZ l i = Panic IndexOutOfRange.
Proof.
  intros H. unfold getZ. destruct (Z.ltb_spec i 0); [reflexivity|]. unfold get_nth.
  destruct (nth_error l (Z.to_nat i)) eqn:E; [|reflexivity].
  assert (Z.to_nat i < length l) by (apply nth_error_Some; congruence). lia.
Qed.

Lemma setZ_ok l i x : i < length l -> setZ l (Z.of_nat i) x = Ok (upd l i x).
Proof.
  intros H. unfold setZ. destruct (Z.ltb_spec (Z.of_nat i) 0); [lia|]. rewrite Nat2Z.id.
  destruct (set_nth_ok i x l H) as [l' E]. rewrite E. f_equal. exact (set_nth_spec _ _ _ _ E).
Qed.

Lemma upd_length l i x : i < length l -> length (upd l i x) = length l.
Proof.
  intros H. unfold upd. rewrite app_length, firstn_length. cbn [length]. rewrite skipn_length. lia.
Qed.

Lemma upd_app p a l x : upd (p ++ a :: l) (length p) x = p ++ x :: l.
Proof.
  induction p as [|b p IH]; [reflexivity|].
  unfold upd in *. cbn [length app firstn skipn]. cbn [skipn] in IH. rewrite IH. reflexivity.
Qed.

Lemma swapZ_ok l i j a b : nth_error l i = Some a -> nth_error l j = Some b ->
  swapZ l (Z.of_nat i) (Z.of_nat j) = Ok (upd (upd l i b) j a).
Proof.
  intros Hi Hj. unfold swapZ. rewrite (getZ_ok _ _ _ Hj), (getZ_ok _ _ _ Hi). cbn [bind].
  assert (i < length l) by (apply nth_error_Some; congruence).
  assert (j < length l) by (apply nth_error_Some; congruence).
  rewrite setZ_ok by assumption. cbn [bind]. apply setZ_ok. rewrite upd_length; assumption.
Qed.

(* adjacent swap in the form the insertion sort needs *)
Lemma upd_swap_adjacent p x y l :
  upd (upd (p ++ x :: y :: l) (length p) y) (S (length p)) x = p ++ y :: x :: l.
Proof.
  rewrite upd_app.
  replace (p ++ y :: y :: l) with ((p ++ [y]) ++ y :: l) by (rewrite <- app_assoc; reflexivity).
  replace (S (length p)) with (length (p ++ [y])) by (rewrite app_length; cbn; lia).
  rewrite upd_app, <- app_assoc. reflexivity.
Qed.

Lemma nth_error_app_mid p x l : nth_error (p ++ x :: l) (length p) = Some x.
Proof. rewrite nth_error_app2, Nat.sub_diag by lia. reflexivity. Qed.

Lemma nth_error_app_mid_S p x y l : nth_error (p ++ x :: y :: l) (S (length p)) = Some y.
Proof.
  rewrite nth_error_app2 by lia. replace (S (length p) - length p) with 1 by lia. reflexivity.
Qed.

(* a slice with its own swap and a less(i,j) closure that compares elements presents itself *)
Lemma slice_interface_represents (less : A -> A -> bool) :
  represents (slice_interface (fun cur i j => do a <- getZ cur i; do b <- getZ cur j; Ok (less a b)))
             (fun l => l) less.
Proof.
  split.
  - reflexivity.
  - intros s i j a b Hi Hj. cbn. rewrite (getZ_ok _ _ _ Hi), (getZ_ok _ _ _ Hj). reflexivity.
  - intros s i j a b Hi Hj. cbn. eexists. split; [apply swapZ_ok; eassumption|reflexivity].
Qed.
End Prims.

(* ---- the reference stable sort ---- *)
Section Isort.
Context {A : Type} (less : A -> A -> bool).
Hypothesis W : StrictWeakOrder less.
Implicit Types l : list A.

Lemma insert_length x l : length (insert less x l) = S (length l).
Proof. induction l as [|y l IH]; cbn; [reflexivity|]. destruct (less y x); cbn; congruence. Qed.

Lemma insert_perm x l : Permutation (insert less x l) (x :: l).
Proof.
  induction l as [|y l IH]; cbn; [reflexivity|]. destruct (less y x); [|reflexivity].
  rewrite IH. apply perm_swap.
Qed.

Lemma insert_hdrel a x l : le_of less a x -> HdRel (le_of less) a l -> HdRel (le_of less) a (insert less x l).
Proof.
  intros Hax Hl. destruct l as [|y l]; cbn; [constructor; exact Hax|].
  destruct (less y x); constructor; [|exact Hax]. inversion Hl; assumption.
Qed.

Lemma insert_sorted x l : Sorted (le_of less) l -> Sorted (le_of less) (insert less x l).
Proof.
  induction 1 as [|y l Hs IH Hd]; cbn; [repeat constructor|].
  destruct (less y x) eqn:Hyx.
  - constructor; [exact IH|]. apply insert_hdrel; [|exact Hd]. exact (swo_asym less W y x Hyx).
  - constructor; [constructor; assumption|]. constructor. exact Hyx.
Qed.

Lemma insert_stable a x l : filter (eqv less a) (insert less x l) = filter (eqv less a) (x :: l).
Proof.
  induction l as [|y l IH]; [reflexivity|]. cbn [insert]. destruct (less y x) eqn:Hyx; [|reflexivity].
  cbn [filter] in *. rewrite IH.
  destruct (eqv less a y) eqn:Ey; [|reflexivity]. destruct (eqv less a x) eqn:Ex; [|reflexivity].
  rewrite (eqv_not_less less W a x y Ex Ey) in Hyx. discriminate.
Qed.

Lemma isort_perm l : Permutation l (isort less l).
Proof.
  induction l as [|x l IH]; [reflexivity|]. cbn. rewrite insert_perm. constructor. exact IH.
Qed.

Lemma isort_sorted l : Sorted (le_of less) (isort less l).
Proof. induction l as [|x l IH]; cbn; [constructor|]. apply insert_sorted. exact IH. Qed.

Lemma isort_stable a l : filter (eqv less a) (isort less l) = filter (eqv less a) l.
Proof.
  induction l as [|x l IH]; [reflexivity|]. cbn [isort fold_right]. rewrite insert_stable.
  cbn [filter]. unfold isort in IH. rewrite IH. reflexivity.
Qed.

Lemma isort_length l : length (isort less l) = length l.
Proof. symmetry. apply Permutation_length, isort_perm. Qed.

Lemma le_of_transitive : Relations_1.Transitive (le_of less).
Proof. intros a b c. apply le_of_trans. exact W. Qed.

Lemma sorted_strongly l : Sorted (le_of less) l -> StronglySorted (le_of less) l.
Proof. apply Sorted_StronglySorted. exact le_of_transitive. Qed.

Lemma sorted_iff_strongly l : Sorted (le_of less) l <-> StronglySorted (le_of less) l.
Proof. split; [apply sorted_strongly|apply StronglySorted_Sorted]. Qed.

(* a sorted permutation that keeps every class of equivalent elements in its
   original order is unique *)
Lemma stable_sort_unique : forall l1 l2,
  Sorted (le_of less) l1 -> Sorted (le_of less) l2 -> Permutation l1 l2 ->
  (forall a, filter (eqv less a) l1 = filter (eqv less a) l2) -> l1 = l2.
Proof.
  induction l1 as [|x t1 IH]; intros l2 S1 S2 P F.
  - apply Permutation_nil in P. congruence.
  - destruct l2 as [|y t2]; [apply Permutation_sym, Permutation_nil in P; discriminate|].
    assert (Hxy : le_of less x y).
    { assert (Hin : In y (x :: t1)) by (apply (Permutation_in y (Permutation_sym P)); left; reflexivity).
      destruct Hin as [->|Hin]; [apply le_of_refl; exact W|].
      apply sorted_strongly in S1. inversion S1 as [|? ? ? Hall]; subst.
      rewrite Forall_forall in Hall. apply Hall. exact Hin. }
    assert (Hyx : le_of less y x).
    { assert (Hin : In x (y :: t2)) by (apply (Permutation_in x P); left; reflexivity).
      destruct Hin as [->|Hin]; [apply le_of_refl; exact W|].
      apply sorted_strongly in S2. inversion S2 as [|? ? ? Hall]; subst.
      rewrite Forall_forall in Hall. apply Hall. exact Hin. }
    unfold le_of in Hxy, Hyx.
    assert (x = y).
    { specialize (F x). cbn [filter] in F. rewrite (eqv_refl less W) in F.
      unfold eqv at 2 in F. rewrite Hxy, Hyx in F. cbn in F. congruence. }
    subst y. f_equal. apply IH.
    + inversion S1; assumption.
    + inversion S2; assumption.
    + exact (Permutation_cons_inv P).
    + intros a. specialize (F a). cbn [filter] in F. destruct (eqv less a x); congruence.
Qed.
End Isort.

(* ---- the Interface insertion sort meets both contracts ---- *)
Section InsertionSort.
Context {St E : Type} (I : Interface St) (view : St -> list E) (lessE : E -> E -> bool).
Hypothesis R : represents I view lessE.

Lemma ins_inner_spec : forall l p x s, view s = p ++ x :: l ->
  exists s', ins_inner I (length l) (length p) s = Ok s' /\ view s' = p ++ insert lessE x l.
Proof.
  induction l as [|y l IH]; intros p x s Hv.
  - exists s. split; [reflexivity|exact Hv].
  - cbn [length ins_inner insert].
    rewrite (rep_less I view lessE R s (S (length p)) (length p) y x)
      by (rewrite Hv; first [apply nth_error_app_mid_S | apply nth_error_app_mid]).
    cbn [bind]. destruct (lessE y x).
    + destruct (rep_swap I view lessE R s (length p) (S (length p)) x y) as (s1 & Es & Hv1);
        [rewrite Hv; apply nth_error_app_mid | rewrite Hv; apply nth_error_app_mid_S|].
      rewrite Es. cbn [bind]. rewrite Hv, upd_swap_adjacent in Hv1.
      destruct (IH (p ++ [y]) x s1) as (s' & Es' & Hv'); [rewrite Hv1, <- app_assoc; reflexivity|].
      rewrite app_length in Es'. cbn [length] in Es'. rewrite Nat.add_1_r in Es'.
      exists s'. split; [exact Es'|]. rewrite Hv', <- app_assoc. reflexivity.
    + exists s. split; [reflexivity|exact Hv].
Qed.

Lemma ins_outer_spec n : forall k p l s, length p = k -> view s = p ++ l -> n = length p + length l ->
  exists s', ins_outer I n k s = Ok s' /\ view s' = fold_right (insert lessE) l p.
Proof.
  induction k as [|i IH]; intros p l s Hp Hv Hn.
  - destruct p; [|discriminate]. exists s. split; [reflexivity|exact Hv].
  - destruct (exists_last (l := p)) as (p' & x & ->); [intros ->; discriminate|].
    rewrite app_length in Hp, Hn. cbn [length] in Hp, Hn.
    cbn [ins_outer]. replace (n - 1 - i) with (length l) by lia. replace i with (length p') by lia.
    destruct (ins_inner_spec l p' x s) as (s1 & Es1 & Hv1); [rewrite Hv, <- app_assoc; reflexivity|].
    rewrite Es1. cbn [bind].
    destruct (IH p' (insert lessE x l) s1) as (s' & Es' & Hv'); [lia|exact Hv1|rewrite insert_length; lia|].
    replace (length p') with i by lia. exists s'. split; [exact Es'|]. rewrite Hv', fold_right_app. reflexivity.
Qed.

Lemma insertion_sort_isort s :
  exists s', insertion_sort St I s = Ok s' /\ view s' = isort lessE (view s).
Proof.
  unfold insertion_sort, insertion_sort_on. rewrite (rep_len I view lessE R), Nat2Z.id.
  apply (ins_outer_spec (length (view s)) (length (view s)) (view s) [] s); [reflexivity| |cbn; lia].
  rewrite app_nil_r. reflexivity.
Qed.
End InsertionSort.

Lemma insertion_sort_stable_spec : stable_spec insertion_sort.
Proof.
  intros St E I view lessE R W s. destruct (insertion_sort_isort I view lessE R s) as (s' & Es & Hv).
  exists s'. rewrite Hv. repeat split; auto using isort_perm, isort_sorted.
  intros a. apply isort_stable. exact W.
Qed.

Lemma stable_spec_sort_spec sortf : stable_spec sortf -> sort_spec sortf.
Proof.
  intros H St E I view lessE R W s. destruct (H St E I view lessE R W s) as (s' & Es & P & So & _).
  exists s'. auto.
Qed.

Lemma insertion_sort_sort_spec : sort_spec insertion_sort.
Proof. apply stable_spec_sort_spec, insertion_sort_stable_spec. Qed.

(* any implementation of the sort.Stable contract computes [isort] *)
Lemma stable_spec_isort sortf : stable_spec sortf ->
  forall St E (I : Interface St) (view : St -> list E) lessE, represents I view lessE -> StrictWeakOrder lessE ->
  forall s, exists s', sortf St I s = Ok s' /\ view s' = isort lessE (view s).
Proof.
  intros H St E I view lessE R W s. destruct (H St E I view lessE R W s) as (s' & Es & P & So & F).
  exists s'. split; [exact Es|]. apply (stable_sort_unique lessE W); auto using isort_sorted.
  - rewrite <- P. apply isort_perm.
  - intros a. rewrite F, isort_stable; auto.
Qed.

(* ---- lower bounds on sorted lists (sort.Search over a slice) ---- *)
Lemma StronglySorted_nth {A} (R : A -> A -> Prop) (l : list A) : StronglySorted R l ->
  forall i j x y, i < j -> nth_error l i = Some x -> nth_error l j = Some y -> R x y.
Proof.
  induction 1 as [|x0 t Hs IH Hall]; intros i j x y Hij Hi Hj.
  - destruct i; discriminate.
  - destruct j as [|j]; [lia|]. destruct i as [|i].
    + cbn in Hi, Hj. injection Hi as <-. rewrite Forall_forall in Hall. apply Hall.
      eapply nth_error_In; eassumption.
    + cbn in Hi, Hj. apply (IH i j); auto; lia.
Qed.

(* sort.Search over the elements of a slice, with a predicate that, once true, stays true *)
Lemma search_list_spec {A} (p : A -> bool) (l : list A) :
  (forall i j x y, i <= j -> nth_error l i = Some x -> nth_error l j = Some y -> p x = true -> p y = true) ->
  exists r, sort_search (lenZ l) (fun i => do x <- getZ l i; Ok (p x)) = Ok (Z.of_nat r) /\ partition_point p l r.
Proof.
  intros Hmono.
  set (g := fun k : Z => match nth_error l (Z.to_nat k) with Some x => p x | None => true end).
  destruct (sort_search_lower_bound (fun i => do x <- getZ l i; Ok (p x)) g (lenZ l)) as (r & Er & Hr & H1 & H2).
  - intros h Hh. unfold lenZ in Hh.
    destruct (nth_error l (Z.to_nat h)) as [x|] eqn:Ex.
    + replace h with (Z.of_nat (Z.to_nat h)) at 1 by lia. rewrite (getZ_ok _ _ _ Ex). unfold g. rewrite Ex. reflexivity.
    + apply nth_error_None in Ex. lia.
  - intros a b Hab Hb. unfold g, lenZ in *.
    destruct (nth_error l (Z.to_nat a)) as [x|] eqn:Ea; [|apply nth_error_None in Ea; lia].
    destruct (nth_error l (Z.to_nat b)) as [y|] eqn:Eb; [|reflexivity].
    apply (Hmono (Z.to_nat a) (Z.to_nat b)); auto; lia.
  - unfold lenZ. lia.
  - exists (Z.to_nat r). rewrite Z2Nat.id by lia. split; [exact Er|]. unfold lenZ in Hr. repeat split.
    + lia.
    + intros k x Hk Hx. specialize (H1 (Z.of_nat k)). unfold g in H1. rewrite Nat2Z.id, Hx in H1. apply H1. lia.
    + intros k x Hk Hx. assert (k < length l) by (apply nth_error_Some; congruence).
      specialize (H2 (Z.of_nat k)). unfold g in H2. rewrite Nat2Z.id, Hx in H2. apply H2. unfold lenZ. lia.
Qed.

Section LowerBound.
Context {A : Type} (less : A -> A -> bool).

(* the predicate Sorted.search and BinarySearch hand to sort.Search, on the elements *)
Definition not_less_than (v x : A) : bool := negb (less x v).

Lemma not_less_than_mono : StrictWeakOrder less -> forall l, Sorted (le_of less) l -> forall v a b x y,
  a <= b -> nth_error l a = Some x -> nth_error l b = Some y ->
  not_less_than v x = true -> not_less_than v y = true.
Proof.
  intros W l Hs v a b x y Hab Ha Hb Hx. destruct (Nat.eq_dec a b) as [->|Hne]; [congruence|].
  assert (Hxy : le_of less x y).
  { apply (StronglySorted_nth _ l (sorted_strongly less W l Hs) a b); auto; lia. }
  unfold not_less_than, le_of in *. apply negb_true_iff in Hx. apply negb_true_iff.
  destruct (less y v) eqn:E; [|reflexivity]. destruct (swo_negtrans less W y x v E); congruence.
Qed.

(* under a strict total order the lower bound of v is the first occurrence of v, if there is one *)
Lemma lower_bound_first : StrictTotalOrder less -> forall l v r,
  Sorted (le_of less) l -> partition_point (not_less_than v) l r ->
  (forall k, k < r -> nth_error l k <> Some v) /\ (In v l -> nth_error l r = Some v) /\
  (nth_error l r <> Some v -> ~ In v l).
Proof.
  intros TO l v r Hs (Hr & Hlo & Hhi). pose proof (sto_swo less TO) as W.
  assert (Hfirst : forall k, k < r -> nth_error l k <> Some v).
  { intros k Hk Hv. specialize (Hlo k v Hk Hv). unfold not_less_than in Hlo.
    rewrite (sto_irrefl less TO) in Hlo. discriminate. }
  assert (Hpres : In v l -> nth_error l r = Some v).
  { intros Hin. destruct (In_nth_error _ _ Hin) as [k Hk].
    destruct (Nat.lt_trichotomy k r) as [Hlt|[->|Hgt]]; [destruct (Hfirst k Hlt Hk)|exact Hk|].
    destruct (nth_error l r) as [x|] eqn:Ex.
    - specialize (Hhi r x (le_n _) Ex). unfold not_less_than in Hhi. apply negb_true_iff in Hhi.
      assert (Hxv : le_of less x v).
      { apply (StronglySorted_nth _ l (sorted_strongly less W l Hs) r k); auto. }
      f_equal. apply (sto_total less TO); assumption.
    - apply nth_error_None in Ex. assert (k < length l) by (apply nth_error_Some; congruence). lia. }
  split; [exact Hfirst|]. split; [exact Hpres|]. intros Hn Hin. exact (Hn (Hpres Hin)).
Qed.
End LowerBound.

(* Go's < on int is a strict total order consistent with == *)
Lemma Z_ltb_sto : StrictTotalOrder Z.ltb.
Proof.
  split.
  - intros a. apply Z.ltb_irrefl.
  - intros a b c H1 H2. apply Z.ltb_lt in H1, H2. apply Z.ltb_lt. lia.
  - intros a b H1 H2. apply Z.ltb_ge in H1, H2. lia.
Qed.

