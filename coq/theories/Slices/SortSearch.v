(* Shared by C07 (slices.Sorted) and C15 (slices/sort.go): what those files
   use from Go's runtime and standard library.

   - slice indexing with Go's bounds checks on [int] (= Z) indices;
   - [sort_search]: the loop of sort.Search ($GOROOT/src/sort/search.go),
     transcribed, NOT trusted (lower-bound lemma in SortSearchProofs.v);
   - [Interface]: sort.Interface (Len/Less/Swap over a hidden state);
     sort.Reverse; sort.SliceStable in terms of sort.Stable;
   - the CONTRACTS of the trusted sort.Sort / sort.Stable ([sort_spec],
     [stable_spec]); the models take the functions as section variables;
   - [insertion_sort]: an executable instance of both contracts (proved in
     SortSearchProofs.v), used to run the models;
   - [isort]: the reference stable sort of the statements.
   Definitions only. *)
From Typ Require Export Lib.Base.
From Coq Require Export Sorting.Sorted Sorting.Permutation.

(* ---- orders given as boolean less functions ---- *)

Record StrictWeakOrder {A} (less : A -> A -> bool) : Prop := {
  swo_irrefl : forall a, less a a = false;
  swo_trans : forall a b c, less a b = true -> less b c = true -> less a c = true;
  swo_negtrans : forall a b c, less a c = true -> less a b = true \/ less b c = true
}.

(* strict total order consistent with Leibniz equality (Go's == on the
   element type): elements the order cannot tell apart are equal *)
Record StrictTotalOrder {A} (less : A -> A -> bool) : Prop := {
  sto_irrefl : forall a, less a a = false;
  sto_trans : forall a b c, less a b = true -> less b c = true -> less a c = true;
  sto_total : forall a b, less a b = false -> less b a = false -> a = b
}.

(* "a is not after b": the non-strict order of a less function *)
Definition le_of {A} (less : A -> A -> bool) (a b : A) : Prop := less b a = false.
(* "a is not before b" (descending order: no element is less than a later one) *)
Definition ge_of {A} (less : A -> A -> bool) (a b : A) : Prop := less a b = false.
(* the order cannot distinguish a and b *)
Definition eqv {A} (less : A -> A -> bool) (a b : A) : bool := negb (less a b) && negb (less b a).
Definition flip_less {A} (less : A -> A -> bool) : A -> A -> bool := fun a b => less b a.

(* ---- Go slices (value model) with int indices ---- *)

Definition lenZ {A} (l : list A) : Z := Z.of_nat (length l).

(* s[i] *)
Definition getZ {A} (l : list A) (i : Z) : result A :=
  if (i <? 0)%Z then Panic IndexOutOfRange else get_nth (Z.to_nat i) l.

(* s[i] = x *)
Definition setZ {A} (l : list A) (i : Z) (x : A) : result (list A) :=
  if (i <? 0)%Z then Panic IndexOutOfRange else set_nth (Z.to_nat i) x l.

(* s[i], s[j] = s[j], s[i] : both operands are read (right-hand side left to
   right), then the two assignments happen left to right *)
Definition swapZ {A} (l : list A) (i j : Z) : result (list A) :=
  do b <- getZ l j;
  do a <- getZ l i;
  do l1 <- setZ l i b;
  setZ l1 j a.

(* ---- sort.Search ----
   func Search(n int, f func(int) bool) int {
       i, j := 0, n
       for i < j {
           h := int(uint(i+j) >> 1) // avoid overflow when computing h
           if !f(h) { i = h + 1 } else { j = h }
       }
       return i
   }
   [f] may panic (it indexes a slice). Fuel: [n] iterations are enough
   (sort_search_fuel); running out of fuel is a distinguished panic that the
   theorems exclude. *)
Fixpoint sort_search_loop (fuel : nat) (f : Z -> result bool) (i j : Z) : result Z :=
  if (i <? j)%Z then
    match fuel with
    | O => Panic OtherPanic
    | S fuel' =>
        let h := ((i + j) / 2)%Z in
        do b <- f h;
        if negb b then sort_search_loop fuel' f (h + 1)%Z j
        else sort_search_loop fuel' f i h
    end
  else Ok i.

Definition sort_search (n : Z) (f : Z -> result bool) : result Z :=
  sort_search_loop (Z.to_nat n) f 0%Z n.

(* ---- sort.Interface ---- *)

Record Interface (St : Type) := {
  i_len : St -> Z;
  i_less : St -> Z -> Z -> result bool;
  i_swap : St -> Z -> Z -> result St
}.
Arguments i_len {St}.
Arguments i_less {St}.
Arguments i_swap {St}.

(* sort.Reverse: func (r reverse) Less(i, j int) bool { return r.Interface.Less(j, i) } *)
Definition sort_Reverse {St} (I : Interface St) : Interface St :=
  {| i_len := i_len I; i_less := fun s i j => i_less I s j i; i_swap := i_swap I |}.

(* sort.SliceStable(x, less) is sort.Stable over the slice's own length and
   element swap (reflectlite.Swapper) and the caller's less(i, j). The caller's
   closure reads the slice being sorted, so it receives the current contents. *)
Definition slice_interface {A} (less : list A -> Z -> Z -> result bool) : Interface (list A) :=
  {| i_len := lenZ; i_less := less; i_swap := swapZ |}.

Definition sort_SliceStable {A} (sort_Stable : forall St, Interface St -> St -> result St)
    (x : list A) (less : list A -> Z -> Z -> result bool) : result (list A) :=
  sort_Stable (list A) (slice_interface less) x.

(* [upd l i x]: l with position i (< length l) replaced by x *)
Definition upd {A} (l : list A) (i : nat) (x : A) : list A := firstn i l ++ x :: skipn (S i) l.

(* The Interface I presents, through [view], a sequence of elements ordered
   by [lessE]: Len is its length, Less(i,j) compares elements i and j, Swap
   exchanges them (and leaves the rest of the view alone). *)
Record represents {St E} (I : Interface St) (view : St -> list E) (lessE : E -> E -> bool) : Prop := {
  rep_len : forall s, i_len I s = Z.of_nat (length (view s));
  rep_less : forall s i j a b, nth_error (view s) i = Some a -> nth_error (view s) j = Some b ->
    i_less I s (Z.of_nat i) (Z.of_nat j) = Ok (lessE a b);
  rep_swap : forall s i j a b, nth_error (view s) i = Some a -> nth_error (view s) j = Some b ->
    exists s', i_swap I s (Z.of_nat i) (Z.of_nat j) = Ok s' /\ view s' = upd (upd (view s) i b) j a
}.

(* Contract of sort.Sort (trusted): on an Interface that presents a sequence
   under a strict weak order it returns normally, having permuted the sequence
   into ascending order. *)
Definition sort_spec (sortf : forall St, Interface St -> St -> result St) : Prop :=
  forall St E (I : Interface St) (view : St -> list E) (lessE : E -> E -> bool),
    represents I view lessE -> StrictWeakOrder lessE ->
    forall s, exists s', sortf St I s = Ok s' /\
      Permutation (view s) (view s') /\ Sorted (le_of lessE) (view s').

(* Contract of sort.Stable (trusted): as sort.Sort, and elements the order
   cannot distinguish keep their relative order (for every a, the
   subsequence of elements equivalent to a is unchanged). *)
Definition stable_spec (sortf : forall St, Interface St -> St -> result St) : Prop :=
  forall St E (I : Interface St) (view : St -> list E) (lessE : E -> E -> bool),
    represents I view lessE -> StrictWeakOrder lessE ->
    forall s, exists s', sortf St I s = Ok s' /\
      Permutation (view s) (view s') /\ Sorted (le_of lessE) (view s') /\
      forall a, filter (eqv lessE a) (view s') = filter (eqv lessE a) (view s).

(* ---- an executable instance of both contracts: insertion sort through the
   Interface, from the right end (element i is moved right past the strictly
   smaller elements of the already sorted suffix) ---- *)
Section InsertionSort.
Context {St : Type} (I : Interface St).

Fixpoint ins_inner (cnt j : nat) (s : St) : result St :=
  match cnt with
  | O => Ok s
  | S c =>
      do b <- i_less I s (Z.of_nat (S j)) (Z.of_nat j);
      if b then do s' <- i_swap I s (Z.of_nat j) (Z.of_nat (S j)); ins_inner c (S j) s'
      else Ok s
  end.

Fixpoint ins_outer (n k : nat) (s : St) : result St :=
  match k with
  | O => Ok s
  | S i => do s' <- ins_inner (n - 1 - i) i s; ins_outer n i s'
  end.

Definition insertion_sort_on (s : St) : result St :=
  let n := Z.to_nat (i_len I s) in ins_outer n n s.
End InsertionSort.

Definition insertion_sort : forall St, Interface St -> St -> result St := @insertion_sort_on.

(* ---- the reference stable sort ---- *)
Fixpoint insert {A} (less : A -> A -> bool) (x : A) (l : list A) : list A :=
  match l with
  | [] => [x]
  | y :: l' => if less y x then y :: insert less x l' else x :: y :: l'
  end.

Definition isort {A} (less : A -> A -> bool) (l : list A) : list A := fold_right (insert less) [] l.

(* ---- lower bounds (statement of sort.Search / BinarySearch / Sorted.search) ---- *)

(* r is the partition point of p on l: p fails on every element before r and
   holds on every element from r on (r = length l when it holds nowhere) *)
Definition partition_point {A} (p : A -> bool) (l : list A) (r : nat) : Prop :=
  r <= length l /\
  (forall k x, k < r -> nth_error l k = Some x -> p x = false) /\
  (forall k x, r <= k -> nth_error l k = Some x -> p x = true).
