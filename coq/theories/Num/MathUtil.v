(* Model of /repo/math.go and /repo/util.go (package typ), transcribed function
   by function. Definitions only.

   Integer types.  A Go integer type is [ITy signed width]; a value of the type
   is a [Z] inside [in_range].  No operator wraps implicitly: every place where
   the Go code computes in a fixed width is written [wrap t ...] /
   [wrap_s 64 ...] / [wrap_u 64 ...].  int, uint and uintptr are the 64 bit
   types (linux/amd64).  The result type `int` of Digits10/Compare is [Z].

   Ordered types.  Min, Max, Clamp, Clamp01, Abs, Compare and Less only use
   `<`, `>` (and unary minus, constants 0 and 1) of the element type; they are
   transcribed once over an abstract carrier with [ltb] (a > b is [ltb b a]),
   and instantiated with [Z.ltb] for every integer type (values are their own
   mathematical value) and for the non-NaN floats through an order preserving
   encoding into Z (done by the harness). *)
From Typ Require Export Lib.Base.
Local Open Scope Z_scope.

(* ---------- fixed-width integers ---------- *)

Inductive width := W8 | W16 | W32 | W64.
Definition bits (w : width) : Z := match w with W8 => 8 | W16 => 16 | W32 => 32 | W64 => 64 end.

Record ity := ITy { signed : bool; wd : width }.

(* two's complement reduction into [-2^(w-1), 2^(w-1)) and into [0, 2^w) *)
Definition wrap_u (w : Z) (x : Z) : Z := x mod 2 ^ w.
Definition wrap_s (w : Z) (x : Z) : Z := (x + 2 ^ (w - 1)) mod 2 ^ w - 2 ^ (w - 1).

Definition wrap (t : ity) (x : Z) : Z :=
  if signed t then wrap_s (bits (wd t)) x else wrap_u (bits (wd t)) x.

Definition min_of (t : ity) : Z := if signed t then - 2 ^ (bits (wd t) - 1) else 0.
Definition max_of (t : ity) : Z := if signed t then 2 ^ (bits (wd t) - 1) - 1 else 2 ^ bits (wd t) - 1.
Definition in_range (t : ity) (x : Z) : Prop := min_of t <= x <= max_of t.
Definition in_rangeb (t : ity) (x : Z) : bool := (min_of t <=? x) && (x <=? max_of t).

(* the operators of type t *)
Definition neg_t (t : ity) (x : Z) : Z := wrap t (- x).
Definition add_t (t : ity) (x y : Z) : Z := wrap t (x + y).
Definition mul_t (t : ity) (x y : Z) : Z := wrap t (x * y).

(* conversions used by Digits10: int64(v) and uint64(v) of an integer value v
   (sign/zero extension followed by truncation = reduction of the value) *)
Definition conv_i64 (x : Z) : Z := wrap_s 64 x.
Definition conv_u64 (x : Z) : Z := wrap_u 64 x.

(* ---------- math.go / util.go over an ordered carrier ---------- *)

Section Ordered.
Context {A : Type} (ltb : A -> A -> bool).

(* for _, v := range v[1:] { if v < min { min = v } } *)
Definition min_loop (rest : list A) (min : A) : A :=
  fold_left (fun min v => if ltb v min then v else min) rest min.

(* func Min[T Ordered](v ...T) T *)
Definition gmin (v : list A) : result A :=
  match v with
  | [] => Panic Explicit                    (* case 0: panic("typ.Min: ...") *)
  | [v0] => Ok v0                           (* case 1: return v[0] *)
  | v0 :: rest => Ok (min_loop rest v0)     (* default: min := v[0]; loop over v[1:] *)
  end.

(* for _, v := range v[1:] { if v > max { max = v } } *)
Definition max_loop (rest : list A) (max : A) : A :=
  fold_left (fun max v => if ltb max v then v else max) rest max.

(* func Max[T Ordered](v ...T) T *)
Definition gmax (v : list A) : result A :=
  match v with
  | [] => Panic Explicit
  | [v0] => Ok v0
  | v0 :: rest => Ok (max_loop rest v0)
  end.

(* func Clamp[T Ordered](v, min, max T) T *)
Definition clamp (v min max : A) : A :=
  if ltb v min then min else
  if ltb max v then max else
  v.

(* func Clamp01[T Real](v T) T; zero and one are the constants 0 and 1 of T *)
Definition clamp01 (zero one : A) (v : A) : A :=
  if ltb v zero then zero else
  if ltb one v then one else
  v.

(* func Abs[T Real](v T) T; neg is unary minus of T *)
Definition gabs (neg : A -> A) (zero : A) (v : A) : A :=
  if ltb v zero then neg v else v.

(* func Compare[T Ordered](a, b T) int *)
Definition compare (a b : A) : Z :=
  if ltb b a then 1 else
  if ltb a b then -1 else
  0.

(* func Less[T Ordered](a, b T) bool *)
Definition less (a b : A) : bool := ltb a b.

End Ordered.

(* ---------- integer instances ---------- *)

Definition imin (t : ity) (v : list Z) : result Z := gmin Z.ltb v.
Definition imax (t : ity) (v : list Z) : result Z := gmax Z.ltb v.
Definition iclamp (t : ity) (v min max : Z) : Z := clamp Z.ltb v min max.
Definition iclamp01 (t : ity) (v : Z) : Z := clamp01 Z.ltb 0 1 v.
Definition iabs (t : ity) (v : Z) : Z := gabs Z.ltb (neg_t t) 0 v.
Definition icompare (t : ity) (a b : Z) : Z := compare Z.ltb a b.
Definition iless (t : ity) (a b : Z) : bool := less Z.ltb a b.

(* func Sum[T Number](v ...T) T:  var sum T; for _, num := range v { sum += num } *)
Definition sum (t : ity) (v : list Z) : Z :=
  fold_left (fun sum num => add_t t sum num) v 0.

(* func Product[T Number](v ...T) T:  var product T = 1; for ... { product *= num } *)
Definition product (t : ity) (v : list Z) : Z :=
  fold_left (fun product num => mul_t t product num) v 1.

(* func Digits10[T Integer](v T) int *)
Definition digits10 (t : ity) (v : Z) : Z :=
  let n := conv_u64 v in                                   (* n := uint64(v) *)
  let n := if v <? 0                                       (* if v < 0 { *)
           then conv_u64 (wrap_s 64 (- conv_i64 v))        (*   n = uint64(-int64(v)) } *)
           else n in
  if n <? 10 then 1 else
  if n <? 100 then 2 else
  if n <? 1000 then 3 else
  if n <? 10000 then 4 else
  if n <? 100000 then 5 else
  if n <? 1000000 then 6 else
  if n <? 10000000 then 7 else
  if n <? 100000000 then 8 else
  if n <? 1000000000 then 9 else
  if n <? 10000000000 then 10 else
  if n <? 100000000000 then 11 else
  if n <? 1000000000000 then 12 else
  if n <? 10000000000000 then 13 else
  if n <? 100000000000000 then 14 else
  if n <? 1000000000000000 then 15 else
  if n <? 10000000000000000 then 16 else
  if n <? 100000000000000000 then 17 else
  if n <? 1000000000000000000 then 18 else
  if n <? 10000000000000000000 then 19 else
  20.

(* func DigitsSign10[T Integer](v T) int; -v is computed in T *)
Definition digitssign10 (t : ity) (v : Z) : Z :=
  if v <? 0 then digits10 t (neg_t t v) + 1
  else digits10 t v.

(* ---------- util.go ---------- *)

Section Util.
Context {A : Type} (eqb : A -> A -> bool) (zero : A).

(* func Zero[T any]() T; func ZeroOf[T any](T) T *)
Definition zero_ : A := zero.
Definition zero_of (_ : A) : A := zero.

(* func IsZero[T comparable](value T) bool.  [meth] is the IsZero method of the
   dynamic type of value, if it has one. *)
Definition is_zero (meth : option (A -> bool)) (value : A) : bool :=
  if eqb value zero then true else
  match meth with
  | Some isZero => isZero value
  | None => false
  end.

(* func Coal[T comparable](values ...T) T *)
Fixpoint coal (values : list A) : A :=
  match values with
  | [] => zero
  | v :: rest => if negb (eqb v zero) then v else coal rest
  end.

(* func Tern[T any](cond bool, ifTrue, ifFalse T) T *)
Definition tern (cond : bool) (ifTrue ifFalse : A) : A :=
  if cond then ifTrue else ifFalse.

(* Pointers: *T is [option A] (None = nil); Ref allocates a copy. *)
Definition ref (value : A) : option A := Some value.
Definition deref_zero (ptr : option A) : A :=
  match ptr with
  | None => zero
  | Some v => v
  end.

End Util.

(* Interface values.  A value of interface type is nil or a (dynamic type,
   payload) pair; dynamic types are numbered.  A value handed to a generic
   function with type parameter T is either of an interface type T (then
   converting it to `any` keeps nil-ness) or of a concrete type T (then the
   conversion always yields a non-nil interface, even when the payload is a nil
   pointer). *)
Section Iface.
Context {P : Type}.
Definition iface := option (Z * P).
Inductive gvalue :=
  | OfIface (i : iface)                 (* T is an interface type *)
  | OfConcrete (dyn : Z) (payload : P). (* T is the concrete type number dyn *)

Definition to_any (value : gvalue) : iface :=
  match value with
  | OfIface i => i
  | OfConcrete dyn p => Some (dyn, p)
  end.

(* func IsNil[T any](value T) bool *)
Definition is_nil (value : gvalue) : bool :=
  match to_any value with
  | None => true
  | Some _ => false
  end.

(* func TernCast[T any](cond bool, value any, ifFalse T) T, T the concrete type
   number tT; value.(T) panics with a runtime error unless the dynamic type is T *)
Definition tern_cast (tT : Z) (cond : bool) (value : iface) (ifFalse : P) : result P :=
  if cond then
    match value with
    | Some (dyn, p) => if dyn =? tT then Ok p else Panic OtherPanic
    | None => Panic OtherPanic
    end
  else Ok ifFalse.

(* TernCast[T] where T is itself an interface type (any, error, ...): value.(T)
   succeeds for every non-nil value whose dynamic type implements T ([impl]),
   and yields the same dynamic value seen as a T; on the nil interface it panics
   (also for T = any).  ifFalse is a T, i.e. an interface value. *)
Definition tern_cast_iface (impl : Z -> bool) (cond : bool) (value : iface) (ifFalse : iface) : result iface :=
  if cond then
    match value with
    | Some (dyn, p) => if impl dyn then Ok (Some (dyn, p)) else Panic OtherPanic
    | None => Panic OtherPanic
    end
  else Ok ifFalse.
End Iface.
Arguments iface : clear implicits.
Arguments gvalue : clear implicits.

(* ---------- reference definitions (the statement of C20) ---------- *)

(* number of decimal digits of n >= 0 (1 for 0): count divisions by ten *)
Fixpoint ndigits_fuel (fuel : nat) (n : Z) : Z :=
  match fuel with
  | O => 1
  | S f => if n <? 10 then 1 else 1 + ndigits_fuel f (n / 10)
  end.
Definition ndigits (n : Z) : Z := ndigits_fuel (Z.to_nat (Z.log2 n)) n.

Definition zsum (v : list Z) : Z := fold_right Z.add 0 v.
Definition zprod (v : list Z) : Z := fold_right Z.mul 1 v.
