(* Lemmas about the model of math.go / util.go (Num/MathUtil.v). *)
From Typ Require Import Lib.Base Num.MathUtil.
Local Open Scope Z_scope.

(* ---------- fixed-width arithmetic ---------- *)

Definition modulus (t : ity) : Z := 2 ^ bits (wd t).

Lemma modulus_pos t : 0 < modulus t.
Proof. unfold modulus. destruct t as [s []]; reflexivity. Qed.

Lemma range_cases t :
  (signed t = true /\ min_of t = - (modulus t / 2) /\ max_of t = modulus t / 2 - 1 /\ modulus t = 2 * (modulus t / 2)) \/
  (signed t = false /\ min_of t = 0 /\ max_of t = modulus t - 1).
Proof. destruct t as [[] []]; [left|left|left|left|right|right|right|right]; repeat split; reflexivity. Qed.

Lemma wrap_s_half w : 0 < w -> 2 ^ w = 2 * 2 ^ (w - 1).
Proof. intro H. rewrite <- Z.pow_succ_r by lia. f_equal. lia. Qed.

Lemma wrap_mod t x : wrap t x mod modulus t = x mod modulus t.
Proof.
  unfold wrap, modulus, wrap_s, wrap_u. destruct (signed t).
  - set (M := 2 ^ bits (wd t)). set (H := 2 ^ (bits (wd t) - 1)).
    assert (HM : 0 < M) by (subst M; destruct (wd t); reflexivity).
    rewrite Zminus_mod, Z.mod_mod by lia. rewrite <- Zminus_mod. f_equal. lia.
  - apply Z.mod_mod. destruct (wd t); discriminate.
Qed.

Lemma wrap_congr t x y : x mod modulus t = y mod modulus t -> wrap t x = wrap t y.
Proof.
  unfold wrap, modulus, wrap_s, wrap_u. intro E. destruct (signed t); [|exact E].
  set (M := 2 ^ bits (wd t)) in *. set (H := 2 ^ (bits (wd t) - 1)).
  f_equal. rewrite (Z.add_mod x), (Z.add_mod y), E by (subst M; destruct (wd t); discriminate). reflexivity.
Qed.

Lemma wrap_in_range t x : in_range t (wrap t x).
Proof.
  unfold in_range, min_of, max_of, wrap, wrap_s, wrap_u.
  destruct t as [[] w]; cbn [signed wd].
  - assert (E : 2 ^ bits w = 2 * 2 ^ (bits w - 1)) by (apply wrap_s_half; destruct w; reflexivity).
    assert (P : 0 < 2 ^ (bits w - 1)) by (destruct w; reflexivity).
    pose proof (Z.mod_pos_bound (x + 2 ^ (bits w - 1)) (2 ^ bits w)). lia.
  - assert (P : 0 < 2 ^ bits w) by (destruct w; reflexivity).
    pose proof (Z.mod_pos_bound x (2 ^ bits w)). lia.
Qed.

Lemma wrap_id t x : in_range t x -> wrap t x = x.
Proof.
  unfold in_range, min_of, max_of, wrap, wrap_s, wrap_u.
  destruct t as [[] w]; cbn [signed wd]; intro R.
  - assert (E : 2 ^ bits w = 2 * 2 ^ (bits w - 1)) by (apply wrap_s_half; destruct w; reflexivity).
    rewrite Z.mod_small; lia.
  - rewrite Z.mod_small; lia.
Qed.

Lemma in_rangeb_spec t x : in_rangeb t x = true <-> in_range t x.
Proof. unfold in_rangeb, in_range. rewrite andb_true_iff, !Z.leb_le. reflexivity. Qed.

(* wrap is the unique in-range representative of the residue class *)
Lemma wrap_unique t x r : in_range t r -> r mod modulus t = x mod modulus t -> wrap t x = r.
Proof. intros R E. rewrite <- (wrap_id t r R). apply wrap_congr. symmetry. exact E. Qed.

(* ---------- Min / Max over a strict weak order ---------- *)

Section OrderedProofs.
Context {A : Type} (ltb : A -> A -> bool).
Hypothesis ltb_asym : forall x y, ltb x y = true -> ltb y x = false.
Hypothesis ltb_negtrans : forall x y z, ltb x z = true -> ltb x y = true \/ ltb y z = true.

Lemma ltb_irrefl x : ltb x x = false.
Proof. destruct (ltb x x) eqn:E; [|reflexivity]. rewrite (ltb_asym _ _ E) in E. discriminate. Qed.

(* not y < x, not z < y  ->  not z < x *)
Lemma le_trans x y z : ltb y x = false -> ltb z y = false -> ltb z x = false.
Proof.
  intros H1 H2. destruct (ltb z x) eqn:E; [|reflexivity].
  destruct (ltb_negtrans z y x E) as [H|H]; congruence.
Qed.

(* The scan returns the first minimal element: everything before it is
   strictly greater, everything after it is not smaller. *)
Definition first_min (v : list A) (r : A) : Prop :=
  exists pre post, v = pre ++ r :: post /\
    (forall x, In x pre -> ltb r x = true) /\ (forall x, In x post -> ltb x r = false).

Lemma min_loop_spec rest : forall pre m post,
  (forall x, In x pre -> ltb m x = true) -> (forall x, In x post -> ltb x m = false) ->
  first_min (pre ++ m :: post ++ rest) (min_loop ltb rest m).
Proof.
  induction rest as [|v rest IH]; intros pre m post Hpre Hpost; cbn [min_loop fold_left].
  - rewrite app_nil_r. exists pre, post. auto.
  - fold (min_loop ltb rest (if ltb v m then v else m)). destruct (ltb v m) eqn:E.
    + replace (pre ++ m :: post ++ v :: rest) with ((pre ++ m :: post) ++ v :: [] ++ rest)
        by (rewrite <- app_assoc; reflexivity).
      apply IH; [|intros x []].
      intros x Hx. apply in_app_or in Hx as [Hx|[<-|Hx]]; [| exact E |].
      * destruct (ltb_negtrans m v x (Hpre x Hx)) as [H|H]; [|exact H].
        rewrite (ltb_asym _ _ E) in H. discriminate.
      * destruct (ltb v x) eqn:F; [reflexivity|].
        rewrite (le_trans m x v (Hpost x Hx) F) in E. discriminate.
    + replace (pre ++ m :: post ++ v :: rest) with (pre ++ m :: (post ++ [v]) ++ rest)
        by (rewrite <- app_assoc; reflexivity).
      apply IH; [exact Hpre|].
      intros x Hx. apply in_app_or in Hx as [Hx|[<-|[]]]; auto.
Qed.

Lemma first_min_lower v r : first_min v r -> In r v /\ forall x, In x v -> ltb x r = false.
Proof.
  intros (pre & post & -> & Hpre & Hpost). split; [apply in_elt|].
  intros x Hx. apply in_app_or in Hx as [Hx|[<-|Hx]]; auto using ltb_irrefl.
Qed.

Theorem gmin_correct v : v <> [] ->
  exists r, gmin ltb v = Ok r /\ first_min v r /\ In r v /\ forall x, In x v -> ltb x r = false.
Proof.
  intro Hne. destruct v as [|v0 rest]; [congruence|].
  assert (F : first_min (v0 :: rest) (min_loop ltb rest v0)).
  { apply (min_loop_spec rest [] v0 []); intros x []. }
  exists (min_loop ltb rest v0). split; [destruct rest; reflexivity|].
  split; [exact F|]. apply first_min_lower, F.
Qed.

Definition first_max (v : list A) (r : A) : Prop :=
  exists pre post, v = pre ++ r :: post /\
    (forall x, In x pre -> ltb x r = true) /\ (forall x, In x post -> ltb r x = false).

Lemma max_loop_spec rest : forall pre m post,
  (forall x, In x pre -> ltb x m = true) -> (forall x, In x post -> ltb m x = false) ->
  first_max (pre ++ m :: post ++ rest) (max_loop ltb rest m).
Proof.
  induction rest as [|v rest IH]; intros pre m post Hpre Hpost; cbn [max_loop fold_left].
  - rewrite app_nil_r. exists pre, post. auto.
  - fold (max_loop ltb rest (if ltb m v then v else m)). destruct (ltb m v) eqn:E.
    + replace (pre ++ m :: post ++ v :: rest) with ((pre ++ m :: post) ++ v :: [] ++ rest)
        by (rewrite <- app_assoc; reflexivity).
      apply IH; [|intros x []].
      intros x Hx. apply in_app_or in Hx as [Hx|[<-|Hx]]; [| exact E |].
      * destruct (ltb_negtrans x v m (Hpre x Hx)) as [H|H]; [exact H|].
        rewrite (ltb_asym _ _ E) in H. discriminate.
      * destruct (ltb x v) eqn:F; [reflexivity|].
        (* not m < x, not x < v -> not m < v *)
        rewrite (le_trans v x m F (Hpost x Hx)) in E. discriminate.
    + replace (pre ++ m :: post ++ v :: rest) with (pre ++ m :: (post ++ [v]) ++ rest)
        by (rewrite <- app_assoc; reflexivity).
      apply IH; [exact Hpre|].
      intros x Hx. apply in_app_or in Hx as [Hx|[<-|[]]]; auto.
Qed.

Lemma first_max_upper v r : first_max v r -> In r v /\ forall x, In x v -> ltb r x = false.
Proof.
  intros (pre & post & -> & Hpre & Hpost). split; [apply in_elt|].
  intros x Hx. apply in_app_or in Hx as [Hx|[<-|Hx]]; auto using ltb_irrefl.
Qed.

Theorem gmax_correct v : v <> [] ->
  exists r, gmax ltb v = Ok r /\ first_max v r /\ In r v /\ forall x, In x v -> ltb r x = false.
Proof.
  intro Hne. destruct v as [|v0 rest]; [congruence|].
  assert (F : first_max (v0 :: rest) (max_loop ltb rest v0)).
  { apply (max_loop_spec rest [] v0 []); intros x []. }
  exists (max_loop ltb rest v0). split; [destruct rest; reflexivity|].
  split; [exact F|]. apply first_max_upper, F.
Qed.

(* Clamp, for min <= max (not max < min) *)
Theorem clamp_correct v lo hi : ltb hi lo = false ->
  (ltb v lo = true -> clamp ltb v lo hi = lo) /\
  (ltb hi v = true -> clamp ltb v lo hi = hi) /\
  (ltb v lo = false -> ltb hi v = false -> clamp ltb v lo hi = v).
Proof.
  intro Hle. unfold clamp. repeat split.
  - intros ->. reflexivity.
  - intro H. destruct (ltb v lo) eqn:E; [|rewrite H; reflexivity].
    (* v < lo and hi < v would give hi < lo *)
    destruct (ltb_negtrans hi lo v H) as [F|F]; [congruence|].
    rewrite (ltb_asym _ _ E) in F. discriminate.
  - intros -> ->. reflexivity.
Qed.

Theorem clamp01_is_clamp zero one v : clamp01 ltb zero one v = clamp ltb v zero one.
Proof. reflexivity. Qed.

End OrderedProofs.

Theorem gmin_empty {A} (ltb : A -> A -> bool) : gmin ltb [] = Panic Explicit.
Proof. reflexivity. Qed.
Theorem gmax_empty {A} (ltb : A -> A -> bool) : gmax ltb [] = Panic Explicit.
Proof. reflexivity. Qed.

(* Z.ltb is a strict weak order *)
Lemma Zltb_asym x y : (x <? y) = true -> (y <? x) = false.
Proof. rewrite Z.ltb_lt, Z.ltb_ge. lia. Qed.
Lemma Zltb_negtrans x y z : (x <? z) = true -> (x <? y) = true \/ (y <? z) = true.
Proof. rewrite !Z.ltb_lt. lia. Qed.

(* ---------- integer instances ---------- *)

Theorem imin_correct t v : v <> [] ->
  exists r, imin t v = Ok r /\ In r v /\ forall x, In x v -> r <= x.
Proof.
  intro H. destruct (gmin_correct Z.ltb Zltb_asym Zltb_negtrans v H) as (r & E & _ & Hin & Hle).
  exists r. repeat split; auto. intros x Hx. apply Z.ltb_ge. auto.
Qed.

Theorem imax_correct t v : v <> [] ->
  exists r, imax t v = Ok r /\ In r v /\ forall x, In x v -> x <= r.
Proof.
  intro H. destruct (gmax_correct Z.ltb Zltb_asym Zltb_negtrans v H) as (r & E & _ & Hin & Hle).
  exists r. repeat split; auto. intros x Hx. apply Z.ltb_ge. auto.
Qed.

Theorem iclamp_correct t v lo hi : lo <= hi ->
  iclamp t v lo hi = (if v <? lo then lo else if hi <? v then hi else v) /\
  iclamp t v lo hi = Z.max lo (Z.min v hi) /\
  (lo <= v <= hi -> iclamp t v lo hi = v) /\
  (v < lo -> iclamp t v lo hi = lo) /\
  (hi < v -> iclamp t v lo hi = hi) /\
  lo <= iclamp t v lo hi <= hi.
Proof.
  intro H. unfold iclamp, clamp.
  destruct (Z.ltb_spec v lo), (Z.ltb_spec hi v); repeat split; intros; lia.
Qed.

Theorem iclamp01_correct t v :
  iclamp01 t v = iclamp t v 0 1 /\
  iclamp01 t v = (if v <? 0 then 0 else if 1 <? v then 1 else v).
Proof. split; reflexivity. Qed.

Theorem icompare_less_correct t a b :
  icompare t a b = match a ?= b with Lt => -1 | Eq => 0 | Gt => 1 end /\
  (iless t a b = true <-> a < b).
Proof.
  unfold icompare, iless, compare, less. split; [|apply Z.ltb_lt].
  destruct (Z.ltb_spec b a), (Z.ltb_spec a b), (Z.compare_spec a b); try reflexivity; lia.
Qed.

Theorem gcompare_correct {A} (ltb : A -> A -> bool) a b :
  (forall x y, ltb x y = true -> ltb y x = false) ->
  (ltb a b = true -> compare ltb a b = -1) /\
  (ltb b a = true -> compare ltb a b = 1) /\
  (ltb a b = false -> ltb b a = false -> compare ltb a b = 0) /\
  less ltb a b = ltb a b.
Proof.
  intro asym. unfold compare, less. repeat split.
  - intro H. rewrite (asym _ _ H), H. reflexivity.
  - intros ->. reflexivity.
  - intros -> ->. reflexivity.
Qed.

(* Abs *)
Theorem iabs_correct t v : in_range t v ->
  (v <> min_of t \/ signed t = false -> iabs t v = Z.abs v) /\
  (signed t = true -> v = min_of t -> iabs t v = v).
Proof.
  intro R. unfold iabs, gabs, neg_t. destruct (Z.ltb_spec v 0) as [Hneg|Hpos].
  - split.
    + intros H. rewrite wrap_id; [lia|].
      unfold in_range in *. destruct (range_cases t) as [(Hs & Hmin & Hmax & _)|(Hs & Hmin & _)]; [|lia].
      destruct H as [H|H]; [lia|congruence].
    + intros Hs ->. apply wrap_unique; [exact R|].
      destruct (range_cases t) as [(_ & Hmin & _ & HM)|(Hs' & _)]; [|congruence].
      rewrite Hmin, Z.opp_involutive.
      replace (- (modulus t / 2)) with (modulus t / 2 + (-1) * modulus t) by lia.
      apply Z.mod_add. pose proof (modulus_pos t). lia.
  - split; [lia|]. intros Hs ->.
    unfold in_range in R. destruct (range_cases t) as [(_ & Hmin & _ & HM)|(Hs' & _)]; [|congruence].
    pose proof (modulus_pos t). lia.
Qed.

(* ---------- Sum / Product ---------- *)

Lemma in_range_0 t : in_range t 0.
Proof. destruct t as [[] []]; unfold in_range; cbn; lia. Qed.
Lemma in_range_1 t : in_range t 1.
Proof. destruct t as [[] []]; unfold in_range; cbn; lia. Qed.

Lemma sum_loop_spec t v : forall acc, in_range t acc ->
  fold_left (fun s n => add_t t s n) v acc = wrap t (acc + zsum v).
Proof.
  induction v as [|x v IH]; intros acc R; cbn [fold_left zsum fold_right].
  - rewrite Z.add_0_r, wrap_id; auto.
  - fold (zsum v). rewrite IH by apply wrap_in_range. unfold add_t. apply wrap_congr.
    rewrite Z.add_mod, wrap_mod, <- Z.add_mod by (pose proof (modulus_pos t); lia).
    f_equal. lia.
Qed.

Theorem sum_correct t v :
  sum t v = wrap t (zsum v) /\ sum t [] = 0 /\
  (forall x, sum t (v ++ [x]) = wrap t (sum t v + x)) /\ in_range t (sum t v).
Proof.
  assert (E : forall v, sum t v = wrap t (zsum v)).
  { intro v'. unfold sum. rewrite sum_loop_spec by apply in_range_0. reflexivity. }
  split; [apply E|]. split; [reflexivity|]. split; [|rewrite E; apply wrap_in_range].
  intro x. unfold sum. rewrite fold_left_app. reflexivity.
Qed.

Lemma product_loop_spec t v : forall acc, in_range t acc ->
  fold_left (fun p n => mul_t t p n) v acc = wrap t (acc * zprod v).
Proof.
  induction v as [|x v IH]; intros acc R; cbn [fold_left zprod fold_right].
  - rewrite Z.mul_1_r, wrap_id; auto.
  - fold (zprod v). rewrite IH by apply wrap_in_range. unfold mul_t. apply wrap_congr.
    rewrite Z.mul_mod, wrap_mod, <- Z.mul_mod by (pose proof (modulus_pos t); lia).
    f_equal. lia.
Qed.

Theorem product_correct t v :
  product t v = wrap t (zprod v) /\ product t [] = 1 /\
  (forall x, product t (v ++ [x]) = wrap t (product t v * x)) /\ in_range t (product t v).
Proof.
  assert (E : forall v, product t v = wrap t (zprod v)).
  { intro v'. unfold product. rewrite product_loop_spec by apply in_range_1. f_equal. lia. }
  split; [apply E|]. split; [reflexivity|]. split; [|rewrite E; apply wrap_in_range].
  intro x. unfold product. rewrite fold_left_app. reflexivity.
Qed.

(* ---------- number of decimal digits ---------- *)

Lemma pow10_succ d : 0 <= d -> 10 ^ (d + 1) = 10 * 10 ^ d.
Proof. intro H. rewrite Z.pow_add_r by lia. lia. Qed.

Lemma ndigits_fuel_spec f : forall n, 0 < n < 10 ^ (Z.of_nat f + 1) ->
  1 <= ndigits_fuel f n /\ 10 ^ (ndigits_fuel f n - 1) <= n < 10 ^ ndigits_fuel f n.
Proof.
  induction f as [|f IH]; intros n Hn.
  - cbn [ndigits_fuel]. change (10 ^ (Z.of_nat 0 + 1)) with 10 in Hn. change (10 ^ (1 - 1)) with 1.
    change (10 ^ 1) with 10. lia.
  - cbn [ndigits_fuel]. destruct (Z.ltb_spec n 10) as [Hlt|Hge].
    + change (10 ^ (1 - 1)) with 1. change (10 ^ 1) with 10. lia.
    + replace (Z.of_nat (S f) + 1) with ((Z.of_nat f + 1) + 1) in Hn by lia.
      rewrite pow10_succ in Hn by lia.
      assert (Hq : 0 < n / 10 < 10 ^ (Z.of_nat f + 1)).
      { split; [apply Z.div_str_pos; lia | apply Z.div_lt_upper_bound; lia]. }
      destruct (IH (n / 10) Hq) as (H1 & H2 & H3).
      set (d := ndigits_fuel f (n / 10)) in *.
      replace (1 + d - 1) with ((d - 1) + 1) by lia. replace (1 + d) with (d + 1) by lia.
      rewrite !pow10_succ by lia.
      pose proof (Z.div_mod n 10 ltac:(lia)). pose proof (Z.mod_pos_bound n 10 ltac:(lia)). lia.
Qed.

Lemma ndigits_pos_spec n : 0 < n ->
  1 <= ndigits n /\ 10 ^ (ndigits n - 1) <= n < 10 ^ ndigits n.
Proof.
  intro Hn. unfold ndigits. apply ndigits_fuel_spec. split; [exact Hn|].
  pose proof (Z.log2_nonneg n). rewrite Z2Nat.id by assumption.
  destruct (Z.log2_spec n Hn) as [_ Hlog]. unfold Z.succ in Hlog.
  eapply Z.lt_le_trans; [exact Hlog|]. apply Z.pow_le_mono_l. lia.
Qed.

Lemma pow10_unique n d d' : 1 <= d -> 1 <= d' ->
  10 ^ (d - 1) <= n < 10 ^ d -> 10 ^ (d' - 1) <= n < 10 ^ d' -> d = d'.
Proof.
  intros Hd Hd' [L U] [L' U'].
  destruct (Z.lt_trichotomy d d') as [H|[H|H]]; [|exact H|].
  - assert (10 ^ d <= 10 ^ (d' - 1)) by (apply Z.pow_le_mono_r; lia). lia.
  - assert (10 ^ d' <= 10 ^ (d - 1)) by (apply Z.pow_le_mono_r; lia). lia.
Qed.

Theorem ndigits_spec n : 0 <= n ->
  1 <= ndigits n /\ (n = 0 -> ndigits n = 1) /\ (0 < n -> 10 ^ (ndigits n - 1) <= n < 10 ^ ndigits n).
Proof.
  intro Hn. destruct (Z.eq_dec n 0) as [->|Hne].
  - repeat split; try reflexivity; lia.
  - destruct (ndigits_pos_spec n ltac:(lia)) as (H1 & H2). repeat split; try lia.
Qed.

Theorem ndigits_unique n d : 0 < n -> 1 <= d -> 10 ^ (d - 1) <= n < 10 ^ d -> ndigits n = d.
Proof.
  intros Hn Hd Hb. destruct (ndigits_pos_spec n Hn) as (H1 & H2).
  eapply pow10_unique; eauto.
Qed.

Lemma ndigits_between n d lo hi : lo = 10 ^ (d - 1) -> hi = 10 ^ d -> 1 <= d -> 0 < n -> lo <= n < hi ->
  ndigits n = d.
Proof. intros -> -> Hd Hn Hb. apply ndigits_unique; assumption. Qed.

Lemma ndigits_small n : 0 <= n < 10 -> ndigits n = 1.
Proof.
  intros [H0 H10]. destruct (Z.eq_dec n 0) as [->|Hne]; [reflexivity|].
  apply ndigits_unique; [lia|lia|]. change (10 ^ (1 - 1)) with 1. change (10 ^ 1) with 10. lia.
Qed.

(* ---------- Digits10 / DigitsSign10 ---------- *)

Lemma in_range_64 t v : in_range t v -> - 9223372036854775808 <= v < 18446744073709551616.
Proof. destruct t as [[] []]; unfold in_range; cbn; lia. Qed.

(* n := uint64(v); if v < 0 { n = uint64(-int64(v)) }  computes |v| *)
Lemma conv_chain v : - 9223372036854775808 <= v < 18446744073709551616 ->
  (if v <? 0 then conv_u64 (wrap_s 64 (- conv_i64 v)) else conv_u64 v) = Z.abs v.
Proof.
  intro R. unfold conv_u64, conv_i64, wrap_s, wrap_u.
  change (2 ^ (64 - 1)) with 9223372036854775808. change (2 ^ 64) with 18446744073709551616.
  destruct (Z.ltb_spec v 0) as [Hneg|Hpos].
  - rewrite (Z.mod_small (v + 9223372036854775808)) by lia.
    replace (v + 9223372036854775808 - 9223372036854775808) with v by lia.
    destruct (Z.eq_dec v (- 9223372036854775808)) as [->|Hne]; [reflexivity|].
    rewrite (Z.mod_small (- v + 9223372036854775808)) by lia.
    rewrite Z.mod_small by lia. lia.
  - rewrite Z.mod_small by lia. lia.
Qed.

Theorem digits10_correct t v : in_range t v -> digits10 t v = ndigits (Z.abs v).
Proof.
  intro R. unfold digits10. cbv zeta. rewrite (conv_chain v (in_range_64 t v R)).
  pose proof (in_range_64 t v R) as R64.
  assert (Hn : 0 <= Z.abs v < 18446744073709551616) by lia.
  set (n := Z.abs v) in *. clearbody n. clear R R64. symmetry.
  destruct (Z.ltb_spec n 10); [apply ndigits_small; lia|].
  destruct (Z.ltb_spec n 100); [apply (ndigits_between n 2 10 100); [reflexivity|reflexivity|lia|lia|lia]|].
  destruct (Z.ltb_spec n 1000); [apply (ndigits_between n 3 100 1000); [reflexivity|reflexivity|lia|lia|lia]|].
  destruct (Z.ltb_spec n 10000); [apply (ndigits_between n 4 1000 10000); [reflexivity|reflexivity|lia|lia|lia]|].
  destruct (Z.ltb_spec n 100000); [apply (ndigits_between n 5 10000 100000); [reflexivity|reflexivity|lia|lia|lia]|].
  destruct (Z.ltb_spec n 1000000); [apply (ndigits_between n 6 100000 1000000); [reflexivity|reflexivity|lia|lia|lia]|].
  destruct (Z.ltb_spec n 10000000); [apply (ndigits_between n 7 1000000 10000000); [reflexivity|reflexivity|lia|lia|lia]|].
  destruct (Z.ltb_spec n 100000000); [apply (ndigits_between n 8 10000000 100000000); [reflexivity|reflexivity|lia|lia|lia]|].
  destruct (Z.ltb_spec n 1000000000); [apply (ndigits_between n 9 100000000 1000000000); [reflexivity|reflexivity|lia|lia|lia]|].
  destruct (Z.ltb_spec n 10000000000); [apply (ndigits_between n 10 1000000000 10000000000); [reflexivity|reflexivity|lia|lia|lia]|].
  destruct (Z.ltb_spec n 100000000000); [apply (ndigits_between n 11 10000000000 100000000000); [reflexivity|reflexivity|lia|lia|lia]|].
  destruct (Z.ltb_spec n 1000000000000); [apply (ndigits_between n 12 100000000000 1000000000000); [reflexivity|reflexivity|lia|lia|lia]|].
  destruct (Z.ltb_spec n 10000000000000); [apply (ndigits_between n 13 1000000000000 10000000000000); [reflexivity|reflexivity|lia|lia|lia]|].
  destruct (Z.ltb_spec n 100000000000000); [apply (ndigits_between n 14 10000000000000 100000000000000); [reflexivity|reflexivity|lia|lia|lia]|].
  destruct (Z.ltb_spec n 1000000000000000); [apply (ndigits_between n 15 100000000000000 1000000000000000); [reflexivity|reflexivity|lia|lia|lia]|].
  destruct (Z.ltb_spec n 10000000000000000); [apply (ndigits_between n 16 1000000000000000 10000000000000000); [reflexivity|reflexivity|lia|lia|lia]|].
  destruct (Z.ltb_spec n 100000000000000000); [apply (ndigits_between n 17 10000000000000000 100000000000000000); [reflexivity|reflexivity|lia|lia|lia]|].
  destruct (Z.ltb_spec n 1000000000000000000); [apply (ndigits_between n 18 100000000000000000 1000000000000000000); [reflexivity|reflexivity|lia|lia|lia]|].
  destruct (Z.ltb_spec n 10000000000000000000); [apply (ndigits_between n 19 1000000000000000000 10000000000000000000); [reflexivity|reflexivity|lia|lia|lia]|].
  apply (ndigits_between n 20 10000000000000000000 100000000000000000000); [reflexivity|reflexivity|lia|lia|lia].
Qed.

Lemma neg_abs t v : in_range t v -> v < 0 -> Z.abs (neg_t t v) = Z.abs v.
Proof.
  intros R Hneg. destruct (iabs_correct t v R) as [H1 H2].
  assert (E : iabs t v = neg_t t v).
  { unfold iabs, gabs. destruct (Z.ltb_spec v 0); [reflexivity|lia]. }
  rewrite <- E. destruct (Z.eq_dec v (min_of t)) as [Hmin|Hne].
  - destruct (signed t) eqn:Hs.
    + rewrite H2; auto.
    + rewrite H1 by auto. lia.
  - rewrite H1 by auto. lia.
Qed.

Theorem digitssign10_correct t v : in_range t v ->
  digitssign10 t v = ndigits (Z.abs v) + (if v <? 0 then 1 else 0).
Proof.
  intro R. unfold digitssign10. destruct (Z.ltb_spec v 0) as [Hneg|Hpos].
  - rewrite digits10_correct by apply wrap_in_range. rewrite neg_abs by assumption. reflexivity.
  - rewrite digits10_correct by assumption. lia.
Qed.

Theorem digits_correct t v : in_range t v ->
  digits10 t v = ndigits (Z.abs v) /\
  digitssign10 t v = ndigits (Z.abs v) + (if v <? 0 then 1 else 0).
Proof. intro R. split; [apply digits10_correct | apply digitssign10_correct]; exact R. Qed.

(* ---------- util.go ---------- *)

Section UtilProofs.
Context {A : Type} (eqb : A -> A -> bool) (zero : A).

Theorem coal_correct values :
  (exists pre post, values = pre ++ coal eqb zero values :: post /\
     (forall x, In x pre -> eqb x zero = true) /\ eqb (coal eqb zero values) zero = false) \/
  ((forall x, In x values -> eqb x zero = true) /\ coal eqb zero values = zero).
Proof.
  induction values as [|v rest IH]; cbn [coal].
  - right. split; [intros x []|reflexivity].
  - destruct (eqb v zero) eqn:E; cbn [negb].
    + destruct IH as [(pre & post & Hv & Hpre & Hr)|(Hall & Hr)].
      * left. exists (v :: pre), post. split; [cbn; congruence|]. split; [|exact Hr].
        intros x [<-|Hx]; auto.
      * right. split; [|exact Hr]. intros x [<-|Hx]; auto.
    + left. exists [], rest. split; [reflexivity|]. split; [intros x []|exact E].
Qed.

Theorem misc_correct :
  zero_ zero = zero /\
  (forall v, zero_of zero v = zero) /\
  (forall meth v, eqb v zero = true -> is_zero eqb zero meth v = true) /\
  (forall m v, eqb v zero = false -> is_zero eqb zero (Some m) v = m v) /\
  (forall v, eqb v zero = false -> is_zero eqb zero None v = false) /\
  (forall a b : A, tern true a b = a /\ tern false a b = b) /\
  (forall v : A, deref_zero zero (ref v) = v) /\
  deref_zero zero None = zero.
Proof.
  unfold is_zero. repeat split; try reflexivity.
  - intros meth v ->. reflexivity.
  - intros m v ->. reflexivity.
  - intros v ->. reflexivity.
Qed.
End UtilProofs.

Theorem iface_correct {P : Type} :
  (* IsNil: only the nil interface; a concrete value (nil pointer included) is never nil *)
  is_nil (OfIface (None : iface P)) = true /\
  (forall dyn (p : P), is_nil (OfIface (Some (dyn, p))) = false) /\
  (forall dyn (p : P), is_nil (OfConcrete dyn p) = false) /\
  (* TernCast *)
  (forall tT value (ifFalse : P), tern_cast tT false value ifFalse = Ok ifFalse) /\
  (forall tT (p ifFalse : P), tern_cast tT true (Some (tT, p)) ifFalse = Ok p) /\
  (forall tT dyn (p ifFalse : P), dyn <> tT -> tern_cast tT true (Some (dyn, p)) ifFalse = Panic OtherPanic) /\
  (forall tT (ifFalse : P), tern_cast tT true None ifFalse = Panic OtherPanic).
Proof.
  repeat split.
  - intros tT p ifFalse. cbn. rewrite Z.eqb_refl. reflexivity.
  - intros tT dyn p ifFalse H. cbn. apply Z.eqb_neq in H. rewrite H. reflexivity.
Qed.

(* ---------- typed integer statements: arguments of type t give a result of type t ---------- *)

Theorem imin_typed t v : v <> [] -> Forall (in_range t) v ->
  exists r, imin t v = Ok r /\ In r v /\ in_range t r /\ forall x, In x v -> r <= x.
Proof.
  intros Hne Hall. destruct (imin_correct t v Hne) as (r & E & Hin & Hle).
  exists r. repeat split; auto; apply (proj1 (Forall_forall _ _) Hall r Hin).
Qed.

Theorem imax_typed t v : v <> [] -> Forall (in_range t) v ->
  exists r, imax t v = Ok r /\ In r v /\ in_range t r /\ forall x, In x v -> x <= r.
Proof.
  intros Hne Hall. destruct (imax_correct t v Hne) as (r & E & Hin & Hle).
  exists r. repeat split; auto; apply (proj1 (Forall_forall _ _) Hall r Hin).
Qed.

Theorem iclamp_typed t v lo hi : in_range t v -> in_range t lo -> in_range t hi -> lo <= hi ->
  iclamp t v lo hi = (if v <? lo then lo else if hi <? v then hi else v) /\
  iclamp t v lo hi = Z.max lo (Z.min v hi) /\
  (lo <= v <= hi -> iclamp t v lo hi = v) /\
  (v < lo -> iclamp t v lo hi = lo) /\
  (hi < v -> iclamp t v lo hi = hi) /\
  lo <= iclamp t v lo hi <= hi /\
  in_range t (iclamp t v lo hi).
Proof.
  intros Rv Rlo Rhi H. destruct (iclamp_correct t v lo hi H) as (H1 & H2 & H3 & H4 & H5 & H6).
  repeat split; auto; unfold in_range in *; lia.
Qed.

Theorem iclamp01_typed t v : in_range t v ->
  iclamp01 t v = iclamp t v 0 1 /\
  iclamp01 t v = (if v <? 0 then 0 else if 1 <? v then 1 else v) /\
  in_range t (iclamp01 t v).
Proof.
  intro R. split; [reflexivity|]. split; [reflexivity|].
  pose proof (in_range_0 t) as R0. pose proof (in_range_1 t) as R1.
  unfold iclamp01, clamp01. destruct (v <? 0); [exact R0|]. destruct (1 <? v); [exact R1|exact R].
Qed.

Theorem icompare_typed t a b :
  icompare t a b = match a ?= b with Lt => -1 | Eq => 0 | Gt => 1 end /\
  (iless t a b = true <-> a < b) /\
  (icompare t a b = 0 <-> a = b) /\ (icompare t a b = -1 <-> a < b) /\ (icompare t a b = 1 <-> b < a).
Proof.
  destruct (icompare_less_correct t a b) as [E L]. split; [exact E|]. split; [exact L|].
  rewrite E. destruct (Z.compare_spec a b); repeat split; intros; try lia; try discriminate.
Qed.

(* ---------- Abs over an ordered carrier with negation (floats without NaN) ---------- *)

Section AbsProofs.
Context {A : Type} (ltb : A -> A -> bool) (neg : A -> A) (zero : A).
Hypothesis neg_of_negative : forall v, ltb v zero = true -> ltb (neg v) zero = false.

Theorem gabs_correct v :
  (ltb v zero = true -> gabs ltb neg zero v = neg v) /\
  (ltb v zero = false -> gabs ltb neg zero v = v) /\
  ltb (gabs ltb neg zero v) zero = false.
Proof.
  unfold gabs. destruct (ltb v zero) eqn:E; repeat split; auto; discriminate.
Qed.
End AbsProofs.

(* through the order preserving, negation-commuting code of the floats in Z: the magnitude *)
Theorem gabs_code v : gabs Z.ltb Z.opp 0 v = Z.abs v /\ (forall v', (v' <? 0) = true -> (- v' <? 0) = false).
Proof.
  split.
  - unfold gabs. destruct (Z.ltb_spec v 0); lia.
  - intros v'. rewrite Z.ltb_lt, Z.ltb_ge. lia.
Qed.

(* ---------- TernCast to an interface type ---------- *)

Theorem tern_cast_iface_correct {P : Type} (impl : Z -> bool) :
  (forall value (ifFalse : iface P), tern_cast_iface impl false value ifFalse = Ok ifFalse) /\
  (forall dyn (p : P) ifFalse, impl dyn = true -> tern_cast_iface impl true (Some (dyn, p)) ifFalse = Ok (Some (dyn, p))) /\
  (forall dyn (p : P) ifFalse, impl dyn = false -> tern_cast_iface impl true (Some (dyn, p)) ifFalse = Panic OtherPanic) /\
  (forall ifFalse : iface P, tern_cast_iface impl true None ifFalse = Panic OtherPanic).
Proof.
  repeat split.
  - intros dyn p ifFalse H. cbn. rewrite H. reflexivity.
  - intros dyn p ifFalse H. cbn. rewrite H. reflexivity.
Qed.
