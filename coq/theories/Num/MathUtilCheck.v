(* Correspondence check for C20.  One case = one function of math.go/util.go at
   one type, applied to many argument tuples (the exhaustive tables are large,
   so a case carries a whole block of calls), together with the results the
   real code returned.  [check_case] re-runs the model on every tuple and
   compares.  Definitions only.

   Argument tuples are either listed ([Each]) or given as a cartesian product
   of value lists / ranges ([Cross], first dimension slowest), which is how
   the harness enumerates "all values", "all pairs", "all triples".

   Observed results: [c_obs] lists, in call order, the values returned by the
   calls that returned (booleans as 0/1); [c_pan] lists (call index, kind) of
   the calls that panicked.

   Floats: the harness maps every non-NaN float64 to a Z by an order
   preserving, negation-commuting encoding (sign * magnitude bits, both zeros
   to 0); [f64_one] is the code of 1.0.  Strings: index in a sorted table of
   distinct strings ("" first).  Both use type [TO]. *)
From Typ Require Export Lib.Base Num.MathUtil.
Local Open Scope Z_scope.

Inductive fn :=
  | FMin | FMax | FClamp | FClamp01 | FSum | FProduct | FAbs | FDigits10 | FDigitsSign10
  | FCompare | FLess
  | FCoal | FZero | FZeroOf | FIsZero | FTern | FTernCast | FIsNil | FRef | FDerefZero
  | FIsZeroAny | FTernCastIface.

Inductive nty :=
  | TI (sg : bool) (w : Z)   (* integer type: signed?, width 8/16/32/64 *)
  | TO.                      (* ordered carrier through an order preserving encoding into Z: floats, strings *)

Inductive zs := L (l : list Z) | R (lo n : Z).  (* explicit list, or lo, lo+1, ..., lo+n-1 *)
Inductive args := Each (tuples : list (list Z)) | Cross (dims : list zs).

Record case := Case {
  c_fn : fn;
  c_ty : nty;
  c_args : args;
  c_obs : list Z;
  c_pan : list (Z * panic_kind)
}.

Definition f64_one : Z := 4607182418800017408. (* 0x3FF0000000000000 *)

Definition width_of (w : Z) : option width :=
  if w =? 8 then Some W8 else if w =? 16 then Some W16 else
  if w =? 32 then Some W32 else if w =? 64 then Some W64 else None.

Definition zs_list (d : zs) : list Z :=
  match d with
  | L l => l
  | R lo n => map (fun i => lo + Z.of_nat i) (seq 0 (Z.to_nat n))
  end.

Fixpoint cross (dims : list (list Z)) : list (list Z) :=
  match dims with
  | [] => [[]]
  | d :: ds => let rest := cross ds in flat_map (fun x => map (cons x) rest) d
  end.

Definition tuples_of (a : args) : list (list Z) :=
  match a with
  | Each ts => ts
  | Cross dims => cross (map zs_list dims)
  end.

Definition b2z (b : bool) : Z := if b then 1 else 0.
Definition z2b (z : Z) : bool := negb (z =? 0).

Definition pair_eqb (a b : Z * Z) : bool := prod_eqb Z.eqb Z.eqb a b.

(* util.go; T is an integer type (zero value 0) unless said otherwise *)
Definition run_util (f : fn) (tup : list Z) : option (result Z) :=
  match f, tup with
  | FZero, [] => Some (Ok (zero_ 0))
  | FZeroOf, [v] => Some (Ok (zero_of 0 v))
  (* kind 0: T = int-like, value v (z = 0); kind 1: T = struct{v; z} with method IsZero() = z *)
  | FIsZero, [kind; v; z] =>
      let meth := if kind =? 1 then Some (fun p : Z * Z => z2b (snd p)) else None in
      Some (Ok (b2z (is_zero pair_eqb (0, 0) meth (v, z))))
  | FTern, [cond; a; b] => Some (Ok (tern (z2b cond) a b))
  (* T = dynamic type number 1; dyn = 0 is the nil interface *)
  | FTernCast, [cond; dyn; payload; ifFalse] =>
      let value := if dyn =? 0 then None else Some (dyn, payload) in
      Some (tern_cast 1 (z2b cond) value ifFalse)
  (* kind 1: T is the concrete type dyn (payload 0 = nil pointer, nil slice, ...);
     otherwise T is an interface type (any, error) and dyn = 0 is its nil value *)
  | FIsNil, [kind; dyn; payload] =>
      let value := if kind =? 1 then OfConcrete dyn payload
                   else OfIface (if dyn =? 0 then None else Some (dyn, payload)) in
      Some (Ok (b2z (is_nil value)))
  | FRef, [v] => Some (Ok (deref_zero 0 (ref v)))            (* observed: *Ref(v) *)
  (* IsZero[any]: the value is an interface (dyn = 0: nil); its payload is (v, z).  Dynamic types 2 and 4
     have an IsZero method (2: returns z, 4: returns true); the others (1 int, 3 a slice: not comparable) have none. *)
  | FIsZeroAny, [dyn; v; z] =>
      let value : iface (Z * Z) := if dyn =? 0 then None else Some (dyn, (v, z)) in
      let meth := if dyn =? 2 then Some (fun i : iface (Z * Z) => match i with Some (_, p) => z2b (snd p) | None => false end)
                  else if dyn =? 4 then Some (fun _ : iface (Z * Z) => true) else None in
      let eqb (a b : iface (Z * Z)) := option_eqb (prod_eqb Z.eqb pair_eqb) a b in
      Some (Ok (b2z (is_zero eqb None meth value)))
  (* TernCast[T], T an interface type: tkind 0 = any (every dynamic type implements it), 1 = error (only
     dynamic type 7 does).  Interface values are coded dyn * 100 + payload (0 <= payload < 100), nil = 0. *)
  | FTernCastIface, [tkind; cond; dyn; payload; ifFalse] =>
      let impl := if tkind =? 0 then (fun _ : Z => true) else (fun d : Z => d =? 7) in
      let dec (x : Z) : iface Z := if x =? 0 then None else Some (x / 100, x mod 100) in
      let enc (i : iface Z) : Z := match i with None => 0 | Some (d, p) => d * 100 + p end in
      let value : iface Z := if dyn =? 0 then None else Some (dyn, payload) in
      Some (match tern_cast_iface impl (z2b cond) value (dec ifFalse) with Ok i => Ok (enc i) | Panic k => Panic k end)
  | FDerefZero, [isnil; v] => Some (Ok (deref_zero 0 (if z2b isnil then None else Some v)))
  | _, _ => None
  end.

Definition run_int (f : fn) (t : ity) (tup : list Z) : option (result Z) :=
  if negb (forallb (in_rangeb t) tup) then None else
  match f, tup with
  | FMin, vs => Some (imin t vs)
  | FMax, vs => Some (imax t vs)
  | FClamp, [v; lo; hi] => Some (Ok (iclamp t v lo hi))
  | FClamp01, [v] => Some (Ok (iclamp01 t v))
  | FSum, vs => Some (Ok (sum t vs))
  | FProduct, vs => Some (Ok (product t vs))
  | FAbs, [v] => Some (Ok (iabs t v))
  | FDigits10, [v] => Some (Ok (digits10 t v))
  | FDigitsSign10, [v] => Some (Ok (digitssign10 t v))
  | FCompare, [a; b] => Some (Ok (icompare t a b))
  | FLess, [a; b] => Some (Ok (b2z (iless t a b)))
  | FCoal, vs => Some (Ok (coal Z.eqb 0 vs))
  | _, _ => None
  end.

Definition run_ord (f : fn) (tup : list Z) : option (result Z) :=
  match f, tup with
  | FMin, vs => Some (gmin Z.ltb vs)
  | FMax, vs => Some (gmax Z.ltb vs)
  | FClamp, [v; lo; hi] => Some (Ok (clamp Z.ltb v lo hi))
  | FClamp01, [v] => Some (Ok (clamp01 Z.ltb 0 f64_one v))
  | FAbs, [v] => Some (Ok (gabs Z.ltb Z.opp 0 v))
  | FCompare, [a; b] => Some (Ok (compare Z.ltb a b))
  | FLess, [a; b] => Some (Ok (b2z (less Z.ltb a b)))
  | FCoal, vs => Some (Ok (coal Z.eqb 0 vs))   (* the zero value (0.0, -0.0, "") has code 0 *)
  | _, _ => None
  end.

Definition is_util (f : fn) : bool :=
  match f with
  | FZero | FZeroOf | FIsZero | FTern | FTernCast | FIsNil | FRef | FDerefZero
  | FIsZeroAny | FTernCastIface => true
  | _ => false
  end.

Definition run1 (f : fn) (ty : nty) (tup : list Z) : option (result Z) :=
  if is_util f then run_util f tup else
  match ty with
  | TI sg w => match width_of w with Some w' => run_int f (ITy sg w') tup | None => None end
  | TO => run_ord f tup
  end.

(* returned values in order; (index, kind) of the panicking calls; None if any tuple is malformed *)
Fixpoint collect (i : Z) (rs : list (option (result Z))) : option (list Z * list (Z * panic_kind)) :=
  match rs with
  | [] => Some ([], [])
  | None :: _ => None
  | Some r :: rs' =>
      match collect (i + 1) rs' with
      | None => None
      | Some (vs, ps) =>
          match r with
          | Ok v => Some (v :: vs, ps)
          | Panic k => Some (vs, (i, k) :: ps)
          end
      end
  end.

(* Calls the property says nothing about are not compared: Clamp(v, lo, hi) with hi < lo.  The harness leaves
   their results out of [c_obs]/[c_pan] (indices count the compared calls only); the model skips the same
   tuples.  (All carriers are coded order preservingly in Z, so [hi <? lo] is the order of the type.) *)
Definition compared (f : fn) (tup : list Z) : bool :=
  match f, tup with
  | FClamp, [_; lo; hi] => negb (hi <? lo)
  | _, _ => true
  end.

Definition run_case (c : case) : option (list Z * list (Z * panic_kind)) :=
  collect 0 (map (run1 (c_fn c) (c_ty c)) (filter (compared (c_fn c)) (tuples_of (c_args c)))).

(* TernCast panics through a failed type assertion: only "panicked / did not panic" is compared for it, not
   the kind the harness derives from the panic value. *)
Definition pan_eqb (f : fn) (a b : Z * panic_kind) : bool :=
  match f with
  | FTernCast | FTernCastIface => fst a =? fst b
  | _ => prod_eqb Z.eqb panic_kind_eqb a b
  end.

Definition check_case (c : case) : bool :=
  match run_case c with
  | None => false
  | Some (vs, ps) =>
      list_eqb Z.eqb vs (c_obs c) && list_eqb (pan_eqb (c_fn c)) ps (c_pan c)
  end.
