(* Sequence semantics of container/list as documented ("if mark is not an
   element of l, the list is not modified", ...): the specification the
   pointer model of lists.List is proved to refine. Definitions only.

   Abstract state: per list its sentinel cell and, once initialised, the
   sequence of its elements (cell ids, front to back); the value of every cell
   ever allocated (cells are never freed; a fresh cell gets id = number of
   cells so far, exactly like the heap of the model, so that handles of the
   two sides are the same numbers). *)
From Typ Require Export Lib.Base Lists.Heap Lists.ListModel.

Record astate := AState {
  a_lists : list (nat * option (list nat));   (* (root cell, None = zero value | Some sequence) *)
  a_vals : list Z
}.

Definition a_seq (a : astate) (l : nat) : list nat :=
  match nth_error (a_lists a) l with Some (_, Some xs) => xs | _ => [] end.
Definition fresh (a : astate) : nat := length (a_vals a).
Definition a_val (a : astate) (e : nat) : Z := nth e (a_vals a) 0%Z.
Definition a_set (a : astate) (l : nat) (xs : list nat) : astate :=
  AState (map_nth (fun x => (fst x, Some xs)) l (a_lists a)) (a_vals a).
Definition a_alloc (a : astate) (v : Z) : astate := AState (a_lists a) (a_vals a ++ [v]).
Definition a_newlist (a : astate) (o : option (list nat)) : astate :=
  AState (a_lists a ++ [(fresh a, o)]) (a_vals a ++ [0%Z]).

Definition mem (e : nat) (xs : list nat) : bool := existsb (Nat.eqb e) xs.

(* ---- sequence surgery ---- *)
Fixpoint ins_after (m e : nat) (xs : list nat) : list nat :=
  match xs with
  | [] => []
  | x :: t => if Nat.eqb x m then x :: e :: t else x :: ins_after m e t
  end.
Fixpoint ins_before (m e : nat) (xs : list nat) : list nat :=
  match xs with
  | [] => []
  | x :: t => if Nat.eqb x m then e :: x :: t else x :: ins_before m e t
  end.
Fixpoint rem (e : nat) (xs : list nat) : list nat :=
  match xs with
  | [] => []
  | x :: t => if Nat.eqb x e then rem e t else x :: rem e t
  end.
Fixpoint succ_in (e : nat) (xs : list nat) : ptr :=
  match xs with
  | [] => None
  | x :: t => if Nat.eqb x e then head t else succ_in e t
  end.
Fixpoint pred_from (p : ptr) (e : nat) (xs : list nat) : ptr :=
  match xs with
  | [] => None
  | x :: t => if Nat.eqb x e then p else pred_from (Some x) e t
  end.
Definition pred_in (e : nat) (xs : list nat) : ptr := pred_from None e xs.
Definition last_opt (xs : list nat) : ptr :=
  match xs with [] => None | x :: t => Some (last t x) end.

(* the sequence that contains e, if any (e.list) *)
Fixpoint owner_seq (ls : list (nat * option (list nat))) (e : nat) : option (list nat) :=
  match ls with
  | [] => None
  | (_, Some xs) :: t => if mem e xs then Some xs else owner_seq t e
  | (_, None) :: t => owner_seq t e
  end.

(* ---- the representation invariant: when does a heap of the pointer model represent an abstract state ---- *)

(* the heap seen as functions: next / prev / list / Value field of cell j (nil / 0 outside the heap) *)
Definition size (s : state) : nat := length (elems s).

Definition proj {A} (g : elem -> A) (d : A) (s : state) (j : nat) : A :=
  match nth_error (elems s) j with Some c => g c | None => d end.

Definition nx := proj e_next None.
Definition pv := proj e_prev None.
Definition ow := proj e_list None.
Definition vl := proj e_val 0%Z.


(* a -> x1 -> ... -> xn -> b linked both ways; the list of a List is [chain root xs root] *)
Fixpoint chain (nx pv : nat -> ptr) (a : nat) (xs : list nat) (b : nat) : Prop :=
  match xs with
  | [] => nx a = Some b /\ pv b = Some a
  | x :: t => nx a = Some x /\ pv x = Some a /\ chain nx pv x t b
  end.


Definition alen (o : option (list nat)) : Z :=
  match o with None => 0%Z | Some xs => Z.of_nat (length xs) end.
Definition is_root (a : astate) (e : nat) : Prop := In e (map fst (a_lists a)).

(* [Rep s a]: the heap s represents the abstract state a.
   - every list record points to its sentinel cell and stores the length of its sequence;
   - sentinels are distinct cells that belong to no list;
   - a zero-value list has nil links in its sentinel;
   - an initialised list is a chain sentinel -> xs -> sentinel linked both ways, xs has no
     repetition, and exactly the members of xs have Element.list = this list;
   - a cell that is in no list (removed, or never inserted) and is no sentinel has nil links. *)
Record Rep (s : state) (a : astate) : Prop := {
  R_vals : size s = length (a_vals a) /\ forall j, j < size s -> nth_error (a_vals a) j = Some (vl s j);
  R_lsts : length (lsts s) = length (a_lists a) /\
           forall l r o, nth_error (a_lists a) l = Some (r, o) -> nth_error (lsts s) l = Some (LRec r (alen o));
  R_roots : NoDup (map fst (a_lists a)) /\ forall e, is_root a e -> e < size s /\ ow s e = None;
  R_uninit : forall l r, nth_error (a_lists a) l = Some (r, None) -> nx s r = None /\ pv s r = None;
  R_init : forall l r xs, nth_error (a_lists a) l = Some (r, Some xs) ->
           chain (nx s) (pv s) r xs r /\ NoDup xs /\ forall e, In e xs -> ow s e = Some l;
  R_own : forall e l, ow s e = Some l -> exists r xs, nth_error (a_lists a) l = Some (r, Some xs) /\ In e xs;
  R_free : forall e, ow s e = None -> ~ is_root a e -> nx s e = None /\ pv s e = None
}.


(* ---- the operations ---- *)
Definition sret (a : astate) (h : list nat) (p : ptr) : lout * astate * list nat :=
  (OPtr p, a, add_handle h p).
Definition spanic (a : astate) (h : list nat) : lout * astate * list nat := (OPanic NilDeref, a, h).

(* copies of the cells ys appended to the heap: their ids *)
Definition copies (a : astate) (ys : list nat) : list nat := seq (fresh a) (length ys).
Definition a_alloc_copies (a : astate) (ys : list nat) : astate :=
  AState (a_lists a) (a_vals a ++ map (a_val a) ys).

Definition spec_exec (op : lop) (a : astate) (h : list nat) : lout * astate * list nat :=
  let L := Z.to_nat in
  match op with
  | LNew => (OInt (Z.of_nat (length (a_lists a))), a_newlist a None, h)
  | LNewInit => (OInt (Z.of_nat (length (a_lists a))), a_newlist a (Some []), h)
  | LElem v => sret (a_alloc a v) h (Some (fresh a))
  | LInit l => (OUnit, a_set a (L l) [], h)
  | LLen l => (OInt (Z.of_nat (length (a_seq a (L l)))), a, h)
  | LFront l => sret a h (head (a_seq a (L l)))
  | LBack l => sret a h (last_opt (a_seq a (L l)))
  | LPushFront l v => sret (a_set (a_alloc a v) (L l) (fresh a :: a_seq a (L l))) h (Some (fresh a))
  | LPushBack l v => sret (a_set (a_alloc a v) (L l) (a_seq a (L l) ++ [fresh a])) h (Some (fresh a))
  | LInsertBefore l v m =>
      match hnd h m with
      | None => spanic a h
      | Some m0 =>
          if mem m0 (a_seq a (L l))
          then sret (a_set (a_alloc a v) (L l) (ins_before m0 (fresh a) (a_seq a (L l)))) h (Some (fresh a))
          else sret a h None
      end
  | LInsertAfter l v m =>
      match hnd h m with
      | None => spanic a h
      | Some m0 =>
          if mem m0 (a_seq a (L l))
          then sret (a_set (a_alloc a v) (L l) (ins_after m0 (fresh a) (a_seq a (L l)))) h (Some (fresh a))
          else sret a h None
      end
  | LRemove l e =>
      match hnd h e with
      | None => spanic a h
      | Some e0 =>
          (OInt (a_val a e0),
           if mem e0 (a_seq a (L l)) then a_set a (L l) (rem e0 (a_seq a (L l))) else a, h)
      end
  | LMoveToFront l e =>
      match hnd h e with
      | None => spanic a h
      | Some e0 =>
          (OUnit, if mem e0 (a_seq a (L l)) then a_set a (L l) (e0 :: rem e0 (a_seq a (L l))) else a, h)
      end
  | LMoveToBack l e =>
      match hnd h e with
      | None => spanic a h
      | Some e0 =>
          (OUnit, if mem e0 (a_seq a (L l)) then a_set a (L l) (rem e0 (a_seq a (L l)) ++ [e0]) else a, h)
      end
  | LMoveBefore l e m =>
      match hnd h e with
      | None => spanic a h
      | Some e0 =>
          if negb (mem e0 (a_seq a (L l))) then (OUnit, a, h) else
          if ptr_eqb (Some e0) (hnd h m) then (OUnit, a, h) else
          match hnd h m with
          | None => spanic a h
          | Some m0 =>
              (OUnit, if mem m0 (a_seq a (L l))
                      then a_set a (L l) (ins_before m0 e0 (rem e0 (a_seq a (L l)))) else a, h)
          end
      end
  | LMoveAfter l e m =>
      match hnd h e with
      | None => spanic a h
      | Some e0 =>
          if negb (mem e0 (a_seq a (L l))) then (OUnit, a, h) else
          if ptr_eqb (Some e0) (hnd h m) then (OUnit, a, h) else
          match hnd h m with
          | None => spanic a h
          | Some m0 =>
              (OUnit, if mem m0 (a_seq a (L l))
                      then a_set a (L l) (ins_after m0 e0 (rem e0 (a_seq a (L l)))) else a, h)
          end
      end
  | LPushBackList l o =>
      let ys := a_seq a (L o) in
      (OUnit, a_set (a_alloc_copies a ys) (L l) (a_seq a (L l) ++ copies a ys), h)
  | LPushFrontList l o =>
      let ys := a_seq a (L o) in
      (* the copies are made back to front, so the last element's copy has the smallest id *)
      (OUnit, a_set (a_alloc_copies a (rev ys)) (L l) (rev (copies a ys) ++ a_seq a (L l)), h)
  | LNext e =>
      match hnd h e with
      | None => spanic a h
      | Some e0 => sret a h (match owner_seq (a_lists a) e0 with Some xs => succ_in e0 xs | None => None end)
      end
  | LPrev e =>
      match hnd h e with
      | None => spanic a h
      | Some e0 => sret a h (match owner_seq (a_lists a) e0 with Some xs => pred_in e0 xs | None => None end)
      end
  end.

(* The sequence semantics covers histories in which every list index names an
   existing list and Init is only applied to an empty list. (Init of a
   non-empty list leaves its former elements believing they still belong to
   it, in container/list just as in the fork; that behaviour is covered by the
   lock-step comparison only.) *)
Definition spec_ok (op : lop) (a : astate) : bool :=
  let L := Z.to_nat in
  let n := length (a_lists a) in
  match op with
  | LNew | LNewInit | LElem _ | LNext _ | LPrev _ => true
  | LInit l => (L l <? n) && match a_seq a (L l) with [] => true | _ => false end
  | LPushBackList l o | LPushFrontList l o => (L l <? n) && (L o <? n)
  | LLen l | LFront l | LBack l | LPushFront l _ | LPushBack l _
  | LInsertBefore l _ _ | LInsertAfter l _ _ | LRemove l _
  | LMoveToFront l _ | LMoveToBack l _ | LMoveBefore l _ _ | LMoveAfter l _ _ => L l <? n
  end.

Definition init_astate : astate := AState [] [].

(* outputs, final abstract state, and whether every operation was covered *)
Fixpoint spec_run_from (a : astate) (h : list nat) (ops : list lop) : list lout * astate * list nat * bool :=
  match ops with
  | [] => ([], a, h, true)
  | op :: ops' =>
      let '(o, a1, h1) := spec_exec op a h in
      let '(os, a2, h2, ok) := spec_run_from a1 h1 ops' in
      (o :: os, a2, h2, spec_ok op a && ok)
  end.

Definition spec_run (ops : list lop) := spec_run_from init_astate [] ops.
