(* Cycle semantics of container/ring as documented: the initialised ring nodes
   are partitioned into cyclic sequences; a zero Ring is a one-element ring as
   soon as it is used. This is the specification the pointer model of
   lists.Ring is proved to refine. Definitions only. *)
From Typ Require Export Lib.Base Lists.Heap Lists.RingModel Lists.ListSpec.

(* abstract state: the cycles (each written from an arbitrary starting node, in
   Next order), and the Value of every node ever allocated; a node that is in no
   cycle is a zero Ring that was never used *)
Record rastate := RA { ra_cycles : list (list nat); ra_vals : list Z }.

Definition rfresh (a : rastate) : nat := length (ra_vals a).
Definition ra_val (a : rastate) (i : nat) : Z := nth i (ra_vals a) 0%Z.

(* c = pre ++ x :: post with x not in pre *)
Fixpoint split_at (x : nat) (c : list nat) : option (list nat * list nat) :=
  match c with
  | [] => None
  | y :: t =>
      if Nat.eqb y x then Some ([], t)
      else match split_at x t with Some (p, q) => Some (y :: p, q) | None => None end
  end.

(* the same cycle written starting at x *)
Definition rot_to (x : nat) (c : list nat) : option (list nat) :=
  match split_at x c with Some (pre, post) => Some (x :: post ++ pre) | None => None end.

(* the cycle of x (written starting at x) and the other cycles *)
Fixpoint extract (x : nat) (cs : list (list nat)) : option (list nat * list (list nat)) :=
  match cs with
  | [] => None
  | c :: t =>
      match rot_to x c with
      | Some c' => Some (c', t)
      | None => match extract x t with Some (c', t') => Some (c', c :: t') | None => None end
      end
  end.

(* ... where a node that is in no cycle yet (zero Ring) is the one-element ring *)
Definition ext (cs : list (list nat)) (x : nat) : list nat * list (list nat) :=
  match extract x cs with Some p => p | None => ([x], cs) end.

(* successor / predecessor of the first node of a cycle *)
Definition c_next (c : list nat) (x : nat) : nat := hd x (tl c).
Definition c_prev (c : list nat) (x : nat) : nat := last (tl c) x.

(* successor / predecessor of any node within the partition *)
Definition a_succ (cs : list (list nat)) (x : nat) : nat := c_next (fst (ext cs x)) x.
Definition a_pred (cs : list (list nat)) (x : nat) : nat := c_prev (fst (ext cs x)) x.

Definition cons_ne (c : list nat) (cs : list (list nat)) : list (list nat) :=
  match c with [] => cs | _ => c :: cs end.

(* the relinking of Link r s (both nodes in the partition) *)
Definition a_link (cs : list (list nat)) (r s : nat) : list (list nat) :=
  let (c, rest) := ext cs r in
  let A := tl c in
  if Nat.eqb s r then [r] :: cons_ne A rest
  else match split_at s A with
       | Some (A1, B) => (r :: s :: B) :: cons_ne A1 rest          (* same ring: A1 is cut out *)
       | None => let (c2, rest2) := ext rest s in (r :: c2 ++ A) :: rest2   (* different rings: spliced *)
       end.

Definition a_touch (cs : list (list nat)) (x : nat) : list (list nat) :=
  let (c, rest) := ext cs x in c :: rest.

(* r.Link(s), s non-nil: r.Next() and s.Prev() first make zero Rings one-element rings *)
Definition a_Link (cs : list (list nat)) (r s : nat) : list (list nat) :=
  a_link (a_touch (a_touch cs r) s) r s.

Definition a_move (cs : list (list nat)) (r : nat) (n : Z) : nat :=
  if (n <? 0)%Z then Nat.iter (Z.to_nat (- n)) (a_pred cs) r
  else Nat.iter (Z.to_nat n) (a_succ cs) r.

Definition rs_ret (a : rastate) (h : list nat) (p : ptr) : rout * rastate * list nat :=
  (ROPtr p, a, radd_handle h p).
Definition rs_panic (a : rastate) (h : list nat) : rout * rastate * list nat := (ROPanic NilDeref, a, h).

Fixpoint zseq (v : Z) (n : nat) : list Z :=
  match n with O => [] | S n' => v :: zseq (v + 1)%Z n' end.

Definition rspec_exec (op : rop) (a : rastate) (h : list nat) : rout * rastate * list nat :=
  let cs := ra_cycles a in
  let vs := ra_vals a in
  match op with
  | RZero v => rs_ret (RA cs (vs ++ [v])) h (Some (rfresh a))
  | RNew n v0 =>
      if (n <=? 0)%Z then rs_ret a h None
      else rs_ret (RA (seq (rfresh a) (Z.to_nat n) :: cs) (vs ++ zseq v0 (Z.to_nat n))) h (Some (rfresh a))
  | RNext r =>
      match rhnd h r with
      | None => rs_panic a h
      | Some r0 => rs_ret (RA (a_touch cs r0) vs) h (Some (a_succ cs r0))
      end
  | RPrev r =>
      match rhnd h r with
      | None => rs_panic a h
      | Some r0 => rs_ret (RA (a_touch cs r0) vs) h (Some (a_pred cs r0))
      end
  | RMove r n =>
      match rhnd h r with
      | None => rs_panic a h
      | Some r0 => rs_ret (RA (a_touch cs r0) vs) h (Some (a_move (a_touch cs r0) r0 n))
      end
  | RLink r s =>
      match rhnd h r with
      | None => rs_panic a h
      | Some r0 =>
          match rhnd h s with
          | None => rs_ret (RA (a_touch cs r0) vs) h (Some (a_succ cs r0))
          | Some s0 => rs_ret (RA (a_Link cs r0 s0) vs) h (Some (a_succ cs r0))
          end
      end
  | RUnlink r n =>
      if (n <=? 0)%Z then rs_ret a h None else
      match rhnd h r with
      | None => rs_panic a h
      | Some r0 =>
          let cs1 := a_touch cs r0 in
          let m := a_move cs1 r0 (n + 1) in
          rs_ret (RA (a_Link cs1 r0 m) vs) h (Some (a_succ cs1 r0))
      end
  | RLen r =>
      match rhnd h r with
      | None => (ROInt 0, a, h)
      | Some r0 => (ROInt (Z.of_nat (length (fst (ext cs r0)))), RA (a_touch cs r0) vs, h)
      end
  | RDo r =>
      match rhnd h r with
      | None => (ROSeq [], a, h)
      | Some r0 => (ROSeq (map (ra_val a) (fst (ext cs r0))), RA (a_touch cs r0) vs, h)
      end
  end.

Definition init_rastate : rastate := RA [] [].

Fixpoint rspec_run_from (a : rastate) (h : list nat) (ops : list rop) : list rout * rastate * list nat :=
  match ops with
  | [] => ([], a, h)
  | op :: ops' =>
      let '(o, a1, h1) := rspec_exec op a h in
      let '(os, a2, h2) := rspec_run_from a1 h1 ops' in
      (o :: os, a2, h2)
  end.

Definition rspec_run (ops : list rop) := rspec_run_from init_rastate [] ops.

(* ---- the representation invariant ---- *)
Definition rproj {A} (g : rcell -> A) (d : A) (h : rheap) (j : nat) : A :=
  match nth_error h j with Some c => g c | None => d end.
Definition rnx := rproj r_next None.
Definition rpv := rproj r_prev None.
Definition rvl := rproj r_val 0%Z.

(* [RRep h a]: every cycle x :: t of the partition is a chain x -> t -> x linked
   both ways (next and prev mutually inverse along it), no node occurs twice in
   the partition, every node of the partition is allocated, and an allocated
   node outside the partition is a zero Ring (nil links). *)
Record RRep (h : rheap) (a : rastate) : Prop := {
  RR_vals : length h = length (ra_vals a) /\ forall j, j < length h -> nth_error (ra_vals a) j = Some (rvl h j);
  RR_cyc : forall c, In c (ra_cycles a) -> exists x t, c = x :: t /\ chain (rnx h) (rpv h) x t x;
  RR_nodup : NoDup (concat (ra_cycles a));
  RR_alloc : forall j, In j (concat (ra_cycles a)) -> j < length h;
  RR_zero : forall j, ~ In j (concat (ra_cycles a)) -> rnx h j = None /\ rpv h j = None
}.
