(* Proofs about the model of lists.Ring (Lists/RingModel.v): it refines the
   cycle semantics of Lists/RingSpec.v. *)
From Typ Require Import Lib.Base Lists.Heap Lists.ListModel Lists.ListSpec Lists.ListProofs
  Lists.RingModel Lists.RingSpec.
From Coq Require Import Permutation.

(* ================= Part A: the heap as functions ================= *)

Lemma rproj_upd {A} (g : rcell -> A) d f h i j :
  rproj g d (map_nth f i h) j =
  if Nat.eqb j i then match nth_error h i with Some c => g (f c) | None => d end else rproj g d h j.
Proof.
  unfold rproj. rewrite nth_error_map_nth.
  destruct (Nat.eqb_spec j i) as [->|]; [|reflexivity].
  destruct (nth_error h i); reflexivity.
Qed.

Lemma rproj_out {A} (g : rcell -> A) d h j : length h <= j -> rproj g d h j = d.
Proof. intro H. unfold rproj. rewrite (proj2 (nth_error_None _ _)); auto. Qed.

Lemma rproj_in {A} (g : rcell -> A) d h j : rproj g d h j <> d -> j < length h.
Proof. intro H. destruct (Nat.lt_ge_cases j (length h)); auto. exfalso; apply H, rproj_out; auto. Qed.

Lemma rhupd_eq f (h : rheap) i : i < length h -> hupd h (Some i) f = Ok (map_nth f i h).
Proof.
  intro H. unfold hupd. destruct (nth_error h i) as [c|] eqn:E.
  - rewrite (replace_nth_map_nth f i _ c E). reflexivity.
  - apply nth_error_None in E. lia.
Qed.

Lemma rhget_eq (h : rheap) i : i < length h ->
  exists c, hget h (Some i) = Ok c /\ r_next c = rnx h i /\ r_prev c = rpv h i /\ r_val c = rvl h i.
Proof.
  intro H. unfold hget, rnx, rpv, rvl, rproj. destruct (nth_error h i) as [c|] eqn:E.
  - exists c. auto.
  - apply nth_error_None in E. lia.
Qed.

Section RUpd.
Variables (h : rheap) (i j : nat).
Hypothesis Hi : i < length h.
Local Ltac t := unfold rnx, rpv, rvl; rewrite rproj_upd;
  let c := fresh in let E := fresh in
  destruct (nth_error h i) as [c|] eqn:E;
  [ unfold rproj; destruct (Nat.eqb_spec j i) as [->|]; [rewrite ?E|]; reflexivity
  | apply nth_error_None in E; lia ].
Lemma rnx_set_next v : rnx (map_nth (set_rnext v) i h) j = if Nat.eqb j i then v else rnx h j. Proof. t. Qed.
Lemma rpv_set_next v : rpv (map_nth (set_rnext v) i h) j = rpv h j. Proof. t. Qed.
Lemma rvl_set_next v : rvl (map_nth (set_rnext v) i h) j = rvl h j. Proof. t. Qed.
Lemma rnx_set_prev v : rnx (map_nth (set_rprev v) i h) j = rnx h j. Proof. t. Qed.
Lemma rpv_set_prev v : rpv (map_nth (set_rprev v) i h) j = if Nat.eqb j i then v else rpv h j. Proof. t. Qed.
Lemma rvl_set_prev v : rvl (map_nth (set_rprev v) i h) j = rvl h j. Proof. t. Qed.
Lemma rnx_set_val v : rnx (map_nth (set_rval v) i h) j = rnx h j. Proof. t. Qed.
Lemma rpv_set_val v : rpv (map_nth (set_rval v) i h) j = rpv h j. Proof. t. Qed.
Lemma rvl_set_val v : rvl (map_nth (set_rval v) i h) j = if Nat.eqb j i then v else rvl h j. Proof. t. Qed.
End RUpd.

Ltac rsize_tac := rewrite ?length_map_nth; first [assumption | lia].
#[export] Hint Rewrite @length_map_nth : rheap.
#[export] Hint Rewrite rnx_set_next rpv_set_next rvl_set_next rnx_set_prev rpv_set_prev rvl_set_prev
  rnx_set_val rpv_set_val rvl_set_val using rsize_tac : rheap.

Lemma rproj_alloc {A} (g : rcell -> A) d (h : rheap) c j :
  rproj g d (h ++ [c]) j = if Nat.eqb j (length h) then g c else rproj g d h j.
Proof. unfold rproj. rewrite nth_error_alloc. destruct (Nat.eqb j (length h)); reflexivity. Qed.

(* ================= Part B: more on chains ================= *)

(* redirect the closing link of a chain *)
Lemma chain_retarget nx pv nx' pv' a xs b b' :
  chain nx pv a xs b -> NoDup (a :: xs) ->
  (forall x, x = a \/ In x xs -> x <> last xs a -> nx' x = nx x) ->
  (forall x, In x xs -> pv' x = pv x) ->
  nx' (last xs a) = Some b' -> pv' b' = Some (last xs a) ->
  chain nx' pv' a xs b'.
Proof.
  revert a; induction xs as [|x t IH]; intros a C D Hn Hp En Ep.
  - simpl in *. auto.
  - destruct C as (C1 & C2 & C3). rewrite last_cons in *.
    pose proof D as D0. apply NoDup_cons_iff in D as [Na D].
    cbn [chain]. repeat split.
    + rewrite Hn; auto. intros E. apply Na. rewrite E.
      destruct (last_in_or x t) as [[-> _]|I]; simpl; auto.
    + rewrite Hp; simpl; auto.
    + apply IH; auto.
      * intros y Hy Ny. apply Hn; auto. simpl. destruct Hy; auto.
      * intros y Hy. apply Hp. simpl; auto.
Qed.

Lemma chain_rotate nx pv x p q :
  chain nx pv x (p ++ q) x -> forall y t, q = y :: t -> chain nx pv y (t ++ x :: p) y.
Proof.
  intros C y t ->. apply chain_app in C as [C1 C2]. apply chain_app. auto.
Qed.

Lemma chain_In_lt nx pv a xs b n :
  chain nx pv a xs b -> (forall j, pv j <> None -> j < n) -> (forall j, nx j <> None -> j < n) ->
  a < n /\ (forall x, In x xs -> x < n) /\ b < n.
Proof.
  intros C Hp Hn. revert a C; induction xs as [|x t IH]; intros a C.
  - destruct C as [C1 C2]. repeat split; [apply Hn; congruence|intros ? []|apply Hp; congruence].
  - destruct C as (C1 & C2 & C3). destruct (IH _ C3) as (A & B & D).
    repeat split; auto. { apply Hn; congruence. } intros y [<-|I]; auto.
Qed.
