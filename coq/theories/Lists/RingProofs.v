(* Proofs about the model of lists.Ring (Lists/RingModel.v): it refines the
   cycle semantics of Lists/RingSpec.v. *)
From Typ Require Import Lib.Base Lists.Heap Lists.ListModel Lists.ListSpec Lists.ListProofs
  Lists.RingModel Lists.RingSpec.
From Coq Require Import Permutation.

(* ================= Part A: the heap as functions ================= *)

Lemma rproj_upd {A} (g : rcell -> A) d f h i j :
  rproj g d (map_nth f i h) j =
  if Nat.eqb j i then match nth_error h i with Some c => g (f c) | None => d end else rproj g d h j.
Proof.
  unfold rproj. rewrite nth_error_map_nth.
  destruct (Nat.eqb_spec j i) as [->|]; [|reflexivity].
  destruct (nth_error h i); reflexivity.
Qed.

Lemma rproj_out {A} (g : rcell -> A) d h j : length h <= j -> rproj g d h j = d.
Proof. intro H. unfold rproj. rewrite (proj2 (nth_error_None _ _)); auto. Qed.

Lemma rproj_in {A} (g : rcell -> A) d h j : rproj g d h j <> d -> j < length h.
Proof. intro H. destruct (Nat.lt_ge_cases j (length h)); auto. exfalso; apply H, rproj_out; auto. Qed.

Lemma rhupd_eq f (h : rheap) i : i < length h -> hupd h (Some i) f = Ok (map_nth f i h).
Proof.
  intro H. unfold hupd. destruct (nth_error h i) as [c|] eqn:E.
  - rewrite (replace_nth_map_nth f i _ c E). reflexivity.
  - apply nth_error_None in E. lia.
Qed.

Lemma rhget_eq (h : rheap) i : i < length h ->
  exists c, hget h (Some i) = Ok c /\ r_next c = rnx h i /\ r_prev c = rpv h i /\ r_val c = rvl h i.
Proof.
  intro H. unfold hget, rnx, rpv, rvl, rproj. destruct (nth_error h i) as [c|] eqn:E.
  - exists c. auto.
  - apply nth_error_None in E. lia.
Qed.

Section RUpd.
Variables (h : rheap) (i j : nat).
Hypothesis Hi : i < length h.
Local Ltac t := unfold rnx, rpv, rvl; rewrite rproj_upd;
  let c := fresh in let E := fresh in
  destruct (nth_error h i) as [c|] eqn:E;
  [ unfold rproj; destruct (Nat.eqb_spec j i) as [->|]; [rewrite ?E|]; reflexivity
  | apply nth_error_None in E; lia ].
Lemma rnx_set_next v : rnx (map_nth (set_rnext v) i h) j = if Nat.eqb j i then v else rnx h j. Proof. t. Qed.
Lemma rpv_set_next v : rpv (map_nth (set_rnext v) i h) j = rpv h j. Proof. t. Qed.
Lemma rvl_set_next v : rvl (map_nth (set_rnext v) i h) j = rvl h j. Proof. t. Qed.
Lemma rnx_set_prev v : rnx (map_nth (set_rprev v) i h) j = rnx h j. Proof. t. Qed.
Lemma rpv_set_prev v : rpv (map_nth (set_rprev v) i h) j = if Nat.eqb j i then v else rpv h j. Proof. t. Qed.
Lemma rvl_set_prev v : rvl (map_nth (set_rprev v) i h) j = rvl h j. Proof. t. Qed.
Lemma rnx_set_val v : rnx (map_nth (set_rval v) i h) j = rnx h j. Proof. t. Qed.
Lemma rpv_set_val v : rpv (map_nth (set_rval v) i h) j = rpv h j. Proof. t. Qed.
Lemma rvl_set_val v : rvl (map_nth (set_rval v) i h) j = if Nat.eqb j i then v else rvl h j. Proof. t. Qed.
End RUpd.

Ltac rsize_tac := rewrite ?length_map_nth; first [assumption | lia].
#[export] Hint Rewrite @length_map_nth : rheap.
#[export] Hint Rewrite rnx_set_next rpv_set_next rvl_set_next rnx_set_prev rpv_set_prev rvl_set_prev
  rnx_set_val rpv_set_val rvl_set_val using rsize_tac : rheap.

Lemma rproj_alloc {A} (g : rcell -> A) d (h : rheap) c j :
  rproj g d (h ++ [c]) j = if Nat.eqb j (length h) then g c else rproj g d h j.
Proof. unfold rproj. rewrite nth_error_alloc. destruct (Nat.eqb j (length h)); reflexivity. Qed.

(* ================= Part B: more on chains ================= *)

(* redirect the closing link of a chain *)
Lemma chain_retarget nx pv nx' pv' a xs b b' :
  chain nx pv a xs b -> NoDup (a :: xs) ->
  (forall x, x = a \/ In x xs -> x <> last xs a -> nx' x = nx x) ->
  (forall x, In x xs -> pv' x = pv x) ->
  nx' (last xs a) = Some b' -> pv' b' = Some (last xs a) ->
  chain nx' pv' a xs b'.
Proof.
  revert a; induction xs as [|x t IH]; intros a C D Hn Hp En Ep.
  - simpl in *. auto.
  - destruct C as (C1 & C2 & C3). rewrite last_cons in *.
    pose proof D as D0. apply NoDup_cons_iff in D as [Na D].
    cbn [chain]. repeat split.
    + rewrite Hn; auto. intros E. apply Na. rewrite E.
      destruct (last_in_or x t) as [[-> _]|I]; simpl; auto.
    + rewrite Hp; simpl; auto.
    + apply IH; auto.
      * intros y Hy Ny. apply Hn; auto. simpl. destruct Hy; auto.
      * intros y Hy. apply Hp. simpl; auto.
Qed.

Lemma chain_rotate nx pv x p q :
  chain nx pv x (p ++ q) x -> forall y t, q = y :: t -> chain nx pv y (t ++ x :: p) y.
Proof.
  intros C y t ->. apply chain_app in C as [C1 C2]. apply chain_app. auto.
Qed.

Lemma chain_In_lt nx pv a xs b n :
  chain nx pv a xs b -> (forall j, pv j <> None -> j < n) -> (forall j, nx j <> None -> j < n) ->
  a < n /\ (forall x, In x xs -> x < n) /\ b < n.
Proof.
  intros C Hp Hn. revert a C; induction xs as [|x t IH]; intros a C.
  - destruct C as [C1 C2]. repeat split; [apply Hn; congruence|intros ? []|apply Hp; congruence].
  - destruct C as (C1 & C2 & C3). destruct (IH _ C3) as (A & B & D).
    repeat split; auto. { apply Hn; congruence. } intros y [<-|I]; auto.
Qed.

(* ================= Part C: the partition ================= *)

Lemma split_at_Some x c p q : split_at x c = Some (p, q) -> c = p ++ x :: q /\ ~ In x p.
Proof.
  revert p q; induction c as [|y t IH]; intros p q H; simpl in H; [discriminate|].
  destruct (Nat.eqb_spec y x) as [->|N].
  - injection H as <- <-. simpl. auto.
  - destruct (split_at x t) as [[p' q']|]; [|discriminate]. injection H as <- <-.
    destruct (IH _ _ eq_refl) as [-> Np]. simpl. split; auto. intuition.
Qed.

Lemma split_at_None x c : split_at x c = None -> ~ In x c.
Proof.
  induction c as [|y t IH]; simpl; [tauto|].
  destruct (Nat.eqb_spec y x) as [->|N]; [discriminate|].
  destruct (split_at x t) as [[p q]|]; [discriminate|]. intros _ [E|I]; auto. apply IH; auto.
Qed.

Lemma split_at_split x p q : ~ In x p -> split_at x (p ++ x :: q) = Some (p, q).
Proof.
  intro N. induction p as [|y t IH]; simpl.
  - rewrite Nat.eqb_refl. reflexivity.
  - destruct (Nat.eqb_spec y x) as [->|]; [simpl in N; tauto|]. rewrite IH; auto. simpl in N; tauto.
Qed.

Lemma rot_to_Some x c c' : rot_to x c = Some c' -> exists p q, c = p ++ x :: q /\ c' = x :: q ++ p /\ ~ In x p.
Proof.
  unfold rot_to. destruct (split_at x c) as [[p q]|] eqn:E; [|discriminate].
  intro H; injection H as <-. destruct (split_at_Some _ _ _ _ E). eauto.
Qed.

Lemma rot_to_None x c : rot_to x c = None -> ~ In x c.
Proof. unfold rot_to. destruct (split_at x c) as [[p q]|] eqn:E; [discriminate|]. intros _. apply split_at_None; auto. Qed.

Lemma extract_Some x cs c' rest :
  extract x cs = Some (c', rest) ->
  exists pre c post p q, cs = pre ++ c :: post /\ rest = pre ++ post /\ c = p ++ x :: q /\ c' = x :: q ++ p.
Proof.
  revert c' rest; induction cs as [|c t IH]; intros c' rest H; simpl in H; [discriminate|].
  destruct (rot_to x c) as [c1|] eqn:E.
  - injection H as <- <-. destruct (rot_to_Some _ _ _ E) as (p & q & -> & -> & _).
    exists [], (p ++ x :: q), t, p, q. auto.
  - destruct (extract x t) as [[c1 t1]|]; [|discriminate]. injection H as <- <-.
    destruct (IH _ _ eq_refl) as (pre & c0 & post & p & q & -> & -> & -> & ->).
    exists (c :: pre), (p ++ x :: q), post, p, q. auto.
Qed.

Lemma extract_None x cs : extract x cs = None -> ~ In x (concat cs).
Proof.
  induction cs as [|c t IH]; simpl; [tauto|].
  destruct (rot_to x c) as [c1|] eqn:E; [discriminate|].
  destruct (extract x t) as [[c1 t1]|]; [discriminate|].
  intros _ I. apply in_app_iff in I as [I|I]; [eapply rot_to_None; eauto|apply IH; auto].
Qed.

Lemma concat_mid {A} (pre : list (list A)) c post : concat (pre ++ c :: post) = concat pre ++ c ++ concat post.
Proof. rewrite concat_app. reflexivity. Qed.

Lemma perm_extract {A} (pre : list (list A)) (p q : list A) x post :
  Permutation (concat (pre ++ (p ++ x :: q) :: post)) ((x :: q ++ p) ++ concat (pre ++ post)).
Proof.
  rewrite concat_mid, concat_app.
  apply Permutation_trans with ((p ++ x :: q) ++ concat pre ++ concat post).
  - rewrite (app_assoc (concat pre)), (app_assoc (p ++ x :: q) (concat pre)).
    apply Permutation_app_tail. apply Permutation_app_comm.
  - apply Permutation_app_tail. change (x :: q ++ p) with ((x :: q) ++ p). apply Permutation_app_comm.
Qed.

(* ================= Part D: re-establishing the invariant ================= *)

Lemma in_concat_iff {A} (x : A) (ls : list (list A)) : In x (concat ls) <-> exists l, In l ls /\ In x l.
Proof. rewrite in_concat. firstorder. Qed.

(* Replace the cycles whose nodes are [changed] by the cycles [news] (nodes: changed plus
   the newly initialised ones); every other cycle and every other node is untouched. *)
Lemma RRep_replace h a h' vs' changed rest newly news :
  RRep h a ->
  Permutation (concat (ra_cycles a)) (changed ++ concat rest) ->
  (forall d, In d rest -> In d (ra_cycles a)) ->
  length h <= length h' ->
  (length h' = length vs' /\ forall j, j < length h' -> nth_error vs' j = Some (rvl h' j)) ->
  NoDup newly -> (forall j, In j newly -> ~ In j (concat (ra_cycles a)) /\ j < length h') ->
  Permutation (concat news) (newly ++ changed) ->
  (forall c, In c news -> exists x t, c = x :: t /\ chain (rnx h') (rpv h') x t x) ->
  (forall j, ~ In j (newly ++ changed) -> rnx h' j = rnx h j /\ rpv h' j = rpv h j) ->
  RRep h' (RA (news ++ rest) vs').
Proof.
  intros R P Hrest Hlen Hv NDn Hnew Pn Hc Hfr.
  pose proof (RR_nodup _ _ R) as ND.
  assert (ND2 : NoDup (changed ++ concat rest)) by (eapply Permutation_NoDup; eauto).
  apply NoDup_app_iff in ND2 as (NDc & NDr & Dcr).
  assert (Hrest_fr : forall j, In j (concat rest) -> rnx h' j = rnx h j /\ rpv h' j = rpv h j).
  { intros j Ij. apply Hfr. intro I. apply in_app_iff in I as [I|I].
    - destruct (Hnew j I) as [N _]. apply N. eapply Permutation_in; [apply Permutation_sym; exact P|].
      apply in_or_app; auto.
    - apply (Dcr j I Ij). }
  constructor; cbn [ra_cycles ra_vals].
  - exact Hv.
  - intros c Ic. apply in_app_iff in Ic as [Ic|Ic]; [auto|].
    destruct (RR_cyc _ _ R c (Hrest c Ic)) as (x & t & -> & C). exists x, t. split; auto.
    assert (In_c : forall y, In y (x :: t) -> In y (concat rest)).
    { intros y Iy. apply in_concat_iff. eauto. }
    eapply chain_frame; [| |exact C].
    + intros y Hy. apply Hrest_fr, In_c. destruct Hy as [->|]; simpl; auto.
    + intros y Hy. apply Hrest_fr, In_c. destruct Hy as [Hy| ->]; simpl; auto.
  - rewrite concat_app. eapply Permutation_NoDup.
    + apply Permutation_sym. apply Permutation_app_tail. exact Pn.
    + rewrite <- app_assoc. apply NoDup_app_iff. split; auto. split.
      * apply NoDup_app_iff. auto.
      * intros j Ij I. destruct (Hnew j Ij) as [N _]. apply N.
        eapply Permutation_in; [apply Permutation_sym; exact P|]. exact I.
  - intros j Ij. rewrite concat_app in Ij. apply in_app_iff in Ij as [Ij|Ij].
    + apply (Permutation_in _ Pn) in Ij. apply in_app_iff in Ij as [Ij|Ij]; [apply Hnew; auto|].
      apply Nat.lt_le_trans with (length h); auto. apply (RR_alloc _ _ R).
      eapply Permutation_in; [apply Permutation_sym; exact P|]. apply in_or_app; auto.
    + apply Nat.lt_le_trans with (length h); auto. apply (RR_alloc _ _ R).
      eapply Permutation_in; [apply Permutation_sym; exact P|]. apply in_or_app; auto.
  - intros j Nj. rewrite concat_app, in_app_iff in Nj.
    assert (N1 : ~ In j (newly ++ changed)).
    { intro I. apply Nj. left. eapply Permutation_in; [apply Permutation_sym; exact Pn|]. exact I. }
    destruct (Hfr j N1) as [-> ->]. apply (RR_zero _ _ R).
    intro I. apply (Permutation_in _ P) in I. apply in_app_iff in I as [I|I]; [|tauto].
    apply N1. apply in_or_app; auto.
Qed.

Lemma RRep_vals_same h a h' :
  RRep h a -> length h' = length h -> (forall j, rvl h' j = rvl h j) ->
  length h' = length (ra_vals a) /\ forall j, j < length h' -> nth_error (ra_vals a) j = Some (rvl h' j).
Proof.
  intros R L V. destruct (RR_vals _ _ R) as [V1 V2]. split; [lia|].
  intros j Hj. rewrite V. apply V2. lia.
Qed.

(* a node of the partition: its cycle written from it, and its links *)
Lemma RRep_member h a x :
  RRep h a -> In x (concat (ra_cycles a)) ->
  exists pre post p q,
    ra_cycles a = pre ++ (p ++ x :: q) :: post /\
    extract x (ra_cycles a) = Some (x :: q ++ p, pre ++ post) /\
    chain (rnx h) (rpv h) x (q ++ p) x /\ NoDup (x :: q ++ p).
Proof.
  intros R I.
  destruct (extract x (ra_cycles a)) as [[c rest]|] eqn:E; [|exfalso; eapply extract_None; eauto].
  destruct (extract_Some _ _ _ _ E) as (pre & c0 & post & p & q & Ecs & -> & -> & ->).
  exists pre, post, p, q. split; auto. split; auto.
  assert (Ic : In (p ++ x :: q) (ra_cycles a)) by (rewrite Ecs; apply in_or_app; simpl; auto).
  destruct (RR_cyc _ _ R _ Ic) as (x0 & t0 & E0 & C).
  pose proof (RR_nodup _ _ R) as ND. rewrite Ecs, concat_mid in ND.
  apply NoDup_app_iff in ND as (_ & ND & _). apply NoDup_app_iff in ND as (ND & _).
  split.
  - destruct p as [|y p']; simpl in E0.
    + injection E0 as <- <-. rewrite app_nil_r. exact C.
    + injection E0 as <- <-. apply chain_app in C as [C1 C2]. apply chain_app. auto.
  - eapply Permutation_NoDup; [|exact ND].
    change (x :: q ++ p) with ((x :: q) ++ p). apply Permutation_app_comm.
Qed.

Lemma RRep_init_iff h a x : RRep h a -> (In x (concat (ra_cycles a)) <-> rnx h x <> None).
Proof.
  intro R. split.
  - intro I. destruct (RRep_member _ _ _ R I) as (pre & post & p & q & _ & _ & C & _).
    rewrite (chain_first _ _ _ _ _ C). discriminate.
  - intro N. destruct (in_dec Nat.eq_dec x (concat (ra_cycles a))); auto.
    exfalso. apply N. apply (RR_zero _ _ R). auto.
Qed.

Lemma ext_member h a x pre post p q :
  RRep h a -> extract x (ra_cycles a) = Some (x :: q ++ p, pre ++ post) ->
  ext (ra_cycles a) x = (x :: q ++ p, pre ++ post).
Proof. intros _ E. unfold ext. rewrite E. reflexivity. Qed.

(* touching an initialised node: nothing is written, the partition is only rewritten *)
Lemma touch_init h a x :
  RRep h a -> In x (concat (ra_cycles a)) ->
  ring_Next (Some x) h = Ok (Some (a_succ (ra_cycles a) x), h) /\
  ring_Prev (Some x) h = Ok (Some (a_pred (ra_cycles a) x), h) /\
  RRep h (RA (a_touch (ra_cycles a) x) (ra_vals a)).
Proof.
  intros R I. destruct (RRep_member _ _ _ R I) as (pre & post & p & q & Ecs & Ex & C & ND).
  assert (Hx : x < length h) by (apply (RR_alloc _ _ R); auto).
  destruct (rhget_eq h x Hx) as (c & Eg & En & Ep & _).
  unfold ring_Next, ring_Prev, a_succ, a_pred, a_touch, ext. rewrite Eg, Ex. cbn [bind fst c_next c_prev tl].
  rewrite En, Ep, (chain_first _ _ _ _ _ C), (chain_last _ _ _ _ _ C). cbn [ptr_eqb option_eqb].
  split; [reflexivity|]. split; [reflexivity|].
  apply (RRep_replace h a h (ra_vals a) (p ++ x :: q) (pre ++ post) [] [x :: q ++ p]); auto.
  - rewrite Ecs, concat_mid, concat_app.
    rewrite (app_assoc (concat pre)), (app_assoc (p ++ x :: q) (concat pre)).
    apply Permutation_app_tail. apply Permutation_app_comm.
  - intros d Id. rewrite Ecs. apply in_app_iff in Id as [Id|Id]; apply in_or_app; simpl; auto.
  - apply (RR_vals _ _ R).
  - constructor.
  - intros j [].
  - simpl. rewrite app_nil_r. change (x :: q ++ p) with ((x :: q) ++ p). apply Permutation_app_comm.
  - intros c0 [<-|[]]. eauto.
Qed.

(* touching a zero Ring: r.next = r; r.prev = r *)
Lemma touch_zero h a x :
  RRep h a -> x < length h -> ~ In x (concat (ra_cycles a)) ->
  let h' := map_nth (set_rprev (Some x)) x (map_nth (set_rnext (Some x)) x h) in
  ring_Next (Some x) h = Ok (Some (a_succ (ra_cycles a) x), h') /\
  ring_Prev (Some x) h = Ok (Some (a_pred (ra_cycles a) x), h') /\
  RRep h' (RA (a_touch (ra_cycles a) x) (ra_vals a)).
Proof.
  intros R Hx N h'.
  destruct (rhget_eq h x Hx) as (c & Eg & En & Ep & _).
  destruct (RR_zero _ _ R x N) as [Zn Zp].
  assert (Ex : extract x (ra_cycles a) = None).
  { destruct (extract x (ra_cycles a)) as [[c0 rest]|] eqn:E; auto. exfalso. apply N.
    destruct (extract_Some _ _ _ _ E) as (pre & c1 & post & p & q & -> & _ & -> & _).
    rewrite concat_mid. apply in_or_app. right. apply in_or_app. left. apply in_or_app. simpl; auto. }
  unfold ring_Next, ring_Prev, ring_init, a_succ, a_pred, a_touch, ext. rewrite Eg, Ex. cbn [bind fst c_next c_prev tl hd last].
  rewrite En, Zn. cbn [ptr_eqb option_eqb].
  rewrite rhupd_eq by auto. cbn [bind]. rewrite rhupd_eq by rsize_tac. cbn [bind]. fold h'.
  split; [reflexivity|]. split; [reflexivity|].
  apply (RRep_replace h a h' (ra_vals a) [] (ra_cycles a) [x] [[x]]); auto.
  - unfold h'. autorewrite with rheap. lia.
  - apply (RRep_vals_same _ _ _ R); unfold h'; [now autorewrite with rheap|].
    intro j. now autorewrite with rheap.
  - constructor; auto. constructor.
  - intros j [<-|[]]. split; auto. unfold h'. now autorewrite with rheap.
  - intros c0 [<-|[]]. exists x, []. split; auto. unfold h'. cbn [chain]. autorewrite with rheap.
    rewrite Nat.eqb_refl. auto.
  - intros j Nj. simpl in Nj. assert (j <> x) by (intros ->; tauto). unfold h'. autorewrite with rheap.
    apply Nat.eqb_neq in H. rewrite H. auto.
Qed.

Lemma in_a_touch cs x j : In j (concat (a_touch cs x)) <-> j = x \/ In j (concat cs).
Proof.
  unfold a_touch, ext. destruct (extract x cs) as [[c rest]|] eqn:E.
  - destruct (extract_Some _ _ _ _ E) as (pre & c1 & post & p & q & -> & -> & -> & ->).
    cbn [concat]. rewrite concat_mid, concat_app, !in_app_iff. simpl. rewrite !in_app_iff. simpl. intuition congruence.
  - simpl. intuition congruence.
Qed.

Lemma touch_sim h a x :
  RRep h a -> x < length h ->
  exists h', ring_Next (Some x) h = Ok (Some (a_succ (ra_cycles a) x), h') /\
             ring_Prev (Some x) h = Ok (Some (a_pred (ra_cycles a) x), h') /\
             RRep h' (RA (a_touch (ra_cycles a) x) (ra_vals a)) /\ length h' = length h.
Proof.
  intros R Hx. destruct (in_dec Nat.eq_dec x (concat (ra_cycles a))) as [I|N].
  - exists h. destruct (touch_init _ _ _ R I) as (A & B & C). auto.
  - eexists. destruct (touch_zero _ _ _ R Hx N) as (A & B & C).
    split; [exact A|]. split; [exact B|]. split; [exact C|]. now autorewrite with rheap.
Qed.

(* ================= Part E: the relinking of Link, on functions ================= *)
Section LinkPure.
Variables (nx pv : nat -> ptr) (r s n p : nat).
(* r.next = s; s.prev = r; n.prev = p; p.next = n *)
Let nx' := upd (upd nx r (Some s)) p (Some n).
Let pv' := upd (upd pv s (Some r)) n (Some p).

Lemma link_self A :
  chain nx pv r A r -> NoDup (r :: A) -> n = hd r A -> p = last A r -> s = r ->
  chain nx' pv' r [] r /\ (A <> [] -> chain nx' pv' n (tl A) n).
Proof.
  intros C D En Ep Es. subst s. apply NoDup_cons_iff in D as [Nr D].
  destruct A as [|n0 A'].
  - simpl in En, Ep. subst n p. split; [|congruence]. unfold nx', pv'. split; upd_tac.
  - simpl in En. subst n0. rewrite last_cons in Ep. destruct C as (C1 & C2 & C3).
    assert (Npr : p <> r).
    { rewrite Ep. intros E. apply Nr. rewrite <- E. destruct (last_in_or n A') as [[-> _]|I]; simpl; auto. }
    assert (Nnr : n <> r) by (intros ->; apply Nr; simpl; auto).
    split.
    + unfold nx', pv'. split; upd_tac.
    + intros _. cbn [tl]. apply NoDup_cons_iff in D as [Nn D].
      apply (chain_retarget nx pv nx' pv' n A' r n C3).
      * constructor; auto.
      * intros x Hx Nx. rewrite <- Ep in Nx. unfold nx'. rewrite upd_other by auto. apply upd_other.
        intros ->. apply Nr. simpl. destruct Hx as [->|]; auto.
      * intros x Hx. unfold pv'. rewrite upd_other by (intros ->; auto). apply upd_other.
        intros ->. apply Nr. simpl; auto.
      * rewrite <- Ep. unfold nx'. apply upd_same.
      * rewrite <- Ep. unfold pv'. apply upd_same.
Qed.

Lemma link_same A1 B :
  chain nx pv r (A1 ++ s :: B) r -> NoDup (r :: A1 ++ s :: B) -> n = hd s A1 -> p = last A1 r ->
  chain nx' pv' r (s :: B) r /\ (A1 <> [] -> chain nx' pv' n (tl A1) n).
Proof.
  intros C D En Ep. apply NoDup_cons_iff in D as [Nr D].
  rewrite in_app_iff in Nr. simpl in Nr.
  apply NoDup_app_iff in D as (D1 & D2 & D3). apply NoDup_cons_iff in D2 as [NsB DB].
  assert (NsA : ~ In s A1) by (intro X; apply (D3 _ X); simpl; auto).
  assert (Nsr : s <> r) by (intros ->; tauto).
  apply chain_app in C as [C1 C2].
  assert (HB : chain nx' pv' s B r).
  { eapply chain_frame; [| |exact C2].
    - intros x Hx. unfold nx'.
      assert (x <> p).
      { rewrite Ep. intros ->. destruct (last_in_or r A1) as [[E _]|I].
        - rewrite E in Hx. destruct Hx as [Hx|Hx]; [congruence|tauto].
        - destruct Hx as [Hx|Hx]; [rewrite Hx in I; tauto|]. apply (D3 _ I). simpl; auto. }
      rewrite upd_other by auto. apply upd_other. intros ->. destruct Hx; [congruence|tauto].
    - intros x Hx. unfold pv'.
      assert (x <> n).
      { rewrite En. intros ->. destruct (hd_in_or s A1) as [[E _]|I].
        - rewrite E in Hx. destruct Hx as [Hx|Hx]; [tauto|congruence].
        - destruct Hx as [Hx|Hx]; [apply (D3 _ I); simpl; auto|]. rewrite Hx in I. tauto. }
      rewrite upd_other by auto. apply upd_other. intros ->. destruct Hx; [tauto|congruence]. }
  destruct A1 as [|n0 A1'].
  - simpl in En, Ep. subst n p. split; [|congruence].
    cbn [chain]. split; [unfold nx'; apply upd_same|]. split; [unfold pv'; apply upd_same|]. exact HB.
  - simpl in En. subst n0. rewrite last_cons in Ep. destruct C1 as (C1 & C1' & C1'').
    apply NoDup_cons_iff in D1 as [NnA D1].
    assert (Nnr : n <> r) by (intros ->; simpl in Nr; tauto).
    assert (Nns : n <> s) by (intros ->; simpl in NsA; tauto).
    assert (Npr : p <> r).
    { rewrite Ep. intros E. destruct (last_in_or n A1') as [[E1 _]|I]; [congruence|]. rewrite E in I. simpl in Nr; tauto. }
    assert (Nps : p <> s).
    { rewrite Ep. intros E. destruct (last_in_or n A1') as [[E1 _]|I]; [congruence|]. rewrite E in I. simpl in NsA; tauto. }
    split.
    + cbn [chain]. split; [unfold nx'; rewrite upd_other by auto; apply upd_same|].
      split; [unfold pv'; rewrite upd_other by auto; apply upd_same|]. exact HB.
    + intros _. cbn [tl].
      apply (chain_retarget nx pv nx' pv' n A1' s n C1'').
      * constructor; auto.
      * intros x Hx Nx. rewrite <- Ep in Nx. unfold nx'. rewrite upd_other by auto. apply upd_other.
        intros ->. simpl in Nr. destruct Hx as [->|]; tauto.
      * intros x Hx. unfold pv'. rewrite upd_other by (intros ->; auto). apply upd_other.
        intros ->. simpl in NsA. tauto.
      * rewrite <- Ep. unfold nx'. apply upd_same.
      * rewrite <- Ep. unfold pv'. apply upd_same.
Qed.

Lemma link_diff A B :
  chain nx pv r A r -> chain nx pv s B s -> NoDup ((r :: A) ++ (s :: B)) -> n = hd r A -> p = last B s ->
  chain nx' pv' r (s :: B ++ A) r.
Proof.
  intros CA CB D En Ep.
  apply NoDup_app_iff in D as (DA & DB & Dab).
  apply NoDup_cons_iff in DA as [NrA DA]. apply NoDup_cons_iff in DB as [NsB DB].
  assert (Nsr : s <> r) by (intros ->; apply (Dab r); simpl; auto).
  assert (Hp : p = s \/ In p B) by (rewrite Ep; destruct (last_in_or s B) as [[-> _]|]; auto).
  assert (Hn : n = r \/ In n A) by (rewrite En; destruct (hd_in_or r A) as [[-> _]|]; auto).
  assert (Npr : p <> r) by (intros ->; apply (Dab r); simpl; auto; destruct Hp; auto).
  assert (Nns : n <> s) by (intros ->; apply (Dab s); simpl; auto; destruct Hn; auto).
  assert (NpA : ~ In p A) by (intro X; apply (Dab p); simpl; auto; destruct Hp; auto).
  assert (NnB : ~ In n B) by (intro X; apply (Dab n); simpl; auto; destruct Hn; auto).
  cbn [chain]. split; [unfold nx'; rewrite upd_other by auto; apply upd_same|].
  split; [unfold pv'; rewrite upd_other by auto; apply upd_same|].
  assert (HB : chain nx' pv' s B n).
  { apply (chain_retarget nx pv nx' pv' s B s n CB).
    - constructor; auto.
    - intros x Hx Nx. rewrite <- Ep in Nx. unfold nx'. rewrite upd_other by auto. apply upd_other.
      intros ->. apply (Dab r); simpl; auto. destruct Hx; auto.
    - intros x Hx. unfold pv'. rewrite upd_other by (intros ->; auto). apply upd_other. intros ->. auto.
    - rewrite <- Ep. unfold nx'. apply upd_same.
    - rewrite <- Ep. unfold pv'. apply upd_same. }
  destruct A as [|n0 A'].
  - simpl in En. subst n. rewrite app_nil_r. exact HB.
  - simpl in En. subst n0. destruct CA as (CA1 & CA2 & CA3).
    apply chain_app. split; [exact HB|].
    apply NoDup_cons_iff in DA as [NnA' DA'].
    eapply chain_frame; [| |exact CA3].
    + intros x Hx. unfold nx'.
      assert (x <> p) by (intros ->; apply NpA; simpl; destruct Hx as [->|]; auto).
      rewrite upd_other by auto. apply upd_other. intros ->. apply NrA. simpl. destruct Hx as [->|]; auto.
    + intros x Hx. unfold pv'.
      assert (x <> n).
      { intros ->. destruct Hx as [Hx|Hx]; [tauto|]. apply NrA. rewrite <- Hx. simpl; auto. }
      rewrite upd_other by auto. apply upd_other. intros ->.
      destruct Hx as [Hx|Hx]; [|congruence]. apply (Dab s); simpl; auto.
Qed.
End LinkPure.

Lemma RRep_ptr_lt h a j k : RRep h a -> (rnx h j = Some k \/ rpv h j = Some k) -> k < length h.
Proof.
  intros R H.
  assert (I : In j (concat (ra_cycles a))).
  { destruct (in_dec Nat.eq_dec j (concat (ra_cycles a))); auto.
    destruct (RR_zero _ _ R j n) as [A B]. destruct H; congruence. }
  destruct (RRep_member _ _ _ R I) as (pre & post & p & q & Ecs & _ & C & _).
  assert (Sub : forall y, y = j \/ In y (q ++ p) -> y < length h).
  { intros y Hy. apply (RR_alloc _ _ R). rewrite Ecs, concat_mid. apply in_or_app. right. apply in_or_app. left.
    destruct Hy as [->|Hy]; [apply in_or_app; simpl; auto|].
    apply in_app_iff in Hy as [Hy|Hy]; apply in_or_app; simpl; auto. }
  destruct H as [H|H].
  - rewrite (chain_first _ _ _ _ _ C) in H. injection H as <-. apply Sub.
    destruct (hd_in_or j (q ++ p)) as [[-> _]|]; auto.
  - rewrite (chain_last _ _ _ _ _ C) in H. injection H as <-. apply Sub.
    destruct (last_in_or j (q ++ p)) as [[-> _]|]; auto.
Qed.

Lemma link_heap (h : rheap) r s n p :
  r < length h -> s < length h -> n < length h -> p < length h ->
  exists h',
    (do h1 <- hupd h (Some r) (set_rnext (Some s));
     do h2 <- hupd h1 (Some s) (set_rprev (Some r));
     do h3 <- hupd h2 (Some n) (set_rprev (Some p));
     do h4 <- hupd h3 (Some p) (set_rnext (Some n));
     Ok (Some n, h4)) = Ok (Some n, h') /\
    length h' = length h /\
    (forall j, rnx h' j = upd (upd (rnx h) r (Some s)) p (Some n) j) /\
    (forall j, rpv h' j = upd (upd (rpv h) s (Some r)) n (Some p) j) /\
    (forall j, rvl h' j = rvl h j).
Proof.
  intros Hr Hs Hn Hp.
  rewrite rhupd_eq by auto. cbn [bind]. rewrite rhupd_eq by rsize_tac. cbn [bind].
  rewrite rhupd_eq by rsize_tac. cbn [bind]. rewrite rhupd_eq by rsize_tac. cbn [bind].
  eexists. split; [reflexivity|]. unfold upd.
  split; [now autorewrite with rheap|]. repeat split; intro j; now autorewrite with rheap.
Qed.

Lemma cons_ne_app (c : list nat) rest : cons_ne c rest = cons_ne c [] ++ rest.
Proof. destruct c; reflexivity. Qed.

Lemma concat_cons_ne (c : list nat) : concat (cons_ne c []) = c.
Proof. destruct c; simpl; [reflexivity|]. rewrite app_nil_r. reflexivity. Qed.

Lemma hd_tl_eq (d : nat) l : l <> [] -> l = hd d l :: tl l.
Proof. destruct l; [congruence|reflexivity]. Qed.

(* r.next = s; s.prev = r; n.prev = p; p.next = n on a represented heap *)
Lemma link_core h a r s n p :
  RRep h a -> In r (concat (ra_cycles a)) -> In s (concat (ra_cycles a)) ->
  rnx h r = Some n -> rpv h s = Some p ->
  exists h',
    (do h1 <- hupd h (Some r) (set_rnext (Some s));
     do h2 <- hupd h1 (Some s) (set_rprev (Some r));
     do h3 <- hupd h2 (Some n) (set_rprev (Some p));
     do h4 <- hupd h3 (Some p) (set_rnext (Some n));
     Ok (Some n, h4)) = Ok (Some n, h') /\
    RRep h' (RA (a_link (ra_cycles a) r s) (ra_vals a)) /\ length h' = length h.
Proof.
  intros R Ir Is En Ep.
  assert (Hr : r < length h) by (apply (RR_alloc _ _ R); auto).
  assert (Hs : s < length h) by (apply (RR_alloc _ _ R); auto).
  assert (Hn : n < length h) by (eapply RRep_ptr_lt; eauto).
  assert (Hp : p < length h) by (eapply RRep_ptr_lt; eauto).
  destruct (link_heap h r s n p Hr Hs Hn Hp) as (h' & E & L & Nx & Pv & Vl).
  exists h'. split; [exact E|]. split; [|exact L].
  assert (HV := RRep_vals_same _ _ _ R L Vl).
  destruct (RRep_member _ _ _ R Ir) as (pre & post & p0 & q0 & Ecs & Ex & C & ND).
  set (A := q0 ++ p0) in *.
  assert (EnA : n = hd r A) by (rewrite (chain_first _ _ _ _ _ C) in En; congruence).
  assert (Pcs : Permutation (concat (ra_cycles a)) ((r :: A) ++ concat (pre ++ post))).
  { rewrite Ecs. apply perm_extract. }
  assert (Hrest : forall d, In d (pre ++ post) -> In d (ra_cycles a)).
  { intros d Id. rewrite Ecs. apply in_app_iff in Id as [Id|Id]; apply in_or_app; simpl; auto. }
  unfold a_link, ext. rewrite Ex. cbn [tl]. fold A.
  destruct (Nat.eqb_spec s r) as [Esr|Nsr].
  - (* Link(r, r): r alone; the rest of its ring stays a ring *)
    assert (EpA : p = last A r) by (subst s; rewrite (chain_last _ _ _ _ _ C) in Ep; congruence).
    destruct (link_self (rnx h) (rpv h) r s n p A C ND EnA EpA Esr) as [C1 C2].
    rewrite cons_ne_app. change ([r] :: cons_ne A [] ++ pre ++ post) with (([r] :: cons_ne A []) ++ pre ++ post).
    apply (RRep_replace h a h' (ra_vals a) (r :: A) (pre ++ post) [] ([r] :: cons_ne A [])); auto; try lia.
    + constructor.
    + intros j [].
    + cbn [concat app]. rewrite concat_cons_ne. reflexivity.
    + intros c [<-|Ic].
      * exists r, []. split; auto. eapply chain_ext; [| |exact C1]; auto.
      * destruct A as [|a0 A']; [destruct Ic|]. destruct Ic as [<-|[]].
        exists n, A'. simpl in EnA. subst a0. split; auto.
        eapply chain_ext; [| |exact (C2 ltac:(discriminate))]; auto.
    + intros j Nj. simpl in Nj. rewrite Nx, Pv. unfold upd.
      assert (j <> r) by (intros ->; tauto).
      assert (j <> p). { rewrite EpA. intros ->. destruct (last_in_or r A) as [[E0 _]|I0]; [congruence|tauto]. }
      assert (j <> n). { rewrite EnA. intros ->. destruct (hd_in_or r A) as [[E0 _]|I0]; [congruence|tauto]. }
      assert (j <> s) by congruence.
      repeat match goal with |- context[Nat.eqb j ?y] => rewrite (proj2 (Nat.eqb_neq j y)) by assumption end. auto.
  - destruct (split_at s A) as [[A1 B]|] eqn:Es.
    + (* same ring: A1 is cut out *)
      destruct (split_at_Some _ _ _ _ Es) as [EA NsA1].
      assert (EpA : p = last A1 r).
      { rewrite EA in C. destruct (chain_at _ _ _ _ _ _ _ C) as [_ Q]. congruence. }
      assert (EnA1 : n = hd s A1) by (rewrite EnA, EA; destruct A1; reflexivity).
      rewrite EA in C, ND.
      destruct (link_same (rnx h) (rpv h) r s n p A1 B C ND EnA1 EpA) as [C1 C2].
      rewrite cons_ne_app.
      change ((r :: s :: B) :: cons_ne A1 [] ++ pre ++ post) with (((r :: s :: B) :: cons_ne A1 []) ++ pre ++ post).
      apply (RRep_replace h a h' (ra_vals a) (r :: A) (pre ++ post) [] ((r :: s :: B) :: cons_ne A1 [])); auto; try lia.
      * constructor.
      * intros j [].
      * cbn [concat app]. rewrite concat_cons_ne, EA.
        apply perm_skip. change (s :: B) with ([s] ++ B). rewrite (app_assoc A1), <- app_assoc.
        simpl. apply Permutation_sym. apply Permutation_trans with ((s :: B) ++ A1); [apply Permutation_app_comm|reflexivity].
      * intros c [<-|Ic].
        -- exists r, (s :: B). split; auto. eapply chain_ext; [| |exact C1]; auto.
        -- destruct A1 as [|a0 A1']; [destruct Ic|]. destruct Ic as [<-|[]].
           exists n, A1'. simpl in EnA1. subst a0. split; auto.
           eapply chain_ext; [| |exact (C2 ltac:(discriminate))]; auto.
      * intros j Nj. simpl in Nj. rewrite EA in Nj. rewrite Nx, Pv. unfold upd.
        rewrite in_app_iff in Nj. simpl in Nj.
        assert (j <> r) by (intros ->; tauto). assert (j <> s) by (intros ->; tauto).
        assert (j <> p). { rewrite EpA. intros ->. destruct (last_in_or r A1) as [[E0 _]|I0]; [congruence|tauto]. }
        assert (j <> n). { rewrite EnA1. intros ->. destruct (hd_in_or s A1) as [[E0 _]|I0]; [congruence|tauto]. }
        repeat match goal with |- context[Nat.eqb j ?y] => rewrite (proj2 (Nat.eqb_neq j y)) by assumption end. auto.
    + (* different rings: s's ring is spliced in after r *)
      pose proof (split_at_None _ _ Es) as NsA.
      destruct (touch_init _ _ _ R Ir) as (_ & _ & R1).
      unfold a_touch, ext in R1. rewrite Ex in R1. fold A in R1.
      assert (Is1 : In s (concat (ra_cycles (RA ((r :: A) :: pre ++ post) (ra_vals a))))).
      { cbn [ra_cycles]. eapply Permutation_in; [exact Pcs|]. exact Is. }
      destruct (RRep_member _ _ _ R1 Is1) as (pre2 & post2 & p2 & q2 & Ecs2 & Ex2 & C2 & ND2).
      cbn [ra_cycles] in Ecs2, Ex2.
      (* the extraction of s skips r's cycle *)
      cbn [extract] in Ex2.
      assert (Rn : rot_to s (r :: A) = None).
      { unfold rot_to. cbn [split_at]. apply Nat.eqb_neq in Nsr. rewrite Nat.eqb_sym, Nsr, Es. reflexivity. }
      rewrite Rn in Ex2.
      destruct (extract s (pre ++ post)) as [[c2 rest2]|] eqn:Ex3; [|discriminate].
      injection Ex2 as Ec2 Er2. set (B := q2 ++ p2) in *.
      subst c2.
      assert (EpB : p = last B s) by (rewrite (chain_last _ _ _ _ _ C2) in Ep; congruence).
      destruct (extract_Some _ _ _ _ Ex3) as (pre3 & c3 & post3 & p3 & q3 & Ecs3 & -> & -> & Ec3).
      injection Ec3 as Ec3.
      assert (Pcs3 : Permutation (concat (ra_cycles a)) (((r :: A) ++ (s :: B)) ++ concat (pre3 ++ post3))).
      { eapply Permutation_trans; [exact Pcs|]. rewrite <- app_assoc. apply Permutation_app_head.
        rewrite Ecs3. rewrite Ec3. apply perm_extract. }
      assert (NDab : NoDup ((r :: A) ++ (s :: B))).
      { pose proof (RR_nodup _ _ R) as NDc. apply (Permutation_NoDup Pcs3) in NDc.
        apply NoDup_app_iff in NDc. tauto. }
      pose proof (link_diff (rnx h) (rpv h) r s n p A B C C2 NDab EnA EpB) as C'.
      change ((r :: (s :: B) ++ A) :: pre3 ++ post3) with ([r :: (s :: B) ++ A] ++ pre3 ++ post3).
      apply (RRep_replace h a h' (ra_vals a) ((r :: A) ++ (s :: B)) (pre3 ++ post3) [] [r :: (s :: B) ++ A]); auto; try lia.
      * intros d Id. apply Hrest. rewrite Ecs3. apply in_app_iff in Id as [Id|Id]; apply in_or_app; simpl; auto.
      * constructor.
      * intros j [].
      * cbn [concat app]. rewrite app_nil_r. apply perm_skip.
        change (s :: B ++ A) with ((s :: B) ++ A). apply Permutation_app_comm.
      * intros c [<-|[]]. exists r, (s :: B ++ A). split; auto. eapply chain_ext; [| |exact C']; auto.
      * intros j Nj. cbn [app] in Nj. rewrite Nx, Pv. unfold upd.
        assert (Nj' : j <> r /\ ~ In j A /\ j <> s /\ ~ In j B).
        { simpl in Nj. rewrite in_app_iff in Nj. simpl in Nj. repeat split; try (intros ->); tauto. }
        destruct Nj' as (J1 & J2 & J3 & J4).
        assert (j <> p). { rewrite EpB. intros ->. destruct (last_in_or s B) as [[E0 _]|I0]; [congruence|tauto]. }
        assert (j <> n). { rewrite EnA. intros ->. destruct (hd_in_or r A) as [[E0 _]|I0]; [congruence|tauto]. }
        repeat match goal with |- context[Nat.eqb j ?y] => rewrite (proj2 (Nat.eqb_neq j y)) by assumption end. auto.
Qed.
