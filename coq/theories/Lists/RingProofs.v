(* Proofs about the model of lists.Ring (Lists/RingModel.v): it refines the
   cycle semantics of Lists/RingSpec.v. *)
From Typ Require Import Lib.Base Lists.Heap Lists.ListModel Lists.ListSpec Lists.ListProofs
  Lists.RingModel Lists.RingSpec.
From Coq Require Import Permutation.

(* ================= Part A: the heap as functions ================= *)

Lemma rproj_upd {A} (g : rcell -> A) d f h i j :
  rproj g d (map_nth f i h) j =
  if Nat.eqb j i then match nth_error h i with Some c => g (f c) | None => d end else rproj g d h j.
Proof.
  unfold rproj. rewrite nth_error_map_nth.
  destruct (Nat.eqb_spec j i) as [->|]; [|reflexivity].
  destruct (nth_error h i); reflexivity.
Qed.

Lemma rproj_out {A} (g : rcell -> A) d h j : length h <= j -> rproj g d h j = d.
Proof. intro H. unfold rproj. rewrite (proj2 (nth_error_None _ _)); auto. Qed.

Lemma rproj_in {A} (g : rcell -> A) d h j : rproj g d h j <> d -> j < length h.
Proof. intro H. destruct (Nat.lt_ge_cases j (length h)); auto. exfalso; apply H, rproj_out; auto. Qed.

Lemma rhupd_eq f (h : rheap) i : i < length h -> hupd h (Some i) f = Ok (map_nth f i h).
Proof.
  intro H. unfold hupd. destruct (nth_error h i) as [c|] eqn:E.
  - rewrite (replace_nth_map_nth f i _ c E). reflexivity.
  - apply nth_error_None in E. lia.
Qed.

Lemma rhget_eq (h : rheap) i : i < length h ->
  exists c, hget h (Some i) = Ok c /\ r_next c = rnx h i /\ r_prev c = rpv h i /\ r_val c = rvl h i.
Proof.
  intro H. unfold hget, rnx, rpv, rvl, rproj. destruct (nth_error h i) as [c|] eqn:E.
  - exists c. auto.
  - apply nth_error_None in E. lia.
Qed.

Section RUpd.
Variables (h : rheap) (i j : nat).
Hypothesis Hi : i < length h.
Local Ltac t := unfold rnx, rpv, rvl; rewrite rproj_upd;
  let c := fresh in let E := fresh in
  destruct (nth_error h i) as [c|] eqn:E;
  [ unfold rproj; destruct (Nat.eqb_spec j i) as [->|]; [rewrite ?E|]; reflexivity
  | apply nth_error_None in E; lia ].
Lemma rnx_set_next v : rnx (map_nth (set_rnext v) i h) j = if Nat.eqb j i then v else rnx h j. Proof. t. Qed.
Lemma rpv_set_next v : rpv (map_nth (set_rnext v) i h) j = rpv h j. Proof. t. Qed.
Lemma rvl_set_next v : rvl (map_nth (set_rnext v) i h) j = rvl h j. Proof. t. Qed.
Lemma rnx_set_prev v : rnx (map_nth (set_rprev v) i h) j = rnx h j. Proof. t. Qed.
Lemma rpv_set_prev v : rpv (map_nth (set_rprev v) i h) j = if Nat.eqb j i then v else rpv h j. Proof. t. Qed.
Lemma rvl_set_prev v : rvl (map_nth (set_rprev v) i h) j = rvl h j. Proof. t. Qed.
Lemma rnx_set_val v : rnx (map_nth (set_rval v) i h) j = rnx h j. Proof. t. Qed.
Lemma rpv_set_val v : rpv (map_nth (set_rval v) i h) j = rpv h j. Proof. t. Qed.
Lemma rvl_set_val v : rvl (map_nth (set_rval v) i h) j = if Nat.eqb j i then v else rvl h j. Proof. t. Qed.
End RUpd.

Ltac rsize_tac := rewrite ?length_map_nth; first [assumption | lia].
#[export] Hint Rewrite @length_map_nth : rheap.
#[export] Hint Rewrite rnx_set_next rpv_set_next rvl_set_next rnx_set_prev rpv_set_prev rvl_set_prev
  rnx_set_val rpv_set_val rvl_set_val using rsize_tac : rheap.

Lemma rproj_alloc {A} (g : rcell -> A) d (h : rheap) c j :
  rproj g d (h ++ [c]) j = if Nat.eqb j (length h) then g c else rproj g d h j.
Proof. unfold rproj. rewrite nth_error_alloc. destruct (Nat.eqb j (length h)); reflexivity. Qed.

(* ================= Part B: more on chains ================= *)

(* redirect the closing link of a chain *)
Lemma chain_retarget nx pv nx' pv' a xs b b' :
  chain nx pv a xs b -> NoDup (a :: xs) ->
  (forall x, x = a \/ In x xs -> x <> last xs a -> nx' x = nx x) ->
  (forall x, In x xs -> pv' x = pv x) ->
  nx' (last xs a) = Some b' -> pv' b' = Some (last xs a) ->
  chain nx' pv' a xs b'.
Proof.
  revert a; induction xs as [|x t IH]; intros a C D Hn Hp En Ep.
  - simpl in *. auto.
  - destruct C as (C1 & C2 & C3). rewrite last_cons in *.
    pose proof D as D0. apply NoDup_cons_iff in D as [Na D].
    cbn [chain]. repeat split.
    + rewrite Hn; auto. intros E. apply Na. rewrite E.
      destruct (last_in_or x t) as [[-> _]|I]; simpl; auto.
    + rewrite Hp; simpl; auto.
    + apply IH; auto.
      * intros y Hy Ny. apply Hn; auto. simpl. destruct Hy; auto.
      * intros y Hy. apply Hp. simpl; auto.
Qed.

Lemma chain_rotate nx pv x p q :
  chain nx pv x (p ++ q) x -> forall y t, q = y :: t -> chain nx pv y (t ++ x :: p) y.
Proof.
  intros C y t ->. apply chain_app in C as [C1 C2]. apply chain_app. auto.
Qed.

Lemma chain_In_lt nx pv a xs b n :
  chain nx pv a xs b -> (forall j, pv j <> None -> j < n) -> (forall j, nx j <> None -> j < n) ->
  a < n /\ (forall x, In x xs -> x < n) /\ b < n.
Proof.
  intros C Hp Hn. revert a C; induction xs as [|x t IH]; intros a C.
  - destruct C as [C1 C2]. repeat split; [apply Hn; congruence|intros ? []|apply Hp; congruence].
  - destruct C as (C1 & C2 & C3). destruct (IH _ C3) as (A & B & D).
    repeat split; auto. { apply Hn; congruence. } intros y [<-|I]; auto.
Qed.

(* ================= Part C: the partition ================= *)

Lemma split_at_Some x c p q : split_at x c = Some (p, q) -> c = p ++ x :: q /\ ~ In x p.
Proof.
  revert p q; induction c as [|y t IH]; intros p q H; simpl in H; [discriminate|].
  destruct (Nat.eqb_spec y x) as [->|N].
  - injection H as <- <-. simpl. auto.
  - destruct (split_at x t) as [[p' q']|]; [|discriminate]. injection H as <- <-.
    destruct (IH _ _ eq_refl) as [-> Np]. simpl. split; auto. intuition.
Qed.

Lemma split_at_None x c : split_at x c = None -> ~ In x c.
Proof.
  induction c as [|y t IH]; simpl; [tauto|].
  destruct (Nat.eqb_spec y x) as [->|N]; [discriminate|].
  destruct (split_at x t) as [[p q]|]; [discriminate|]. intros _ [E|I]; auto. apply IH; auto.
Qed.

Lemma split_at_split x p q : ~ In x p -> split_at x (p ++ x :: q) = Some (p, q).
Proof.
  intro N. induction p as [|y t IH]; simpl.
  - rewrite Nat.eqb_refl. reflexivity.
  - destruct (Nat.eqb_spec y x) as [->|]; [simpl in N; tauto|]. rewrite IH; auto. simpl in N; tauto.
Qed.

Lemma rot_to_Some x c c' : rot_to x c = Some c' -> exists p q, c = p ++ x :: q /\ c' = x :: q ++ p /\ ~ In x p.
Proof.
  unfold rot_to. destruct (split_at x c) as [[p q]|] eqn:E; [|discriminate].
  intro H; injection H as <-. destruct (split_at_Some _ _ _ _ E). eauto.
Qed.

Lemma rot_to_None x c : rot_to x c = None -> ~ In x c.
Proof. unfold rot_to. destruct (split_at x c) as [[p q]|] eqn:E; [discriminate|]. intros _. apply split_at_None; auto. Qed.

Lemma extract_Some x cs c' rest :
  extract x cs = Some (c', rest) ->
  exists pre c post p q, cs = pre ++ c :: post /\ rest = pre ++ post /\ c = p ++ x :: q /\ c' = x :: q ++ p.
Proof.
  revert c' rest; induction cs as [|c t IH]; intros c' rest H; simpl in H; [discriminate|].
  destruct (rot_to x c) as [c1|] eqn:E.
  - injection H as <- <-. destruct (rot_to_Some _ _ _ E) as (p & q & -> & -> & _).
    exists [], (p ++ x :: q), t, p, q. auto.
  - destruct (extract x t) as [[c1 t1]|]; [|discriminate]. injection H as <- <-.
    destruct (IH _ _ eq_refl) as (pre & c0 & post & p & q & -> & -> & -> & ->).
    exists (c :: pre), (p ++ x :: q), post, p, q. auto.
Qed.

Lemma extract_None x cs : extract x cs = None -> ~ In x (concat cs).
Proof.
  induction cs as [|c t IH]; simpl; [tauto|].
  destruct (rot_to x c) as [c1|] eqn:E; [discriminate|].
  destruct (extract x t) as [[c1 t1]|]; [discriminate|].
  intros _ I. apply in_app_iff in I as [I|I]; [eapply rot_to_None; eauto|apply IH; auto].
Qed.

Lemma concat_mid {A} (pre : list (list A)) c post : concat (pre ++ c :: post) = concat pre ++ c ++ concat post.
Proof. rewrite concat_app. reflexivity. Qed.

Lemma perm_extract {A} (pre : list (list A)) (p q : list A) x post :
  Permutation (concat (pre ++ (p ++ x :: q) :: post)) ((x :: q ++ p) ++ concat (pre ++ post)).
Proof.
  rewrite concat_mid, concat_app.
  apply Permutation_trans with ((p ++ x :: q) ++ concat pre ++ concat post).
  - rewrite (app_assoc (concat pre)), (app_assoc (p ++ x :: q) (concat pre)).
    apply Permutation_app_tail. apply Permutation_app_comm.
  - apply Permutation_app_tail. change (x :: q ++ p) with ((x :: q) ++ p). apply Permutation_app_comm.
Qed.

(* ================= Part D: re-establishing the invariant ================= *)

Lemma in_concat_iff {A} (x : A) (ls : list (list A)) : In x (concat ls) <-> exists l, In l ls /\ In x l.
Proof. rewrite in_concat. firstorder. Qed.

(* Replace the cycles whose nodes are [changed] by the cycles [news] (nodes: changed plus
   the newly initialised ones); every other cycle and every other node is untouched. *)
Lemma RRep_replace h a h' vs' changed rest newly news :
  RRep h a ->
  Permutation (concat (ra_cycles a)) (changed ++ concat rest) ->
  (forall d, In d rest -> In d (ra_cycles a)) ->
  length h <= length h' ->
  (length h' = length vs' /\ forall j, j < length h' -> nth_error vs' j = Some (rvl h' j)) ->
  NoDup newly -> (forall j, In j newly -> ~ In j (concat (ra_cycles a)) /\ j < length h') ->
  Permutation (concat news) (newly ++ changed) ->
  (forall c, In c news -> exists x t, c = x :: t /\ chain (rnx h') (rpv h') x t x) ->
  (forall j, ~ In j (newly ++ changed) -> rnx h' j = rnx h j /\ rpv h' j = rpv h j) ->
  RRep h' (RA (news ++ rest) vs').
Proof.
  intros R P Hrest Hlen Hv NDn Hnew Pn Hc Hfr.
  pose proof (RR_nodup _ _ R) as ND.
  assert (ND2 : NoDup (changed ++ concat rest)) by (eapply Permutation_NoDup; eauto).
  apply NoDup_app_iff in ND2 as (NDc & NDr & Dcr).
  assert (Hrest_fr : forall j, In j (concat rest) -> rnx h' j = rnx h j /\ rpv h' j = rpv h j).
  { intros j Ij. apply Hfr. intro I. apply in_app_iff in I as [I|I].
    - destruct (Hnew j I) as [N _]. apply N. eapply Permutation_in; [apply Permutation_sym; exact P|].
      apply in_or_app; auto.
    - apply (Dcr j I Ij). }
  constructor; cbn [ra_cycles ra_vals].
  - exact Hv.
  - intros c Ic. apply in_app_iff in Ic as [Ic|Ic]; [auto|].
    destruct (RR_cyc _ _ R c (Hrest c Ic)) as (x & t & -> & C). exists x, t. split; auto.
    assert (In_c : forall y, In y (x :: t) -> In y (concat rest)).
    { intros y Iy. apply in_concat_iff. eauto. }
    eapply chain_frame; [| |exact C].
    + intros y Hy. apply Hrest_fr, In_c. destruct Hy as [->|]; simpl; auto.
    + intros y Hy. apply Hrest_fr, In_c. destruct Hy as [Hy| ->]; simpl; auto.
  - rewrite concat_app. eapply Permutation_NoDup.
    + apply Permutation_sym. apply Permutation_app_tail. exact Pn.
    + rewrite <- app_assoc. apply NoDup_app_iff. split; auto. split.
      * apply NoDup_app_iff. auto.
      * intros j Ij I. destruct (Hnew j Ij) as [N _]. apply N.
        eapply Permutation_in; [apply Permutation_sym; exact P|]. exact I.
  - intros j Ij. rewrite concat_app in Ij. apply in_app_iff in Ij as [Ij|Ij].
    + apply (Permutation_in _ Pn) in Ij. apply in_app_iff in Ij as [Ij|Ij]; [apply Hnew; auto|].
      apply Nat.lt_le_trans with (length h); auto. apply (RR_alloc _ _ R).
      eapply Permutation_in; [apply Permutation_sym; exact P|]. apply in_or_app; auto.
    + apply Nat.lt_le_trans with (length h); auto. apply (RR_alloc _ _ R).
      eapply Permutation_in; [apply Permutation_sym; exact P|]. apply in_or_app; auto.
  - intros j Nj. rewrite concat_app, in_app_iff in Nj.
    assert (N1 : ~ In j (newly ++ changed)).
    { intro I. apply Nj. left. eapply Permutation_in; [apply Permutation_sym; exact Pn|]. exact I. }
    destruct (Hfr j N1) as [-> ->]. apply (RR_zero _ _ R).
    intro I. apply (Permutation_in _ P) in I. apply in_app_iff in I as [I|I]; [|tauto].
    apply N1. apply in_or_app; auto.
Qed.

Lemma RRep_vals_same h a h' :
  RRep h a -> length h' = length h -> (forall j, rvl h' j = rvl h j) ->
  length h' = length (ra_vals a) /\ forall j, j < length h' -> nth_error (ra_vals a) j = Some (rvl h' j).
Proof.
  intros R L V. destruct (RR_vals _ _ R) as [V1 V2]. split; [lia|].
  intros j Hj. rewrite V. apply V2. lia.
Qed.

(* a node of the partition: its cycle written from it, and its links *)
Lemma RRep_member h a x :
  RRep h a -> In x (concat (ra_cycles a)) ->
  exists pre post p q,
    ra_cycles a = pre ++ (p ++ x :: q) :: post /\
    extract x (ra_cycles a) = Some (x :: q ++ p, pre ++ post) /\
    chain (rnx h) (rpv h) x (q ++ p) x /\ NoDup (x :: q ++ p).
Proof.
  intros R I.
  destruct (extract x (ra_cycles a)) as [[c rest]|] eqn:E; [|exfalso; eapply extract_None; eauto].
  destruct (extract_Some _ _ _ _ E) as (pre & c0 & post & p & q & Ecs & -> & -> & ->).
  exists pre, post, p, q. split; auto. split; auto.
  assert (Ic : In (p ++ x :: q) (ra_cycles a)) by (rewrite Ecs; apply in_or_app; simpl; auto).
  destruct (RR_cyc _ _ R _ Ic) as (x0 & t0 & E0 & C).
  pose proof (RR_nodup _ _ R) as ND. rewrite Ecs, concat_mid in ND.
  apply NoDup_app_iff in ND as (_ & ND & _). apply NoDup_app_iff in ND as (ND & _).
  split.
  - destruct p as [|y p']; simpl in E0.
    + injection E0 as <- <-. rewrite app_nil_r. exact C.
    + injection E0 as <- <-. apply chain_app in C as [C1 C2]. apply chain_app. auto.
  - eapply Permutation_NoDup; [|exact ND].
    change (x :: q ++ p) with ((x :: q) ++ p). apply Permutation_app_comm.
Qed.

Lemma RRep_init_iff h a x : RRep h a -> (In x (concat (ra_cycles a)) <-> rnx h x <> None).
Proof.
  intro R. split.
  - intro I. destruct (RRep_member _ _ _ R I) as (pre & post & p & q & _ & _ & C & _).
    rewrite (chain_first _ _ _ _ _ C). discriminate.
  - intro N. destruct (in_dec Nat.eq_dec x (concat (ra_cycles a))); auto.
    exfalso. apply N. apply (RR_zero _ _ R). auto.
Qed.

Lemma ext_member h a x pre post p q :
  RRep h a -> extract x (ra_cycles a) = Some (x :: q ++ p, pre ++ post) ->
  ext (ra_cycles a) x = (x :: q ++ p, pre ++ post).
Proof. intros _ E. unfold ext. rewrite E. reflexivity. Qed.

(* touching an initialised node: nothing is written, the partition is only rewritten *)
Lemma touch_init h a x :
  RRep h a -> In x (concat (ra_cycles a)) ->
  ring_Next (Some x) h = Ok (Some (a_succ (ra_cycles a) x), h) /\
  ring_Prev (Some x) h = Ok (Some (a_pred (ra_cycles a) x), h) /\
  RRep h (RA (a_touch (ra_cycles a) x) (ra_vals a)).
Proof.
  intros R I. destruct (RRep_member _ _ _ R I) as (pre & post & p & q & Ecs & Ex & C & ND).
  assert (Hx : x < length h) by (apply (RR_alloc _ _ R); auto).
  destruct (rhget_eq h x Hx) as (c & Eg & En & Ep & _).
  unfold ring_Next, ring_Prev, a_succ, a_pred, a_touch, ext. rewrite Eg, Ex. cbn [bind fst c_next c_prev tl].
  rewrite En, Ep, (chain_first _ _ _ _ _ C), (chain_last _ _ _ _ _ C). cbn [ptr_eqb option_eqb].
  split; [reflexivity|]. split; [reflexivity|].
  apply (RRep_replace h a h (ra_vals a) (p ++ x :: q) (pre ++ post) [] [x :: q ++ p]); auto.
  - rewrite Ecs, concat_mid, concat_app.
    rewrite (app_assoc (concat pre)), (app_assoc (p ++ x :: q) (concat pre)).
    apply Permutation_app_tail. apply Permutation_app_comm.
  - intros d Id. rewrite Ecs. apply in_app_iff in Id as [Id|Id]; apply in_or_app; simpl; auto.
  - apply (RR_vals _ _ R).
  - constructor.
  - intros j [].
  - simpl. rewrite app_nil_r. change (x :: q ++ p) with ((x :: q) ++ p). apply Permutation_app_comm.
  - intros c0 [<-|[]]. eauto.
Qed.

(* touching a zero Ring: r.next = r; r.prev = r *)
Lemma touch_zero h a x :
  RRep h a -> x < length h -> ~ In x (concat (ra_cycles a)) ->
  let h' := map_nth (set_rprev (Some x)) x (map_nth (set_rnext (Some x)) x h) in
  ring_Next (Some x) h = Ok (Some (a_succ (ra_cycles a) x), h') /\
  ring_Prev (Some x) h = Ok (Some (a_pred (ra_cycles a) x), h') /\
  RRep h' (RA (a_touch (ra_cycles a) x) (ra_vals a)).
Proof.
  intros R Hx N h'.
  destruct (rhget_eq h x Hx) as (c & Eg & En & Ep & _).
  destruct (RR_zero _ _ R x N) as [Zn Zp].
  assert (Ex : extract x (ra_cycles a) = None).
  { destruct (extract x (ra_cycles a)) as [[c0 rest]|] eqn:E; auto. exfalso. apply N.
    destruct (extract_Some _ _ _ _ E) as (pre & c1 & post & p & q & -> & _ & -> & _).
    rewrite concat_mid. apply in_or_app. right. apply in_or_app. left. apply in_or_app. simpl; auto. }
  unfold ring_Next, ring_Prev, ring_init, a_succ, a_pred, a_touch, ext. rewrite Eg, Ex. cbn [bind fst c_next c_prev tl hd last].
  rewrite En, Zn. cbn [ptr_eqb option_eqb].
  rewrite rhupd_eq by auto. cbn [bind]. rewrite rhupd_eq by rsize_tac. cbn [bind]. fold h'.
  split; [reflexivity|]. split; [reflexivity|].
  apply (RRep_replace h a h' (ra_vals a) [] (ra_cycles a) [x] [[x]]); auto.
  - unfold h'. autorewrite with rheap. lia.
  - apply (RRep_vals_same _ _ _ R); unfold h'; [now autorewrite with rheap|].
    intro j. now autorewrite with rheap.
  - constructor; auto. constructor.
  - intros j [<-|[]]. split; auto. unfold h'. now autorewrite with rheap.
  - intros c0 [<-|[]]. exists x, []. split; auto. unfold h'. cbn [chain]. autorewrite with rheap.
    rewrite Nat.eqb_refl. auto.
  - intros j Nj. simpl in Nj. assert (j <> x) by (intros ->; tauto). unfold h'. autorewrite with rheap.
    apply Nat.eqb_neq in H. rewrite H. auto.
Qed.

Lemma in_a_touch cs x j : In j (concat (a_touch cs x)) <-> j = x \/ In j (concat cs).
Proof.
  unfold a_touch, ext. destruct (extract x cs) as [[c rest]|] eqn:E.
  - destruct (extract_Some _ _ _ _ E) as (pre & c1 & post & p & q & -> & -> & -> & ->).
    cbn [concat]. rewrite concat_mid, concat_app, !in_app_iff. simpl. rewrite !in_app_iff. simpl. intuition congruence.
  - simpl. intuition congruence.
Qed.

Lemma touch_sim h a x :
  RRep h a -> x < length h ->
  exists h', ring_Next (Some x) h = Ok (Some (a_succ (ra_cycles a) x), h') /\
             ring_Prev (Some x) h = Ok (Some (a_pred (ra_cycles a) x), h') /\
             RRep h' (RA (a_touch (ra_cycles a) x) (ra_vals a)) /\ length h' = length h.
Proof.
  intros R Hx. destruct (in_dec Nat.eq_dec x (concat (ra_cycles a))) as [I|N].
  - exists h. destruct (touch_init _ _ _ R I) as (A & B & C). auto.
  - eexists. destruct (touch_zero _ _ _ R Hx N) as (A & B & C).
    split; [exact A|]. split; [exact B|]. split; [exact C|]. now autorewrite with rheap.
Qed.

(* ================= Part E: the relinking of Link, on functions ================= *)
Section LinkPure.
Variables (nx pv : nat -> ptr) (r s n p : nat).
(* r.next = s; s.prev = r; n.prev = p; p.next = n *)
Let nx' := upd (upd nx r (Some s)) p (Some n).
Let pv' := upd (upd pv s (Some r)) n (Some p).

Lemma link_self A :
  chain nx pv r A r -> NoDup (r :: A) -> n = hd r A -> p = last A r -> s = r ->
  chain nx' pv' r [] r /\ (A <> [] -> chain nx' pv' n (tl A) n).
Proof.
  intros C D En Ep Es. subst s. apply NoDup_cons_iff in D as [Nr D].
  destruct A as [|n0 A'].
  - simpl in En, Ep. subst n p. split; [|congruence]. unfold nx', pv'. split; upd_tac.
  - simpl in En. subst n0. rewrite last_cons in Ep. destruct C as (C1 & C2 & C3).
    assert (Npr : p <> r).
    { rewrite Ep. intros E. apply Nr. rewrite <- E. destruct (last_in_or n A') as [[-> _]|I]; simpl; auto. }
    assert (Nnr : n <> r) by (intros ->; apply Nr; simpl; auto).
    split.
    + unfold nx', pv'. split; upd_tac.
    + intros _. cbn [tl]. apply NoDup_cons_iff in D as [Nn D].
      apply (chain_retarget nx pv nx' pv' n A' r n C3).
      * constructor; auto.
      * intros x Hx Nx. rewrite <- Ep in Nx. unfold nx'. rewrite upd_other by auto. apply upd_other.
        intros ->. apply Nr. simpl. destruct Hx as [->|]; auto.
      * intros x Hx. unfold pv'. rewrite upd_other by (intros ->; auto). apply upd_other.
        intros ->. apply Nr. simpl; auto.
      * rewrite <- Ep. unfold nx'. apply upd_same.
      * rewrite <- Ep. unfold pv'. apply upd_same.
Qed.

Lemma link_same A1 B :
  chain nx pv r (A1 ++ s :: B) r -> NoDup (r :: A1 ++ s :: B) -> n = hd s A1 -> p = last A1 r ->
  chain nx' pv' r (s :: B) r /\ (A1 <> [] -> chain nx' pv' n (tl A1) n).
Proof.
  intros C D En Ep. apply NoDup_cons_iff in D as [Nr D].
  rewrite in_app_iff in Nr. simpl in Nr.
  apply NoDup_app_iff in D as (D1 & D2 & D3). apply NoDup_cons_iff in D2 as [NsB DB].
  assert (NsA : ~ In s A1) by (intro X; apply (D3 _ X); simpl; auto).
  assert (Nsr : s <> r) by (intros ->; tauto).
  apply chain_app in C as [C1 C2].
  assert (HB : chain nx' pv' s B r).
  { eapply chain_frame; [| |exact C2].
    - intros x Hx. unfold nx'.
      assert (x <> p).
      { rewrite Ep. intros ->. destruct (last_in_or r A1) as [[E _]|I].
        - rewrite E in Hx. destruct Hx as [Hx|Hx]; [congruence|tauto].
        - destruct Hx as [Hx|Hx]; [rewrite Hx in I; tauto|]. apply (D3 _ I). simpl; auto. }
      rewrite upd_other by auto. apply upd_other. intros ->. destruct Hx; [congruence|tauto].
    - intros x Hx. unfold pv'.
      assert (x <> n).
      { rewrite En. intros ->. destruct (hd_in_or s A1) as [[E _]|I].
        - rewrite E in Hx. destruct Hx as [Hx|Hx]; [tauto|congruence].
        - destruct Hx as [Hx|Hx]; [apply (D3 _ I); simpl; auto|]. rewrite Hx in I. tauto. }
      rewrite upd_other by auto. apply upd_other. intros ->. destruct Hx; [tauto|congruence]. }
  destruct A1 as [|n0 A1'].
  - simpl in En, Ep. subst n p. split; [|congruence].
    cbn [chain]. split; [unfold nx'; apply upd_same|]. split; [unfold pv'; apply upd_same|]. exact HB.
  - simpl in En. subst n0. rewrite last_cons in Ep. destruct C1 as (C1 & C1' & C1'').
    apply NoDup_cons_iff in D1 as [NnA D1].
    assert (Nnr : n <> r) by (intros ->; simpl in Nr; tauto).
    assert (Nns : n <> s) by (intros ->; simpl in NsA; tauto).
    assert (Npr : p <> r).
    { rewrite Ep. intros E. destruct (last_in_or n A1') as [[E1 _]|I]; [congruence|]. rewrite E in I. simpl in Nr; tauto. }
    assert (Nps : p <> s).
    { rewrite Ep. intros E. destruct (last_in_or n A1') as [[E1 _]|I]; [congruence|]. rewrite E in I. simpl in NsA; tauto. }
    split.
    + cbn [chain]. split; [unfold nx'; rewrite upd_other by auto; apply upd_same|].
      split; [unfold pv'; rewrite upd_other by auto; apply upd_same|]. exact HB.
    + intros _. cbn [tl].
      apply (chain_retarget nx pv nx' pv' n A1' s n C1'').
      * constructor; auto.
      * intros x Hx Nx. rewrite <- Ep in Nx. unfold nx'. rewrite upd_other by auto. apply upd_other.
        intros ->. simpl in Nr. destruct Hx as [->|]; tauto.
      * intros x Hx. unfold pv'. rewrite upd_other by (intros ->; auto). apply upd_other.
        intros ->. simpl in NsA. tauto.
      * rewrite <- Ep. unfold nx'. apply upd_same.
      * rewrite <- Ep. unfold pv'. apply upd_same.
Qed.

Lemma link_diff A B :
  chain nx pv r A r -> chain nx pv s B s -> NoDup ((r :: A) ++ (s :: B)) -> n = hd r A -> p = last B s ->
  chain nx' pv' r (s :: B ++ A) r.
Proof.
  intros CA CB D En Ep.
  apply NoDup_app_iff in D as (DA & DB & Dab).
  apply NoDup_cons_iff in DA as [NrA DA]. apply NoDup_cons_iff in DB as [NsB DB].
  assert (Nsr : s <> r) by (intros ->; apply (Dab r); simpl; auto).
  assert (Hp : p = s \/ In p B) by (rewrite Ep; destruct (last_in_or s B) as [[-> _]|]; auto).
  assert (Hn : n = r \/ In n A) by (rewrite En; destruct (hd_in_or r A) as [[-> _]|]; auto).
  assert (Npr : p <> r) by (intros ->; apply (Dab r); simpl; auto; destruct Hp; auto).
  assert (Nns : n <> s) by (intros ->; apply (Dab s); simpl; auto; destruct Hn; auto).
  assert (NpA : ~ In p A) by (intro X; apply (Dab p); simpl; auto; destruct Hp; auto).
  assert (NnB : ~ In n B) by (intro X; apply (Dab n); simpl; auto; destruct Hn; auto).
  cbn [chain]. split; [unfold nx'; rewrite upd_other by auto; apply upd_same|].
  split; [unfold pv'; rewrite upd_other by auto; apply upd_same|].
  assert (HB : chain nx' pv' s B n).
  { apply (chain_retarget nx pv nx' pv' s B s n CB).
    - constructor; auto.
    - intros x Hx Nx. rewrite <- Ep in Nx. unfold nx'. rewrite upd_other by auto. apply upd_other.
      intros ->. apply (Dab r); simpl; auto. destruct Hx; auto.
    - intros x Hx. unfold pv'. rewrite upd_other by (intros ->; auto). apply upd_other. intros ->. auto.
    - rewrite <- Ep. unfold nx'. apply upd_same.
    - rewrite <- Ep. unfold pv'. apply upd_same. }
  destruct A as [|n0 A'].
  - simpl in En. subst n. rewrite app_nil_r. exact HB.
  - simpl in En. subst n0. destruct CA as (CA1 & CA2 & CA3).
    apply chain_app. split; [exact HB|].
    apply NoDup_cons_iff in DA as [NnA' DA'].
    eapply chain_frame; [| |exact CA3].
    + intros x Hx. unfold nx'.
      assert (x <> p) by (intros ->; apply NpA; simpl; destruct Hx as [->|]; auto).
      rewrite upd_other by auto. apply upd_other. intros ->. apply NrA. simpl. destruct Hx as [->|]; auto.
    + intros x Hx. unfold pv'.
      assert (x <> n).
      { intros ->. destruct Hx as [Hx|Hx]; [tauto|]. apply NrA. rewrite <- Hx. simpl; auto. }
      rewrite upd_other by auto. apply upd_other. intros ->.
      destruct Hx as [Hx|Hx]; [|congruence]. apply (Dab s); simpl; auto.
Qed.
End LinkPure.

Lemma RRep_ptr_lt h a j k : RRep h a -> (rnx h j = Some k \/ rpv h j = Some k) -> k < length h.
Proof.
  intros R H.
  assert (I : In j (concat (ra_cycles a))).
  { destruct (in_dec Nat.eq_dec j (concat (ra_cycles a))); auto.
    destruct (RR_zero _ _ R j n) as [A B]. destruct H; congruence. }
  destruct (RRep_member _ _ _ R I) as (pre & post & p & q & Ecs & _ & C & _).
  assert (Sub : forall y, y = j \/ In y (q ++ p) -> y < length h).
  { intros y Hy. apply (RR_alloc _ _ R). rewrite Ecs, concat_mid. apply in_or_app. right. apply in_or_app. left.
    destruct Hy as [->|Hy]; [apply in_or_app; simpl; auto|].
    apply in_app_iff in Hy as [Hy|Hy]; apply in_or_app; simpl; auto. }
  destruct H as [H|H].
  - rewrite (chain_first _ _ _ _ _ C) in H. injection H as <-. apply Sub.
    destruct (hd_in_or j (q ++ p)) as [[-> _]|]; auto.
  - rewrite (chain_last _ _ _ _ _ C) in H. injection H as <-. apply Sub.
    destruct (last_in_or j (q ++ p)) as [[-> _]|]; auto.
Qed.

Lemma link_heap (h : rheap) r s n p :
  r < length h -> s < length h -> n < length h -> p < length h ->
  exists h',
    (do h1 <- hupd h (Some r) (set_rnext (Some s));
     do h2 <- hupd h1 (Some s) (set_rprev (Some r));
     do h3 <- hupd h2 (Some n) (set_rprev (Some p));
     do h4 <- hupd h3 (Some p) (set_rnext (Some n));
     Ok (Some n, h4)) = Ok (Some n, h') /\
    length h' = length h /\
    (forall j, rnx h' j = upd (upd (rnx h) r (Some s)) p (Some n) j) /\
    (forall j, rpv h' j = upd (upd (rpv h) s (Some r)) n (Some p) j) /\
    (forall j, rvl h' j = rvl h j).
Proof.
  intros Hr Hs Hn Hp.
  rewrite rhupd_eq by auto. cbn [bind]. rewrite rhupd_eq by rsize_tac. cbn [bind].
  rewrite rhupd_eq by rsize_tac. cbn [bind]. rewrite rhupd_eq by rsize_tac. cbn [bind].
  eexists. split; [reflexivity|]. unfold upd.
  split; [now autorewrite with rheap|]. repeat split; intro j; now autorewrite with rheap.
Qed.

Lemma cons_ne_app (c : list nat) rest : cons_ne c rest = cons_ne c [] ++ rest.
Proof. destruct c; reflexivity. Qed.

Lemma concat_cons_ne (c : list nat) : concat (cons_ne c []) = c.
Proof. destruct c; simpl; [reflexivity|]. rewrite app_nil_r. reflexivity. Qed.

Lemma hd_tl_eq (d : nat) l : l <> [] -> l = hd d l :: tl l.
Proof. destruct l; [congruence|reflexivity]. Qed.

(* r.next = s; s.prev = r; n.prev = p; p.next = n on a represented heap *)
Lemma link_core h a r s n p :
  RRep h a -> In r (concat (ra_cycles a)) -> In s (concat (ra_cycles a)) ->
  rnx h r = Some n -> rpv h s = Some p ->
  exists h',
    (do h1 <- hupd h (Some r) (set_rnext (Some s));
     do h2 <- hupd h1 (Some s) (set_rprev (Some r));
     do h3 <- hupd h2 (Some n) (set_rprev (Some p));
     do h4 <- hupd h3 (Some p) (set_rnext (Some n));
     Ok (Some n, h4)) = Ok (Some n, h') /\
    RRep h' (RA (a_link (ra_cycles a) r s) (ra_vals a)) /\ length h' = length h.
Proof.
  intros R Ir Is En Ep.
  assert (Hr : r < length h) by (apply (RR_alloc _ _ R); auto).
  assert (Hs : s < length h) by (apply (RR_alloc _ _ R); auto).
  assert (Hn : n < length h) by (eapply RRep_ptr_lt; eauto).
  assert (Hp : p < length h) by (eapply RRep_ptr_lt; eauto).
  destruct (link_heap h r s n p Hr Hs Hn Hp) as (h' & E & L & Nx & Pv & Vl).
  exists h'. split; [exact E|]. split; [|exact L].
  assert (HV := RRep_vals_same _ _ _ R L Vl).
  destruct (RRep_member _ _ _ R Ir) as (pre & post & p0 & q0 & Ecs & Ex & C & ND).
  set (A := q0 ++ p0) in *.
  assert (EnA : n = hd r A) by (rewrite (chain_first _ _ _ _ _ C) in En; congruence).
  assert (Pcs : Permutation (concat (ra_cycles a)) ((r :: A) ++ concat (pre ++ post))).
  { rewrite Ecs. apply perm_extract. }
  assert (Hrest : forall d, In d (pre ++ post) -> In d (ra_cycles a)).
  { intros d Id. rewrite Ecs. apply in_app_iff in Id as [Id|Id]; apply in_or_app; simpl; auto. }
  unfold a_link, ext. rewrite Ex. cbn [tl]. fold A.
  destruct (Nat.eqb_spec s r) as [Esr|Nsr].
  - (* Link(r, r): r alone; the rest of its ring stays a ring *)
    assert (EpA : p = last A r) by (subst s; rewrite (chain_last _ _ _ _ _ C) in Ep; congruence).
    destruct (link_self (rnx h) (rpv h) r s n p A C ND EnA EpA Esr) as [C1 C2].
    rewrite cons_ne_app. change ([r] :: cons_ne A [] ++ pre ++ post) with (([r] :: cons_ne A []) ++ pre ++ post).
    apply (RRep_replace h a h' (ra_vals a) (r :: A) (pre ++ post) [] ([r] :: cons_ne A [])); auto; try lia.
    + constructor.
    + intros j [].
    + cbn [concat app]. rewrite concat_cons_ne. reflexivity.
    + intros c [<-|Ic].
      * exists r, []. split; auto. eapply chain_ext; [| |exact C1]; auto.
      * destruct A as [|a0 A']; [destruct Ic|]. destruct Ic as [<-|[]].
        exists n, A'. simpl in EnA. subst a0. split; auto.
        eapply chain_ext; [| |exact (C2 ltac:(discriminate))]; auto.
    + intros j Nj. simpl in Nj. rewrite Nx, Pv. unfold upd.
      assert (j <> r) by (intros ->; tauto).
      assert (j <> p). { rewrite EpA. intros ->. destruct (last_in_or r A) as [[E0 _]|I0]; [congruence|tauto]. }
      assert (j <> n). { rewrite EnA. intros ->. destruct (hd_in_or r A) as [[E0 _]|I0]; [congruence|tauto]. }
      assert (j <> s) by congruence.
      repeat match goal with |- context[Nat.eqb j ?y] => rewrite (proj2 (Nat.eqb_neq j y)) by assumption end. auto.
  - destruct (split_at s A) as [[A1 B]|] eqn:Es.
    + (* same ring: A1 is cut out *)
      destruct (split_at_Some _ _ _ _ Es) as [EA NsA1].
      assert (EpA : p = last A1 r).
      { rewrite EA in C. destruct (chain_at _ _ _ _ _ _ _ C) as [_ Q]. congruence. }
      assert (EnA1 : n = hd s A1) by (rewrite EnA, EA; destruct A1; reflexivity).
      rewrite EA in C, ND.
      destruct (link_same (rnx h) (rpv h) r s n p A1 B C ND EnA1 EpA) as [C1 C2].
      rewrite cons_ne_app.
      change ((r :: s :: B) :: cons_ne A1 [] ++ pre ++ post) with (((r :: s :: B) :: cons_ne A1 []) ++ pre ++ post).
      apply (RRep_replace h a h' (ra_vals a) (r :: A) (pre ++ post) [] ((r :: s :: B) :: cons_ne A1 [])); auto; try lia.
      * constructor.
      * intros j [].
      * cbn [concat app]. rewrite concat_cons_ne, EA.
        apply perm_skip. change (s :: B) with ([s] ++ B). rewrite (app_assoc A1), <- app_assoc.
        simpl. apply Permutation_sym. apply Permutation_trans with ((s :: B) ++ A1); [apply Permutation_app_comm|reflexivity].
      * intros c [<-|Ic].
        -- exists r, (s :: B). split; auto. eapply chain_ext; [| |exact C1]; auto.
        -- destruct A1 as [|a0 A1']; [destruct Ic|]. destruct Ic as [<-|[]].
           exists n, A1'. simpl in EnA1. subst a0. split; auto.
           eapply chain_ext; [| |exact (C2 ltac:(discriminate))]; auto.
      * intros j Nj. simpl in Nj. rewrite EA in Nj. rewrite Nx, Pv. unfold upd.
        rewrite in_app_iff in Nj. simpl in Nj.
        assert (j <> r) by (intros ->; tauto). assert (j <> s) by (intros ->; tauto).
        assert (j <> p). { rewrite EpA. intros ->. destruct (last_in_or r A1) as [[E0 _]|I0]; [congruence|tauto]. }
        assert (j <> n). { rewrite EnA1. intros ->. destruct (hd_in_or s A1) as [[E0 _]|I0]; [congruence|tauto]. }
        repeat match goal with |- context[Nat.eqb j ?y] => rewrite (proj2 (Nat.eqb_neq j y)) by assumption end. auto.
    + (* different rings: s's ring is spliced in after r *)
      pose proof (split_at_None _ _ Es) as NsA.
      destruct (touch_init _ _ _ R Ir) as (_ & _ & R1).
      unfold a_touch, ext in R1. rewrite Ex in R1. fold A in R1.
      assert (Is1 : In s (concat (ra_cycles (RA ((r :: A) :: pre ++ post) (ra_vals a))))).
      { cbn [ra_cycles]. eapply Permutation_in; [exact Pcs|]. exact Is. }
      destruct (RRep_member _ _ _ R1 Is1) as (pre2 & post2 & p2 & q2 & Ecs2 & Ex2 & C2 & ND2).
      cbn [ra_cycles] in Ecs2, Ex2.
      (* the extraction of s skips r's cycle *)
      cbn [extract] in Ex2.
      assert (Rn : rot_to s (r :: A) = None).
      { unfold rot_to. cbn [split_at]. apply Nat.eqb_neq in Nsr. rewrite Nat.eqb_sym, Nsr, Es. reflexivity. }
      rewrite Rn in Ex2.
      destruct (extract s (pre ++ post)) as [[c2 rest2]|] eqn:Ex3; [|discriminate].
      injection Ex2 as Ec2 Er2. set (B := q2 ++ p2) in *.
      subst c2.
      assert (EpB : p = last B s) by (rewrite (chain_last _ _ _ _ _ C2) in Ep; congruence).
      destruct (extract_Some _ _ _ _ Ex3) as (pre3 & c3 & post3 & p3 & q3 & Ecs3 & -> & -> & Ec3).
      injection Ec3 as Ec3.
      assert (Pcs3 : Permutation (concat (ra_cycles a)) (((r :: A) ++ (s :: B)) ++ concat (pre3 ++ post3))).
      { eapply Permutation_trans; [exact Pcs|]. rewrite <- app_assoc. apply Permutation_app_head.
        rewrite Ecs3. rewrite Ec3. apply perm_extract. }
      assert (NDab : NoDup ((r :: A) ++ (s :: B))).
      { pose proof (RR_nodup _ _ R) as NDc. apply (Permutation_NoDup Pcs3) in NDc.
        apply NoDup_app_iff in NDc. tauto. }
      pose proof (link_diff (rnx h) (rpv h) r s n p A B C C2 NDab EnA EpB) as C'.
      change ((r :: (s :: B) ++ A) :: pre3 ++ post3) with ([r :: (s :: B) ++ A] ++ pre3 ++ post3).
      apply (RRep_replace h a h' (ra_vals a) ((r :: A) ++ (s :: B)) (pre3 ++ post3) [] [r :: (s :: B) ++ A]); auto; try lia.
      * intros d Id. apply Hrest. rewrite Ecs3. apply in_app_iff in Id as [Id|Id]; apply in_or_app; simpl; auto.
      * constructor.
      * intros j [].
      * cbn [concat app]. rewrite app_nil_r. apply perm_skip.
        change (s :: B ++ A) with ((s :: B) ++ A). apply Permutation_app_comm.
      * intros c [<-|[]]. exists r, (s :: B ++ A). split; auto. eapply chain_ext; [| |exact C']; auto.
      * intros j Nj. cbn [app] in Nj. rewrite Nx, Pv. unfold upd.
        assert (Nj' : j <> r /\ ~ In j A /\ j <> s /\ ~ In j B).
        { simpl in Nj. rewrite in_app_iff in Nj. simpl in Nj. repeat split; try (intros ->); tauto. }
        destruct Nj' as (J1 & J2 & J3 & J4).
        assert (j <> p). { rewrite EpB. intros ->. destruct (last_in_or s B) as [[E0 _]|I0]; [congruence|tauto]. }
        assert (j <> n). { rewrite EnA. intros ->. destruct (hd_in_or r A) as [[E0 _]|I0]; [congruence|tauto]. }
        repeat match goal with |- context[Nat.eqb j ?y] => rewrite (proj2 (Nat.eqb_neq j y)) by assumption end. auto.
Qed.

(* ================= Part F: the operations ================= *)

Lemma member_links h a x :
  RRep h a -> In x (concat (ra_cycles a)) ->
  rnx h x = Some (a_succ (ra_cycles a) x) /\ rpv h x = Some (a_pred (ra_cycles a) x) /\
  In (a_succ (ra_cycles a) x) (concat (ra_cycles a)) /\ In (a_pred (ra_cycles a) x) (concat (ra_cycles a)).
Proof.
  intros R I. destruct (RRep_member _ _ _ R I) as (pre & post & p & q & Ecs & Ex & C & ND).
  unfold a_succ, a_pred, ext. rewrite Ex. cbn [fst]. unfold c_next, c_prev. cbn [tl].
  split; [eapply chain_first; eauto|]. split; [eapply chain_last; eauto|].
  assert (Sub : forall y, y = x \/ In y (q ++ p) -> In y (concat (ra_cycles a))).
  { intros y Hy. rewrite Ecs, concat_mid. apply in_or_app. right. apply in_or_app. left.
    destruct Hy as [->|Hy]; [apply in_or_app; simpl; auto|].
    apply in_app_iff in Hy as [Hy|Hy]; apply in_or_app; simpl; auto. }
  split; apply Sub.
  - destruct (hd_in_or x (q ++ p)) as [[-> _]|]; auto.
  - destruct (last_in_or x (q ++ p)) as [[-> _]|]; auto.
Qed.

(* r.Next() / r.Prev() on a non-nil node: a zero Ring becomes a one-element ring, nothing else changes *)
Lemma touch_sim2 h a x :
  RRep h a -> x < length h ->
  exists h', ring_Next (Some x) h = Ok (Some (a_succ (ra_cycles a) x), h') /\
             ring_Prev (Some x) h = Ok (Some (a_pred (ra_cycles a) x), h') /\
             RRep h' (RA (a_touch (ra_cycles a) x) (ra_vals a)) /\ length h' = length h /\
             rnx h' x = Some (a_succ (ra_cycles a) x) /\ rpv h' x = Some (a_pred (ra_cycles a) x) /\
             (forall j, j <> x -> rnx h' j = rnx h j /\ rpv h' j = rpv h j) /\
             (forall j, rvl h' j = rvl h j) /\
             (In x (concat (ra_cycles a)) -> h' = h).
Proof.
  intros R Hx. destruct (in_dec Nat.eq_dec x (concat (ra_cycles a))) as [I|N].
  - exists h. destruct (touch_init _ _ _ R I) as (A & B & C).
    destruct (member_links _ _ _ R I) as (L1 & L2 & _). repeat (split; auto).
  - destruct (touch_zero _ _ _ R Hx N) as (A & B & C).
    eexists. split; [exact A|]. split; [exact B|]. split; [exact C|].
    assert (Ex : extract x (ra_cycles a) = None).
    { destruct (extract x (ra_cycles a)) as [[c0 rest]|] eqn:E; auto. exfalso. apply N.
      destruct (extract_Some _ _ _ _ E) as (pre & c1 & post & p & q & -> & _ & -> & _).
      rewrite concat_mid. apply in_or_app. right. apply in_or_app. left. apply in_or_app. simpl; auto. }
    unfold a_succ, a_pred, ext. rewrite Ex. cbn [fst]. unfold c_next, c_prev. cbn [tl hd last].
    split; [now autorewrite with rheap|].
    split; [autorewrite with rheap; rewrite Nat.eqb_refl; reflexivity|].
    split; [autorewrite with rheap; rewrite Nat.eqb_refl; reflexivity|].
    split.
    { intros j Nj. autorewrite with rheap. apply Nat.eqb_neq in Nj. rewrite Nj. auto. }
    split; [intro j; now autorewrite with rheap|]. tauto.
Qed.

Lemma rhnd_lt (t : list nat) k x (n : nat) : (forall e, In e t -> e < n) -> rhnd t k = Some x -> x < n.
Proof. intros H E. apply H. unfold rhnd in E. destruct (k <? 0)%Z; [discriminate|]. eapply nth_error_In; eauto. Qed.

(* r.Link(s) *)
Lemma Link_sim h a r s :
  RRep h a -> r < length h -> s < length h ->
  exists h', ring_Link (Some r) (Some s) h = Ok (Some (a_succ (ra_cycles a) r), h') /\
             RRep h' (RA (a_Link (ra_cycles a) r s) (ra_vals a)) /\ length h' = length h.
Proof.
  intros R Hr Hs.
  destruct (touch_sim2 _ _ _ R Hr) as (h1 & E1 & _ & R1 & L1 & N1 & _ & _ & _ & _).
  assert (Hs1 : s < length h1) by lia.
  destruct (touch_sim2 _ _ _ R1 Hs1) as (h2 & _ & E2 & R2 & L2 & _ & P2 & F2 & _ & Same2).
  cbn [ra_cycles ra_vals] in *.
  unfold ring_Link. rewrite E1. cbn [bind]. rewrite E2. cbn [bind].
  assert (Ir : In r (concat (a_touch (a_touch (ra_cycles a) r) s))) by (rewrite !in_a_touch; auto).
  assert (Is : In s (concat (a_touch (a_touch (ra_cycles a) r) s))) by (rewrite !in_a_touch; auto).
  assert (N2 : rnx h2 r = Some (a_succ (ra_cycles a) r)).
  { destruct (Nat.eq_dec r s) as [->|Nrs].
    - rewrite Same2; auto. rewrite in_a_touch. auto.
    - destruct (F2 r Nrs) as [-> _]. exact N1. }
  destruct (link_core h2 _ r s _ _ R2 Ir Is N2 P2) as (h3 & E3 & R3 & L3).
  cbn [ra_cycles ra_vals] in *.
  exists h3. split; [exact E3|]. split; [exact R3|]. lia.
Qed.

Lemma Link_nil_sim h a r :
  RRep h a -> r < length h ->
  exists h', ring_Link (Some r) None h = Ok (Some (a_succ (ra_cycles a) r), h') /\
             RRep h' (RA (a_touch (ra_cycles a) r) (ra_vals a)) /\ length h' = length h.
Proof.
  intros R Hr. destruct (touch_sim2 _ _ _ R Hr) as (h1 & E1 & _ & R1 & L1 & _).
  unfold ring_Link. rewrite E1. cbn [bind]. eauto.
Qed.

(* r.Move(n) *)
Lemma iter_shift {A} (f : A -> A) k x : Nat.iter k f (f x) = f (Nat.iter k f x).
Proof. induction k; simpl; congruence. Qed.

Lemma move_loop_next h a : RRep h a -> forall k x, In x (concat (ra_cycles a)) ->
  move_loop r_next k (Some x) h = Ok (Some (Nat.iter k (a_succ (ra_cycles a)) x)) /\
  In (Nat.iter k (a_succ (ra_cycles a)) x) (concat (ra_cycles a)).
Proof.
  intros R. induction k as [|k IH]; intros x I; cbn [move_loop]; [auto|].
  destruct (member_links _ _ _ R I) as (L1 & _ & I1 & _).
  destruct (rhget_eq h x (RR_alloc _ _ R _ I)) as (c & -> & En & _). cbn [bind]. rewrite En, L1.
  destruct (IH _ I1) as [E I2]. rewrite E. rewrite iter_shift in *. auto.
Qed.

Lemma move_loop_prev h a : RRep h a -> forall k x, In x (concat (ra_cycles a)) ->
  move_loop r_prev k (Some x) h = Ok (Some (Nat.iter k (a_pred (ra_cycles a)) x)) /\
  In (Nat.iter k (a_pred (ra_cycles a)) x) (concat (ra_cycles a)).
Proof.
  intros R. induction k as [|k IH]; intros x I; cbn [move_loop]; [auto|].
  destruct (member_links _ _ _ R I) as (_ & L2 & _ & I1).
  destruct (rhget_eq h x (RR_alloc _ _ R _ I)) as (c & -> & _ & Ep & _). cbn [bind]. rewrite Ep, L2.
  destruct (IH _ I1) as [E I2]. rewrite E. rewrite iter_shift in *. auto.
Qed.

Lemma iter_fix {A} (f : A -> A) k x : f x = x -> Nat.iter k f x = x.
Proof. intro H. induction k; simpl; congruence. Qed.

Lemma ext_singleton x cs : ext ([x] :: cs) x = ([x], cs).
Proof. unfold ext. cbn [extract]. unfold rot_to. cbn [split_at]. rewrite Nat.eqb_refl. reflexivity. Qed.

Lemma Move_sim h a r n :
  RRep h a -> r < length h ->
  let cs1 := a_touch (ra_cycles a) r in
  exists h', ring_Move (Some r) n h = Ok (Some (a_move cs1 r n), h') /\
             RRep h' (RA cs1 (ra_vals a)) /\ length h' = length h /\
             In (a_move cs1 r n) (concat cs1).
Proof.
  intros R Hr cs1.
  assert (Ir1 : In r (concat cs1)) by (unfold cs1; rewrite in_a_touch; auto).
  destruct (in_dec Nat.eq_dec r (concat (ra_cycles a))) as [I|N].
  - (* initialised: nothing is written *)
    destruct (touch_init _ _ _ R I) as (_ & _ & R1). fold cs1 in R1.
    destruct (member_links _ _ _ R I) as (L1 & _).
    destruct (rhget_eq h r Hr) as (c & Eg & En & _).
    unfold ring_Move. rewrite Eg. cbn [bind]. rewrite En, L1. cbn [ptr_eqb option_eqb].
    unfold a_move. exists h.
    destruct (n <? 0)%Z.
    + destruct (move_loop_prev _ _ R1 (Z.to_nat (- n)) r Ir1) as [E I2]. cbn [ra_cycles] in *.
      rewrite E. cbn [bind]. auto.
    + destruct (0 <? n)%Z eqn:Z0.
      * destruct (move_loop_next _ _ R1 (Z.to_nat n) r Ir1) as [E I2]. cbn [ra_cycles] in *.
        rewrite E. cbn [bind]. auto.
      * assert (Z.to_nat n = 0) by (apply Z.ltb_ge in Z0; lia). rewrite H. cbn [Nat.iter]. auto.
  - (* zero Ring: r.init(), whatever n *)
    destruct (touch_zero _ _ _ R Hr N) as (E & _ & R1). fold cs1 in R1.
    destruct (RR_zero _ _ R r N) as [Zn _].
    destruct (rhget_eq h r Hr) as (c & Eg & En & _).
    unfold ring_Move. unfold ring_Next in E. rewrite Eg in *. cbn [bind] in *. rewrite En, Zn in *.
    cbn [ptr_eqb option_eqb] in *. rewrite E.
    assert (S1 : a_succ cs1 r = r /\ a_pred cs1 r = r).
    { assert (Ex : extract r (ra_cycles a) = None).
      { destruct (extract r (ra_cycles a)) as [[c0 rest]|] eqn:E0; auto. exfalso. apply N.
        destruct (extract_Some _ _ _ _ E0) as (pre & c1 & post & p & q & -> & _ & -> & _).
        rewrite concat_mid. apply in_or_app. right. apply in_or_app. left. apply in_or_app. simpl; auto. }
      assert (E1 : ext (ra_cycles a) r = ([r], ra_cycles a)) by (unfold ext; rewrite Ex; reflexivity).
      unfold cs1, a_touch, a_succ, a_pred. rewrite E1, ext_singleton. cbn. auto. }
    assert (M : a_move cs1 r n = r).
    { unfold a_move. destruct (n <? 0)%Z; apply iter_fix; tauto. }
    rewrite M.
    assert (As : a_succ (ra_cycles a) r = r).
    { unfold a_succ, ext.
      destruct (extract r (ra_cycles a)) as [[c0 rest]|] eqn:E0; [|reflexivity]. exfalso. apply N.
      destruct (extract_Some _ _ _ _ E0) as (pre & c1 & post & p & q & -> & _ & -> & _).
      rewrite concat_mid. apply in_or_app. right. apply in_or_app. left. apply in_or_app. simpl; auto. }
    rewrite As. eexists. split; [reflexivity|]. split; [exact R1|]. split; [now autorewrite with rheap|]. exact Ir1.
Qed.

Lemma ext_hd cs x : exists A rest, ext cs x = (x :: A, rest).
Proof.
  unfold ext. destruct (extract x cs) as [[c rest]|] eqn:E; [|eauto].
  destruct (extract_Some _ _ _ _ E) as (pre & c1 & post & p & q & _ & -> & _ & ->). eauto.
Qed.

Lemma ext_cons_self x A rest : ext ((x :: A) :: rest) x = (x :: A, rest).
Proof.
  unfold ext. cbn [extract]. unfold rot_to. cbn [split_at]. rewrite Nat.eqb_refl, app_nil_r. reflexivity.
Qed.

Lemma ext_a_touch cs x : ext (a_touch cs x) x = ext cs x.
Proof.
  unfold a_touch. destruct (ext_hd cs x) as (A & rest & E). rewrite E. apply ext_cons_self.
Qed.

Lemma a_succ_touch cs x : a_succ (a_touch cs x) x = a_succ cs x.
Proof. unfold a_succ. rewrite ext_a_touch. reflexivity. Qed.

(* the cycle of an initialised node as the specification sees it *)
Lemma RRep_cycle h a x :
  RRep h a -> In x (concat (ra_cycles a)) ->
  exists A, fst (ext (ra_cycles a) x) = x :: A /\ chain (rnx h) (rpv h) x A x /\ NoDup (x :: A) /\
            forall y, In y (x :: A) -> y < length h.
Proof.
  intros R I. destruct (RRep_member _ _ _ R I) as (pre & post & p & q & Ecs & Ex & C & ND).
  exists (q ++ p). unfold ext. rewrite Ex. cbn [fst]. repeat split; auto.
  intros y Hy. apply (RR_alloc _ _ R). rewrite Ecs, concat_mid. apply in_or_app. right. apply in_or_app. left.
  destruct Hy as [<-|Hy]; [apply in_or_app; simpl; auto|].
  apply in_app_iff in Hy as [Hy|Hy]; apply in_or_app; simpl; auto.
Qed.

Lemma Unlink_sim h a r n :
  RRep h a -> r < length h -> (0 < n)%Z ->
  let cs1 := a_touch (ra_cycles a) r in
  exists h', ring_Unlink (Some r) n h = Ok (Some (a_succ cs1 r), h') /\
             RRep h' (RA (a_Link cs1 r (a_move cs1 r (n + 1))) (ra_vals a)) /\ length h' = length h.
Proof.
  intros R Hr Hn cs1. unfold ring_Unlink.
  replace (n <=? 0)%Z with false by (symmetry; apply Z.leb_gt; lia).
  destruct (Move_sim h a r (n + 1) R Hr) as (h1 & E1 & R1 & L1 & I1). fold cs1 in E1, R1, I1.
  rewrite E1. cbn [bind].
  assert (Hm : a_move cs1 r (n + 1) < length h1) by (apply (RR_alloc _ _ R1); exact I1).
  assert (Hr1 : r < length h1) by lia.
  destruct (Link_sim h1 _ r _ R1 Hr1 Hm) as (h2 & E2 & R2 & L2). cbn [ra_cycles ra_vals] in *.
  exists h2. split; [exact E2|]. split; [exact R2|]. lia.
Qed.

(* r.Len() and r.Do(f) *)
Lemma len_loop_sim (h : rheap) r A :
  chain (rnx h) (rpv h) r A r -> NoDup (r :: A) -> (forall y, In y A -> y < length h) ->
  forall suf pre fuel acc, A = pre ++ suf -> length suf <= fuel ->
  len_loop fuel (Some r) (Some (hd r suf)) acc h = Ok (acc + Z.of_nat (length suf))%Z.
Proof.
  intros C D B. induction suf as [|y t IH]; intros pre fuel acc E L.
  - cbn [hd]. destruct fuel; cbn [len_loop]; rewrite (proj2 (ptr_eqb_eq (Some r) (Some r)) eq_refl);
      simpl; f_equal; lia.
  - destruct fuel as [|f]; [simpl in L; lia|]. cbn [hd len_loop].
    assert (Ny : y <> r).
    { intros ->. apply NoDup_cons_iff in D as [N _]. apply N. rewrite E. apply in_or_app. simpl; auto. }
    rewrite (proj2 (ptr_eqb_neq (Some y) (Some r))) by congruence.
    assert (Hy : y < length h) by (apply B; rewrite E; apply in_or_app; simpl; auto).
    destruct (rhget_eq h y Hy) as (c & -> & En & _). cbn [bind]. rewrite En.
    rewrite E in C. destruct (chain_at _ _ _ _ _ _ _ C) as [-> _].
    rewrite (IH (pre ++ [y]) f); [f_equal; simpl length; lia| |simpl in L; lia].
    rewrite <- app_assoc. exact E.
Qed.

Lemma do_loop_sim (h : rheap) r A :
  chain (rnx h) (rpv h) r A r -> NoDup (r :: A) -> (forall y, In y A -> y < length h) ->
  forall suf pre fuel, A = pre ++ suf -> length suf <= fuel ->
  do_loop fuel (Some r) (Some (hd r suf)) h = Ok (map (rvl h) suf).
Proof.
  intros C D B. induction suf as [|y t IH]; intros pre fuel E L.
  - cbn [hd]. destruct fuel; cbn [do_loop]; rewrite (proj2 (ptr_eqb_eq (Some r) (Some r)) eq_refl); reflexivity.
  - destruct fuel as [|f]; [simpl in L; lia|]. cbn [hd do_loop].
    assert (Ny : y <> r).
    { intros ->. apply NoDup_cons_iff in D as [N _]. apply N. rewrite E. apply in_or_app. simpl; auto. }
    rewrite (proj2 (ptr_eqb_neq (Some y) (Some r))) by congruence.
    assert (Hy : y < length h) by (apply B; rewrite E; apply in_or_app; simpl; auto).
    destruct (rhget_eq h y Hy) as (c & -> & En & _ & Ev). cbn [bind]. rewrite En, Ev.
    rewrite E in C. destruct (chain_at _ _ _ _ _ _ _ C) as [-> _].
    rewrite (IH (pre ++ [y]) f); [reflexivity| |simpl in L; lia].
    rewrite <- app_assoc. exact E.
Qed.

Lemma RRep_rvl h a y : RRep h a -> y < length h -> rvl h y = ra_val a y.
Proof.
  intros R H. destruct (RR_vals _ _ R) as [_ V]. specialize (V y H).
  unfold ra_val. apply nth_error_nth with (d := 0%Z) in V. auto.
Qed.

Lemma LenDo_sim h a r :
  RRep h a -> r < length h ->
  exists h', ring_Len (Some r) h = Ok (Z.of_nat (length (fst (ext (ra_cycles a) r))), h') /\
             ring_Do (Some r) h = Ok (map (ra_val a) (fst (ext (ra_cycles a) r)), h') /\
             RRep h' (RA (a_touch (ra_cycles a) r) (ra_vals a)) /\ length h' = length h.
Proof.
  intros R Hr.
  destruct (touch_sim2 _ _ _ R Hr) as (h1 & E1 & _ & R1 & L1 & N1 & _ & _ & V1 & _).
  assert (Ir1 : In r (concat (a_touch (ra_cycles a) r))) by (rewrite in_a_touch; auto).
  destruct (RRep_cycle _ _ _ R1 Ir1) as (A & EA & C & ND & B). cbn [ra_cycles] in *.
  rewrite ext_a_touch in EA.
  assert (Es : a_succ (ra_cycles a) r = hd r A).
  { rewrite (chain_first _ _ _ _ _ C) in N1. congruence. }
  assert (BA : forall y, In y A -> y < length h1) by (intros y Hy; apply B; simpl; auto).
  assert (LA : length A <= length h1).
  { apply NoDup_cons_iff in ND as [_ ND]. apply NoDup_bound; auto. }
  exists h1. split; [|split; [|split; [exact R1|exact L1]]].
  - unfold ring_Len. rewrite E1. cbn [bind]. rewrite Es.
    rewrite (len_loop_sim h1 r A C ND BA A [] (length h1) 1%Z eq_refl LA). cbn [bind].
    rewrite EA. simpl length. do 2 f_equal. lia.
  - unfold ring_Do. destruct (rhget_eq h r Hr) as (c & -> & _ & _ & Ev). cbn [bind].
    rewrite E1. cbn [bind]. rewrite Es.
    rewrite (do_loop_sim h1 r A C ND BA A [] (length h1) eq_refl LA). cbn [bind].
    rewrite EA, Ev. cbn [map].
    replace (rvl h r) with (ra_val a r) by (rewrite <- V1; symmetry; apply (RRep_rvl _ _ _ R1); lia).
    replace (map (rvl h1) A) with (map (ra_val a) A); [reflexivity|].
    apply map_ext_in. intros y Hy. symmetry. apply (RRep_rvl _ _ _ R1). auto.
Qed.

(* &Ring{Value: v} *)
Lemma rnx_alloc_zero (h : rheap) v j : rnx (h ++ [RCell None None v]) j = rnx h j.
Proof.
  unfold rnx. rewrite rproj_alloc. destruct (Nat.eqb_spec j (length h)) as [->|]; auto.
  rewrite rproj_out; auto.
Qed.
Lemma rpv_alloc_zero (h : rheap) v j : rpv (h ++ [RCell None None v]) j = rpv h j.
Proof.
  unfold rpv. rewrite rproj_alloc. destruct (Nat.eqb_spec j (length h)) as [->|]; auto.
  rewrite rproj_out; auto.
Qed.

Lemma Zero_sim h a v :
  RRep h a -> RRep (h ++ [RCell None None v]) (RA (ra_cycles a) (ra_vals a ++ [v])).
Proof.
  intro R. destruct (RR_vals _ _ R) as [V1 V2].
  apply (RRep_replace h a _ (ra_vals a ++ [v]) [] (ra_cycles a) [] []); auto.
  - rewrite app_length. simpl. lia.
  - rewrite !app_length. simpl. split; [lia|].
    intros j Hj. unfold rvl. rewrite rproj_alloc, nth_error_alloc, <- V1.
    destruct (Nat.eqb_spec j (length h)); auto. apply V2. lia.
  - constructor.
  - intros j [].
  - intros c [].
  - intros j _. rewrite rnx_alloc_zero, rpv_alloc_zero. auto.
Qed.

(* ---- NewRing(n) ---- *)

(* a -> x1 -> ... -> xn linked both ways, open at both ends *)
Fixpoint lpath (nx pv : nat -> ptr) (a : nat) (xs : list nat) : Prop :=
  match xs with
  | [] => True
  | x :: t => nx a = Some x /\ pv x = Some a /\ lpath nx pv x t
  end.

Lemma lpath_snoc nx pv a xs q :
  lpath nx pv a (xs ++ [q]) <-> lpath nx pv a xs /\ nx (last xs a) = Some q /\ pv q = Some (last xs a).
Proof.
  revert a; induction xs as [|x t IH]; intro a.
  - simpl. tauto.
  - rewrite last_cons. cbn [app lpath]. rewrite IH. tauto.
Qed.

Lemma chain_of_lpath nx pv a xs b :
  lpath nx pv a xs -> nx (last xs a) = Some b -> pv b = Some (last xs a) -> chain nx pv a xs b.
Proof.
  revert a; induction xs as [|x t IH]; intros a L E1 E2.
  - simpl in *. auto.
  - rewrite last_cons in *. destruct L as (L1 & L2 & L3). cbn [chain]. auto.
Qed.

Lemma lpath_frame nx pv nx' pv' a xs :
  (forall x, x = a \/ In x xs -> x <> last xs a -> nx' x = nx x) ->
  (forall x, In x xs -> pv' x = pv x) ->
  NoDup (a :: xs) ->
  lpath nx pv a xs -> lpath nx' pv' a xs.
Proof.
  revert a; induction xs as [|x t IH]; intros a Hn Hp D L; [exact I|].
  destruct L as (L1 & L2 & L3). rewrite last_cons in Hn.
  apply NoDup_cons_iff in D as [Na D]. cbn [lpath]. repeat split.
  - rewrite Hn; auto. intros E. apply Na. rewrite E. destruct (last_in_or x t) as [[-> _]|I]; simpl; auto.
  - rewrite Hp; simpl; auto.
  - apply IH; auto.
    + intros y Hy Ny. apply Hn; auto. simpl. destruct Hy; auto.
    + intros y Hy. apply Hp. simpl; auto.
Qed.

Lemma last_seq a n d : last (seq a n) d = match n with O => d | S m => a + m end.
Proof.
  revert a d; induction n as [|n IH]; intros a d; [reflexivity|].
  cbn [seq]. rewrite last_cons, IH. destruct n; simpl; lia.
Qed.

Lemma NoDup_seq_cons r0 n : NoDup (r0 :: seq (S r0) n).
Proof. change (r0 :: seq (S r0) n) with (seq r0 (S n)). apply seq_NoDup. Qed.

Lemma rproj_alloc_other {A} (g : rcell -> A) d (h : rheap) c j : j <> length h -> rproj g d (h ++ [c]) j = rproj g d h j.
Proof. intro N. rewrite rproj_alloc. apply Nat.eqb_neq in N. rewrite N. reflexivity. Qed.

(* for i := 1; i < n; i++ { p.next = &Ring{prev: p}; p = p.next } *)
Lemma newring_loop_sim r0 : forall k (h0 : rheap) m,
  length h0 = r0 + 1 + m ->
  lpath (rnx h0) (rpv h0) r0 (seq (S r0) m) ->
  exists h', newring_loop k (Some (last (seq (S r0) m) r0)) h0 = Ok (Some (last (seq (S r0) (m + k)) r0), h') /\
    length h' = r0 + 1 + (m + k) /\
    lpath (rnx h') (rpv h') r0 (seq (S r0) (m + k)) /\
    (forall j, j < r0 -> rnx h' j = rnx h0 j /\ rpv h' j = rpv h0 j) /\
    rpv h' r0 = rpv h0 r0 /\
    (forall j, rvl h' j = rvl h0 j).
Proof.
  induction k as [|k IH]; intros h0 m L P.
  - rewrite Nat.add_0_r. exists h0. cbn [newring_loop]. repeat split; auto.
  - cbn [newring_loop halloc].
    set (p := last (seq (S r0) m) r0).
    assert (Hp : p < length h0). { unfold p. rewrite last_seq. destruct m; lia. }
    assert (Hpq : p <> length h0) by lia.
    set (q := length h0).
    set (h1 := h0 ++ [RCell None (Some p) 0]).
    assert (L1 : length h1 = S (length h0)) by (unfold h1; rewrite app_length; simpl; lia).
    rewrite rhupd_eq by lia. cbn [bind].
    set (h2 := map_nth (set_rnext (Some q)) p h1).
    assert (L2 : length h2 = S (length h0)) by (unfold h2; rewrite length_map_nth; lia).
    destruct (rhget_eq h2 p ltac:(lia)) as (c & -> & En & _). cbn [bind].
    assert (N2 : forall j, rnx h2 j = if Nat.eqb j p then Some q else if Nat.eqb j q then None else rnx h0 j).
    { intro j. unfold h2. rewrite rnx_set_next by lia. destruct (Nat.eqb j p); auto.
      unfold h1, rnx. rewrite rproj_alloc. reflexivity. }
    assert (P2 : forall j, rpv h2 j = if Nat.eqb j q then Some p else rpv h0 j).
    { intro j. unfold h2. rewrite rpv_set_next by lia. unfold h1, rpv. rewrite rproj_alloc. reflexivity. }
    assert (V2 : forall j, rvl h2 j = rvl h0 j).
    { intro j. unfold h2. rewrite rvl_set_next by lia. unfold h1, rvl. rewrite rproj_alloc.
      destruct (Nat.eqb_spec j (length h0)) as [->|]; auto. rewrite rproj_out; auto. }
    rewrite En, N2, Nat.eqb_refl.
    assert (Eq : Some q = Some (last (seq (S r0) (S m)) r0)).
    { rewrite last_seq. unfold q. f_equal. lia. }
    rewrite Eq.
    assert (Pth : lpath (rnx h2) (rpv h2) r0 (seq (S r0) (S m))).
    { rewrite seq_S. apply lpath_snoc. fold p. split; [|split].
      - eapply lpath_frame; [| |apply NoDup_seq_cons|exact P].
        + intros x Hx Nx. fold p in Nx. rewrite N2.
          apply Nat.eqb_neq in Nx. rewrite Nx.
          assert (x <> q). { unfold q. destruct Hx as [->|Hx]; [lia|]. apply in_seq in Hx. lia. }
          apply Nat.eqb_neq in H. rewrite H. reflexivity.
        + intros x Hx. rewrite P2. assert (x <> q) by (unfold q; apply in_seq in Hx; lia).
          apply Nat.eqb_neq in H. rewrite H. reflexivity.
      - rewrite N2, Nat.eqb_refl. f_equal. unfold q. lia.
      - rewrite P2. replace (S r0 + m) with q by (unfold q; lia). rewrite Nat.eqb_refl. reflexivity. }
    destruct (IH h2 (S m)) as (h' & E' & L' & P' & F' & R0' & V'); [lia|exact Pth|].
    replace (S m + k) with (m + S k) in * by lia.
    exists h'. rewrite E'. split; [reflexivity|]. split; [lia|]. split; [exact P'|].
    split; [|split].
    + intros j Hj. destruct (F' j Hj) as [-> ->]. rewrite N2, P2.
      assert (j <> p) by (unfold p; rewrite last_seq; destruct m; lia).
      assert (j <> q) by (unfold q; lia).
      apply Nat.eqb_neq in H, H0. rewrite H, H0. auto.
    + rewrite R0', P2. assert (r0 <> q) by (unfold q; lia). apply Nat.eqb_neq in H. rewrite H. reflexivity.
    + intro j. rewrite V'. apply V2.
Qed.

Lemma nth_error_repeat {A} (x : A) n j : nth_error (repeat x n) j = if j <? n then Some x else None.
Proof.
  revert j; induction n as [|n IH]; intros [|j]; simpl; auto. rewrite IH.
  destruct (Nat.ltb_spec j n), (Nat.ltb_spec (S j) (S n)); auto; lia.
Qed.

Lemma New_sim h a n :
  RRep h a -> (0 < n)%Z ->
  let r0 := length h in
  let k := Z.to_nat n in
  exists h', ring_New n h = Ok (Some r0, h') /\
             RRep h' (RA (seq r0 k :: ra_cycles a) (ra_vals a ++ repeat 0%Z k)) /\ length h' = r0 + k.
Proof.
  intros R Hn r0 k. unfold ring_New.
  replace (n <=? 0)%Z with false by (symmetry; apply Z.leb_gt; lia).
  cbn [halloc]. fold r0. set (h0 := h ++ [RCell None None 0%Z]).
  assert (L0 : length h0 = r0 + 1 + 0) by (unfold h0, r0; rewrite app_length; simpl; lia).
  destruct (newring_loop_sim r0 (Z.to_nat (n - 1)) h0 0 L0 I) as (h1 & E1 & L1 & P1 & F1 & R01 & V1).
  cbn [seq last] in E1. rewrite E1. cbn [bind]. cbn [Nat.add] in *.
  set (k' := Z.to_nat (n - 1)) in *. assert (Ek : k = S k') by (unfold k, k'; lia).
  set (p := last (seq (S r0) k') r0) in *.
  assert (Hp : p < length h1) by (unfold p; rewrite last_seq; destruct k'; lia).
  rewrite rhupd_eq by lia. cbn [bind]. rewrite rhupd_eq by rsize_tac. cbn [bind].
  set (h' := map_nth (set_rprev (Some p)) r0 (map_nth (set_rnext (Some r0)) p h1)).
  assert (L' : length h' = r0 + k) by (unfold h'; rewrite !length_map_nth; lia).
  assert (N' : forall j, rnx h' j = if Nat.eqb j p then Some r0 else rnx h1 j).
  { intro j. unfold h'. now autorewrite with rheap. }
  assert (P' : forall j, rpv h' j = if Nat.eqb j r0 then Some p else rpv h1 j).
  { intro j. unfold h'. now autorewrite with rheap. }
  assert (V' : forall j, rvl h' j = rvl h0 j).
  { intro j. unfold h'. autorewrite with rheap. apply V1. }
  exists h'. split; [reflexivity|]. split; [|exact L'].
  assert (C : chain (rnx h') (rpv h') r0 (seq (S r0) k') r0).
  { apply chain_of_lpath.
    - eapply lpath_frame; [| |apply NoDup_seq_cons|exact P1].
      + intros x Hx Nx. fold p in Nx. rewrite N'. apply Nat.eqb_neq in Nx. rewrite Nx. reflexivity.
      + intros x Hx. rewrite P'. assert (x <> r0) by (apply in_seq in Hx; lia).
        apply Nat.eqb_neq in H. rewrite H. reflexivity.
    - fold p. rewrite N', Nat.eqb_refl. reflexivity.
    - fold p. rewrite P', Nat.eqb_refl. reflexivity. }
  destruct (RR_vals _ _ R) as [Vl1 Vl2].
  change (seq r0 k :: ra_cycles a) with ([seq r0 k] ++ ra_cycles a).
  apply (RRep_replace h a h' _ [] (ra_cycles a) (seq r0 k) [seq r0 k]); auto.
  - lia.
  - rewrite app_length, repeat_length. split; [unfold r0 in *; lia|].
    intros j Hj. rewrite V'. unfold h0, rvl. rewrite rproj_alloc. fold r0.
    destruct (Nat.lt_ge_cases j r0) as [Lt|Ge].
    + rewrite nth_error_app1 by (unfold r0 in *; lia).
      replace (j =? r0) with false by (symmetry; apply Nat.eqb_neq; lia). apply Vl2. exact Lt.
    + rewrite nth_error_app2 by (unfold r0 in *; lia). rewrite nth_error_repeat.
      replace (j - length (ra_vals a) <? k) with true by (symmetry; apply Nat.ltb_lt; unfold r0 in *; lia).
      destruct (Nat.eqb_spec j r0); [reflexivity|]. rewrite rproj_out by (fold r0; lia). reflexivity.
  - apply seq_NoDup.
  - intros j Hj. apply in_seq in Hj. split; [|lia].
    intro X. apply (RR_alloc _ _ R) in X. fold r0 in X. lia.
  - intros c [<-|[]]. exists r0, (seq (S r0) k'). rewrite Ek. split; [reflexivity|exact C].
  - intros j Nj. rewrite app_nil_r in Nj. rewrite in_seq in Nj. rewrite N', P'.
    destruct (Nat.lt_ge_cases j r0) as [Lt|Ge].
    + assert (j <> p) by (unfold p; rewrite last_seq; destruct k'; lia).
      assert (j <> r0) by lia. apply Nat.eqb_neq in H, H0. rewrite H, H0.
      destruct (F1 j Lt) as [-> ->]. unfold h0. rewrite rnx_alloc_zero, rpv_alloc_zero. auto.
    + assert (j >= r0 + k) by lia.
      assert (j <> p) by (unfold p; rewrite last_seq; destruct k'; lia).
      assert (j <> r0) by lia. apply Nat.eqb_neq in H0, H1. rewrite H0, H1.
      unfold rnx, rpv. rewrite !rproj_out by (fold r0; lia). auto.
Qed.

(* the harness's value assignment: p := r; for i := 0; i < n; i++ { p.Value = v0 + i; p = p.Next() } *)
Lemma ring_Next_init (h : rheap) y z : y < length h -> rnx h y = Some z -> ring_Next (Some y) h = Ok (Some z, h).
Proof.
  intros Hy E. unfold ring_Next. destruct (rhget_eq h y Hy) as (c & -> & En & _). cbn [bind].
  rewrite En, E. reflexivity.
Qed.

Lemma setvals_sim r0 n : forall k i (h : rheap) v,
  i + k = n -> length h = r0 + n ->
  (forall j, j < n -> exists z, rnx h (r0 + j) = Some z /\ (S j < n -> z = r0 + S j)) ->
  exists h', setvals_loop k (Some (r0 + i)) v h = Ok h' /\ length h' = length h /\
    (forall j, rnx h' j = rnx h j /\ rpv h' j = rpv h j) /\
    (forall j, rvl h' j = if (r0 + i <=? j) && (j <? r0 + n) then (v + Z.of_nat (j - (r0 + i)))%Z else rvl h j).
Proof.
  induction k as [|k IH]; intros i h v E L Hn.
  - exists h. cbn [setvals_loop]. repeat split; auto. intro j.
    replace ((r0 + i <=? j) && (j <? r0 + n)) with false; auto.
    symmetry. apply andb_false_iff. destruct (Nat.leb_spec (r0 + i) j); auto. right. apply Nat.ltb_ge. lia.
  - cbn [setvals_loop]. rewrite rhupd_eq by lia. cbn [bind].
    set (h1 := map_nth (set_rval v) (r0 + i) h).
    assert (L1 : length h1 = length h) by (unfold h1; apply length_map_nth).
    destruct (Hn i ltac:(lia)) as (z & Ez & Hz).
    rewrite (ring_Next_init h1 (r0 + i) z) by (try lia; unfold h1; rewrite rnx_set_val by lia; exact Ez).
    cbn [bind].
    destruct k as [|k'].
    + (* last iteration: the pointer is not used any more *)
      cbn [setvals_loop]. exists h1. split; [reflexivity|]. split; [exact L1|]. split.
      * intro j. unfold h1. now autorewrite with rheap.
      * intro j. unfold h1. rewrite rvl_set_val by lia.
        destruct (Nat.eqb_spec j (r0 + i)) as [->|N].
        -- replace ((r0 + i <=? r0 + i) && (r0 + i <? r0 + n)) with true
             by (symmetry; apply andb_true_iff; split; [apply Nat.leb_le|apply Nat.ltb_lt]; lia).
           rewrite Nat.sub_diag. simpl. f_equal. lia.
        -- replace ((r0 + i <=? j) && (j <? r0 + n)) with false; auto.
           symmetry. apply andb_false_iff. destruct (Nat.leb_spec (r0 + i) j); auto. right. apply Nat.ltb_ge. lia.
    + rewrite (Hz ltac:(lia)).
      destruct (IH (S i) h1 (v + 1)%Z) as (h' & E' & L' & F' & V'); [lia|lia| |].
      { intros j Hj. destruct (Hn j Hj) as (z' & Ez' & Hz'). exists z'. split; auto.
        unfold h1. rewrite rnx_set_val by lia. exact Ez'. }
      replace (r0 + S i) with (r0 + S i) in E' by lia. rewrite E'.
      exists h'. split; [reflexivity|]. split; [lia|]. split.
      * intro j. destruct (F' j) as [-> ->]. unfold h1. now autorewrite with rheap.
      * intro j. rewrite V'. unfold h1. rewrite rvl_set_val by lia.
        destruct (Nat.eqb_spec j (r0 + i)) as [->|N].
        -- replace ((r0 + S i <=? r0 + i) && (r0 + i <? r0 + n)) with false
             by (symmetry; apply andb_false_iff; left; apply Nat.leb_gt; lia).
           replace ((r0 + i <=? r0 + i) && (r0 + i <? r0 + n)) with true
             by (symmetry; apply andb_true_iff; split; [apply Nat.leb_le|apply Nat.ltb_lt]; lia).
           rewrite Nat.sub_diag. simpl. lia.
        -- destruct (Nat.leb_spec (r0 + S i) j), (Nat.leb_spec (r0 + i) j), (Nat.ltb_spec j (r0 + n));
             cbn [andb]; auto; try lia.
Qed.

Lemma zseq_length v n : length (zseq v n) = n.
Proof. revert v; induction n; intro v; simpl; auto. Qed.

Lemma nth_error_zseq v n j : j < n -> nth_error (zseq v n) j = Some (v + Z.of_nat j)%Z.
Proof.
  revert v j; induction n as [|n IH]; intros v [|j] H; simpl; try lia.
  - f_equal. lia.
  - rewrite IH by lia. f_equal. lia.
Qed.

Lemma seq_chain_next nx pv r0 k' :
  chain nx pv r0 (seq (S r0) k') r0 ->
  forall j, j < S k' -> exists z, nx (r0 + j) = Some z /\ (S j < S k' -> z = r0 + S j).
Proof.
  intros C j Hj. destruct j as [|j].
  - rewrite Nat.add_0_r. exists (hd r0 (seq (S r0) k')). split; [eapply chain_first; eauto|].
    intro H. destruct k'; [lia|]. simpl. lia.
  - assert (E : seq (S r0) k' = seq (S r0) j ++ (r0 + S j) :: seq (S (r0 + S j)) (k' - S j)).
    { replace k' with (j + S (k' - S j)) at 1 by lia. rewrite seq_app. cbn [seq]. replace (S r0 + j) with (r0 + S j) by lia. reflexivity. }
    rewrite E in C. destruct (chain_at _ _ _ _ _ _ _ C) as [En _].
    eexists. split; [exact En|]. intro H. destruct (k' - S j) eqn:Ek; [lia|]. simpl. lia.
Qed.

Lemma RNew_sim h a n v0 :
  RRep h a -> (0 < n)%Z ->
  exists h', (do (r, h) <- ring_New n h; do h <- setvals_loop (Z.to_nat n) r v0 h; Ok (r, h)) = Ok (Some (rfresh a), h') /\
             RRep h' (RA (seq (rfresh a) (Z.to_nat n) :: ra_cycles a) (ra_vals a ++ zseq v0 (Z.to_nat n))) /\
             length h <= length h'.
Proof.
  intros R Hn. destruct (New_sim h a n R Hn) as (h1 & E1 & R1 & L1). cbn zeta in *.
  destruct (RR_vals _ _ R) as [Vl1 Vl2].
  assert (Ef : rfresh a = length h) by (unfold rfresh; lia). rewrite Ef.
  set (r0 := length h) in *. set (k := Z.to_nat n) in *.
  rewrite E1. cbn [bind].
  assert (Ek : exists k', k = S k') by (exists (Z.to_nat (n - 1)); unfold k; lia).
  destruct Ek as (k' & Ek).
  assert (C : chain (rnx h1) (rpv h1) r0 (seq (S r0) k') r0).
  { destruct (RR_cyc _ _ R1 (seq r0 k)) as (x & t & E & C); [simpl; auto|].
    rewrite Ek in E. cbn [seq] in E. injection E as <- <-. exact C. }
  destruct (setvals_sim r0 k k 0 h1 v0 eq_refl L1) as (h2 & E2 & L2 & F2 & V2).
  { rewrite Ek. apply (seq_chain_next _ _ _ _ C). }
  rewrite Nat.add_0_r in E2, V2. rewrite E2. cbn [bind].
  exists h2. split; [reflexivity|]. split; [|lia].
  change (seq r0 k :: ra_cycles a) with ([] ++ (seq r0 k :: ra_cycles a)).
  apply (RRep_replace h1 (RA (seq r0 k :: ra_cycles a) (ra_vals a ++ repeat 0%Z k)) h2 _ [] (seq r0 k :: ra_cycles a) [] []); auto; cbn [ra_cycles ra_vals].
  - lia.
  - rewrite app_length, zseq_length. split; [unfold r0 in *; lia|].
    intros j Hj. rewrite V2.
    destruct (RR_vals _ _ R1) as [_ W]. cbn [ra_vals] in W. specialize (W j ltac:(lia)).
    destruct (Nat.lt_ge_cases j r0) as [Lt|Ge].
    + replace ((r0 <=? j) && (j <? r0 + k)) with false
        by (symmetry; apply andb_false_iff; left; apply Nat.leb_gt; lia).
      rewrite nth_error_app1 in * by (unfold r0 in *; lia). exact W.
    + replace ((r0 <=? j) && (j <? r0 + k)) with true
        by (symmetry; apply andb_true_iff; split; [apply Nat.leb_le|apply Nat.ltb_lt]; lia).
      rewrite nth_error_app2 by (unfold r0 in *; lia).
      rewrite nth_error_zseq by (unfold r0 in *; lia). do 2 f_equal. unfold r0 in *. lia.
  - constructor.
  - intros j [].
  - intros c [].
Qed.

(* ================= Part G: histories ================= *)

Definition RHok (h : rheap) (t : list nat) : Prop := forall e, In e t -> e < length h.

Lemma RHok_add (h : rheap) t p : RHok h t -> (forall e, p = Some e -> e < length h) -> RHok h (radd_handle t p).
Proof.
  intros H P. destruct p as [e|]; simpl; auto.
  destruct (existsb (Nat.eqb e) t); auto.
  intros x I. apply in_app_iff in I as [I|[<-|[]]]; auto.
Qed.

Lemma RHok_mono (h h' : rheap) t : length h <= length h' -> RHok h t -> RHok h' t.
Proof. intros L H e I. specialize (H e I). lia. Qed.

Theorem rexec_sim op h a t :
  RRep h a -> RHok h t ->
  exists h', rstep op (RRState h t) = (fst (fst (rspec_exec op a t)), RRState h' (snd (rspec_exec op a t))) /\
             RRep h' (snd (fst (rspec_exec op a t))) /\ RHok h' (snd (rspec_exec op a t)).
Proof.
  intros R HK. unfold rstep, rexec. cbn [rh rhs].
  destruct op; cbn [rspec_exec].
  - (* RZero *)
    cbn [halloc]. unfold rret_ptr, rs_ret. cbn [bind fst snd].
    assert (Ef : rfresh a = length h) by (unfold rfresh; destruct (RR_vals _ _ R); lia). rewrite Ef.
    eexists. split; [reflexivity|]. split; [apply Zero_sim; exact R|].
    apply RHok_add.
    + eapply RHok_mono; [|exact HK]. rewrite app_length. simpl. lia.
    + intros e E; injection E as <-. rewrite app_length. simpl. lia.
  - (* RNew *)
    destruct (n <=? 0)%Z eqn:Zn.
    + unfold ring_New. rewrite Zn. apply Z.leb_le in Zn.
      replace (Z.to_nat n) with 0 by lia. cbn [bind setvals_loop]. unfold rret_ptr, rs_ret. cbn [bind fst snd radd_handle].
      exists h. split; [reflexivity|auto].
    + apply Z.leb_gt in Zn. destruct (RNew_sim h a n v0 R Zn) as (h' & E & R' & L).
      unfold rret_ptr, rs_ret. rewrite E. cbn [bind fst snd].
      exists h'. split; [reflexivity|]. split; [exact R'|].
      apply RHok_add; [eapply RHok_mono; eauto|].
      intros e Ee; injection Ee as <-. apply (RR_alloc _ _ R'). cbn [ra_cycles concat]. apply in_or_app. left.
      apply in_seq. lia.
  - (* RNext *)
    destruct (rhnd t r) as [r0|] eqn:Eh; [|cbn [rs_panic fst snd]; exists h; split; [reflexivity|auto]].
    assert (Hr : r0 < length h) by (eapply rhnd_lt; eauto).
    destruct (touch_sim2 _ _ _ R Hr) as (h' & E & _ & R' & L & N' & _).
    unfold rret_ptr, rs_ret. rewrite E. cbn [bind fst snd].
    exists h'. split; [reflexivity|]. split; [exact R'|].
    apply RHok_add; [eapply RHok_mono; [|exact HK]; lia|].
    intros e Ee; injection Ee as <-. eapply RRep_ptr_lt; eauto.
  - (* RPrev *)
    destruct (rhnd t r) as [r0|] eqn:Eh; [|cbn [rs_panic fst snd]; exists h; split; [reflexivity|auto]].
    assert (Hr : r0 < length h) by (eapply rhnd_lt; eauto).
    destruct (touch_sim2 _ _ _ R Hr) as (h' & _ & E & R' & L & _ & P' & _).
    unfold rret_ptr, rs_ret. rewrite E. cbn [bind fst snd].
    exists h'. split; [reflexivity|]. split; [exact R'|].
    apply RHok_add; [eapply RHok_mono; [|exact HK]; lia|].
    intros e Ee; injection Ee as <-. eapply RRep_ptr_lt; eauto.
  - (* RMove *)
    destruct (rhnd t r) as [r0|] eqn:Eh; [|cbn [rs_panic fst snd]; exists h; split; [reflexivity|auto]].
    assert (Hr : r0 < length h) by (eapply rhnd_lt; eauto).
    destruct (Move_sim h a r0 n R Hr) as (h' & E & R' & L & I').
    unfold rret_ptr, rs_ret. rewrite E. cbn [bind fst snd].
    exists h'. split; [reflexivity|]. split; [exact R'|].
    apply RHok_add; [eapply RHok_mono; [|exact HK]; lia|].
    intros e Ee; injection Ee as <-. apply (RR_alloc _ _ R'). exact I'.
  - (* RLink *)
    destruct (rhnd t r) as [r0|] eqn:Eh; [|cbn [rs_panic fst snd]; exists h; split; [reflexivity|auto]].
    assert (Hr : r0 < length h) by (eapply rhnd_lt; eauto).
    assert (Hsucc : forall h' cs', RRep h' (RA cs' (ra_vals a)) -> length h' = length h ->
                    (forall j, In j (concat (a_touch (ra_cycles a) r0)) -> In j (concat cs')) ->
                    a_succ (ra_cycles a) r0 < length h').
    { intros h' cs' R' L' Sub. apply (RR_alloc _ _ R'). cbn [ra_cycles]. apply Sub.
      destruct (touch_sim2 _ _ _ R Hr) as (h1 & _ & _ & R1 & _ & N1 & _).
      assert (I1 : In r0 (concat (a_touch (ra_cycles a) r0))) by (rewrite in_a_touch; auto).
      destruct (member_links _ _ _ R1 I1) as (_ & _ & I2 & _). cbn [ra_cycles] in I2.
      rewrite a_succ_touch in I2. exact I2. }
    destruct (rhnd t s) as [s0|] eqn:Ehs.
    + assert (Hs : s0 < length h) by (eapply rhnd_lt; eauto).
      destruct (Link_sim h a r0 s0 R Hr Hs) as (h' & E & R' & L).
      unfold rret_ptr, rs_ret. rewrite E. cbn [bind fst snd].
      exists h'. split; [reflexivity|]. split; [exact R'|].
      apply RHok_add; [eapply RHok_mono; [|exact HK]; lia|].
      intros e Ee; injection Ee as <-.
      destruct (touch_sim2 _ _ _ R Hr) as (h1 & _ & _ & R1 & L1 & N1 & _).
      assert (a_succ (ra_cycles a) r0 < length h1) by (eapply RRep_ptr_lt; eauto). lia.
    + destruct (Link_nil_sim h a r0 R Hr) as (h' & E & R' & L).
      unfold rret_ptr, rs_ret. rewrite E. cbn [bind fst snd].
      exists h'. split; [reflexivity|]. split; [exact R'|].
      apply RHok_add; [eapply RHok_mono; [|exact HK]; lia|].
      intros e Ee; injection Ee as <-.
      destruct (touch_sim2 _ _ _ R Hr) as (h1 & _ & _ & R1 & L1 & N1 & _).
      assert (a_succ (ra_cycles a) r0 < length h1) by (eapply RRep_ptr_lt; eauto). lia.
  - (* RUnlink *)
    destruct (n <=? 0)%Z eqn:Zn.
    + unfold ring_Unlink. rewrite Zn. unfold rret_ptr, rs_ret. cbn [bind fst snd radd_handle]. exists h. split; [reflexivity|auto].
    + destruct (rhnd t r) as [r0|] eqn:Eh.
      * assert (Hr : r0 < length h) by (eapply rhnd_lt; eauto). apply Z.leb_gt in Zn.
        destruct (Unlink_sim h a r0 n R Hr Zn) as (h' & E & R' & L).
        unfold rret_ptr, rs_ret. rewrite E. cbn [bind fst snd].
        exists h'. split; [reflexivity|]. split; [exact R'|].
        apply RHok_add; [eapply RHok_mono; [|exact HK]; lia|].
        intros e Ee; injection Ee as <-. rewrite a_succ_touch.
        destruct (touch_sim2 _ _ _ R Hr) as (h1 & _ & _ & R1 & L1 & N1 & _).
        assert (a_succ (ra_cycles a) r0 < length h1) by (eapply RRep_ptr_lt; eauto). lia.
      * unfold ring_Unlink. rewrite Zn. cbn [rs_panic fst snd]. exists h. split; [reflexivity|auto].
  - (* RLen *)
    destruct (rhnd t r) as [r0|] eqn:Eh; [|exists h; split; [reflexivity|auto]].
    assert (Hr : r0 < length h) by (eapply rhnd_lt; eauto).
    destruct (LenDo_sim h a r0 R Hr) as (h' & E & _ & R' & L).
    rewrite E. cbn [bind fst snd].
    exists h'. split; [reflexivity|]. split; [exact R'|]. eapply RHok_mono; [|exact HK]; lia.
  - (* RDo *)
    destruct (rhnd t r) as [r0|] eqn:Eh; [|exists h; split; [reflexivity|auto]].
    assert (Hr : r0 < length h) by (eapply rhnd_lt; eauto).
    destruct (LenDo_sim h a r0 R Hr) as (h' & _ & E & R' & L).
    rewrite E. cbn [bind fst snd].
    exists h'. split; [reflexivity|]. split; [exact R'|]. eapply RHok_mono; [|exact HK]; lia.
Qed.

Lemma RRep_init : RRep [] init_rastate.
Proof.
  constructor; cbn.
  - split; auto. intros j Hj. lia.
  - intros c [].
  - constructor.
  - intros j [].
  - intros j _. unfold rnx, rpv, rproj. destruct j; auto.
Qed.

Lemma rrun_from_sim ops : forall h a t,
  RRep h a -> RHok h t ->
  exists h', rrun_from (RRState h t) ops =
             (fst (fst (rspec_run_from a t ops)), RRState h' (snd (rspec_run_from a t ops))) /\
             RRep h' (snd (fst (rspec_run_from a t ops))) /\ RHok h' (snd (rspec_run_from a t ops)).
Proof.
  induction ops as [|op ops IH]; intros h a t R HK; cbn [rrun_from rspec_run_from].
  - cbn [fst snd]. eauto.
  - destruct (rexec_sim op h a t R HK) as (h1 & E1 & R1 & HK1). rewrite E1.
    destruct (rspec_exec op a t) as [[o a1] t1]. cbn [fst snd] in *.
    destruct (IH h1 a1 t1 R1 HK1) as (h2 & E2 & R2 & HK2). rewrite E2.
    destruct (rspec_run_from a1 t1 ops) as [[os a2] t2]. cbn [fst snd] in *. eauto.
Qed.

(* The pointer model of lists.Ring refines the cycle semantics on every history. *)
Theorem ring_refines_spec ops :
  exists h, rrun ops = (fst (fst (rspec_run ops)), RRState h (snd (rspec_run ops))) /\
            RRep h (snd (fst (rspec_run ops))).
Proof.
  destruct (rrun_from_sim ops [] init_rastate [] RRep_init (fun e (I : In e []) => match I with end)) as (h & E & R & _).
  eauto.
Qed.


(* ---- the invariant spelled out ---- *)
Lemma chain_first_pv nx pv a xs b : chain nx pv a xs b -> pv (hd b xs) = Some a.
Proof. destruct xs; simpl; tauto. Qed.

Lemma chain_last_nx nx pv a xs b : chain nx pv a xs b -> nx (last xs a) = Some b.
Proof.
  revert a; induction xs as [|x t IH]; intro a; [simpl; tauto|].
  intros (_ & _ & C). rewrite last_cons. auto.
Qed.

(* next and prev are mutually inverse on the initialised nodes, stay inside the
   heap, and a node is either fully initialised or a zero Ring *)
Theorem RRep_wf h a : RRep h a ->
  (forall i n, rnx h i = Some n -> n < length h /\ rpv h n = Some i) /\
  (forall i p, rpv h i = Some p -> p < length h /\ rnx h p = Some i) /\
  (forall i, rnx h i = None <-> rpv h i = None).
Proof.
  intro R. split; [|split].
  - intros i n E. split; [eapply RRep_ptr_lt; eauto|].
    assert (I : In i (concat (ra_cycles a))) by (apply (RRep_init_iff _ _ _ R); congruence).
    destruct (RRep_member _ _ _ R I) as (pre & post & p & q & _ & _ & C & _).
    rewrite (chain_first _ _ _ _ _ C) in E. injection E as <-. eapply chain_first_pv; eauto.
  - intros i p E. split; [eapply RRep_ptr_lt; eauto|].
    assert (I : In i (concat (ra_cycles a))).
    { destruct (in_dec Nat.eq_dec i (concat (ra_cycles a))); auto.
      destruct (RR_zero _ _ R i n). congruence. }
    destruct (RRep_member _ _ _ R I) as (pre & post & p0 & q & _ & _ & C & _).
    rewrite (chain_last _ _ _ _ _ C) in E. injection E as <-. eapply chain_last_nx; eauto.
  - intro i. destruct (in_dec Nat.eq_dec i (concat (ra_cycles a))) as [I|N].
    + destruct (member_links _ _ _ R I) as (A & B & _). rewrite A, B. split; discriminate.
    + destruct (RR_zero _ _ R i N) as [-> ->]. tauto.
Qed.

Theorem ring_wf ops :
  let h := rh (snd (rrun ops)) in
  (forall i n, rnx h i = Some n -> n < length h /\ rpv h n = Some i) /\
  (forall i p, rpv h i = Some p -> p < length h /\ rnx h p = Some i) /\
  (forall i, rnx h i = None <-> rpv h i = None).
Proof.
  destruct (ring_refines_spec ops) as (h & E & R). rewrite E. cbn [snd rh]. eapply RRep_wf; eauto.
Qed.

(* ---- the relinking of Link, case by case (what the documentation says) ---- *)
Theorem a_link_cases cs r A rest :
  ext cs r = (r :: A, rest) ->
  (* Link(r, r): r becomes a one-element ring, the rest of its ring stays a ring *)
  a_link cs r r = [r] :: cons_ne A rest /\
  (* s in the same ring: the nodes A1 strictly between r and s are cut out and form a ring *)
  (forall s A1 B, s <> r -> A = A1 ++ s :: B -> ~ In s A1 ->
     a_link cs r s = (r :: s :: B) :: cons_ne A1 rest) /\
  (* s in another ring s :: B: that ring is inserted after r *)
  (forall s B rest2, s <> r -> ~ In s A -> ext rest s = (s :: B, rest2) ->
     a_link cs r s = (r :: s :: B ++ A) :: rest2).
Proof.
  intro E. unfold a_link. rewrite E. cbn [tl]. split; [|split].
  - rewrite Nat.eqb_refl. reflexivity.
  - intros s A1 B N EA NA. apply Nat.eqb_neq in N. rewrite N, EA, split_at_split by auto. reflexivity.
  - intros s B rest2 N NA E2. apply Nat.eqb_neq in N. rewrite N.
    destruct (split_at s A) as [[A1 B1]|] eqn:Es.
    + exfalso. apply NA. destruct (split_at_Some _ _ _ _ Es) as [-> _]. apply in_or_app. simpl; auto.
    + rewrite E2. reflexivity.
Qed.

(* ================= Part H: Move is n mod Len steps; what Unlink removes ================= *)

Lemma chain_nth_path nx pv : forall xs a b i, chain nx pv a xs b -> i < S (length xs) ->
  nx (nth i (a :: xs ++ [b]) a) = Some (nth (S i) (a :: xs ++ [b]) a) /\
  pv (nth (S i) (a :: xs ++ [b]) a) = Some (nth i (a :: xs ++ [b]) a).
Proof.
  induction xs as [|x t IH]; intros a b i C Hi.
  - simpl in Hi. assert (i = 0) by lia. subst i. simpl in *. auto.
  - destruct C as (C1 & C2 & C3). destruct i as [|i].
    + simpl. auto.
    + specialize (IH x b i C3 ltac:(simpl in Hi; lia)).
      change (nth (S i) (a :: (x :: t) ++ [b]) a) with (nth i (x :: t ++ [b]) a).
      change (nth (S (S i)) (a :: (x :: t) ++ [b]) a) with (nth (S i) (x :: t ++ [b]) a).
      rewrite (nth_indep _ a x), (nth_indep (x :: t ++ [b]) a x); auto; simpl; rewrite app_length; simpl; simpl in Hi; lia.
Qed.

Lemma cycle_nth nx pv r A i :
  chain nx pv r A r -> i < S (length A) ->
  let c := r :: A in let L := S (length A) in
  nx (nth i c r) = Some (nth ((i + 1) mod L) c r) /\ pv (nth ((i + 1) mod L) c r) = Some (nth i c r).
Proof.
  intros C Hi c L. destruct (chain_nth_path nx pv A r r i C Hi) as [E1 E2].
  assert (N1 : nth i (r :: A ++ [r]) r = nth i c r).
  { unfold c. change (r :: A ++ [r]) with ((r :: A) ++ [r]). apply app_nth1. simpl. lia. }
  assert (N2 : nth (S i) (r :: A ++ [r]) r = nth ((i + 1) mod L) c r).
  { unfold c, L. destruct (Nat.eq_dec (S i) (S (length A))) as [E|N].
    - rewrite Nat.add_1_r, E, Nat.mod_same by lia.
      change (r :: A ++ [r]) with ((r :: A) ++ [r]). rewrite app_nth2 by (simpl; lia).
      simpl length. rewrite Nat.sub_diag. reflexivity.
    - rewrite Nat.mod_small by lia. rewrite Nat.add_1_r.
      change (r :: A ++ [r]) with ((r :: A) ++ [r]). apply app_nth1. simpl. lia. }
  rewrite N1, N2 in *. auto.
Qed.

Section MoveMod.
Variables (h : rheap) (r : nat) (A : list nat).
Hypothesis C : chain (rnx h) (rpv h) r A r.
Hypothesis B : forall y, In y (r :: A) -> y < length h.
Local Notation c := (r :: A).
Local Notation L := (S (length A)).

Lemma nth_c_lt i : i < L -> nth i c r < length h.
Proof. intro Hi. apply B. apply nth_In. simpl. lia. Qed.

Lemma move_next_mod : forall k i, i < L ->
  move_loop r_next k (Some (nth i c r)) h = Ok (Some (nth ((i + k) mod L) c r)).
Proof.
  induction k as [|k IH]; intros i Hi; cbn [move_loop].
  - rewrite Nat.add_0_r, Nat.mod_small by lia. reflexivity.
  - destruct (rhget_eq h _ (nth_c_lt i Hi)) as (cell & -> & En & _). cbn [bind]. rewrite En.
    destruct (cycle_nth _ _ r A i C Hi) as [E _].  rewrite E.
    rewrite IH by (apply Nat.mod_upper_bound; lia).
    rewrite Nat.add_mod_idemp_l by lia. replace (i + 1 + k) with (i + S k) by lia. reflexivity.
Qed.

Lemma pv_nth i : i < L -> rpv h (nth i c r) = Some (nth ((i + (L - 1)) mod L) c r).
Proof.
  intro Hi. set (j := (i + (L - 1)) mod L).
  assert (Hj : j < L) by (apply Nat.mod_upper_bound; lia).
  destruct (cycle_nth _ _ r A j C Hj) as [_ E]. 
  replace ((j + 1) mod L) with i in E; [exact E|].
  unfold j. rewrite Nat.add_mod_idemp_l by lia.
  replace (i + (L - 1) + 1) with (i + 1 * L) by lia.
  rewrite Nat.mod_add by lia. symmetry. apply Nat.mod_small. exact Hi.
Qed.

Lemma move_prev_mod : forall k i, i < L ->
  move_loop r_prev k (Some (nth i c r)) h = Ok (Some (nth ((i + k * (L - 1)) mod L) c r)).
Proof.
  induction k as [|k IH]; intros i Hi; cbn [move_loop].
  - rewrite Nat.mul_0_l, Nat.add_0_r, Nat.mod_small by lia. reflexivity.
  - destruct (rhget_eq h _ (nth_c_lt i Hi)) as (cell & -> & _ & Ep & _). cbn [bind]. rewrite Ep, (pv_nth i Hi).
    rewrite IH by (apply Nat.mod_upper_bound; lia).
    rewrite Nat.add_mod_idemp_l by lia.
    replace (i + (L - 1) + k * (L - 1)) with (i + S k * (L - 1)) by lia. reflexivity.
Qed.
End MoveMod.

(* Move(n) lands n mod Len steps forward (Z.modulo: for negative n that is |n| steps backward) *)
Theorem ring_move_mod h a r n c :
  RRep h a -> In r (concat (ra_cycles a)) -> fst (ext (ra_cycles a) r) = c ->
  ring_Move (Some r) n h = Ok (Some (nth (Z.to_nat (n mod Z.of_nat (length c))) c r), h).
Proof.
  intros R I Ec. subst c. destruct (RRep_cycle _ _ _ R I) as (A & EA & C & ND & B). rewrite EA.
  assert (Hr : r < length h) by (apply B; simpl; auto).
  destruct (member_links _ _ _ R I) as (L1 & _).
  destruct (rhget_eq h r Hr) as (cell & Eg & En & _).
  unfold ring_Move. rewrite Eg. cbn [bind]. rewrite En, L1. cbn [ptr_eqb option_eqb].
  set (L := S (length A)). assert (HL : Z.of_nat (length (r :: A)) = Z.of_nat L) by reflexivity. rewrite HL.
  assert (L0 : 0 < L) by lia.
  destruct (n <? 0)%Z eqn:Zn.
  - apply Z.ltb_lt in Zn.
    pose proof (move_prev_mod h r A C B (Z.to_nat (- n)) 0 L0) as E. fold L in E.
    change (nth 0 (r :: A) r) with r in E. rewrite E. cbn [bind]. do 3 f_equal. f_equal.
    apply Nat2Z.inj. rewrite Nat2Z.inj_mod, Z2Nat.id by (apply Z.mod_pos_bound; lia).
    rewrite Nat.add_0_l, Nat2Z.inj_mul, Z2Nat.id by lia.
    rewrite Nat2Z.inj_sub by lia.
    replace (- n * (Z.of_nat L - Z.of_nat 1))%Z with (n + (- n) * Z.of_nat L)%Z by lia.
    apply Z_mod_plus_full.
  - apply Z.ltb_ge in Zn. destruct (0 <? n)%Z eqn:Zp.
    + pose proof (move_next_mod h r A C B (Z.to_nat n) 0 L0) as E. fold L in E.
      change (nth 0 (r :: A) r) with r in E. rewrite E. cbn [bind]. do 3 f_equal. f_equal.
      apply Nat2Z.inj. rewrite Nat2Z.inj_mod, Z2Nat.id by (apply Z.mod_pos_bound; lia).
      rewrite Nat.add_0_l, Z2Nat.id by lia. reflexivity.
    + apply Z.ltb_ge in Zp. assert (n = 0%Z) by lia. subst n. rewrite Z.mod_0_l by lia. reflexivity.
Qed.

Lemma nth_split_firstn_skipn {A} (l : list A) k d : k < length l -> l = firstn k l ++ nth k l d :: skipn (S k) l.
Proof.
  revert k; induction l as [|x t IH]; intros [|k] H; simpl in *; try lia; auto.
  f_equal. apply IH. lia.
Qed.

Lemma ext_first x A rest : ext ((x :: A) :: rest) x = (x :: A, rest).
Proof. apply ext_cons_self. Qed.

Lemma rot_to_mid x p q : ~ In x p -> rot_to x (p ++ x :: q) = Some (x :: q ++ p).
Proof. intro N. unfold rot_to. rewrite split_at_split by auto. reflexivity. Qed.

Lemma ext_head_cycle x p q rest : ~ In x p -> ext ((p ++ x :: q) :: rest) x = (x :: q ++ p, rest).
Proof. intro N. unfold ext. cbn [extract]. rewrite rot_to_mid by auto. reflexivity. Qed.

(* Unlink(n), n > 0, on the ring r :: A: the n mod Len nodes after r are removed and form the
   returned ring; r keeps the others *)
Theorem ring_unlink_mod h a r n A rest :
  RRep h a -> In r (concat (ra_cycles a)) -> ext (ra_cycles a) r = (r :: A, rest) -> (0 < n)%Z ->
  let k := Z.to_nat (n mod Z.of_nat (S (length A))) in
  exists h', ring_Unlink (Some r) n h = Ok (Some (hd r A), h') /\
             RRep h' (RA ((r :: skipn k A) :: cons_ne (firstn k A) rest) (ra_vals a)) /\ length h' = length h.
Proof.
  intros R I E Hn k.
  destruct (RRep_cycle _ _ _ R I) as (A' & EA & C & ND & B). rewrite E in EA. cbn [fst] in EA. injection EA as <-.
  assert (Hr : r < length h) by (apply B; simpl; auto).
  set (L := S (length A)). assert (L0 : (0 < Z.of_nat L)%Z) by (unfold L; lia).
  unfold ring_Unlink. replace (n <=? 0)%Z with false by (symmetry; apply Z.leb_gt; lia).
  rewrite (ring_move_mod h a r (n + 1) (r :: A) R I) by (rewrite E; reflexivity). cbn [bind].
  change (Z.of_nat (length (r :: A))) with (Z.of_nat L).
  set (j := Z.to_nat ((n + 1) mod Z.of_nat L)). set (m := nth j (r :: A) r).
  assert (Hk : (0 <= n mod Z.of_nat L < Z.of_nat L)%Z) by (apply Z.mod_pos_bound; lia).
  assert (Hj : j = if Nat.eqb (S k) L then 0 else S k).
  { unfold j, k. rewrite <- Zplus_mod_idemp_l. fold L.
    destruct (Nat.eqb_spec (S (Z.to_nat (n mod Z.of_nat L))) L) as [Eq|Ne].
    - replace (n mod Z.of_nat L + 1)%Z with (Z.of_nat L) by lia. rewrite Z_mod_same_full. reflexivity.
    - rewrite Z.mod_small by lia. lia. }
  assert (Hm : m < length h).
  { apply B. apply nth_In. simpl. destruct (Nat.eqb_spec (S k) L); unfold L in *; lia. }
  destruct (Link_sim h a r m R Hr Hm) as (h' & El & R' & L').
  assert (Es : a_succ (ra_cycles a) r = hd r A) by (unfold a_succ; rewrite E; reflexivity).
  rewrite Es in El. exists h'. split; [exact El|]. split; [|exact L'].
  replace ((r :: skipn k A) :: cons_ne (firstn k A) rest) with (a_Link (ra_cycles a) r m); [exact R'|].
  unfold a_Link. unfold a_touch at 2. rewrite E.
  apply NoDup_cons_iff in ND as [NrA NDA].
  destruct (Nat.eqb_spec (S k) L) as [Eq|Ne].
  - (* all of A is removed: m = r *)
    assert (m = r) by (unfold m; rewrite Hj; reflexivity). rewrite H.
    unfold a_touch. rewrite ext_first.
    destruct (a_link_cases ((r :: A) :: rest) r A rest (ext_first _ _ _)) as (-> & _).
    assert (k = length A) by (unfold L in Eq; lia).
    rewrite H0, skipn_all, firstn_all. reflexivity.
  - assert (Hk' : k < length A) by (unfold k, L in *; lia).
    assert (Em : m = nth k A r) by (unfold m; rewrite Hj; reflexivity).
    pose proof (nth_split_firstn_skipn A k r Hk') as EAs. rewrite <- Em in EAs.
    set (A1 := firstn k A) in *. set (B2 := skipn (S k) A) in *.
    assert (Esk : skipn k A = m :: B2).
    { rewrite EAs at 1. rewrite skipn_app.
      assert (length A1 = k) by (unfold A1; rewrite firstn_length; lia).
      rewrite H, Nat.sub_diag. rewrite <- H at 1. rewrite skipn_all. reflexivity. }
    rewrite EAs in NDA, NrA. apply NoDup_app_iff in NDA as (D1 & D2 & D3).
    apply NoDup_cons_iff in D2 as [NmB D2].
    assert (NmA1 : ~ In m A1) by (intro X; apply (D3 _ X); simpl; auto).
    rewrite in_app_iff in NrA. simpl in NrA.
    assert (Nmr : m <> r) by (intros ->; tauto).
    (* touching m rewrites r's cycle starting at m *)
    rewrite Esk. unfold a_touch. rewrite EAs.
    change ((r :: A1 ++ m :: B2) :: rest) with (((r :: A1) ++ m :: B2) :: rest).
    rewrite ext_head_cycle by (simpl; intuition congruence).
    (* and Link rewrites it starting at r again *)
    change ((m :: B2 ++ r :: A1) :: rest) with (((m :: B2) ++ r :: A1) :: rest).
    assert (Er : ext (((m :: B2) ++ r :: A1) :: rest) r = (r :: A1 ++ m :: B2, rest)).
    { apply ext_head_cycle. simpl. intuition congruence. }
    destruct (a_link_cases _ r _ rest Er) as (_ & Hsame & _).
    rewrite (Hsame m A1 B2 Nmr eq_refl NmA1). reflexivity.
Qed.
