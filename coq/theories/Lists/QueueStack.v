(* Model of lists.Queue (/repo/lists/queue.go) on top of the pointer model of
   lists.List, and of lists.Stack (/repo/lists/stack.go) on a backing-array
   slice; and their specifications (FIFO / LIFO on [list Z]). Definitions only. *)
From Typ Require Export Lib.Base Lists.Heap Lists.ListModel.

(* ================= Queue: struct { list List[T] } ================= *)
(* A *Queue is the index of its embedded List; the zero Queue has a zero List. *)

(* return q.list.Len() *)
Definition queue_Len (s : state) (q : nat) : result Z := list_Len s q.

(* q.list.PushFront(value) *)
Definition queue_Enqueue (q : nat) (v : Z) (s : state) : result state :=
  do (_, s) <- list_PushFront q v s; Ok s.

(* elem := q.list.Back(); if elem == nil { return zero, false }; return q.list.Remove(elem), true *)
Definition queue_Dequeue (q : nat) (s : state) : result (Z * bool * state) :=
  do elem <- list_Back s q;
  if ptr_eqb elem None then Ok (0%Z, false, s) else
  do (v, s) <- list_Remove q elem s;
  Ok (v, true, s).

(* elem := q.list.Back(); if elem == nil { return zero, false }; return elem.Value, true *)
Definition queue_Peek (q : nat) (s : state) : result (Z * bool) :=
  do elem <- list_Back s q;
  if ptr_eqb elem None then Ok (0%Z, false) else
  do v <- rd e_val s elem;
  Ok (v, true).

Inductive qop := QEnqueue (v : Z) | QDequeue | QPeek | QLen.
Inductive qout := QUnit | QVal (v : Z) (ok : bool) | QInt (n : Z) | QPanic (k : panic_kind).

Definition qexec (q : nat) (op : qop) (s : state) : result (qout * state) :=
  match op with
  | QEnqueue v => do s <- queue_Enqueue q v s; Ok (QUnit, s)
  | QDequeue => do (v, ok, s) <- queue_Dequeue q s; Ok (QVal v ok, s)
  | QPeek => do (v, ok) <- queue_Peek q s; Ok (QVal v ok, s)
  | QLen => do n <- queue_Len s q; Ok (QInt n, s)
  end.

Definition qstep (q : nat) (op : qop) (s : state) : qout * state :=
  match qexec q op s with Ok x => x | Panic k => (QPanic k, s) end.

Fixpoint qrun_from (q : nat) (s : state) (ops : list qop) : list qout * state :=
  match ops with
  | [] => ([], s)
  | op :: ops' =>
      let (o, s1) := qstep q op s in
      let (os, s2) := qrun_from q s1 ops' in
      (o :: os, s2)
  end.

(* var q Queue: the zero value *)
Definition qrun (ops : list qop) : list qout * state :=
  let (q, s) := alloc_list (State [] []) in qrun_from q s ops.

(* specification: values leave in the order they entered *)
Definition qspec_step (op : qop) (st : list Z) : qout * list Z :=
  match op with
  | QEnqueue v => (QUnit, st ++ [v])
  | QDequeue => match st with [] => (QVal 0%Z false, []) | x :: t => (QVal x true, t) end
  | QPeek => match st with [] => (QVal 0%Z false, []) | x :: t => (QVal x true, st) end
  | QLen => (QInt (Z.of_nat (length st)), st)
  end.

Fixpoint qspec_from (st : list Z) (ops : list qop) : list qout * list Z :=
  match ops with
  | [] => ([], st)
  | op :: ops' =>
      let (o, st1) := qspec_step op st in
      let (os, st2) := qspec_from st1 ops' in
      (o :: os, st2)
  end.

(* the values given to Enqueue, in order; the values returned by the successful Dequeues, in order *)
Fixpoint enq_vals (ops : list qop) : list Z :=
  match ops with
  | [] => []
  | QEnqueue v :: t => v :: enq_vals t
  | _ :: t => enq_vals t
  end.

Fixpoint deq_vals (ops : list qop) (outs : list qout) : list Z :=
  match ops, outs with
  | QDequeue :: t, QVal v true :: u => v :: deq_vals t u
  | _ :: t, _ :: u => deq_vals t u
  | _, _ => []
  end.

(* ================= Stack: type Stack[T] []T ================= *)
(* Backing-array model of a slice: visible part = first [slen] cells of [arr],
   capacity = length arr; the cells beyond slen keep whatever was written
   there (Pop does not clear). The nil slice is GSlice [] 0. A *Stack is
   [option gslice], None = nil pointer. *)
Record gslice := GSlice { arr : list Z; slen : nat }.

(* append(sl, v): in place when there is spare capacity, else a fresh array whose
   capacity the runtime chooses ([newcap needed], at least needed) *)
Definition slice_append (newcap : nat -> nat) (sl : gslice) (v : Z) : gslice :=
  if slen sl <? length (arr sl)
  then GSlice (replace_nth (slen sl) v (arr sl)) (S (slen sl))
  else let c := Nat.max (newcap (S (slen sl))) (S (slen sl)) in
       GSlice (firstn (slen sl) (arr sl) ++ v :: repeat 0%Z (c - S (slen sl))) (S (slen sl)).

(* sl[i] with bounds check against len *)
Definition slice_index (sl : gslice) (i : nat) : result Z :=
  if i <? slen sl then get_nth i (arr sl) else Panic IndexOutOfRange.

(* if s == nil || len( *s ) == 0 { return zero, false }; slice := *s; return slice[len(slice)-1], true *)
Definition stack_Peek (s : option gslice) : result (Z * bool) :=
  match s with
  | None => Ok (0%Z, false)
  | Some sl =>
      if slen sl =? 0 then Ok (0%Z, false) else
      do v <- slice_index sl (slen sl - 1); Ok (v, true)
  end.

(* ...; lastIdx := len(slice)-1; lastVal := slice[lastIdx]; *s = slice[:lastIdx]; return lastVal, true *)
Definition stack_Pop (s : option gslice) : result (Z * bool * option gslice) :=
  match s with
  | None => Ok (0%Z, false, None)
  | Some sl =>
      if slen sl =? 0 then Ok (0%Z, false, s) else
      let lastIdx := slen sl - 1 in
      do v <- slice_index sl lastIdx;
      if lastIdx <=? length (arr sl) then Ok (v, true, Some (GSlice (arr sl) lastIdx))
      else Panic IndexOutOfRange
  end.

(* *s = append( *s, value) *)
Definition stack_Push (newcap : nat -> nat) (s : option gslice) (v : Z) : result (option gslice) :=
  match s with
  | None => Panic NilDeref
  | Some sl => Ok (Some (slice_append newcap sl v))
  end.

Inductive sop := SPush (v : Z) | SPop | SPeek | SLen.

Definition sexec (newcap : nat -> nat) (op : sop) (s : option gslice) : result (qout * option gslice) :=
  match op with
  | SPush v => do s <- stack_Push newcap s v; Ok (QUnit, s)
  | SPop => do (v, ok, s) <- stack_Pop s; Ok (QVal v ok, s)
  | SPeek => do (v, ok) <- stack_Peek s; Ok (QVal v ok, s)
  | SLen => match s with None => Panic NilDeref | Some sl => Ok (QInt (Z.of_nat (slen sl)), s) end
  end.

Definition sstep (newcap : nat -> nat) (op : sop) (s : option gslice) : qout * option gslice :=
  match sexec newcap op s with Ok x => x | Panic k => (QPanic k, s) end.

Fixpoint srun_from (newcap : nat -> nat) (s : option gslice) (ops : list sop) : list qout * option gslice :=
  match ops with
  | [] => ([], s)
  | op :: ops' =>
      let (o, s1) := sstep newcap op s in
      let (os, s2) := srun_from newcap s1 ops' in
      (o :: os, s2)
  end.

(* var s Stack: the nil slice *)
Definition srun (newcap : nat -> nat) (ops : list sop) : list qout * option gslice :=
  srun_from newcap (Some (GSlice [] 0)) ops.

(* specification: the top of the stack is the head *)
Definition sspec_step (op : sop) (st : list Z) : qout * list Z :=
  match op with
  | SPush v => (QUnit, v :: st)
  | SPop => match st with [] => (QVal 0%Z false, []) | x :: t => (QVal x true, t) end
  | SPeek => match st with [] => (QVal 0%Z false, []) | x :: t => (QVal x true, st) end
  | SLen => (QInt (Z.of_nat (length st)), st)
  end.

Fixpoint sspec_from (st : list Z) (ops : list sop) : list qout * list Z :=
  match ops with
  | [] => ([], st)
  | op :: ops' =>
      let (o, st1) := sspec_step op st in
      let (os, st2) := sspec_from st1 ops' in
      (o :: os, st2)
  end.
