(* Model of lists.Ring (/repo/lists/ring.go), transcribed statement by
   statement with pointer semantics. Definitions only.
   Heap: one cell per Ring node; *Ring is a [ptr]; nil rings are [None].
   Every method may write (Next/Prev/Move/Len/Do initialise a zero Ring), so
   every method returns the heap. *)
From Typ Require Export Lib.Base Lists.Heap.

Record rcell := RCell { r_next : ptr; r_prev : ptr; r_val : Z }.
Definition rheap := list rcell.

Definition set_rnext (v : ptr) (c : rcell) : rcell := RCell v (r_prev c) (r_val c).
Definition set_rprev (v : ptr) (c : rcell) : rcell := RCell (r_next c) v (r_val c).
Definition set_rval (v : Z) (c : rcell) : rcell := RCell (r_next c) (r_prev c) v.

(* r.next = r; r.prev = r; return r *)
Definition ring_init (r : ptr) (h : rheap) : result (ptr * rheap) :=
  do h <- hupd h r (set_rnext r);
  do h <- hupd h r (set_rprev r);
  Ok (r, h).

(* if r.next == nil { return r.init() }; return r.next *)
Definition ring_Next (r : ptr) (h : rheap) : result (ptr * rheap) :=
  do c <- hget h r;
  if ptr_eqb (r_next c) None then ring_init r h else Ok (r_next c, h).

Definition ring_Prev (r : ptr) (h : rheap) : result (ptr * rheap) :=
  do c <- hget h r;
  if ptr_eqb (r_next c) None then ring_init r h else Ok (r_prev c, h).

(* for ; n > 0; n-- { r = r.next }   (and r = r.prev for n < 0); the counter is the structural argument *)
Fixpoint move_loop (f : rcell -> ptr) (n : nat) (r : ptr) (h : rheap) : result ptr :=
  match n with
  | O => Ok r
  | S n' => do c <- hget h r; move_loop f n' (f c) h
  end.

Definition ring_Move (r : ptr) (n : Z) (h : rheap) : result (ptr * rheap) :=
  do c <- hget h r;
  if ptr_eqb (r_next c) None then ring_init r h else
  if (n <? 0)%Z then do r' <- move_loop r_prev (Z.to_nat (- n)) r h; Ok (r', h)
  else if (0 <? n)%Z then do r' <- move_loop r_next (Z.to_nat n) r h; Ok (r', h)
  else Ok (r, h).

(* for i := 1; i < n; i++ { p.next = &Ring{prev: p}; p = p.next } *)
Fixpoint newring_loop (k : nat) (p : ptr) (h : rheap) : result (ptr * rheap) :=
  match k with
  | O => Ok (p, h)
  | S k' =>
      let (q, h) := halloc h (RCell None p 0) in
      do h <- hupd h p (set_rnext (Some q));
      do c <- hget h p;
      newring_loop k' (r_next c) h
  end.

(* if n <= 0 { return nil }; r := new(Ring); p := r; loop; p.next = r; r.prev = p; return r *)
Definition ring_New (n : Z) (h : rheap) : result (ptr * rheap) :=
  if (n <=? 0)%Z then Ok (None, h) else
  let (r0, h) := halloc h (RCell None None 0) in
  let r := Some r0 in
  do (p, h) <- newring_loop (Z.to_nat (n - 1)) r h;
  do h <- hupd h p (set_rnext r);
  do h <- hupd h r (set_rprev p);
  Ok (r, h).

(* n := r.Next(); if s != nil { p := s.Prev(); r.next = s; s.prev = r; n.prev = p; p.next = n }; return n *)
Definition ring_Link (r s : ptr) (h : rheap) : result (ptr * rheap) :=
  do (n, h) <- ring_Next r h;
  match s with
  | None => Ok (n, h)
  | Some _ =>
      do (p, h) <- ring_Prev s h;
      do h <- hupd h r (set_rnext s);
      do h <- hupd h s (set_rprev r);
      do h <- hupd h n (set_rprev p);
      do h <- hupd h p (set_rnext n);
      Ok (n, h)
  end.

(* if n <= 0 { return nil }; return r.Link(r.Move(n + 1)) *)
Definition ring_Unlink (r : ptr) (n : Z) (h : rheap) : result (ptr * rheap) :=
  if (n <=? 0)%Z then Ok (None, h) else
  do (m, h) <- ring_Move r (n + 1) h;
  ring_Link r m h.

(* for p := r.Next(); p != r; p = p.next { n++ }
   Fuel = number of cells: on a well-formed heap the walk returns to r earlier;
   running out of fuel is [Panic OtherPanic] and is excluded by the theorems. *)
Fixpoint len_loop (fuel : nat) (r p : ptr) (n : Z) (h : rheap) : result Z :=
  if ptr_eqb p r then Ok n else
  match fuel with
  | O => Panic OtherPanic
  | S f => do c <- hget h p; len_loop f r (r_next c) (n + 1)%Z h
  end.

(* n := 0; if r != nil { n = 1; loop }; return n *)
Definition ring_Len (r : ptr) (h : rheap) : result (Z * rheap) :=
  match r with
  | None => Ok (0%Z, h)
  | Some _ =>
      do (p, h) <- ring_Next r h;
      do n <- len_loop (length h) r p 1%Z h;
      Ok (n, h)
  end.

(* for p := r.Next(); p != r; p = p.next { f(p.Value) }; returns the arguments f received *)
Fixpoint do_loop (fuel : nat) (r p : ptr) (h : rheap) : result (list Z) :=
  if ptr_eqb p r then Ok [] else
  match fuel with
  | O => Panic OtherPanic
  | S f => do c <- hget h p; do rest <- do_loop f r (r_next c) h; Ok (r_val c :: rest)
  end.

(* if r != nil { f(r.Value); loop } *)
Definition ring_Do (r : ptr) (h : rheap) : result (list Z * rheap) :=
  match r with
  | None => Ok ([], h)
  | Some _ =>
      do c <- hget h r;
      do (p, h) <- ring_Next r h;
      do rest <- do_loop (length h) r p h;
      Ok (r_val c :: rest, h)
  end.

(* client code of the harness: p := r; for i := 0; i < n; i++ { p.Value = v0 + i; p = p.Next() } *)
Fixpoint setvals_loop (k : nat) (p : ptr) (v : Z) (h : rheap) : result rheap :=
  match k with
  | O => Ok h
  | S k' =>
      do h <- hupd h p (set_rval v);
      do (p, h) <- ring_Next p h;
      setvals_loop k' p (v + 1)%Z h
  end.

(* ---- operation histories; ring handles are indices into a table of the
   distinct non-nil *Ring values returned so far; an index outside the table is nil ---- *)
Inductive rop :=
| RZero (v : Z)                 (* &Ring{Value: v}: zero value, links nil *)
| RNew (n v0 : Z)               (* NewRing(n), then Values v0, v0+1, ... assigned along Next() *)
| RNext (r : Z) | RPrev (r : Z) | RMove (r n : Z)
| RLink (r s : Z) | RUnlink (r n : Z)
| RLen (r : Z) | RDo (r : Z).

Inductive rout := ROPtr (p : ptr) | ROInt (z : Z) | ROSeq (l : list Z) | ROPanic (k : panic_kind).

Record rrstate := RRState { rh : rheap; rhs : list nat }.

Definition rhnd (hs : list nat) (k : Z) : ptr :=
  if (k <? 0)%Z then None else nth_error hs (Z.to_nat k).

Definition radd_handle (hs : list nat) (p : ptr) : list nat :=
  match p with
  | None => hs
  | Some i => if existsb (Nat.eqb i) hs then hs else hs ++ [i]
  end.

Definition rret_ptr (hs : list nat) (r : result (ptr * rheap)) : result (rout * rrstate) :=
  do (p, h) <- r; Ok (ROPtr p, RRState h (radd_handle hs p)).

Definition rexec (op : rop) (rs : rrstate) : result (rout * rrstate) :=
  let h := rh rs in
  let t := rhs rs in
  match op with
  | RZero v => let (r, h) := halloc h (RCell None None v) in rret_ptr t (Ok (Some r, h))
  | RNew n v0 =>
      rret_ptr t (do (r, h) <- ring_New n h;
                  do h <- setvals_loop (Z.to_nat n) r v0 h; Ok (r, h))
  | RNext r => rret_ptr t (ring_Next (rhnd t r) h)
  | RPrev r => rret_ptr t (ring_Prev (rhnd t r) h)
  | RMove r n => rret_ptr t (ring_Move (rhnd t r) n h)
  | RLink r s => rret_ptr t (ring_Link (rhnd t r) (rhnd t s) h)
  | RUnlink r n => rret_ptr t (ring_Unlink (rhnd t r) n h)
  | RLen r => do (n, h) <- ring_Len (rhnd t r) h; Ok (ROInt n, RRState h t)
  | RDo r => do (l, h) <- ring_Do (rhnd t r) h; Ok (ROSeq l, RRState h t)
  end.

Definition rstep (op : rop) (rs : rrstate) : rout * rrstate :=
  match rexec op rs with
  | Ok x => x
  | Panic k => (ROPanic k, rs)
  end.

Definition init_rrstate : rrstate := RRState [] [].

Fixpoint rrun_from (rs : rrstate) (ops : list rop) : list rout * rrstate :=
  match ops with
  | [] => ([], rs)
  | op :: ops' =>
      let (o, rs1) := rstep op rs in
      let (os, rs2) := rrun_from rs1 ops' in
      (o :: os, rs2)
  end.

Definition rrun (ops : list rop) : list rout * rrstate := rrun_from init_rrstate ops.
