(* Pointer heaps for the lists package models (C06, C16): a heap of cells of
   type C is a [list C]; a cell's address is its index; allocation appends
   (fresh id = length), nothing is ever freed. A Go pointer is [ptr] =
   [option nat], [None] = nil. Dereferencing nil is [Panic NilDeref];
   dereferencing an address that was never allocated cannot happen in Go and
   is reported as [Panic OtherPanic] (the theorems show it is unreachable).
   Definitions plus the basic read-over-write lemmas every proof file needs. *)
From Typ Require Export Lib.Base.

Definition ptr := option nat.
Definition ptr_eqb (a b : ptr) : bool := option_eqb Nat.eqb a b.

(* *p *)
Definition hget {C} (h : list C) (p : ptr) : result C :=
  match p with
  | None => Panic NilDeref
  | Some i => match nth_error h i with Some c => Ok c | None => Panic OtherPanic end
  end.

Fixpoint replace_nth {C} (i : nat) (c : C) (h : list C) : list C :=
  match h, i with
  | [], _ => []
  | _ :: t, O => c :: t
  | x :: t, S i' => x :: replace_nth i' c t
  end.

(* *p = f( *p ) *)
Definition hupd {C} (h : list C) (p : ptr) (f : C -> C) : result (list C) :=
  match p with
  | None => Panic NilDeref
  | Some i => match nth_error h i with Some c => Ok (replace_nth i (f c) h) | None => Panic OtherPanic end
  end.

(* new(C) initialised to c *)
Definition halloc {C} (h : list C) (c : C) : nat * list C := (length h, h ++ [c]).

(* ---- basic lemmas ---- *)

Lemma ptr_eqb_eq a b : ptr_eqb a b = true <-> a = b.
Proof.
  destruct a as [x|], b as [y|]; simpl; split; intro H; try discriminate; auto.
  - apply Nat.eqb_eq in H. congruence.
  - injection H as ->. apply Nat.eqb_refl.
Qed.

Lemma ptr_eqb_neq a b : ptr_eqb a b = false <-> a <> b.
Proof.
  split; intro H.
  - intro E. apply ptr_eqb_eq in E. congruence.
  - destruct (ptr_eqb a b) eqn:E; auto. apply ptr_eqb_eq in E. contradiction.
Qed.

Lemma ptr_eqb_spec a b : reflect (a = b) (ptr_eqb a b).
Proof.
  destruct (ptr_eqb a b) eqn:E; constructor.
  - apply ptr_eqb_eq; exact E.
  - apply ptr_eqb_neq; exact E.
Qed.

Lemma length_replace_nth {C} i (c : C) h : length (replace_nth i c h) = length h.
Proof. revert i; induction h as [|x t IH]; intros [|i]; simpl; auto. Qed.

Lemma nth_error_replace_nth {C} i (c : C) h j :
  nth_error (replace_nth i c h) j =
  if Nat.eqb i j then (match nth_error h i with Some _ => Some c | None => None end) else nth_error h j.
Proof.
  revert i j; induction h as [|x t IH]; intros [|i] [|j]; simpl; auto.
  destruct (Nat.eqb i j); reflexivity.
Qed.

Lemma nth_error_replace_nth_eq {C} i (c c0 : C) h :
  nth_error h i = Some c0 -> nth_error (replace_nth i c h) i = Some c.
Proof. intro H. rewrite nth_error_replace_nth, Nat.eqb_refl, H. reflexivity. Qed.

Lemma nth_error_replace_nth_ne {C} i (c : C) h j :
  i <> j -> nth_error (replace_nth i c h) j = nth_error h j.
Proof. intro H. rewrite nth_error_replace_nth. apply Nat.eqb_neq in H. rewrite H. reflexivity. Qed.

Lemma map_replace_nth {C D} (g : C -> D) i (c : C) h :
  map g (replace_nth i c h) = replace_nth i (g c) (map g h).
Proof. revert i; induction h as [|x t IH]; intros [|i]; simpl; f_equal; auto. Qed.

Lemma replace_nth_same {C} i (c : C) h : nth_error h i = Some c -> replace_nth i c h = h.
Proof.
  revert i; induction h as [|x t IH]; intros [|i] H; simpl in *; try discriminate; auto.
  - congruence.
  - f_equal. auto.
Qed.

Lemma hget_Some {C} (h : list C) i c : hget h (Some i) = Ok c <-> nth_error h i = Some c.
Proof. simpl. destruct (nth_error h i); split; intro H; try discriminate; congruence. Qed.

Lemma hupd_Ok {C} (h h' : list C) p f :
  hupd h p f = Ok h' -> exists i c, p = Some i /\ nth_error h i = Some c /\ h' = replace_nth i (f c) h.
Proof.
  destruct p as [i|]; simpl; [|discriminate].
  destruct (nth_error h i) as [c|] eqn:E; [|discriminate].
  intro H; injection H as <-. eauto.
Qed.

Lemma nth_error_alloc {C} (h : list C) c j :
  nth_error (h ++ [c]) j = if Nat.eqb j (length h) then Some c else nth_error h j.
Proof.
  destruct (Nat.eqb_spec j (length h)) as [->|N].
  - rewrite nth_error_app2, Nat.sub_diag by lia. reflexivity.
  - destruct (Nat.lt_ge_cases j (length h)).
    + apply nth_error_app1; auto.
    + rewrite (proj2 (nth_error_None h j)) by lia.
      apply nth_error_None. rewrite app_length; simpl; lia.
Qed.

(* apply f to cell i (no-op outside the heap) *)
Fixpoint map_nth {C} (f : C -> C) (i : nat) (h : list C) : list C :=
  match h, i with
  | [], _ => []
  | x :: t, O => f x :: t
  | x :: t, S i' => x :: map_nth f i' t
  end.

Lemma length_map_nth {C} (f : C -> C) i h : length (map_nth f i h) = length h.
Proof. revert i; induction h as [|x t IH]; intros [|i]; simpl; auto. Qed.

Lemma nth_error_map_nth {C} (f : C -> C) i h j :
  nth_error (map_nth f i h) j =
  if Nat.eqb j i then option_map f (nth_error h i) else nth_error h j.
Proof.
  revert i j; induction h as [|x t IH]; intros [|i] [|j]; simpl; auto.
  destruct (Nat.eqb j i); reflexivity.
Qed.

Lemma replace_nth_map_nth {C} (f : C -> C) i h c :
  nth_error h i = Some c -> replace_nth i (f c) h = map_nth f i h.
Proof.
  revert i; induction h as [|x t IH]; intros [|i] H; simpl in *; try discriminate.
  - congruence.
  - f_equal; auto.
Qed.

