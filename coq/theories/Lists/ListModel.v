(* Model of lists.List / lists.Element (/repo/lists/list.go), transcribed
   statement by statement with pointer semantics. Definitions only.

   Heap: one cell per Element (the sentinel [root] embedded in a List is a
   cell like any other, allocated together with the List), one record per List.
   A *Element is a [ptr] into [elems]; a *List is an index into [lsts] (the
   receivers and [other] are never nil in the histories we consider; the
   field Element.list is a [ptr] because it can be nil).
   Go int is Z. Element values are Z. *)
From Typ Require Export Lib.Base Lists.Heap.

Record elem := Elem { e_next : ptr; e_prev : ptr; e_list : ptr; e_val : Z }.
Record lrec := LRec { l_root : nat; l_len : Z }.
Record state := State { elems : list elem; lsts : list lrec }.

Definition set_next (v : ptr) (c : elem) : elem := Elem v (e_prev c) (e_list c) (e_val c).
Definition set_prev (v : ptr) (c : elem) : elem := Elem (e_next c) v (e_list c) (e_val c).
Definition set_list (v : ptr) (c : elem) : elem := Elem (e_next c) (e_prev c) v (e_val c).

(* p.f (read) and p.f = v (write); nil p panics *)
Definition rd {A} (f : elem -> A) (s : state) (p : ptr) : result A :=
  do c <- hget (elems s) p; Ok (f c).
Definition wr (f : elem -> elem) (s : state) (p : ptr) : result state :=
  do h <- hupd (elems s) p f; Ok (State h (lsts s)).

(* &l.root, l.len, l.len = z *)
Definition root_of (s : state) (l : nat) : result ptr :=
  do r <- hget (lsts s) (Some l); Ok (Some (l_root r)).
Definition len_of (s : state) (l : nat) : result Z :=
  do r <- hget (lsts s) (Some l); Ok (l_len r).
Definition set_len (s : state) (l : nat) (z : Z) : result state :=
  do h <- hupd (lsts s) (Some l) (fun r => LRec (l_root r) z); Ok (State (elems s) h).

(* &Element{Value: v} *)
Definition alloc_elem (s : state) (v : Z) : nat * state :=
  let (i, h) := halloc (elems s) (Elem None None None v) in (i, State h (lsts s)).

(* new(List) / var l List: the zero value, root links nil, len 0 *)
Definition alloc_list (s : state) : nat * state :=
  let (r, h) := halloc (elems s) (Elem None None None 0) in
  let (l, hl) := halloc (lsts s) (LRec r 0) in
  (l, State h hl).

(* func (l *Element) Next(): if p := l.next; l.list != nil && p != &l.list.root { return p }; return nil *)
Definition elem_Next (s : state) (e : ptr) : result ptr :=
  do p <- rd e_next s e;
  do li <- rd e_list s e;
  match li with
  | None => Ok None
  | Some l => do r <- root_of s l; if negb (ptr_eqb p r) then Ok p else Ok None
  end.

Definition elem_Prev (s : state) (e : ptr) : result ptr :=
  do p <- rd e_prev s e;
  do li <- rd e_list s e;
  match li with
  | None => Ok None
  | Some l => do r <- root_of s l; if negb (ptr_eqb p r) then Ok p else Ok None
  end.

(* l.root.next = &l.root; l.root.prev = &l.root; l.len = 0 *)
Definition list_Init (l : nat) (s : state) : result state :=
  do r <- root_of s l;
  do s <- wr (set_next r) s r;
  do s <- wr (set_prev r) s r;
  set_len s l 0.

Definition list_Len (s : state) (l : nat) : result Z := len_of s l.

(* if l.len == 0 { return nil }; return l.root.next *)
Definition list_Front (s : state) (l : nat) : result ptr :=
  do z <- len_of s l;
  if Z.eqb z 0 then Ok None else
  do r <- root_of s l; rd e_next s r.

Definition list_Back (s : state) (l : nat) : result ptr :=
  do z <- len_of s l;
  if Z.eqb z 0 then Ok None else
  do r <- root_of s l; rd e_prev s r.

(* if l.root.next == nil { l.Init() } *)
Definition list_lazyInit (l : nat) (s : state) : result state :=
  do r <- root_of s l;
  do n <- rd e_next s r;
  if ptr_eqb n None then list_Init l s else Ok s.

(* e.prev = at; e.next = at.next; e.prev.next = e; e.next.prev = e; e.list = l; l.len++; return e *)
Definition list_insert (l : nat) (e at_ : ptr) (s : state) : result (ptr * state) :=
  do s <- wr (set_prev at_) s e;
  do n <- rd e_next s at_;
  do s <- wr (set_next n) s e;
  do p <- rd e_prev s e;
  do s <- wr (set_next e) s p;
  do n <- rd e_next s e;
  do s <- wr (set_prev e) s n;
  do s <- wr (set_list (Some l)) s e;
  do z <- len_of s l;
  do s <- set_len s l (z + 1);
  Ok (e, s).

(* return l.insert(&Element{Value: v}, at) *)
Definition list_insertValue (l : nat) (v : Z) (at_ : ptr) (s : state) : result (ptr * state) :=
  let (e, s) := alloc_elem s v in list_insert l (Some e) at_ s.

(* e.prev.next = e.next; e.next.prev = e.prev; e.next = nil; e.prev = nil; e.list = nil; l.len-- *)
Definition list_remove (l : nat) (e : ptr) (s : state) : result state :=
  do p <- rd e_prev s e;
  do n <- rd e_next s e;
  do s <- wr (set_next n) s p;
  do n <- rd e_next s e;
  do p <- rd e_prev s e;
  do s <- wr (set_prev p) s n;
  do s <- wr (set_next None) s e;
  do s <- wr (set_prev None) s e;
  do s <- wr (set_list None) s e;
  do z <- len_of s l;
  set_len s l (z - 1).

(* if e == at { return }; unlink e; link e after at *)
Definition list_move (l : nat) (e at_ : ptr) (s : state) : result state :=
  if ptr_eqb e at_ then Ok s else
  do p <- rd e_prev s e;
  do n <- rd e_next s e;
  do s <- wr (set_next n) s p;
  do n <- rd e_next s e;
  do p <- rd e_prev s e;
  do s <- wr (set_prev p) s n;
  do s <- wr (set_prev at_) s e;
  do n <- rd e_next s at_;
  do s <- wr (set_next n) s e;
  do p <- rd e_prev s e;
  do s <- wr (set_next e) s p;
  do n <- rd e_next s e;
  do s <- wr (set_prev e) s n;
  Ok s.

(* if e.list == l { l.remove(e) }; return e.Value *)
Definition list_Remove (l : nat) (e : ptr) (s : state) : result (Z * state) :=
  do li <- rd e_list s e;
  do s <- (if ptr_eqb li (Some l) then list_remove l e s else Ok s);
  do v <- rd e_val s e;
  Ok (v, s).

Definition list_PushFront (l : nat) (v : Z) (s : state) : result (ptr * state) :=
  do s <- list_lazyInit l s;
  do r <- root_of s l;
  list_insertValue l v r s.

Definition list_PushBack (l : nat) (v : Z) (s : state) : result (ptr * state) :=
  do s <- list_lazyInit l s;
  do r <- root_of s l;
  do p <- rd e_prev s r;
  list_insertValue l v p s.

(* if mark.list != l { return nil }; return l.insertValue(v, mark.prev) *)
Definition list_InsertBefore (l : nat) (v : Z) (mark : ptr) (s : state) : result (ptr * state) :=
  do lm <- rd e_list s mark;
  if negb (ptr_eqb lm (Some l)) then Ok (None, s) else
  do p <- rd e_prev s mark;
  list_insertValue l v p s.

Definition list_InsertAfter (l : nat) (v : Z) (mark : ptr) (s : state) : result (ptr * state) :=
  do lm <- rd e_list s mark;
  if negb (ptr_eqb lm (Some l)) then Ok (None, s) else
  list_insertValue l v mark s.

(* if e.list != l || l.root.next == e { return }; l.move(e, &l.root) *)
Definition list_MoveToFront (l : nat) (e : ptr) (s : state) : result state :=
  do li <- rd e_list s e;
  if negb (ptr_eqb li (Some l)) then Ok s else
  do r <- root_of s l;
  do n <- rd e_next s r;
  if ptr_eqb n e then Ok s else
  list_move l e r s.

(* if e.list != l || l.root.prev == e { return }; l.move(e, l.root.prev) *)
Definition list_MoveToBack (l : nat) (e : ptr) (s : state) : result state :=
  do li <- rd e_list s e;
  if negb (ptr_eqb li (Some l)) then Ok s else
  do r <- root_of s l;
  do p <- rd e_prev s r;
  if ptr_eqb p e then Ok s else
  list_move l e p s.

(* if e.list != l || e == mark || mark.list != l { return }; l.move(e, mark.prev) *)
Definition list_MoveBefore (l : nat) (e mark : ptr) (s : state) : result state :=
  do li <- rd e_list s e;
  if negb (ptr_eqb li (Some l)) then Ok s else
  if ptr_eqb e mark then Ok s else
  do lm <- rd e_list s mark;
  if negb (ptr_eqb lm (Some l)) then Ok s else
  do p <- rd e_prev s mark;
  list_move l e p s.

Definition list_MoveAfter (l : nat) (e mark : ptr) (s : state) : result state :=
  do li <- rd e_list s e;
  if negb (ptr_eqb li (Some l)) then Ok s else
  if ptr_eqb e mark then Ok s else
  do lm <- rd e_list s mark;
  if negb (ptr_eqb lm (Some l)) then Ok s else
  list_move l e mark s.

(* for i, e := other.Len(), other.Front(); i > 0; i, e = i-1, e.Next() { l.insertValue(e.Value, l.root.prev) }
   [i] is the loop counter (it only counts down, so it is the structural argument);
   e.Next() of the post statement is evaluated after every body, through the current heap.

   These two loops are the only place of the API where a panic can come after writes: when
   other.len exceeds the number of elements reachable from other.Front() (possible only
   after Init of a non-empty list, whose stale elements can still be inserted next to), e
   becomes nil in the middle of the loop and e.Value panics after some copies were
   inserted. The loop therefore returns the state it reached together with the panic, if
   any; one iteration ([..._body]) panics on its first statement, before it writes. *)
Definition pushbacklist_body (l : nat) (e : ptr) (s : state) : result (ptr * state) :=
  do v <- rd e_val s e;
  do r <- root_of s l;
  do p <- rd e_prev s r;
  do (_, s) <- list_insertValue l v p s;
  do e <- elem_Next s e;
  Ok (e, s).

Fixpoint pushbacklist_loop (i : nat) (l : nat) (e : ptr) (s : state) : state * option panic_kind :=
  match i with
  | O => (s, None)
  | S i' =>
      match pushbacklist_body l e s with
      | Ok (e', s') => pushbacklist_loop i' l e' s'
      | Panic k => (s, Some k)
      end
  end.

Definition pushbacklist_run (l other : nat) (s : state) : state * option panic_kind :=
  match list_lazyInit l s with
  | Panic k => (s, Some k)
  | Ok s =>
      match list_Len s other with
      | Panic k => (s, Some k)
      | Ok i =>
          match list_Front s other with
          | Panic k => (s, Some k)
          | Ok e => pushbacklist_loop (Z.to_nat i) l e s
          end
      end
  end.

Definition list_PushBackList (l other : nat) (s : state) : result state :=
  match pushbacklist_run l other s with
  | (s', None) => Ok s'
  | (_, Some k) => Panic k
  end.

(* for i, e := other.Len(), other.Back(); i > 0; i, e = i-1, e.Prev() { l.insertValue(e.Value, &l.root) } *)
Definition pushfrontlist_body (l : nat) (e : ptr) (s : state) : result (ptr * state) :=
  do v <- rd e_val s e;
  do r <- root_of s l;
  do (_, s) <- list_insertValue l v r s;
  do e <- elem_Prev s e;
  Ok (e, s).

Fixpoint pushfrontlist_loop (i : nat) (l : nat) (e : ptr) (s : state) : state * option panic_kind :=
  match i with
  | O => (s, None)
  | S i' =>
      match pushfrontlist_body l e s with
      | Ok (e', s') => pushfrontlist_loop i' l e' s'
      | Panic k => (s, Some k)
      end
  end.

Definition pushfrontlist_run (l other : nat) (s : state) : state * option panic_kind :=
  match list_lazyInit l s with
  | Panic k => (s, Some k)
  | Ok s =>
      match list_Len s other with
      | Panic k => (s, Some k)
      | Ok i =>
          match list_Back s other with
          | Panic k => (s, Some k)
          | Ok e => pushfrontlist_loop (Z.to_nat i) l e s
          end
      end
  end.

Definition list_PushFrontList (l other : nat) (s : state) : result state :=
  match pushfrontlist_run l other s with
  | (s', None) => Ok s'
  | (_, Some k) => Panic k
  end.

(* New(): new(List).Init() *)
Definition list_New (s : state) : result (nat * state) :=
  let (l, s) := alloc_list s in
  do s <- list_Init l s; Ok (l, s).

(* ---- client-side traversals (what an observer can see) ----
   for e := l.Front(); e != nil; e = e.Next() { visit e }   and the same with Back/Prev.
   Fuel: a traversal of a well-formed list visits each cell at most once; running
   out of fuel is [Panic OtherPanic] and is excluded by the theorems. *)
Fixpoint walk (step : state -> ptr -> result ptr) (fuel : nat) (s : state) (e : ptr) : result (list nat) :=
  match e with
  | None => Ok []
  | Some i =>
      match fuel with
      | O => Panic OtherPanic
      | S f => do n <- step s e; do rest <- walk step f s n; Ok (i :: rest)
      end
  end.

Definition walk_fwd (s : state) (l : nat) : result (list nat) :=
  do e <- list_Front s l; walk elem_Next (S (length (elems s))) s e.
Definition walk_bwd (s : state) (l : nat) : result (list nat) :=
  do e <- list_Back s l; walk elem_Prev (S (length (elems s))) s e.

(* ---- operation histories ----
   A history is a list of operations. Lists are named by creation order
   (0, 1, ...). Elements are named by their index in the handle table [hs]:
   every non-nil *Element an operation returns is appended to the table unless
   it is already there, so an index can denote a live element, a removed one,
   an element of another list or a never-inserted zero Element. An index outside
   the table denotes nil. *)
Inductive lop :=
| LNew                                   (* new(List): zero value, not initialised *)
| LNewInit                               (* New() *)
| LElem (v : Z)                          (* &Element{Value: v}: never inserted *)
| LInit (l : Z) | LLen (l : Z) | LFront (l : Z) | LBack (l : Z)
| LPushFront (l v : Z) | LPushBack (l v : Z)
| LInsertBefore (l v m : Z) | LInsertAfter (l v m : Z)
| LRemove (l e : Z)
| LMoveToFront (l e : Z) | LMoveToBack (l e : Z) | LMoveBefore (l e m : Z) | LMoveAfter (l e m : Z)
| LPushBackList (l o : Z) | LPushFrontList (l o : Z)
| LNext (e : Z) | LPrev (e : Z).

Inductive lout := OUnit | OPtr (p : ptr) | OInt (z : Z) | OPanic (k : panic_kind).

Record rstate := RState { st : state; hs : list nat }.

Definition hnd (hs : list nat) (k : Z) : ptr :=
  if (k <? 0)%Z then None else nth_error hs (Z.to_nat k).

Definition add_handle (hs : list nat) (p : ptr) : list nat :=
  match p with
  | None => hs
  | Some i => if existsb (Nat.eqb i) hs then hs else hs ++ [i]
  end.

Definition ret_ptr (hs : list nat) (r : result (ptr * state)) : result (lout * rstate) :=
  do (p, s) <- r; Ok (OPtr p, RState s (add_handle hs p)).
Definition ret_unit (hs : list nat) (r : result state) : result (lout * rstate) :=
  do s <- r; Ok (OUnit, RState s hs).

Definition exec (op : lop) (rs : rstate) : result (lout * rstate) :=
  let s := st rs in
  let h := hs rs in
  let L := Z.to_nat in
  match op with
  | LNew => let (l, s) := alloc_list s in Ok (OInt (Z.of_nat l), RState s h)
  | LNewInit => do (l, s) <- list_New s; Ok (OInt (Z.of_nat l), RState s h)
  | LElem v => let (e, s) := alloc_elem s v in ret_ptr h (Ok (Some e, s))
  | LInit l => ret_unit h (list_Init (L l) s)
  | LLen l => do z <- list_Len s (L l); Ok (OInt z, rs)
  | LFront l => ret_ptr h (do p <- list_Front s (L l); Ok (p, s))
  | LBack l => ret_ptr h (do p <- list_Back s (L l); Ok (p, s))
  | LPushFront l v => ret_ptr h (list_PushFront (L l) v s)
  | LPushBack l v => ret_ptr h (list_PushBack (L l) v s)
  | LInsertBefore l v m => ret_ptr h (list_InsertBefore (L l) v (hnd h m) s)
  | LInsertAfter l v m => ret_ptr h (list_InsertAfter (L l) v (hnd h m) s)
  | LRemove l e => do (v, s) <- list_Remove (L l) (hnd h e) s; Ok (OInt v, RState s h)
  | LMoveToFront l e => ret_unit h (list_MoveToFront (L l) (hnd h e) s)
  | LMoveToBack l e => ret_unit h (list_MoveToBack (L l) (hnd h e) s)
  | LMoveBefore l e m => ret_unit h (list_MoveBefore (L l) (hnd h e) (hnd h m) s)
  | LMoveAfter l e m => ret_unit h (list_MoveAfter (L l) (hnd h e) (hnd h m) s)
  | LPushBackList l o => ret_unit h (list_PushBackList (L l) (L o) s)
  | LPushFrontList l o => ret_unit h (list_PushFrontList (L l) (L o) s)
  | LNext e => ret_ptr h (do p <- elem_Next s (hnd h e); Ok (p, s))
  | LPrev e => ret_ptr h (do p <- elem_Prev s (hnd h e); Ok (p, s))
  end.

(* A panicking call is recovered by the caller and the history continues from the
   state the call had reached: every panic of this API happens on the first
   dereference of a nil argument, before any write, except in the two list-copying
   loops (see above), whose partial effect is kept. *)
Definition panic_state (op : lop) (rs : rstate) : rstate :=
  match op with
  | LPushBackList l o => RState (fst (pushbacklist_run (Z.to_nat l) (Z.to_nat o) (st rs))) (hs rs)
  | LPushFrontList l o => RState (fst (pushfrontlist_run (Z.to_nat l) (Z.to_nat o) (st rs))) (hs rs)
  | _ => rs
  end.

Definition step (op : lop) (rs : rstate) : lout * rstate :=
  match exec op rs with
  | Ok x => x
  | Panic k => (OPanic k, panic_state op rs)
  end.

Definition init_rstate : rstate := RState (State [] []) [].

Fixpoint run_from (rs : rstate) (ops : list lop) : list lout * rstate :=
  match ops with
  | [] => ([], rs)
  | op :: ops' =>
      let (o, rs1) := step op rs in
      let (os, rs2) := run_from rs1 ops' in
      (o :: os, rs2)
  end.

Definition run (ops : list lop) : list lout * rstate := run_from init_rstate ops.
