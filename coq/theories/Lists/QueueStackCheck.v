(* Correspondence check for C16: a case is a history of Queue or Stack calls
   together with, per call, the value the real code returned and the length
   observed after the call. Definitions only. *)
From Typ Require Export Lib.Base Lists.Heap Lists.ListModel Lists.QueueStack.

Local Open Scope Z_scope.

Inductive case :=
| CQueue (ops : list qop) (obs : list (qout * Z))
| CStack (nilrecv : bool) (ops : list sop) (obs : list (qout * Z)).   (* nilrecv: calls on a nil *Stack; Len observed as -1 *)

Definition qout_eqb (a b : qout) : bool :=
  match a, b with
  | QUnit, QUnit => true
  | QVal v ok, QVal v' ok' => Z.eqb v v' && Bool.eqb ok ok'
  | QInt n, QInt n' => Z.eqb n n'
  | QPanic k, QPanic k' => panic_kind_eqb k k'
  | _, _ => false
  end.

Definition obs_eqb (a b : qout * Z) : bool := qout_eqb (fst a) (fst b) && Z.eqb (snd a) (snd b).

Fixpoint qrun_obs (q : nat) (s : state) (ops : list qop) : list (qout * Z) :=
  match ops with
  | [] => []
  | op :: t =>
      let (o, s1) := qstep q op s in
      (o, match queue_Len s1 q with Ok n => n | Panic _ => -1 end) :: qrun_obs q s1 t
  end.

(* the capacity the runtime picks is not observable; the check uses doubling *)
Definition check_newcap (n : nat) : nat := 2 * n.

Fixpoint srun_obs (s : option gslice) (ops : list sop) : list (qout * Z) :=
  match ops with
  | [] => []
  | op :: t =>
      let (o, s1) := sstep check_newcap op s in
      (o, match s1 with Some sl => Z.of_nat (slen sl) | None => -1 end) :: srun_obs s1 t
  end.

Definition check_case (c : case) : bool :=
  match c with
  | CQueue ops obs =>
      let (q, s) := alloc_list (State [] []) in
      list_eqb obs_eqb (qrun_obs q s ops) obs
  | CStack nilrecv ops obs =>
      list_eqb obs_eqb (srun_obs (if nilrecv then None else Some (GSlice [] 0%nat)) ops) obs
  end.
