(* Proofs about the model of lists.List (Lists/ListModel.v).
   Part A: the heap seen as functions (next, prev, owner of a cell) and the
            effect of every primitive read / write on them.
   Part B: doubly linked chains over such functions (pure).
   Part C: the representation invariant [Rep] and its preservation. *)
From Typ Require Import Lib.Base Lists.Heap Lists.ListModel Lists.ListSpec.

(* ================= Part A: projections and primitive effects ================= *)

Definition upd {A} (f : nat -> A) (i : nat) (v : A) : nat -> A :=
  fun j => if Nat.eqb j i then v else f j.

Definition st_upd (f : elem -> elem) (s : state) (i : nat) : state :=
  State (map_nth f i (elems s)) (lsts s).
Definition st_len (s : state) (l : nat) (z : Z) : state :=
  State (elems s) (map_nth (fun r => LRec (l_root r) z) l (lsts s)).
Definition st_alloc (s : state) (c : elem) : state := State (elems s ++ [c]) (lsts s).

Lemma wr_eq f s i : i < size s -> wr f s (Some i) = Ok (st_upd f s i).
Proof.
  intro H. unfold wr, hupd, st_upd, size in *.
  destruct (nth_error (elems s) i) as [c|] eqn:E.
  - cbn [bind]. rewrite (replace_nth_map_nth f i _ c E). reflexivity.
  - apply nth_error_None in E. lia.
Qed.

Lemma rd_eq {A} (g : elem -> A) d s i : i < size s -> rd g s (Some i) = Ok (proj g d s i).
Proof.
  intro H. unfold rd, hget, proj, size in *.
  destruct (nth_error (elems s) i) as [c|] eqn:E; [reflexivity|].
  apply nth_error_None in E. lia.
Qed.

Lemma rd_nil {A} (g : elem -> A) s : rd g s None = Panic NilDeref.
Proof. reflexivity. Qed.
Lemma wr_nil f s : wr f s None = Panic NilDeref.
Proof. reflexivity. Qed.

Lemma size_st_upd f s i : size (st_upd f s i) = size s.
Proof. apply length_map_nth. Qed.
Lemma size_st_len s l z : size (st_len s l z) = size s.
Proof. reflexivity. Qed.
Lemma size_st_alloc s c : size (st_alloc s c) = S (size s).
Proof. unfold size, st_alloc; simpl. rewrite app_length; simpl; lia. Qed.

Lemma lsts_st_upd f s i : lsts (st_upd f s i) = lsts s.
Proof. reflexivity. Qed.
Lemma lsts_st_alloc s c : lsts (st_alloc s c) = lsts s.
Proof. reflexivity. Qed.

Lemma proj_st_upd {A} (g : elem -> A) d f s i j :
  proj g d (st_upd f s i) j =
  if Nat.eqb j i then match nth_error (elems s) i with Some c => g (f c) | None => d end
  else proj g d s j.
Proof.
  unfold proj, st_upd; cbn [elems]. rewrite nth_error_map_nth.
  destruct (Nat.eqb_spec j i) as [->|]; [|reflexivity].
  destruct (nth_error (elems s) i); reflexivity.
Qed.

Lemma proj_st_len {A} (g : elem -> A) d s l z j : proj g d (st_len s l z) j = proj g d s j.
Proof. reflexivity. Qed.

Lemma proj_st_alloc {A} (g : elem -> A) d s c j :
  proj g d (st_alloc s c) j = if Nat.eqb j (size s) then g c else proj g d s j.
Proof. unfold proj, st_alloc, size; cbn [elems]. rewrite nth_error_alloc. destruct (Nat.eqb j (length (elems s))); reflexivity. Qed.

Lemma proj_out {A} (g : elem -> A) d s j : size s <= j -> proj g d s j = d.
Proof. intro H. unfold proj. rewrite (proj2 (nth_error_None _ _)); auto. Qed.

Lemma proj_in {A} (g : elem -> A) d s j : proj g d s j <> d -> j < size s.
Proof.
  intro H. destruct (Nat.lt_ge_cases j (size s)); auto.
  exfalso; apply H, proj_out; auto.
Qed.

(* the nine field/projection combinations, as rewrite rules (side condition i < size s) *)
Section UpdRules.
Variables (s : state) (i j : nat) (v : ptr).
Hypothesis Hi : i < size s.

Local Ltac t := unfold nx, pv, ow, vl, upd; rewrite proj_st_upd;
  let c := fresh in let E := fresh in
  destruct (nth_error (elems s) i) as [c|] eqn:E;
  [ unfold proj; destruct (Nat.eqb_spec j i) as [->|]; [rewrite ?E|]; reflexivity
  | apply nth_error_None in E; unfold size in Hi; lia ].

Lemma nx_set_next : nx (st_upd (set_next v) s i) j = if Nat.eqb j i then v else nx s j. Proof. t. Qed.
Lemma pv_set_next : pv (st_upd (set_next v) s i) j = pv s j. Proof. t. Qed.
Lemma ow_set_next : ow (st_upd (set_next v) s i) j = ow s j. Proof. t. Qed.
Lemma vl_set_next : vl (st_upd (set_next v) s i) j = vl s j. Proof. t. Qed.
Lemma nx_set_prev : nx (st_upd (set_prev v) s i) j = nx s j. Proof. t. Qed.
Lemma pv_set_prev : pv (st_upd (set_prev v) s i) j = if Nat.eqb j i then v else pv s j. Proof. t. Qed.
Lemma ow_set_prev : ow (st_upd (set_prev v) s i) j = ow s j. Proof. t. Qed.
Lemma vl_set_prev : vl (st_upd (set_prev v) s i) j = vl s j. Proof. t. Qed.
Lemma nx_set_list : nx (st_upd (set_list v) s i) j = nx s j. Proof. t. Qed.
Lemma pv_set_list : pv (st_upd (set_list v) s i) j = pv s j. Proof. t. Qed.
Lemma ow_set_list : ow (st_upd (set_list v) s i) j = if Nat.eqb j i then v else ow s j. Proof. t. Qed.
Lemma vl_set_list : vl (st_upd (set_list v) s i) j = vl s j. Proof. t. Qed.
End UpdRules.

(* ================= Part B: doubly linked chains (pure) ================= *)

Ltac upd_tac :=
  unfold upd in *;
  repeat match goal with
         | |- context[Nat.eqb ?x ?y] => destruct (Nat.eqb_spec x y)
         | H : context[Nat.eqb ?x ?y] |- _ => destruct (Nat.eqb_spec x y)
         end; subst; try congruence; try tauto; try solve [intuition congruence].

Lemma chain_app nx pv a xs y ys b :
  chain nx pv a (xs ++ y :: ys) b <-> chain nx pv a xs y /\ chain nx pv y ys b.
Proof.
  revert a; induction xs as [|x t IH]; intro a; simpl.
  - tauto.
  - rewrite IH. tauto.
Qed.

Lemma chain_snoc nx pv a xs y b :
  chain nx pv a (xs ++ [y]) b <-> chain nx pv a xs y /\ nx y = Some b /\ pv b = Some y.
Proof. rewrite chain_app. simpl. tauto. Qed.

Lemma chain_frame nx pv nx' pv' a xs b :
  (forall x, x = a \/ In x xs -> nx' x = nx x) ->
  (forall x, In x xs \/ x = b -> pv' x = pv x) ->
  chain nx pv a xs b -> chain nx' pv' a xs b.
Proof.
  revert a; induction xs as [|x t IH]; intros a Hn Hp; simpl.
  - intros [H1 H2]. rewrite Hn, Hp; auto.
  - intros (H1 & H2 & H3). rewrite Hn, Hp by (simpl; auto). repeat split; auto.
    apply IH; auto.
    + intros y [->|Hy]; apply Hn; simpl; auto.
    + intros y [Hy| ->]; apply Hp; simpl; auto.
Qed.

Lemma chain_first nx pv a xs b : chain nx pv a xs b -> nx a = Some (hd b xs).
Proof. destruct xs; simpl; tauto. Qed.

Lemma last_cons {A} (x a : A) t : last (x :: t) a = last t x.
Proof. revert x a; induction t as [|y u IH]; intros x a; [reflexivity|]. change (last (x :: y :: u) a) with (last (y :: u) a). rewrite !IH. reflexivity. Qed.

Lemma chain_last nx pv a xs b : chain nx pv a xs b -> pv b = Some (last xs a).
Proof.
  revert a; induction xs as [|x t IH]; intro a.
  - simpl. tauto.
  - intros (_ & _ & H). rewrite (IH _ H), last_cons. reflexivity.
Qed.

Lemma chain_at nx pv a pre e post b :
  chain nx pv a (pre ++ e :: post) b -> nx e = Some (hd b post) /\ pv e = Some (last pre a).
Proof.
  rewrite chain_app. intros [H1 H2]. split.
  - eapply chain_first; eauto.
  - eapply chain_last; eauto.
Qed.

Lemma hd_in_or {A} (b : A) l : hd b l = b /\ l = [] \/ In (hd b l) l.
Proof. destruct l; simpl; auto. Qed.

Lemma last_in_or {A} (a : A) l : last l a = a /\ l = [] \/ In (last l a) l.
Proof.
  induction l as [|x t IH]; auto. right.
  destruct t as [|y t']; [simpl; auto|].
  destruct IH as [[_ E]|IH]; [discriminate|].
  change (last (x :: y :: t') a) with (last (y :: t') a). simpl In in *. tauto.
Qed.

(* e.prev = a; e.next = a.next; e.prev.next = e; e.next.prev = e *)
Lemma chain_link nx pv a post b e :
  chain nx pv a post b -> e <> a -> e <> b -> ~ In e post -> ~ In a post -> ~ In b post -> NoDup post ->
  chain (upd (upd nx e (Some (hd b post))) a (Some e))
        (upd (upd pv e (Some a)) (hd b post) (Some e)) a (e :: post) b.
Proof.
  intros H Nea Neb Nep Nap Nbp ND.
  destruct post as [|x t]; simpl in *.
  - destruct H as [H1 H2]. repeat split; upd_tac.
  - destruct H as (H1 & H2 & H3). repeat split; try solve [upd_tac].
    inversion ND; subst.
    eapply chain_frame; [| |exact H3].
    + intros y Hy. upd_tac; tauto.
    + intros y Hy. upd_tac; tauto.
Qed.

(* e.prev.next = e.next; e.next.prev = e.prev *)
Lemma chain_unlink nx pv a pre e post b :
  chain nx pv a (pre ++ e :: post) b -> NoDup (a :: pre ++ e :: post) -> ~ In b (pre ++ e :: post) ->
  chain (upd nx (last pre a) (Some (hd b post))) (upd pv (hd b post) (Some (last pre a))) a (pre ++ post) b.
Proof.
  revert a; induction pre as [|x t IH]; intros a H ND Nb.
  - simpl in *. destruct H as (H1 & H2 & H3).
    inversion ND as [|? ? Na ND1]; subst. inversion ND1 as [|? ? Ne ND2]; subst.
    destruct post as [|y u]; simpl in *.
    + destruct H3 as [H3 H4]. split; upd_tac.
    + destruct H3 as (H3 & H4 & H5). repeat split; try solve [upd_tac].
      inversion ND2; subst.
      eapply chain_frame; [| |exact H5].
      * intros z Hz. upd_tac; tauto.
      * intros z Hz. upd_tac; tauto.
  - change ((x :: t) ++ e :: post) with (x :: (t ++ e :: post)) in *.
    change ((x :: t) ++ post) with (x :: (t ++ post)).
    cbn [chain] in H. destruct H as (H1 & H2 & H3).
    inversion ND as [|? ? Na ND1]; subst.
    rewrite last_cons.
    cbn [chain]. specialize (IH x H3 ND1).
    assert (Nb' : ~ In b (t ++ e :: post)) by (intro; apply Nb; simpl; auto).
    specialize (IH Nb').
    repeat split; auto.
    + (* nx a unchanged: a <> last t x *)
      unfold upd. destruct (Nat.eqb_spec a (last t x)) as [E|]; auto.
      exfalso. apply Na. rewrite E.
      destruct (last_in_or x t) as [[E1 _]|I]; [rewrite E1; simpl; auto|].
      simpl. right. apply in_or_app. auto.
    + (* pv x unchanged: x <> hd b post *)
      unfold upd. destruct (Nat.eqb_spec x (hd b post)) as [E|]; auto.
      exfalso. destruct (hd_in_or b post) as [[E1 _]|I].
      * apply Nb. rewrite <- E1, <- E. simpl; auto.
      * apply NoDup_cons_iff in ND1 as [Nx _]. apply Nx. rewrite E. apply in_or_app. simpl; auto.
Qed.

(* ================= Part A': symbolic execution of the model ================= *)

Lemma rd_next_eq s i : i < size s -> rd e_next s (Some i) = Ok (nx s i).
Proof. apply rd_eq. Qed.
Lemma rd_prev_eq s i : i < size s -> rd e_prev s (Some i) = Ok (pv s i).
Proof. apply rd_eq. Qed.
Lemma rd_list_eq s i : i < size s -> rd e_list s (Some i) = Ok (ow s i).
Proof. apply rd_eq. Qed.
Lemma rd_val_eq s i : i < size s -> rd e_val s (Some i) = Ok (vl s i).
Proof. apply rd_eq. Qed.

Ltac size_tac :=
  rewrite ?size_st_upd, ?size_st_len, ?size_st_alloc; first [assumption | lia].

#[export] Hint Rewrite size_st_upd size_st_len size_st_alloc lsts_st_upd lsts_st_alloc : heap.
#[export] Hint Rewrite nx_set_next pv_set_next ow_set_next vl_set_next
     nx_set_prev pv_set_prev ow_set_prev vl_set_prev
     nx_set_list pv_set_list ow_set_list vl_set_list using size_tac : heap.

Lemma upd_same {A} (f : nat -> A) i v : upd f i v i = v.
Proof. unfold upd. rewrite Nat.eqb_refl. reflexivity. Qed.
Lemma upd_other {A} (f : nat -> A) i v j : j <> i -> upd f i v j = f j.
Proof. intro H. unfold upd. apply Nat.eqb_neq in H. rewrite H. reflexivity. Qed.

(* one Go statement: a field read or write through a non-nil pointer *)
Ltac hstep :=
  first [ rewrite wr_eq by size_tac
        | rewrite rd_next_eq by size_tac
        | rewrite rd_prev_eq by size_tac
        | rewrite rd_list_eq by size_tac
        | rewrite rd_val_eq by size_tac ];
  cbn [bind].

Ltac hnorm := autorewrite with heap; rewrite ?Nat.eqb_refl;
  repeat match goal with
         | |- context[Nat.eqb ?x ?y] =>
             first [ rewrite (proj2 (Nat.eqb_neq x y)) by congruence
                   | rewrite (proj2 (Nat.eqb_eq x y)) by congruence ]
         end.

(* link e after a (n0 = a.next): e.prev = a; e.next = a.next; e.prev.next = e; e.next.prev = e *)
Definition st_link (s : state) (e a n0 : nat) : state :=
  st_upd (set_prev (Some e))
    (st_upd (set_next (Some e))
       (st_upd (set_next (Some n0))
          (st_upd (set_prev (Some a)) s e) e) a) n0.

Section Link.
Variables (s : state) (e a n0 : nat).
Hypotheses (He : e < size s) (Ha : a < size s) (Hn : n0 < size s).

Lemma size_st_link : size (st_link s e a n0) = size s.
Proof. unfold st_link, upd. now autorewrite with heap. Qed.
Lemma lsts_st_link : lsts (st_link s e a n0) = lsts s.
Proof. reflexivity. Qed.
Lemma nx_st_link j : nx (st_link s e a n0) j = upd (upd (nx s) e (Some n0)) a (Some e) j.
Proof. unfold st_link, upd. now autorewrite with heap. Qed.
Lemma pv_st_link j : pv (st_link s e a n0) j = upd (upd (pv s) e (Some a)) n0 (Some e) j.
Proof. unfold st_link, upd. now autorewrite with heap. Qed.
Lemma ow_st_link j : ow (st_link s e a n0) j = ow s j.
Proof. unfold st_link, upd. now autorewrite with heap. Qed.
Lemma vl_st_link j : vl (st_link s e a n0) j = vl s j.
Proof. unfold st_link, upd. now autorewrite with heap. Qed.
End Link.

(* unlink e (p = e.prev, n = e.next): e.prev.next = e.next; e.next.prev = e.prev *)
Definition st_unlink (s : state) (p n : nat) : state :=
  st_upd (set_prev (Some p)) (st_upd (set_next (Some n)) s p) n.

Section Unlink.
Variables (s : state) (p n : nat).
Hypotheses (Hp : p < size s) (Hn : n < size s).
Lemma size_st_unlink : size (st_unlink s p n) = size s.
Proof. unfold st_unlink, upd. now autorewrite with heap. Qed.
Lemma lsts_st_unlink : lsts (st_unlink s p n) = lsts s.
Proof. reflexivity. Qed.
Lemma nx_st_unlink j : nx (st_unlink s p n) j = upd (nx s) p (Some n) j.
Proof. unfold st_unlink, upd. now autorewrite with heap. Qed.
Lemma pv_st_unlink j : pv (st_unlink s p n) j = upd (pv s) n (Some p) j.
Proof. unfold st_unlink, upd. now autorewrite with heap. Qed.
Lemma ow_st_unlink j : ow (st_unlink s p n) j = ow s j.
Proof. unfold st_unlink, upd. now autorewrite with heap. Qed.
Lemma vl_st_unlink j : vl (st_unlink s p n) j = vl s j.
Proof. unfold st_unlink, upd. now autorewrite with heap. Qed.
End Unlink.

(* l.len = z *)
Lemma set_len_eq s l z : l < length (lsts s) -> set_len s l z = Ok (st_len s l z).
Proof.
  intro H. unfold set_len, hupd, st_len.
  destruct (nth_error (lsts s) l) as [r|] eqn:E.
  - cbn [bind]. rewrite (replace_nth_map_nth (fun r => LRec (l_root r) z) l _ r E). reflexivity.
  - apply nth_error_None in E. lia.
Qed.

Lemma root_of_eq s l r z : nth_error (lsts s) l = Some (LRec r z) -> root_of s l = Ok (Some r).
Proof. intro H. unfold root_of, hget. rewrite H. reflexivity. Qed.
Lemma len_of_eq s l r z : nth_error (lsts s) l = Some (LRec r z) -> len_of s l = Ok z.
Proof. intro H. unfold len_of, hget. rewrite H. reflexivity. Qed.

Lemma lsts_st_len s l z j :
  nth_error (lsts (st_len s l z)) j =
  if Nat.eqb j l then option_map (fun r => LRec (l_root r) z) (nth_error (lsts s) l) else nth_error (lsts s) j.
Proof. unfold st_len; cbn [lsts]. apply nth_error_map_nth. Qed.

(* the four linking statements of insert / move *)
Lemma link_exec s e a n0 (k : state -> result state) :
  e < size s -> a < size s -> n0 < size s -> e <> a -> nx s a = Some n0 ->
  (do s <- wr (set_prev (Some a)) s (Some e);
   do n <- rd e_next s (Some a);
   do s <- wr (set_next n) s (Some e);
   do p <- rd e_prev s (Some e);
   do s <- wr (set_next (Some e)) s p;
   do n <- rd e_next s (Some e);
   do s <- wr (set_prev (Some e)) s n;
   k s) = k (st_link s e a n0).
Proof.
  intros He Ha Hn Nea E.
  hstep. hstep. hnorm. rewrite E. hstep. hstep. hnorm. hstep. hstep. hnorm. hstep.
  reflexivity.
Qed.

(* ================= Part C: the representation invariant ================= *)

Lemma ow_lt s e l : ow s e = Some l -> e < size s.
Proof. intro H. apply (proj_in e_list None). unfold ow in H. congruence. Qed.

Lemma nth_error_is_root a l r o : nth_error (a_lists a) l = Some (r, o) -> is_root a r.
Proof. intro H. unfold is_root. apply nth_error_In in H. apply (in_map fst) in H. exact H. Qed.

Lemma Rep_root_notin s a l r xs l' r' o' :
  Rep s a -> nth_error (a_lists a) l = Some (r, Some xs) -> nth_error (a_lists a) l' = Some (r', o') -> ~ In r' xs.
Proof.
  intros R H H' I.
  destruct (R_init _ _ R _ _ _ H) as (_ & _ & O). specialize (O _ I).
  destruct (R_roots _ _ R) as [_ RR]. destruct (RR r' (nth_error_is_root _ _ _ _ H')) as [_ E]. congruence.
Qed.

Lemma Rep_roots_inj s a l r o l' o' :
  Rep s a -> nth_error (a_lists a) l = Some (r, o) -> nth_error (a_lists a) l' = Some (r, o') -> l = l'.
Proof.
  intros R H H'. destruct (R_roots _ _ R) as [ND _].
  assert (E1 : nth_error (map fst (a_lists a)) l = Some r) by (rewrite nth_error_map, H; reflexivity).
  assert (E2 : nth_error (map fst (a_lists a)) l' = Some r) by (rewrite nth_error_map, H'; reflexivity).
  eapply (proj1 (NoDup_nth_error _) ND); [|congruence].
  apply nth_error_Some. congruence.
Qed.

Lemma a_set_nth a l xs j :
  nth_error (a_lists (a_set a l xs)) j =
  if Nat.eqb j l then option_map (fun x => (fst x, Some xs)) (nth_error (a_lists a) l)
  else nth_error (a_lists a) j.
Proof. unfold a_set; cbn [a_lists]. apply nth_error_map_nth. Qed.

Lemma map_fst_map_nth (L : list (nat * option (list nat))) l xs :
  map fst (map_nth (fun x => (fst x, Some xs)) l L) = map fst L.
Proof. revert l; induction L as [|x t IH]; intros [|l]; simpl; f_equal; auto. Qed.

Lemma is_root_a_set a l xs e : is_root (a_set a l xs) e <-> is_root a e.
Proof. unfold is_root, a_set; cbn [a_lists]. rewrite map_fst_map_nth. tauto. Qed.

(* Generic preservation: list l changes from o to Some xs'; cells outside
   {root} + old members + new members are untouched; new members were free cells. *)
Lemma Rep_set_list s a s' l r o xs' :
  Rep s a ->
  nth_error (a_lists a) l = Some (r, o) ->
  let old := match o with Some xs => xs | None => [] end in
  size s' = size s ->
  (forall j, vl s' j = vl s j) ->
  (forall j, nth_error (lsts s') j =
             if Nat.eqb j l then Some (LRec r (Z.of_nat (length xs'))) else nth_error (lsts s) j) ->
  (forall j, j <> r -> ~ In j old -> ~ In j xs' ->
             nx s' j = nx s j /\ pv s' j = pv s j /\ ow s' j = ow s j) ->
  (forall j, In j xs' -> ~ In j old -> ow s j = None /\ ~ is_root a j /\ j < size s) ->
  chain (nx s') (pv s') r xs' r -> NoDup xs' -> (forall e, In e xs' -> ow s' e = Some l) ->
  ow s' r = None ->
  (forall j, In j old -> ~ In j xs' -> ow s' j = None /\ nx s' j = None /\ pv s' j = None) ->
  Rep s' (a_set a l xs').
Proof.
  intros R Hl old Hsz Hvl Hls Hfr Hnew Hch Hnd How Hr Hrm.
  assert (Hold : forall j, In j old -> ow s j = Some l).
  { subst old. destruct o as [xs|]; [|intros ? []]. apply (R_init _ _ R _ _ _ Hl). }
  assert (Hroot_un : forall e, is_root a e -> e <> r ->
                               nx s' e = nx s e /\ pv s' e = pv s e /\ ow s' e = ow s e).
  { intros e He Ne. destruct (proj2 (R_roots _ _ R) e He) as [_ Oe].
    apply Hfr; auto.
    - intro I. apply Hold in I. congruence.
    - intro I. destruct (in_dec Nat.eq_dec e old) as [I'|I'].
      + apply Hold in I'. congruence.
      + destruct (Hnew e I I') as (_ & N & _). contradiction. }
  assert (Hother : forall e l', l' <> l -> ow s e = Some l' ->
                                nx s' e = nx s e /\ pv s' e = pv s e /\ ow s' e = ow s e).
  { intros e l' Nl Oe. apply Hfr.
    - intros ->. destruct (proj2 (R_roots _ _ R) r (nth_error_is_root _ _ _ _ Hl)). congruence.
    - intro I. apply Hold in I. congruence.
    - intro I. destruct (in_dec Nat.eq_dec e old) as [I'|I'].
      + apply Hold in I'. congruence.
      + destruct (Hnew e I I') as (N & _). congruence. }
  constructor.
  - (* vals *)
    destruct (R_vals _ _ R) as [V1 V2]. cbn [a_set a_vals]. split; [congruence|].
    intros j Hj. rewrite Hvl. apply V2. lia.
  - (* lsts *)
    destruct (R_lsts _ _ R) as [L1 L2]. split.
    + unfold a_set; cbn [a_lists]. rewrite length_map_nth, <- L1.
      (* lengths: from pointwise description *)
      assert (forall j, nth_error (lsts s') j = None <-> nth_error (lsts s) j = None).
      { intro j. rewrite Hls. destruct (Nat.eqb_spec j l) as [->|]; [|tauto].
        rewrite (L2 _ _ _ Hl). split; discriminate. }
      destruct (Nat.lt_trichotomy (length (lsts s')) (length (lsts s))) as [Lt|[E|Lt]]; auto; exfalso.
      * assert (N : nth_error (lsts s') (length (lsts s')) = None) by (apply nth_error_None; lia).
        apply H in N. apply nth_error_None in N. lia.
      * assert (N : nth_error (lsts s) (length (lsts s)) = None) by (apply nth_error_None; lia).
        apply H in N. apply nth_error_None in N. lia.
    + intros l' r' o'. rewrite a_set_nth, Hls.
      destruct (Nat.eqb_spec l' l) as [->|N].
      * rewrite Hl. cbn. intro E; injection E as <- <-. reflexivity.
      * apply L2.
  - (* roots *)
    destruct (R_roots _ _ R) as [ND RR]. split.
    + unfold a_set; cbn [a_lists]. rewrite map_fst_map_nth. exact ND.
    + intros e He. apply is_root_a_set in He. destruct (RR e He) as [Se Oe]. split; [lia|].
      destruct (Nat.eq_dec e r) as [->|Ne]; auto.
      destruct (Hroot_un e He Ne) as (_ & _ & ->). exact Oe.
  - (* uninit *)
    intros l' r'. rewrite a_set_nth.
    destruct (Nat.eqb_spec l' l) as [->|N].
    + rewrite Hl. cbn. discriminate.
    + intro H'. destruct (R_uninit _ _ R _ _ H') as [U1 U2].
      assert (Ne : r' <> r).
      { intros ->. apply N. eapply Rep_roots_inj; eauto. }
      destruct (Hroot_un r' (nth_error_is_root _ _ _ _ H') Ne) as (-> & -> & _). auto.
  - (* init *)
    intros l' r' xs. rewrite a_set_nth.
    destruct (Nat.eqb_spec l' l) as [->|N].
    + rewrite Hl. cbn. intro E; injection E as <- <-. auto.
    + intro H'. destruct (R_init _ _ R _ _ _ H') as (C & D & O).
      assert (Ne : r' <> r).
      { intros ->. apply N. eapply Rep_roots_inj; eauto. }
      repeat split; auto.
      * eapply chain_frame; [| |exact C].
        -- intros x [->|I]; [apply (Hroot_un r' (nth_error_is_root _ _ _ _ H') Ne)|].
           apply (Hother x l' N (O _ I)).
        -- intros x [I| ->]; [|apply (Hroot_un r' (nth_error_is_root _ _ _ _ H') Ne)].
           apply (Hother x l' N (O _ I)).
      * intros e I. destruct (Hother e l' N (O _ I)) as (_ & _ & ->). auto.
  - (* own *)
    intros e l' Oe.
    destruct (in_dec Nat.eq_dec e xs') as [I|NI].
    + rewrite (How _ I) in Oe. injection Oe as <-.
      exists r, xs'. rewrite a_set_nth, Nat.eqb_refl, Hl. auto.
    + destruct (in_dec Nat.eq_dec e old) as [I'|NI'].
      { destruct (Hrm e I' NI) as (E & _). congruence. }
      destruct (Nat.eq_dec e r) as [->|Ne]; [congruence|].
      destruct (Hfr e Ne NI' NI) as (_ & _ & E). rewrite E in Oe.
      destruct (R_own _ _ R _ _ Oe) as (r0 & xs0 & H0 & I0).
      destruct (Nat.eq_dec l' l) as [->|Nl].
      * exfalso. apply NI'. subst old. rewrite Hl in H0. injection H0 as E1 E2. rewrite E2. exact I0.
      * exists r0, xs0. rewrite a_set_nth. apply Nat.eqb_neq in Nl. rewrite Nl. auto.
  - (* free *)
    intros e Oe Nr. rewrite is_root_a_set in Nr.
    destruct (in_dec Nat.eq_dec e xs') as [I|NI].
    { rewrite (How _ I) in Oe. discriminate. }
    destruct (in_dec Nat.eq_dec e old) as [I'|NI'].
    { destruct (Hrm e I' NI) as (_ & E1 & E2). auto. }
    destruct (Nat.eq_dec e r) as [->|Ne].
    { exfalso. apply Nr. eapply nth_error_is_root; eauto. }
    destruct (Hfr e Ne NI' NI) as (-> & -> & E). rewrite E in Oe.
    apply (R_free _ _ R); auto.
Qed.

(* ---- pure facts about the sequence surgery ---- *)

Lemma NoDup_app_iff {A} (l1 l2 : list A) :
  NoDup (l1 ++ l2) <-> NoDup l1 /\ NoDup l2 /\ forall x, In x l1 -> ~ In x l2.
Proof.
  induction l1 as [|x t IH]; simpl.
  - split; [intro H; repeat split; auto; constructor | tauto].
  - rewrite !NoDup_cons_iff, IH, in_app_iff. split.
    + intros (N & D1 & D2 & D3). repeat split; auto.
      intros y [->|I]; auto.
    + intros ((N1 & D1) & D2 & D3). repeat split; auto.
      intros [I|I]; auto. apply (D3 x); auto.
Qed.

Lemma rem_notin e xs : ~ In e xs -> rem e xs = xs.
Proof.
  induction xs as [|x t IH]; simpl; auto. intro N.
  destruct (Nat.eqb_spec x e) as [->|]; [tauto|]. f_equal. tauto.
Qed.

Lemma rem_split e pre post : ~ In e pre -> ~ In e post -> rem e (pre ++ e :: post) = pre ++ post.
Proof.
  intros N1 N2. induction pre as [|x t IH]; simpl.
  - rewrite Nat.eqb_refl. apply rem_notin; auto.
  - destruct (Nat.eqb_spec x e) as [->|]; [simpl in N1; tauto|]. f_equal. apply IH. simpl in N1; tauto.
Qed.

Lemma in_rem e xs j : In j (rem e xs) <-> In j xs /\ j <> e.
Proof.
  induction xs as [|x t IH]; simpl; [tauto|].
  destruct (Nat.eqb_spec x e) as [->|N]; simpl; rewrite IH; intuition congruence.
Qed.

Lemma NoDup_rem e xs : NoDup xs -> NoDup (rem e xs).
Proof.
  induction 1 as [|x t N D IH]; simpl; [constructor|].
  destruct (Nat.eqb_spec x e); auto. constructor; auto. rewrite in_rem. tauto.
Qed.

Lemma ins_after_split m e pre post : ~ In m pre -> ins_after m e (pre ++ m :: post) = pre ++ m :: e :: post.
Proof.
  intro N. induction pre as [|x t IH]; simpl.
  - rewrite Nat.eqb_refl. reflexivity.
  - destruct (Nat.eqb_spec x m) as [->|]; [simpl in N; tauto|]. f_equal. apply IH. simpl in N; tauto.
Qed.

Lemma ins_before_split m e pre post : ~ In m pre -> ins_before m e (pre ++ m :: post) = pre ++ e :: m :: post.
Proof.
  intro N. induction pre as [|x t IH]; simpl.
  - rewrite Nat.eqb_refl. reflexivity.
  - destruct (Nat.eqb_spec x m) as [->|]; [simpl in N; tauto|]. f_equal. apply IH. simpl in N; tauto.
Qed.

Lemma mem_In e xs : mem e xs = true <-> In e xs.
Proof.
  unfold mem. rewrite existsb_exists. split.
  - intros (x & I & E). apply Nat.eqb_eq in E. congruence.
  - intro I. exists e. split; auto. apply Nat.eqb_refl.
Qed.

Lemma mem_false e xs : mem e xs = false <-> ~ In e xs.
Proof. rewrite <- mem_In. destruct (mem e xs); split; congruence. Qed.

(* link e after at_ in the cycle root :: xs *)
Definition link_after (r at_ e : nat) (xs : list nat) : list nat :=
  if Nat.eqb at_ r then e :: xs else ins_after at_ e xs.

Lemma chain_insert nx pv r xs at_ e :
  chain nx pv r xs r -> NoDup xs -> ~ In r xs -> (at_ = r \/ In at_ xs) -> e <> r -> ~ In e xs ->
  exists n0, nx at_ = Some n0 /\ (n0 = r \/ In n0 xs) /\
    let xs' := link_after r at_ e xs in
    chain (upd (upd nx e (Some n0)) at_ (Some e)) (upd (upd pv e (Some at_)) n0 (Some e)) r xs' r /\
    NoDup xs' /\ (forall j, In j xs' <-> j = e \/ In j xs).
Proof.
  intros C D Nr Hat Ner Ne.
  destruct (Nat.eq_dec at_ r) as [->|Nat_].
  - exists (hd r xs). split; [eapply chain_first; eauto|]. split.
    { destruct (hd_in_or r xs) as [[E _]|I]; auto. }
    unfold link_after. rewrite Nat.eqb_refl. cbn zeta. split; [|split].
    + apply chain_link; auto.
    + constructor; auto.
    + intro j. simpl. intuition congruence.
  - destruct Hat as [->|I]; [congruence|].
    destruct (in_split _ _ I) as (pre & post & ->).
    apply NoDup_app_iff in D as (D1 & D2 & D3). apply NoDup_cons_iff in D2 as [D2 D4].
    rewrite in_app_iff in Nr, Ne. simpl in Nr, Ne.
    apply chain_app in C as [C1 C2].
    assert (Npre : ~ In at_ pre) by (intro X; apply (D3 _ X); simpl; auto).
    exists (hd r post). split; [eapply chain_first; eauto|]. split.
    { destruct (hd_in_or r post) as [[E _]|I']; auto. right. apply in_or_app. simpl; auto. }
    unfold link_after. apply Nat.eqb_neq in Nat_. rewrite Nat_. apply Nat.eqb_neq in Nat_.
    rewrite ins_after_split by auto. cbn zeta. split; [|split].
    + apply chain_app. split.
      * eapply chain_frame; [| |exact C1].
        -- intros x Hx. unfold upd.
           destruct (Nat.eqb_spec x at_) as [->|]; [destruct Hx as [->|]; tauto|].
           destruct (Nat.eqb_spec x e) as [->|]; [destruct Hx as [->|]; tauto|]. reflexivity.
        -- intros x Hx. unfold upd.
           destruct (Nat.eqb_spec x (hd r post)) as [->|].
           { exfalso. destruct (hd_in_or r post) as [[E _]|I'].
             - rewrite E in Hx. destruct Hx as [Hx|Hx]; [tauto|]. congruence.
             - destruct Hx as [Hx|Hx]; [apply (D3 _ Hx); simpl; auto|]. rewrite Hx in I'. tauto. }
           destruct (Nat.eqb_spec x e) as [->|]; [destruct Hx as [Hx| ->]; tauto|]. reflexivity.
      * apply chain_link; auto; tauto.
    + apply NoDup_app_iff. split; [auto|]. split.
      * constructor; [simpl; intuition congruence|]. constructor; [tauto|auto].
      * intros x Hx. simpl. intros [->|[->|I']]; [tauto|tauto|]. apply (D3 _ Hx). simpl; auto.
    + intro j. rewrite !in_app_iff. simpl. intuition congruence.
Qed.

Lemma chain_remove nx pv r xs e :
  chain nx pv r xs r -> NoDup xs -> ~ In r xs -> In e xs ->
  exists p n, pv e = Some p /\ nx e = Some n /\ (p = r \/ In p xs) /\ (n = r \/ In n xs) /\ p <> e /\ n <> e /\
    chain (upd nx p (Some n)) (upd pv n (Some p)) r (rem e xs) r.
Proof.
  intros C D Nr I.
  destruct (in_split _ _ I) as (pre & post & ->).
  pose proof D as D0.
  apply NoDup_app_iff in D as (D1 & D2 & D3). apply NoDup_cons_iff in D2 as [D2 D4].
  assert (Npre : ~ In e pre) by (intro X; apply (D3 _ X); simpl; auto).
  destruct (chain_at _ _ _ _ _ _ _ C) as [E1 E2].
  exists (last pre r), (hd r post). repeat split; auto.
  - destruct (last_in_or r pre) as [[E _]|I']; auto. right. apply in_or_app; auto.
  - destruct (hd_in_or r post) as [[E _]|I']; auto. right. apply in_or_app; simpl; auto.
  - destruct (last_in_or r pre) as [[E _]|I']; [rewrite E; intros ->; apply Nr, in_or_app; simpl; auto|].
    intros E. rewrite E in I'. tauto.
  - destruct (hd_in_or r post) as [[E _]|I']; [rewrite E; intros ->; apply Nr, in_or_app; simpl; auto|].
    intros E. rewrite E in I'. tauto.
  - rewrite rem_split by auto. apply (chain_unlink nx pv r pre e post r); auto. constructor; auto.
Qed.

(* ---- state-level lemmas for the internal operations ---- *)

Lemma nx_st_len s l z j : nx (st_len s l z) j = nx s j. Proof. reflexivity. Qed.
Lemma pv_st_len s l z j : pv (st_len s l z) j = pv s j. Proof. reflexivity. Qed.
Lemma ow_st_len s l z j : ow (st_len s l z) j = ow s j. Proof. reflexivity. Qed.
Lemma vl_st_len s l z j : vl (st_len s l z) j = vl s j. Proof. reflexivity. Qed.
Lemma lsts_st_len_upd f s i l z : lsts (st_len (st_upd f s i) l z) = lsts (st_len s l z).
Proof. reflexivity. Qed.
#[export] Hint Rewrite nx_st_len pv_st_len ow_st_len vl_st_len : heap.
#[export] Hint Rewrite size_st_link size_st_unlink lsts_st_link lsts_st_unlink : heap.
#[export] Hint Rewrite nx_st_link pv_st_link ow_st_link vl_st_link
     nx_st_unlink pv_st_unlink ow_st_unlink vl_st_unlink using size_tac : heap.

Lemma Rep_list s a l r o :
  Rep s a -> nth_error (a_lists a) l = Some (r, o) ->
  nth_error (lsts s) l = Some (LRec r (alen o)) /\ r < size s /\ ow s r = None /\ l < length (lsts s).
Proof.
  intros R H. destruct (R_lsts _ _ R) as [L1 L2].
  destruct (proj2 (R_roots _ _ R) r (nth_error_is_root _ _ _ _ H)) as [A B].
  repeat split; auto. rewrite L1. apply nth_error_Some. congruence.
Qed.

Lemma init_sim s a l r o :
  Rep s a -> nth_error (a_lists a) l = Some (r, o) -> (o = None \/ o = Some []) ->
  exists s', list_Init l s = Ok s' /\ Rep s' (a_set a l []).
Proof.
  intros R H Ho. destruct (Rep_list _ _ _ _ _ R H) as (Hl & Hr & Hor & Hlen).
  unfold list_Init. rewrite (root_of_eq _ _ _ _ Hl). cbn [bind].
  hstep. hstep. rewrite set_len_eq by (autorewrite with heap; auto).
  eexists. split; [reflexivity|].
  apply (Rep_set_list s a _ l r o []); auto.
  - now autorewrite with heap.
  - intro j. now autorewrite with heap.
  - intro j. rewrite lsts_st_len. cbn [lsts st_upd]. rewrite Hl. reflexivity.
  - intros j Nj _ _. hnorm. auto.
  - intros j [].
  - cbn [chain]. hnorm. auto.
  - constructor.
  - intros e [].
  - hnorm. auto.
  - destruct Ho as [-> | ->]; intros j [].
Qed.

Lemma len_of_st_upd f s i l : len_of (st_upd f s i) l = len_of s l. Proof. reflexivity. Qed.
Lemma root_of_st_upd f s i l : root_of (st_upd f s i) l = root_of s l. Proof. reflexivity. Qed.
Lemma len_of_st_link s e a n l : len_of (st_link s e a n) l = len_of s l. Proof. reflexivity. Qed.
Lemma root_of_st_link s e a n l : root_of (st_link s e a n) l = root_of s l. Proof. reflexivity. Qed.
Lemma len_of_st_unlink s p n l : len_of (st_unlink s p n) l = len_of s l. Proof. reflexivity. Qed.
Lemma root_of_st_unlink s p n l : root_of (st_unlink s p n) l = root_of s l. Proof. reflexivity. Qed.
#[export] Hint Rewrite len_of_st_upd root_of_st_upd len_of_st_link root_of_st_link len_of_st_unlink root_of_st_unlink : heap.

Ltac size_tac ::=
  rewrite ?size_st_upd, ?size_st_len, ?size_st_alloc, ?size_st_link, ?size_st_unlink; first [assumption | lia].

Lemma chain_ext nx pv nx' pv' a xs b :
  (forall j, nx' j = nx j) -> (forall j, pv' j = pv j) -> chain nx pv a xs b -> chain nx' pv' a xs b.
Proof. intros H1 H2. apply chain_frame; auto. Qed.

Lemma length_ins_after m e xs : In m xs -> length (ins_after m e xs) = S (length xs).
Proof.
  induction xs as [|x t IH]; simpl; [tauto|].
  destruct (Nat.eqb_spec x m) as [->|N]; simpl; auto.
  intros [E|I]; [congruence|]. rewrite IH; auto.
Qed.

Lemma length_ins_before m e xs : In m xs -> length (ins_before m e xs) = S (length xs).
Proof.
  induction xs as [|x t IH]; simpl; [tauto|].
  destruct (Nat.eqb_spec x m) as [->|N]; simpl; auto.
  intros [E|I]; [congruence|]. rewrite IH; auto.
Qed.

Lemma length_link_after r at_ e xs : ~ In r xs -> (at_ = r \/ In at_ xs) -> length (link_after r at_ e xs) = S (length xs).
Proof.
  intros Nr H. unfold link_after. destruct (Nat.eqb_spec at_ r) as [->|N]; [reflexivity|].
  destruct H; [congruence|]. apply length_ins_after; auto.
Qed.

Lemma length_rem e xs : NoDup xs -> In e xs -> S (length (rem e xs)) = length xs.
Proof.
  induction 1 as [|x t N D IH]; simpl; [tauto|].
  destruct (Nat.eqb_spec x e) as [->|Ne].
  - intros _. rewrite rem_notin; auto.
  - intros [E|I]; [congruence|]. simpl. rewrite IH; auto.
Qed.

Lemma insert_sim s a l r xs at_ e :
  Rep s a -> nth_error (a_lists a) l = Some (r, Some xs) -> (at_ = r \/ In at_ xs) ->
  e < size s -> ow s e = None -> ~ is_root a e ->
  exists s', list_insert l (Some e) (Some at_) s = Ok (Some e, s') /\ Rep s' (a_set a l (link_after r at_ e xs)).
Proof.
  intros R H Hat He Oe Nre.
  destruct (Rep_list _ _ _ _ _ R H) as (Hl & Hr & Hor & Hlen).
  destruct (R_init _ _ R _ _ _ H) as (C & D & O).
  assert (Nr : ~ In r xs) by (eapply Rep_root_notin; eauto).
  assert (Ner : e <> r) by (intros ->; apply Nre; eapply nth_error_is_root; eauto).
  assert (Nex : ~ In e xs) by (intro I; apply O in I; congruence).
  destruct (chain_insert _ _ _ _ _ _ C D Nr Hat Ner Nex) as (n0 & En & Hn0 & C' & D' & I').
  assert (Hat_lt : at_ < size s) by (destruct Hat as [->|I]; [auto|eapply ow_lt; eauto]).
  assert (Hn0_lt : n0 < size s) by (destruct Hn0 as [->|I]; [auto|eapply ow_lt; eauto]).
  assert (Nea : e <> at_) by (destruct Hat as [->|I]; [auto|intros ->; auto]).
  unfold list_insert.
  hstep. hstep. hnorm. rewrite En. hstep. hstep. hnorm. hstep. hstep. hnorm. hstep.
  fold (st_link s e at_ n0).
  hstep. hnorm. rewrite (len_of_eq _ _ _ _ Hl). cbn [bind].
  rewrite set_len_eq by (autorewrite with heap; auto). cbn [bind].
  eexists. split; [reflexivity|].
  apply (Rep_set_list s a _ l r (Some xs) (link_after r at_ e xs)); auto.
  - now autorewrite with heap.
  - intro j. now autorewrite with heap.
  - intro j. rewrite lsts_st_len. cbn [lsts st_upd st_link]. rewrite Hl.
    rewrite length_link_after by auto. destruct (j =? l); [|reflexivity].
    cbn [option_map l_root alen]. do 2 f_equal. lia.
  - intros j Nj Nx Nx'. rewrite I' in Nx'. hnorm. unfold upd.
    assert (j <> e) by tauto. assert (j <> at_) by (destruct Hat as [->|]; [auto|intros ->; tauto]).
    assert (j <> n0) by (destruct Hn0 as [->|]; [auto|intros ->; tauto]).
    hnorm. auto.
  - intros j Ij Nj. apply I' in Ij. destruct Ij as [->|]; tauto.
  - eapply chain_ext; [| |exact C']; intro j; now autorewrite with heap.
  - intros x Ix. apply I' in Ix. autorewrite with heap.
    destruct (Nat.eqb_spec x e) as [->|]; auto. destruct Ix; [congruence|auto].
  - hnorm. auto.
  - intros j Ij Nj. exfalso. apply Nj, I'. auto.
Qed.

Lemma remove_sim s a l r xs e :
  Rep s a -> nth_error (a_lists a) l = Some (r, Some xs) -> In e xs ->
  exists s', list_remove l (Some e) s = Ok s' /\ Rep s' (a_set a l (rem e xs)).
Proof.
  intros R H Ie.
  destruct (Rep_list _ _ _ _ _ R H) as (Hl & Hr & Hor & Hlen).
  destruct (R_init _ _ R _ _ _ H) as (C & D & O).
  assert (Nr : ~ In r xs) by (eapply Rep_root_notin; eauto).
  assert (Ner : e <> r) by (intros ->; auto).
  assert (He : e < size s) by (eapply ow_lt; eauto).
  destruct (chain_remove _ _ _ _ _ C D Nr Ie) as (p & n & Ep & En & Hp & Hn & Npe & Nne & C').
  assert (Hp_lt : p < size s) by (destruct Hp as [->|I]; [auto|eapply ow_lt; eauto]).
  assert (Hn_lt : n < size s) by (destruct Hn as [->|I]; [auto|eapply ow_lt; eauto]).
  unfold list_remove.
  hstep. hstep. rewrite Ep, En. hstep. hstep. hstep. hnorm. rewrite En, Ep. hstep.
  fold (st_unlink s p n).
  hstep. hstep. hstep. hnorm. rewrite (len_of_eq _ _ _ _ Hl). cbn [bind].
  rewrite set_len_eq by (autorewrite with heap; auto).
  eexists. split; [reflexivity|].
  apply (Rep_set_list s a _ l r (Some xs) (rem e xs)); auto.
  - now autorewrite with heap.
  - intro j. now autorewrite with heap.
  - intro j. rewrite lsts_st_len. cbn [lsts st_upd st_unlink]. rewrite Hl.
    destruct (j =? l); [|reflexivity].
    cbn [option_map l_root alen]. do 2 f_equal. pose proof (length_rem e xs D Ie). lia.
  - intros j Nj Nx _.
    assert (j <> e) by (intros ->; tauto). assert (j <> p) by (destruct Hp as [->|]; [auto|intros ->; tauto]).
    assert (j <> n) by (destruct Hn as [->|]; [auto|intros ->; tauto]).
    hnorm. unfold upd. hnorm. auto.
  - intros j Ij Nj. apply in_rem in Ij. tauto.
  - eapply chain_frame; [| |exact C'].
    + intros x Hx. assert (x <> e) by (destruct Hx as [->|Hx]; [auto|apply in_rem in Hx; tauto]).
      now hnorm.
    + intros x Hx. assert (x <> e) by (destruct Hx as [Hx| ->]; [apply in_rem in Hx; tauto|auto]).
      now hnorm.
  - apply NoDup_rem; auto.
  - intros x Ix. apply in_rem in Ix as [Ix Nx]. hnorm. auto.
  - hnorm. auto.
  - intros j Ij Nj. assert (j = e).
    { destruct (Nat.eq_dec j e); auto. exfalso. apply Nj, in_rem. auto. }
    subst j. hnorm. auto.
Qed.

Lemma move_sim s a l r xs e at_ :
  Rep s a -> nth_error (a_lists a) l = Some (r, Some xs) -> In e xs -> (at_ = r \/ In at_ xs) -> e <> at_ ->
  exists s', list_move l (Some e) (Some at_) s = Ok s' /\ Rep s' (a_set a l (link_after r at_ e (rem e xs))).
Proof.
  intros R H Ie Hat Nea.
  destruct (Rep_list _ _ _ _ _ R H) as (Hl & Hr & Hor & Hlen).
  destruct (R_init _ _ R _ _ _ H) as (C & D & O).
  assert (Nr : ~ In r xs) by (eapply Rep_root_notin; eauto).
  assert (Ner : e <> r) by (intros ->; auto).
  assert (He : e < size s) by (eapply ow_lt; eauto).
  destruct (chain_remove _ _ _ _ _ C D Nr Ie) as (p & n & Ep & En & Hp & Hn & Npe & Nne & C1).
  assert (Hp_lt : p < size s) by (destruct Hp as [->|I]; [auto|eapply ow_lt; eauto]).
  assert (Hn_lt : n < size s) by (destruct Hn as [->|I]; [auto|eapply ow_lt; eauto]).
  assert (Hat_lt : at_ < size s) by (destruct Hat as [->|I]; [auto|eapply ow_lt; eauto]).
  assert (Nr1 : ~ In r (rem e xs)) by (rewrite in_rem; tauto).
  assert (Hat1 : at_ = r \/ In at_ (rem e xs)) by (rewrite in_rem; destruct Hat; auto).
  assert (Ne1 : ~ In e (rem e xs)) by (rewrite in_rem; tauto).
  destruct (chain_insert _ _ _ _ _ _ C1 (NoDup_rem e xs D) Nr1 Hat1 Ner Ne1) as (n0 & En0 & Hn0 & C' & D' & I').
  assert (Hn0_lt : n0 < size s).
  { destruct Hn0 as [->|I]; [auto|]. apply in_rem in I as [I _]. eapply ow_lt; eauto. }
  unfold list_move. replace (ptr_eqb (Some e) (Some at_)) with false by (symmetry; apply ptr_eqb_neq; congruence).
  hstep. hstep. rewrite Ep, En. hstep. hstep. hstep. hnorm. rewrite En, Ep. hstep.
  fold (st_unlink s p n).
  hstep. hstep. hnorm. rewrite En0. hstep. hstep. hnorm. hstep. hstep. hnorm. hstep.
  fold (st_link (st_unlink s p n) e at_ n0).
  eexists. split; [reflexivity|].
  assert (Len : length (link_after r at_ e (rem e xs)) = length xs).
  { rewrite length_link_after by auto. apply length_rem; auto. }
  apply (Rep_set_list s a _ l r (Some xs) (link_after r at_ e (rem e xs))); auto.
  - now autorewrite with heap.
  - intro j. now autorewrite with heap.
  - intro j. cbn [lsts st_link st_unlink st_upd]. destruct (Nat.eqb_spec j l) as [->|]; [|reflexivity].
    rewrite Hl, Len. reflexivity.
  - intros j Nj Nx _.
    assert (j <> e) by (intros ->; tauto). assert (j <> p) by (destruct Hp as [->|]; [auto|intros ->; tauto]).
    assert (j <> n) by (destruct Hn as [->|]; [auto|intros ->; tauto]).
    assert (j <> at_) by (destruct Hat as [->|]; [auto|intros ->; tauto]).
    assert (j <> n0) by (destruct Hn0 as [->|I]; [auto|intros ->; apply in_rem in I; tauto]).
    hnorm. unfold upd. hnorm. unfold upd. hnorm. auto.
  - intros j Ij Nj. apply I' in Ij. rewrite in_rem in Ij. destruct Ij as [->|]; tauto.
  - eapply chain_ext; [| |exact C']; intro j; repeat (autorewrite with heap; unfold upd); reflexivity.
  - intros x Ix. apply I' in Ix. autorewrite with heap.
    destruct Ix as [->|Ix]; auto. apply in_rem in Ix. apply O; tauto.
  - hnorm. auto.
  - intros j Ij Nj. exfalso. apply Nj, I'. rewrite in_rem.
    destruct (Nat.eq_dec j e); auto.
Qed.

(* ---- allocation ---- *)
Definition zero_elem (v : Z) : elem := Elem None None None v.

Lemma nx_alloc s v j : nx (st_alloc s (zero_elem v)) j = nx s j.
Proof.
  unfold nx. rewrite proj_st_alloc. destruct (Nat.eqb_spec j (size s)) as [->|]; auto.
  rewrite proj_out; auto.
Qed.
Lemma pv_alloc s v j : pv (st_alloc s (zero_elem v)) j = pv s j.
Proof.
  unfold pv. rewrite proj_st_alloc. destruct (Nat.eqb_spec j (size s)) as [->|]; auto.
  rewrite proj_out; auto.
Qed.
Lemma ow_alloc s v j : ow (st_alloc s (zero_elem v)) j = ow s j.
Proof.
  unfold ow. rewrite proj_st_alloc. destruct (Nat.eqb_spec j (size s)) as [->|]; auto.
  rewrite proj_out; auto.
Qed.
Lemma vl_alloc s v j : vl (st_alloc s (zero_elem v)) j = if Nat.eqb j (size s) then v else vl s j.
Proof. unfold vl. apply proj_st_alloc. Qed.
#[export] Hint Rewrite nx_alloc pv_alloc ow_alloc vl_alloc : heap.

Lemma alloc_elem_eq s v : alloc_elem s v = (size s, st_alloc s (zero_elem v)).
Proof. reflexivity. Qed.

Lemma Rep_fresh s a : Rep s a -> fresh a = size s.
Proof. intro R. unfold fresh. symmetry. apply (R_vals _ _ R). Qed.

Lemma alloc_elem_sim s a v :
  Rep s a -> Rep (st_alloc s (zero_elem v)) (a_alloc a v).
Proof.
  intro R. set (s' := st_alloc s (zero_elem v)).
  assert (N : forall j, nx s' j = nx s j) by (intro; apply nx_alloc).
  assert (P : forall j, pv s' j = pv s j) by (intro; apply pv_alloc).
  assert (W : forall j, ow s' j = ow s j) by (intro; apply ow_alloc).
  destruct (R_vals _ _ R) as [V1 V2].
  constructor; cbn [a_alloc a_lists a_vals].
  - unfold s'. rewrite size_st_alloc, app_length. simpl. split; [lia|].
    intros j Hj. rewrite vl_alloc, nth_error_alloc, <- V1.
    destruct (Nat.eqb_spec j (size s)); auto. apply V2. lia.
  - apply (R_lsts _ _ R).
  - destruct (R_roots _ _ R) as [ND RR]. split; auto.
    intros e He. destruct (RR e He). rewrite W. unfold s'. rewrite size_st_alloc. split; [lia|auto].
  - intros l r H. rewrite N, P. eapply R_uninit; eauto.
  - intros l r xs H. destruct (R_init _ _ R _ _ _ H) as (C & D & O). repeat split; auto.
    + eapply chain_ext; eauto.
    + intros e I. rewrite W. auto.
  - intros e l. rewrite W. apply (R_own _ _ R).
  - intros e. rewrite W, N, P. apply (R_free _ _ R).
Qed.

Lemma alloc_elem_free s a v :
  Rep s a -> let e := size s in
  e < size (st_alloc s (zero_elem v)) /\ ow (st_alloc s (zero_elem v)) e = None /\ ~ is_root (a_alloc a v) e.
Proof.
  intro R. cbn zeta. rewrite size_st_alloc, ow_alloc. split; [lia|]. split.
  - apply proj_out. lia.
  - intro I. destruct (proj2 (R_roots _ _ R) _ I). lia.
Qed.

Lemma alloc_list_eq s :
  alloc_list s = (length (lsts s), State (elems s ++ [zero_elem 0]) (lsts s ++ [LRec (size s) 0])).
Proof. reflexivity. Qed.

Lemma alloc_list_sim s a :
  Rep s a -> Rep (State (elems s ++ [zero_elem 0]) (lsts s ++ [LRec (size s) 0])) (a_newlist a None).
Proof.
  intro R. set (s' := State _ _).
  assert (N : forall j, nx s' j = nx s j) by (intro; apply (nx_alloc s 0%Z)).
  assert (P : forall j, pv s' j = pv s j) by (intro; apply (pv_alloc s 0%Z)).
  assert (W : forall j, ow s' j = ow s j) by (intro; apply (ow_alloc s 0%Z)).
  assert (Sz : size s' = S (size s)) by (apply (size_st_alloc s (zero_elem 0))).
  destruct (R_vals _ _ R) as [V1 V2]. destruct (R_lsts _ _ R) as [L1 L2]. destruct (R_roots _ _ R) as [ND RR].
  assert (F : fresh a = size s) by (apply Rep_fresh; auto).
  assert (NthL : forall l r o, nth_error (a_lists a ++ [(fresh a, None)]) l = Some (r, o) ->
                 nth_error (a_lists a) l = Some (r, o) \/ (l = length (a_lists a) /\ r = size s /\ o = None)).
  { intros l r o. rewrite nth_error_alloc. destruct (Nat.eqb_spec l (length (a_lists a))); auto.
    intro E; injection E as <- <-. auto. }
  constructor; cbn [a_newlist a_lists a_vals].
  - rewrite Sz, app_length. simpl. split; [lia|].
    intros j Hj. change (vl s' j) with (vl (st_alloc s (zero_elem 0)) j).
    rewrite vl_alloc, nth_error_alloc, <- V1.
    destruct (Nat.eqb_spec j (size s)); auto. apply V2. lia.
  - unfold s'; cbn [lsts]. rewrite !app_length. simpl. split; [lia|].
    intros l r o H. apply NthL in H as [H|(-> & -> & ->)].
    + rewrite nth_error_app1; auto. apply nth_error_Some. rewrite (L2 _ _ _ H). discriminate.
    + rewrite <- L1, nth_error_alloc, Nat.eqb_refl. reflexivity.
  - split.
    + rewrite map_app. simpl. apply NoDup_app_iff. split; auto. split; [constructor; auto; constructor|].
      intros x Ix [<-|[]]. destruct (RR _ Ix). lia.
    + intros e He. unfold is_root in He. cbn [a_newlist a_lists] in He. rewrite map_app, in_app_iff in He.
      rewrite W, Sz. destruct He as [He|[<-|[]]].
      * destruct (RR e He). split; [lia|auto].
      * cbn [fst]. rewrite F. split; [lia|]. apply proj_out. lia.
  - intros l r H. rewrite N, P. apply NthL in H as [H|(-> & -> & _)].
    + eapply R_uninit; eauto.
    + split; apply proj_out; lia.
  - intros l r xs H. apply NthL in H as [H|(_ & _ & ?)]; [|discriminate].
    destruct (R_init _ _ R _ _ _ H) as (C & D & O). repeat split; auto.
    + eapply chain_ext; eauto.
    + intros e I. rewrite W. auto.
  - intros e l. rewrite W. intro Oe. destruct (R_own _ _ R _ _ Oe) as (r & xs & H & I).
    exists r, xs. split; auto. rewrite nth_error_app1; auto. apply nth_error_Some. congruence.
  - intros e. rewrite W, N, P. intros Oe Nr. apply (R_free _ _ R); auto.
    intro I. apply Nr. unfold is_root. cbn [a_newlist a_lists]. rewrite map_app, in_app_iff. auto.
Qed.

(* ---- facts about a_set ---- *)
Lemma map_nth_map_nth {C} (f g : C -> C) i (h : list C) :
  map_nth f i (map_nth g i h) = map_nth (fun x => f (g x)) i h.
Proof. revert i; induction h as [|x t IH]; intros [|i]; simpl; f_equal; auto. Qed.

Lemma map_nth_id {C} (f : C -> C) i (h : list C) c : nth_error h i = Some c -> f c = c -> map_nth f i h = h.
Proof.
  revert i; induction h as [|x t IH]; intros [|i] H E; simpl in *; try discriminate; auto.
  - injection H as ->. congruence.
  - f_equal. eauto.
Qed.

Lemma a_set_a_set a l xs ys : a_set (a_set a l xs) l ys = a_set a l ys.
Proof. unfold a_set; cbn [a_lists a_vals]. rewrite map_nth_map_nth. reflexivity. Qed.

Lemma a_set_same a l r xs : nth_error (a_lists a) l = Some (r, Some xs) -> a_set a l xs = a.
Proof.
  intro H. unfold a_set. rewrite (map_nth_id _ _ _ _ H) by reflexivity. destruct a; reflexivity.
Qed.

Lemma a_seq_nth a l r o : nth_error (a_lists a) l = Some (r, o) -> a_seq a l = match o with Some xs => xs | None => [] end.
Proof. intro H. unfold a_seq. rewrite H. reflexivity. Qed.

Lemma a_seq_a_set a l xs l' : l < length (a_lists a) -> a_seq (a_set a l xs) l' = if Nat.eqb l' l then xs else a_seq a l'.
Proof.
  intro H. unfold a_seq. rewrite a_set_nth. destruct (Nat.eqb_spec l' l) as [->|]; auto.
  destruct (nth_error (a_lists a) l) as [[r o]|] eqn:E; [reflexivity|].
  apply nth_error_None in E. lia.
Qed.

Lemma Rep_size s a : Rep s a -> size s = length (a_vals a).
Proof. intro R. apply (R_vals _ _ R). Qed.

(* if l.root.next == nil { l.Init() } *)
Lemma lazyInit_sim s a l r o :
  Rep s a -> nth_error (a_lists a) l = Some (r, o) ->
  exists s', list_lazyInit l s = Ok s' /\ Rep s' (a_set a l (a_seq a l)).
Proof.
  intros R H. destruct (Rep_list _ _ _ _ _ R H) as (Hl & Hr & Hor & Hlen).
  unfold list_lazyInit. rewrite (root_of_eq _ _ _ _ Hl). cbn [bind]. hstep.
  rewrite (a_seq_nth _ _ _ _ H).
  destruct o as [xs|].
  - destruct (R_init _ _ R _ _ _ H) as (C & _). rewrite (chain_first _ _ _ _ _ C). cbn [ptr_eqb option_eqb].
    exists s. split; auto. rewrite (a_set_same _ _ _ _ H). exact R.
  - destruct (R_uninit _ _ R _ _ H) as [-> _]. cbn [ptr_eqb option_eqb].
    apply (init_sim s a l r None); auto.
Qed.

Lemma a_set_nth_same a l r o xs :
  nth_error (a_lists a) l = Some (r, o) -> nth_error (a_lists (a_set a l xs)) l = Some (r, Some xs).
Proof. intro H. rewrite a_set_nth, Nat.eqb_refl, H. reflexivity. Qed.

(* l.insert(&Element{Value: v}, at) *)
Lemma insertValue_sim s a l r xs at_ v :
  Rep s a -> nth_error (a_lists a) l = Some (r, Some xs) -> (at_ = r \/ In at_ xs) ->
  exists s', list_insertValue l v (Some at_) s = Ok (Some (size s), s') /\
             Rep s' (a_set (a_alloc a v) l (link_after r at_ (size s) xs)).
Proof.
  intros R H Hat. unfold list_insertValue. rewrite alloc_elem_eq.
  pose proof (alloc_elem_sim s a v R) as R1.
  destruct (alloc_elem_free s a v R) as (F1 & F2 & F3).
  apply (insert_sim _ _ l r xs at_ (size s) R1); auto.
Qed.

(* ---- more pure facts relating the pointer-level position to the sequence operations ---- *)

Lemma rem_app e a b : rem e (a ++ b) = rem e a ++ rem e b.
Proof. induction a as [|x t IH]; simpl; auto. destruct (Nat.eqb x e); simpl; rewrite IH; auto. Qed.

Lemma last_app_cons {A} (a : list A) x b d : last (a ++ x :: b) d = last b x.
Proof.
  induction a as [|y t IH]; simpl.
  - destruct b; auto. apply (last_cons x d (a :: b)).
  - rewrite <- IH. destruct (t ++ x :: b) eqn:E; auto. destruct t; discriminate.
Qed.

Lemma link_after_last r e xs : ~ In r xs -> NoDup xs -> link_after r (last xs r) e xs = xs ++ [e].
Proof.
  intros Nr D. unfold link_after.
  destruct (last_in_or r xs) as [[E ->]|I].
  - rewrite Nat.eqb_refl. reflexivity.
  - destruct (Nat.eqb_spec (last xs r) r) as [E|_]; [rewrite E in I; tauto|].
    destruct (exists_last (l := xs)) as (t & y & ->); [intros ->; simpl in I; tauto|].
    rewrite last_app_cons. simpl.
    apply NoDup_app_iff in D as (_ & _ & D).
    rewrite ins_after_split by (intro X; apply (D _ X); simpl; auto).
    rewrite <- app_assoc. reflexivity.
Qed.

Lemma link_after_pred r e pre m post :
  NoDup (pre ++ m :: post) -> ~ In r (pre ++ m :: post) ->
  link_after r (last pre r) e (pre ++ m :: post) = ins_before m e (pre ++ m :: post).
Proof.
  intros D Nr. apply NoDup_app_iff in D as (D1 & D2 & D3).
  assert (Nm : ~ In m pre) by (intro X; apply (D3 _ X); simpl; auto).
  rewrite ins_before_split by auto. unfold link_after.
  destruct (last_in_or r pre) as [[E ->]|I].
  - rewrite Nat.eqb_refl. reflexivity.
  - destruct (Nat.eqb_spec (last pre r) r) as [E|_].
    { exfalso. apply Nr, in_or_app. left. rewrite <- E. auto. }
    destruct (exists_last (l := pre)) as (t & y & ->); [intros ->; simpl in I; tauto|].
    rewrite last_app_cons. simpl. rewrite <- !app_assoc. simpl.
    apply NoDup_app_iff in D1 as (_ & _ & D1).
    rewrite ins_after_split by (intro X; apply (D1 _ X); simpl; auto). reflexivity.
Qed.

Lemma last_rem e xs r : last xs r <> e -> last (rem e xs) r = last xs r.
Proof.
  revert r; induction xs as [|x t IH]; intros r N; auto.
  rewrite last_cons in N. simpl rem.
  destruct (Nat.eqb_spec x e) as [->|Nx].
  - rewrite last_cons. destruct t as [|y u]; [simpl in N; congruence|].
    rewrite IH; [|rewrite last_cons in *; auto]. rewrite !last_cons. reflexivity.
  - rewrite !last_cons. apply IH. auto.
Qed.

Lemma rem_last_id e xs r : NoDup xs -> In e xs -> last xs r = e -> rem e xs ++ [e] = xs.
Proof.
  intros D I E.
  destruct (exists_last (l := xs)) as (t & y & ->); [intros ->; simpl in I; tauto|].
  rewrite last_app_cons in E. simpl in E. subst y.
  apply NoDup_app_iff in D as (_ & _ & D).
  rewrite rem_split; [rewrite app_nil_r; reflexivity| |simpl; tauto].
  intro X. apply (D _ X). simpl; auto.
Qed.

Lemma rem_first_id e t : NoDup (e :: t) -> e :: rem e (e :: t) = e :: t.
Proof. intro D. apply NoDup_cons_iff in D as [N _]. simpl. rewrite Nat.eqb_refl, rem_notin; auto. Qed.

Lemma ins_before_pred_id e m pre post r :
  NoDup (pre ++ m :: post) -> last pre r = e -> e <> r ->
  ins_before m e (rem e (pre ++ m :: post)) = pre ++ m :: post.
Proof.
  intros D E Ner.
  destruct (exists_last (l := pre)) as (t & y & ->); [intros ->; simpl in E; congruence|].
  rewrite last_app_cons in E. simpl in E. subst y.
  rewrite <- app_assoc in *. simpl in *.
  pose proof D as D0. apply NoDup_app_iff in D as (_ & D2 & D3). apply NoDup_cons_iff in D2 as [D2 D4].
  rewrite rem_split; [| intro X; apply (D3 _ X); simpl; auto | auto].
  rewrite ins_before_split; auto.
  intro X. apply (D3 _ X). simpl; auto.
Qed.

(* ================= Part D: every public operation refines the sequence semantics ================= *)

Lemma Rep_vl s a e : Rep s a -> e < size s -> vl s e = a_val a e.
Proof.
  intros R H. destruct (R_vals _ _ R) as [_ V]. specialize (V e H).
  unfold a_val. apply nth_error_nth with (d := 0%Z) in V. auto.
Qed.

Lemma Rep_ow_iff s a l r o e :
  Rep s a -> nth_error (a_lists a) l = Some (r, o) -> (ow s e = Some l <-> In e (a_seq a l)).
Proof.
  intros R H. rewrite (a_seq_nth _ _ _ _ H). split.
  - intro O. destruct (R_own _ _ R _ _ O) as (r' & xs & H' & I). rewrite H in H'. injection H' as _ ->. auto.
  - destruct o as [xs|]; [|intros []]. apply (R_init _ _ R _ _ _ H).
Qed.

Lemma Rep_guard s a l r o e :
  Rep s a -> nth_error (a_lists a) l = Some (r, o) -> ptr_eqb (ow s e) (Some l) = mem e (a_seq a l).
Proof.
  intros R H. destruct (mem e (a_seq a l)) eqn:M.
  - apply ptr_eqb_eq. apply mem_In in M. eapply Rep_ow_iff; eauto.
  - apply ptr_eqb_neq. apply mem_false in M. intro O. apply M. eapply Rep_ow_iff; eauto.
Qed.

Lemma Rep_seq_init s a l r o :
  Rep s a -> nth_error (a_lists a) l = Some (r, o) -> a_seq a l <> [] -> o = Some (a_seq a l).
Proof. intros R H N. rewrite (a_seq_nth _ _ _ _ H) in *. destruct o; congruence. Qed.

Lemma Rep_mem_init s a l r o e :
  Rep s a -> nth_error (a_lists a) l = Some (r, o) -> In e (a_seq a l) -> o = Some (a_seq a l).
Proof. intros R H I. eapply Rep_seq_init; eauto. intro E. rewrite E in I. destruct I. Qed.

Lemma Remove_sim s a l r o e :
  Rep s a -> nth_error (a_lists a) l = Some (r, o) -> e < size s ->
  exists s', list_Remove l (Some e) s = Ok (a_val a e, s') /\
             Rep s' (if mem e (a_seq a l) then a_set a l (rem e (a_seq a l)) else a).
Proof.
  intros R H He. unfold list_Remove. hstep. rewrite (Rep_guard _ _ _ _ _ e R H).
  destruct (mem e (a_seq a l)) eqn:M.
  - apply mem_In in M. pose proof (Rep_mem_init _ _ _ _ _ _ R H M) as ->.
    destruct (remove_sim _ _ _ _ _ _ R H M) as (s' & E & R').
    rewrite E. cbn [bind].
    assert (Sz : size s' = size s) by (rewrite (Rep_size _ _ R'), (Rep_size _ _ R); reflexivity).
    hstep. rewrite (Rep_vl _ _ _ R') by lia.
    exists s'. split; auto.
  - cbn [bind]. hstep. rewrite (Rep_vl _ _ _ R) by lia. eauto.
Qed.

Lemma PushFront_sim s a l r o v :
  Rep s a -> nth_error (a_lists a) l = Some (r, o) ->
  exists s', list_PushFront l v s = Ok (Some (fresh a), s') /\
             Rep s' (a_set (a_alloc a v) l (fresh a :: a_seq a l)).
Proof.
  intros R H. unfold list_PushFront.
  destruct (lazyInit_sim _ _ _ _ _ R H) as (s1 & E1 & R1). rewrite E1. cbn [bind].
  pose proof (a_set_nth_same _ _ _ _ (a_seq a l) H) as H1.
  destruct (Rep_list _ _ _ _ _ R1 H1) as (Hl & _).
  rewrite (root_of_eq _ _ _ _ Hl). cbn [bind].
  destruct (insertValue_sim _ _ _ _ _ r v R1 H1 (or_introl (eq_refl r))) as (s2 & E2 & R2).
  rewrite E2. rewrite (Rep_fresh _ _ R). 
  assert (Sz : size s1 = size s) by (rewrite (Rep_size _ _ R1), (Rep_size _ _ R); reflexivity).
  rewrite Sz in *. exists s2. split; auto.
  unfold link_after in R2. rewrite Nat.eqb_refl in R2.
  change (a_alloc (a_set a l (a_seq a l)) v) with (a_set (a_alloc a v) l (a_seq a l)) in R2.
  rewrite a_set_a_set in R2. exact R2.
Qed.

Lemma Rep_pv_root s a l r xs : Rep s a -> nth_error (a_lists a) l = Some (r, Some xs) -> pv s r = Some (last xs r).
Proof. intros R H. destruct (R_init _ _ R _ _ _ H) as (C & _). eapply chain_last; eauto. Qed.

Lemma Rep_nx_root s a l r xs : Rep s a -> nth_error (a_lists a) l = Some (r, Some xs) -> nx s r = Some (hd r xs).
Proof. intros R H. destruct (R_init _ _ R _ _ _ H) as (C & _). eapply chain_first; eauto. Qed.

Lemma last_root_or_in (r : nat) xs : last xs r = r \/ In (last xs r) xs.
Proof. destruct (last_in_or r xs) as [[E _]|I]; auto. Qed.

Lemma PushBack_sim s a l r o v :
  Rep s a -> nth_error (a_lists a) l = Some (r, o) ->
  exists s', list_PushBack l v s = Ok (Some (fresh a), s') /\
             Rep s' (a_set (a_alloc a v) l (a_seq a l ++ [fresh a])).
Proof.
  intros R H. unfold list_PushBack.
  destruct (lazyInit_sim _ _ _ _ _ R H) as (s1 & E1 & R1). rewrite E1. cbn [bind].
  pose proof (a_set_nth_same _ _ _ _ (a_seq a l) H) as H1.
  destruct (Rep_list _ _ _ _ _ R1 H1) as (Hl & Hr & _).
  rewrite (root_of_eq _ _ _ _ Hl). cbn [bind]. hstep. rewrite (Rep_pv_root _ _ _ _ _ R1 H1).
  destruct (insertValue_sim _ _ _ _ _ (last (a_seq a l) r) v R1 H1 (last_root_or_in _ _)) as (s2 & E2 & R2).
  rewrite E2. rewrite (Rep_fresh _ _ R).
  assert (Sz : size s1 = size s) by (rewrite (Rep_size _ _ R1), (Rep_size _ _ R); reflexivity).
  rewrite Sz in *. exists s2. split; auto.
  destruct (R_init _ _ R1 _ _ _ H1) as (_ & D & _).
  rewrite link_after_last in R2; auto; [|apply (Rep_root_notin _ _ _ _ _ _ _ _ R1 H1 H1)].
  change (a_alloc (a_set a l (a_seq a l)) v) with (a_set (a_alloc a v) l (a_seq a l)) in R2.
  rewrite a_set_a_set in R2. exact R2.
Qed.

Lemma InsertAfter_sim s a l r o v m :
  Rep s a -> nth_error (a_lists a) l = Some (r, o) -> m < size s ->
  exists s', list_InsertAfter l v (Some m) s =
             Ok (if mem m (a_seq a l) then Some (fresh a) else None, s') /\
             Rep s' (if mem m (a_seq a l) then a_set (a_alloc a v) l (ins_after m (fresh a) (a_seq a l)) else a).
Proof.
  intros R H Hm. unfold list_InsertAfter. hstep. rewrite (Rep_guard _ _ _ _ _ m R H).
  destruct (mem m (a_seq a l)) eqn:M; cbn [negb]; [|eauto].
  apply mem_In in M. pose proof (Rep_mem_init _ _ _ _ _ _ R H M) as ->.
  destruct (insertValue_sim _ _ _ _ _ m v R H (or_intror M)) as (s2 & E2 & R2).
  rewrite E2, (Rep_fresh _ _ R). exists s2. split; auto.
  unfold link_after in R2.
  destruct (Nat.eqb_spec m r) as [->|_]; auto.
  exfalso. apply (Rep_root_notin _ _ _ _ _ _ _ _ R H H M).
Qed.

Lemma InsertBefore_sim s a l r o v m :
  Rep s a -> nth_error (a_lists a) l = Some (r, o) -> m < size s ->
  exists s', list_InsertBefore l v (Some m) s =
             Ok (if mem m (a_seq a l) then Some (fresh a) else None, s') /\
             Rep s' (if mem m (a_seq a l) then a_set (a_alloc a v) l (ins_before m (fresh a) (a_seq a l)) else a).
Proof.
  intros R H Hm. unfold list_InsertBefore. hstep. hstep. rewrite (Rep_guard _ _ _ _ _ m R H).
  destruct (mem m (a_seq a l)) eqn:M; cbn [negb]; [|eauto].
  apply mem_In in M. pose proof (Rep_mem_init _ _ _ _ _ _ R H M) as ->.
  destruct (R_init _ _ R _ _ _ H) as (C & D & _).
  assert (Nr : ~ In r (a_seq a l)) by (apply (Rep_root_notin _ _ _ _ _ _ _ _ R H H)).
  destruct (in_split _ _ M) as (pre & post & E). rewrite E in *.
  destruct (chain_at _ _ _ _ _ _ _ C) as [_ Ep].
  rewrite Ep.
  assert (Hat : last pre r = r \/ In (last pre r) (pre ++ m :: post)).
  { destruct (last_root_or_in r pre); auto. right. apply in_or_app; auto. }
  destruct (insertValue_sim _ _ _ _ _ (last pre r) v R H Hat) as (s2 & E2 & R2).
  rewrite E2, (Rep_fresh _ _ R). exists s2. split; auto.
  rewrite link_after_pred in R2; auto.
Qed.

Lemma MoveToFront_sim s a l r o e :
  Rep s a -> nth_error (a_lists a) l = Some (r, o) -> e < size s ->
  exists s', list_MoveToFront l (Some e) s = Ok s' /\
             Rep s' (if mem e (a_seq a l) then a_set a l (e :: rem e (a_seq a l)) else a).
Proof.
  intros R H He. unfold list_MoveToFront. hstep. rewrite (Rep_guard _ _ _ _ _ e R H).
  destruct (mem e (a_seq a l)) eqn:M; cbn [negb]; [|eauto].
  apply mem_In in M. pose proof (Rep_mem_init _ _ _ _ _ _ R H M) as ->.
  destruct (Rep_list _ _ _ _ _ R H) as (Hl & Hr & _).
  destruct (R_init _ _ R _ _ _ H) as (C & D & _).
  assert (Nr : ~ In r (a_seq a l)) by (apply (Rep_root_notin _ _ _ _ _ _ _ _ R H H)).
  rewrite (root_of_eq _ _ _ _ Hl). cbn [bind]. hstep. rewrite (Rep_nx_root _ _ _ _ _ R H).
  destruct (ptr_eqb_spec (Some (hd r (a_seq a l))) (Some e)) as [E|N].
  - exists s. split; auto. injection E as E.
    destruct (a_seq a l) as [|x t] eqn:Es; [simpl in M; tauto|]. simpl in E. subst x.
    rewrite rem_first_id by auto. rewrite <- Es in *. rewrite (a_set_same _ _ _ _ H). exact R.
  - assert (Ner : e <> r) by (intros ->; auto).
    destruct (move_sim _ _ _ _ _ _ r R H M (or_introl (eq_refl r)) Ner) as (s' & E' & R').
    exists s'. split; auto. unfold link_after in R'. rewrite Nat.eqb_refl in R'. exact R'.
Qed.

Lemma MoveToBack_sim s a l r o e :
  Rep s a -> nth_error (a_lists a) l = Some (r, o) -> e < size s ->
  exists s', list_MoveToBack l (Some e) s = Ok s' /\
             Rep s' (if mem e (a_seq a l) then a_set a l (rem e (a_seq a l) ++ [e]) else a).
Proof.
  intros R H He. unfold list_MoveToBack. hstep. rewrite (Rep_guard _ _ _ _ _ e R H).
  destruct (mem e (a_seq a l)) eqn:M; cbn [negb]; [|eauto].
  apply mem_In in M. pose proof (Rep_mem_init _ _ _ _ _ _ R H M) as ->.
  destruct (Rep_list _ _ _ _ _ R H) as (Hl & Hr & _).
  destruct (R_init _ _ R _ _ _ H) as (C & D & _).
  assert (Nr : ~ In r (a_seq a l)) by (apply (Rep_root_notin _ _ _ _ _ _ _ _ R H H)).
  rewrite (root_of_eq _ _ _ _ Hl). cbn [bind]. hstep. rewrite (Rep_pv_root _ _ _ _ _ R H).
  destruct (ptr_eqb_spec (Some (last (a_seq a l) r)) (Some e)) as [E|N].
  - exists s. split; auto. injection E as E.
    rewrite (rem_last_id e (a_seq a l) r) by auto. rewrite (a_set_same _ _ _ _ H). exact R.
  - assert (Nle : last (a_seq a l) r <> e) by congruence.
    destruct (move_sim _ _ _ _ _ _ (last (a_seq a l) r) R H M (last_root_or_in _ _) (not_eq_sym Nle)) as (s' & E' & R').
    exists s'. split; auto.
    rewrite <- (last_rem e (a_seq a l) r Nle) in R'.
    rewrite link_after_last in R'; auto.
    + rewrite in_rem. tauto.
    + apply NoDup_rem; auto.
Qed.

Lemma MoveAfter_sim s a l r o e m :
  Rep s a -> nth_error (a_lists a) l = Some (r, o) -> e < size s -> m < size s ->
  exists s', list_MoveAfter l (Some e) (Some m) s = Ok s' /\
             Rep s' (if negb (mem e (a_seq a l)) then a else if Nat.eqb e m then a else
                     if mem m (a_seq a l) then a_set a l (ins_after m e (rem e (a_seq a l))) else a).
Proof.
  intros R H He Hm. unfold list_MoveAfter. hstep. hstep. rewrite !(Rep_guard _ _ _ _ _ _ R H).
  destruct (mem e (a_seq a l)) eqn:M; cbn [negb]; [|eauto].
  cbn [ptr_eqb option_eqb]. destruct (Nat.eqb_spec e m) as [->|Nem]; [eauto|].
  destruct (mem m (a_seq a l)) eqn:Mm; cbn [negb]; [|eauto].
  apply mem_In in M, Mm. pose proof (Rep_mem_init _ _ _ _ _ _ R H M) as ->.
  destruct (move_sim _ _ _ _ _ _ m R H M (or_intror Mm) Nem) as (s' & E' & R').
  exists s'. split; auto. unfold link_after in R'.
  destruct (Nat.eqb_spec m r) as [->|_]; auto.
  exfalso. apply (Rep_root_notin _ _ _ _ _ _ _ _ R H H Mm).
Qed.

Lemma MoveBefore_sim s a l r o e m :
  Rep s a -> nth_error (a_lists a) l = Some (r, o) -> e < size s -> m < size s ->
  exists s', list_MoveBefore l (Some e) (Some m) s = Ok s' /\
             Rep s' (if negb (mem e (a_seq a l)) then a else if Nat.eqb e m then a else
                     if mem m (a_seq a l) then a_set a l (ins_before m e (rem e (a_seq a l))) else a).
Proof.
  intros R H He Hm. unfold list_MoveBefore. hstep. hstep. hstep. rewrite !(Rep_guard _ _ _ _ _ _ R H).
  destruct (mem e (a_seq a l)) eqn:M; cbn [negb]; [|eauto].
  cbn [ptr_eqb option_eqb]. destruct (Nat.eqb_spec e m) as [->|Nem]; [eauto|].
  destruct (mem m (a_seq a l)) eqn:Mm; cbn [negb]; [|eauto].
  apply mem_In in M, Mm. pose proof (Rep_mem_init _ _ _ _ _ _ R H M) as ->.
  destruct (R_init _ _ R _ _ _ H) as (C & D & _).
  assert (Nr : ~ In r (a_seq a l)) by (apply (Rep_root_notin _ _ _ _ _ _ _ _ R H H)).
  assert (Ner : e <> r) by (intros ->; auto).
  destruct (in_split _ _ Mm) as (pre & post & E). rewrite E in *.
  destruct (chain_at _ _ _ _ _ _ _ C) as [_ Ep]. rewrite Ep.
  destruct (Nat.eq_dec (last pre r) e) as [Ee|Ne].
  - unfold list_move. rewrite Ee. replace (ptr_eqb (Some e) (Some e)) with true by (symmetry; apply ptr_eqb_eq; auto).
    exists s. split; auto.
    rewrite (ins_before_pred_id e m pre post r) by auto. rewrite (a_set_same _ _ _ _ H). exact R.
  - assert (Hat : last pre r = r \/ In (last pre r) (pre ++ m :: post)).
    { destruct (last_root_or_in r pre); auto. right. apply in_or_app; auto. }
    destruct (move_sim _ _ _ _ _ _ (last pre r) R H M Hat (not_eq_sym Ne)) as (s' & E' & R').
    exists s'. split; auto.
    assert (Em : rem e (pre ++ m :: post) = rem e pre ++ m :: rem e post).
    { rewrite rem_app. simpl. destruct (Nat.eqb_spec m e); [congruence|reflexivity]. }
    rewrite Em in *. rewrite <- (last_rem e pre r Ne) in R'.
    rewrite link_after_pred in R'; auto.
    + rewrite <- Em. apply NoDup_rem; auto.
    + rewrite <- Em. rewrite in_rem. tauto.
Qed.

Lemma Len_sim s a l r o :
  Rep s a -> nth_error (a_lists a) l = Some (r, o) -> list_Len s l = Ok (Z.of_nat (length (a_seq a l))).
Proof.
  intros R H. destruct (Rep_list _ _ _ _ _ R H) as (Hl & _).
  unfold list_Len. rewrite (len_of_eq _ _ _ _ Hl), (a_seq_nth _ _ _ _ H). destruct o; reflexivity.
Qed.

Lemma Front_sim s a l r o :
  Rep s a -> nth_error (a_lists a) l = Some (r, o) -> list_Front s l = Ok (head (a_seq a l)).
Proof.
  intros R H. destruct (Rep_list _ _ _ _ _ R H) as (Hl & Hr & _).
  unfold list_Front. rewrite (len_of_eq _ _ _ _ Hl), (a_seq_nth _ _ _ _ H). cbn [bind].
  destruct o as [[|x t]|]; try reflexivity.
  cbn [alen length]. replace (Z.of_nat (S (length t)) =? 0)%Z with false by (symmetry; apply Z.eqb_neq; lia).
  rewrite (root_of_eq _ _ _ _ Hl). cbn [bind]. hstep. rewrite (Rep_nx_root _ _ _ _ _ R H). reflexivity.
Qed.

Lemma Back_sim s a l r o :
  Rep s a -> nth_error (a_lists a) l = Some (r, o) -> list_Back s l = Ok (last_opt (a_seq a l)).
Proof.
  intros R H. destruct (Rep_list _ _ _ _ _ R H) as (Hl & Hr & _).
  unfold list_Back. rewrite (len_of_eq _ _ _ _ Hl), (a_seq_nth _ _ _ _ H). cbn [bind].
  destruct o as [[|x t]|]; try reflexivity.
  cbn [alen length]. replace (Z.of_nat (S (length t)) =? 0)%Z with false by (symmetry; apply Z.eqb_neq; lia).
  rewrite (root_of_eq _ _ _ _ Hl). cbn [bind]. hstep. rewrite (Rep_pv_root _ _ _ _ _ R H).
  rewrite last_cons. reflexivity.
Qed.

(* Element.Next / Prev of a member of a list *)
Lemma Next_in_list s a l r pre e post :
  Rep s a -> nth_error (a_lists a) l = Some (r, Some (pre ++ e :: post)) ->
  elem_Next s (Some e) = Ok (head post).
Proof.
  intros R H. destruct (Rep_list _ _ _ _ _ R H) as (Hl & Hr & _).
  destruct (R_init _ _ R _ _ _ H) as (C & D & O).
  assert (Ie : In e (pre ++ e :: post)) by (apply in_or_app; simpl; auto).
  assert (He : e < size s) by (eapply ow_lt; eauto).
  destruct (chain_at _ _ _ _ _ _ _ C) as [En _].
  unfold elem_Next. hstep. hstep. rewrite (O _ Ie), En, (root_of_eq _ _ _ _ Hl). cbn [bind].
  destruct post as [|y t]; cbn [hd head].
  - replace (ptr_eqb (Some r) (Some r)) with true by (symmetry; apply ptr_eqb_eq; auto). reflexivity.
  - replace (ptr_eqb (Some y) (Some r)) with false; [reflexivity|].
    symmetry. apply ptr_eqb_neq. intro E; injection E as ->.
    apply (Rep_root_notin _ _ _ _ _ _ _ _ R H H). apply in_or_app. simpl; auto.
Qed.

Lemma Prev_in_list s a l r pre e post :
  Rep s a -> nth_error (a_lists a) l = Some (r, Some (pre ++ e :: post)) ->
  elem_Prev s (Some e) = Ok (last_opt pre).
Proof.
  intros R H. destruct (Rep_list _ _ _ _ _ R H) as (Hl & Hr & _).
  destruct (R_init _ _ R _ _ _ H) as (C & D & O).
  assert (Ie : In e (pre ++ e :: post)) by (apply in_or_app; simpl; auto).
  assert (He : e < size s) by (eapply ow_lt; eauto).
  destruct (chain_at _ _ _ _ _ _ _ C) as [_ Ep].
  unfold elem_Prev. hstep. hstep. rewrite (O _ Ie), Ep, (root_of_eq _ _ _ _ Hl). cbn [bind].
  destruct pre as [|y t]; cbn [last_opt].
  - cbn [last]. replace (ptr_eqb (Some r) (Some r)) with true by (symmetry; apply ptr_eqb_eq; auto). reflexivity.
  - rewrite last_cons.
    replace (ptr_eqb (Some (last t y)) (Some r)) with false; [reflexivity|].
    symmetry. apply ptr_eqb_neq. intro E; injection E as E.
    apply (Rep_root_notin _ _ _ _ _ _ _ _ R H H). apply in_or_app. left. rewrite <- E.
    destruct (last_in_or y t) as [[-> _]|I]; simpl; auto.
Qed.

Lemma Next_free s e : e < size s -> ow s e = None -> elem_Next s (Some e) = Ok None.
Proof. intros He O. unfold elem_Next. hstep. hstep. rewrite O. reflexivity. Qed.
Lemma Prev_free s e : e < size s -> ow s e = None -> elem_Prev s (Some e) = Ok None.
Proof. intros He O. unfold elem_Prev. hstep. hstep. rewrite O. reflexivity. Qed.

Lemma succ_in_split e pre post : ~ In e pre -> succ_in e (pre ++ e :: post) = head post.
Proof.
  intro N. induction pre as [|x t IH]; simpl.
  - rewrite Nat.eqb_refl. reflexivity.
  - destruct (Nat.eqb_spec x e) as [->|]; [simpl in N; tauto|]. apply IH. simpl in N; tauto.
Qed.

Lemma pred_from_split p e pre post :
  ~ In e pre -> pred_from p e (pre ++ e :: post) = match pre with [] => p | _ => last_opt pre end.
Proof.
  revert p; induction pre as [|x t IH]; intros p N; simpl.
  - rewrite Nat.eqb_refl. reflexivity.
  - destruct (Nat.eqb_spec x e) as [->|]; [simpl in N; tauto|].
    rewrite IH by (simpl in N; tauto). destruct t as [|y u]; [reflexivity|].
    cbn [last_opt]. rewrite last_cons. reflexivity.
Qed.

Lemma owner_seq_Some L e xs : owner_seq L e = Some xs -> In e xs /\ exists l r, nth_error L l = Some (r, Some xs).
Proof.
  induction L as [|[r [ys|]] t IH]; simpl; [discriminate| |].
  - destruct (mem e ys) eqn:M.
    + intro E; injection E as <-. split; [apply mem_In; auto|]. exists 0, r. reflexivity.
    + intro E. destruct (IH E) as (I & l & r' & H). split; auto. exists (S l), r'. exact H.
  - intro E. destruct (IH E) as (I & l & r' & H). split; auto. exists (S l), r'. exact H.
Qed.

Lemma owner_seq_None L e : owner_seq L e = None -> forall l r xs, nth_error L l = Some (r, Some xs) -> ~ In e xs.
Proof.
  induction L as [|[r [ys|]] t IH]; simpl; intros E l r' xs H.
  - destruct l; discriminate.
  - destruct (mem e ys) eqn:M; [discriminate|]. destruct l as [|l]; simpl in H.
    + injection H as _ <-. apply mem_false; auto.
    + eapply IH; eauto.
  - destruct l as [|l]; simpl in H; [discriminate|]. eapply IH; eauto.
Qed.

Definition spec_next (a : astate) (e : nat) : ptr :=
  match owner_seq (a_lists a) e with Some xs => succ_in e xs | None => None end.
Definition spec_prev (a : astate) (e : nat) : ptr :=
  match owner_seq (a_lists a) e with Some xs => pred_in e xs | None => None end.

Lemma NextPrev_sim s a e :
  Rep s a -> e < size s ->
  elem_Next s (Some e) = Ok (spec_next a e) /\ elem_Prev s (Some e) = Ok (spec_prev a e).
Proof.
  intros R He. unfold spec_next, spec_prev.
  destruct (owner_seq (a_lists a) e) as [xs|] eqn:Eo.
  - destruct (owner_seq_Some _ _ _ Eo) as (I & l & r & H).
    destruct (in_split _ _ I) as (pre & post & ->).
    destruct (R_init _ _ R _ _ _ H) as (_ & D & _).
    apply NoDup_app_iff in D as (_ & _ & D).
    assert (N : ~ In e pre) by (intro X; apply (D _ X); simpl; auto).
    unfold pred_in. rewrite succ_in_split, pred_from_split by auto. split.
    + eapply Next_in_list; eauto.
    + erewrite Prev_in_list by eauto. destruct pre; reflexivity.
  - assert (O : ow s e = None).
    { destruct (ow s e) as [l|] eqn:O; auto. exfalso.
      destruct (R_own _ _ R _ _ O) as (r & xs & H & I).
      apply (owner_seq_None _ _ Eo _ _ _ H I). }
    split; [apply Next_free|apply Prev_free]; auto.
Qed.

(* ---- PushBackList / PushFrontList ---- *)

Lemma a_alloc_copies_nil a : a_alloc_copies a [] = a.
Proof. unfold a_alloc_copies. simpl. rewrite app_nil_r. destruct a; reflexivity. Qed.

Lemma a_val_alloc a v x : x < length (a_vals a) -> a_val (a_alloc a v) x = a_val a x.
Proof. intro H. unfold a_val, a_alloc; cbn [a_vals]. apply app_nth1; auto. Qed.

Lemma map_a_val_ext a a' t :
  (forall x, In x t -> a_val a' x = a_val a x) -> map (a_val a') t = map (a_val a) t.
Proof. intro H. apply map_ext_in. auto. Qed.

Lemma pushback_step_eq a l y t xs :
  (forall x, In x t -> x < length (a_vals a)) ->
  let a1 := a_set (a_alloc a (a_val a y)) l (xs ++ [fresh a]) in
  a_set (a_alloc_copies a1 t) l ((xs ++ [fresh a]) ++ copies a1 t) =
  a_set (a_alloc_copies a (y :: t)) l (xs ++ copies a (y :: t)).
Proof.
  intros Ht a1.
  assert (F1 : fresh a1 = S (fresh a)).
  { unfold fresh, a1, a_set, a_alloc; cbn [a_vals]. rewrite app_length. simpl. lia. }
  assert (Ec : copies a (y :: t) = fresh a :: copies a1 t).
  { unfold copies. rewrite F1. reflexivity. }
  rewrite Ec, <- app_assoc. simpl.
  unfold a_set at 1 2. f_equal.
  - unfold a_alloc_copies, a1, a_set; cbn [a_lists]. rewrite map_nth_map_nth. reflexivity.
  - unfold a_alloc_copies; cbn [a_vals]. unfold a1 at 1. unfold a_set, a_alloc; cbn [a_vals].
    rewrite <- app_assoc. simpl. do 2 f_equal.
    apply map_a_val_ext. intros x Ix. unfold a1.
    change (a_val (a_set (a_alloc a (a_val a y)) l (xs ++ [fresh a])) x) with (a_val (a_alloc a (a_val a y)) x).
    apply a_val_alloc. auto.
Qed.

Lemma seq_owned_lt s a l r xs x : Rep s a -> nth_error (a_lists a) l = Some (r, Some xs) -> In x xs -> x < size s.
Proof. intros R H I. destruct (R_init _ _ R _ _ _ H) as (_ & _ & O). eapply ow_lt; eauto. Qed.

Lemma nth_error_lt_exists {A} (L : list A) i : i < length L -> exists x, nth_error L i = Some x.
Proof. intro H. destruct (nth_error L i) eqn:E; eauto. apply nth_error_None in E. lia. Qed.

Lemma a_seq_owned_lt s a o x : Rep s a -> In x (a_seq a o) -> x < size s.
Proof.
  intros R I. unfold a_seq in I. destruct (nth_error (a_lists a) o) as [[r [xs|]]|] eqn:E; try destruct I.
  eapply seq_owned_lt; eauto.
Qed.

Lemma a_seq_nth_Some a o : a_seq a o <> [] -> exists r, nth_error (a_lists a) o = Some (r, Some (a_seq a o)).
Proof.
  unfold a_seq. destruct (nth_error (a_lists a) o) as [[r [xs|]]|]; try congruence. eauto.
Qed.

Lemma length_a_set a l xs : length (a_lists (a_set a l xs)) = length (a_lists a).
Proof. unfold a_set; cbn [a_lists]. apply length_map_nth. Qed.

Lemma pushback_loop_sim l o r : forall todo s a pre suf ep,
  Rep s a -> nth_error (a_lists a) l = Some (r, Some (a_seq a l)) ->
  a_seq a o = pre ++ todo ++ suf -> (todo <> [] -> ep = head todo) ->
  exists s', pushbacklist_loop (length todo) l ep s = (s', None) /\
             Rep s' (a_set (a_alloc_copies a todo) l (a_seq a l ++ copies a todo)).
Proof.
  induction todo as [|y t IH]; intros s a pre suf ep R H Eo Hep.
  - exists s. split; [reflexivity|]. rewrite a_alloc_copies_nil. unfold copies. simpl. rewrite app_nil_r.
    rewrite (a_set_same _ _ _ _ H). exact R.
  - rewrite (Hep ltac:(discriminate)). cbn [head length pushbacklist_loop]. unfold pushbacklist_body.
    assert (Iy : In y (a_seq a o)) by (rewrite Eo; apply in_or_app; simpl; auto).
    assert (Hy : y < size s) by (eapply a_seq_owned_lt; eauto).
    destruct (Rep_list _ _ _ _ _ R H) as (Hl & Hr & _).
    destruct (R_init _ _ R _ _ _ H) as (_ & D & _).
    assert (Nr : ~ In r (a_seq a l)) by (apply (Rep_root_notin _ _ _ _ _ _ _ _ R H H)).
    hstep. rewrite (Rep_vl _ _ _ R Hy). rewrite (root_of_eq _ _ _ _ Hl). cbn [bind]. hstep.
    rewrite (Rep_pv_root _ _ _ _ _ R H).
    destruct (insertValue_sim _ _ _ _ _ (last (a_seq a l) r) (a_val a y) R H (last_root_or_in _ _)) as (s1 & E1 & R1).
    rewrite E1. cbn [bind].
    rewrite link_after_last in R1 by auto. rewrite <- (Rep_fresh _ _ R) in R1.
    set (a1 := a_set (a_alloc a (a_val a y)) l (a_seq a l ++ [fresh a])) in *.
    assert (Ll : l < length (a_lists a)) by (apply nth_error_Some; congruence).
    assert (Sl : a_seq a1 l = a_seq a l ++ [fresh a]).
    { unfold a1. rewrite a_seq_a_set, Nat.eqb_refl; auto. }
    assert (H1 : nth_error (a_lists a1) l = Some (r, Some (a_seq a1 l))).
    { rewrite Sl. unfold a1. apply (a_set_nth_same (a_alloc a (a_val a y)) l r (Some (a_seq a l))). exact H. }
    (* the sequence of [o] still contains y :: t as a segment *)
    assert (Eo1 : exists suf', a_seq a1 o = pre ++ (y :: t) ++ suf').
    { unfold a1. rewrite a_seq_a_set by auto. destruct (Nat.eqb_spec o l) as [->|].
      - exists (suf ++ [fresh a]). rewrite Eo. rewrite <- !app_assoc. reflexivity.
      - exists suf. exact Eo. }
    destruct Eo1 as (suf' & Eo1).
    assert (No1 : a_seq a1 o <> []) by (rewrite Eo1; destruct pre; discriminate).
    destruct (a_seq_nth_Some _ _ No1) as (ro & Ho1). rewrite Eo1 in Ho1.
    change (pre ++ (y :: t) ++ suf') with (pre ++ y :: (t ++ suf')) in Ho1.
    rewrite (Next_in_list _ _ _ _ _ _ _ R1 Ho1). cbn [bind].
    destruct (IH s1 a1 (pre ++ [y]) suf' (head (t ++ suf')) R1 H1) as (s' & E' & R').
    + rewrite Eo1, <- app_assoc. reflexivity.
    + intro Nt. destruct t; [congruence|reflexivity].
    + exists s'. split; auto. rewrite Sl in R'. unfold a1 in R'.
      rewrite pushback_step_eq in R'; auto.
      intros x Ix. rewrite <- (Rep_size _ _ R). eapply a_seq_owned_lt; eauto.
      rewrite Eo. apply in_or_app. right. simpl. right. apply in_or_app. auto.
Qed.

Lemma a_set_alloc_copies_a_set a l W ys Z :
  a_set (a_alloc_copies (a_set a l W) ys) l Z = a_set (a_alloc_copies a ys) l Z.
Proof. unfold a_set, a_alloc_copies; cbn [a_lists a_vals]. rewrite map_nth_map_nth. reflexivity. Qed.

Lemma PushBackList_sim s a l o r ol :
  Rep s a -> nth_error (a_lists a) l = Some (r, ol) -> o < length (a_lists a) ->
  exists s', list_PushBackList l o s = Ok s' /\
             Rep s' (a_set (a_alloc_copies a (a_seq a o)) l (a_seq a l ++ copies a (a_seq a o))).
Proof.
  intros R H Ho. unfold list_PushBackList, pushbacklist_run.
  destruct (lazyInit_sim _ _ _ _ _ R H) as (s1 & E1 & R1). rewrite E1. cbn [bind].
  set (a1 := a_set a l (a_seq a l)) in *.
  assert (Ll : l < length (a_lists a)) by (apply nth_error_Some; congruence).
  assert (H1 : nth_error (a_lists a1) l = Some (r, Some (a_seq a l))) by (apply (a_set_nth_same _ _ _ _ _ H)).
  assert (Sq : forall l', a_seq a1 l' = a_seq a l').
  { intro l'. unfold a1. rewrite a_seq_a_set by auto. destruct (Nat.eqb_spec l' l) as [->|]; auto. }
  assert (Ho1 : o < length (a_lists a1)) by (unfold a1; rewrite length_a_set; auto).
  destruct (nth_error_lt_exists _ _ Ho1) as ([ro oo] & Hoo).
  rewrite (Len_sim _ _ _ _ _ R1 Hoo), (Front_sim _ _ _ _ _ R1 Hoo). cbn [bind]. rewrite Nat2Z.id.
  rewrite <- (Sq l) in H1.
  destruct (pushback_loop_sim l o r (a_seq a1 o) s1 a1 [] [] (head (a_seq a1 o)) R1 H1) as (s' & E' & R').
  - simpl. rewrite app_nil_r. reflexivity.
  - auto.
  - exists s'. split; [rewrite E'; reflexivity|]. rewrite !Sq in R'. unfold a1 in R'.
    rewrite a_set_alloc_copies_a_set in R'. exact R'.
Qed.

Lemma last_opt_snoc t y : last_opt (t ++ [y]) = Some y.
Proof. destruct t as [|x u]; [reflexivity|]. simpl app. cbn [last_opt]. rewrite last_app_cons. reflexivity. Qed.

Lemma last_opt_app pre t : t <> [] -> last_opt (pre ++ t) = last_opt t.
Proof.
  intro N. destruct (exists_last N) as (u & y & ->). rewrite app_assoc, !last_opt_snoc. reflexivity.
Qed.

Lemma pushfront_step_eq a l y t xs :
  (forall x, In x t -> x < length (a_vals a)) ->
  let a1 := a_set (a_alloc a (a_val a y)) l (fresh a :: xs) in
  a_set (a_alloc_copies a1 (rev t)) l (rev (copies a1 t) ++ fresh a :: xs) =
  a_set (a_alloc_copies a (rev (t ++ [y]))) l (rev (copies a (t ++ [y])) ++ xs).
Proof.
  intros Ht a1.
  assert (F1 : fresh a1 = S (fresh a)).
  { unfold fresh, a1, a_set, a_alloc; cbn [a_vals]. rewrite app_length. simpl. lia. }
  assert (Ec : copies a (t ++ [y]) = fresh a :: copies a1 t).
  { unfold copies. rewrite F1, app_length. simpl. rewrite Nat.add_1_r. reflexivity. }
  rewrite Ec. simpl rev. rewrite <- app_assoc. simpl. rewrite rev_unit.
  unfold a_set at 1 2. f_equal.
  - unfold a_alloc_copies, a1, a_set; cbn [a_lists]. rewrite map_nth_map_nth. reflexivity.
  - unfold a_alloc_copies; cbn [a_vals]. unfold a1 at 1. unfold a_set, a_alloc; cbn [a_vals].
    rewrite <- app_assoc. simpl. do 2 f_equal.
    apply map_a_val_ext. intros x Ix. unfold a1.
    change (a_val (a_set (a_alloc a (a_val a y)) l (fresh a :: xs)) x) with (a_val (a_alloc a (a_val a y)) x).
    apply a_val_alloc. apply Ht. apply in_rev. auto.
Qed.

Lemma pushfront_loop_sim l o r : forall todo s a pre suf ep,
  Rep s a -> nth_error (a_lists a) l = Some (r, Some (a_seq a l)) ->
  a_seq a o = pre ++ todo ++ suf -> (todo <> [] -> ep = last_opt todo) ->
  exists s', pushfrontlist_loop (length todo) l ep s = (s', None) /\
             Rep s' (a_set (a_alloc_copies a (rev todo)) l (rev (copies a todo) ++ a_seq a l)).
Proof.
  induction todo as [|y t IH] using rev_ind; intros s a pre suf ep R H Eo Hep.
  - exists s. split; [reflexivity|]. simpl rev. rewrite a_alloc_copies_nil. unfold copies. simpl.
    rewrite (a_set_same _ _ _ _ H). exact R.
  - rewrite (Hep ltac:(destruct t; discriminate)), last_opt_snoc.
    rewrite app_length. simpl length. rewrite Nat.add_1_r. cbn [pushfrontlist_loop]. unfold pushfrontlist_body.
    assert (Iy : In y (a_seq a o)).
    { rewrite Eo. apply in_or_app. right. apply in_or_app. left. apply in_or_app. simpl; auto. }
    assert (Hy : y < size s) by (eapply a_seq_owned_lt; eauto).
    destruct (Rep_list _ _ _ _ _ R H) as (Hl & Hr & _).
    hstep. rewrite (Rep_vl _ _ _ R Hy). rewrite (root_of_eq _ _ _ _ Hl). cbn [bind].
    destruct (insertValue_sim _ _ _ _ _ r (a_val a y) R H (or_introl (eq_refl r))) as (s1 & E1 & R1).
    rewrite E1. cbn [bind].
    unfold link_after in R1. rewrite Nat.eqb_refl in R1. rewrite <- (Rep_fresh _ _ R) in R1.
    set (a1 := a_set (a_alloc a (a_val a y)) l (fresh a :: a_seq a l)) in *.
    assert (Ll : l < length (a_lists a)) by (apply nth_error_Some; congruence).
    assert (Sl : a_seq a1 l = fresh a :: a_seq a l).
    { unfold a1. rewrite a_seq_a_set, Nat.eqb_refl; auto. }
    assert (H1 : nth_error (a_lists a1) l = Some (r, Some (a_seq a1 l))).
    { rewrite Sl. unfold a1. apply (a_set_nth_same (a_alloc a (a_val a y)) l r (Some (a_seq a l))). exact H. }
    assert (Eo1 : exists pre', a_seq a1 o = pre' ++ (t ++ [y]) ++ suf).
    { unfold a1. rewrite a_seq_a_set by auto. destruct (Nat.eqb_spec o l) as [->|].
      - exists (fresh a :: pre). rewrite Eo. reflexivity.
      - exists pre. exact Eo. }
    destruct Eo1 as (pre' & Eo1).
    assert (No1 : a_seq a1 o <> []) by (rewrite Eo1; destruct pre', t; discriminate).
    destruct (a_seq_nth_Some _ _ No1) as (ro & Ho1). rewrite Eo1 in Ho1.
    replace (pre' ++ (t ++ [y]) ++ suf) with ((pre' ++ t) ++ y :: suf) in Ho1
      by (rewrite <- !app_assoc; reflexivity).
    rewrite (Prev_in_list _ _ _ _ _ _ _ R1 Ho1). cbn [bind].
    destruct (IH s1 a1 pre' (y :: suf) (last_opt (pre' ++ t)) R1 H1) as (s' & E' & R').
    + rewrite Eo1, <- !app_assoc. reflexivity.
    + intro Nt. apply last_opt_app; auto.
    + exists s'. split; auto. rewrite Sl in R'. unfold a1 in R'.
      rewrite pushfront_step_eq in R'; auto.
      intros x Ix. rewrite <- (Rep_size _ _ R). eapply a_seq_owned_lt; eauto.
      rewrite Eo. apply in_or_app. right. apply in_or_app. left. apply in_or_app. auto.
Qed.

Lemma PushFrontList_sim s a l o r ol :
  Rep s a -> nth_error (a_lists a) l = Some (r, ol) -> o < length (a_lists a) ->
  exists s', list_PushFrontList l o s = Ok s' /\
             Rep s' (a_set (a_alloc_copies a (rev (a_seq a o))) l (rev (copies a (a_seq a o)) ++ a_seq a l)).
Proof.
  intros R H Ho. unfold list_PushFrontList, pushfrontlist_run.
  destruct (lazyInit_sim _ _ _ _ _ R H) as (s1 & E1 & R1). rewrite E1. cbn [bind].
  set (a1 := a_set a l (a_seq a l)) in *.
  assert (Ll : l < length (a_lists a)) by (apply nth_error_Some; congruence).
  assert (H1 : nth_error (a_lists a1) l = Some (r, Some (a_seq a l))) by (apply (a_set_nth_same _ _ _ _ _ H)).
  assert (Sq : forall l', a_seq a1 l' = a_seq a l').
  { intro l'. unfold a1. rewrite a_seq_a_set by auto. destruct (Nat.eqb_spec l' l) as [->|]; auto. }
  assert (Ho1 : o < length (a_lists a1)) by (unfold a1; rewrite length_a_set; auto).
  destruct (nth_error_lt_exists _ _ Ho1) as ([ro oo] & Hoo).
  rewrite (Len_sim _ _ _ _ _ R1 Hoo), (Back_sim _ _ _ _ _ R1 Hoo). cbn [bind]. rewrite Nat2Z.id.
  rewrite <- (Sq l) in H1.
  destruct (pushfront_loop_sim l o r (a_seq a1 o) s1 a1 [] [] (last_opt (a_seq a1 o)) R1 H1) as (s' & E' & R').
  - simpl. rewrite app_nil_r. reflexivity.
  - auto.
  - exists s'. split; [rewrite E'; reflexivity|]. rewrite !Sq in R'. unfold a1 in R'.
    rewrite a_set_alloc_copies_a_set in R'. exact R'.
Qed.

(* ================= Part E: histories ================= *)

Definition Hok (s : state) (h : list nat) : Prop := forall e, In e h -> e < size s.
Definition ptr_ok (s : state) (p : ptr) : Prop := match p with Some e => e < size s | None => True end.
Definition asize (a : astate) : nat := length (a_vals a).

Lemma Hok_add s h p : Hok s h -> ptr_ok s p -> Hok s (add_handle h p).
Proof.
  intros H P. destruct p as [e|]; simpl; auto.
  destruct (existsb (Nat.eqb e) h); auto.
  intros x I. apply in_app_iff in I as [I|[<-|[]]]; auto.
Qed.

Lemma Hok_mono s a s' a' h : Rep s a -> Rep s' a' -> asize a <= asize a' -> Hok s h -> Hok s' h.
Proof.
  intros R R' L H e I. specialize (H e I). rewrite (Rep_size _ _ R) in H. rewrite (Rep_size _ _ R'). unfold asize in L. lia.
Qed.

Lemma hnd_In h k e : hnd h k = Some e -> In e h.
Proof. unfold hnd. destruct (k <? 0)%Z; [discriminate|]. apply nth_error_In. Qed.

Lemma asize_a_set a l xs : asize (a_set a l xs) = asize a. Proof. reflexivity. Qed.
Lemma asize_a_alloc a v : asize (a_alloc a v) = S (asize a).
Proof. unfold asize, a_alloc; cbn [a_vals]. rewrite app_length. simpl. lia. Qed.
Lemma asize_a_alloc_copies a ys : asize (a_alloc_copies a ys) = asize a + length ys.
Proof. unfold asize, a_alloc_copies; cbn [a_vals]. rewrite app_length, map_length. lia. Qed.
Lemma asize_a_newlist a o : asize (a_newlist a o) = S (asize a).
Proof. unfold asize, a_newlist; cbn [a_vals]. rewrite app_length. simpl. lia. Qed.

Lemma ok_lt (l : Z) a : (Z.to_nat l <? length (a_lists a)) = true ->
  exists r o, nth_error (a_lists a) (Z.to_nat l) = Some (r, o).
Proof. intro H. apply Nat.ltb_lt in H. destruct (nth_error_lt_exists _ _ H) as ([r o] & E). eauto. Qed.

Lemma head_ptr_ok s a l : Rep s a -> ptr_ok s (head (a_seq a l)).
Proof.
  intro R. destruct (a_seq a l) as [|x t] eqn:E; simpl; auto.
  eapply a_seq_owned_lt; eauto. rewrite E. simpl; auto.
Qed.
Lemma last_ptr_ok s a l : Rep s a -> ptr_ok s (last_opt (a_seq a l)).
Proof.
  intro R. destruct (a_seq a l) as [|x t] eqn:E; simpl; auto.
  eapply a_seq_owned_lt; eauto. rewrite E. destruct (last_in_or x t) as [[-> _]|I]; simpl; auto.
Qed.

Lemma elem_Next_ptr_ok s a e p : Rep s a -> e < size s -> elem_Next s (Some e) = Ok p -> ptr_ok s p.
Proof.
  intros R He. destruct (NextPrev_sim _ _ _ R He) as [-> _]. intro E; injection E as <-.
  unfold spec_next. destruct (owner_seq (a_lists a) e) as [xs|] eqn:Eo; simpl; auto.
  destruct (owner_seq_Some _ _ _ Eo) as (I & l & r & H).
  destruct (succ_in e xs) as [y|] eqn:Es; simpl; auto.
  eapply seq_owned_lt; eauto.
  clear -Es. induction xs as [|x t IH]; simpl in *; [discriminate|].
  destruct (Nat.eqb x e); auto. destruct t; simpl in *; [discriminate|]. injection Es as <-. auto.
Qed.

Lemma pred_from_In p e xs y : pred_from p e xs = Some y -> p = Some y \/ In y xs.
Proof.
  revert p; induction xs as [|x t IH]; simpl; intros p H; [discriminate|].
  destruct (Nat.eqb x e); auto. destruct (IH _ H) as [E|I]; auto. injection E as <-. auto.
Qed.

Lemma elem_Prev_ptr_ok s a e p : Rep s a -> e < size s -> elem_Prev s (Some e) = Ok p -> ptr_ok s p.
Proof.
  intros R He. destruct (NextPrev_sim _ _ _ R He) as [_ ->]. intro E; injection E as <-.
  unfold spec_prev. destruct (owner_seq (a_lists a) e) as [xs|] eqn:Eo; simpl; auto.
  destruct (owner_seq_Some _ _ _ Eo) as (I & l & r & H).
  destruct (pred_in e xs) as [y|] eqn:Es; simpl; auto.
  eapply seq_owned_lt; eauto.
  apply pred_from_In in Es as [?|?]; [discriminate|auto].
Qed.

Theorem exec_sim op s a h :
  Rep s a -> Hok s h -> spec_ok op a = true ->
  exists s', step op (RState s h) = (fst (fst (spec_exec op a h)), RState s' (snd (spec_exec op a h))) /\
             Rep s' (snd (fst (spec_exec op a h))) /\ Hok s' (snd (spec_exec op a h)).
Proof.
  intros R HK OK. unfold step, exec. cbn [st hs].
  destruct op; cbn [spec_exec spec_ok] in *.
  - (* LNew *)
    rewrite alloc_list_eq. pose proof (alloc_list_sim _ _ R) as R'.
    destruct (R_lsts _ _ R) as [-> _].
    eexists. split; [reflexivity|]. split; [exact R'|].
    eapply Hok_mono; [exact R|exact R'| |exact HK]. rewrite asize_a_newlist. lia.
  - (* LNewInit *)
    unfold list_New. rewrite alloc_list_eq. pose proof (alloc_list_sim _ _ R) as R1.
    destruct (R_lsts _ _ R) as [LL _].
    assert (H1 : nth_error (a_lists (a_newlist a None)) (length (lsts s)) = Some (fresh a, None)).
    { unfold a_newlist; cbn [a_lists]. rewrite LL, nth_error_alloc, Nat.eqb_refl. reflexivity. }
    destruct (init_sim _ _ _ _ _ R1 H1 (or_introl eq_refl)) as (s' & E & R').
    rewrite E. cbn [bind]. rewrite LL.
    assert (Ea : a_set (a_newlist a None) (length (lsts s)) [] = a_newlist a (Some [])).
    { unfold a_set, a_newlist; cbn [a_lists a_vals]. f_equal. rewrite LL.
      clear. induction (a_lists a) as [|x t IH]; simpl; [reflexivity|]. f_equal. exact IH. }
    rewrite Ea in R'.
    exists s'. split; [reflexivity|]. split; [exact R'|].
    eapply Hok_mono; [exact R|exact R'| |exact HK]. rewrite asize_a_newlist. lia.
  - (* LElem *)
    rewrite alloc_elem_eq. pose proof (alloc_elem_sim _ _ v R) as R'.
    unfold ret_ptr, sret. cbn [bind fst snd]. rewrite (Rep_fresh _ _ R).
    eexists. split; [reflexivity|]. split; [exact R'|].
    apply Hok_add.
    + eapply Hok_mono; [exact R|exact R'| |exact HK]. rewrite asize_a_alloc. lia.
    + simpl. rewrite size_st_alloc. lia.
  - (* LInit *)
    apply andb_true_iff in OK as [OK1 OK2].
    destruct (ok_lt _ _ OK1) as (r & o & H).
    assert (Ho : o = None \/ o = Some []).
    { rewrite (a_seq_nth _ _ _ _ H) in OK2. destruct o as [[|? ?]|]; auto. discriminate. }
    destruct (init_sim _ _ _ _ _ R H Ho) as (s' & E & R').
    unfold ret_unit. rewrite E. cbn [bind fst snd].
    exists s'. split; [reflexivity|]. split; [exact R'|].
    eapply Hok_mono; [exact R|exact R'| |exact HK]. rewrite asize_a_set. lia.
  - (* LLen *)
    destruct (ok_lt _ _ OK) as (r & o & H).
    rewrite (Len_sim _ _ _ _ _ R H). cbn [bind fst snd]. eauto.
  - (* LFront *)
    destruct (ok_lt _ _ OK) as (r & o & H).
    rewrite (Front_sim _ _ _ _ _ R H). unfold ret_ptr, sret. cbn [bind fst snd].
    exists s. split; [reflexivity|]. split; [exact R|]. apply Hok_add; auto. eapply head_ptr_ok; eauto.
  - (* LBack *)
    destruct (ok_lt _ _ OK) as (r & o & H).
    rewrite (Back_sim _ _ _ _ _ R H). unfold ret_ptr, sret. cbn [bind fst snd].
    exists s. split; [reflexivity|]. split; [exact R|]. apply Hok_add; auto. eapply last_ptr_ok; eauto.
  - (* LPushFront *)
    destruct (ok_lt _ _ OK) as (r & o & H).
    destruct (PushFront_sim _ _ _ _ _ v R H) as (s' & E & R').
    rewrite E. unfold ret_ptr, sret. cbn [bind fst snd].
    exists s'. split; [reflexivity|]. split; [exact R'|].
    apply Hok_add.
    + eapply Hok_mono; [exact R|exact R'| |exact HK]. rewrite asize_a_set, asize_a_alloc. lia.
    + simpl. rewrite (Rep_size _ _ R'). change (length (a_vals _)) with (asize (a_alloc a v)).
      rewrite asize_a_alloc. unfold fresh, asize. lia.
  - (* LPushBack *)
    destruct (ok_lt _ _ OK) as (r & o & H).
    destruct (PushBack_sim _ _ _ _ _ v R H) as (s' & E & R').
    rewrite E. unfold ret_ptr, sret. cbn [bind fst snd].
    exists s'. split; [reflexivity|]. split; [exact R'|].
    apply Hok_add.
    + eapply Hok_mono; [exact R|exact R'| |exact HK]. rewrite asize_a_set, asize_a_alloc. lia.
    + simpl. rewrite (Rep_size _ _ R'). change (length (a_vals _)) with (asize (a_alloc a v)).
      rewrite asize_a_alloc. unfold fresh, asize. lia.
  - (* LInsertBefore *)
    destruct (ok_lt _ _ OK) as (r & o & H).
    destruct (hnd h m) as [m0|] eqn:Eh; cbn [spanic fst snd]; [|exists s; split; [reflexivity|auto]].
    assert (Hm : m0 < size s) by (apply HK; eapply hnd_In; eauto).
    destruct (InsertBefore_sim _ _ _ _ _ v _ R H Hm) as (s' & E & R').
    rewrite E. unfold ret_ptr, sret. cbn [bind].
    exists s'. destruct (mem m0 (a_seq a (Z.to_nat l))); cbn [fst snd]; (split; [reflexivity|]); (split; [exact R'|]).
    + apply Hok_add.
      * eapply Hok_mono; [exact R|exact R'| |exact HK]. rewrite asize_a_set, asize_a_alloc. lia.
      * simpl. rewrite (Rep_size _ _ R'). change (length (a_vals _)) with (asize (a_alloc a v)).
        rewrite asize_a_alloc. unfold fresh, asize. lia.
    + eapply Hok_mono; [exact R|exact R'| |exact HK]. lia.
  - (* LInsertAfter *)
    destruct (ok_lt _ _ OK) as (r & o & H).
    destruct (hnd h m) as [m0|] eqn:Eh; cbn [spanic fst snd]; [|exists s; split; [reflexivity|auto]].
    assert (Hm : m0 < size s) by (apply HK; eapply hnd_In; eauto).
    destruct (InsertAfter_sim _ _ _ _ _ v _ R H Hm) as (s' & E & R').
    rewrite E. unfold ret_ptr, sret. cbn [bind].
    exists s'. destruct (mem m0 (a_seq a (Z.to_nat l))); cbn [fst snd]; (split; [reflexivity|]); (split; [exact R'|]).
    + apply Hok_add.
      * eapply Hok_mono; [exact R|exact R'| |exact HK]. rewrite asize_a_set, asize_a_alloc. lia.
      * simpl. rewrite (Rep_size _ _ R'). change (length (a_vals _)) with (asize (a_alloc a v)).
        rewrite asize_a_alloc. unfold fresh, asize. lia.
    + eapply Hok_mono; [exact R|exact R'| |exact HK]. lia.
  - (* LRemove *)
    destruct (ok_lt _ _ OK) as (r & o & H).
    destruct (hnd h e) as [e0|] eqn:Eh; cbn [spanic fst snd]; [|exists s; split; [reflexivity|auto]].
    assert (He : e0 < size s) by (apply HK; eapply hnd_In; eauto).
    destruct (Remove_sim _ _ _ _ _ _ R H He) as (s' & E & R').
    rewrite E. cbn [bind].
    exists s'. split; [reflexivity|]. split; [exact R'|].
    eapply Hok_mono; [exact R|exact R'| |exact HK].
    destruct (mem e0 (a_seq a (Z.to_nat l))); rewrite ?asize_a_set; lia.
  - (* LMoveToFront *)
    destruct (ok_lt _ _ OK) as (r & o & H).
    destruct (hnd h e) as [e0|] eqn:Eh; cbn [spanic fst snd]; [|exists s; split; [reflexivity|auto]].
    assert (He : e0 < size s) by (apply HK; eapply hnd_In; eauto).
    destruct (MoveToFront_sim _ _ _ _ _ _ R H He) as (s' & E & R').
    unfold ret_unit. rewrite E. cbn [bind].
    exists s'. split; [reflexivity|]. split; [exact R'|].
    eapply Hok_mono; [exact R|exact R'| |exact HK].
    destruct (mem e0 (a_seq a (Z.to_nat l))); rewrite ?asize_a_set; lia.
  - (* LMoveToBack *)
    destruct (ok_lt _ _ OK) as (r & o & H).
    destruct (hnd h e) as [e0|] eqn:Eh; cbn [spanic fst snd]; [|exists s; split; [reflexivity|auto]].
    assert (He : e0 < size s) by (apply HK; eapply hnd_In; eauto).
    destruct (MoveToBack_sim _ _ _ _ _ _ R H He) as (s' & E & R').
    unfold ret_unit. rewrite E. cbn [bind].
    exists s'. split; [reflexivity|]. split; [exact R'|].
    eapply Hok_mono; [exact R|exact R'| |exact HK].
    destruct (mem e0 (a_seq a (Z.to_nat l))); rewrite ?asize_a_set; lia.
  - (* LMoveBefore *)
    destruct (ok_lt _ _ OK) as (r & o & H).
    destruct (hnd h e) as [e0|] eqn:Eh; cbn [spanic fst snd]; [|exists s; split; [reflexivity|auto]].
    assert (He : e0 < size s) by (apply HK; eapply hnd_In; eauto).
    destruct (hnd h m) as [m0|] eqn:Ehm.
    + assert (Hm : m0 < size s) by (apply HK; eapply hnd_In; eauto).
      destruct (MoveBefore_sim _ _ _ _ _ _ _ R H He Hm) as (s' & E & R').
      unfold ret_unit. rewrite E. cbn [bind ptr_eqb option_eqb].
      exists s'.
      destruct (mem e0 (a_seq a (Z.to_nat l))); cbn [negb fst snd] in *; [|split; [reflexivity|]; split; [exact R'|]; eapply Hok_mono; [exact R|exact R'|lia|exact HK]].
      destruct (e0 =? m0); cbn [fst snd] in *; [split; [reflexivity|]; split; [exact R'|]; eapply Hok_mono; [exact R|exact R'|lia|exact HK]|].
      split; [reflexivity|]. split; [exact R'|].
      eapply Hok_mono; [exact R|exact R'| |exact HK].
      destruct (mem m0 (a_seq a (Z.to_nat l))); rewrite ?asize_a_set; lia.
    + (* mark is nil: panics only if e is an element of l *)
      unfold ret_unit, list_MoveBefore. hstep. rewrite (Rep_guard _ _ _ _ _ e0 R H).
      destruct (mem e0 (a_seq a (Z.to_nat l))); cbn [negb ptr_eqb option_eqb bind spanic fst snd]; rewrite ?rd_nil; cbn [bind];
      exists s; (split; [reflexivity|auto]).
  - (* LMoveAfter *)
    destruct (ok_lt _ _ OK) as (r & o & H).
    destruct (hnd h e) as [e0|] eqn:Eh; cbn [spanic fst snd]; [|exists s; split; [reflexivity|auto]].
    assert (He : e0 < size s) by (apply HK; eapply hnd_In; eauto).
    destruct (hnd h m) as [m0|] eqn:Ehm.
    + assert (Hm : m0 < size s) by (apply HK; eapply hnd_In; eauto).
      destruct (MoveAfter_sim _ _ _ _ _ _ _ R H He Hm) as (s' & E & R').
      unfold ret_unit. rewrite E. cbn [bind ptr_eqb option_eqb].
      exists s'.
      destruct (mem e0 (a_seq a (Z.to_nat l))); cbn [negb fst snd] in *; [|split; [reflexivity|]; split; [exact R'|]; eapply Hok_mono; [exact R|exact R'|lia|exact HK]].
      destruct (e0 =? m0); cbn [fst snd] in *; [split; [reflexivity|]; split; [exact R'|]; eapply Hok_mono; [exact R|exact R'|lia|exact HK]|].
      split; [reflexivity|]. split; [exact R'|].
      eapply Hok_mono; [exact R|exact R'| |exact HK].
      destruct (mem m0 (a_seq a (Z.to_nat l))); rewrite ?asize_a_set; lia.
    + unfold ret_unit, list_MoveAfter. hstep. rewrite (Rep_guard _ _ _ _ _ e0 R H).
      destruct (mem e0 (a_seq a (Z.to_nat l))); cbn [negb ptr_eqb option_eqb bind spanic fst snd]; rewrite ?rd_nil; cbn [bind];
      exists s; (split; [reflexivity|auto]).
  - (* LPushBackList *)
    apply andb_true_iff in OK as [OK1 OK2].
    destruct (ok_lt _ _ OK1) as (r & ol & H). apply Nat.ltb_lt in OK2.
    destruct (PushBackList_sim _ _ _ _ _ _ R H OK2) as (s' & E & R').
    unfold ret_unit. rewrite E. cbn [bind fst snd].
    exists s'. split; [reflexivity|]. split; [exact R'|].
    eapply Hok_mono; [exact R|exact R'| |exact HK]. rewrite asize_a_set, asize_a_alloc_copies. lia.
  - (* LPushFrontList *)
    apply andb_true_iff in OK as [OK1 OK2].
    destruct (ok_lt _ _ OK1) as (r & ol & H). apply Nat.ltb_lt in OK2.
    destruct (PushFrontList_sim _ _ _ _ _ _ R H OK2) as (s' & E & R').
    unfold ret_unit. rewrite E. cbn [bind fst snd].
    exists s'. split; [reflexivity|]. split; [exact R'|].
    eapply Hok_mono; [exact R|exact R'| |exact HK]. rewrite asize_a_set, asize_a_alloc_copies. lia.
  - (* LNext *)
    destruct (hnd h e) as [e0|] eqn:Eh; cbn [spanic fst snd]; [|exists s; split; [reflexivity|auto]].
    assert (He : e0 < size s) by (apply HK; eapply hnd_In; eauto).
    destruct (NextPrev_sim _ _ _ R He) as [EN _].
    pose proof (elem_Next_ptr_ok _ _ _ _ R He EN) as PK.
    rewrite EN. unfold ret_ptr, sret. cbn [bind fst snd]. fold (spec_next a e0).
    exists s. split; [reflexivity|]. split; [exact R|]. apply Hok_add; auto.
  - (* LPrev *)
    destruct (hnd h e) as [e0|] eqn:Eh; cbn [spanic fst snd]; [|exists s; split; [reflexivity|auto]].
    assert (He : e0 < size s) by (apply HK; eapply hnd_In; eauto).
    destruct (NextPrev_sim _ _ _ R He) as [_ EP].
    pose proof (elem_Prev_ptr_ok _ _ _ _ R He EP) as PK.
    rewrite EP. unfold ret_ptr, sret. cbn [bind fst snd]. fold (spec_prev a e0).
    exists s. split; [reflexivity|]. split; [exact R|]. apply Hok_add; auto.
Qed.

Lemma Rep_init : Rep (State [] []) init_astate.
Proof.
  constructor; cbn.
  - split; auto. intros j Hj. unfold size in Hj. simpl in Hj. lia.
  - split; auto. intros [|l] r o; discriminate.
  - split; [constructor|]. intros e [].
  - intros [|l] r; discriminate.
  - intros [|l] r xs; discriminate.
  - intros e l H. unfold ow, proj in H. simpl in H. destruct e; discriminate.
  - intros e _ _. unfold nx, pv, proj. simpl. destruct e; auto.
Qed.

Lemma run_from_sim ops : forall s a h os a' h',
  Rep s a -> Hok s h -> spec_run_from a h ops = (os, a', h', true) ->
  exists s', run_from (RState s h) ops = (os, RState s' h') /\ Rep s' a' /\ Hok s' h'.
Proof.
  induction ops as [|op ops IH]; intros s a h os a' h' R HK E; cbn [spec_run_from run_from] in *.
  - injection E as <- <- <-. eauto.
  - destruct (spec_exec op a h) as [[o a1] h1] eqn:E1.
    destruct (spec_run_from a1 h1 ops) as [[[os2 a2] h2] ok2] eqn:E2.
    injection E as <- <- <- Eok. apply andb_true_iff in Eok as [OK ->].
    destruct (exec_sim op s a h R HK OK) as (s1 & Es & R1 & HK1).
    rewrite E1 in Es, R1, HK1. cbn [fst snd] in *. rewrite Es.
    destruct (IH _ _ _ _ _ _ R1 HK1 E2) as (s' & E' & R' & HK').
    rewrite E'. eauto.
Qed.

(* The pointer model refines the sequence semantics on every covered history:
   same outputs, same handle table, and the final heap represents the final
   abstract state. *)
Theorem list_refines_spec ops os a h :
  spec_run ops = (os, a, h, true) ->
  exists s, run ops = (os, RState s h) /\ Rep s a.
Proof.
  intro E. unfold spec_run in E. unfold run, init_rstate.
  destruct (run_from_sim ops _ _ [] _ _ _ Rep_init (fun e (I : In e []) => match I with end) E) as (s & E' & R & _).
  eauto.
Qed.

(* ---- panics ---- *)
Definition nil_arg (op : lop) (h : list nat) : bool :=
  match op with
  | LInsertBefore _ _ m | LInsertAfter _ _ m => ptr_eqb (hnd h m) None
  | LRemove _ e | LMoveToFront _ e | LMoveToBack _ e | LNext e | LPrev e => ptr_eqb (hnd h e) None
  | LMoveBefore _ e m | LMoveAfter _ e m => ptr_eqb (hnd h e) None || ptr_eqb (hnd h m) None
  | _ => false
  end.

Lemma spec_panic op a h k :
  fst (fst (spec_exec op a h)) = OPanic k ->
  k = NilDeref /\ nil_arg op h = true /\ spec_exec op a h = (OPanic NilDeref, a, h).
Proof.
  destruct op; cbn [spec_exec nil_arg]; unfold sret, spanic; cbn [fst snd]; try discriminate;
    repeat match goal with
           | |- context[match hnd ?h ?e with _ => _ end] => destruct (hnd h e) eqn:?
           | |- context[if ?b then _ else _] => destruct b eqn:?
           end; cbn [fst snd ptr_eqb option_eqb orb]; try discriminate;
    intro E; injection E as <-; rewrite ?orb_true_r; auto.
Qed.

(* ---- traversals ---- *)
Lemma NoDup_bound xs n : NoDup xs -> (forall x, In x xs -> x < n) -> length xs <= n.
Proof.
  intros D B. rewrite <- (seq_length n 0). apply NoDup_incl_length; auto.
  intros x I. apply in_seq. specialize (B x I). lia.
Qed.

Lemma walk_next_suffix s a l r xs :
  Rep s a -> nth_error (a_lists a) l = Some (r, Some xs) ->
  forall suf pre fuel, xs = pre ++ suf -> length suf < fuel -> walk elem_Next fuel s (head suf) = Ok suf.
Proof.
  intros R H. induction suf as [|y t IH]; intros pre fuel E L; [destruct fuel; reflexivity|].
  destruct fuel as [|f]; [simpl in L; lia|]. cbn [head walk].
  subst xs. rewrite (Next_in_list _ _ _ _ _ _ _ R H). cbn [bind].
  rewrite (IH (pre ++ [y]) f); [reflexivity| |simpl in L; lia].
  rewrite <- app_assoc. reflexivity.
Qed.

Lemma walk_prev_prefix s a l r xs :
  Rep s a -> nth_error (a_lists a) l = Some (r, Some xs) ->
  forall pre suf fuel, xs = pre ++ suf -> length pre < fuel -> walk elem_Prev fuel s (last_opt pre) = Ok (rev pre).
Proof.
  intros R H. induction pre as [|y t IH] using rev_ind; intros suf fuel E L; [destruct fuel; reflexivity|].
  rewrite app_length in L. simpl in L.
  destruct fuel as [|f]; [lia|]. rewrite last_opt_snoc. cbn [walk].
  subst xs. rewrite <- app_assoc in H. simpl in H.
  rewrite (Prev_in_list _ _ _ _ _ _ _ R H). cbn [bind].
  rewrite (IH (y :: suf) f); [rewrite rev_unit; reflexivity| |lia].
  rewrite <- app_assoc. reflexivity.
Qed.

Theorem walks_sim s a l :
  Rep s a -> l < length (a_lists a) ->
  walk_fwd s l = Ok (a_seq a l) /\ walk_bwd s l = Ok (rev (a_seq a l)).
Proof.
  intros R Hl. destruct (nth_error_lt_exists _ _ Hl) as ([r o] & H).
  unfold walk_fwd, walk_bwd. rewrite (Front_sim _ _ _ _ _ R H), (Back_sim _ _ _ _ _ R H). cbn [bind].
  rewrite (a_seq_nth _ _ _ _ H). destruct o as [xs|]; [|split; reflexivity].
  destruct (R_init _ _ R _ _ _ H) as (_ & D & O).
  assert (B : length xs <= size s).
  { apply NoDup_bound; auto. intros x I. eapply ow_lt; eauto. }
  fold (size s). split.
  - apply (walk_next_suffix _ _ _ _ _ R H xs [] (S (size s))); auto. lia.
  - apply (walk_prev_prefix _ _ _ _ _ R H xs [] (S (size s))); [rewrite app_nil_r; auto|lia].
Qed.

(* ---- handles that are not elements of l: nothing at all is written ---- *)
Theorem foreign_handle_noop s l e :
  e < size s -> ow s e <> Some l ->
  list_Remove l (Some e) s = Ok (vl s e, s) /\
  (forall v, list_InsertBefore l v (Some e) s = Ok (None, s)) /\
  (forall v, list_InsertAfter l v (Some e) s = Ok (None, s)) /\
  list_MoveToFront l (Some e) s = Ok s /\
  list_MoveToBack l (Some e) s = Ok s /\
  (forall m, list_MoveBefore l (Some e) m s = Ok s) /\
  (forall m, list_MoveAfter l (Some e) m s = Ok s) /\
  (forall x, x < size s -> list_MoveBefore l (Some x) (Some e) s = Ok s) /\
  (forall x, x < size s -> list_MoveAfter l (Some x) (Some e) s = Ok s).
Proof.
  intros He N. apply ptr_eqb_neq in N.
  repeat split; intros.
  - unfold list_Remove. hstep. rewrite N. cbn [bind]. hstep. reflexivity.
  - unfold list_InsertBefore. hstep. hstep. rewrite N. reflexivity.
  - unfold list_InsertAfter. hstep. rewrite N. reflexivity.
  - unfold list_MoveToFront. hstep. rewrite N. reflexivity.
  - unfold list_MoveToBack. hstep. rewrite N. reflexivity.
  - unfold list_MoveBefore. hstep. rewrite N. reflexivity.
  - unfold list_MoveAfter. hstep. rewrite N. reflexivity.
  - unfold list_MoveBefore. hstep. hstep. hstep. rewrite N. cbn [negb].
    destruct (negb (ptr_eqb (ow s x) (Some l))); auto. destruct (ptr_eqb (Some x) (Some e)); auto.
  - unfold list_MoveAfter. hstep. hstep. rewrite N. cbn [negb].
    destruct (negb (ptr_eqb (ow s x) (Some l))); auto. destruct (ptr_eqb (Some x) (Some e)); auto.
Qed.

(* in a represented heap "not an element of l" is exactly: removed, never inserted, or in another list *)
Lemma not_member_ow s a l r o e :
  Rep s a -> nth_error (a_lists a) l = Some (r, o) -> ~ In e (a_seq a l) -> ow s e <> Some l.
Proof. intros R H N O. apply N. eapply Rep_ow_iff; eauto. Qed.

(* ---- PushBackList of a list onto itself appends a copy of the old contents ---- *)
Lemma map_a_val_seq vals ws :
  map (fun e => nth e (vals ++ ws) 0%Z) (seq (length vals) (length ws)) = ws.
Proof.
  revert vals; induction ws as [|w t IH]; intro vals; [reflexivity|].
  simpl. f_equal.
  - rewrite app_nth2, Nat.sub_diag by lia. reflexivity.
  - specialize (IH (vals ++ [w])). rewrite <- app_assoc, app_length in IH. simpl in IH.
    rewrite Nat.add_1_r in IH. exact IH.
Qed.

Theorem pushbacklist_values s a l o :
  Rep s a -> l < length (a_lists a) -> o < length (a_lists a) ->
  exists s' a', list_PushBackList l o s = Ok s' /\ Rep s' a' /\
    a_seq a' l = a_seq a l ++ seq (fresh a) (length (a_seq a o)) /\
    map (a_val a') (a_seq a' l) = map (a_val a) (a_seq a l) ++ map (a_val a) (a_seq a o) /\
    (forall l', l' <> l -> a_seq a' l' = a_seq a l').
Proof.
  intros R Hl Ho. destruct (nth_error_lt_exists _ _ Hl) as ([r ol] & H).
  destruct (PushBackList_sim _ _ _ _ _ _ R H Ho) as (s' & E & R').
  eexists. eexists. split; [exact E|]. split; [exact R'|].
  assert (Hl' : l < length (a_lists (a_alloc_copies a (a_seq a o)))) by exact Hl.
  assert (Sq : a_seq (a_set (a_alloc_copies a (a_seq a o)) l (a_seq a l ++ copies a (a_seq a o))) l =
               a_seq a l ++ copies a (a_seq a o)).
  { rewrite a_seq_a_set, Nat.eqb_refl; auto. }
  split; [exact Sq|]. split.
  - rewrite Sq, map_app. f_equal.
    + apply map_ext_in. intros x Ix. unfold a_val, a_set, a_alloc_copies; cbn [a_vals].
      apply app_nth1. rewrite <- (Rep_size _ _ R). eapply a_seq_owned_lt; eauto.
    + unfold copies, fresh, a_val, a_set, a_alloc_copies; cbn [a_vals].
      rewrite <- (map_length (fun e => nth e (a_vals a) 0%Z) (a_seq a o)) at 1.
      apply map_a_val_seq.
  - intros l' N. rewrite a_seq_a_set by auto. apply Nat.eqb_neq in N. rewrite N. reflexivity.
Qed.

(* ---- the invariant spelled out for one list, and along covered histories ---- *)
Lemma Rep_wf s a : Rep s a ->
  (forall l r xs, nth_error (a_lists a) l = Some (r, Some xs) ->
     nth_error (lsts s) l = Some (LRec r (Z.of_nat (length xs))) /\
     chain (nx s) (pv s) r xs r /\ NoDup xs /\ ~ In r xs /\ (forall e, ow s e = Some l <-> In e xs)) /\
  (forall l r, nth_error (a_lists a) l = Some (r, None) ->
     nth_error (lsts s) l = Some (LRec r 0) /\ nx s r = None /\ pv s r = None /\ forall e, ow s e <> Some l) /\
  (forall e, ow s e = None -> ~ is_root a e -> nx s e = None /\ pv s e = None).
Proof.
  intro R. split; [|split].
  - intros l r xs H. destruct (Rep_list _ _ _ _ _ R H) as (Hl & _).
    destruct (R_init _ _ R _ _ _ H) as (C & D & O). repeat split; auto.
    + apply (Rep_root_notin _ _ _ _ _ _ _ _ R H H).
    + intro Oe. pose proof (proj1 (Rep_ow_iff _ _ _ _ _ e R H) Oe) as I.
      rewrite (a_seq_nth _ _ _ _ H) in I. exact I.
  - intros l r H. destruct (Rep_list _ _ _ _ _ R H) as (Hl & _).
    destruct (R_uninit _ _ R _ _ H) as [A B]. repeat split; auto.
    intros e Oe. pose proof (proj1 (Rep_ow_iff _ _ _ _ _ e R H) Oe) as I.
    rewrite (a_seq_nth _ _ _ _ H) in I. exact I.
  - apply (R_free _ _ R).
Qed.

Theorem list_wf ops os a h :
  spec_run ops = (os, a, h, true) -> Rep (st (snd (run ops))) a /\ fst (run ops) = os /\ hs (snd (run ops)) = h.
Proof.
  intro E. destruct (list_refines_spec _ _ _ _ E) as (s & -> & R). auto.
Qed.

Theorem list_traversals ops os a h l :
  spec_run ops = (os, a, h, true) -> l < length (a_lists a) ->
  let s := st (snd (run ops)) in
  list_Len s l = Ok (Z.of_nat (length (a_seq a l))) /\
  walk_fwd s l = Ok (a_seq a l) /\ walk_bwd s l = Ok (rev (a_seq a l)).
Proof.
  intros E Hl. destruct (list_refines_spec _ _ _ _ E) as (s & -> & R). cbn [snd st].
  destruct (nth_error_lt_exists _ _ Hl) as ([r o] & H).
  split; [eapply Len_sim; eauto|]. apply walks_sim; auto.
Qed.

Theorem list_neighbours ops os a h e :
  spec_run ops = (os, a, h, true) -> In e h ->
  let s := st (snd (run ops)) in
  elem_Next s (Some e) = Ok (spec_next a e) /\ elem_Prev s (Some e) = Ok (spec_prev a e).
Proof.
  intros E I. unfold spec_run in E.
  destruct (run_from_sim ops _ _ [] _ _ _ Rep_init (fun e (I : In e []) => match I with end) E) as (s & E' & R & HK).
  unfold run, init_rstate. rewrite E'. cbn [snd st]. apply NextPrev_sim; auto.
Qed.

(* a panic in a covered history is always the nil dereference of a nil element argument,
   and the call changed nothing *)
Theorem list_panics ops : forall a h os a' h' i op k,
  spec_run_from a h ops = (os, a', h', true) ->
  nth_error ops i = Some op -> nth_error os i = Some (OPanic k) ->
  k = NilDeref /\ exists a1 h1, nil_arg op h1 = true /\ spec_exec op a1 h1 = (OPanic NilDeref, a1, h1).
Proof.
  induction ops as [|op0 ops IH]; intros a h os a' h' i op k E Hop Hos; [destruct i; discriminate|].
  cbn [spec_run_from] in E.
  destruct (spec_exec op0 a h) as [[o a1] h1] eqn:E1.
  destruct (spec_run_from a1 h1 ops) as [[[os2 a2] h2] ok2] eqn:E2.
  injection E as <- <- <- Eok. apply andb_true_iff in Eok as [_ ->].
  destruct i as [|i]; simpl in Hop, Hos.
  - injection Hop as ->. injection Hos as ->.
    destruct (spec_panic op a h k) as (K & N & S); [rewrite E1; reflexivity|]. eauto.
  - eapply IH; eauto.
Qed.

Theorem list_panics_run ops os a h i op k :
  spec_run ops = (os, a, h, true) ->
  nth_error ops i = Some op -> nth_error (fst (run ops)) i = Some (OPanic k) ->
  k = NilDeref /\ exists a1 h1, nil_arg op h1 = true /\ spec_exec op a1 h1 = (OPanic NilDeref, a1, h1).
Proof.
  intros E Hop Hos. destruct (list_refines_spec _ _ _ _ E) as (s & Er & _). rewrite Er in Hos. cbn [fst] in Hos.
  eapply list_panics; eauto.
Qed.

(* ---- audit round: located panics, PushFrontList values ---- *)
Lemma bind_Ok {A B} (r : result A) (f : A -> result B) b : bind r f = Ok b -> exists a, r = Ok a /\ f a = Ok b.
Proof. destruct r; simpl; [eauto|discriminate]. Qed.

Lemma exec_Ok_not_panic op rs o rs' : exec op rs = Ok (o, rs') -> forall k, o <> OPanic k.
Proof.
  intros E k. unfold exec, ret_ptr, ret_unit in E.
  destruct op;
  repeat match goal with
         | H : (let (_, _) := ?p in _) = Ok _ |- _ => destruct p
         | H : bind _ _ = Ok _ |- _ => apply bind_Ok in H as (? & ? & H)
         | H : (let '(_, _) := ?p in _) = Ok _ |- _ => destruct p
         | x : (_ * _)%type |- _ => destruct x
         end; try (injection E as <- _; discriminate).
Qed.

Lemma spec_run_from_app l1 : forall a h l2,
  spec_run_from a h (l1 ++ l2) =
  let '(os1, a1, h1, ok1) := spec_run_from a h l1 in
  let '(os2, a2, h2, ok2) := spec_run_from a1 h1 l2 in
  (os1 ++ os2, a2, h2, ok1 && ok2).
Proof.
  induction l1 as [|op t IH]; intros a h l2; cbn [app spec_run_from].
  - destruct (spec_run_from a h l2) as [[[os2 a2] h2] ok2]. reflexivity.
  - destruct (spec_exec op a h) as [[o a1] h1]. rewrite IH.
    destruct (spec_run_from a1 h1 t) as [[[os1 a2] h2] ok1].
    destruct (spec_run_from a2 h2 l2) as [[[os2 a3] h3] ok2].
    rewrite andb_assoc. reflexivity.
Qed.

Lemma run_from_app l1 : forall rs l2,
  run_from rs (l1 ++ l2) =
  let (os1, rs1) := run_from rs l1 in
  let (os2, rs2) := run_from rs1 l2 in (os1 ++ os2, rs2).
Proof.
  induction l1 as [|op t IH]; intros rs l2; cbn [app run_from].
  - destruct (run_from rs l2). reflexivity.
  - destruct (step op rs) as [o rs1]. rewrite IH.
    destruct (run_from rs1 t) as [os1 rs2]. destruct (run_from rs2 l2) as [os2 rs3]. reflexivity.
Qed.

Lemma spec_run_from_length ops : forall a h, length (fst (fst (fst (spec_run_from a h ops)))) = length ops.
Proof.
  induction ops as [|op t IH]; intros a h; cbn [spec_run_from]; [reflexivity|].
  destruct (spec_exec op a h) as [[o a1] h1]. specialize (IH a1 h1).
  destruct (spec_run_from a1 h1 t) as [[[os a2] h2] ok]. cbn [fst length] in *. lia.
Qed.

Lemma nth_error_split {A} (l : list A) i x : nth_error l i = Some x ->
  l = firstn i l ++ x :: skipn (S i) l /\ length (firstn i l) = i.
Proof.
  revert i; induction l as [|y t IH]; intros [|i] H; simpl in *; try discriminate.
  - injection H as ->. auto.
  - destruct (IH i H) as [E L]. split; [f_equal; exact E|f_equal; exact L].
Qed.

Lemma panic_state_nil op rs : nil_arg op (hs rs) = true -> panic_state op rs = rs.
Proof. destruct op; cbn [nil_arg panic_state]; try discriminate; reflexivity. Qed.

(* A panic in a covered history, located: in the state the prefix before it has reached, the
   call has a nil element argument, the panic is a nil dereference, and the call changes
   neither the abstract state nor the heap nor the handle table. *)
Theorem list_panics_located ops os a h i op k :
  spec_run ops = (os, a, h, true) ->
  nth_error ops i = Some op -> nth_error (fst (run ops)) i = Some (OPanic k) ->
  exists os1 a1 h1 s1,
    spec_run (firstn i ops) = (os1, a1, h1, true) /\ run (firstn i ops) = (os1, RState s1 h1) /\ Rep s1 a1 /\
    k = NilDeref /\ nil_arg op h1 = true /\
    spec_exec op a1 h1 = (OPanic NilDeref, a1, h1) /\
    step op (RState s1 h1) = (OPanic NilDeref, RState s1 h1).
Proof.
  intros E Hop Hos. destruct (nth_error_split _ _ _ Hop) as [Eops Li].
  set (pre := firstn i ops) in *. set (post := skipn (S i) ops) in *.
  unfold spec_run in E. rewrite Eops, spec_run_from_app in E.
  destruct (spec_run_from init_astate [] pre) as [[[os1 a1] h1] ok1] eqn:E1.
  cbn [spec_run_from] in E.
  destruct (spec_exec op a1 h1) as [[o a2] h2] eqn:Eop.
  destruct (spec_run_from a2 h2 post) as [[[os3 a3] h3] ok3] eqn:E3.
  injection E as _ _ _ Eok. apply andb_true_iff in Eok as [-> Eok]. apply andb_true_iff in Eok as [OK _].
  destruct (run_from_sim pre _ _ [] _ _ _ Rep_init (fun e (I : In e []) => match I with end) E1) as (s1 & Er & R1 & HK1).
  destruct (exec_sim op s1 a1 h1 R1 HK1 OK) as (s' & Es & _ & _). rewrite Eop in Es. cbn [fst snd] in Es.
  (* the output at position i is the output of this step *)
  assert (Lo : length os1 = i).
  { pose proof (spec_run_from_length pre init_astate []) as L. rewrite E1 in L. cbn [fst] in L. lia. }
  unfold run in Hos. rewrite Eops, run_from_app in Hos. fold init_rstate in Er. unfold init_rstate in *. rewrite Er in Hos.
  cbn [run_from] in Hos. rewrite Es in Hos.
  destruct (run_from (RState s' h2) post) as [os4 rs4]. cbn [fst] in Hos.
  rewrite nth_error_app2, Lo, Nat.sub_diag in Hos by lia. cbn in Hos. injection Hos as ->.
  destruct (spec_panic op a1 h1 k) as (-> & N & S); [rewrite Eop; reflexivity|].
  rewrite Eop in S. injection S as -> ->.
  exists os1, a1, h1, s1. unfold spec_run, run, init_rstate. rewrite Er.
  repeat (split; auto).
  unfold step in *. destruct (exec op (RState s1 h1)) as [[o' rs']|k'] eqn:Ex.
  - injection Es as -> _. exfalso. eapply exec_Ok_not_panic; eauto.
  - injection Es as -> _. rewrite panic_state_nil; auto.
Qed.

(* PushFrontList (also of a list onto itself): fresh cells carrying the old values of o, in o's
   order, are placed in front of the old contents; the copy of o's last element is made first,
   so it has the smallest id; no other list changes. *)
Theorem pushfrontlist_values s a l o :
  Rep s a -> l < length (a_lists a) -> o < length (a_lists a) ->
  exists s' a', list_PushFrontList l o s = Ok s' /\ Rep s' a' /\
    a_seq a' l = rev (seq (fresh a) (length (a_seq a o))) ++ a_seq a l /\
    map (a_val a') (a_seq a' l) = map (a_val a) (a_seq a o) ++ map (a_val a) (a_seq a l) /\
    (forall l', l' <> l -> a_seq a' l' = a_seq a l').
Proof.
  intros R Hl Ho. destruct (nth_error_lt_exists _ _ Hl) as ([r ol] & H).
  destruct (PushFrontList_sim _ _ _ _ _ _ R H Ho) as (s' & E & R').
  eexists. eexists. split; [exact E|]. split; [exact R'|].
  assert (Hl' : l < length (a_lists (a_alloc_copies a (rev (a_seq a o))))) by exact Hl.
  assert (Sq : a_seq (a_set (a_alloc_copies a (rev (a_seq a o))) l (rev (copies a (a_seq a o)) ++ a_seq a l)) l =
               rev (copies a (a_seq a o)) ++ a_seq a l).
  { rewrite a_seq_a_set, Nat.eqb_refl; auto. }
  split; [exact Sq|]. split.
  - rewrite Sq, map_app. f_equal.
    + rewrite map_rev. unfold copies, fresh, a_val, a_set, a_alloc_copies; cbn [a_vals].
      rewrite <- (rev_length (a_seq a o)).
      rewrite <- (map_length (fun e => nth e (a_vals a) 0%Z) (rev (a_seq a o))).
      rewrite map_a_val_seq, map_rev, rev_involutive. reflexivity.
    + apply map_ext_in. intros x Ix. unfold a_val, a_set, a_alloc_copies; cbn [a_vals].
      apply app_nth1. rewrite <- (Rep_size _ _ R). eapply a_seq_owned_lt; eauto.
  - intros l' N. rewrite a_seq_a_set by auto. apply Nat.eqb_neq in N. rewrite N. reflexivity.
Qed.
