(* Proofs about the model of lists.List (Lists/ListModel.v).
   Part A: the heap seen as functions (next, prev, owner of a cell) and the
            effect of every primitive read / write on them.
   Part B: doubly linked chains over such functions (pure).
   Part C: the representation invariant [Rep] and its preservation. *)
From Typ Require Import Lib.Base Lists.Heap Lists.ListModel.

(* ================= Part A: projections and primitive effects ================= *)

Definition size (s : state) : nat := length (elems s).

Definition proj {A} (g : elem -> A) (d : A) (s : state) (j : nat) : A :=
  match nth_error (elems s) j with Some c => g c | None => d end.

Definition nx := proj e_next None.
Definition pv := proj e_prev None.
Definition ow := proj e_list None.
Definition vl := proj e_val 0%Z.

Definition upd {A} (f : nat -> A) (i : nat) (v : A) : nat -> A :=
  fun j => if Nat.eqb j i then v else f j.

Fixpoint map_nth {C} (f : C -> C) (i : nat) (h : list C) : list C :=
  match h, i with
  | [], _ => []
  | x :: t, O => f x :: t
  | x :: t, S i' => x :: map_nth f i' t
  end.

Lemma length_map_nth {C} (f : C -> C) i h : length (map_nth f i h) = length h.
Proof. revert i; induction h as [|x t IH]; intros [|i]; simpl; auto. Qed.

Lemma nth_error_map_nth {C} (f : C -> C) i h j :
  nth_error (map_nth f i h) j =
  if Nat.eqb j i then option_map f (nth_error h i) else nth_error h j.
Proof.
  revert i j; induction h as [|x t IH]; intros [|i] [|j]; simpl; auto.
  destruct (Nat.eqb j i); reflexivity.
Qed.

Lemma replace_nth_map_nth {C} (f : C -> C) i h c :
  nth_error h i = Some c -> replace_nth i (f c) h = map_nth f i h.
Proof.
  revert i; induction h as [|x t IH]; intros [|i] H; simpl in *; try discriminate.
  - congruence.
  - f_equal; auto.
Qed.

Definition st_upd (f : elem -> elem) (s : state) (i : nat) : state :=
  State (map_nth f i (elems s)) (lsts s).
Definition st_len (s : state) (l : nat) (z : Z) : state :=
  State (elems s) (map_nth (fun r => LRec (l_root r) z) l (lsts s)).
Definition st_alloc (s : state) (c : elem) : state := State (elems s ++ [c]) (lsts s).

Lemma wr_eq f s i : i < size s -> wr f s (Some i) = Ok (st_upd f s i).
Proof.
  intro H. unfold wr, hupd, st_upd, size in *.
  destruct (nth_error (elems s) i) as [c|] eqn:E.
  - cbn [bind]. rewrite (replace_nth_map_nth f i _ c E). reflexivity.
  - apply nth_error_None in E. lia.
Qed.

Lemma rd_eq {A} (g : elem -> A) d s i : i < size s -> rd g s (Some i) = Ok (proj g d s i).
Proof.
  intro H. unfold rd, hget, proj, size in *.
  destruct (nth_error (elems s) i) as [c|] eqn:E; [reflexivity|].
  apply nth_error_None in E. lia.
Qed.

Lemma rd_nil {A} (g : elem -> A) s : rd g s None = Panic NilDeref.
Proof. reflexivity. Qed.
Lemma wr_nil f s : wr f s None = Panic NilDeref.
Proof. reflexivity. Qed.

Lemma size_st_upd f s i : size (st_upd f s i) = size s.
Proof. apply length_map_nth. Qed.
Lemma size_st_len s l z : size (st_len s l z) = size s.
Proof. reflexivity. Qed.
Lemma size_st_alloc s c : size (st_alloc s c) = S (size s).
Proof. unfold size, st_alloc; simpl. rewrite app_length; simpl; lia. Qed.

Lemma lsts_st_upd f s i : lsts (st_upd f s i) = lsts s.
Proof. reflexivity. Qed.
Lemma lsts_st_alloc s c : lsts (st_alloc s c) = lsts s.
Proof. reflexivity. Qed.

Lemma proj_st_upd {A} (g : elem -> A) d f s i j :
  proj g d (st_upd f s i) j =
  if Nat.eqb j i then match nth_error (elems s) i with Some c => g (f c) | None => d end
  else proj g d s j.
Proof.
  unfold proj, st_upd; cbn [elems]. rewrite nth_error_map_nth.
  destruct (Nat.eqb_spec j i) as [->|]; [|reflexivity].
  destruct (nth_error (elems s) i); reflexivity.
Qed.

Lemma proj_st_len {A} (g : elem -> A) d s l z j : proj g d (st_len s l z) j = proj g d s j.
Proof. reflexivity. Qed.

Lemma proj_st_alloc {A} (g : elem -> A) d s c j :
  proj g d (st_alloc s c) j = if Nat.eqb j (size s) then g c else proj g d s j.
Proof. unfold proj, st_alloc, size; cbn [elems]. rewrite nth_error_alloc. destruct (Nat.eqb j (length (elems s))); reflexivity. Qed.

Lemma proj_out {A} (g : elem -> A) d s j : size s <= j -> proj g d s j = d.
Proof. intro H. unfold proj. rewrite (proj2 (nth_error_None _ _)); auto. Qed.

Lemma proj_in {A} (g : elem -> A) d s j : proj g d s j <> d -> j < size s.
Proof.
  intro H. destruct (Nat.lt_ge_cases j (size s)); auto.
  exfalso; apply H, proj_out; auto.
Qed.

(* the nine field/projection combinations, as rewrite rules (side condition i < size s) *)
Section UpdRules.
Variables (s : state) (i j : nat) (v : ptr).
Hypothesis Hi : i < size s.

Local Ltac t := unfold nx, pv, ow, vl, upd; rewrite proj_st_upd;
  let c := fresh in let E := fresh in
  destruct (nth_error (elems s) i) as [c|] eqn:E;
  [ unfold proj; destruct (Nat.eqb_spec j i) as [->|]; [rewrite ?E|]; reflexivity
  | apply nth_error_None in E; unfold size in Hi; lia ].

Lemma nx_set_next : nx (st_upd (set_next v) s i) j = upd (nx s) i v j. Proof. t. Qed.
Lemma pv_set_next : pv (st_upd (set_next v) s i) j = pv s j. Proof. t. Qed.
Lemma ow_set_next : ow (st_upd (set_next v) s i) j = ow s j. Proof. t. Qed.
Lemma vl_set_next : vl (st_upd (set_next v) s i) j = vl s j. Proof. t. Qed.
Lemma nx_set_prev : nx (st_upd (set_prev v) s i) j = nx s j. Proof. t. Qed.
Lemma pv_set_prev : pv (st_upd (set_prev v) s i) j = upd (pv s) i v j. Proof. t. Qed.
Lemma ow_set_prev : ow (st_upd (set_prev v) s i) j = ow s j. Proof. t. Qed.
Lemma vl_set_prev : vl (st_upd (set_prev v) s i) j = vl s j. Proof. t. Qed.
Lemma nx_set_list : nx (st_upd (set_list v) s i) j = nx s j. Proof. t. Qed.
Lemma pv_set_list : pv (st_upd (set_list v) s i) j = pv s j. Proof. t. Qed.
Lemma ow_set_list : ow (st_upd (set_list v) s i) j = upd (ow s) i v j. Proof. t. Qed.
Lemma vl_set_list : vl (st_upd (set_list v) s i) j = vl s j. Proof. t. Qed.
End UpdRules.

(* ================= Part B: doubly linked chains (pure) ================= *)

(* a -> x1 -> ... -> xn -> b linked both ways; the list of a List is [chain root xs root] *)
Fixpoint chain (nx pv : nat -> ptr) (a : nat) (xs : list nat) (b : nat) : Prop :=
  match xs with
  | [] => nx a = Some b /\ pv b = Some a
  | x :: t => nx a = Some x /\ pv x = Some a /\ chain nx pv x t b
  end.

Ltac upd_tac :=
  unfold upd in *;
  repeat match goal with
         | |- context[Nat.eqb ?x ?y] => destruct (Nat.eqb_spec x y)
         | H : context[Nat.eqb ?x ?y] |- _ => destruct (Nat.eqb_spec x y)
         end; subst; try congruence; try tauto.

Lemma chain_app nx pv a xs y ys b :
  chain nx pv a (xs ++ y :: ys) b <-> chain nx pv a xs y /\ chain nx pv y ys b.
Proof.
  revert a; induction xs as [|x t IH]; intro a; simpl.
  - tauto.
  - rewrite IH. tauto.
Qed.

Lemma chain_snoc nx pv a xs y b :
  chain nx pv a (xs ++ [y]) b <-> chain nx pv a xs y /\ nx y = Some b /\ pv b = Some y.
Proof. rewrite chain_app. simpl. tauto. Qed.

Lemma chain_frame nx pv nx' pv' a xs b :
  (forall x, x = a \/ In x xs -> nx' x = nx x) ->
  (forall x, In x xs \/ x = b -> pv' x = pv x) ->
  chain nx pv a xs b -> chain nx' pv' a xs b.
Proof.
  revert a; induction xs as [|x t IH]; intros a Hn Hp; simpl.
  - intros [H1 H2]. rewrite Hn, Hp; auto.
  - intros (H1 & H2 & H3). rewrite Hn, Hp by (simpl; auto). repeat split; auto.
    apply IH; auto.
    + intros y [->|Hy]; apply Hn; simpl; auto.
    + intros y [Hy| ->]; apply Hp; simpl; auto.
Qed.

Lemma chain_first nx pv a xs b : chain nx pv a xs b -> nx a = Some (hd b xs).
Proof. destruct xs; simpl; tauto. Qed.

Lemma chain_last nx pv a xs b : chain nx pv a xs b -> pv b = Some (last xs a).
Proof.
  revert a; induction xs as [|x t IH]; intro a; simpl.
  - tauto.
  - intros (_ & _ & H). rewrite (IH _ H). destruct t; reflexivity.
Qed.

Lemma chain_at nx pv a pre e post b :
  chain nx pv a (pre ++ e :: post) b -> nx e = Some (hd b post) /\ pv e = Some (last pre a).
Proof.
  rewrite chain_app. intros [H1 H2]. split.
  - eapply chain_first; eauto.
  - eapply chain_last; eauto.
Qed.

Lemma hd_in_or {A} (b : A) l : hd b l = b /\ l = [] \/ In (hd b l) l.
Proof. destruct l; simpl; auto. Qed.

Lemma last_in_or {A} (a : A) l : last l a = a /\ l = [] \/ In (last l a) l.
Proof.
  induction l as [|x t IH]; auto. right.
  destruct t as [|y t']; [simpl; auto|].
  destruct IH as [[_ E]|IH]; [discriminate|].
  change (last (x :: y :: t') a) with (last (y :: t') a). simpl In in *. tauto.
Qed.

(* e.prev = a; e.next = a.next; e.prev.next = e; e.next.prev = e *)
Lemma chain_link nx pv a post b e :
  chain nx pv a post b -> e <> a -> e <> b -> ~ In e post -> ~ In a post -> ~ In b post -> NoDup post ->
  chain (upd (upd nx e (Some (hd b post))) a (Some e))
        (upd (upd pv e (Some a)) (hd b post) (Some e)) a (e :: post) b.
Proof.
  intros H Nea Neb Nep Nap Nbp ND.
  destruct post as [|x t]; simpl in *.
  - destruct H as [H1 H2]. repeat split; upd_tac.
  - destruct H as (H1 & H2 & H3). repeat split; try solve [upd_tac].
    inversion ND; subst.
    eapply chain_frame; [| |exact H3].
    + intros y Hy. upd_tac; tauto.
    + intros y Hy. upd_tac; tauto.
Qed.

(* e.prev.next = e.next; e.next.prev = e.prev *)
Lemma chain_unlink nx pv a pre e post b :
  chain nx pv a (pre ++ e :: post) b -> NoDup (a :: pre ++ e :: post) -> ~ In b (pre ++ e :: post) ->
  chain (upd nx (last pre a) (Some (hd b post))) (upd pv (hd b post) (Some (last pre a))) a (pre ++ post) b.
Proof.
  revert a; induction pre as [|x t IH]; intros a H ND Nb.
  - simpl in *. destruct H as (H1 & H2 & H3).
    inversion ND as [|? ? Na ND1]; subst. inversion ND1 as [|? ? Ne ND2]; subst.
    destruct post as [|y u]; simpl in *.
    + destruct H3 as [H3 H4]. split; upd_tac.
    + destruct H3 as (H3 & H4 & H5). repeat split; try solve [upd_tac].
      inversion ND2; subst.
      eapply chain_frame; [| |exact H5].
      * intros z Hz. upd_tac; tauto.
      * intros z Hz. upd_tac; tauto.
  - change ((x :: t) ++ e :: post) with (x :: (t ++ e :: post)) in *.
    change ((x :: t) ++ post) with (x :: (t ++ post)).
    cbn [chain] in H. destruct H as (H1 & H2 & H3).
    inversion ND as [|? ? Na ND1]; subst.
    assert (L : last (x :: t) a = last t x) by (clear; revert x; induction t; intros; simpl in *; auto; destruct t; auto).
    rewrite L.
    cbn [chain]. specialize (IH x H3 ND1).
    assert (Nb' : ~ In b (t ++ e :: post)) by (intro; apply Nb; simpl; auto).
    specialize (IH Nb').
    repeat split; auto.
    + (* nx a unchanged: a <> last t x *)
      unfold upd. destruct (Nat.eqb_spec a (last t x)) as [E|]; auto.
      exfalso. apply Na. rewrite E.
      destruct (last_in_or x t) as [[E1 _]|I]; [rewrite E1; simpl; auto|].
      simpl. right. apply in_or_app. auto.
    + (* pv x unchanged: x <> hd b post *)
      unfold upd. destruct (Nat.eqb_spec x (hd b post)) as [E|]; auto.
      exfalso. destruct (hd_in_or b post) as [[E1 _]|I].
      * apply Nb. rewrite <- E1, <- E. simpl; auto.
      * inversion ND1 as [|? ? Nx _]; subst. apply Nx. rewrite E. apply in_or_app. simpl; auto.
Qed.
