(* Proofs about the model of lists.List (Lists/ListModel.v).
   Part A: the heap seen as functions (next, prev, owner of a cell) and the
            effect of every primitive read / write on them.
   Part B: doubly linked chains over such functions (pure).
   Part C: the representation invariant [Rep] and its preservation. *)
From Typ Require Import Lib.Base Lists.Heap Lists.ListModel Lists.ListSpec.

(* ================= Part A: projections and primitive effects ================= *)

Definition size (s : state) : nat := length (elems s).

Definition proj {A} (g : elem -> A) (d : A) (s : state) (j : nat) : A :=
  match nth_error (elems s) j with Some c => g c | None => d end.

Definition nx := proj e_next None.
Definition pv := proj e_prev None.
Definition ow := proj e_list None.
Definition vl := proj e_val 0%Z.

Definition upd {A} (f : nat -> A) (i : nat) (v : A) : nat -> A :=
  fun j => if Nat.eqb j i then v else f j.

Definition st_upd (f : elem -> elem) (s : state) (i : nat) : state :=
  State (map_nth f i (elems s)) (lsts s).
Definition st_len (s : state) (l : nat) (z : Z) : state :=
  State (elems s) (map_nth (fun r => LRec (l_root r) z) l (lsts s)).
Definition st_alloc (s : state) (c : elem) : state := State (elems s ++ [c]) (lsts s).

Lemma wr_eq f s i : i < size s -> wr f s (Some i) = Ok (st_upd f s i).
Proof.
  intro H. unfold wr, hupd, st_upd, size in *.
  destruct (nth_error (elems s) i) as [c|] eqn:E.
  - cbn [bind]. rewrite (replace_nth_map_nth f i _ c E). reflexivity.
  - apply nth_error_None in E. lia.
Qed.

Lemma rd_eq {A} (g : elem -> A) d s i : i < size s -> rd g s (Some i) = Ok (proj g d s i).
Proof.
  intro H. unfold rd, hget, proj, size in *.
  destruct (nth_error (elems s) i) as [c|] eqn:E; [reflexivity|].
  apply nth_error_None in E. lia.
Qed.

Lemma rd_nil {A} (g : elem -> A) s : rd g s None = Panic NilDeref.
Proof. reflexivity. Qed.
Lemma wr_nil f s : wr f s None = Panic NilDeref.
Proof. reflexivity. Qed.

Lemma size_st_upd f s i : size (st_upd f s i) = size s.
Proof. apply length_map_nth. Qed.
Lemma size_st_len s l z : size (st_len s l z) = size s.
Proof. reflexivity. Qed.
Lemma size_st_alloc s c : size (st_alloc s c) = S (size s).
Proof. unfold size, st_alloc; simpl. rewrite app_length; simpl; lia. Qed.

Lemma lsts_st_upd f s i : lsts (st_upd f s i) = lsts s.
Proof. reflexivity. Qed.
Lemma lsts_st_alloc s c : lsts (st_alloc s c) = lsts s.
Proof. reflexivity. Qed.

Lemma proj_st_upd {A} (g : elem -> A) d f s i j :
  proj g d (st_upd f s i) j =
  if Nat.eqb j i then match nth_error (elems s) i with Some c => g (f c) | None => d end
  else proj g d s j.
Proof.
  unfold proj, st_upd; cbn [elems]. rewrite nth_error_map_nth.
  destruct (Nat.eqb_spec j i) as [->|]; [|reflexivity].
  destruct (nth_error (elems s) i); reflexivity.
Qed.

Lemma proj_st_len {A} (g : elem -> A) d s l z j : proj g d (st_len s l z) j = proj g d s j.
Proof. reflexivity. Qed.

Lemma proj_st_alloc {A} (g : elem -> A) d s c j :
  proj g d (st_alloc s c) j = if Nat.eqb j (size s) then g c else proj g d s j.
Proof. unfold proj, st_alloc, size; cbn [elems]. rewrite nth_error_alloc. destruct (Nat.eqb j (length (elems s))); reflexivity. Qed.

Lemma proj_out {A} (g : elem -> A) d s j : size s <= j -> proj g d s j = d.
Proof. intro H. unfold proj. rewrite (proj2 (nth_error_None _ _)); auto. Qed.

Lemma proj_in {A} (g : elem -> A) d s j : proj g d s j <> d -> j < size s.
Proof.
  intro H. destruct (Nat.lt_ge_cases j (size s)); auto.
  exfalso; apply H, proj_out; auto.
Qed.

(* the nine field/projection combinations, as rewrite rules (side condition i < size s) *)
Section UpdRules.
Variables (s : state) (i j : nat) (v : ptr).
Hypothesis Hi : i < size s.

Local Ltac t := unfold nx, pv, ow, vl, upd; rewrite proj_st_upd;
  let c := fresh in let E := fresh in
  destruct (nth_error (elems s) i) as [c|] eqn:E;
  [ unfold proj; destruct (Nat.eqb_spec j i) as [->|]; [rewrite ?E|]; reflexivity
  | apply nth_error_None in E; unfold size in Hi; lia ].

Lemma nx_set_next : nx (st_upd (set_next v) s i) j = if Nat.eqb j i then v else nx s j. Proof. t. Qed.
Lemma pv_set_next : pv (st_upd (set_next v) s i) j = pv s j. Proof. t. Qed.
Lemma ow_set_next : ow (st_upd (set_next v) s i) j = ow s j. Proof. t. Qed.
Lemma vl_set_next : vl (st_upd (set_next v) s i) j = vl s j. Proof. t. Qed.
Lemma nx_set_prev : nx (st_upd (set_prev v) s i) j = nx s j. Proof. t. Qed.
Lemma pv_set_prev : pv (st_upd (set_prev v) s i) j = if Nat.eqb j i then v else pv s j. Proof. t. Qed.
Lemma ow_set_prev : ow (st_upd (set_prev v) s i) j = ow s j. Proof. t. Qed.
Lemma vl_set_prev : vl (st_upd (set_prev v) s i) j = vl s j. Proof. t. Qed.
Lemma nx_set_list : nx (st_upd (set_list v) s i) j = nx s j. Proof. t. Qed.
Lemma pv_set_list : pv (st_upd (set_list v) s i) j = pv s j. Proof. t. Qed.
Lemma ow_set_list : ow (st_upd (set_list v) s i) j = if Nat.eqb j i then v else ow s j. Proof. t. Qed.
Lemma vl_set_list : vl (st_upd (set_list v) s i) j = vl s j. Proof. t. Qed.
End UpdRules.

(* ================= Part B: doubly linked chains (pure) ================= *)

(* a -> x1 -> ... -> xn -> b linked both ways; the list of a List is [chain root xs root] *)
Fixpoint chain (nx pv : nat -> ptr) (a : nat) (xs : list nat) (b : nat) : Prop :=
  match xs with
  | [] => nx a = Some b /\ pv b = Some a
  | x :: t => nx a = Some x /\ pv x = Some a /\ chain nx pv x t b
  end.

Ltac upd_tac :=
  unfold upd in *;
  repeat match goal with
         | |- context[Nat.eqb ?x ?y] => destruct (Nat.eqb_spec x y)
         | H : context[Nat.eqb ?x ?y] |- _ => destruct (Nat.eqb_spec x y)
         end; subst; try congruence; try tauto; try solve [intuition congruence].

Lemma chain_app nx pv a xs y ys b :
  chain nx pv a (xs ++ y :: ys) b <-> chain nx pv a xs y /\ chain nx pv y ys b.
Proof.
  revert a; induction xs as [|x t IH]; intro a; simpl.
  - tauto.
  - rewrite IH. tauto.
Qed.

Lemma chain_snoc nx pv a xs y b :
  chain nx pv a (xs ++ [y]) b <-> chain nx pv a xs y /\ nx y = Some b /\ pv b = Some y.
Proof. rewrite chain_app. simpl. tauto. Qed.

Lemma chain_frame nx pv nx' pv' a xs b :
  (forall x, x = a \/ In x xs -> nx' x = nx x) ->
  (forall x, In x xs \/ x = b -> pv' x = pv x) ->
  chain nx pv a xs b -> chain nx' pv' a xs b.
Proof.
  revert a; induction xs as [|x t IH]; intros a Hn Hp; simpl.
  - intros [H1 H2]. rewrite Hn, Hp; auto.
  - intros (H1 & H2 & H3). rewrite Hn, Hp by (simpl; auto). repeat split; auto.
    apply IH; auto.
    + intros y [->|Hy]; apply Hn; simpl; auto.
    + intros y [Hy| ->]; apply Hp; simpl; auto.
Qed.

Lemma chain_first nx pv a xs b : chain nx pv a xs b -> nx a = Some (hd b xs).
Proof. destruct xs; simpl; tauto. Qed.

Lemma last_cons {A} (x a : A) t : last (x :: t) a = last t x.
Proof. revert x a; induction t as [|y u IH]; intros x a; [reflexivity|]. change (last (x :: y :: u) a) with (last (y :: u) a). rewrite !IH. reflexivity. Qed.

Lemma chain_last nx pv a xs b : chain nx pv a xs b -> pv b = Some (last xs a).
Proof.
  revert a; induction xs as [|x t IH]; intro a.
  - simpl. tauto.
  - intros (_ & _ & H). rewrite (IH _ H), last_cons. reflexivity.
Qed.

Lemma chain_at nx pv a pre e post b :
  chain nx pv a (pre ++ e :: post) b -> nx e = Some (hd b post) /\ pv e = Some (last pre a).
Proof.
  rewrite chain_app. intros [H1 H2]. split.
  - eapply chain_first; eauto.
  - eapply chain_last; eauto.
Qed.

Lemma hd_in_or {A} (b : A) l : hd b l = b /\ l = [] \/ In (hd b l) l.
Proof. destruct l; simpl; auto. Qed.

Lemma last_in_or {A} (a : A) l : last l a = a /\ l = [] \/ In (last l a) l.
Proof.
  induction l as [|x t IH]; auto. right.
  destruct t as [|y t']; [simpl; auto|].
  destruct IH as [[_ E]|IH]; [discriminate|].
  change (last (x :: y :: t') a) with (last (y :: t') a). simpl In in *. tauto.
Qed.

(* e.prev = a; e.next = a.next; e.prev.next = e; e.next.prev = e *)
Lemma chain_link nx pv a post b e :
  chain nx pv a post b -> e <> a -> e <> b -> ~ In e post -> ~ In a post -> ~ In b post -> NoDup post ->
  chain (upd (upd nx e (Some (hd b post))) a (Some e))
        (upd (upd pv e (Some a)) (hd b post) (Some e)) a (e :: post) b.
Proof.
  intros H Nea Neb Nep Nap Nbp ND.
  destruct post as [|x t]; simpl in *.
  - destruct H as [H1 H2]. repeat split; upd_tac.
  - destruct H as (H1 & H2 & H3). repeat split; try solve [upd_tac].
    inversion ND; subst.
    eapply chain_frame; [| |exact H3].
    + intros y Hy. upd_tac; tauto.
    + intros y Hy. upd_tac; tauto.
Qed.

(* e.prev.next = e.next; e.next.prev = e.prev *)
Lemma chain_unlink nx pv a pre e post b :
  chain nx pv a (pre ++ e :: post) b -> NoDup (a :: pre ++ e :: post) -> ~ In b (pre ++ e :: post) ->
  chain (upd nx (last pre a) (Some (hd b post))) (upd pv (hd b post) (Some (last pre a))) a (pre ++ post) b.
Proof.
  revert a; induction pre as [|x t IH]; intros a H ND Nb.
  - simpl in *. destruct H as (H1 & H2 & H3).
    inversion ND as [|? ? Na ND1]; subst. inversion ND1 as [|? ? Ne ND2]; subst.
    destruct post as [|y u]; simpl in *.
    + destruct H3 as [H3 H4]. split; upd_tac.
    + destruct H3 as (H3 & H4 & H5). repeat split; try solve [upd_tac].
      inversion ND2; subst.
      eapply chain_frame; [| |exact H5].
      * intros z Hz. upd_tac; tauto.
      * intros z Hz. upd_tac; tauto.
  - change ((x :: t) ++ e :: post) with (x :: (t ++ e :: post)) in *.
    change ((x :: t) ++ post) with (x :: (t ++ post)).
    cbn [chain] in H. destruct H as (H1 & H2 & H3).
    inversion ND as [|? ? Na ND1]; subst.
    rewrite last_cons.
    cbn [chain]. specialize (IH x H3 ND1).
    assert (Nb' : ~ In b (t ++ e :: post)) by (intro; apply Nb; simpl; auto).
    specialize (IH Nb').
    repeat split; auto.
    + (* nx a unchanged: a <> last t x *)
      unfold upd. destruct (Nat.eqb_spec a (last t x)) as [E|]; auto.
      exfalso. apply Na. rewrite E.
      destruct (last_in_or x t) as [[E1 _]|I]; [rewrite E1; simpl; auto|].
      simpl. right. apply in_or_app. auto.
    + (* pv x unchanged: x <> hd b post *)
      unfold upd. destruct (Nat.eqb_spec x (hd b post)) as [E|]; auto.
      exfalso. destruct (hd_in_or b post) as [[E1 _]|I].
      * apply Nb. rewrite <- E1, <- E. simpl; auto.
      * apply NoDup_cons_iff in ND1 as [Nx _]. apply Nx. rewrite E. apply in_or_app. simpl; auto.
Qed.

(* ================= Part A': symbolic execution of the model ================= *)

Lemma rd_next_eq s i : i < size s -> rd e_next s (Some i) = Ok (nx s i).
Proof. apply rd_eq. Qed.
Lemma rd_prev_eq s i : i < size s -> rd e_prev s (Some i) = Ok (pv s i).
Proof. apply rd_eq. Qed.
Lemma rd_list_eq s i : i < size s -> rd e_list s (Some i) = Ok (ow s i).
Proof. apply rd_eq. Qed.
Lemma rd_val_eq s i : i < size s -> rd e_val s (Some i) = Ok (vl s i).
Proof. apply rd_eq. Qed.

Ltac size_tac :=
  rewrite ?size_st_upd, ?size_st_len, ?size_st_alloc; first [assumption | lia].

#[export] Hint Rewrite size_st_upd size_st_len size_st_alloc lsts_st_upd lsts_st_alloc : heap.
#[export] Hint Rewrite nx_set_next pv_set_next ow_set_next vl_set_next
     nx_set_prev pv_set_prev ow_set_prev vl_set_prev
     nx_set_list pv_set_list ow_set_list vl_set_list using size_tac : heap.

Lemma upd_same {A} (f : nat -> A) i v : upd f i v i = v.
Proof. unfold upd. rewrite Nat.eqb_refl. reflexivity. Qed.
Lemma upd_other {A} (f : nat -> A) i v j : j <> i -> upd f i v j = f j.
Proof. intro H. unfold upd. apply Nat.eqb_neq in H. rewrite H. reflexivity. Qed.

(* one Go statement: a field read or write through a non-nil pointer *)
Ltac hstep :=
  first [ rewrite wr_eq by size_tac
        | rewrite rd_next_eq by size_tac
        | rewrite rd_prev_eq by size_tac
        | rewrite rd_list_eq by size_tac
        | rewrite rd_val_eq by size_tac ];
  cbn [bind].

Ltac hnorm := autorewrite with heap; rewrite ?Nat.eqb_refl;
  repeat match goal with
         | |- context[Nat.eqb ?x ?y] =>
             first [ rewrite (proj2 (Nat.eqb_neq x y)) by congruence
                   | rewrite (proj2 (Nat.eqb_eq x y)) by congruence ]
         end.

(* link e after a (n0 = a.next): e.prev = a; e.next = a.next; e.prev.next = e; e.next.prev = e *)
Definition st_link (s : state) (e a n0 : nat) : state :=
  st_upd (set_prev (Some e))
    (st_upd (set_next (Some e))
       (st_upd (set_next (Some n0))
          (st_upd (set_prev (Some a)) s e) e) a) n0.

Section Link.
Variables (s : state) (e a n0 : nat).
Hypotheses (He : e < size s) (Ha : a < size s) (Hn : n0 < size s).

Lemma size_st_link : size (st_link s e a n0) = size s.
Proof. unfold st_link, upd. now autorewrite with heap. Qed.
Lemma lsts_st_link : lsts (st_link s e a n0) = lsts s.
Proof. reflexivity. Qed.
Lemma nx_st_link j : nx (st_link s e a n0) j = upd (upd (nx s) e (Some n0)) a (Some e) j.
Proof. unfold st_link, upd. now autorewrite with heap. Qed.
Lemma pv_st_link j : pv (st_link s e a n0) j = upd (upd (pv s) e (Some a)) n0 (Some e) j.
Proof. unfold st_link, upd. now autorewrite with heap. Qed.
Lemma ow_st_link j : ow (st_link s e a n0) j = ow s j.
Proof. unfold st_link, upd. now autorewrite with heap. Qed.
Lemma vl_st_link j : vl (st_link s e a n0) j = vl s j.
Proof. unfold st_link, upd. now autorewrite with heap. Qed.
End Link.

(* unlink e (p = e.prev, n = e.next): e.prev.next = e.next; e.next.prev = e.prev *)
Definition st_unlink (s : state) (p n : nat) : state :=
  st_upd (set_prev (Some p)) (st_upd (set_next (Some n)) s p) n.

Section Unlink.
Variables (s : state) (p n : nat).
Hypotheses (Hp : p < size s) (Hn : n < size s).
Lemma size_st_unlink : size (st_unlink s p n) = size s.
Proof. unfold st_unlink, upd. now autorewrite with heap. Qed.
Lemma lsts_st_unlink : lsts (st_unlink s p n) = lsts s.
Proof. reflexivity. Qed.
Lemma nx_st_unlink j : nx (st_unlink s p n) j = upd (nx s) p (Some n) j.
Proof. unfold st_unlink, upd. now autorewrite with heap. Qed.
Lemma pv_st_unlink j : pv (st_unlink s p n) j = upd (pv s) n (Some p) j.
Proof. unfold st_unlink, upd. now autorewrite with heap. Qed.
Lemma ow_st_unlink j : ow (st_unlink s p n) j = ow s j.
Proof. unfold st_unlink, upd. now autorewrite with heap. Qed.
Lemma vl_st_unlink j : vl (st_unlink s p n) j = vl s j.
Proof. unfold st_unlink, upd. now autorewrite with heap. Qed.
End Unlink.

(* l.len = z *)
Lemma set_len_eq s l z : l < length (lsts s) -> set_len s l z = Ok (st_len s l z).
Proof.
  intro H. unfold set_len, hupd, st_len.
  destruct (nth_error (lsts s) l) as [r|] eqn:E.
  - cbn [bind]. rewrite (replace_nth_map_nth (fun r => LRec (l_root r) z) l _ r E). reflexivity.
  - apply nth_error_None in E. lia.
Qed.

Lemma root_of_eq s l r z : nth_error (lsts s) l = Some (LRec r z) -> root_of s l = Ok (Some r).
Proof. intro H. unfold root_of, hget. rewrite H. reflexivity. Qed.
Lemma len_of_eq s l r z : nth_error (lsts s) l = Some (LRec r z) -> len_of s l = Ok z.
Proof. intro H. unfold len_of, hget. rewrite H. reflexivity. Qed.

Lemma lsts_st_len s l z j :
  nth_error (lsts (st_len s l z)) j =
  if Nat.eqb j l then option_map (fun r => LRec (l_root r) z) (nth_error (lsts s) l) else nth_error (lsts s) j.
Proof. unfold st_len; cbn [lsts]. apply nth_error_map_nth. Qed.

(* the four linking statements of insert / move *)
Lemma link_exec s e a n0 (k : state -> result state) :
  e < size s -> a < size s -> n0 < size s -> e <> a -> nx s a = Some n0 ->
  (do s <- wr (set_prev (Some a)) s (Some e);
   do n <- rd e_next s (Some a);
   do s <- wr (set_next n) s (Some e);
   do p <- rd e_prev s (Some e);
   do s <- wr (set_next (Some e)) s p;
   do n <- rd e_next s (Some e);
   do s <- wr (set_prev (Some e)) s n;
   k s) = k (st_link s e a n0).
Proof.
  intros He Ha Hn Nea E.
  hstep. hstep. hnorm. rewrite E. hstep. hstep. hnorm. hstep. hstep. hnorm. hstep.
  reflexivity.
Qed.

(* ================= Part C: the representation invariant ================= *)

Definition alen (o : option (list nat)) : Z :=
  match o with None => 0%Z | Some xs => Z.of_nat (length xs) end.
Definition is_root (a : astate) (e : nat) : Prop := In e (map fst (a_lists a)).

(* [Rep s a]: the heap s represents the abstract state a.
   - every list record points to its sentinel cell and stores the length of its sequence;
   - sentinels are distinct cells that belong to no list;
   - a zero-value list has nil links in its sentinel;
   - an initialised list is a chain sentinel -> xs -> sentinel linked both ways, xs has no
     repetition, and exactly the members of xs have Element.list = this list;
   - a cell that is in no list (removed, or never inserted) and is no sentinel has nil links. *)
Record Rep (s : state) (a : astate) : Prop := {
  R_vals : size s = length (a_vals a) /\ forall j, j < size s -> nth_error (a_vals a) j = Some (vl s j);
  R_lsts : length (lsts s) = length (a_lists a) /\
           forall l r o, nth_error (a_lists a) l = Some (r, o) -> nth_error (lsts s) l = Some (LRec r (alen o));
  R_roots : NoDup (map fst (a_lists a)) /\ forall e, is_root a e -> e < size s /\ ow s e = None;
  R_uninit : forall l r, nth_error (a_lists a) l = Some (r, None) -> nx s r = None /\ pv s r = None;
  R_init : forall l r xs, nth_error (a_lists a) l = Some (r, Some xs) ->
           chain (nx s) (pv s) r xs r /\ NoDup xs /\ forall e, In e xs -> ow s e = Some l;
  R_own : forall e l, ow s e = Some l -> exists r xs, nth_error (a_lists a) l = Some (r, Some xs) /\ In e xs;
  R_free : forall e, ow s e = None -> ~ is_root a e -> nx s e = None /\ pv s e = None
}.

Lemma ow_lt s e l : ow s e = Some l -> e < size s.
Proof. intro H. apply (proj_in e_list None). unfold ow in H. congruence. Qed.

Lemma nth_error_is_root a l r o : nth_error (a_lists a) l = Some (r, o) -> is_root a r.
Proof. intro H. unfold is_root. apply nth_error_In in H. apply (in_map fst) in H. exact H. Qed.

Lemma Rep_root_notin s a l r xs l' r' o' :
  Rep s a -> nth_error (a_lists a) l = Some (r, Some xs) -> nth_error (a_lists a) l' = Some (r', o') -> ~ In r' xs.
Proof.
  intros R H H' I.
  destruct (R_init _ _ R _ _ _ H) as (_ & _ & O). specialize (O _ I).
  destruct (R_roots _ _ R) as [_ RR]. destruct (RR r' (nth_error_is_root _ _ _ _ H')) as [_ E]. congruence.
Qed.

Lemma Rep_roots_inj s a l r o l' o' :
  Rep s a -> nth_error (a_lists a) l = Some (r, o) -> nth_error (a_lists a) l' = Some (r, o') -> l = l'.
Proof.
  intros R H H'. destruct (R_roots _ _ R) as [ND _].
  assert (E1 : nth_error (map fst (a_lists a)) l = Some r) by (rewrite nth_error_map, H; reflexivity).
  assert (E2 : nth_error (map fst (a_lists a)) l' = Some r) by (rewrite nth_error_map, H'; reflexivity).
  eapply (proj1 (NoDup_nth_error _) ND); [|congruence].
  apply nth_error_Some. congruence.
Qed.

Lemma a_set_nth a l xs j :
  nth_error (a_lists (a_set a l xs)) j =
  if Nat.eqb j l then option_map (fun x => (fst x, Some xs)) (nth_error (a_lists a) l)
  else nth_error (a_lists a) j.
Proof. unfold a_set; cbn [a_lists]. apply nth_error_map_nth. Qed.

Lemma map_fst_map_nth (L : list (nat * option (list nat))) l xs :
  map fst (map_nth (fun x => (fst x, Some xs)) l L) = map fst L.
Proof. revert l; induction L as [|x t IH]; intros [|l]; simpl; f_equal; auto. Qed.

Lemma is_root_a_set a l xs e : is_root (a_set a l xs) e <-> is_root a e.
Proof. unfold is_root, a_set; cbn [a_lists]. rewrite map_fst_map_nth. tauto. Qed.

(* Generic preservation: list l changes from o to Some xs'; cells outside
   {root} + old members + new members are untouched; new members were free cells. *)
Lemma Rep_set_list s a s' l r o xs' :
  Rep s a ->
  nth_error (a_lists a) l = Some (r, o) ->
  let old := match o with Some xs => xs | None => [] end in
  size s' = size s ->
  (forall j, vl s' j = vl s j) ->
  (forall j, nth_error (lsts s') j =
             if Nat.eqb j l then Some (LRec r (Z.of_nat (length xs'))) else nth_error (lsts s) j) ->
  (forall j, j <> r -> ~ In j old -> ~ In j xs' ->
             nx s' j = nx s j /\ pv s' j = pv s j /\ ow s' j = ow s j) ->
  (forall j, In j xs' -> ~ In j old -> ow s j = None /\ ~ is_root a j /\ j < size s) ->
  chain (nx s') (pv s') r xs' r -> NoDup xs' -> (forall e, In e xs' -> ow s' e = Some l) ->
  ow s' r = None ->
  (forall j, In j old -> ~ In j xs' -> ow s' j = None /\ nx s' j = None /\ pv s' j = None) ->
  Rep s' (a_set a l xs').
Proof.
  intros R Hl old Hsz Hvl Hls Hfr Hnew Hch Hnd How Hr Hrm.
  assert (Hold : forall j, In j old -> ow s j = Some l).
  { subst old. destruct o as [xs|]; [|intros ? []]. apply (R_init _ _ R _ _ _ Hl). }
  assert (Hroot_un : forall e, is_root a e -> e <> r ->
                               nx s' e = nx s e /\ pv s' e = pv s e /\ ow s' e = ow s e).
  { intros e He Ne. destruct (proj2 (R_roots _ _ R) e He) as [_ Oe].
    apply Hfr; auto.
    - intro I. apply Hold in I. congruence.
    - intro I. destruct (in_dec Nat.eq_dec e old) as [I'|I'].
      + apply Hold in I'. congruence.
      + destruct (Hnew e I I') as (_ & N & _). contradiction. }
  assert (Hother : forall e l', l' <> l -> ow s e = Some l' ->
                                nx s' e = nx s e /\ pv s' e = pv s e /\ ow s' e = ow s e).
  { intros e l' Nl Oe. apply Hfr.
    - intros ->. destruct (proj2 (R_roots _ _ R) r (nth_error_is_root _ _ _ _ Hl)). congruence.
    - intro I. apply Hold in I. congruence.
    - intro I. destruct (in_dec Nat.eq_dec e old) as [I'|I'].
      + apply Hold in I'. congruence.
      + destruct (Hnew e I I') as (N & _). congruence. }
  constructor.
  - (* vals *)
    destruct (R_vals _ _ R) as [V1 V2]. cbn [a_set a_vals]. split; [congruence|].
    intros j Hj. rewrite Hvl. apply V2. lia.
  - (* lsts *)
    destruct (R_lsts _ _ R) as [L1 L2]. split.
    + unfold a_set; cbn [a_lists]. rewrite length_map_nth, <- L1.
      (* lengths: from pointwise description *)
      assert (forall j, nth_error (lsts s') j = None <-> nth_error (lsts s) j = None).
      { intro j. rewrite Hls. destruct (Nat.eqb_spec j l) as [->|]; [|tauto].
        rewrite (L2 _ _ _ Hl). split; discriminate. }
      destruct (Nat.lt_trichotomy (length (lsts s')) (length (lsts s))) as [Lt|[E|Lt]]; auto; exfalso.
      * assert (N : nth_error (lsts s') (length (lsts s')) = None) by (apply nth_error_None; lia).
        apply H in N. apply nth_error_None in N. lia.
      * assert (N : nth_error (lsts s) (length (lsts s)) = None) by (apply nth_error_None; lia).
        apply H in N. apply nth_error_None in N. lia.
    + intros l' r' o'. rewrite a_set_nth, Hls.
      destruct (Nat.eqb_spec l' l) as [->|N].
      * rewrite Hl. cbn. intro E; injection E as <- <-. reflexivity.
      * apply L2.
  - (* roots *)
    destruct (R_roots _ _ R) as [ND RR]. split.
    + unfold a_set; cbn [a_lists]. rewrite map_fst_map_nth. exact ND.
    + intros e He. apply is_root_a_set in He. destruct (RR e He) as [Se Oe]. split; [lia|].
      destruct (Nat.eq_dec e r) as [->|Ne]; auto.
      destruct (Hroot_un e He Ne) as (_ & _ & ->). exact Oe.
  - (* uninit *)
    intros l' r'. rewrite a_set_nth.
    destruct (Nat.eqb_spec l' l) as [->|N].
    + rewrite Hl. cbn. discriminate.
    + intro H'. destruct (R_uninit _ _ R _ _ H') as [U1 U2].
      assert (Ne : r' <> r).
      { intros ->. apply N. eapply Rep_roots_inj; eauto. }
      destruct (Hroot_un r' (nth_error_is_root _ _ _ _ H') Ne) as (-> & -> & _). auto.
  - (* init *)
    intros l' r' xs. rewrite a_set_nth.
    destruct (Nat.eqb_spec l' l) as [->|N].
    + rewrite Hl. cbn. intro E; injection E as <- <-. auto.
    + intro H'. destruct (R_init _ _ R _ _ _ H') as (C & D & O).
      assert (Ne : r' <> r).
      { intros ->. apply N. eapply Rep_roots_inj; eauto. }
      repeat split; auto.
      * eapply chain_frame; [| |exact C].
        -- intros x [->|I]; [apply (Hroot_un r' (nth_error_is_root _ _ _ _ H') Ne)|].
           apply (Hother x l' N (O _ I)).
        -- intros x [I| ->]; [|apply (Hroot_un r' (nth_error_is_root _ _ _ _ H') Ne)].
           apply (Hother x l' N (O _ I)).
      * intros e I. destruct (Hother e l' N (O _ I)) as (_ & _ & ->). auto.
  - (* own *)
    intros e l' Oe.
    destruct (in_dec Nat.eq_dec e xs') as [I|NI].
    + rewrite (How _ I) in Oe. injection Oe as <-.
      exists r, xs'. rewrite a_set_nth, Nat.eqb_refl, Hl. auto.
    + destruct (in_dec Nat.eq_dec e old) as [I'|NI'].
      { destruct (Hrm e I' NI) as (E & _). congruence. }
      destruct (Nat.eq_dec e r) as [->|Ne]; [congruence|].
      destruct (Hfr e Ne NI' NI) as (_ & _ & E). rewrite E in Oe.
      destruct (R_own _ _ R _ _ Oe) as (r0 & xs0 & H0 & I0).
      destruct (Nat.eq_dec l' l) as [->|Nl].
      * exfalso. apply NI'. subst old. rewrite Hl in H0. injection H0 as E1 E2. rewrite E2. exact I0.
      * exists r0, xs0. rewrite a_set_nth. apply Nat.eqb_neq in Nl. rewrite Nl. auto.
  - (* free *)
    intros e Oe Nr. rewrite is_root_a_set in Nr.
    destruct (in_dec Nat.eq_dec e xs') as [I|NI].
    { rewrite (How _ I) in Oe. discriminate. }
    destruct (in_dec Nat.eq_dec e old) as [I'|NI'].
    { destruct (Hrm e I' NI) as (_ & E1 & E2). auto. }
    destruct (Nat.eq_dec e r) as [->|Ne].
    { exfalso. apply Nr. eapply nth_error_is_root; eauto. }
    destruct (Hfr e Ne NI' NI) as (-> & -> & E). rewrite E in Oe.
    apply (R_free _ _ R); auto.
Qed.

(* ---- pure facts about the sequence surgery ---- *)

Lemma NoDup_app_iff {A} (l1 l2 : list A) :
  NoDup (l1 ++ l2) <-> NoDup l1 /\ NoDup l2 /\ forall x, In x l1 -> ~ In x l2.
Proof.
  induction l1 as [|x t IH]; simpl.
  - split; [intro H; repeat split; auto; constructor | tauto].
  - rewrite !NoDup_cons_iff, IH, in_app_iff. split.
    + intros (N & D1 & D2 & D3). repeat split; auto.
      intros y [->|I]; auto.
    + intros ((N1 & D1) & D2 & D3). repeat split; auto.
      intros [I|I]; auto. apply (D3 x); auto.
Qed.

Lemma rem_notin e xs : ~ In e xs -> rem e xs = xs.
Proof.
  induction xs as [|x t IH]; simpl; auto. intro N.
  destruct (Nat.eqb_spec x e) as [->|]; [tauto|]. f_equal. tauto.
Qed.

Lemma rem_split e pre post : ~ In e pre -> ~ In e post -> rem e (pre ++ e :: post) = pre ++ post.
Proof.
  intros N1 N2. induction pre as [|x t IH]; simpl.
  - rewrite Nat.eqb_refl. apply rem_notin; auto.
  - destruct (Nat.eqb_spec x e) as [->|]; [simpl in N1; tauto|]. f_equal. apply IH. simpl in N1; tauto.
Qed.

Lemma in_rem e xs j : In j (rem e xs) <-> In j xs /\ j <> e.
Proof.
  induction xs as [|x t IH]; simpl; [tauto|].
  destruct (Nat.eqb_spec x e) as [->|N]; simpl; rewrite IH; intuition congruence.
Qed.

Lemma NoDup_rem e xs : NoDup xs -> NoDup (rem e xs).
Proof.
  induction 1 as [|x t N D IH]; simpl; [constructor|].
  destruct (Nat.eqb_spec x e); auto. constructor; auto. rewrite in_rem. tauto.
Qed.

Lemma ins_after_split m e pre post : ~ In m pre -> ins_after m e (pre ++ m :: post) = pre ++ m :: e :: post.
Proof.
  intro N. induction pre as [|x t IH]; simpl.
  - rewrite Nat.eqb_refl. reflexivity.
  - destruct (Nat.eqb_spec x m) as [->|]; [simpl in N; tauto|]. f_equal. apply IH. simpl in N; tauto.
Qed.

Lemma ins_before_split m e pre post : ~ In m pre -> ins_before m e (pre ++ m :: post) = pre ++ e :: m :: post.
Proof.
  intro N. induction pre as [|x t IH]; simpl.
  - rewrite Nat.eqb_refl. reflexivity.
  - destruct (Nat.eqb_spec x m) as [->|]; [simpl in N; tauto|]. f_equal. apply IH. simpl in N; tauto.
Qed.

Lemma mem_In e xs : mem e xs = true <-> In e xs.
Proof.
  unfold mem. rewrite existsb_exists. split.
  - intros (x & I & E). apply Nat.eqb_eq in E. congruence.
  - intro I. exists e. split; auto. apply Nat.eqb_refl.
Qed.

Lemma mem_false e xs : mem e xs = false <-> ~ In e xs.
Proof. rewrite <- mem_In. destruct (mem e xs); split; congruence. Qed.

(* link e after at_ in the cycle root :: xs *)
Definition link_after (r at_ e : nat) (xs : list nat) : list nat :=
  if Nat.eqb at_ r then e :: xs else ins_after at_ e xs.

Lemma chain_insert nx pv r xs at_ e :
  chain nx pv r xs r -> NoDup xs -> ~ In r xs -> (at_ = r \/ In at_ xs) -> e <> r -> ~ In e xs ->
  exists n0, nx at_ = Some n0 /\ (n0 = r \/ In n0 xs) /\
    let xs' := link_after r at_ e xs in
    chain (upd (upd nx e (Some n0)) at_ (Some e)) (upd (upd pv e (Some at_)) n0 (Some e)) r xs' r /\
    NoDup xs' /\ (forall j, In j xs' <-> j = e \/ In j xs).
Proof.
  intros C D Nr Hat Ner Ne.
  destruct (Nat.eq_dec at_ r) as [->|Nat_].
  - exists (hd r xs). split; [eapply chain_first; eauto|]. split.
    { destruct (hd_in_or r xs) as [[E _]|I]; auto. }
    unfold link_after. rewrite Nat.eqb_refl. cbn zeta. split; [|split].
    + apply chain_link; auto.
    + constructor; auto.
    + intro j. simpl. intuition congruence.
  - destruct Hat as [->|I]; [congruence|].
    destruct (in_split _ _ I) as (pre & post & ->).
    apply NoDup_app_iff in D as (D1 & D2 & D3). apply NoDup_cons_iff in D2 as [D2 D4].
    rewrite in_app_iff in Nr, Ne. simpl in Nr, Ne.
    apply chain_app in C as [C1 C2].
    assert (Npre : ~ In at_ pre) by (intro X; apply (D3 _ X); simpl; auto).
    exists (hd r post). split; [eapply chain_first; eauto|]. split.
    { destruct (hd_in_or r post) as [[E _]|I']; auto. right. apply in_or_app. simpl; auto. }
    unfold link_after. apply Nat.eqb_neq in Nat_. rewrite Nat_. apply Nat.eqb_neq in Nat_.
    rewrite ins_after_split by auto. cbn zeta. split; [|split].
    + apply chain_app. split.
      * eapply chain_frame; [| |exact C1].
        -- intros x Hx. unfold upd.
           destruct (Nat.eqb_spec x at_) as [->|]; [destruct Hx as [->|]; tauto|].
           destruct (Nat.eqb_spec x e) as [->|]; [destruct Hx as [->|]; tauto|]. reflexivity.
        -- intros x Hx. unfold upd.
           destruct (Nat.eqb_spec x (hd r post)) as [->|].
           { exfalso. destruct (hd_in_or r post) as [[E _]|I'].
             - rewrite E in Hx. destruct Hx as [Hx|Hx]; [tauto|]. congruence.
             - destruct Hx as [Hx|Hx]; [apply (D3 _ Hx); simpl; auto|]. rewrite Hx in I'. tauto. }
           destruct (Nat.eqb_spec x e) as [->|]; [destruct Hx as [Hx| ->]; tauto|]. reflexivity.
      * apply chain_link; auto; tauto.
    + apply NoDup_app_iff. split; [auto|]. split.
      * constructor; [simpl; intuition congruence|]. constructor; [tauto|auto].
      * intros x Hx. simpl. intros [->|[->|I']]; [tauto|tauto|]. apply (D3 _ Hx). simpl; auto.
    + intro j. rewrite !in_app_iff. simpl. intuition congruence.
Qed.

Lemma chain_remove nx pv r xs e :
  chain nx pv r xs r -> NoDup xs -> ~ In r xs -> In e xs ->
  exists p n, pv e = Some p /\ nx e = Some n /\ (p = r \/ In p xs) /\ (n = r \/ In n xs) /\ p <> e /\ n <> e /\
    chain (upd nx p (Some n)) (upd pv n (Some p)) r (rem e xs) r.
Proof.
  intros C D Nr I.
  destruct (in_split _ _ I) as (pre & post & ->).
  pose proof D as D0.
  apply NoDup_app_iff in D as (D1 & D2 & D3). apply NoDup_cons_iff in D2 as [D2 D4].
  assert (Npre : ~ In e pre) by (intro X; apply (D3 _ X); simpl; auto).
  destruct (chain_at _ _ _ _ _ _ _ C) as [E1 E2].
  exists (last pre r), (hd r post). repeat split; auto.
  - destruct (last_in_or r pre) as [[E _]|I']; auto. right. apply in_or_app; auto.
  - destruct (hd_in_or r post) as [[E _]|I']; auto. right. apply in_or_app; simpl; auto.
  - destruct (last_in_or r pre) as [[E _]|I']; [rewrite E; intros ->; apply Nr, in_or_app; simpl; auto|].
    intros E. rewrite E in I'. tauto.
  - destruct (hd_in_or r post) as [[E _]|I']; [rewrite E; intros ->; apply Nr, in_or_app; simpl; auto|].
    intros E. rewrite E in I'. tauto.
  - rewrite rem_split by auto. apply (chain_unlink nx pv r pre e post r); auto. constructor; auto.
Qed.

(* ---- state-level lemmas for the internal operations ---- *)

Lemma nx_st_len s l z j : nx (st_len s l z) j = nx s j. Proof. reflexivity. Qed.
Lemma pv_st_len s l z j : pv (st_len s l z) j = pv s j. Proof. reflexivity. Qed.
Lemma ow_st_len s l z j : ow (st_len s l z) j = ow s j. Proof. reflexivity. Qed.
Lemma vl_st_len s l z j : vl (st_len s l z) j = vl s j. Proof. reflexivity. Qed.
Lemma lsts_st_len_upd f s i l z : lsts (st_len (st_upd f s i) l z) = lsts (st_len s l z).
Proof. reflexivity. Qed.
#[export] Hint Rewrite nx_st_len pv_st_len ow_st_len vl_st_len : heap.
#[export] Hint Rewrite size_st_link size_st_unlink lsts_st_link lsts_st_unlink : heap.
#[export] Hint Rewrite nx_st_link pv_st_link ow_st_link vl_st_link
     nx_st_unlink pv_st_unlink ow_st_unlink vl_st_unlink using size_tac : heap.

Lemma Rep_list s a l r o :
  Rep s a -> nth_error (a_lists a) l = Some (r, o) ->
  nth_error (lsts s) l = Some (LRec r (alen o)) /\ r < size s /\ ow s r = None /\ l < length (lsts s).
Proof.
  intros R H. destruct (R_lsts _ _ R) as [L1 L2].
  destruct (proj2 (R_roots _ _ R) r (nth_error_is_root _ _ _ _ H)) as [A B].
  repeat split; auto. rewrite L1. apply nth_error_Some. congruence.
Qed.

Lemma init_sim s a l r o :
  Rep s a -> nth_error (a_lists a) l = Some (r, o) -> (o = None \/ o = Some []) ->
  exists s', list_Init l s = Ok s' /\ Rep s' (a_set a l []).
Proof.
  intros R H Ho. destruct (Rep_list _ _ _ _ _ R H) as (Hl & Hr & Hor & Hlen).
  unfold list_Init. rewrite (root_of_eq _ _ _ _ Hl). cbn [bind].
  hstep. hstep. rewrite set_len_eq by (autorewrite with heap; auto).
  eexists. split; [reflexivity|].
  apply (Rep_set_list s a _ l r o []); auto.
  - now autorewrite with heap.
  - intro j. now autorewrite with heap.
  - intro j. rewrite lsts_st_len. cbn [lsts st_upd]. rewrite Hl. reflexivity.
  - intros j Nj _ _. hnorm. auto.
  - intros j [].
  - cbn [chain]. hnorm. auto.
  - constructor.
  - intros e [].
  - hnorm. auto.
  - destruct Ho as [-> | ->]; intros j [].
Qed.

Lemma len_of_st_upd f s i l : len_of (st_upd f s i) l = len_of s l. Proof. reflexivity. Qed.
Lemma root_of_st_upd f s i l : root_of (st_upd f s i) l = root_of s l. Proof. reflexivity. Qed.
Lemma len_of_st_link s e a n l : len_of (st_link s e a n) l = len_of s l. Proof. reflexivity. Qed.
Lemma root_of_st_link s e a n l : root_of (st_link s e a n) l = root_of s l. Proof. reflexivity. Qed.
Lemma len_of_st_unlink s p n l : len_of (st_unlink s p n) l = len_of s l. Proof. reflexivity. Qed.
Lemma root_of_st_unlink s p n l : root_of (st_unlink s p n) l = root_of s l. Proof. reflexivity. Qed.
#[export] Hint Rewrite len_of_st_upd root_of_st_upd len_of_st_link root_of_st_link len_of_st_unlink root_of_st_unlink : heap.

Ltac size_tac ::=
  rewrite ?size_st_upd, ?size_st_len, ?size_st_alloc, ?size_st_link, ?size_st_unlink; first [assumption | lia].

Lemma chain_ext nx pv nx' pv' a xs b :
  (forall j, nx' j = nx j) -> (forall j, pv' j = pv j) -> chain nx pv a xs b -> chain nx' pv' a xs b.
Proof. intros H1 H2. apply chain_frame; auto. Qed.

Lemma length_ins_after m e xs : In m xs -> length (ins_after m e xs) = S (length xs).
Proof.
  induction xs as [|x t IH]; simpl; [tauto|].
  destruct (Nat.eqb_spec x m) as [->|N]; simpl; auto.
  intros [E|I]; [congruence|]. rewrite IH; auto.
Qed.

Lemma length_ins_before m e xs : In m xs -> length (ins_before m e xs) = S (length xs).
Proof.
  induction xs as [|x t IH]; simpl; [tauto|].
  destruct (Nat.eqb_spec x m) as [->|N]; simpl; auto.
  intros [E|I]; [congruence|]. rewrite IH; auto.
Qed.

Lemma length_link_after r at_ e xs : ~ In r xs -> (at_ = r \/ In at_ xs) -> length (link_after r at_ e xs) = S (length xs).
Proof.
  intros Nr H. unfold link_after. destruct (Nat.eqb_spec at_ r) as [->|N]; [reflexivity|].
  destruct H; [congruence|]. apply length_ins_after; auto.
Qed.

Lemma length_rem e xs : NoDup xs -> In e xs -> S (length (rem e xs)) = length xs.
Proof.
  induction 1 as [|x t N D IH]; simpl; [tauto|].
  destruct (Nat.eqb_spec x e) as [->|Ne].
  - intros _. rewrite rem_notin; auto.
  - intros [E|I]; [congruence|]. simpl. rewrite IH; auto.
Qed.

Lemma insert_sim s a l r xs at_ e :
  Rep s a -> nth_error (a_lists a) l = Some (r, Some xs) -> (at_ = r \/ In at_ xs) ->
  e < size s -> ow s e = None -> ~ is_root a e ->
  exists s', list_insert l (Some e) (Some at_) s = Ok (Some e, s') /\ Rep s' (a_set a l (link_after r at_ e xs)).
Proof.
  intros R H Hat He Oe Nre.
  destruct (Rep_list _ _ _ _ _ R H) as (Hl & Hr & Hor & Hlen).
  destruct (R_init _ _ R _ _ _ H) as (C & D & O).
  assert (Nr : ~ In r xs) by (eapply Rep_root_notin; eauto).
  assert (Ner : e <> r) by (intros ->; apply Nre; eapply nth_error_is_root; eauto).
  assert (Nex : ~ In e xs) by (intro I; apply O in I; congruence).
  destruct (chain_insert _ _ _ _ _ _ C D Nr Hat Ner Nex) as (n0 & En & Hn0 & C' & D' & I').
  assert (Hat_lt : at_ < size s) by (destruct Hat as [->|I]; [auto|eapply ow_lt; eauto]).
  assert (Hn0_lt : n0 < size s) by (destruct Hn0 as [->|I]; [auto|eapply ow_lt; eauto]).
  assert (Nea : e <> at_) by (destruct Hat as [->|I]; [auto|intros ->; auto]).
  unfold list_insert.
  hstep. hstep. hnorm. rewrite En. hstep. hstep. hnorm. hstep. hstep. hnorm. hstep.
  fold (st_link s e at_ n0).
  hstep. hnorm. rewrite (len_of_eq _ _ _ _ Hl). cbn [bind].
  rewrite set_len_eq by (autorewrite with heap; auto). cbn [bind].
  eexists. split; [reflexivity|].
  apply (Rep_set_list s a _ l r (Some xs) (link_after r at_ e xs)); auto.
  - now autorewrite with heap.
  - intro j. now autorewrite with heap.
  - intro j. rewrite lsts_st_len. cbn [lsts st_upd st_link]. rewrite Hl.
    rewrite length_link_after by auto. destruct (j =? l); [|reflexivity].
    cbn [option_map l_root alen]. do 2 f_equal. lia.
  - intros j Nj Nx Nx'. rewrite I' in Nx'. hnorm. unfold upd.
    assert (j <> e) by tauto. assert (j <> at_) by (destruct Hat as [->|]; [auto|intros ->; tauto]).
    assert (j <> n0) by (destruct Hn0 as [->|]; [auto|intros ->; tauto]).
    hnorm. auto.
  - intros j Ij Nj. apply I' in Ij. destruct Ij as [->|]; tauto.
  - eapply chain_ext; [| |exact C']; intro j; now autorewrite with heap.
  - intros x Ix. apply I' in Ix. autorewrite with heap.
    destruct (Nat.eqb_spec x e) as [->|]; auto. destruct Ix; [congruence|auto].
  - hnorm. auto.
  - intros j Ij Nj. exfalso. apply Nj, I'. auto.
Qed.
