(* Correspondence check for C06. A case is an operation history on
   lists.List (CList) or on lists.Ring (CRing), together with what the harness
   observed on the real code: per operation the return value and a checksum of
   the complete observable state after it (Len, forward walk by Next, backward
   walk by Prev of every list, Next/Prev of every handle; for rings Len, Do
   sequence, Next, Prev of every handle), and the complete observable state at
   the end in the clear. [check_case] re-runs the model and compares.
   Definitions only. *)
From Typ Require Export Lib.Base Lists.Heap Lists.ListModel Lists.RingModel.

Local Open Scope Z_scope.

Inductive ret := RU | RH (k : Z) | RV (z : Z) | RS (l : list Z) | RP (k : panic_kind).

Definition ret_eqb (a b : ret) : bool :=
  match a, b with
  | RU, RU => true
  | RH x, RH y => Z.eqb x y
  | RV x, RV y => Z.eqb x y
  | RS x, RS y => list_eqb Z.eqb x y
  | RP x, RP y => panic_kind_eqb x y
  | _, _ => false
  end.

(* per list: Len, forward walk, backward walk; walk entries are (handle index, value) *)
Definition lfinal := list (Z * list (Z * Z) * list (Z * Z)).
(* per ring handle: Len, Do sequence *)
Definition rfinal := list (Z * list Z).

Inductive case :=
| CList (ops : list lop) (obs : list (ret * Z)) (final : lfinal)
| CRing (ops : list rop) (obs : list (ret * Z)) (final : rfinal).

(* checksum shared with the Go harness *)
Definition P : Z := 2147483647.
Definition mix (h x : Z) : Z := (h * 1000003 + x mod P + 7) mod P.
Definition mix_list (h : Z) (l : list Z) : Z := fold_left mix l (mix h (Z.of_nat (length l))).

(* index of a pointer in the handle table: nil = -1, not in the table = -2 *)
Fixpoint index_from (i : nat) (k : Z) (hs : list nat) : Z :=
  match hs with
  | [] => -2
  | x :: t => if Nat.eqb x i then k else index_from i (k + 1) t
  end.
Definition idx (hs : list nat) (p : ptr) : Z :=
  match p with None => -1 | Some i => index_from i 0 hs end.

(* ---- lists ---- *)

Definition val_of (s : state) (i : nat) : Z :=
  match nth_error (elems s) i with Some c => e_val c | None => -77 end.

Definition walk_obs (rs : rstate) (w : result (list nat)) : option (list (Z * Z)) :=
  match w with
  | Ok ids => Some (map (fun i => (idx (hs rs) (Some i), val_of (st rs) i)) ids)
  | Panic _ => None
  end.

Definition flat (o : option (list (Z * Z))) : list Z :=
  match o with
  | Some l => flat_map (fun p => [fst p; snd p]) l
  | None => [-99]
  end.

Definition obs_list (rs : rstate) (l : nat) : Z * option (list (Z * Z)) * option (list (Z * Z)) :=
  (match list_Len (st rs) l with Ok z => z | Panic _ => -98 end,
   walk_obs rs (walk_fwd (st rs) l), walk_obs rs (walk_bwd (st rs) l)).

Definition obs_lists (rs : rstate) : list (Z * option (list (Z * Z)) * option (list (Z * Z))) :=
  map (obs_list rs) (seq 0 (length (lsts (st rs)))).

Definition nbr (rs : rstate) (f : state -> ptr -> result ptr) (i : nat) : Z :=
  match f (st rs) (Some i) with Ok p => idx (hs rs) p | Panic _ => -97 end.

Definition hash_lstate (rs : rstate) : Z :=
  let h := fold_left (fun h o => let '(len, f, b) := o in mix_list (mix_list (mix h len) (flat f)) (flat b))
                     (obs_lists rs) 0 in
  fold_left (fun h i => mix (mix h (nbr rs elem_Next i)) (nbr rs elem_Prev i)) (hs rs) h.

Definition lret (rs : rstate) (o : lout) : ret :=
  match o with
  | OUnit => RU
  | OPtr p => RH (idx (hs rs) p)
  | OInt z => RV z
  | OPanic k => RP k
  end.

Fixpoint lrun_obs (rs : rstate) (ops : list lop) : list (ret * Z) * rstate :=
  match ops with
  | [] => ([], rs)
  | op :: ops' =>
      let (o, rs1) := step op rs in
      let here := (lret rs1 o, hash_lstate rs1) in
      let (os, rs2) := lrun_obs rs1 ops' in
      (here :: os, rs2)
  end.

Definition lfinal_of (rs : rstate) : option lfinal :=
  fold_right (fun o acc =>
                match o, acc with
                | (len, Some f, Some b), Some t => Some ((len, f, b) :: t)
                | _, _ => None
                end) (Some []) (obs_lists rs).

Definition pair_eqb (a b : Z * Z) : bool := Z.eqb (fst a) (fst b) && Z.eqb (snd a) (snd b).
Definition obs_eqb (a b : ret * Z) : bool := ret_eqb (fst a) (fst b) && Z.eqb (snd a) (snd b).
Definition lfin_eqb (a b : Z * list (Z * Z) * list (Z * Z)) : bool :=
  let '(l1, f1, b1) := a in let '(l2, f2, b2) := b in
  Z.eqb l1 l2 && list_eqb pair_eqb f1 f2 && list_eqb pair_eqb b1 b2.

(* ---- rings: observing a ring (Len, Do, Next, Prev) initialises a zero Ring, so
   the observation is itself a sequence of calls and threads the heap ---- *)

Definition rret (rs : rrstate) (o : rout) : ret :=
  match o with
  | ROPtr p => RH (idx (rhs rs) p)
  | ROInt z => RV z
  | ROSeq l => RS l
  | ROPanic k => RP k
  end.

(* Len, Do, Next, Prev of handle i; returns (len, do-sequence, next idx, prev idx) *)
Definition obs_ring (rs : rrstate) (i : nat) : (Z * list Z * Z * Z) * rrstate :=
  let r := Some i in
  let t := rhs rs in
  let '(len, h) := match ring_Len r (rh rs) with Ok x => x | Panic _ => (-98, rh rs) end in
  let '(sq, h) := match ring_Do r h with Ok x => x | Panic _ => ([-99], h) end in
  let '(n, h) := match ring_Next r h with Ok (p, h') => (idx t p, h') | Panic _ => (-97, h) end in
  let '(p, h) := match ring_Prev r h with Ok (p, h') => (idx t p, h') | Panic _ => (-97, h) end in
  ((len, sq, n, p), RRState h t).

Fixpoint obs_rings (rs : rrstate) (ids : list nat) : list (Z * list Z * Z * Z) * rrstate :=
  match ids with
  | [] => ([], rs)
  | i :: t =>
      let (o, rs1) := obs_ring rs i in
      let (os, rs2) := obs_rings rs1 t in
      (o :: os, rs2)
  end.

Definition hash_robs (os : list (Z * list Z * Z * Z)) : Z :=
  fold_left (fun h o => let '(len, sq, n, p) := o in mix (mix (mix_list (mix h len) sq) n) p) os 0.

(* A zero Ring that no operation has named as an argument yet is not observed: observing it
   would initialise it, and the lazy initialisation inside Prev / Move / Link / Len / Do is part
   of what is compared. [fresh] = the nodes created by RZero and not named since (the harness
   applies the same syntactic rule on handle indices). *)
Definition opt_list (p : ptr) : list nat := match p with Some i => [i] | None => [] end.

Definition rop_args (t : list nat) (op : rop) : list nat :=
  match op with
  | RZero _ | RNew _ _ => []
  | RNext r | RPrev r | RLen r | RDo r | RMove r _ | RUnlink r _ => opt_list (rhnd t r)
  | RLink r s => opt_list (rhnd t r) ++ opt_list (rhnd t s)
  end.

Definition fresh_after (fresh : list nat) (t : list nat) (op : rop) (o : rout) : list nat :=
  match op, o with
  | RZero _, ROPtr (Some i) => i :: fresh
  | _, _ => filter (fun i => negb (existsb (Nat.eqb i) (rop_args t op))) fresh
  end.

Fixpoint rrun_obs (rs : rrstate) (fresh : list nat) (ops : list rop) : list (ret * Z) * rrstate :=
  match ops with
  | [] => ([], rs)
  | op :: ops' =>
      let (o, rs1) := rstep op rs in
      let r := rret rs1 o in
      let fresh1 := fresh_after fresh (rhs rs1) op o in
      let (os, rs2) := obs_rings rs1 (filter (fun i => negb (existsb (Nat.eqb i) fresh1)) (rhs rs1)) in
      let (rest, rs3) := rrun_obs rs2 fresh1 ops' in
      ((r, hash_robs os) :: rest, rs3)
  end.

(* at the end every handle is observed, also the zero Rings that were never used *)
Definition rfinal_of (rs : rrstate) : rfinal :=
  map (fun o => let '(len, sq, _, _) := o in (len, sq)) (fst (obs_rings rs (rhs rs))).

Definition rfin_eqb (a b : Z * list Z) : bool := Z.eqb (fst a) (fst b) && list_eqb Z.eqb (snd a) (snd b).

Definition check_case (c : case) : bool :=
  match c with
  | CList ops obs final =>
      let (os, rs) := lrun_obs init_rstate ops in
      list_eqb obs_eqb os obs &&
      match lfinal_of rs with Some f => list_eqb lfin_eqb f final | None => false end
  | CRing ops obs final =>
      let (os, rs) := rrun_obs init_rrstate [] ops in
      list_eqb obs_eqb os obs && list_eqb rfin_eqb (rfinal_of rs) final
  end.
