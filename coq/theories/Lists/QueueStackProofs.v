(* Proofs for C16: lists.Stack is LIFO, lists.Queue is FIFO (the latter on top
   of the refinement proof of lists.List). *)
From Typ Require Import Lib.Base Lists.Heap Lists.ListModel Lists.ListSpec Lists.ListProofs Lists.QueueStack.

(* ================= Stack ================= *)

Definition sinv (sl : gslice) : Prop := slen sl <= length (arr sl).
Definition sabs (sl : gslice) : list Z := rev (firstn (slen sl) (arr sl)).

Lemma firstn_S_nth {A} (l : list A) k x : nth_error l k = Some x -> firstn (S k) l = firstn k l ++ [x].
Proof.
  revert k; induction l as [|y t IH]; intros [|k] H; simpl in *; try discriminate.
  - injection H as ->. reflexivity.
  - f_equal. apply IH. exact H.
Qed.

Lemma firstn_replace_nth_ge {A} (l : list A) n k v : n <= k -> firstn n (replace_nth k v l) = firstn n l.
Proof.
  revert n k; induction l as [|y t IH]; intros [|n] [|k] H; simpl; auto; try lia.
  f_equal. apply IH. lia.
Qed.

Lemma firstn_app_cons {A} (a : list A) v b n : length a = n -> firstn (S n) (a ++ v :: b) = a ++ [v].
Proof.
  intros <-. induction a as [|x t IH]; [reflexivity|].
  change (firstn (S (length (x :: t))) ((x :: t) ++ v :: b)) with (x :: firstn (S (length t)) (t ++ v :: b)).
  rewrite IH. reflexivity.
Qed.

Lemma append_spec newcap sl v :
  sinv sl -> sinv (slice_append newcap sl v) /\ sabs (slice_append newcap sl v) = v :: sabs sl.
Proof.
  unfold sinv, sabs, slice_append. intro I.
  destruct (Nat.ltb_spec (slen sl) (length (arr sl))) as [L|L]; cbn [arr slen].
  - rewrite length_replace_nth. split; [lia|].
    destruct (nth_error (arr sl) (slen sl)) as [c|] eqn:E; [|apply nth_error_None in E; lia].
    rewrite (firstn_S_nth _ _ v (nth_error_replace_nth_eq _ v c _ E)).
    rewrite firstn_replace_nth_ge by lia. rewrite rev_unit. reflexivity.
  - assert (E : slen sl = length (arr sl)) by lia.
    assert (F : length (firstn (slen sl) (arr sl)) = slen sl) by (rewrite firstn_length; lia).
    split.
    + rewrite app_length, F. cbn [length]. rewrite repeat_length. lia.
    + rewrite (firstn_app_cons _ _ _ _ F), rev_unit. reflexivity.
Qed.

Lemma sabs_length sl : sinv sl -> length (sabs sl) = slen sl.
Proof. unfold sinv, sabs. intro I. rewrite rev_length, firstn_length. lia. Qed.

Lemma sabs_top sl k : sinv sl -> slen sl = S k ->
  exists x, nth_error (arr sl) k = Some x /\ sabs sl = x :: rev (firstn k (arr sl)).
Proof.
  unfold sinv, sabs. intros I E.
  destruct (nth_error (arr sl) k) as [x|] eqn:N; [|apply nth_error_None in N; lia].
  exists x. split; auto. rewrite E, (firstn_S_nth _ _ _ N), rev_unit. reflexivity.
Qed.

Lemma sstep_sim newcap op sl :
  sinv sl ->
  exists sl', sstep newcap op (Some sl) = (fst (sspec_step op (sabs sl)), Some sl') /\
              sinv sl' /\ sabs sl' = snd (sspec_step op (sabs sl)).
Proof.
  intro I. unfold sstep. destruct op; cbn [sexec sspec_step stack_Push stack_Pop stack_Peek bind].
  - destruct (append_spec newcap sl v I) as [I' A']. eexists. split; [reflexivity|]. auto.
  - destruct (slen sl) as [|k] eqn:E.
    + cbn [Nat.eqb bind]. assert (A : sabs sl = []) by (unfold sabs; rewrite E; reflexivity).
      rewrite A. exists sl. cbn [fst snd]. auto.
    + cbn [Nat.eqb]. destruct (sabs_top sl k I E) as (x & N & A). rewrite A. cbn [fst snd].
      replace (S k - 1) with k by lia.
      unfold slice_index. rewrite E. replace (k <? S k) with true by (symmetry; apply Nat.ltb_lt; lia).
      unfold get_nth. rewrite N. cbn [bind].
      replace (k <=? length (arr sl)) with true by (symmetry; apply Nat.leb_le; unfold sinv in I; lia).
      eexists. split; [reflexivity|]. unfold sinv, sabs in *. cbn [arr slen]. split; [lia|reflexivity].
  - destruct (slen sl) as [|k] eqn:E.
    + cbn [Nat.eqb bind]. assert (A : sabs sl = []) by (unfold sabs; rewrite E; reflexivity).
      rewrite A. exists sl. cbn [fst snd]. auto.
    + cbn [Nat.eqb]. destruct (sabs_top sl k I E) as (x & N & A). rewrite A. cbn [fst snd].
      replace (S k - 1) with k by lia.
      unfold slice_index. rewrite E. replace (k <? S k) with true by (symmetry; apply Nat.ltb_lt; lia).
      unfold get_nth. rewrite N. cbn [bind].
      exists sl. rewrite <- A. auto.
  - exists sl. rewrite (sabs_length sl I). auto.
Qed.

Lemma srun_from_sim newcap ops : forall sl, sinv sl ->
  exists sl', srun_from newcap (Some sl) ops = (fst (sspec_from (sabs sl) ops), Some sl') /\
              sinv sl' /\ sabs sl' = snd (sspec_from (sabs sl) ops).
Proof.
  induction ops as [|op ops IH]; intros sl I; cbn [srun_from sspec_from].
  - exists sl. auto.
  - destruct (sstep_sim newcap op sl I) as (sl1 & E1 & I1 & A1). rewrite E1.
    destruct (sspec_step op (sabs sl)) as [o st1]. cbn [fst snd] in *. subst st1.
    destruct (IH sl1 I1) as (sl2 & E2 & I2 & A2). rewrite E2.
    destruct (sspec_from (sabs sl1) ops) as [os st2]. cbn [fst snd] in *. eauto.
Qed.

(* Stack is LIFO: whatever capacities the runtime chooses, every history from the
   zero value returns exactly what the list specification returns (Pop/Peek on
   empty: (0,false), and the stack stays usable); in particular no call panics. *)
Theorem stack_lifo newcap ops : fst (srun newcap ops) = fst (sspec_from [] ops).
Proof.
  unfold srun. destruct (srun_from_sim newcap ops (GSlice [] 0)) as (sl' & E & _); [unfold sinv; simpl; lia|].
  rewrite E. reflexivity.
Qed.

(* a model evaluation, not a property theorem: the nil *Stack guards *)
Remark stack_nil_receiver :
  stack_Peek None = Ok (0%Z, false) /\ stack_Pop None = Ok (0%Z, false, None).
Proof. split; reflexivity. Qed.

(* ================= Queue ================= *)

(* the queue's contents, next value to leave first: Enqueue pushes at the front of the
   list, Dequeue takes from the back *)
Definition qabs (a : astate) (q : nat) : list Z := rev (map (a_val a) (a_seq a q)).

Lemma a_val_fresh a v : a_val (a_alloc a v) (fresh a) = v.
Proof. unfold a_val, a_alloc, fresh; cbn [a_vals]. rewrite app_nth2, Nat.sub_diag by lia. reflexivity. Qed.

Lemma qstep_sim q op s a :
  Rep s a -> q < length (a_lists a) ->
  exists s' a', qstep q op s = (fst (qspec_step op (qabs a q)), s') /\
                Rep s' a' /\ length (a_lists a') = length (a_lists a) /\
                qabs a' q = snd (qspec_step op (qabs a q)).
Proof.
  intros R Hq. destruct (nth_error_lt_exists _ _ Hq) as ([r o] & H).
  unfold qstep. destruct op; cbn [qexec qspec_step].
  - (* Enqueue *)
    unfold queue_Enqueue. destruct (PushFront_sim _ _ _ _ _ v R H) as (s' & E & R'). rewrite E. cbn [bind fst snd].
    exists s'. eexists. split; [reflexivity|]. split; [exact R'|]. split; [rewrite length_a_set; reflexivity|].
    unfold qabs. rewrite a_seq_a_set, Nat.eqb_refl by exact Hq. cbn [map rev].
    change (a_val (a_set (a_alloc a v) q (fresh a :: a_seq a q))) with (a_val (a_alloc a v)).
    rewrite a_val_fresh. f_equal. f_equal. apply map_ext_in. intros x Ix. apply a_val_alloc.
    rewrite <- (Rep_size _ _ R). eapply a_seq_owned_lt; eauto.
  - (* Dequeue *)
    unfold queue_Dequeue. rewrite (Back_sim _ _ _ _ _ R H). cbn [bind]. unfold qabs.
    destruct (a_seq a q) as [|x0 t0] eqn:Es.
    + cbn [last_opt ptr_eqb option_eqb map rev fst snd]. exists s, a. rewrite Es. auto.
    + destruct (exists_last (l := x0 :: t0)) as (t & e & Et); [discriminate|]. rewrite Et in *.
      rewrite last_opt_snoc. cbn [ptr_eqb option_eqb].
      assert (Ie : In e (a_seq a q)) by (rewrite Es; apply in_or_app; simpl; auto).
      assert (He : e < size s) by (eapply a_seq_owned_lt; eauto).
      destruct (Remove_sim _ _ _ _ _ _ R H He) as (s' & E & R'). rewrite E. cbn [bind].
      rewrite (proj2 (mem_In e (a_seq a q)) Ie) in R'.
      pose proof (Rep_mem_init _ _ _ _ _ _ R H Ie) as ->.
      destruct (R_init _ _ R _ _ _ H) as (_ & D & _). rewrite Es in D, R'.
      apply NoDup_app_iff in D as (_ & _ & D).
      rewrite rem_split in R' by (auto; intro X; apply (D _ X); simpl; auto). rewrite app_nil_r in R'.
      rewrite map_app. cbn [map]. rewrite rev_unit. cbn [fst snd].
      exists s'. eexists. split; [reflexivity|]. split; [exact R'|]. split; [rewrite length_a_set; reflexivity|].
      rewrite a_seq_a_set, Nat.eqb_refl by exact Hq. reflexivity.
  - (* Peek *)
    unfold queue_Peek. rewrite (Back_sim _ _ _ _ _ R H). cbn [bind]. unfold qabs.
    destruct (a_seq a q) as [|x0 t0] eqn:Es.
    + cbn [last_opt ptr_eqb option_eqb map rev fst snd bind]. exists s, a. rewrite Es. auto.
    + destruct (exists_last (l := x0 :: t0)) as (t & e & Et); [discriminate|]. rewrite Et in *.
      rewrite last_opt_snoc. cbn [ptr_eqb option_eqb].
      assert (Ie : In e (a_seq a q)) by (rewrite Es; apply in_or_app; simpl; auto).
      assert (He : e < size s) by (eapply a_seq_owned_lt; eauto).
      hstep. rewrite (Rep_vl _ _ _ R He). rewrite map_app. cbn [map]. rewrite rev_unit. cbn [fst snd].
      exists s, a. rewrite Es, map_app. cbn [map]. rewrite rev_unit. auto.
  - (* Len *)
    unfold queue_Len. rewrite (Len_sim _ _ _ _ _ R H). cbn [bind fst snd].
    exists s, a. unfold qabs. rewrite rev_length, map_length. auto.
Qed.

Lemma qrun_from_sim q ops : forall s a,
  Rep s a -> q < length (a_lists a) ->
  exists s' a', qrun_from q s ops = (fst (qspec_from (qabs a q) ops), s') /\ Rep s' a' /\
                qabs a' q = snd (qspec_from (qabs a q) ops).
Proof.
  induction ops as [|op ops IH]; intros s a R Hq; cbn [qrun_from qspec_from].
  - exists s, a. auto.
  - destruct (qstep_sim q op s a R Hq) as (s1 & a1 & E1 & R1 & L1 & A1). rewrite E1.
    destruct (qspec_step op (qabs a q)) as [o st1]. cbn [fst snd] in *. subst st1.
    destruct (IH s1 a1 R1 ltac:(lia)) as (s2 & a2 & E2 & R2 & A2). rewrite E2.
    destruct (qspec_from (qabs a1 q) ops) as [os st2]. cbn [fst snd] in *. eauto.
Qed.

(* Queue is FIFO: every history from the zero Queue returns exactly what the list
   specification returns, Dequeue/Peek on empty give (0,false) and leave it usable;
   no call panics; and the heap stays a well-formed list throughout. *)
Theorem queue_fifo ops :
  fst (qrun ops) = fst (qspec_from [] ops) /\ exists a, Rep (snd (qrun ops)) a.
Proof.
  unfold qrun. rewrite alloc_list_eq.
  pose proof (alloc_list_sim _ _ Rep_init) as R0.
  destruct (qrun_from_sim 0 ops _ _ R0) as (s' & a' & E & R' & _).
  { unfold a_newlist, init_astate; simpl; lia. }
  change (length (lsts {| elems := []; lsts := [] |})) with 0. rewrite E. split; [reflexivity|]. exists a'. exact R'.
Qed.

(* ---- the specifications are FIFO / LIFO ---- *)
Lemma qspec_enq st vs :
  qspec_from st (map QEnqueue vs) = (map (fun _ => QUnit) vs, st ++ vs).
Proof.
  revert st; induction vs as [|v t IH]; intro st; cbn [map qspec_from qspec_step].
  - rewrite app_nil_r. reflexivity.
  - rewrite IH, <- app_assoc. reflexivity.
Qed.

Lemma qspec_from_app st ops1 ops2 :
  qspec_from st (ops1 ++ ops2) =
  (fst (qspec_from st ops1) ++ fst (qspec_from (snd (qspec_from st ops1)) ops2),
   snd (qspec_from (snd (qspec_from st ops1)) ops2)).
Proof.
  revert st; induction ops1 as [|op t IH]; intro st; cbn [app qspec_from fst snd].
  - destruct (qspec_from st ops2); reflexivity.
  - destruct (qspec_step op st) as [o st1]. rewrite IH.
    destruct (qspec_from st1 t) as [os st2]. cbn [fst snd]. reflexivity.
Qed.

Lemma qspec_deq (A : Type) st (ws : list A) : length ws = length st ->
  qspec_from st (map (fun _ => QDequeue) ws) = (map (fun v => QVal v true) st, []).
Proof.
  revert ws; induction st as [|x t IH]; intros [|w ws] L; simpl in L; try lia; cbn [map qspec_from qspec_step].
  - reflexivity.
  - rewrite IH by lia. reflexivity.
Qed.

Lemma sspec_push st vs :
  sspec_from st (map SPush vs) = (map (fun _ => QUnit) vs, rev vs ++ st).
Proof.
  revert st; induction vs as [|v t IH]; intro st; cbn [map sspec_from sspec_step rev].
  - reflexivity.
  - rewrite IH, <- app_assoc. reflexivity.
Qed.

Lemma sspec_from_app st ops1 ops2 :
  sspec_from st (ops1 ++ ops2) =
  (fst (sspec_from st ops1) ++ fst (sspec_from (snd (sspec_from st ops1)) ops2),
   snd (sspec_from (snd (sspec_from st ops1)) ops2)).
Proof.
  revert st; induction ops1 as [|op t IH]; intro st; cbn [app sspec_from fst snd].
  - destruct (sspec_from st ops2); reflexivity.
  - destruct (sspec_step op st) as [o st1]. rewrite IH.
    destruct (sspec_from st1 t) as [os st2]. cbn [fst snd]. reflexivity.
Qed.

Lemma sspec_pop (A : Type) st (ws : list A) : length ws = length st ->
  sspec_from st (map (fun _ => SPop) ws) = (map (fun v => QVal v true) st, []).
Proof.
  revert ws; induction st as [|x t IH]; intros [|w ws] L; simpl in L; try lia; cbn [map sspec_from sspec_step].
  - reflexivity.
  - rewrite IH by lia. reflexivity.
Qed.

Theorem spec_orders vs :
  fst (qspec_from [] (map QEnqueue vs ++ map (fun _ => QDequeue) vs)) =
    map (fun _ => QUnit) vs ++ map (fun v => QVal v true) vs /\
  fst (sspec_from [] (map SPush vs ++ map (fun _ => SPop) vs)) =
    map (fun _ => QUnit) vs ++ map (fun v => QVal v true) (rev vs).
Proof.
  split.
  - rewrite qspec_from_app, qspec_enq. cbn [fst snd app]. rewrite qspec_deq by reflexivity. reflexivity.
  - rewrite sspec_from_app, sspec_push. cbn [fst snd]. rewrite app_nil_r.
    rewrite sspec_pop by (rewrite rev_length; reflexivity). reflexivity.
Qed.

(* ---- order under every interleaving; Peek agrees with the next removal ---- *)
(* whatever the interleaving: (values dequeued so far) ++ (contents) = (initial contents) ++ (values enqueued) *)
Lemma qspec_conservation ops : forall st,
  deq_vals ops (fst (qspec_from st ops)) ++ snd (qspec_from st ops) = st ++ enq_vals ops.
Proof.
  induction ops as [|op t IH]; intro st; cbn [qspec_from].
  - cbn. rewrite app_nil_r. reflexivity.
  - destruct op; cbn [qspec_step].
    + specialize (IH (st ++ [v])). destruct (qspec_from (st ++ [v]) t) as [os st2]. cbn [fst snd deq_vals enq_vals] in *.
      rewrite IH, <- app_assoc. reflexivity.
    + destruct st as [|x u].
      * specialize (IH []). destruct (qspec_from [] t) as [os st2]. cbn [fst snd deq_vals enq_vals] in *. exact IH.
      * specialize (IH u). destruct (qspec_from u t) as [os st2]. cbn [fst snd deq_vals enq_vals] in *.
        simpl. f_equal. exact IH.
    + destruct st as [|x u].
      * specialize (IH []). destruct (qspec_from [] t) as [os st2]. cbn [fst snd deq_vals enq_vals] in *. exact IH.
      * specialize (IH (x :: u)). destruct (qspec_from (x :: u) t) as [os st2]. cbn [fst snd deq_vals enq_vals] in *. exact IH.
    + specialize (IH st). destruct (qspec_from st t) as [os st2]. cbn [fst snd deq_vals enq_vals] in *. exact IH.
Qed.

(* FIFO for the real model, under every interleaving: the values the successful Dequeues return are,
   in order, a prefix of the values enqueued; what is left is the queue's content *)
Theorem queue_order ops :
  exists rest, enq_vals ops = deq_vals ops (fst (qrun ops)) ++ rest.
Proof.
  destruct (queue_fifo ops) as [E _]. rewrite E.
  exists (snd (qspec_from [] ops)). symmetry. apply (qspec_conservation ops []).
Qed.

Corollary queue_kth ops k v :
  nth_error (deq_vals ops (fst (qrun ops))) k = Some v -> nth_error (enq_vals ops) k = Some v.
Proof.
  intro H. destruct (queue_order ops) as (rest & ->). rewrite nth_error_app1; auto.
  apply nth_error_Some. congruence.
Qed.

(* Peek returns what the next Dequeue / Pop returns, and removes nothing *)
Theorem queue_peek_dequeue ops :
  exists o, fst (qrun (ops ++ [QPeek; QDequeue])) = fst (qrun ops) ++ [o; o].
Proof.
  destruct (queue_fifo (ops ++ [QPeek; QDequeue])) as [-> _]. destruct (queue_fifo ops) as [-> _].
  rewrite qspec_from_app. cbn [fst]. destruct (snd (qspec_from [] ops)) as [|x u]; cbn; eauto.
Qed.

Theorem stack_peek_pop newcap ops :
  exists o, fst (srun newcap (ops ++ [SPeek; SPop])) = fst (srun newcap ops) ++ [o; o].
Proof.
  rewrite !stack_lifo, sspec_from_app. cbn [fst]. destruct (snd (sspec_from [] ops)) as [|x u]; cbn; eauto.
Qed.
