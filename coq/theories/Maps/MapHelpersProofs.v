(* Proofs about the model of the map helpers (Maps/MapHelpers.v). Every
   statement holds for every visit order [visit] that is a permutation of the
   map's entries. std++ style. *)
From Typ Require Import Maps.MapHelpers.

Section Proofs.
Context `{Countable K} {V : Type}.
Implicit Types (m : gmap K V) (visit : list (K * V)).

Lemma visit_elem m visit k v : visit ≡ₚ map_to_list m → (k, v) ∈ visit ↔ m !! k = Some v.
Proof. intros Hp. rewrite Hp. apply elem_of_map_to_list. Qed.

Lemma visit_NoDup_fst m visit : visit ≡ₚ map_to_list m → NoDup (visit.*1).
Proof. intros Hp. rewrite Hp. apply NoDup_fst_map_to_list. Qed.

(* ---- ContainsValue, KeyOf ---- *)
Section Search.
Context (veqb : V → V → bool) (veqb_spec : ∀ x y, veqb x y = true ↔ x = y).

Lemma containsvalue_loop_spec value visit :
  containsvalue_loop veqb value visit = true ↔ ∃ k, (k, value) ∈ visit.
Proof.
  induction visit as [|[k v] rest IH]; simpl.
  - split; [done|]. intros [k Hk]. by apply elem_of_nil in Hk.
  - destruct (veqb v value) eqn:E.
    + apply veqb_spec in E as ->. split; [|done]. intros _. exists k. left.
    + rewrite IH. split.
      * intros [k' Hk']. exists k'. by right.
      * intros [k' Hk']. apply elem_of_cons in Hk' as [Heq|Hin]; [|by exists k'].
        injection Heq as -> ->. assert (veqb v v = true) by by apply veqb_spec. congruence.
Qed.

Lemma containsvalue_correct m visit value : visit ≡ₚ map_to_list m →
  containsvalue veqb m visit value = true ↔ ∃ k, m !! k = Some value.
Proof.
  intros Hp. unfold containsvalue. rewrite containsvalue_loop_spec.
  split; intros [k Hk]; exists k; by apply (visit_elem m visit).
Qed.

Lemma keyof_loop_spec zero value visit :
  match keyof_loop veqb zero value visit with
  | (k, true) => (k, value) ∈ visit
  | (k, false) => k = zero ∧ ∀ k', (k', value) ∉ visit
  end.
Proof.
  induction visit as [|[k v] rest IH]; simpl.
  - split; [done|]. intros k'. apply not_elem_of_nil.
  - destruct (veqb v value) eqn:E.
    + apply veqb_spec in E as ->. left.
    + destruct (keyof_loop veqb zero value rest) as [k0 [|]].
      * by right.
      * destruct IH as [-> IH]. split; [done|]. intros k' Hk'.
        apply elem_of_cons in Hk' as [Heq|Hin]; [|by apply (IH k')].
        injection Heq as -> ->. assert (veqb v v = true) by by apply veqb_spec. congruence.
Qed.

(* found: the returned key holds the value; not found: zero key, and no key holds the value *)
Lemma keyof_correct zero m visit value : visit ≡ₚ map_to_list m →
  match keyof veqb zero m visit value with
  | (k, true) => m !! k = Some value
  | (k, false) => k = zero ∧ ∀ k', m !! k' ≠ Some value
  end.
Proof.
  intros Hp. unfold keyof. pose proof (keyof_loop_spec zero value visit) as Hs.
  destruct (keyof_loop veqb zero value visit) as [k [|]].
  - by apply (visit_elem m visit).
  - destruct Hs as [-> Hs]. split; [done|]. intros k' Hk'. apply (Hs k'). by apply (visit_elem m visit).
Qed.
End Search.

(* ---- Clone ---- *)
Lemma clone_loop_foldr visit : ∀ newMap,
  clone_loop visit newMap = foldr (λ p, <[p.1 := p.2]>) newMap (reverse visit).
Proof.
  induction visit as [|[k v] rest IH]; intros newMap; simpl; [done|].
  rewrite IH, reverse_cons, foldr_app. done.
Qed.

Lemma clone_correct m visit : visit ≡ₚ map_to_list m → clone m visit = m.
Proof.
  intros Hp. unfold clone. rewrite clone_loop_foldr.
  change (foldr (λ p : K * V, <[p.1:=p.2]>) (∅ : gmap K V) (reverse visit)) with (list_to_map (reverse visit) : gmap K V).
  symmetry. apply list_to_map_flip. rewrite reverse_Permutation. done.
Qed.

(* ---- Clear ---- *)
Lemma clear_loop_lookup visit : ∀ m k,
  clear_loop visit m !! k = if decide (k ∈ visit.*1) then None else m !! k.
Proof.
  induction visit as [|[k0 v0] rest IH]; intros m k; simpl.
  - destruct (decide (k ∈ [])) as [Hin|]; [by apply elem_of_nil in Hin|done].
  - rewrite IH. destruct (decide (k ∈ rest.*1)) as [Hin|Hnin].
    + rewrite decide_True; [done|by right].
    + destruct (decide (k = k0)) as [->|Hne].
      * rewrite lookup_delete. rewrite decide_True; [done|left].
      * rewrite lookup_delete_ne by done. rewrite decide_False; [done|].
        intros Hin. apply elem_of_cons in Hin as [?|?]; done.
Qed.

Lemma clear_correct m visit : visit ≡ₚ map_to_list m → clear m visit = ∅.
Proof.
  intros Hp. apply map_empty. intros k. unfold clear. rewrite clear_loop_lookup.
  destruct (decide (k ∈ visit.*1)) as [|Hnin]; [done|].
  destruct (m !! k) as [v|] eqn:E; [|done]. exfalso. apply Hnin.
  apply elem_of_list_fmap. exists (k, v). split; [done|]. by apply (visit_elem m visit).
Qed.

(* ---- HasKey ---- *)
Lemma haskey_correct m k : haskey m k = true ↔ is_Some (m !! k).
Proof. unfold haskey. destruct (m !! k); split; try done. by intros [? ?]. Qed.

(* ---- Keys, Values ---- *)
Lemma keys_loop_app visit : ∀ acc, keys_loop visit acc = acc ++ visit.*1.
Proof.
  induction visit as [|[k v] rest IH]; intros acc; simpl; [by rewrite app_nil_r|].
  rewrite IH, <- app_assoc. done.
Qed.

Lemma values_loop_app visit : ∀ acc, values_loop visit acc = acc ++ visit.*2.
Proof.
  induction visit as [|[k v] rest IH]; intros acc; simpl; [by rewrite app_nil_r|].
  rewrite IH, <- app_assoc. done.
Qed.

(* the keys: each key of the map exactly once *)
Lemma keys_correct m visit : visit ≡ₚ map_to_list m →
  keys m visit ≡ₚ (map_to_list m).*1 ∧ List.NoDup (keys m visit) ∧ ∀ k, k ∈ keys m visit ↔ is_Some (m !! k).
Proof.
  intros Hp. unfold keys. rewrite keys_loop_app. simpl. split; [by rewrite Hp|]. split.
  - apply NoDup_ListNoDup. by apply (visit_NoDup_fst m).
  - intros k. rewrite elem_of_list_fmap. split.
    + intros [[k' v] [-> Hin]]. exists v. by apply (visit_elem m visit).
    + intros [v Hv]. exists (k, v). split; [done|]. by apply (visit_elem m visit).
Qed.

(* the values: one per key, i.e. a permutation of the values of the map's entries *)
Lemma values_correct m visit : visit ≡ₚ map_to_list m →
  values m visit ≡ₚ (map_to_list m).*2 ∧ length (values m visit) = size m ∧
  ∀ v, v ∈ values m visit ↔ ∃ k, m !! k = Some v.
Proof.
  intros Hp. unfold values. rewrite values_loop_app. simpl. split; [by rewrite Hp|]. split.
  - rewrite fmap_length, (Permutation_length Hp). done.
  - intros v. rewrite elem_of_list_fmap. split.
    + intros [[k v'] [-> Hin]]. exists k. by apply (visit_elem m visit).
    + intros [k Hk]. exists (k, v). split; [done|]. by apply (visit_elem m visit).
Qed.

End Proofs.
