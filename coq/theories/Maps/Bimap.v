(* Model of maps.Bimap (/repo/maps/bimap.go) together with maps.Clone and
   maps.Clear (/repo/maps/maps.go), transcribed statement by statement.

   A Go map[int]int is [option (gmap Z Z)]: [None] is the nil map (the two
   fields of the zero-value Bimap), [Some g] an allocated map with contents g.
   Reading a nil map yields the zero value, [delete] on it is a no-op, writing
   to it panics. Every loop that ranges over a map takes the order in which
   the keys are visited as an explicit argument.

   A history acts on a list of Bimap values (handles): handle 0 is a zero-value
   Bimap, Clone appends a new handle. Value model: two handles never share
   memory in the model; that the real Clone shares nothing with its receiver
   is checked by the harness only.
   Definitions only. *)
From Typ Require Export Lib.Base.
From stdpp Require Export gmap.
Local Open Scope Z_scope.

Notation gomap := (option (gmap Z Z)) (only parsing).

(* v, ok := m[k] *)
Definition map_get (m : gomap) (k : Z) : Z * bool :=
  match m with
  | None => (0, false)
  | Some g => match g !! k with Some v => (v, true) | None => (0, false) end
  end.

(* delete(m, k) *)
Definition map_delete (m : gomap) (k : Z) : gomap :=
  match m with
  | None => None
  | Some g => Some (delete k g)
  end.

(* m[k] = v *)
Definition map_set (m : gomap) (k v : Z) : result gomap :=
  match m with
  | None => Panic NilDeref (* assignment to entry in nil map *)
  | Some g => Ok (Some (<[k:=v]> g))
  end.

(* len(m) *)
Definition map_len (m : gomap) : Z :=
  match m with
  | None => 0
  | Some g => Z.of_nat (size g)
  end.

(* m == nil *)
Definition map_is_nil (m : gomap) : bool :=
  match m with None => true | Some _ => false end.

(* The keys of m in one fixed order; used as the visit order of the loops whose
   order cannot be observed (the loops of maps.Clone and maps.Clear). The
   proofs show that every other order gives the same result. *)
Definition map_keys (m : gomap) : list Z :=
  match m with
  | None => []
  | Some g => (map_to_list g).*1
  end.

(* ---- maps.Clone ----
   newMap := make(M, len(m)); for k, v := range m { newMap[k] = v }; return newMap
   [order] = the keys in the order the range statement produces them; m is not
   modified by the loop, so k is produced with the value m[k]. A key of
   [order] that m does not hold cannot be produced by the range statement: the
   loop skips it (excluded by the hypothesis of the theorems). *)
Fixpoint maps_clone_loop (m : gomap) (order : list Z) (newMap : gomap) : result gomap :=
  match order with
  | [] => Ok newMap
  | k :: rest =>
      let '(v, ok) := map_get m k in
      if ok then
        do newMap' <- map_set newMap k v;
        maps_clone_loop m rest newMap'
      else maps_clone_loop m rest newMap
  end.

Definition maps_clone_order (order : list Z) (m : gomap) : result gomap :=
  let newMap : gomap := Some ∅ in
  maps_clone_loop m order newMap.

Definition maps_clone (m : gomap) : result gomap := maps_clone_order (map_keys m) m.

(* ---- maps.Clear ----
   for k := range m { delete(m, k) }
   The loop deletes from the map it ranges over; Go produces a key only if it
   is still present when its turn comes, hence the look-up in the current m. *)
Fixpoint maps_clear_loop (order : list Z) (m : gomap) : gomap :=
  match order with
  | [] => m
  | k :: rest =>
      let '(_, ok) := map_get m k in
      if ok then maps_clear_loop rest (map_delete m k)
      else maps_clear_loop rest m
  end.

Definition maps_clear_order (order : list Z) (m : gomap) : gomap := maps_clear_loop order m.

Definition maps_clear (m : gomap) : gomap := maps_clear_order (map_keys m) m.

(* ---- Bimap ---- *)
Record bimap := Bimap { forward : gomap; reverse : gomap }.

(* var b maps.Bimap[int, int] *)
Definition zero_bimap : bimap := Bimap None None.

(* func (b *Bimap) GetForward(key) (V, bool) { value, ok := b.forward[key]; return value, ok } *)
Definition GetForward (b : bimap) (key : Z) : Z * bool :=
  let '(value, ok) := map_get (forward b) key in (value, ok).

(* func (b *Bimap) GetReverse(value) (K, bool) { key, ok := b.reverse[value]; return key, ok } *)
Definition GetReverse (b : bimap) (value : Z) : Z * bool :=
  let '(key, ok) := map_get (reverse b) value in (key, ok).

(* _, ok := b.forward[key]; return ok *)
Definition ContainsForward (b : bimap) (key : Z) : bool :=
  let '(_, ok) := map_get (forward b) key in ok.

(* _, ok := b.reverse[value]; return ok *)
Definition ContainsReverse (b : bimap) (value : Z) : bool :=
  let '(_, ok) := map_get (reverse b) value in ok.

(* if b == nil { return 0 }; return len(b.forward)      ([None] = nil receiver) *)
Definition Len (b : option bimap) : Z :=
  match b with
  | None => 0
  | Some b => map_len (forward b)
  end.

Definition Add (b : bimap) (key value : Z) : result bimap :=
  (* if oldVal, ok := b.GetForward(key); ok { delete(b.reverse, oldVal) } *)
  let b :=
    let '(oldVal, ok) := GetForward b key in
    if ok then Bimap (forward b) (map_delete (reverse b) oldVal) else b in
  (* if oldKey, ok := b.GetReverse(value); ok { delete(b.forward, oldKey) } *)
  let b :=
    let '(oldKey, ok) := GetReverse b value in
    if ok then Bimap (map_delete (forward b) oldKey) (reverse b) else b in
  (* if b.forward == nil { b.forward = make(map[K]V); b.reverse = make(map[V]K) } *)
  let b :=
    if map_is_nil (forward b) then Bimap (Some ∅) (Some ∅) else b in
  (* b.forward[key] = value *)
  do fwd <- map_set (forward b) key value;
  let b := Bimap fwd (reverse b) in
  (* b.reverse[value] = key *)
  do rev <- map_set (reverse b) value key;
  Ok (Bimap (forward b) rev).

Definition RemoveForward (b : bimap) (key : Z) : bimap :=
  (* if value, ok := b.forward[key]; ok { delete(b.reverse, value); delete(b.forward, key) } *)
  let '(value, ok) := map_get (forward b) key in
  if ok then
    let b := Bimap (forward b) (map_delete (reverse b) value) in
    Bimap (map_delete (forward b) key) (reverse b)
  else b.

Definition RemoveReverse (b : bimap) (value : Z) : bimap :=
  (* if key, ok := b.reverse[value]; ok { delete(b.reverse, value); delete(b.forward, key) } *)
  let '(key, ok) := map_get (reverse b) value in
  if ok then
    let b := Bimap (forward b) (map_delete (reverse b) value) in
    Bimap (map_delete (forward b) key) (reverse b)
  else b.

(* for k, v := range b.forward { if !f(k, v) { return } }
   The callback may carry state (a Go closure): f s k v = (new state, result).
   [order] = keys in the order the range statement produces them; the callback
   does not touch the Bimap. A key of [order] that is not in b.forward cannot
   be produced by the range statement: skipped (excluded by the hypothesis of
   the theorems). *)
Fixpoint Range_loop {T : Type} (fwd : gomap) (order : list Z) (f : T -> Z -> Z -> T * bool) (s : T) : T :=
  match order with
  | [] => s
  | k :: rest =>
      let '(v, ok) := map_get fwd k in
      if ok then
        let '(s', continue) := f s k v in
        if negb continue then s' (* return *)
        else Range_loop fwd rest f s'
      else Range_loop fwd rest f s
  end.

Definition Range {T : Type} (b : bimap) (order : list Z) (f : T -> Z -> Z -> T * bool) (s : T) : T :=
  Range_loop (forward b) order f s.

(* Clear(b.forward); Clear(b.reverse) *)
Definition Clear_order (order_f order_r : list Z) (b : bimap) : bimap :=
  let b := Bimap (maps_clear_order order_f (forward b)) (reverse b) in
  Bimap (forward b) (maps_clear_order order_r (reverse b)).

Definition Clear (b : bimap) : bimap :=
  Clear_order (map_keys (forward b)) (map_keys (reverse b)) b.

(* return Bimap{forward: Clone(b.forward), reverse: Clone(b.reverse)} *)
Definition Clone_order (order_f order_r : list Z) (b : bimap) : result bimap :=
  do fwd <- maps_clone_order order_f (forward b);
  do rev <- maps_clone_order order_r (reverse b);
  Ok (Bimap fwd rev).

Definition Clone (b : bimap) : result bimap :=
  Clone_order (map_keys (forward b)) (map_keys (reverse b)) b.

(* ---- histories ---- *)
Inductive op :=
| OAdd (h : nat) (k v : Z)
| ORemoveForward (h : nat) (k : Z)
| ORemoveReverse (h : nat) (v : Z)
| OClear (h : nat)
| OClone (h : nat).          (* appends the clone as a new handle *)

Notation state := (list bimap) (only parsing).

Definition init_state : state := [zero_bimap].

(* A history that names a handle which does not exist is not a Go program;
   it is reported as [Panic OtherPanic] (never as a Go panic kind the code can
   raise) and excluded by [wf_ops] in the theorems. *)
Definition get_handle (st : state) (h : nat) : result bimap :=
  match st !! h with
  | Some b => Ok b
  | None => Panic OtherPanic
  end.

Definition set_handle (st : state) (h : nat) (b : bimap) : state := <[h:=b]> st.

Definition step (st : state) (o : op) : result state :=
  match o with
  | OAdd h k v => do b <- get_handle st h; do b' <- Add b k v; Ok (set_handle st h b')
  | ORemoveForward h k => do b <- get_handle st h; Ok (set_handle st h (RemoveForward b k))
  | ORemoveReverse h v => do b <- get_handle st h; Ok (set_handle st h (RemoveReverse b v))
  | OClear h => do b <- get_handle st h; Ok (set_handle st h (Clear b))
  | OClone h => do b <- get_handle st h; do c <- Clone b; Ok (st ++ [c])
  end.

Fixpoint run_from (st : state) (ops : list op) : result state :=
  match ops with
  | [] => Ok st
  | o :: rest => do st' <- step st o; run_from st' rest
  end.

Definition run (ops : list op) : result state := run_from init_state ops.

(* every handle named by the history exists when it is used *)
Definition op_handle (o : op) : nat :=
  match o with OAdd h _ _ | ORemoveForward h _ | ORemoveReverse h _ | OClear h | OClone h => h end.
Definition op_is_clone (o : op) : bool := match o with OClone _ => true | _ => false end.
Fixpoint wf_ops_from (n : nat) (ops : list op) : bool :=
  match ops with
  | [] => true
  | o :: rest => (op_handle o <? n)%nat && wf_ops_from (if op_is_clone o then S n else n) rest
  end.
Definition wf_ops (ops : list op) : bool := wf_ops_from 1 ops.

(* ---- Reference (the statement of C11): a Bimap is a finite set of pairs in
   which no key and no value occurs twice, i.e. an injective finite map. ---- *)
Notation spec := (gmap Z Z) (only parsing).

Definition injective (m : spec) : Prop :=
  forall k1 k2 v, m !! k1 = Some v -> m !! k2 = Some v -> k1 = k2.

(* remove the pair that has value v, if any *)
Definition spec_remove_value (v : Z) (m : spec) : spec := filter (fun kv => kv.2 <> v) m.

(* Add evicts the pair with key k and the pair with value v, then inserts (k,v) *)
Definition spec_add (k v : Z) (m : spec) : spec := <[k:=v]> (spec_remove_value v (delete k m)).

Definition spec_step (sp : list spec) (o : op) : option (list spec) :=
  match o with
  | OAdd h k v => m ← sp !! h; Some (<[h:=spec_add k v m]> sp)
  | ORemoveForward h k => m ← sp !! h; Some (<[h:=delete k m]> sp)
  | ORemoveReverse h v => m ← sp !! h; Some (<[h:=spec_remove_value v m]> sp)
  | OClear h => m ← sp !! h; Some (<[h:=∅]> sp)
  | OClone h => m ← sp !! h; Some (sp ++ [m])
  end.

Fixpoint spec_run_from (sp : list spec) (ops : list op) : option (list spec) :=
  match ops with
  | [] => Some sp
  | o :: rest => sp' ← spec_step sp o; spec_run_from sp' rest
  end.

Definition spec_run (ops : list op) : option (list spec) := spec_run_from [∅] ops.

(* the pair set a Bimap value stands for: its forward direction *)
Definition abs (b : bimap) : spec := default ∅ (forward b).

(* what Range hands to its callback when the pairs come in the order [ps]:
   the callback is called on the pairs in turn until it returns false *)
Fixpoint visit {T : Type} (ps : list (Z * Z)) (f : T -> Z -> Z -> T * bool) (s : T) : T :=
  match ps with
  | [] => s
  | (k, v) :: rest =>
      let '(s', continue) := f s k v in
      if continue then visit rest f s' else s'
  end.

(* a callback that records its arguments in front of another callback *)
Definition recording {T : Type} (f : T -> Z -> Z -> T * bool) : list (Z * Z) * T -> Z -> Z -> (list (Z * Z) * T) * bool :=
  fun '(calls, s) k v => let '(s', c) := f s k v in ((calls ++ [(k, v)], s'), c).
